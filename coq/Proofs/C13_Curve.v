(* C13 - list-level theorems about the evaluation model (Model/C13_Eval.v) over an ABSTRACT group:
   knot continuity, local support, reproduction of constants, left equivariance. *)
From Coq Require Import ZArith QArith Qreduction Bool List Lia Lqa.
From SV Require Import Model.C13_BSplineIdx Model.C13_Eval Proofs.C13_Idx.
Import ListNotations.
Local Open Scope Q_scope.

(* the laws of a Lie group with surjective exponential that the proofs use (all hold, in exact arithmetic, for
   SO3, SE2, SE3, Bundles of them and vector spaces; log is a right inverse of exp everywhere) *)
Record Laws {G T : Type} {op : G -> G -> G} {e : G} {inv : G -> G} {exp : T -> G} {log : G -> T}
       {Ad : G -> T -> T} {br : T -> T -> T} {tadd : T -> T -> T} {tzero : T} {smul : Q -> T -> T} : Prop := {
  op_assoc : forall a b c, op a (op b c) = op (op a b) c;
  op_e_l : forall a, op e a = a;
  op_e_r : forall a, op a e = a;
  inv_l : forall a, op (inv a) a = e;
  inv_r : forall a, op a (inv a) = e;
  exp_log : forall a, exp (log a) = a;
  exp_zero : exp tzero = e;
  log_e : log e = tzero;
  Ad_e : forall w, Ad e w = w;
  Ad_zero : forall g, Ad g tzero = tzero;
  br_zero_r : forall w, br w tzero = tzero;
  tadd_0_l : forall w, tadd tzero w = w;
  tadd_0_r : forall w, tadd w tzero = w;
  smul_0 : forall v, smul 0 v = tzero;
  smul_1 : forall v, smul 1 v = v;
  smul_zero : forall q, smul q tzero = tzero;
}.

(* ---------------------------------------------------------------- generic list lemmas (Coq 8.16 stdlib lacks them) *)
Lemma skipn_S_cons (A : Type) i : forall (l : list A) a tl, skipn i l = a :: tl -> skipn (S i) l = tl.
Proof.
  induction i as [|i IH]; intros [|x l] a tl H; cbn [skipn] in *; try discriminate.
  - now inversion H.
  - now apply IH with (a := a).
Qed.

Lemma nth_skipn_add (A : Type) (d : A) i : forall (l : list A) k, nth k (skipn i l) d = nth (i + k) l d.
Proof.
  induction i as [|i IH]; intros [|x l] k; cbn [skipn Nat.add]; try reflexivity.
  - now destruct k.
  - cbn [nth]. apply IH.
Qed.

Lemma firstn_S_snoc (A : Type) (d : A) n : forall (l : list A),
  (n < length l)%nat -> firstn (S n) l = firstn n l ++ [nth n l d].
Proof.
  induction n as [|n IH]; intros [|x l] H; cbn [length] in H; try lia.
  - reflexivity.
  - change (firstn (S (S n)) (x :: l)) with (x :: firstn (S n) l).
    rewrite IH by lia. reflexivity.
Qed.

(* the shape the continuity theorem needs, for the outputs of order <= r:
   coefficients at u=1 are (1,0,0) :: tl   and at u=0 they are   tl ++ [(0,0,0)]
   i.e.  B~_1(1) = 1, B~_1'(1) = B~_1''(1) = 0,  B~_{j+1}^(p)(1) = B~_j^(p)(0),  B~_K^(p)(0) = 0   (p <= r) *)
Definition knot_shape (r : nat) (M : list (list Q)) (K : nat) : Prop :=
  let c1 := mask r (coefs M K 1) in
  let c0 := mask r (coefs M K 0) in
  c1 = (1, 0, 0) :: tl c1 /\ c0 = tl c1 ++ [(0, 0, 0)].

(* C^(K-1), of which the code outputs value, velocity, acceleration *)
Definition order_of (K : nat) : nat := Nat.min (K - 1) 2.

Lemma combine_snoc (A B : Type) (l : list A) : forall (l' : list B) a b,
  length l = length l' -> combine (l ++ [a]) (l' ++ [b]) = combine l l' ++ [(a, b)].
Proof.
  induction l as [|x l IH]; intros [|y l'] a b H; cbn [length] in H; try discriminate.
  - reflexivity.
  - cbn [app combine]. f_equal. apply IH. lia.
Qed.

Lemma firstn_ext (A : Type) (d : A) n : forall (l l' : list A),
  length l = length l' -> (forall k, (k < n)%nat -> nth k l d = nth k l' d) -> firstn n l = firstn n l'.
Proof.
  induction n as [|n IH]; intros [|x l] [|y l'] Hlen H; cbn [length] in Hlen; try discriminate; try reflexivity.
  cbn [firstn]. f_equal.
  - apply (H 0%nat). lia.
  - apply IH; [lia|]. intros k Hk. apply (H (S k)). lia.
Qed.

Lemma skipn_repeat' (A : Type) (x : A) i : forall n, skipn i (repeat x n) = repeat x (n - i).
Proof.
  induction i as [|i IH]; intros [|n]; cbn [skipn repeat Nat.sub]; try reflexivity. apply IH.
Qed.

Lemma firstn_repeat' (A : Type) (x : A) k : forall n, (k <= n)%nat -> firstn k (repeat x n) = repeat x k.
Proof.
  induction k as [|k IH]; intros [|n] H; cbn [firstn repeat]; try reflexivity; try lia.
  f_equal. apply IH. lia.
Qed.

Section Curve.
  Variables G T : Type.
  Variable op : G -> G -> G.
  Variable e : G.
  Variable inv : G -> G.
  Variable exp : T -> G.
  Variable log : G -> T.
  Variable Ad : G -> T -> T.
  Variable br : T -> T -> T.
  Variable tadd : T -> T -> T.
  Variable tzero : T.
  Variable smul : Q -> T -> T.
  Hypothesis L : @Laws G T op e inv exp log Ad br tadd tzero smul.

  Notation step := (step G T op inv exp Ad br tadd smul).
  Notation eval_vs := (eval_vs G T op e inv exp Ad br tadd tzero smul).
  Notation eval_gs := (eval_gs G T op e inv exp log Ad br tadd tzero smul).
  Notation diffs := (diffs G T op inv log).
  Notation rminus := (rminus G T op inv log).
  Notation window := (window G).
  Notation window_eval := (window_eval G T op e inv exp log Ad br tadd tzero smul).
  Notation bs_eval := (bs_eval G T op e inv exp log Ad br tadd tzero smul).
  Notation outputs_upto := (outputs_upto G T).

  Lemma inv_e : inv e = e.
  Proof. rewrite <- (op_e_l L (inv e)). apply (inv_r L). Qed.

  Lemma inv_op a b : inv (op a b) = op (inv b) (inv a).
  Proof.
    assert (H : op (inv (op a b)) (op a b) = e) by apply (inv_l L).
    assert (H2 : op (op (inv (op a b)) (op a b)) (op (inv b) (inv a)) = op (inv b) (inv a)).
    { rewrite H. apply (op_e_l L). }
    rewrite <- H2. rewrite <- (op_assoc L (inv (op a b))).
    replace (op (op a b) (op (inv b) (inv a))) with e; [now rewrite (op_e_r L)|].
    rewrite (op_assoc L (op a b)). rewrite <- (op_assoc L a b). rewrite (inv_r L), (op_e_r L), (inv_r L).
    reflexivity.
  Qed.

  (* ---------------------------------------------------------------- fold lemmas *)
  (* the value component of the loop is a left translate; velocity / acceleration do not depend on it *)
  Lemma fold_translate l : forall h g w a,
    fold_left step l (op h g, w, a) =
    let '(g', w', a') := fold_left step l (g, w, a) in (op h g', w', a').
  Proof.
    induction l as [|[[[b db] d2b] v] l IH]; intros h g w a.
    - reflexivity.
    - cbn [fold_left]. unfold step at 2 4. rewrite <- (op_assoc L). apply IH.
  Qed.

  (* a trailing factor with coefficients (0,0,0) changes nothing *)
  Lemma step_zero s v : step s ((0, 0, 0), v) = s.
  Proof.
    destruct s as [[g w] a]. unfold step.
    rewrite !(smul_0 L), (exp_zero L), inv_e, (op_e_r L), !(Ad_e L), !(tadd_0_r L). reflexivity.
  Qed.

  (* a leading factor with coefficients (1,0,0) contributes exp(v) to the value and nothing to vel/acc *)
  Lemma step_one v : step (e, tzero, tzero) ((1, 0, 0), v) = (exp v, tzero, tzero).
  Proof.
    unfold step. rewrite !(smul_0 L), (smul_1 L), (op_e_l L), !(Ad_zero L), !(tadd_0_r L). reflexivity.
  Qed.

  (* masking: the outputs of order <= r only read the coefficients of order <= r *)
  Definition agree (r : nat) (s s' : G * T * T) : Prop :=
    let '(g, w, a) := s in let '(g', w', a') := s' in
    g = g' /\ ((1 <= r)%nat -> w = w') /\ ((2 <= r)%nat -> a = a').

  Lemma step_mask r s s' c v : agree r s s' -> agree r (step s (c, v)) (step s' (mask1 r c, v)).
  Proof.
    destruct s as [[g w] a], s' as [[g' w'] a'], c as [[b db] d2b].
    intros [Hg [Hw Ha]]. subst g'. unfold mask1, step, agree.
    split; [reflexivity|]. split.
    - intro H1. destruct (Nat.leb_spec 1 r); [|lia]. now rewrite Hw.
    - intro H2. destruct (Nat.leb_spec 1 r); [|lia]. destruct (Nat.leb_spec 2 r); [|lia].
      rewrite Hw, Ha by lia. reflexivity.
  Qed.

  Lemma fold_mask r cs : forall vs s s',
    agree r s s' -> agree r (fold_left step (combine cs vs) s) (fold_left step (combine (mask r cs) vs) s').
  Proof.
    induction cs as [|c cs IH]; intros vs s s' H.
    - exact H.
    - destruct vs as [|v vs]; [exact H|]. cbn [mask map combine fold_left].
      apply IH. now apply step_mask.
  Qed.

  Lemma agree_outputs r s s' : agree r s s' -> outputs_upto r s = outputs_upto r s'.
  Proof.
    destruct s as [[g w] a], s' as [[g' w'] a']. intros [Hg [Hw Ha]]. unfold C13_Eval.outputs_upto.
    subst g'. destruct (Nat.leb_spec 1 r); destruct (Nat.leb_spec 2 r);
      try rewrite Hw by lia; try rewrite Ha by lia; reflexivity.
  Qed.

  Lemma agree_refl r s : agree r s s.
  Proof. destruct s as [[g w] a]. repeat split. Qed.

  Lemma eval_gs_mask r cs gs : outputs_upto r (eval_gs cs gs) = outputs_upto r (eval_gs (mask r cs) gs).
  Proof.
    destruct gs as [|g0 gs]; [reflexivity|].
    unfold C13_Eval.eval_gs, C13_Eval.eval_vs.
    pose proof (fold_mask r cs (diffs (g0 :: gs)) _ _ (agree_refl r (e, tzero, tzero))) as H.
    destruct (fold_left step (combine cs (diffs (g0 :: gs))) (e, tzero, tzero)) as [[g w] a].
    destruct (fold_left step (combine (mask r cs) (diffs (g0 :: gs))) (e, tzero, tzero)) as [[g' w'] a'].
    apply agree_outputs. destruct H as [Hg [Hw Ha]]. subst g'. repeat split; assumption.
  Qed.

  (* ---------------------------------------------------------------- list lemmas *)
  Lemma diffs_length gs : length (diffs gs) = (length gs - 1)%nat.
  Proof.
    induction gs as [|a [|b tl] IH]; [reflexivity|reflexivity|].
    change (diffs (a :: b :: tl)) with (rminus b a :: diffs (b :: tl)).
    cbn [length] in *. rewrite IH. lia.
  Qed.

  Lemma diffs_snoc gs : forall b z, exists y, diffs ((b :: gs) ++ [z]) = diffs (b :: gs) ++ [rminus z y].
  Proof.
    induction gs as [|c gs IH]; intros b z.
    - exists b. reflexivity.
    - destruct (IH c z) as [y Hy]. exists y.
      change (diffs ((b :: c :: gs) ++ [z])) with (rminus c b :: diffs ((c :: gs) ++ [z])).
      rewrite Hy. reflexivity.
  Qed.

  (* two consecutive windows overlap in K elements *)
  Lemma windows_overlap K ctrl i d :
    (i + K + 2 <= length ctrl)%nat ->
    exists a m z, length m = K /\ window K ctrl i = a :: m /\ window K ctrl (S i) = m ++ [z]
                  /\ z = nth (i + K + 1) ctrl d.
  Proof.
    intro H. unfold C13_Eval.window.
    remember (skipn i ctrl) as l eqn:El.
    assert (Hl : (K + 2 <= length l)%nat) by (subst l; rewrite skipn_length; lia).
    destruct l as [|a l]; [cbn in Hl; lia|].
    assert (E2 : skipn (S i) ctrl = l).
    { apply skipn_S_cons with (a := a). now symmetry. }
    exists a, (firstn K l), (nth K l d). cbn [length] in Hl.
    repeat split.
    - rewrite firstn_length. lia.
    - rewrite E2. apply firstn_S_snoc. lia.
    - rewrite <- E2. rewrite nth_skipn_add. f_equal. lia.
  Qed.

  (* ---------------------------------------------------------------- knot continuity *)
  Lemma knot_join tl a m z :
    S (length tl) = length m ->
    eval_gs ((1, 0, 0) :: tl) (a :: m) = eval_gs (tl ++ [(0, 0, 0)]) (m ++ [z]).
  Proof.
    intro Hlen. destruct m as [|b m]; [discriminate|]. cbn [length] in Hlen.
    destruct (diffs_snoc m b z) as [y Hy].
    assert (HD : length tl = length (diffs (b :: m))) by (rewrite diffs_length; cbn [length]; lia).
    unfold C13_Eval.eval_gs. cbn [app]. change ((b :: m) ++ [z]) with (b :: m ++ [z]) in Hy. rewrite Hy.
    change (diffs (a :: b :: m)) with (rminus b a :: diffs (b :: m)).
    unfold C13_Eval.eval_vs.
    rewrite combine_snoc by exact HD. rewrite fold_left_app. cbn [combine fold_left].
    rewrite step_zero, step_one.
    rewrite <- (op_e_r L (exp (rminus b a))). rewrite fold_translate.
    destruct (fold_left step (combine tl (diffs (b :: m))) (e, tzero, tzero)) as [[P W] A].
    f_equal. f_equal. rewrite (op_assoc L). f_equal.
    unfold C13_Eval.rminus. rewrite (exp_log L), (op_assoc L), (inv_r L), (op_e_l L). reflexivity.
  Qed.

  Lemma coefs_length M K u : length (coefs M K u) = K.
  Proof. unfold coefs. now rewrite map_length, seq_length. Qed.

  (* value, velocity and acceleration of order <= r agree from both sides of the knot between windows i and i+1,
     for every control-point sequence, in every group satisfying the laws *)
  Theorem knot_continuity r M K ctrl i :
    (1 <= K)%nat -> knot_shape r M K -> (i + K + 2 <= length ctrl)%nat ->
    outputs_upto r (window_eval M K ctrl i 1) = outputs_upto r (window_eval M K ctrl (S i) 0).
  Proof.
    intros HK [H1 H0] Hlen. unfold C13_Eval.window_eval.
    destruct (windows_overlap K ctrl i e Hlen) as [a [m [z [Hm [Hw1 [Hw2 _]]]]]].
    rewrite Hw1, Hw2. rewrite (eval_gs_mask r (coefs M K 1)), (eval_gs_mask r (coefs M K 0)).
    rewrite H1, H0. f_equal. apply knot_join.
    assert (Hl : length (mask r (coefs M K 1)) = K) by (unfold mask; now rewrite map_length, coefs_length).
    rewrite H1 in Hl. cbn [length] in Hl. lia.
  Qed.

  (* ---------------------------------------------------------------- local support *)
  Lemma window_ext K (l l' : list G) i d :
    length l = length l' -> (forall k, (i <= k <= i + K)%nat -> nth k l d = nth k l' d) ->
    window K l i = window K l' i.
  Proof.
    intros Hlen H. unfold C13_Eval.window. apply (firstn_ext G d).
    - rewrite !skipn_length. lia.
    - intros k Hk. rewrite !nth_skipn_add. apply H. lia.
  Qed.

  (* moving control point j leaves every evaluation whose window [istar, istar+K] does not contain j untouched *)
  Theorem local_support M K ctrl ctrl' j t0 dt t d :
    length ctrl = length ctrl' -> (forall k, k <> j -> nth k ctrl d = nth k ctrl' d) ->
    let i := Z.to_nat (fst (bs_select (Z.of_nat K) (Z.of_nat (length ctrl)) t0 dt t)) in
    (j < i \/ i + K < j)%nat ->
    bs_eval M K ctrl t0 dt t = bs_eval M K ctrl' t0 dt t.
  Proof.
    intros Hlen Hnth i Hj. unfold C13_Eval.bs_eval. rewrite <- Hlen. subst i.
    destruct (bs_select (Z.of_nat K) (Z.of_nat (length ctrl)) t0 dt t) as [i u]. cbn [fst] in Hj.
    unfold C13_Eval.window_eval. rewrite (window_ext K ctrl ctrl' (Z.to_nat i) d Hlen); [reflexivity|].
    intros k Hk. apply Hnth. lia.
  Qed.

  (* ... in terms of knot intervals: control point j only influences the knot intervals j-K .. j *)
  Corollary local_support_interval M K ctrl ctrl' j m t0 dt t d :
    length ctrl = length ctrl' -> (forall k, k <> j -> nth k ctrl d = nth k ctrl' d) ->
    0 < dt -> (Z.of_nat (length ctrl) <= two63)%Z -> (m + K + 1 <= length ctrl)%nat ->
    t0 + inject_Z (Z.of_nat m) * dt <= t -> t < t0 + inject_Z (Z.of_nat m + 1) * dt ->
    (j < m \/ m + K < j)%nat ->
    bs_eval M K ctrl t0 dt t = bs_eval M K ctrl' t0 dt t.
  Proof.
    intros Hlen Hnth Hdt HN Hm Hlo Hhi Hj.
    apply (local_support M K ctrl ctrl' j t0 dt t d Hlen Hnth).
    destruct (window_spec (Z.of_nat K) (Z.of_nat (length ctrl)) t0 dt t (Z.of_nat m)) as [-> _];
      try assumption; try lia.
    cbn [fst]. rewrite Nat2Z.id. exact Hj.
  Qed.

  (* ---------------------------------------------------------------- constants *)
  Lemma diffs_repeat g n : diffs (repeat g (S n)) = repeat tzero n.
  Proof.
    induction n as [|n IH]; [reflexivity|].
    change (repeat g (S (S n))) with (g :: repeat g (S n)).
    change (diffs (g :: repeat g (S n))) with (rminus g g :: diffs (repeat g (S n))).
    rewrite IH. cbn [repeat]. f_equal. unfold C13_Eval.rminus. now rewrite (inv_l L), (log_e L).
  Qed.

  Lemma step_const g c : step (g, tzero, tzero) (c, tzero) = (g, tzero, tzero).
  Proof.
    destruct c as [[b db] d2b]. unfold step.
    rewrite !(smul_zero L), (exp_zero L), inv_e, (op_e_r L), !(Ad_e L), !(tadd_0_r L), (br_zero_r L),
      (smul_zero L), (tadd_0_r L). reflexivity.
  Qed.

  Lemma fold_const cs : forall n g,
    fold_left step (combine cs (repeat tzero n)) (g, tzero, tzero) = (g, tzero, tzero).
  Proof.
    induction cs as [|c cs IH]; intros [|n] g; try reflexivity.
    cbn [repeat combine fold_left]. rewrite step_const. apply IH.
  Qed.

  (* equal control points give a constant curve with zero velocity and acceleration, for ALL t *)
  Theorem constants M K g n t0 dt t :
    (K + 1 <= n)%nat -> bs_eval M K (repeat g n) t0 dt t = (g, tzero, tzero).
  Proof.
    intro Hn. unfold C13_Eval.bs_eval. rewrite repeat_length.
    pose proof (select_in_range (Z.of_nat K) (Z.of_nat n) t0 dt t ltac:(lia) ltac:(lia)) as Hr.
    destruct (bs_select (Z.of_nat K) (Z.of_nat n) t0 dt t) as [i u]. destruct Hr as [Hi _].
    unfold C13_Eval.window_eval, C13_Eval.window.
    rewrite skipn_repeat', firstn_repeat' by lia.
    unfold C13_Eval.eval_gs. cbn [repeat]. change (g :: repeat g K) with (repeat g (S K)).
    rewrite diffs_repeat. unfold C13_Eval.eval_vs. rewrite fold_const.
    rewrite (op_e_r L), !(smul_zero L). reflexivity.
  Qed.

  (* ---------------------------------------------------------------- left equivariance *)
  Lemma rminus_left h a b : rminus (op h b) (op h a) = rminus b a.
  Proof.
    unfold C13_Eval.rminus. rewrite inv_op. rewrite <- (op_assoc L (inv a)). rewrite (op_assoc L (inv h)).
    now rewrite (inv_l L), (op_e_l L).
  Qed.

  Lemma diffs_left h gs : diffs (map (op h) gs) = diffs gs.
  Proof.
    induction gs as [|a [|b tl] IH]; [reflexivity|reflexivity|].
    change (diffs (map (op h) (a :: b :: tl))) with (rminus (op h b) (op h a) :: diffs (map (op h) (b :: tl))).
    rewrite IH, rminus_left. reflexivity.
  Qed.

  (* multiplying every control point by h on the left multiplies the curve by h and leaves the body velocity and
     acceleration unchanged, for ALL t *)
  Theorem left_equivariance M K ctrl h t0 dt t :
    (K + 1 <= length ctrl)%nat ->
    bs_eval M K (map (op h) ctrl) t0 dt t =
    let '(g, w, a) := bs_eval M K ctrl t0 dt t in (op h g, w, a).
  Proof.
    intro Hn. unfold C13_Eval.bs_eval. rewrite map_length.
    pose proof (select_in_range (Z.of_nat K) (Z.of_nat (length ctrl)) t0 dt t ltac:(lia) ltac:(lia)) as Hr.
    destruct (bs_select (Z.of_nat K) (Z.of_nat (length ctrl)) t0 dt t) as [i u]. destruct Hr as [Hi _].
    unfold C13_Eval.window_eval, C13_Eval.window. rewrite skipn_map, firstn_map.
    remember (firstn (S K) (skipn (Z.to_nat i) ctrl)) as w eqn:Ew.
    assert (Hw : length w = S K).
    { subst w. rewrite firstn_length, skipn_length. lia. }
    destruct w as [|g0 w]; [discriminate|].
    unfold C13_Eval.eval_gs. rewrite diffs_left. cbn [map].
    destruct (eval_vs (coefs M K u) (diffs (g0 :: w))) as [[P W] A].
    now rewrite (op_assoc L).
  Qed.

  (* ---------------------------------------------------------------- the same at the level of BSpline::operator() *)
  Definition scale (dt : Q) (s : G * T * T) : G * T * T :=
    let '(g, w, a) := s in (g, smul (/ dt) w, smul (/ (dt * dt)) a).

  (* inside knot interval i the code evaluates window i at the local parameter *)
  Theorem bs_eval_window M K ctrl t0 dt t i :
    0 < dt -> (Z.of_nat (length ctrl) <= two63)%Z -> (i + K + 1 <= length ctrl)%nat ->
    t0 + inject_Z (Z.of_nat i) * dt <= t -> t < t0 + inject_Z (Z.of_nat i + 1) * dt ->
    bs_eval M K ctrl t0 dt t
    = scale dt (window_eval M K ctrl i (Qred ((t - t0 - inject_Z (Z.of_nat i) * dt) / dt))).
  Proof.
    intros Hdt HN Hi Hlo Hhi. unfold C13_Eval.bs_eval.
    destruct (window_spec (Z.of_nat K) (Z.of_nat (length ctrl)) t0 dt t (Z.of_nat i)) as [-> _];
      try assumption; try lia.
    rewrite Nat2Z.id. unfold scale. reflexivity.
  Qed.

  Lemma outputs_scale r dt s s' : outputs_upto r s = outputs_upto r s' -> outputs_upto r (scale dt s) = outputs_upto r (scale dt s').
  Proof.
    destruct s as [[g w] a], s' as [[g' w'] a']. unfold C13_Eval.outputs_upto, scale.
    destruct (1 <=? r)%nat; destruct (2 <=? r)%nat; intro H; inversion H; reflexivity.
  Qed.

  (* evaluation AT the knot t0 + (i+1) dt (which uses window i+1 at u = 0) returns, up to order r, what window i
     gives at u = 1, i.e. the limit from the left (bs_eval_window: on [t0 + i dt, t0 + (i+1) dt) the code evaluates
     window i at u = (t - t0 - i dt)/dt, a polynomial/exp expression in u) *)
  Theorem knot_continuity_eval r M K ctrl t0 dt t i :
    (1 <= K)%nat -> knot_shape r M K ->
    0 < dt -> (Z.of_nat (length ctrl) <= two63)%Z -> (i + K + 2 <= length ctrl)%nat ->
    t == t0 + inject_Z (Z.of_nat (S i)) * dt ->
    outputs_upto r (bs_eval M K ctrl t0 dt t) = outputs_upto r (scale dt (window_eval M K ctrl i 1)).
  Proof.
    intros HK Hshape Hdt HN Hi Ht. unfold C13_Eval.bs_eval.
    rewrite (knot_select (Z.of_nat K) (Z.of_nat (length ctrl)) t0 dt t (Z.of_nat (S i))); try assumption; try lia.
    rewrite Nat2Z.id. symmetry.
    apply (outputs_scale r dt (window_eval M K ctrl i 1) (window_eval M K ctrl (S i) 0)).
    now apply knot_continuity.
  Qed.
End Curve.
