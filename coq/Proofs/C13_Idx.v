(* C13 - theorems about the istar/u selection model (Model/C13_BSplineIdx.v), for all inputs. *)
From Coq Require Import ZArith QArith Qround Qreduction Bool List Lia Lqa.
From SV Require Import Model.C13_BSplineIdx.
Import ListNotations.
Local Open Scope Q_scope.

(* ------------------------------------------------------------------ basic facts *)
Lemma Qltb_true a b : Qltb a b = true <-> a < b.
Proof.
  unfold Qltb. rewrite negb_true_iff. split; intro H.
  - apply Qnot_le_lt. intro Hle. apply Qle_bool_iff in Hle. congruence.
  - destruct (Qle_bool b a) eqn:E; [|reflexivity].
    apply Qle_bool_iff in E. exfalso. apply (Qlt_not_le _ _ H E).
Qed.

Lemma Qltb_false a b : Qltb a b = false <-> b <= a.
Proof.
  unfold Qltb. rewrite negb_false_iff. apply Qle_bool_iff.
Qed.

Lemma inject_Z_nonneg z : (0 <= z)%Z -> 0 <= inject_Z z.
Proof. intro H. change 0 with (inject_Z 0). rewrite <- Zle_Qle. exact H. Qed.

Lemma qclamp_cases v lo hi :
  (v < lo /\ qclamp v lo hi = lo) \/ (lo <= v /\ hi < v /\ qclamp v lo hi = hi) \/
  (lo <= v /\ v <= hi /\ qclamp v lo hi = v).
Proof.
  unfold qclamp. destruct (Qltb v lo) eqn:E1.
  - left. split; [now apply Qltb_true|reflexivity].
  - apply Qltb_false in E1. destruct (Qltb hi v) eqn:E2.
    + right; left. repeat split; [assumption|now apply Qltb_true].
    + right; right. apply Qltb_false in E2. repeat split; assumption.
Qed.

Lemma qclamp_range v lo hi : lo <= hi -> lo <= qclamp v lo hi <= hi.
Proof.
  intro Hlh. destruct (qclamp_cases v lo hi) as [[H1 ->]|[[H1 [H2 ->]]|[H1 [H2 ->]]]]; split; lra.
Qed.

(* truncation toward zero: floor for s >= 0, ceiling (> s - 1... <= 0) for s <= 0 *)
Lemma qtrunc_nonneg s : 0 <= s -> qtrunc s = Qfloor s.
Proof.
  intro H. unfold qtrunc, Qfloor. destruct s as [n d]. cbn [Qnum Qden].
  apply Z.quot_div_nonneg; [|lia].
  unfold Qle in H. cbn in H. lia.
Qed.

Lemma Qfloor_unique s (i : Z) : inject_Z i <= s -> s < inject_Z (i + 1) -> Qfloor s = i.
Proof.
  intros Hlo Hhi.
  assert (H1 : (i <= Qfloor s)%Z).
  { rewrite <- (Qfloor_Z i). apply Qfloor_resp_le. exact Hlo. }
  assert (H2 : (Qfloor s < i + 1)%Z).
  { rewrite Zlt_Qlt. eapply Qle_lt_trans; [apply Qfloor_le|exact Hhi]. }
  lia.
Qed.

Lemma qtrunc_window s (i : Z) : (0 <= i)%Z -> inject_Z i <= s -> s < inject_Z (i + 1) -> qtrunc s = i.
Proof.
  intros Hi Hlo Hhi. rewrite qtrunc_nonneg.
  - now apply Qfloor_unique.
  - eapply Qle_trans; [|exact Hlo]. now apply inject_Z_nonneg.
Qed.

Lemma qtrunc_neg s : s < 0 -> (qtrunc s <= 0)%Z.
Proof.
  intro H. unfold qtrunc. destruct s as [n d]. cbn [Qnum Qden].
  unfold Qlt in H. cbn in H.
  assert (Hn : (n < 0)%Z) by lia.
  pose proof (Z.quot_opp_l (- n) (Zpos d) ltac:(lia)) as Ho. rewrite Z.opp_involutive in Ho.
  rewrite Ho. pose proof (Z.quot_pos (- n) (Zpos d) ltac:(lia) ltac:(lia)). lia.
Qed.

(* the quotient (t - t0)/dt against integers *)
Lemma quot_ge (t t0 dt : Q) (i : Z) : 0 < dt -> t0 + inject_Z i * dt <= t -> inject_Z i <= (t - t0) / dt.
Proof.
  intros Hdt H. apply Qle_shift_div_l; [assumption|]. lra.
Qed.
Lemma quot_lt (t t0 dt : Q) (i : Z) : 0 < dt -> t < t0 + inject_Z i * dt -> (t - t0) / dt < inject_Z i.
Proof.
  intros Hdt H. apply Qlt_shift_div_r; [assumption|]. lra.
Qed.
Lemma quot_le (t t0 dt : Q) (i : Z) : 0 < dt -> t <= t0 + inject_Z i * dt -> (t - t0) / dt <= inject_Z i.
Proof.
  intros Hdt H. apply Qle_shift_div_r; [assumption|]. lra.
Qed.

Lemma cast64_id z : (- two63 <= z < two63)%Z -> cast64 z = z.
Proof.
  intro H. unfold cast64.
  destruct (Z.leb_spec (- two63) z); destruct (Z.ltb_spec z two63); cbn; lia.
Qed.
Lemma cast64_cases z : cast64 z = z \/ (cast64 z = (- two63)%Z /\ (z < - two63 \/ two63 <= z)%Z).
Proof.
  unfold cast64.
  destruct (Z.leb_spec (- two63) z); destruct (Z.ltb_spec z two63); cbn; auto; right; split; auto; lia.
Qed.

Lemma inject_Z_plus1 i : inject_Z (i + 1) == inject_Z i + 1.
Proof. rewrite inject_Z_plus. reflexivity. Qed.

(* truncation toward zero is bracketed by integer bounds of either sign *)
Lemma qtrunc_ge s (i : Z) : inject_Z i <= s -> (i <= qtrunc s)%Z.
Proof.
  intro H. unfold qtrunc. destruct s as [n d]. cbn [Qnum Qden].
  unfold Qle in H. cbn in H.
  apply Z.quot_le_lower_bound; lia.
Qed.
Lemma qtrunc_le s (i : Z) : s <= inject_Z i -> (qtrunc s <= i)%Z.
Proof.
  intro H. unfold qtrunc. destruct s as [n d]. cbn [Qnum Qden].
  unfold Qle in H. cbn in H.
  apply Z.quot_le_upper_bound; lia.
Qed.

(* bspline_impl.hpp:58-59: the operand of the cast lies in [-1, N] whatever the quotient is ... *)
Lemma clamped_trunc_range N s :
  (0 <= N)%Z -> (-1 <= qtrunc (qclamp s (-1) (inject_Z N)) <= N)%Z.
Proof.
  intro HN.
  assert (Hlh : -1 <= inject_Z N) by (assert (0 <= inject_Z N) by (now apply inject_Z_nonneg); lra).
  destruct (qclamp_range s (-1) (inject_Z N) Hlh) as [Hlo Hhi].
  split; [apply qtrunc_ge; exact Hlo|apply qtrunc_le; exact Hhi].
Qed.

(* ... hence the conversion is defined (no out-of-range operand) for every control-point count below 2^63 *)
Lemma idx_raw_no_overflow N s :
  (0 <= N < two63)%Z -> idx_raw N s = qtrunc (qclamp s (-1) (inject_Z N)).
Proof.
  intro HN. unfold idx_raw. apply cast64_id.
  pose proof (clamped_trunc_range N s ltac:(lia)). unfold two63 in *. lia.
Qed.

Lemma cast_defined N s :
  (0 <= N < two63)%Z ->
  (- two63 <= qtrunc (qclamp s (-1) (inject_Z N)) < two63)%Z /\ idx_raw N s = qtrunc (qclamp s (-1) (inject_Z N)).
Proof.
  intro HN. split; [|now apply idx_raw_no_overflow].
  pose proof (clamped_trunc_range N s ltac:(lia)). unfold two63 in *. lia.
Qed.

(* idx_raw on a quotient inside window i (0 <= i < N) is i *)
Lemma idx_raw_window N s i :
  (0 <= i < N)%Z -> (N <= two63)%Z -> inject_Z i <= s -> s < inject_Z (i + 1) -> idx_raw N s = i.
Proof.
  intros Hi HN Hlo Hhi. unfold idx_raw.
  destruct (qclamp_cases s (-1) (inject_Z N)) as [[H1 _]|[[_ [H2 _]]|[_ [_ ->]]]].
  - exfalso. assert (0 <= inject_Z i) by (apply inject_Z_nonneg; lia). lra.
  - exfalso. assert (inject_Z (i + 1) <= inject_Z N) by (rewrite <- Zle_Qle; lia). lra.
  - rewrite (qtrunc_window s i); [|lia|assumption|assumption]. apply cast64_id. unfold two63 in *. lia.
Qed.

(* ------------------------------------------------------------------ property theorems *)

(* window_spec: inside knot interval i (0 <= i <= N-K-1) the code selects window i and the local parameter *)
Theorem window_spec K N t0 dt t i :
  0 < dt -> (0 <= K)%Z -> (N <= two63)%Z -> (0 <= i <= N - K - 1)%Z ->
  t0 + inject_Z i * dt <= t -> t < t0 + inject_Z (i + 1) * dt ->
  bs_select K N t0 dt t = (i, Qred ((t - t0 - inject_Z i * dt) / dt))
  /\ 0 <= (t - t0 - inject_Z i * dt) / dt < 1.
Proof.
  intros Hdt HK HN Hi Hlo Hhi.
  assert (Hraw : idx_raw N ((t - t0) / dt) = i).
  { apply idx_raw_window; [lia|assumption|now apply quot_ge|now apply quot_lt]. }
  assert (Hu0 : 0 <= (t - t0 - inject_Z i * dt) / dt).
  { apply Qle_shift_div_l; [assumption|]. lra. }
  assert (Hu1 : (t - t0 - inject_Z i * dt) / dt < 1).
  { apply Qlt_shift_div_r; [assumption|]. rewrite inject_Z_plus1 in Hhi. lra. }
  split; [|split; assumption].
  unfold bs_select. rewrite Hraw.
  destruct (Z.ltb_spec i 0); [lia|].
  destruct (Z.ltb_spec N (i + (K + 1))); [lia|].
  f_equal. apply Qred_complete.
  destruct (qclamp_cases ((t - t0 - inject_Z i * dt) / dt) 0 1) as [[H1 _]|[[_ [H2 _]]|[_ [_ ->]]]];
    [lra|lra|reflexivity].
Qed.

(* at a knot t0 + i dt (0 <= i <= N-K-1) the right-hand window is selected with u = 0 exactly *)
Theorem knot_select K N t0 dt t i :
  0 < dt -> (0 <= K)%Z -> (N <= two63)%Z -> (0 <= i <= N - K - 1)%Z ->
  t == t0 + inject_Z i * dt ->
  bs_select K N t0 dt t = (i, 0).
Proof.
  intros Hdt HK HN Hi Ht.
  destruct (window_spec K N t0 dt t i) as [-> _]; try assumption.
  - lra.
  - rewrite inject_Z_plus1. lra.
  - f_equal. change 0 with (Qred 0). apply Qred_complete. rewrite Ht. field. lra.
Qed.

(* clamp_low: before t_min the code evaluates window 0 at u = 0 (the start value) - all t, incl. the quotient in
   (-1, 0) that truncates to 0 and goes through the third branch, and quotients below -2^63 (clamped to -1) *)
Theorem clamp_low K N t0 dt t :
  0 < dt -> (0 <= K)%Z -> (K + 1 <= N)%Z -> t < bs_tmin t0 ->
  bs_select K N t0 dt t = (0%Z, 0).
Proof.
  unfold bs_tmin. intros Hdt HK HN Ht.
  assert (Hs : (t - t0) / dt < 0).
  { apply Qlt_shift_div_r; [assumption|]. lra. }
  assert (Hraw : (idx_raw N ((t - t0) / dt) <= 0)%Z).
  { unfold idx_raw.
    assert (Hq : (qtrunc (qclamp ((t - t0) / dt) (-1) (inject_Z N)) <= 0)%Z).
    { destruct (qclamp_cases ((t - t0) / dt) (-1) (inject_Z N)) as [[_ ->]|[[_ [H2 _]]|[_ [_ ->]]]].
      - vm_compute. discriminate.
      - exfalso. assert (0 <= inject_Z N) by (apply inject_Z_nonneg; lia). lra.
      - now apply qtrunc_neg. }
    destruct (cast64_cases (qtrunc (qclamp ((t - t0) / dt) (-1) (inject_Z N)))) as [->|[-> _]]; [assumption|].
    unfold two63. lia. }
  unfold bs_select.
  destruct (Z.ltb_spec (idx_raw N ((t - t0) / dt)) 0) as [Hneg|Hnn]; [reflexivity|].
  assert (Hz : idx_raw N ((t - t0) / dt) = 0%Z) by lia. rewrite Hz.
  destruct (Z.ltb_spec N (0 + (K + 1))); [lia|].
  f_equal.
  destruct (qclamp_cases ((t - t0 - inject_Z 0 * dt) / dt) 0 1) as [[_ ->]|[[H1 _]|[H1 _]]]; [reflexivity| |].
  - exfalso. assert ((t - t0 - inject_Z 0 * dt) / dt == (t - t0) / dt) by (field; lra). lra.
  - exfalso. assert ((t - t0 - inject_Z 0 * dt) / dt == (t - t0) / dt) by (field; lra). lra.
Qed.

(* clamp_high: at and after t_max the code evaluates the last window at u = 1 (the end value), for ALL t - however
   large the quotient (t - t0)/dt is.  N < 2^63 is a bound on the control-point COUNT (a std::vector size that l.66
   itself converts to int64_t), not on t. *)
Theorem clamp_high K N t0 dt t :
  0 < dt -> (0 <= K)%Z -> (K + 1 <= N)%Z -> (N < two63)%Z -> bs_tmax K N t0 dt <= t ->
  bs_select K N t0 dt t = ((N - K - 1)%Z, 1).
Proof.
  unfold bs_tmax. intros Hdt HK HN HN63 Ht.
  assert (Hs : inject_Z (N - K) <= (t - t0) / dt) by now apply quot_ge.
  assert (H0 : 0 <= inject_Z (N - K)) by (apply inject_Z_nonneg; lia).
  assert (HNK : inject_Z (N - K) <= inject_Z N) by (rewrite <- Zle_Qle; lia).
  assert (Hraw : (N - K <= idx_raw N ((t - t0) / dt))%Z).
  { rewrite idx_raw_no_overflow by lia.
    destruct (qclamp_cases ((t - t0) / dt) (-1) (inject_Z N)) as [[H1 _]|[[_ [_ ->]]|[_ [_ ->]]]].
    - exfalso. lra.
    - apply qtrunc_ge; assumption.
    - apply qtrunc_ge; assumption. }
  unfold bs_select.
  destruct (Z.ltb_spec (idx_raw N ((t - t0) / dt)) 0); [lia|].
  destruct (Z.ltb_spec N (idx_raw N ((t - t0) / dt) + (K + 1))); [reflexivity|lia].
Qed.

(* the bound on N in clamp_high is sharp for this model: with 2^63 control points the clamp's upper bound itself is
   outside the int64 range (cannot occur: std::vector<G>::max_size() < 2^63) *)
Example clamp_high_needs_count_bound :
  bs_select 3 two63 0 1 (inject_Z two63) = (0%Z, 0).
Proof. vm_compute. reflexivity. Qed.

(* the window handed to cspline_eval_gs is always inside the control-point vector, and u is in [0,1] *)
Theorem select_in_range K N t0 dt t :
  (0 <= K)%Z -> (K + 1 <= N)%Z ->
  let '(i, u) := bs_select K N t0 dt t in (0 <= i /\ i + K + 1 <= N)%Z /\ 0 <= u <= 1.
Proof.
  intros HK HN. unfold bs_select.
  destruct (Z.ltb_spec (idx_raw N ((t - t0) / dt)) 0).
  - split; [lia|]. split; [apply Qle_refl|discriminate].
  - destruct (Z.ltb_spec N (idx_raw N ((t - t0) / dt) + (K + 1))).
    + split; [lia|]. split; [discriminate|apply Qle_refl].
    + split; [lia|]. rewrite Qred_correct. apply qclamp_range. discriminate.
Qed.

(* t_min / t_max formulas *)
Theorem tmin_formula t0 : bs_tmin t0 = t0.
Proof. reflexivity. Qed.
Theorem tmax_formula K N t0 dt : bs_tmax K N t0 dt == t0 + (inject_Z N - inject_Z K) * dt.
Proof. unfold bs_tmax. unfold Zminus. rewrite inject_Z_plus, inject_Z_opp. ring. Qed.

(* t_max itself is in the clamped region and t_min selects (0,0): the domain is [t_min, t_max] *)
Corollary tmin_select K N t0 dt :
  0 < dt -> (0 <= K)%Z -> (K + 1 <= N)%Z -> (N <= two63)%Z ->
  bs_select K N t0 dt (bs_tmin t0) = (0%Z, 0).
Proof.
  intros. apply knot_select; try assumption; [lia|]. unfold bs_tmin. cbn. ring.
Qed.

(* non-vacuity: the hypotheses are satisfiable by non-trivial states *)
Example window_spec_ex : bs_select 3 8 (1 # 2) (1 # 4) (23 # 16) = (3%Z, 3 # 4).
Proof. vm_compute. reflexivity. Qed.
Example clamp_low_ex : bs_select 3 8 (1 # 2) (1 # 4) (7 # 16) = (0%Z, 0) /\ (7 # 16) < bs_tmin (1 # 2).
Proof. vm_compute. split; reflexivity. Qed.
Example clamp_high_ex :
  bs_select 3 8 (1 # 2) (1 # 4) (2 # 1) = (4%Z, 1) /\ bs_tmax 3 8 (1 # 2) (1 # 4) <= (2 # 1).
Proof. vm_compute. split; [reflexivity|discriminate]. Qed.
(* ... and by a quotient at and far beyond 2^63 (the former finding C13-huge-t) *)
Example clamp_high_huge_ex :
  bs_select 3 8 0 1 (inject_Z two63) = (4%Z, 1) /\ bs_select 3 8 (1 # 2) (1 # 4) (inject_Z (two63 * two63)) = (4%Z, 1).
Proof. vm_compute. split; reflexivity. Qed.

(* ------------------------------------------------------------------ historical: the code before 967e2a1
   Until /repo commit 967e2a1 line 58 read
       int64_t istar = static_cast<int64_t>((static_cast<double>(t) - m_t0) / m_dt);
   i.e. the UNclamped quotient was converted.  For (t - t0)/dt >= 2^63 (incl. t = +inf) that conversion is undefined;
   g++/x86-64 yields INT64_MIN and the START value was returned (finding C13-huge-t, replay notes/C13-replay-huge-t.cpp).
   Kept as a record of why the clamp has to precede the cast: on the same witness the old selection returns the start,
   the current one the end.  Not a statement about the current code, not a property theorem. *)
Definition bs_select_before_967e2a1 (K N : Z) (t0 dt t : Q) : Z * Q :=
  let istar := cast64 (qtrunc ((t - t0) / dt)) in
  if (istar <? 0)%Z then (0%Z, 0)
  else if (N <? istar + (K + 1))%Z then ((N - K - 1)%Z, 1)
  else (istar, Qred (qclamp ((t - t0 - inject_Z istar * dt) / dt) 0 1)).

Lemma clamp_high_refuted_before_967e2a1 :
  exists K N t0 dt t,
    0 < dt /\ (0 <= K)%Z /\ (K + 1 <= N)%Z /\ (N < two63)%Z /\ bs_tmax K N t0 dt <= t /\
    bs_select_before_967e2a1 K N t0 dt t = (0%Z, 0) /\ (0%Z, 0) <> ((N - K - 1)%Z, 1) /\
    bs_select K N t0 dt t = ((N - K - 1)%Z, 1).
Proof.
  exists 3%Z, 8%Z, 0, 1, (inject_Z two63).
  repeat split; try (vm_compute; discriminate); try (vm_compute; reflexivity).
Qed.
