(* C13 - non-vacuity: the laws assumed of the abstract group are satisfied by a genuinely non-commutative Lie group
   (the Heisenberg group over R in exponential coordinates), and the hypotheses of every theorem of
   Proofs/C13_Curve.v are satisfiable by non-trivial states. *)
From Coq Require Import ZArith QArith Qreals Reals Lra List Lia.
From SV Require Import Model.C13_BSplineIdx Model.C13_Eval Gen.BasisC13 Proofs.C13_Idx Proofs.C13_Curve Proofs.C13_Basis.
Import ListNotations.
Local Open Scope R_scope.

Definition H3 : Type := (R * R * R)%type.
Definition h_op (p q : H3) : H3 :=
  let '(x, y, z) := p in let '(x', y', z') := q in (x + x', y + y', z + z' + (x * y' - x' * y) / 2).
Definition h_e : H3 := (0, 0, 0).
Definition h_inv (p : H3) : H3 := let '(x, y, z) := p in (- x, - y, - z).
Definition h_exp (v : H3) : H3 := v.
Definition h_log (g : H3) : H3 := g.
Definition h_Ad (g w : H3) : H3 := let '(x, y, z) := g in let '(a, b, c) := w in (a, b, c + x * b - y * a).
Definition h_br (v w : H3) : H3 := let '(a, b, c) := v in let '(a', b', c') := w in (0, 0, a * b' - a' * b).
Definition h_add (v w : H3) : H3 := let '(a, b, c) := v in let '(a', b', c') := w in (a + a', b + b', c + c').
Definition h_smul (q : Q) (v : H3) : H3 := let '(a, b, c) := v in (Q2R q * a, Q2R q * b, Q2R q * c).

Lemma Q2R_zero : Q2R 0 = 0. Proof. unfold Q2R. cbn. lra. Qed.
Lemma Q2R_one : Q2R 1 = 1. Proof. unfold Q2R. cbn. lra. Qed.

Ltac h3 := repeat match goal with p : H3 |- _ => destruct p as [[? ?] ?] end;
           unfold h_op, h_e, h_inv, h_exp, h_log, h_Ad, h_br, h_add, h_smul;
           rewrite ?Q2R_zero, ?Q2R_one;
           try reflexivity; try (apply f_equal2; [apply f_equal2|]); try lra; try field.

Lemma heisenberg_laws : @Laws H3 H3 h_op h_e h_inv h_exp h_log h_Ad h_br h_add h_e h_smul.
Proof. constructor; intros; h3. Qed.

(* the instance is not commutative: the theorems are not about vector spaces only *)
Example heisenberg_noncommutative : h_op (1, 0, 0) (0, 1, 0) <> h_op (0, 1, 0) (1, 0, 0).
Proof. unfold h_op. intro H. inversion H. lra. Qed.

(* hypotheses of knot_continuity / knot_continuity_eval / local_support / constants / left_equivariance are
   satisfiable: cubic B-spline, 6 non-trivial control points *)
Definition ctrl_ex : list H3 := [(0, 0, 0); (1, 0, 0); (1, 2, 0); (0, 1, 3); (2, 2, 1); (1, 1, 1)].

Example knot_continuity_ex :
  outputs_upto H3 H3 2 (window_eval H3 H3 h_op h_e h_inv h_exp h_log h_Ad h_br h_add h_e h_smul (Bideal 3) 3 ctrl_ex 0 1%Q)
  = outputs_upto H3 H3 2 (window_eval H3 H3 h_op h_e h_inv h_exp h_log h_Ad h_br h_add h_e h_smul (Bideal 3) 3 ctrl_ex 1 0%Q).
Proof.
  apply (knot_continuity H3 H3 h_op h_e h_inv h_exp h_log h_Ad h_br h_add h_e h_smul heisenberg_laws 2 (Bideal 3) 3 ctrl_ex 0).
  - lia.
  - exact knot_shape_3.
  - cbn. lia.
Qed.

Example knot_continuity_eval_ex :
  outputs_upto H3 H3 2 (bs_eval H3 H3 h_op h_e h_inv h_exp h_log h_Ad h_br h_add h_e h_smul (Bideal 3) 3 ctrl_ex (1 # 2) (1 # 4) (3 # 4))
  = outputs_upto H3 H3 2 (scale H3 H3 h_smul (1 # 4)
      (window_eval H3 H3 h_op h_e h_inv h_exp h_log h_Ad h_br h_add h_e h_smul (Bideal 3) 3 ctrl_ex 0 1%Q)).
Proof.
  apply (knot_continuity_eval H3 H3 h_op h_e h_inv h_exp h_log h_Ad h_br h_add h_e h_smul heisenberg_laws 2 (Bideal 3) 3 ctrl_ex).
  - lia.
  - exact knot_shape_3.
  - reflexivity.
  - cbn. unfold two63. lia.
  - cbn. lia.
  - vm_compute. reflexivity.
Qed.

Example left_equivariance_ex :
  bs_eval H3 H3 h_op h_e h_inv h_exp h_log h_Ad h_br h_add h_e h_smul (Bideal 3) 3 (map (h_op (1, 2, 3)) ctrl_ex) (1 # 2) (1 # 4) (7 # 8)
  = let '(g, w, a) := bs_eval H3 H3 h_op h_e h_inv h_exp h_log h_Ad h_br h_add h_e h_smul (Bideal 3) 3 ctrl_ex (1 # 2) (1 # 4) (7 # 8) in
    (h_op (1, 2, 3) g, w, a).
Proof.
  apply (left_equivariance H3 H3 h_op h_e h_inv h_exp h_log h_Ad h_br h_add h_e h_smul heisenberg_laws). cbn. lia.
Qed.

Example local_support_ex :
  let ctrl' := [(0, 0, 0); (1, 0, 0); (1, 2, 0); (0, 1, 3); (2, 2, 1); (7, 7, 7)] in
  bs_eval H3 H3 h_op h_e h_inv h_exp h_log h_Ad h_br h_add h_e h_smul (Bideal 3) 3 ctrl_ex (1 # 2) (1 # 4) (5 # 8)
  = bs_eval H3 H3 h_op h_e h_inv h_exp h_log h_Ad h_br h_add h_e h_smul (Bideal 3) 3 ctrl' (1 # 2) (1 # 4) (5 # 8).
Proof.
  intro ctrl'.
  apply (local_support H3 H3 h_op h_e h_inv h_exp h_log h_Ad h_br h_add h_e h_smul (Bideal 3) 3 ctrl_ex ctrl' 5 (1 # 2) (1 # 4) (5 # 8) h_e).
  - reflexivity.
  - intros k Hk. do 6 (destruct k as [|k]; [try reflexivity; lia|]). destruct k; reflexivity.
  - vm_compute. right. lia.
Qed.
