(* C14 -- proofs about the Dubins word selection model
   (/repo/include/smooth/spline/detail/dubins_impl.hpp:132-218, :23-30, :102-123). *)

From Coq Require Import QArith Qabs List Lia Lqa.
From SV Require Import Model.C14_Dubins.
Import ListNotations.
Open Scope Q_scope.

(* ------------------------------------------------------------------ *)
(* dubins_select is the block iteration over the six candidates        *)

Lemma dubins_select_blocks : forall R lsl lsr rsl rsr rlr lrl,
  dubins_select R lsl lsr rsl rsr rlr lrl
  = dubins_blocks R 0 [lsl; lsr; rsl; rsr; rlr; lrl] None.
Proof. reflexivity. Qed.

(* Invariant after the blocks for the candidates [done] have run. *)
Definition sel_inv (R : Q) (done : list cand) (st : option dsel) : Prop :=
  match st with
  | None => forall j, nth j done None = None
  | Some r =>
      (d_word r < length done)%nat
      /\ (exists c, nth (d_word r) done None = Some c
                    /\ d_len r == len_of R (d_word r) c
                    /\ d_desc r = desc_of (d_word r) c)
      /\ (forall j c, (j < length done)%nat -> nth j done None = Some c ->
                      d_len r <= len_of R j c)
      /\ (forall j c, (j < d_word r)%nat -> nth j done None = Some c ->
                      d_len r < len_of R j c)
  end.

Lemma nth_snoc_cases : forall (done : list cand) (c : cand) (j : nat),
  ((j < length done)%nat /\ nth j (done ++ [c]) None = nth j done None)
  \/ (j = length done /\ nth j (done ++ [c]) None = c)
  \/ ((length done < j)%nat /\ nth j (done ++ [c]) None = None).
Proof.
  intros done c j.
  destruct (Nat.lt_trichotomy j (length done)) as [Hlt | [Heq | Hgt]].
  - left. split; [exact Hlt | apply app_nth1; exact Hlt].
  - right; left. split; [exact Heq |]. subst j. apply nth_middle.
  - right; right. split; [exact Hgt |].
    apply nth_overflow. rewrite app_length. simpl. lia.
Qed.

Lemma sel_inv_step : forall R done c st,
  sel_inv R done st ->
  sel_inv R (done ++ [c]) (dubins_block R (length done) c st).
Proof.
  intros R done c st Hinv.
  assert (Hlen : length (done ++ [c]) = S (length done))
    by (rewrite app_length; simpl; lia).
  destruct c as [t |]; simpl.
  - (* feasible candidate *)
    destruct st as [r |].
    + destruct Hinv as (Hw & (c0 & Hn & Hl & Hd) & Hle & Hlt).
      destruct (Qlt_le_dec (len_of R (length done) t) (d_len r)) as [Hnew | Hold].
      * (* strictly shorter: block overwrites *)
        unfold sel_inv; cbn [d_word d_len d_desc].
        split; [lia |]. split.
        { exists t. split; [apply nth_middle |]. split; [reflexivity | reflexivity]. }
        split.
        { intros j c Hj Hnth.
          destruct (nth_snoc_cases done (Some t) j) as [(Hj1 & E) | [(Hj1 & E) | (Hj1 & E)]];
            rewrite E in Hnth.
          - apply Qlt_le_weak. eapply Qlt_le_trans; [exact Hnew |].
            apply Hle; assumption.
          - subst j. inversion Hnth; subst c. apply Qle_refl.
          - discriminate Hnth. }
        { intros j c Hj Hnth.
          destruct (nth_snoc_cases done (Some t) j) as [(Hj1 & E) | [(Hj1 & E) | (Hj1 & E)]];
            rewrite E in Hnth.
          - eapply Qlt_le_trans; [exact Hnew |]. apply Hle; assumption.
          - lia.
          - lia. }
      * (* not strictly shorter: state unchanged *)
        unfold sel_inv.
        split; [lia |]. split.
        { exists c0. split; [| split; assumption].
          rewrite app_nth1 by exact Hw. exact Hn. }
        split.
        { intros j c Hj Hnth.
          destruct (nth_snoc_cases done (Some t) j) as [(Hj1 & E) | [(Hj1 & E) | (Hj1 & E)]];
            rewrite E in Hnth.
          - apply Hle; assumption.
          - subst j. inversion Hnth; subst c. exact Hold.
          - discriminate Hnth. }
        { intros j c Hj Hnth.
          rewrite app_nth1 in Hnth by lia. apply Hlt; assumption. }
    + (* first feasible candidate: finite < +inf *)
      unfold sel_inv in Hinv |- *; cbn [d_word d_len d_desc].
      split; [lia |]. split.
      { exists t. split; [apply nth_middle |]. split; reflexivity. }
      split.
      { intros j c Hj Hnth.
        destruct (nth_snoc_cases done (Some t) j) as [(Hj1 & E) | [(Hj1 & E) | (Hj1 & E)]];
          rewrite E in Hnth.
        - rewrite Hinv in Hnth. discriminate Hnth.
        - subst j. inversion Hnth; subst c. apply Qle_refl.
        - discriminate Hnth. }
      { intros j c Hj Hnth.
        rewrite app_nth1 in Hnth by lia. rewrite Hinv in Hnth. discriminate Hnth. }
  - (* infeasible candidate: inf < min_length is false, nothing happens *)
    destruct st as [r |].
    + destruct Hinv as (Hw & (c0 & Hn & Hl & Hd) & Hle & Hlt).
      unfold sel_inv.
      split; [lia |]. split.
      { exists c0. split; [| split; assumption].
        rewrite app_nth1 by exact Hw. exact Hn. }
      split.
      { intros j c Hj Hnth.
        destruct (nth_snoc_cases done None j) as [(Hj1 & E) | [(Hj1 & E) | (Hj1 & E)]];
          rewrite E in Hnth.
        - apply Hle; assumption.
        - discriminate Hnth.
        - discriminate Hnth. }
      { intros j c Hj Hnth.
        rewrite app_nth1 in Hnth by lia. apply Hlt; assumption. }
    + unfold sel_inv in Hinv |- *. intro j.
      destruct (nth_snoc_cases done None j) as [(Hj1 & E) | [(Hj1 & E) | (Hj1 & E)]];
        rewrite E; [apply Hinv | reflexivity | reflexivity].
Qed.

Lemma sel_inv_blocks : forall R rest done st,
  sel_inv R done st ->
  sel_inv R (done ++ rest) (dubins_blocks R (length done) rest st).
Proof.
  intros R rest. induction rest as [| c rest IH]; intros done st Hinv.
  - rewrite app_nil_r. exact Hinv.
  - cbn [dubins_blocks].
    replace (done ++ c :: rest) with ((done ++ [c]) ++ rest)
      by (rewrite <- app_assoc; reflexivity).
    replace (S (length done)) with (length (done ++ [c]))
      by (rewrite app_length; simpl; lia).
    apply IH. apply sel_inv_step. exact Hinv.
Qed.

Lemma sel_inv_select : forall R lsl lsr rsl rsr rlr lrl,
  sel_inv R [lsl; lsr; rsl; rsr; rlr; lrl]
          (dubins_select R lsl lsr rsl rsr rlr lrl).
Proof.
  intros. rewrite dubins_select_blocks.
  apply (sel_inv_blocks R [lsl; lsr; rsl; rsr; rlr; lrl] [] None).
  intro j. destruct j; reflexivity.
Qed.

(* ------------------------------------------------------------------ *)
(* Main theorem: the returned word is a feasible candidate of minimal
   length, carries that candidate's description, and is the FIRST
   minimiser in code order.                                            *)

Theorem dubins_min_word : forall R lsl lsr rsl rsr rlr lrl r,
  dubins_select R lsl lsr rsl rsr rlr lrl = Some r ->
  (d_word r < 6)%nat
  /\ (exists c, nth (d_word r) [lsl; lsr; rsl; rsr; rlr; lrl] None = Some c
                /\ d_len r == len_of R (d_word r) c
                /\ d_desc r = desc_of (d_word r) c)
  /\ (forall j c, (j < 6)%nat ->
        nth j [lsl; lsr; rsl; rsr; rlr; lrl] None = Some c ->
        d_len r <= len_of R j c)
  /\ (forall j c, (j < d_word r)%nat ->
        nth j [lsl; lsr; rsl; rsr; rlr; lrl] None = Some c ->
        d_len r < len_of R j c).
Proof.
  intros R lsl lsr rsl rsr rlr lrl r Hsel.
  pose proof (sel_inv_select R lsl lsr rsl rsr rlr lrl) as Hinv.
  rewrite Hsel in Hinv. exact Hinv.
Qed.

Theorem dubins_select_none_iff : forall R lsl lsr rsl rsr rlr lrl,
  dubins_select R lsl lsr rsl rsr rlr lrl = None
  <-> (lsl = None /\ lsr = None /\ rsl = None /\ rsr = None
       /\ rlr = None /\ lrl = None).
Proof.
  intros R lsl lsr rsl rsr rlr lrl. split.
  - intro Hsel.
    pose proof (sel_inv_select R lsl lsr rsl rsr rlr lrl) as Hinv.
    rewrite Hsel in Hinv. unfold sel_inv in Hinv.
    repeat split.
    + exact (Hinv 0%nat).
    + exact (Hinv 1%nat).
    + exact (Hinv 2%nat).
    + exact (Hinv 3%nat).
    + exact (Hinv 4%nat).
    + exact (Hinv 5%nat).
  - intros (H0 & H1 & H2 & H3 & H4 & H5). subst. reflexivity.
Qed.

(* In the code LSL is always feasible: dubins_csc with c1 == c3 never
   takes the {inf,inf,inf} returns (dubins_impl.hpp:94-96 returns a finite
   triple when the circles coincide, and the c1 != c3 test at :106 is
   skipped otherwise), so dubins() never returns an uninitialised ret. *)
Theorem dubins_select_some : forall R c lsl lsr rsl rsr rlr lrl,
  lsl = Some c ->
  exists r, dubins_select R lsl lsr rsl rsr rlr lrl = Some r.
Proof.
  intros R c lsl lsr rsl rsr rlr lrl Hlsl.
  destruct (dubins_select R lsl lsr rsl rsr rlr lrl) as [r |] eqn:Hsel.
  - exists r. reflexivity.
  - apply dubins_select_none_iff in Hsel. destruct Hsel as (H0 & _).
    rewrite Hlsl in H0. discriminate H0.
Qed.

(* ------------------------------------------------------------------ *)
(* dubins_angle                                                        *)

Theorem dubins_angle_range : forall pi twopi d s,
  0 < pi -> twopi == 2 * pi -> - pi <= d -> d <= pi ->
  0 <= dubins_angle twopi d s /\ dubins_angle twopi d s < twopi.
Proof.
  intros pi twopi d s Hpi Htwo Hlo Hhi. unfold dubins_angle.
  set (d' := match s with SRight => - d | _ => d end).
  assert (Hd' : - pi <= d' /\ d' <= pi).
  { subst d'. destruct s; split; lra. }
  destruct Hd' as [Hlo' Hhi'].
  destruct (Qle_bool 0 d') eqn:Hb.
  - apply Qle_bool_iff in Hb. split; lra.
  - assert (Hneg : d' < 0).
    { apply Qnot_le_lt. intro Hle. apply Qle_bool_iff in Hle.
      rewrite Hle in Hb. discriminate Hb. }
    split; lra.
Qed.

(* ------------------------------------------------------------------ *)
(* Examples (non-vacuity)                                              *)

(* word 4 (RLR) wins: lengths are 10, 9, -, 8, 5, 7 with R = 1 *)
Example dubins_select_ex_rlr :
  exists r,
    dubins_select 1 (Some (1, 8, 1)) (Some (2, 5, 2)) None (Some (3, 2, 3))
                    (Some (1, 3, 1)) (Some (2, 3, 2)) = Some r
    /\ d_word r = 4%nat
    /\ d_desc r = [(SRight, 1); (SLeft, 3); (SRight, 1)]
    /\ d_len r == 5.
Proof.
  eexists. split; [vm_compute; reflexivity |].
  split; [reflexivity |]. split; [reflexivity |]. vm_compute. reflexivity.
Qed.

(* tie between word 1 (LSR) and word 3 (RSR) and word 5 (LRL), all of
   length 6 with R = 2; strict < keeps the earliest, word 1 *)
Example dubins_select_ex_tie :
  exists r,
    dubins_select 2 (Some (1, 5, 1)) (Some (1, 2, 1)) None (Some (1#2, 3, 1))
                    None (Some (1, 1, 1)) = Some r
    /\ d_word r = 1%nat
    /\ d_desc r = [(SLeft, 1); (SStraight, 2); (SRight, 1)]
    /\ len_of 2 3 (1#2, 3, 1) == d_len r
    /\ len_of 2 5 (1, 1, 1) == d_len r.
Proof.
  eexists. split; [vm_compute; reflexivity |].
  split; [reflexivity |]. split; [reflexivity |].
  split; vm_compute; reflexivity.
Qed.

(* the hypotheses of dubins_min_word / dubins_select_some are satisfiable
   and its conclusions are as expected on the tie example *)
Example dubins_min_word_ex :
  forall r,
    dubins_select 2 (Some (1, 5, 1)) (Some (1, 2, 1)) None (Some (1#2, 3, 1))
                    None (Some (1, 1, 1)) = Some r ->
    d_len r <= len_of 2 3 (1#2, 3, 1) /\ d_len r < len_of 2 0 (1, 5, 1).
Proof.
  intros r Hsel.
  destruct (dubins_min_word _ _ _ _ _ _ _ _ Hsel) as (Hw & _ & Hle & Hlt).
  split.
  - apply (Hle 3%nat); [lia | reflexivity].
  - apply (Hlt 0%nat); [| reflexivity].
    vm_compute in Hsel. inversion Hsel. simpl. lia.
Qed.

Example dubins_select_none_ex :
  dubins_select 1 None None None None None None = None.
Proof. reflexivity. Qed.

Example dubins_angle_ex :
  dubins_angle (44#7) (-(1#2)) SLeft == (44#7) - (1#2)
  /\ dubins_angle (44#7) (-(1#2)) SRight == 1#2
  /\ dubins_angle (44#7) 0 SRight == 0.
Proof. repeat split; vm_compute; reflexivity. Qed.

Example dubins_angle_range_ex :
  0 <= dubins_angle (44#7) (-(22#7)) SLeft
  /\ dubins_angle (44#7) (-(22#7)) SLeft < 44#7.
Proof.
  apply (dubins_angle_range (22#7)); [reflexivity | reflexivity | | ].
  - apply Qle_refl.
  - discriminate.
Qed.

(* ------------------------------------------------------------------ *)
(* Geometry of the straight segment of dubins_csc, over R              *)

From Coq Require Import Reals Lra.
Open Scope R_scope.

(* dubins_impl.hpp:121: the middle entry is (C3 - C1) . (cos th, sin th)
   where th = dir(C1->C3) * diff^{+-1} (:110-116).  With (ux,uy) the unit
   direction C1->C3, C3 - C1 = d13 * (ux,uy), and diff = (cw, sz)
   (cw = sqrt(1 - 4R^2/d13^2), sz = +-2R/d13; or cw = 1, sz = 0 when
   c1 == c3), the product is d13 * cw for either sign of sz. *)
Theorem csc_straight_len : forall d13 ux uy cw sz : R,
  ux * ux + uy * uy = 1 ->
  let tx := ux * cw - uy * sz in
  let ty := uy * cw + ux * sz in
  (d13 * ux) * tx + (d13 * uy) * ty = d13 * cw.
Proof.
  intros d13 ux uy cw sz Hunit tx ty. subst tx ty.
  transitivity (d13 * cw * (ux * ux + uy * uy)); [ring |].
  rewrite Hunit. ring.
Qed.

(* after the guard at dubins_impl.hpp:107 (2R < d13) the radicand at :110
   is positive and the straight length d13 * cw is non-negative *)
Lemma csc_radicand_pos : forall Rr d13 : R,
  0 < 2 * Rr -> 2 * Rr < d13 -> 0 < 1 - 4 * Rr * Rr / (d13 * d13).
Proof.
  intros Rr d13 HR Hd.
  assert (Hd0 : 0 < d13) by lra.
  assert (Hdd : 0 < d13 * d13) by (apply Rmult_lt_0_compat; assumption).
  assert (Hlt : 4 * Rr * Rr < d13 * d13).
  { replace (4 * Rr * Rr) with ((2 * Rr) * (2 * Rr)) by ring.
    apply Rmult_le_0_lt_compat; lra. }
  assert (Hq : 4 * Rr * Rr / (d13 * d13) < 1).
  { apply (Rmult_lt_reg_r (d13 * d13)); [exact Hdd |].
    unfold Rdiv. rewrite Rmult_assoc, Rinv_l by lra. lra. }
  lra.
Qed.

Theorem csc_straight_nonneg : forall Rr d13 : R,
  0 < 2 * Rr -> 2 * Rr < d13 ->
  0 <= d13 * sqrt (1 - 4 * Rr * Rr / (d13 * d13)).
Proof.
  intros Rr d13 HR Hd.
  apply Rmult_le_pos; [lra | apply sqrt_pos].
Qed.

Example csc_straight_len_ex :
  (5 * (3 / 5)) * ((3 / 5) * (4 / 5) - (4 / 5) * (3 / 5))
  + (5 * (4 / 5)) * ((4 / 5) * (4 / 5) + (3 / 5) * (3 / 5)) = 5 * (4 / 5).
Proof.
  apply (csc_straight_len 5 (3 / 5) (4 / 5) (4 / 5) (3 / 5)). field.
Qed.

Example csc_straight_nonneg_ex : 0 <= 5 * sqrt (1 - 4 * 2 * 2 / (5 * 5)).
Proof. apply csc_straight_nonneg; lra. Qed.
