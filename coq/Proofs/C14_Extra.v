(* C14: two additions found necessary while tying the models to the real code.
   (1) fit_bspline: in exact arithmetic the control-point count covers the index of every data point
       (fit_impl.hpp:320 vs :330) - the binary64 code can be one short (known finding C14-bspline-numpts-rounding).
   (2) reparameterize_spline: the model exhibits the gap the real code shows (known finding C14-reparam-eps-clamp-gap):
       when the acceleration bound forces vi^2 + 2 ds ai below eps, the clamped segment ends short of the next grid
       point, so s jumps at the knot although every hypothesis of reparam_monotone holds. *)
From Coq Require Import QArith Qabs Qminmax Qround List ZArith Lia Lqa.
From SV Require Import Model.C14_Reparam Model.C14_Misc Proofs.C14_Reparam Proofs.C14_Misc.
Import ListNotations.
Local Open Scope Q_scope.

(* istar of fit_impl.hpp:330 for a data time t *)
Definition bs_istar (t0 dt t : Q) : Z := Qfloor ((t - t0) / dt).

Theorem num_pts_covers_index : forall K t0 t1 dt t,
  0 < dt -> t0 <= t -> t <= t1 ->
  (0 <= bs_istar t0 dt t)%Z /\ (bs_istar t0 dt t + K + 1 <= num_pts K t0 t1 dt)%Z.
Proof.
  intros K t0 t1 dt t Hdt H0 H1. unfold bs_istar, num_pts. split.
  - assert (H : 0 <= (t - t0) / dt) by (apply Qle_shift_div_l; [exact Hdt|lra]).
    apply Qfloor_resp_le in H. change 0 with (inject_Z 0) in H. rewrite Qfloor_Z in H. exact H.
  - assert (H : (t - t0) / dt + 1 <= (t1 - t0 + dt) / dt).
    { rewrite span_ratio by exact Hdt.
      assert (Hd : (t - t0) / dt <= (t1 - t0) / dt).
      { apply Qle_shift_div_l; [exact Hdt|]. 
        assert (E : (t - t0) / dt * dt == t - t0) by (field; lra). rewrite E. lra. }
      lra. }
    apply Qfloor_resp_le in H.
    assert (E : Qfloor ((t - t0) / dt + 1) = (Qfloor ((t - t0) / dt) + 1)%Z).
    { change 1 with (inject_Z 1). 
      pose proof (Qfloor_le ((t - t0) / dt)) as Ha. pose proof (Qlt_floor ((t - t0) / dt)) as Hb.
      set (q := (t - t0) / dt) in *. set (f := Qfloor q) in *.
      assert (H2 : (f + 1 <= Qfloor (q + inject_Z 1))%Z).
      { assert (Hx : inject_Z (f + 1) <= q + inject_Z 1) by (rewrite inject_Z_plus; lra).
        apply Qfloor_resp_le in Hx. rewrite Qfloor_Z in Hx. exact Hx. }
      assert (H3 : (Qfloor (q + inject_Z 1) < f + 2)%Z).
      { assert (Hx : q + inject_Z 1 < inject_Z (f + 2)).
        { rewrite inject_Z_plus. rewrite inject_Z_plus in Hb. change (inject_Z 2) with 2. change (inject_Z 1) with 1 in *. lra. }
        pose proof (Qfloor_le (q + inject_Z 1)) as Hy.
        assert (Hz : inject_Z (Qfloor (q + inject_Z 1)) < inject_Z (f + 2)) by lra.
        rewrite <- Zlt_Qlt in Hz. exact Hz. }
      lia. }
    rewrite E in H. lia.
Qed.

Example num_pts_covers_index_ex : (bs_istar 0 (1 # 2) 10 + 3 + 1 <= num_pts 3 0 10 (1 # 2))%Z.
Proof. vm_compute. discriminate. Qed.

(* vi2 = 1/4, one degree of freedom with vel = 1, acc = 8, acc_max = 1: ai = (1 - 8/4)/1 = -1, ds = 1/4:
   vi2 + 2 ds ai = -1/4 < eps  ->  clamp;  the segment covers (vi2 - eps)/2 = 0.125 - 5e-9 < ds = 0.25 *)
Theorem reparam_onto_clamp_refuted :
  exists s0 ds n start_vel v2max dofs amin amax tmax,
    0 < ds /\ ds <= 1 /\ eps <= start_vel * start_vel
    /\ (forall y, nth 0%nat v2max None = Some y -> eps <= y)
    /\ tmax == s0 + ds * idxQ n
    /\ Forall (sq_exact qsqrt) (r_rads (reparam qsqrt s0 ds n start_vel v2max dofs amin amax tmax))
    /\ Forall no_tiny_accel (r_steps (reparam qsqrt s0 ds n start_vel v2max dofs amin amax tmax))
    /\ exists g, hd_error (r_segs (reparam qsqrt s0 ds n start_vel v2max dofs amin amax tmax)) = Some g
                 /\ 0 < g_dt g /\ seg_val g 1 < g_g0 g + ds /\ seg_val g 1 + (1 # 10) < tmax.
Proof.
  exists 0, (1 # 4), 1%nat, (1 # 2), [None; None], [[(1, 8)]], [-(1)], [1], (1 # 4).
  split; [reflexivity|]. split; [discriminate|]. split; [discriminate|].
  split; [intros y Hy; discriminate Hy|].
  split; [vm_compute; reflexivity|].
  split; [apply sq_exact_check; vm_compute; reflexivity|].
  split; [apply no_tiny_check; vm_compute; reflexivity|].
  eexists. split; [reflexivity|].
  repeat split; vm_compute; reflexivity.
Qed.
