(* C14: the forward pass of reparameterize_spline, taken on its own (arbitrary v2max), can end a segment short of
   the next grid point: when the acceleration bound forces vi^2 + 2 ds ai below eps, the clamped segment covers less
   than ds, so s jumps at the knot although every hypothesis of reparam_monotone holds.  On the tree before commit
   80e48c1 the backward pass produced such v2max (finding C14-reparam-eps-clamp-gap, fixed); since then row [4] of the
   backward LP excludes the state used below (Proofs/C14_ReparamLP.v, onto_clamp_witness_excluded_by_row4, and
   reparam_lp_row4_radicand_nonneg for the general statement).  The theorem stays: it documents that "onto" is a
   property of backward + forward pass together, not of the forward pass. *)
From Coq Require Import QArith Qabs Qminmax Qround List ZArith Lia Lqa.
From SV Require Import Model.C14_Reparam Model.C14_Misc Proofs.C14_Reparam Proofs.C14_Misc.
Import ListNotations.
Local Open Scope Q_scope.

(* vi2 = 1/4, one degree of freedom with vel = 1, acc = 8, acc_max = 1: ai = (1 - 8/4)/1 = -1, ds = 1/4:
   vi2 + 2 ds ai = -1/4 < eps  ->  clamp;  the segment covers (vi2 - eps)/2 = 0.125 - 5e-9 < ds = 0.25 *)
Theorem reparam_onto_clamp_refuted :
  exists s0 ds n start_vel v2max dofs amin amax tmax,
    0 < ds /\ ds <= 1 /\ eps <= start_vel * start_vel
    /\ (forall y, nth 0%nat v2max None = Some y -> eps <= y)
    /\ tmax == s0 + ds * idxQ n
    /\ Forall (sq_exact qsqrt) (r_rads (reparam qsqrt s0 ds n start_vel v2max dofs amin amax tmax))
    /\ Forall no_tiny_accel (r_steps (reparam qsqrt s0 ds n start_vel v2max dofs amin amax tmax))
    /\ exists g, hd_error (r_segs (reparam qsqrt s0 ds n start_vel v2max dofs amin amax tmax)) = Some g
                 /\ 0 < g_dt g /\ seg_val g 1 < g_g0 g + ds /\ seg_val g 1 + (1 # 10) < tmax.
Proof.
  exists 0, (1 # 4), 1%nat, (1 # 2), [None; None], [[(1, 8)]], [-(1)], [1], (1 # 4).
  split; [reflexivity|]. split; [discriminate|]. split; [discriminate|].
  split; [intros y Hy; discriminate Hy|].
  split; [vm_compute; reflexivity|].
  split; [apply sq_exact_check; vm_compute; reflexivity|].
  split; [apply no_tiny_check; vm_compute; reflexivity|].
  eexists. split; [reflexivity|].
  repeat split; vm_compute; reflexivity.
Qed.
