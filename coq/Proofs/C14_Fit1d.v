(* C14 / fit_spline_1d: fit1d_rows_meaning, row/column counts, kkt_solution_feasible, fit1d_output_feasible. *)
From Coq Require Import QArith List ZArith Bool Arith Lia Setoid Lqa.
Import ListNotations.
From SV Require Import Model.C14_Fit1d Proofs.C14_Fit1d_Base Proofs.C14_Fit1d_Rows.
Local Open Scope Q_scope.

(* ------------------------------------------------------------------ the constraints, index form *)
Definition constraints_hold (s : spec) (dt dx lv rv : list Q) (xs : list (list Q)) : Prop :=
  let K := Kdeg s in
  let N := npts dt dx in
  (forall i, (i < length (LeftDeg s))%nat -> dval K (nth 0 xs []) (nth i (LeftDeg s) 0%nat) 0 == nth i lv 0)
  /\ (forall i, (i < N)%nat -> dval K (nth i xs []) 0 0 == 0)
  /\ (inn_ge0 s = true -> forall i, (i < N)%nat -> dval K (nth i xs []) 0 1 == nth i dx 0)
  /\ (forall k d, (S k < N)%nat -> (1 <= d <= inn_cnt s)%nat ->
        dval K (nth k xs []) d 1 * (1 / qpow (nth k dt 0) d)
        == dval K (nth (S k) xs []) d 0 * (1 / qpow (nth (S k) dt 0) d))
  /\ (forall i, (i < length (RghtDeg s))%nat -> dval K (nth (N - 1) xs []) (nth i (RghtDeg s) 0%nat) 1 == nth i rv 0).

(* ------------------------------------------------------------------ shapes *)
Lemma length_rows_val s dx i : length (rows_val s i dx) = length (b_val s dx).
Proof.
  revert i; induction dx as [|d dx IH]; intros i; [reflexivity|].
  cbn [rows_val b_val length]. rewrite !app_length, IH. destruct (inn_ge0 s); reflexivity.
Qed.
Lemma length_b_val s dx : length (b_val s dx) = (length dx + (if inn_ge0 s then length dx else 0))%nat.
Proof.
  induction dx as [|d dx IH]; [destruct (inn_ge0 s); reflexivity|].
  cbn [b_val length]. rewrite app_length, IH. destruct (inn_ge0 s); cbn; lia.
Qed.
Lemma length_rows_cont s dts k : length (rows_cont s k dts) = length (b_cont s dts).
Proof.
  revert k; induction dts as [|dt dts IH]; intros k; [reflexivity|].
  destruct dts as [|dtn dts]; [reflexivity|].
  rewrite rows_cont_cons2, b_cont_cons2, !app_length, IH, map_length, seq_length, length_qzeros. reflexivity.
Qed.
Lemma length_b_cont s dts : length (b_cont s dts) = ((length dts - 1) * inn_cnt s)%nat.
Proof.
  induction dts as [|dt dts IH]; [reflexivity|].
  destruct dts as [|dtn dts]; [reflexivity|].
  rewrite b_cont_cons2, app_length, IH, length_qzeros. cbn [length]. lia.
Qed.

Lemma npts_firstn_dx dt dx : length (firstn (npts dt dx) dx) = npts dt dx.
Proof. rewrite firstn_length. unfold npts. lia. Qed.
Lemma npts_firstn_dt dt dx : length (firstn (npts dt dx) dt) = npts dt dx.
Proof. rewrite firstn_length. unfold npts. lia. Qed.

Theorem fit1d_row_count s dt dx : (1 <= npts dt dx)%nat ->
  length (A_rows s dt dx) = n_eq s (npts dt dx).
Proof.
  intros HN. unfold A_rows, n_eq, rows_left, rows_right.
  rewrite !app_length, !map_length, length_rows_val, length_b_val, length_rows_cont, length_b_cont.
  rewrite npts_firstn_dx, npts_firstn_dt.
  assert (Hc : (if (0 <? InnCnt s)%Z then ((npts dt dx - 1) * inn_cnt s)%nat else 0%nat) = ((npts dt dx - 1) * inn_cnt s)%nat).
  { destruct (Z.ltb_spec 0 (InnCnt s)) as [H|H]; [reflexivity|].
    unfold inn_cnt. destruct (InnCnt s); try lia; cbn; lia. }
  rewrite Hc. lia.
Qed.

(* every row fits into n_coef columns *)
Lemma blk_fit s i N (c : list Q) : (i < N)%nat -> (length c <= Kdeg s + 1)%nat -> (blk s i + length c <= n_coef s N)%nat.
Proof. intros Hi Hc. unfold blk, n_coef. nia. Qed.

Lemma rows_val_fit s N dx : forall i, (i + length dx <= N)%nat -> Forall (row_fits (n_coef s N)) (rows_val s i dx).
Proof.
  induction dx as [|d dx IH]; intros i Hi; [constructor|].
  cbn [rows_val]. cbn [length] in Hi. constructor.
  - constructor; [|constructor]. cbn [fst snd]. apply blk_fit; [lia|apply U0_row_len].
  - apply Forall_app. split.
    + destruct (inn_ge0 s); [|constructor]. constructor; [|constructor].
      constructor; [|constructor]. cbn [fst snd]. apply blk_fit; [lia|apply U1_row_len].
    + apply IH. lia.
Qed.
Lemma rows_cont_fit s N dts : forall k, (k + length dts <= N)%nat -> Forall (row_fits (n_coef s N)) (rows_cont s k dts).
Proof.
  induction dts as [|dt dts IH]; intros k Hk; [constructor|].
  destruct dts as [|dtn dts]; [constructor|].
  rewrite rows_cont_cons2. cbn [length] in Hk. apply Forall_app. split.
  - apply Forall_forall. intros r Hr. apply in_map_iff in Hr. destruct Hr as (d & <- & _).
    unfold cont_row. constructor; [|constructor; [|constructor]]; cbn [fst snd]; rewrite map_length.
    + apply blk_fit; [lia|apply U1_row_len].
    + apply blk_fit; [lia|apply U0_row_len].
  - apply IH. cbn [length]. lia.
Qed.

Lemma A_rows_fit s dt dx : (1 <= npts dt dx)%nat -> Forall (row_fits (n_coef s (npts dt dx))) (A_rows s dt dx).
Proof.
  intros HN. unfold A_rows. repeat (apply Forall_app; split).
  - unfold rows_left. apply Forall_forall. intros r Hr. apply in_map_iff in Hr. destruct Hr as (p & <- & _).
    constructor; [|constructor]. cbn [fst snd]. change 0%nat with (blk s 0). apply blk_fit; [lia|apply U0_row_len].
  - apply rows_val_fit. rewrite npts_firstn_dx. lia.
  - apply rows_cont_fit. rewrite npts_firstn_dt. lia.
  - unfold rows_right. apply Forall_forall. intros r Hr. apply in_map_iff in Hr. destruct Hr as (p & <- & _).
    constructor; [|constructor]. cbn [fst snd]. apply blk_fit; [lia|apply U1_row_len].
Qed.

Theorem fit1d_col_count s dt dx : (1 <= npts dt dx)%nat ->
  Forall (fun r => length r = n_coef s (npts dt dx)) (A_dense s dt dx).
Proof.
  intros HN. unfold A_dense. apply Forall_forall. intros r Hr. apply in_map_iff in Hr.
  destruct Hr as (r0 & <- & Hin). apply length_densify.
  pose proof (A_rows_fit s dt dx HN) as HF. rewrite Forall_forall in HF. apply HF; exact Hin.
Qed.

Lemma dense_sparse n rows x : Forall (row_fits n) rows -> length x = n -> forall b,
  (Forall2 Qeq (mat_vec (map (densify n) rows) x) b <-> F2 x rows b).
Proof.
  intros Hr Hx. unfold F2, mat_vec. rewrite map_map.
  induction Hr as [|r rows Hfit Hr IH]; intros b.
  - cbn. tauto.
  - cbn [map]. split; intros H; inversion H as [|? ? ? ? H1 H2 E1 E2]; constructor.
    + rewrite <- (densify_dot n r x Hfit Hx). exact H1.
    + apply IH; assumption.
    + rewrite (densify_dot n r x Hfit Hx). exact H1.
    + apply IH; assumption.
Qed.

(* ------------------------------------------------------------------ the main theorem, generic in the basis lemma *)
Theorem fit1d_rows_meaning_gen s dt dx lv rv xs :
  basis_ok (Kdeg s) (maxderiv s) -> spec_degs_ok s ->
  (1 <= npts dt dx)%nat -> length xs = npts dt dx ->
  Forall (fun c => length c = (Kdeg s + 1)%nat) xs ->
  length lv = length (LeftDeg s) -> length rv = length (RghtDeg s) ->
  (Forall2 Qeq (mat_vec (A_dense s dt dx) (concat xs)) (b_vec s dt dx lv rv) <-> constraints_hold s dt dx lv rv xs).
Proof.
  intros Hb Hd HN Hxs Hblk Hlv Hrv.
  unfold A_dense. rewrite dense_sparse; [|apply A_rows_fit; exact HN|].
  2:{ rewrite (length_concat_blocks (Kdeg s + 1)) by exact Hblk. unfold n_coef. rewrite Hxs. reflexivity. }
  unfold A_rows, b_vec.
  rewrite F2_app by (unfold rows_left; rewrite map_length; lia).
  rewrite F2_app by apply length_rows_val.
  rewrite F2_app by apply length_rows_cont.
  rewrite (left_meaning s xs Hb Hd Hblk lv) by lia.
  rewrite (val_meaning s xs Hb Hblk (firstn (npts dt dx) dx) 0) by (rewrite npts_firstn_dx; lia).
  rewrite (cont_meaning s xs Hb Hd Hblk (firstn (npts dt dx) dt) 0) by (rewrite npts_firstn_dt; lia).
  rewrite (right_meaning s xs Hb Hd Hblk (npts dt dx) rv) by (auto; lia).
  rewrite npts_firstn_dx, npts_firstn_dt.
  unfold constraints_hold. cbv zeta.
  split.
  - intros (HL & HV & HC & HR). repeat split.
    + exact HL.
    + intros i Hi. apply (HV i Hi).
    + intros Hinn i Hi. destruct (HV i Hi) as [_ H1]. cbn [Nat.add] in H1.
      rewrite nth_firstn_lt in H1 by exact Hi. apply H1; exact Hinn.
    + intros k d Hk Hd'. pose proof (HC k d Hk Hd') as H. cbn [Nat.add] in H.
      rewrite !nth_firstn_lt in H by lia. exact H.
    + exact HR.
  - intros (HL & HV0 & HV1 & HC & HR). repeat split.
    + exact HL.
    + cbn [Nat.add]. apply HV0; assumption.
    + cbn [Nat.add]. intros Hinn. rewrite nth_firstn_lt by assumption. apply HV1; assumption.
    + intros j d Hj Hd'. cbn [Nat.add]. rewrite !nth_firstn_lt by lia. apply HC; assumption.
    + exact HR.
Qed.

(* ------------------------------------------------------------------ basis lemmas for the degrees the property names *)
Ltac basis_tac K D :=
  let c := fresh "c" in let d := fresh "d" in let Hd := fresh "Hd" in let Hc := fresh "Hc" in
  intros c d Hd Hc;
  repeat (destruct c as [|? c]; [discriminate|]); destruct c; [|discriminate];
  destruct d as [|[|[|[|d]]]]; try (exfalso; lia); split;
  (let r := eval vm_compute in (U0tB K D) in change (U0tB K D) with r);
  (let r := eval vm_compute in (U1tB K D) in change (U1tB K D) with r);
  cbv [nth qdot dval bernpoly bernsum bern iter_deriv pderiv pderiv_aux padd pscale pmul ppow map zbinom Nat.sub
       peval inject_Z Z.of_nat Pos.of_succ_nat Pos.succ Z.add Pos.add Pos.add_carry];
  ring.

Lemma basis_1_0 : basis_ok 1 0. Proof. unfold basis_ok. basis_tac 1%nat 0%nat. Qed.
Lemma basis_3_2 : basis_ok 3 2. Proof. unfold basis_ok. basis_tac 3%nat 2%nat. Qed.
Lemma basis_5_3 : basis_ok 5 3. Proof. unfold basis_ok. basis_tac 5%nat 3%nat. Qed.
Lemma basis_6_3 : basis_ok 6 3. Proof. unfold basis_ok. basis_tac 6%nat 3%nat. Qed.

Definition supported (s : spec) : Prop :=
  In s [PiecewiseLinear; FixedDerCubic 1 1; FixedDerCubic 2 2; FixedDerCubic 1 2; FixedDerCubic 2 1;
        MinDerivative 5 3 3; MinDerivative 6 3 3].

Lemma supported_basis s : supported s -> basis_ok (Kdeg s) (maxderiv s).
Proof.
  unfold supported. cbn [In]. intros H.
  repeat (destruct H as [<-|H]; [first [exact basis_1_0|exact basis_3_2|exact basis_5_3|exact basis_6_3]|]).
  contradiction.
Qed.
Lemma supported_degs s : supported s -> spec_degs_ok s.
Proof.
  unfold supported. cbn [In]. intros H.
  repeat (destruct H as [<-|H]; [unfold spec_degs_ok; vm_compute; repeat split; repeat constructor|]).
  contradiction.
Qed.

Theorem fit1d_rows_meaning s dt dx lv rv xs :
  supported s ->
  (1 <= npts dt dx)%nat -> length xs = npts dt dx ->
  Forall (fun c => length c = (Kdeg s + 1)%nat) xs ->
  length lv = length (LeftDeg s) -> length rv = length (RghtDeg s) ->
  (Forall2 Qeq (mat_vec (A_dense s dt dx) (concat xs)) (b_vec s dt dx lv rv) <-> constraints_hold s dt dx lv rv xs).
Proof. intros Hs. apply fit1d_rows_meaning_gen; auto using supported_basis, supported_degs. Qed.

(* N_eq <= N_coef, with equality for the interpolating specs (fit_impl.hpp:103 and :164 asserts) *)
Theorem fit1d_counts s N : supported s -> (1 <= N)%nat ->
  (n_eq s N <= n_coef s N)%nat /\ (OptDeg s = None -> n_eq s N = n_coef s N).
Proof.
  unfold supported. cbn [In]. intros H HN.
  repeat (destruct H as [<-|H];
    [unfold n_eq, n_coef; cbn; split; [lia|first [intros _; lia|discriminate]]|]).
  contradiction.
Qed.

(* ------------------------------------------------------------------ KKT system *)
Lemma length_q_rows s od dts ncoef : forall i, length (q_rows s od i dts ncoef) = ((Kdeg s + 1) * length dts)%nat.
Proof.
  induction dts as [|dt dts IH]; intros i; [cbn; lia|].
  cbn [q_rows length]. rewrite app_length, IH, map_length. unfold q_block. rewrite map_length, seq_length. lia.
Qed.
Lemma length_map2app X Y : length (map2app X Y) = Nat.min (length X) (length Y).
Proof. revert Y; induction X as [|r X IH]; intros [|t Y]; cbn; auto. Qed.
Lemma length_mtrans n M : length (mtrans n M) = n.
Proof. unfold mtrans. rewrite map_length, seq_length. reflexivity. Qed.

Lemma bottom_rows (A : list (list Q)) n m z : Forall (fun r => length r = n) A -> (n <= length z)%nat ->
  forall b, Forall2 Qeq (mat_vec (map (fun r => r ++ qzeros m) A) z) b -> Forall2 Qeq (mat_vec A (firstn n z)) b.
Proof.
  intros HA Hz. unfold mat_vec. rewrite map_map.
  induction HA as [|r A Hr HA IH]; intros b H; inversion H as [|? ? ? ? H1 H2 E1 E2]; cbn [map]; constructor.
  - rewrite <- H1. rewrite <- (firstn_skipn n z) at 2. rewrite qdot_app by (rewrite firstn_length; lia).
    rewrite qdot_zeros_l. ring.
  - apply IH. assumption.
Qed.

(* any solution of the KKT system the code hands to SparseLU (fit_impl.hpp:220) satisfies the constraints A x = b *)
Theorem kkt_solution_feasible s od dt dx lv rv z :
  (1 <= npts dt dx)%nat ->
  length z = (n_coef s (npts dt dx) + n_eq s (npts dt dx))%nat ->
  Forall2 Qeq (mat_vec (kkt_H s od dt dx) z) (kkt_rhs s dt dx lv rv) ->
  Forall2 Qeq (mat_vec (A_dense s dt dx) (firstn (n_coef s (npts dt dx)) z)) (b_vec s dt dx lv rv).
Proof.
  intros HN Hz H. unfold kkt_H, kkt_rhs in H. cbv zeta in H.
  unfold mat_vec in H. rewrite map_app in H.
  apply Forall2_app_split in H.
  - destruct H as [_ H]. eapply bottom_rows; [apply fit1d_col_count; exact HN|lia|exact H].
  - rewrite map_length, length_map2app, length_q_rows, length_mtrans, length_qzeros, npts_firstn_dt.
    unfold n_coef. lia.
Qed.

(* the matrix handed to the solver is square of size N_coef + N_eq (fit_impl.hpp:190) and so is the right-hand side
   (:216-218) *)
Lemma kkt_H_rows s od dt dx : (1 <= npts dt dx)%nat ->
  length (kkt_H s od dt dx) = (n_coef s (npts dt dx) + n_eq s (npts dt dx))%nat.
Proof.
  intros HN. unfold kkt_H. cbv zeta.
  rewrite app_length, map_length, length_map2app, length_q_rows, length_mtrans, npts_firstn_dt.
  unfold A_dense. rewrite map_length, fit1d_row_count by exact HN. unfold n_coef. lia.
Qed.

(* entry view of the two off-diagonal blocks: exactly the two inserts of fit_impl.hpp:209-210,
     H(N_coef + r, col) = A(r, col)   and   H(col, N_coef + r) = A(r, col) *)
Lemma q_rows_width s od ncoef dts : forall i, ((i + length dts) * (Kdeg s + 1) <= ncoef)%nat ->
  Forall (fun r => length r = ncoef) (q_rows s od i dts ncoef).
Proof.
  induction dts as [|dt dts IH]; intros i Hi; [constructor|].
  cbn [q_rows]. apply Forall_app. split.
  - apply Forall_forall. intros r Hr. apply in_map_iff in Hr. destruct Hr as [c [<- Hc]].
    apply length_place. unfold q_block in Hc. apply in_map_iff in Hc. destruct Hc as [ki [<- _]].
    rewrite map_length, seq_length. unfold blk. cbn [length] in Hi. nia.
  - apply IH. cbn [length] in Hi. lia.
Qed.
Lemma nth_map_lt (A B : Type) (f : A -> B) l : forall k d d', (k < length l)%nat -> nth k (map f l) d' = f (nth k l d).
Proof. induction l as [|x l IH]; intros [|k] d d' H; cbn [length] in *; try lia; cbn [map nth]; [reflexivity|apply IH; lia]. Qed.
Lemma nth_map2app X Y : forall k, (k < length X)%nat -> (k < length Y)%nat ->
  nth k (map2app X Y) [] = nth k X [] ++ nth k Y [].
Proof.
  revert Y; induction X as [|r X IH]; intros [|t Y] k HX HY; cbn [length] in *; try lia.
  destruct k; cbn [map2app nth]; [reflexivity|]. apply IH; lia.
Qed.
Theorem kkt_H_blocks s od dt dx r col :
  (1 <= npts dt dx)%nat -> (r < n_eq s (npts dt dx))%nat -> (col < n_coef s (npts dt dx))%nat ->
  mget (kkt_H s od dt dx) (n_coef s (npts dt dx) + r) col = mget (A_dense s dt dx) r col
  /\ mget (kkt_H s od dt dx) col (n_coef s (npts dt dx) + r) = mget (A_dense s dt dx) r col.
Proof.
  intros HN Hr Hc. set (N := npts dt dx) in *. set (A := A_dense s dt dx).
  assert (HlenA : length A = n_eq s N).
  { unfold A, A_dense. rewrite map_length. apply fit1d_row_count. exact HN. }
  assert (HwA : Forall (fun row => length row = n_coef s N) A) by (apply fit1d_col_count; exact HN).
  assert (HlenTop : length (map2app (q_rows s od 0 (firstn N dt) (n_coef s N)) (mtrans (n_coef s N) A)) = n_coef s N).
  { rewrite length_map2app, length_q_rows, length_mtrans. unfold N at 1. rewrite npts_firstn_dt. fold N. unfold n_coef. lia. }
  assert (Hrow : length (nth r A []) = n_coef s N).
  { rewrite Forall_forall in HwA. apply HwA. apply nth_In. lia. }
  unfold mget, kkt_H. cbv zeta. fold N. fold A. split.
  - rewrite app_nth2 by lia. rewrite HlenTop.
    replace (n_coef s N + r - n_coef s N)%nat with r by lia.
    rewrite (nth_map_lt _ _ _ A r []) by lia. apply app_nth1. lia.
  - rewrite app_nth1 by lia.
    rewrite nth_map2app.
    2:{ rewrite length_q_rows. unfold N at 1. rewrite npts_firstn_dt. fold N. unfold n_coef in *. lia. }
    2:{ rewrite length_mtrans. exact Hc. }
    assert (Hq : length (nth col (q_rows s od 0 (firstn N dt) (n_coef s N)) []) = n_coef s N).
    { pose proof (q_rows_width s od (n_coef s N) (firstn N dt) 0) as Hw.
      rewrite Forall_forall in Hw. apply Hw.
      - unfold N at 1. rewrite npts_firstn_dt. fold N. unfold n_coef. lia.
      - apply nth_In. rewrite length_q_rows. unfold N at 1. rewrite npts_firstn_dt. fold N. unfold n_coef in *. lia. }
    rewrite app_nth2 by lia. rewrite Hq.
    replace (n_coef s N + r - n_coef s N)%nat with r by lia.
    unfold mtrans. rewrite (nth_map_lt _ _ _ (seq 0 (n_coef s N)) col 0%nat) by (rewrite seq_length; exact Hc).
    rewrite seq_nth by exact Hc. cbn [Nat.add]. unfold mcol.
    rewrite (nth_map_lt _ _ _ A r []) by lia. reflexivity.
Qed.

(* MinDerivative<5,3,3>, one interval of 0.5 s: 6 coefficients, 6 equations, a 12 x 12 system; the first constraint
   row (left first derivative, (-5, 5, 0, ...)) appears both as row 6 and as column 6 of H *)
Example kkt_H_blocks_ex :
  length (kkt_H (MinDerivative 5 3 3) 3 [1 # 2] [2]) = 12%nat
  /\ mget (kkt_H (MinDerivative 5 3 3) 3 [1 # 2] [2]) 6 1 == 5 /\ mget (kkt_H (MinDerivative 5 3 3) 3 [1 # 2] [2]) 1 6 == 5
  /\ mget (A_dense (MinDerivative 5 3 3) [1 # 2] [2]) 0 1 == 5.
Proof. repeat split; vm_compute; reflexivity. Qed.

(* fit_spline_1d's return value satisfies its constraint system provided Eigen::SparseLU, called on the system of
   this input, returned a solution of the system it was given (the solver contract; checked at run time by the
   harness).  One solver, two call sites: :162-163 on A (interpolating specs) and :220-221 on the KKT matrix. *)
Theorem fit1d_output_feasible s (lu : list (list Q) -> list Q -> list Q) dt dx lv rv :
  (1 <= npts dt dx)%nat ->
  (OptDeg s = None ->
     Forall2 Qeq (mat_vec (A_dense s dt dx) (lu (A_dense s dt dx) (b_vec s dt dx lv rv))) (b_vec s dt dx lv rv)) ->
  (forall od, OptDeg s = Some od ->
     let z := lu (kkt_H s od dt dx) (kkt_rhs s dt dx lv rv) in
     length z = (n_coef s (npts dt dx) + n_eq s (npts dt dx))%nat /\
     Forall2 Qeq (mat_vec (kkt_H s od dt dx) z) (kkt_rhs s dt dx lv rv)) ->
  Forall2 Qeq (mat_vec (A_dense s dt dx) (fit_spline_1d s lu dt dx lv rv)) (b_vec s dt dx lv rv).
Proof.
  intros HN Hlu Hkkt. unfold fit_spline_1d. destruct (OptDeg s) as [od|] eqn:E.
  - destruct (Hkkt od eq_refl) as [Hlen Hsol]. apply (kkt_solution_feasible s od); assumption.
  - apply Hlu. reflexivity.
Qed.

(* ------------------------------------------------------------------ non-vacuity: concrete feasible points *)
Example ex_linear :
  constraints_hold PiecewiseLinear [1; 2] [3; 4] [] [] [[0; 3]; [0; 4]]
  /\ Forall2 Qeq (mat_vec (A_dense PiecewiseLinear [1; 2] [3; 4]) (concat [[0; 3]; [0; 4]])) (b_vec PiecewiseLinear [1; 2] [3; 4] [] []).
Proof.
  assert (H : Forall2 Qeq (mat_vec (A_dense PiecewiseLinear [1; 2] [3; 4]) (concat [[0; 3]; [0; 4]])) (b_vec PiecewiseLinear [1; 2] [3; 4] [] [])).
  { vm_compute. repeat constructor. }
  split; [|exact H].
  apply (proj1 (fit1d_rows_meaning PiecewiseLinear [1; 2] [3; 4] [] [] [[0; 3]; [0; 4]]
    ltac:(unfold supported; cbn; auto 10) ltac:(vm_compute; lia) eq_refl ltac:(repeat constructor) eq_refl eq_refl)).
  exact H.
Qed.

(* natural cubic (FixedDerCubic<2,2>) through increments 3, 4 over durations 1, 2; coefficients solved by hand *)
Definition ex_cubic_xs : list (list Q) := [[0; 19 # 18; 19 # 9; 3]; [0; 16 # 9; 26 # 9; 4]].
Example ex_cubic :
  Forall2 Qeq (mat_vec (A_dense (FixedDerCubic 2 2) [1; 2] [3; 4]) (concat ex_cubic_xs)) (b_vec (FixedDerCubic 2 2) [1; 2] [3; 4] [0] [0])
  /\ constraints_hold (FixedDerCubic 2 2) [1; 2] [3; 4] [0] [0] ex_cubic_xs.
Proof.
  assert (H : Forall2 Qeq (mat_vec (A_dense (FixedDerCubic 2 2) [1; 2] [3; 4]) (concat ex_cubic_xs)) (b_vec (FixedDerCubic 2 2) [1; 2] [3; 4] [0] [0])).
  { vm_compute. repeat constructor. }
  split; [exact H|].
  apply (proj1 (fit1d_rows_meaning (FixedDerCubic 2 2) [1; 2] [3; 4] [0] [0] ex_cubic_xs
    ltac:(unfold supported; cbn; auto 10) ltac:(vm_compute; lia) eq_refl ltac:(repeat constructor) eq_refl eq_refl)).
  exact H.
Qed.

Example ex_minder :
  Forall2 Qeq (mat_vec (A_dense (MinDerivative 6 3 3) [1] [2]) (concat [[0; 0; 0; 1; 2; 2; 2]])) (b_vec (MinDerivative 6 3 3) [1] [2] [0; 0] [0; 0])
  /\ constraints_hold (MinDerivative 6 3 3) [1] [2] [0; 0] [0; 0] [[0; 0; 0; 1; 2; 2; 2]].
Proof.
  assert (H : Forall2 Qeq (mat_vec (A_dense (MinDerivative 6 3 3) [1] [2]) (concat [[0; 0; 0; 1; 2; 2; 2]])) (b_vec (MinDerivative 6 3 3) [1] [2] [0; 0] [0; 0])).
  { vm_compute. repeat constructor. }
  split; [exact H|].
  apply (proj1 (fit1d_rows_meaning (MinDerivative 6 3 3) [1] [2] [0; 0] [0; 0] [[0; 0; 0; 1; 2; 2; 2]]
    ltac:(unfold supported; cbn; auto 10) ltac:(vm_compute; lia) eq_refl ltac:(repeat constructor) eq_refl eq_refl)).
  exact H.
Qed.
