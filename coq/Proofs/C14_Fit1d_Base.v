(* C14 / fit_spline_1d: dot-product, placement and block-structure lemmas for the sparse-row model. *)
From Coq Require Import QArith List ZArith Bool Arith Lia Setoid.
Import ListNotations.
From SV Require Import Model.C14_Fit1d.
Local Open Scope Q_scope.

(* ------------------------------------------------------------------ A. dot-product lemmas *)
Lemma qdot_nil_r u : qdot u [] = 0.
Proof. destruct u; reflexivity. Qed.

Lemma qdot_zeros_l n x : qdot (qzeros n) x == 0.
Proof.
  revert x; induction n as [|n IH]; intros x; [reflexivity|].
  destruct x as [|y x]; [reflexivity|]. cbn [qzeros repeat qdot]. fold (qzeros n). rewrite IH. ring.
Qed.

Lemma qdot_app u1 u2 x1 x2 : length u1 = length x1 -> qdot (u1 ++ u2) (x1 ++ x2) == qdot u1 x1 + qdot u2 x2.
Proof.
  revert x1; induction u1 as [|a u1 IH]; intros [|y x1] H; try discriminate.
  - cbn. ring.
  - cbn [app qdot]. rewrite IH by (cbn in H; lia). ring.
Qed.

Lemma qdot_app_zeros c m y : qdot (c ++ qzeros m) y == qdot c y.
Proof.
  revert y; induction c as [|a c IH]; intros y.
  - cbn [app]. rewrite qdot_zeros_l. destruct y; reflexivity.
  - destruct y as [|b y]; [reflexivity|]. cbn [app qdot]. rewrite IH. reflexivity.
Qed.

Lemma length_qzeros n : length (qzeros n) = n.
Proof. apply repeat_length. Qed.

Lemma length_place off c n : (off + length c <= n)%nat -> length (place off c n) = n.
Proof. intros H. unfold place. rewrite !app_length, !length_qzeros. lia. Qed.

Lemma qdot_place off c n x : (off + length c <= n)%nat -> length x = n ->
  qdot (place off c n) x == qdot c (skipn off x).
Proof.
  intros H Hx. unfold place.
  rewrite <- (firstn_skipn off x) at 1.
  rewrite qdot_app.
  - rewrite qdot_zeros_l, qdot_app_zeros. ring.
  - rewrite length_qzeros, firstn_length. lia.
Qed.

Lemma length_qvadd u v : length u = length v -> length (qvadd u v) = length u.
Proof.
  revert v; induction u as [|a u IH]; intros [|b v] H; try discriminate; [reflexivity|].
  cbn. f_equal. apply IH. cbn in H; lia.
Qed.

Lemma qdot_qvadd u v x : length u = length v -> qdot (qvadd u v) x == qdot u x + qdot v x.
Proof.
  revert v x; induction u as [|a u IH]; intros [|b v] x H; try discriminate.
  - cbn. ring.
  - destruct x as [|y x]; [cbn; ring|]. cbn [qvadd qdot]. rewrite IH by (cbn in H; lia). ring.
Qed.

Definition row_fits (n : nat) (r : srow) : Prop := Forall (fun oc => (fst oc + length (snd oc) <= n)%nat) r.

Lemma length_densify n r : row_fits n r -> length (densify n r) = n.
Proof.
  induction 1 as [|oc r Hoc Hr IH]; cbn [densify fold_right].
  - apply length_qzeros.
  - fold (densify n r). rewrite length_qvadd; rewrite length_place by exact Hoc; [reflexivity|]. symmetry; exact IH.
Qed.

Lemma densify_dot n r x : row_fits n r -> length x = n -> qdot (densify n r) x == srow_dot r x.
Proof.
  intros Hr Hx. induction Hr as [|oc r Hoc Hr IH]; cbn [densify srow_dot fold_right].
  - apply qdot_zeros_l.
  - fold (densify n r). fold (srow_dot r x).
    rewrite qdot_qvadd.
    + rewrite qdot_place by assumption. rewrite IH. reflexivity.
    + rewrite length_place by exact Hoc. symmetry. apply length_densify; exact Hr.
Qed.

Lemma qdot_scale_l f r c : qdot (map (fun v => v * f) r) c == qdot r c * f.
Proof.
  revert c; induction r as [|a r IH]; intros [|b c]; cbn [map qdot]; try ring.
  rewrite IH. ring.
Qed.
Lemma qdot_nscale_l f r c : qdot (map (fun v => (- v) * f) r) c == - (qdot r c * f).
Proof.
  revert c; induction r as [|a r IH]; intros [|b c]; cbn [map qdot]; try ring.
  rewrite IH. ring.
Qed.

Lemma qdot_short c b rest : (length c <= length b)%nat -> qdot c (b ++ rest) == qdot c b.
Proof.
  revert b; induction c as [|a c IH]; intros [|y b] H; cbn [app qdot]; try reflexivity.
  - cbn in H; lia.
  - rewrite IH by (cbn in H; lia). reflexivity.
Qed.

(* ------------------------------------------------------------------ C. block structure of the coefficient vector *)
Lemma skipn_concat_blocks (m : nat) (xs : list (list Q)) i :
  Forall (fun b => length b = m) xs -> (i < length xs)%nat ->
  skipn (i * m) (concat xs) = nth i xs [] ++ concat (skipn (S i) xs).
Proof.
  intros Hx; revert i; induction Hx as [|b xs Hb Hxs IH]; intros i Hi; [cbn in Hi; lia|].
  destruct i as [|i].
  - reflexivity.
  - cbn [concat nth skipn Nat.mul]. cbn in Hi.
    replace (m + i * m)%nat with (length b + i * m)%nat by lia.
    rewrite skipn_app, skipn_all2 by lia.
    replace (length b + i * m - length b)%nat with (i * m)%nat by lia.
    cbn [app]. rewrite IH by lia. reflexivity.
Qed.

Lemma length_concat_blocks (m : nat) (xs : list (list Q)) :
  Forall (fun b => length b = m) xs -> length (concat xs) = (m * length xs)%nat.
Proof.
  induction 1 as [|b xs Hb Hxs IH]; [cbn; lia|]. cbn [concat length]. rewrite app_length, IH. lia.
Qed.

Lemma Forall2_len {A B} (R : A -> B -> Prop) l l' : Forall2 R l l' -> length l = length l'.
Proof. induction 1; cbn; congruence. Qed.

Lemma Forall2_app_split {A B} (R : A -> B -> Prop) l1 l2 b1 b2 : length l1 = length b1 ->
  (Forall2 R (l1 ++ l2) (b1 ++ b2) <-> Forall2 R l1 b1 /\ Forall2 R l2 b2).
Proof.
  intros H. split.
  - intros HH. apply Forall2_app_inv_l in HH. destruct HH as (k1 & k2 & H1 & H2 & E).
    assert (Hk : length k1 = length b1) by (apply Forall2_len in H1; lia).
    apply app_eq_app in E. destruct E as [l [[E1 E2]|[E1 E2]]]; subst.
    + rewrite app_length in Hk. destruct l; [|cbn in Hk; lia]. rewrite app_nil_r in *. cbn in H2. tauto.
    + rewrite app_length in Hk. destruct l; [|cbn in Hk; lia]. rewrite app_nil_r in *. cbn in H2. tauto.
  - intros [H1 H2]. apply Forall2_app; assumption.
Qed.

Lemma nth_firstn_lt {A} (l : list A) n i d : (i < n)%nat -> nth i (firstn n l) d = nth i l d.
Proof.
  revert n i; induction l as [|a l IH]; intros n i H.
  - rewrite firstn_nil. reflexivity.
  - destruct n as [|n]; [lia|]. destruct i as [|i]; [reflexivity|]. cbn [firstn nth]. apply IH. lia.
Qed.
