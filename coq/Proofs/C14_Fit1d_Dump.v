(* C14 / fit_spline_1d: the basis rows the exact-Q model computes (transcribed monomial_derivative / bernstein_basis /
   monomial_integral recursions) equal, entry by entry, the matrices the library's constexpr code produces in binary64
   (Gen/BasisC14.v, regenerated from /repo on every run by harness/h_c14_basisdump.cpp). *)
From Coq Require Import QArith Qabs Qminmax List Bool.
From SV Require Import Model.C14_Fit1d.
From SV Require Gen.BasisC14.
Import ListNotations.
Local Open Scope Q_scope.

Fixpoint qrow_eqb (u v : list Q) : bool :=
  match u, v with
  | [], [] => true
  | x :: u', y :: v' => Qeq_bool x y && qrow_eqb u' v'
  | _, _ => false
  end.
Fixpoint qmat_eqb (A B : list (list Q)) : bool :=
  match A, B with
  | [], [] => true
  | r :: A', t :: B' => qrow_eqb r t && qmat_eqb A' B'
  | _, _ => false
  end.

Lemma qrow_eqb_sound u v : qrow_eqb u v = true -> Forall2 Qeq u v.
Proof.
  revert v; induction u as [|x u IH]; intros [|y v] H; try discriminate; [constructor|].
  cbn in H. apply andb_prop in H. destruct H as [H1 H2]. constructor; [apply Qeq_bool_eq; exact H1|apply IH; exact H2].
Qed.
Lemma qmat_eqb_sound A B : qmat_eqb A B = true -> Forall2 (Forall2 Qeq) A B.
Proof.
  revert B; induction A as [|r A IH]; intros [|t B] H; try discriminate; [constructor|].
  cbn in H. apply andb_prop in H. destruct H as [H1 H2]. constructor; [apply qrow_eqb_sound; exact H1|apply IH; exact H2].
Qed.

(* closeness for the cost matrix P = B^T M B: its exact entries have denominators 3, 5, 7 (monomial_integral), so
   the binary64 constexpr evaluation is rounded; required: |model - dump| <= 1e-12 * max(1, |model|) *)
Definition qclose (x y : Q) : bool :=
  Qle_bool (Qabs (x - y)) ((1 # 1000000000000) * Qmax 1 (Qabs x)).
Fixpoint qrow_close (u v : list Q) : bool :=
  match u, v with
  | [], [] => true
  | x :: u', y :: v' => qclose x y && qrow_close u' v'
  | _, _ => false
  end.
Fixpoint qmat_close (A B : list (list Q)) : bool :=
  match A, B with
  | [], [] => true
  | r :: A', t :: B' => qrow_close r t && qmat_close A' B'
  | _, _ => false
  end.
Definition qcloseP (x y : Q) : Prop := Qabs (x - y) <= (1 # 1000000000000) * Qmax 1 (Qabs x).
Lemma qrow_close_sound u v : qrow_close u v = true -> Forall2 qcloseP u v.
Proof.
  revert v; induction u as [|x u IH]; intros [|y v] H; try discriminate; [constructor|].
  cbn in H. apply andb_prop in H. destruct H as [H1 H2]. constructor; [apply Qle_bool_iff; exact H1|apply IH; exact H2].
Qed.
Lemma qmat_close_sound A B : qmat_close A B = true -> Forall2 (Forall2 qcloseP) A B.
Proof.
  revert B; induction A as [|r A IH]; intros [|t B] H; try discriminate; [constructor|].
  cbn in H. apply andb_prop in H. destruct H as [H1 H2]. constructor; [apply qrow_close_sound; exact H1|apply IH; exact H2].
Qed.

Definition dump_ok : bool :=
  qmat_eqb (U0tB 1 0) Gen.BasisC14.dump_U0tB_1_0 && qmat_eqb (U1tB 1 0) Gen.BasisC14.dump_U1tB_1_0
  && qmat_eqb (U0tB 3 2) Gen.BasisC14.dump_U0tB_3_2 && qmat_eqb (U1tB 3 2) Gen.BasisC14.dump_U1tB_3_2
  && qmat_eqb (U0tB 5 3) Gen.BasisC14.dump_U0tB_5_3 && qmat_eqb (U1tB 5 3) Gen.BasisC14.dump_U1tB_5_3
  && qmat_close (cost_P 5 3) Gen.BasisC14.dump_P_5_3
  && qmat_eqb (U0tB 6 3) Gen.BasisC14.dump_U0tB_6_3 && qmat_eqb (U1tB 6 3) Gen.BasisC14.dump_U1tB_6_3
  && qmat_close (cost_P 6 3) Gen.BasisC14.dump_P_6_3.

Lemma basis_dump_ok : dump_ok = true.
Proof. vm_compute. reflexivity. Qed.

Theorem basis_dump_matches :
  Forall2 (Forall2 Qeq) (U0tB 1 0) Gen.BasisC14.dump_U0tB_1_0 /\ Forall2 (Forall2 Qeq) (U1tB 1 0) Gen.BasisC14.dump_U1tB_1_0 /\
  Forall2 (Forall2 Qeq) (U0tB 3 2) Gen.BasisC14.dump_U0tB_3_2 /\ Forall2 (Forall2 Qeq) (U1tB 3 2) Gen.BasisC14.dump_U1tB_3_2 /\
  Forall2 (Forall2 Qeq) (U0tB 5 3) Gen.BasisC14.dump_U0tB_5_3 /\ Forall2 (Forall2 Qeq) (U1tB 5 3) Gen.BasisC14.dump_U1tB_5_3 /\
  Forall2 (Forall2 qcloseP) (cost_P 5 3) Gen.BasisC14.dump_P_5_3 /\
  Forall2 (Forall2 Qeq) (U0tB 6 3) Gen.BasisC14.dump_U0tB_6_3 /\ Forall2 (Forall2 Qeq) (U1tB 6 3) Gen.BasisC14.dump_U1tB_6_3 /\
  Forall2 (Forall2 qcloseP) (cost_P 6 3) Gen.BasisC14.dump_P_6_3.
Proof.
  pose proof basis_dump_ok as H. unfold dump_ok in H.
  repeat (apply andb_prop in H; destruct H as [H ?]).
  repeat split; first [apply qmat_eqb_sound; assumption|apply qmat_close_sound; assumption].
Qed.
