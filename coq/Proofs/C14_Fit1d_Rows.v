(* C14 / fit_spline_1d: specification side (explicit Bernstein polynomials, derivatives) and the meaning of each
   family of constraint rows (fit_impl.hpp:121-157), generic in the degree via the basis lemma `basis_ok`. *)
From Coq Require Import QArith List ZArith Bool Arith Lia Setoid Lqa.
Import ListNotations.
From SV Require Import Model.C14_Fit1d Proofs.C14_Fit1d_Base.
Local Open Scope Q_scope.

(* spec side: polynomials in the monomial basis, explicit Bernstein polynomials *)
Definition poly := list Q.
Fixpoint peval (p : poly) (u : Q) : Q := match p with [] => 0 | a :: p' => a + u * peval p' u end.
Fixpoint pderiv_aux (n : nat) (p : poly) : poly :=
  match p with [] => [] | a :: p' => (inject_Z (Z.of_nat n) * a) :: pderiv_aux (S n) p' end.
Definition pderiv (p : poly) : poly := match p with [] => [] | _ :: p' => pderiv_aux 1 p' end.
Fixpoint padd (p q : poly) : poly :=
  match p, q with [], _ => q | _, [] => p | a :: p', b :: q' => (a + b) :: padd p' q' end.
Definition pscale (c : Q) (p : poly) : poly := map (Qmult c) p.
Fixpoint pmul (p q : poly) : poly := match p with [] => [] | a :: p' => padd (pscale a q) (0 :: pmul p' q) end.
Fixpoint ppow (p : poly) (n : nat) : poly := match n with O => [1] | S k => pmul p (ppow p k) end.
Fixpoint zbinom (n k : nat) : Z :=
  match n, k with _, O => 1%Z | O, S _ => 0%Z | S n', S k' => (zbinom n' k' + zbinom n' k)%Z end.
(* b_{nu,K}(u) = C(K,nu) u^nu (1-u)^(K-nu) *)
Definition bern (K nu : nat) : poly := pscale (inject_Z (zbinom K nu)) (pmul (ppow [0; 1] nu) (ppow [1; -1] (K - nu))).
Fixpoint bernsum (K nu : nat) (c : list Q) : poly :=
  match c with [] => [] | a :: c' => padd (pscale a (bern K nu)) (bernsum K (S nu) c') end.
Definition bernpoly (K : nat) (c : list Q) : poly := bernsum K 0 c.
Fixpoint iter_deriv (d : nat) (p : poly) : poly := match d with O => p | S k => iter_deriv k (pderiv p) end.
(* d-th u-derivative at u of the Bernstein-form polynomial with coefficients c *)
Definition dval (K : nat) (c : list Q) (d : nat) (u : Q) : Q := peval (iter_deriv d (bernpoly K c)) u.

Definition basis_ok (K D : nat) : Prop := forall c d, (d <= D)%nat -> length c = (K + 1)%nat ->
  qdot (nth d (U0tB K D) []) c == dval K c d 0 /\ qdot (nth d (U1tB K D) []) c == dval K c d 1.
Definition spec_degs_ok (s : spec) : Prop :=
  Forall (fun p => (p <= maxderiv s)%nat) (LeftDeg s) /\ Forall (fun p => (p <= maxderiv s)%nat) (RghtDeg s)
  /\ (inn_cnt s <= maxderiv s)%nat.

Lemma mmul_row_len n A B d : (length (nth d (mmul n A B) []) <= n)%nat.
Proof.
  unfold mmul. destruct (Nat.lt_ge_cases d (length A)) as [H|H].
  - rewrite (nth_indep _ [] (map (fun c => qdot [] (mcol B c)) (seq 0 n))) by (rewrite map_length; exact H).
    rewrite (map_nth (fun r => map (fun c => qdot r (mcol B c)) (seq 0 n)) A [] d).
    rewrite map_length, seq_length. lia.
  - rewrite nth_overflow by (rewrite map_length; exact H). cbn; lia.
Qed.
Lemma U0_row_len K D d : (length (nth d (U0tB K D) []) <= K + 1)%nat.
Proof. apply mmul_row_len. Qed.
Lemma U1_row_len K D d : (length (nth d (U1tB K D) []) <= K + 1)%nat.
Proof. apply mmul_row_len. Qed.

(* F2 rows b : the rows, applied to x, give b *)
Definition F2 (x : list Q) (rows : list srow) (b : list Q) : Prop :=
  Forall2 Qeq (map (fun r => srow_dot r x) rows) b.

Lemma F2_app x r1 r2 b1 b2 : length r1 = length b1 ->
  (F2 x (r1 ++ r2) (b1 ++ b2) <-> F2 x r1 b1 /\ F2 x r2 b2).
Proof. intros H. unfold F2. rewrite map_app. apply Forall2_app_split. rewrite map_length; exact H. Qed.

Lemma F2_cons x r rows b bs : F2 x (r :: rows) (b :: bs) <-> srow_dot r x == b /\ F2 x rows bs.
Proof.
  unfold F2; cbn [map]. split.
  - intros H; inversion H; subst; tauto.
  - intros [H1 H2]; constructor; assumption.
Qed.
Lemma F2_nil x : F2 x [] [] <-> True.
Proof. unfold F2; cbn; split; auto. Qed.

Section Meaning.
  Variable s : spec.
  Variable xs : list (list Q).
  Let K := Kdeg s.
  Let D := maxderiv s.
  Let x := concat xs.
  Hypothesis Hbasis : basis_ok (Kdeg s) (maxderiv s).
  Hypothesis Hdegs : spec_degs_ok s.
  Hypothesis Hblk : Forall (fun c => length c = (Kdeg s + 1)%nat) xs.

  Lemma blk_len i : (i < length xs)%nat -> length (nth i xs []) = (K + 1)%nat.
  Proof. intros Hi. rewrite Forall_forall in Hblk. apply Hblk. apply nth_In; exact Hi. Qed.

  Lemma dot_blk i c : (i < length xs)%nat -> (length c <= K + 1)%nat ->
    qdot c (skipn (blk s i) x) == qdot c (nth i xs []).
  Proof.
    intros Hi Hc. unfold blk, x. rewrite (skipn_concat_blocks (Kdeg s + 1)) by assumption.
    apply qdot_short. rewrite blk_len by exact Hi. exact Hc.
  Qed.

  Lemma row0_blk i d : (i < length xs)%nat -> (d <= D)%nat ->
    srow_dot [(blk s i, nth d (U0tB K D) [])] x == dval K (nth i xs []) d 0.
  Proof.
    intros Hi Hd. cbn [srow_dot fold_right fst snd]. rewrite dot_blk by (auto using U0_row_len).
    destruct (Hbasis (nth i xs []) d Hd (blk_len i Hi)) as [H0 _]. fold K D in H0. rewrite H0. ring.
  Qed.
  Lemma row1_blk i d : (i < length xs)%nat -> (d <= D)%nat ->
    srow_dot [(blk s i, nth d (U1tB K D) [])] x == dval K (nth i xs []) d 1.
  Proof.
    intros Hi Hd. cbn [srow_dot fold_right fst snd]. rewrite dot_blk by (auto using U1_row_len).
    destruct (Hbasis (nth i xs []) d Hd (blk_len i Hi)) as [_ H1]. fold K D in H1. rewrite H1. ring.
  Qed.

  (* ---- left / right boundary rows *)
  Lemma left_meaning lv : (0 < length xs)%nat -> length lv = length (LeftDeg s) ->
    (F2 x (rows_left s) lv <->
     forall i, (i < length (LeftDeg s))%nat -> dval K (nth 0 xs []) (nth i (LeftDeg s) 0%nat) 0 == nth i lv 0).
  Proof.
    intros Hn. unfold rows_left. fold K D.
    destruct Hdegs as [HL _]. revert lv HL.
    induction (LeftDeg s) as [|p L IH]; intros lv HL Hlen.
    - destruct lv; [|discriminate]. cbn [map]. rewrite F2_nil. split; [intros _ i Hi; cbn in Hi; lia|auto].
    - destruct lv as [|v lv]; [discriminate|]. cbn [map]. rewrite F2_cons.
      inversion HL as [|? ? Hp HL']; subst.
      change 0%nat with (blk s 0) at 1. rewrite row0_blk by assumption.
      rewrite IH by (auto; cbn in Hlen; lia). split.
      + intros [H1 H2] [|i] Hi; cbn [nth]; [exact H1|]. apply H2. cbn in Hi; lia.
      + intros H; split; [apply (H 0%nat); cbn; lia|]. intros i Hi. apply (H (S i)). cbn; lia.
  Qed.

  Lemma right_meaning N rv : N = length xs -> (0 < N)%nat -> length rv = length (RghtDeg s) ->
    (F2 x (rows_right s N) rv <->
     forall i, (i < length (RghtDeg s))%nat -> dval K (nth (N - 1) xs []) (nth i (RghtDeg s) 0%nat) 1 == nth i rv 0).
  Proof.
    intros HN Hn. unfold rows_right. fold K D.
    destruct Hdegs as [_ [HR _]]. revert rv HR.
    induction (RghtDeg s) as [|p L IH]; intros rv HR Hlen.
    - destruct rv; [|discriminate]. cbn [map]. rewrite F2_nil. split; [intros _ i Hi; cbn in Hi; lia|auto].
    - destruct rv as [|v rv]; [discriminate|]. cbn [map]. rewrite F2_cons.
      inversion HR as [|? ? Hp HR']; subst.
      rewrite row1_blk by (auto; lia).
      rewrite IH by (auto; cbn in Hlen; lia). split.
      + intros [H1 H2] [|i] Hi; cbn [nth]; [exact H1|]. apply H2. cbn in Hi; lia.
      + intros H; split; [apply (H 0%nat); cbn; lia|]. intros i Hi. apply (H (S i)). cbn; lia.
  Qed.

  (* ---- value rows *)
  Lemma val_meaning dx : forall i, (i + length dx <= length xs)%nat ->
    (F2 x (rows_val s i dx) (b_val s dx) <->
     forall j, (j < length dx)%nat ->
       dval K (nth (i + j) xs []) 0 0 == 0 /\ (inn_ge0 s = true -> dval K (nth (i + j) xs []) 0 1 == nth j dx 0)).
  Proof.
    induction dx as [|d dx IH]; intros i Hi.
    - cbn [rows_val b_val]. rewrite F2_nil. split; [intros _ j Hj; cbn in Hj; lia|auto].
    - cbn [rows_val b_val]. cbn [length] in Hi. fold K D.
      rewrite F2_cons. rewrite row0_blk by lia.
      destruct (inn_ge0 s) eqn:Einn.
      + cbn [app]. rewrite F2_cons. rewrite row1_blk by lia. rewrite IH by lia. split.
        * intros (H0 & H1 & H2) [|j] Hj.
          -- rewrite Nat.add_0_r. cbn [nth]. auto.
          -- replace (i + S j)%nat with (S i + j)%nat by lia. cbn [nth]. apply H2. cbn in Hj; lia.
        * intros H. pose proof (H 0%nat ltac:(cbn; lia)) as H0. rewrite Nat.add_0_r in H0. cbn [nth] in H0.
          destruct H0 as [H00 H01]. split; [exact H00|]. split; [apply H01; reflexivity|].
          intros j Hj. pose proof (H (S j) ltac:(cbn; lia)) as Hs.
          replace (i + S j)%nat with (S i + j)%nat in Hs by lia. cbn [nth] in Hs. exact Hs.
      + cbn [app]. rewrite IH by lia. split.
        * intros (H0 & H2) [|j] Hj.
          -- rewrite Nat.add_0_r. split; [exact H0|discriminate].
          -- replace (i + S j)%nat with (S i + j)%nat by lia. split; [|discriminate]. apply H2. cbn in Hj; lia.
        * intros H. pose proof (H 0%nat ltac:(cbn; lia)) as H0. rewrite Nat.add_0_r in H0. split; [tauto|].
          intros j Hj. pose proof (H (S j) ltac:(cbn; lia)) as Hs.
          replace (i + S j)%nat with (S i + j)%nat in Hs by lia. split; [tauto|discriminate].
  Qed.

  (* ---- continuity rows *)
  Lemma cont_row_meaning k dt dtn d : (S k < length xs)%nat -> (d <= D)%nat ->
    (srow_dot (cont_row s k dt dtn d) x == 0 <->
     dval K (nth k xs []) d 1 * (1 / qpow dt d) == dval K (nth (S k) xs []) d 0 * (1 / qpow dtn d)).
  Proof.
    intros Hk Hd. unfold cont_row. fold K D. cbn [srow_dot fold_right fst snd].
    rewrite !dot_blk by (try lia; rewrite map_length; auto using U0_row_len, U1_row_len).
    rewrite qdot_scale_l, qdot_nscale_l.
    destruct (Hbasis (nth k xs []) d Hd (blk_len k ltac:(lia))) as [_ H1].
    destruct (Hbasis (nth (S k) xs []) d Hd (blk_len (S k) Hk)) as [H0 _].
    fold K D in H0, H1. rewrite H1, H0.
    set (a := dval K (nth k xs []) d 1 * (1 / qpow dt d)).
    set (b := dval K (nth (S k) xs []) d 0 * (1 / qpow dtn d)).
    split; intros H; lra.
  Qed.

  Lemma seq_rows_meaning (f : nat -> srow) cnt : forall a,
    (F2 x (map f (seq a cnt)) (qzeros cnt) <-> forall d, (a <= d < a + cnt)%nat -> srow_dot (f d) x == 0).
  Proof.
    induction cnt as [|cnt IH]; intros a.
    - cbn. rewrite F2_nil. split; [intros _ d Hd; lia|auto].
    - cbn [seq map qzeros repeat]. fold (qzeros cnt). rewrite F2_cons, IH. split.
      + intros [H0 H1] d Hd. destruct (Nat.eq_dec d a) as [->|Hne]; [exact H0|]. apply H1; lia.
      + intros H; split; [apply H; lia|]. intros d Hd; apply H; lia.
  Qed.

  Lemma rows_cont_cons2 k dt dtn tl :
    rows_cont s k (dt :: dtn :: tl) = map (cont_row s k dt dtn) (seq 1 (inn_cnt s)) ++ rows_cont s (S k) (dtn :: tl).
  Proof. reflexivity. Qed.
  Lemma b_cont_cons2 dt dtn tl : b_cont s (dt :: dtn :: tl) = qzeros (inn_cnt s) ++ b_cont s (dtn :: tl).
  Proof. reflexivity. Qed.

  Lemma cont_meaning dts : forall k, (k + length dts <= length xs)%nat ->
    (F2 x (rows_cont s k dts) (b_cont s dts) <->
     forall j d, (S j < length dts)%nat -> (1 <= d <= inn_cnt s)%nat ->
       dval K (nth (k + j) xs []) d 1 * (1 / qpow (nth j dts 0) d)
       == dval K (nth (S (k + j)) xs []) d 0 * (1 / qpow (nth (S j) dts 0) d)).
  Proof.
    destruct Hdegs as [_ [_ Hinn]].
    induction dts as [|dt dts IH]; intros k Hk.
    - cbn [rows_cont b_cont]. rewrite F2_nil. split; [intros _ j d Hj; cbn in Hj; lia|auto].
    - destruct dts as [|dtn dts].
      + cbn [rows_cont b_cont]. rewrite F2_nil. split; [intros _ j d Hj; cbn in Hj; lia|auto].
      + rewrite rows_cont_cons2, b_cont_cons2. cbn [length] in Hk.
        rewrite F2_app by (rewrite map_length, seq_length, length_qzeros; reflexivity).
        rewrite seq_rows_meaning. rewrite IH by (cbn [length]; lia). split.
        * intros [H0 H1] [|j] d Hj Hd.
          -- rewrite Nat.add_0_r. cbn [nth]. apply cont_row_meaning; [lia|fold D; lia|]. apply H0. lia.
          -- replace (k + S j)%nat with (S k + j)%nat by lia. cbn [nth]. apply (H1 j d); [cbn in Hj |- *; lia|lia].
        * intros H. split.
          -- intros d Hd. apply cont_row_meaning; [lia|fold D; lia|].
             pose proof (H 0%nat d ltac:(cbn; lia) ltac:(lia)) as H0. rewrite Nat.add_0_r in H0. exact H0.
          -- intros j d Hj Hd. pose proof (H (S j) d ltac:(cbn in Hj |- *; lia) Hd) as Hs.
             replace (k + S j)%nat with (S k + j)%nat in Hs by lia. exact Hs.
  Qed.
End Meaning.
