(* C14 -- proofs for Model/C14_Misc.v:
   (a) fit_bspline covers [t0, t1] and allocates every control point its data
       times index  (fit_impl.hpp:321-322, :333, bspline_impl.hpp:36-45);
   (b) the fit_spline fix-up makes every segment interpolating
       (fit_impl.hpp:261-270). *)

From Coq Require Import QArith Qround List Lia Lqa ZArith.
From SV Require Import Model.C14_Misc.
Import ListNotations.

(* ------------------------------------------------------------------ *)
(* (a) fit_bspline span                                                *)

Section Span.
Open Scope Q_scope.

Lemma span_ratio : forall t0 t1 dt : Q,
  0 < dt -> (t1 - t0 + dt) / dt == (t1 - t0) / dt + 1.
Proof. intros t0 t1 dt Hdt. field. lra. Qed.

Lemma ratio_nonneg : forall t0 t dt : Q, 0 < dt -> t0 <= t -> 0 <= (t - t0) / dt.
Proof. intros t0 t dt Hdt Hle. apply Qle_shift_div_l; [exact Hdt | lra]. Qed.

Lemma ratio_cancel : forall t0 t dt : Q, 0 < dt -> (t - t0) / dt * dt == t - t0.
Proof. intros t0 t dt Hdt. field. lra. Qed.

Lemma ratio_mono : forall t0 t t1 dt : Q, 0 < dt -> t <= t1 -> (t - t0) / dt <= (t1 - t0) / dt.
Proof.
  intros t0 t t1 dt Hdt Hle. apply Qle_shift_div_l; [exact Hdt |].
  rewrite ratio_cancel by exact Hdt. lra.
Qed.

Lemma Qfloor_plus_1 : forall q : Q, Qfloor (q + 1) = (Qfloor q + 1)%Z.
Proof.
  intro q. change 1 with (inject_Z 1).
  pose proof (Qfloor_le q) as Ha. pose proof (Qlt_floor q) as Hb.
  set (f := Qfloor q) in *.
  assert (H2 : (f + 1 <= Qfloor (q + inject_Z 1))%Z).
  { assert (Hx : inject_Z (f + 1) <= q + inject_Z 1) by (rewrite inject_Z_plus; lra).
    apply Qfloor_resp_le in Hx. rewrite Qfloor_Z in Hx. exact Hx. }
  assert (H3 : (Qfloor (q + inject_Z 1) < f + 2)%Z).
  { assert (Hx : q + inject_Z 1 < inject_Z (f + 2)).
    { rewrite inject_Z_plus. rewrite inject_Z_plus in Hb.
      change (inject_Z 2) with 2. change (inject_Z 1) with 1 in *. lra. }
    pose proof (Qfloor_le (q + inject_Z 1)) as Hy.
    assert (Hz : inject_Z (Qfloor (q + inject_Z 1)) < inject_Z (f + 2)) by lra.
    rewrite <- Zlt_Qlt in Hz. exact Hz. }
  lia.
Qed.

(* istar is a valid (non-negative) index for every data time at or after t0 (fit_impl.hpp:333) *)
Lemma bs_istar_nonneg : forall t0 dt t, 0 < dt -> t0 <= t -> (0 <= bs_istar t0 dt t)%Z.
Proof.
  intros t0 dt t Hdt Hle. unfold bs_istar.
  pose proof (Qfloor_resp_le _ _ (ratio_nonneg t0 t dt Hdt Hle)) as H.
  change 0 with (inject_Z 0) in H. rewrite Qfloor_Z in H. exact H.
Qed.

(* fit_impl.hpp:321-322: the count is, by construction, what the LAST data point needs: istar(t1) + K + 1 *)
Theorem num_pts_is_last_index : forall K t0 t1 dt,
  num_pts K t0 t1 dt = (bs_istar t0 dt t1 + K + 1)%Z.
Proof. intros. unfold num_pts, bs_istar. lia. Qed.

Theorem num_pts_ge : forall K t0 t1 dt,
  0 < dt -> t0 <= t1 -> (K + 1 <= num_pts K t0 t1 dt)%Z.
Proof.
  intros K t0 t1 dt Hdt Hle. rewrite num_pts_is_last_index.
  pose proof (bs_istar_nonneg t0 dt t1 Hdt Hle). lia.
Qed.

(* strict version: t1 is strictly inside the span *)
Theorem fit_bspline_span_strict : forall K t0 t1 dt,
  0 < dt -> t0 <= t1 ->
  bs_tmin t0 <= t0 /\ t1 < bs_tmax K t0 dt (num_pts K t0 t1 dt).
Proof.
  intros K t0 t1 dt Hdt Hle. unfold bs_tmin, bs_tmax, num_pts.
  split; [apply Qle_refl |].
  set (x := (t1 - t0) / dt).
  replace (K + 1 + Qfloor x - K)%Z with (Qfloor x + 1)%Z by lia.
  pose proof (Qlt_floor x) as Hfl.
  assert (Hmul : x * dt < inject_Z (Qfloor x + 1) * dt).
  { apply Qmult_lt_compat_r; assumption. }
  unfold x in Hmul at 1. rewrite ratio_cancel in Hmul by exact Hdt. lra.
Qed.

Theorem fit_bspline_span : forall K t0 t1 dt,
  0 < dt -> t0 <= t1 ->
  bs_tmin t0 <= t0 /\ t1 <= bs_tmax K t0 dt (num_pts K t0 t1 dt).
Proof.
  intros K t0 t1 dt Hdt Hle.
  destruct (fit_bspline_span_strict K t0 t1 dt Hdt Hle) as [H1 H2].
  split; [exact H1 | apply Qlt_le_weak; exact H2].
Qed.

(* every data time t in [t0, t1] uses control points istar(t) .. istar(t) + K (fit_impl.hpp:333-337: drop(istar) |
   take(K + 1)); all of them exist *)
Theorem num_pts_covers_index : forall K t0 t1 dt t,
  0 < dt -> t0 <= t -> t <= t1 ->
  (0 <= bs_istar t0 dt t)%Z /\ (bs_istar t0 dt t + K + 1 <= num_pts K t0 t1 dt)%Z.
Proof.
  intros K t0 t1 dt t Hdt H0 H1. split; [apply bs_istar_nonneg; assumption |].
  rewrite num_pts_is_last_index. unfold bs_istar.
  pose proof (Qfloor_resp_le _ _ (ratio_mono t0 t t1 dt Hdt H1)). lia.
Qed.

(* in exact arithmetic commit 435fdfb does not change the count: the repair only matters for the binary64
   evaluation, where (t1 - t0 + dt) / dt and (t - t0) / dt are rounded independently (the harness check
   bspline_ctrl_index evaluates the library's own NumPts against the library's own istar expression) *)
Theorem num_pts_eq_old : forall K t0 t1 dt, 0 < dt -> num_pts K t0 t1 dt = num_pts_old K t0 t1 dt.
Proof.
  intros K t0 t1 dt Hdt. unfold num_pts, num_pts_old.
  rewrite (Qfloor_comp _ _ (span_ratio t0 t1 dt Hdt)), Qfloor_plus_1. lia.
Qed.

(* K = 3, data on [1/2, 27/10], dt = 1/2: floor(2.2/0.5) = 4, so 3 + 1 + 4 control points *)
Example fit_bspline_span_ex :
  num_pts 3 (1#2) (27#10) (1#2) = 8%Z
  /\ bs_tmax 3 (1#2) (1#2) 8 == 3
  /\ (27#10) < bs_tmax 3 (1#2) (1#2) (num_pts 3 (1#2) (27#10) (1#2)).
Proof.
  split; [vm_compute; reflexivity |]. split; [vm_compute; reflexivity |].
  apply fit_bspline_span_strict; [reflexivity | discriminate].
Qed.

(* boundary: t1 - t0 an exact multiple of dt: istar(t1) = 4 is the index of a fresh interval, whose K + 1 = 4
   control points 4..7 are allocated *)
Example fit_bspline_span_ex_exact :
  num_pts 3 0 2 (1#2) = 8%Z /\ bs_tmax 3 0 (1#2) 8 == 5#2 /\ (bs_istar 0 (1#2) 2 + 3 + 1 = 8)%Z.
Proof. repeat split; vm_compute; reflexivity. Qed.

Example num_pts_covers_index_ex : (bs_istar 0 (1 # 2) 10 + 3 + 1 <= num_pts 3 0 10 (1 # 2))%Z.
Proof. vm_compute. discriminate. Qed.

End Span.

(* ------------------------------------------------------------------ *)
(* (b) fit_spline interpolation fix-up over an abstract group          *)

Section FixupProofs.
  Variables G T : Type.
  Variable op : G -> G -> G.
  Variable e : G.
  Variable inv : G -> G.
  Variable gexp : T -> G.
  Variable glog : G -> T.
  Variable tneg : T -> T.

  Hypothesis op_assoc : forall a b c, op (op a b) c = op a (op b c).
  Hypothesis op_e_l : forall a, op e a = a.
  Hypothesis op_e_r : forall a, op a e = a.
  Hypothesis op_inv_l : forall a, op (inv a) a = e.
  Hypothesis op_inv_r : forall a, op a (inv a) = e.
  Hypothesis gexp_neg : forall v, gexp (tneg v) = inv (gexp v).
  (* log is a right inverse of exp.  In the real library this holds for the
     element log is applied to when it lies within the injectivity radius
     of exp (for the matrix groups of /repo: rotation angle below pi). *)
  Hypothesis gexp_glog : forall a, gexp (glog a) = a.

  Notation fixup := (fixup G T op inv gexp glog tneg).
  Notation fixup_left := (fixup_left G T op gexp tneg).
  Notation fixup_right := (fixup_right G T op gexp tneg).

  (* exp(v_1) * ... * exp(v_n), as a right fold *)
  Definition gprod (l : list T) : G :=
    fold_right (fun v acc => op (gexp v) acc) e l.

  Lemma fold_left_gprod : forall l a,
    fold_left op (map gexp l) a = op a (gprod l).
  Proof.
    induction l as [| v l IH]; intro a; simpl.
    - symmetry. apply op_e_r.
    - rewrite IH. apply op_assoc.
  Qed.

  Lemma gprod_app : forall l1 l2, gprod (l1 ++ l2) = op (gprod l1) (gprod l2).
  Proof.
    induction l1 as [| v l1 IH]; intro l2; simpl.
    - symmetry. apply op_e_l.
    - rewrite IH. symmetry. apply op_assoc.
  Qed.

  Lemma fixup_left_spec : forall pre m,
    op (gprod pre) (fixup_left pre m) = m.
  Proof.
    unfold C14_Misc.fixup_left.
    induction pre as [| v pre IH]; intro m; simpl.
    - apply op_e_l.
    - rewrite op_assoc. rewrite IH.
      rewrite gexp_neg, <- op_assoc, op_inv_r. apply op_e_l.
  Qed.

  Lemma fixup_right_spec : forall post m,
    op (fixup_right post m) (gprod post) = m.
  Proof.
    unfold C14_Misc.fixup_right.
    induction post as [| v post IH]; intro m; simpl.
    - apply op_e_r.
    - rewrite fold_left_app. simpl.
      rewrite op_assoc.
      rewrite <- (op_assoc (gexp (tneg v)) (gexp v)).
      rewrite gexp_neg, op_inv_l, op_e_l. apply IH.
  Qed.

  Lemma fixup_unfold : forall g gn cs,
    (3 <= length cs)%nat ->
    fixup g gn cs =
      firstn (length cs / 2) cs
      ++ glog (fixup_right (skipn (S (length cs / 2)) cs)
                 (fixup_left (firstn (length cs / 2) cs) (op (inv g) gn)))
      :: skipn (S (length cs / 2)) cs.
  Proof.
    intros g gn cs Hlen. unfold C14_Misc.fixup.
    destruct (3 <=? length cs)%nat eqn:Hb; [reflexivity |].
    apply Nat.leb_gt in Hb. lia.
  Qed.

  (* want exp(v1) * ... * exp(vK) = inv(g) * gnext   (fit_impl.hpp:262) *)
  Theorem fit_spline_interpolates : forall g gn cs,
    (3 <= length cs)%nat ->
    fold_left op (map gexp (fixup g gn cs)) e = op (inv g) gn.
  Proof.
    intros g gn cs Hlen.
    rewrite fixup_unfold by exact Hlen.
    rewrite fold_left_gprod, op_e_l.
    rewrite gprod_app. cbn [gprod fold_right]. fold (gprod (skipn (S (length cs / 2)) cs)).
    rewrite gexp_glog, fixup_right_spec. apply fixup_left_spec.
  Qed.

  (* the end value of the segment: g * exp(v1) * ... * exp(vK) = gnext *)
  Corollary fit_spline_interpolates_end : forall g gn cs,
    (3 <= length cs)%nat ->
    op g (fold_left op (map gexp (fixup g gn cs)) e) = gn.
  Proof.
    intros g gn cs Hlen. rewrite fit_spline_interpolates by exact Hlen.
    rewrite <- op_assoc, op_inv_r. apply op_e_l.
  Qed.
End FixupProofs.

(* Structural facts; these need no group hypotheses. *)
Section FixupShape.
  Variables G T : Type.
  Variable op : G -> G -> G.
  Variable inv : G -> G.
  Variable gexp : T -> G.
  Variable glog : G -> T.
  Variable tneg : T -> T.

  Notation fixup := (fixup G T op inv gexp glog tneg).

  Lemma half_bounds : forall K : nat, (3 <= K)%nat -> (1 <= K / 2 /\ K / 2 < K - 1)%nat.
  Proof.
    intros K HK.
    pose proof (Nat.div_mod K 2 ltac:(lia)) as Hdm.
    pose proof (Nat.mod_upper_bound K 2 ltac:(lia)) as Hm.
    lia.
  Qed.

  Lemma nth_replace_other : forall (cs : list T) (mid j : nat) (x d : T),
    (mid < length cs)%nat -> j <> mid ->
    nth j (firstn mid cs ++ x :: skipn (S mid) cs) d = nth j cs d.
  Proof.
    intros cs mid j x d Hmid Hj.
    assert (Hpre : length (firstn mid cs) = mid) by (apply firstn_length_le; lia).
    rewrite <- (firstn_skipn mid cs) at 3.
    destruct (Nat.lt_ge_cases j mid) as [Hlt | Hge].
    - rewrite !app_nth1 by lia. reflexivity.
    - rewrite !app_nth2 by lia. rewrite Hpre.
      destruct (j - mid)%nat as [| k] eqn:Hk; [lia |].
      cbn [nth].
      destruct (skipn mid cs) as [| y rest] eqn:Hsk.
      + exfalso. assert (Hl : length (skipn mid cs) = 0%nat) by (rewrite Hsk; reflexivity).
        rewrite skipn_length in Hl. lia.
      + cbn [nth].
        assert (Hrest : skipn (S mid) cs = rest).
        { replace (S mid) with (1 + mid)%nat by lia.
          rewrite <- (firstn_skipn mid cs) at 1.
          rewrite skipn_app. rewrite Hpre.
          replace (1 + mid - mid)%nat with 1%nat by lia.
          rewrite (skipn_all2 (n := (1 + mid)%nat)) by lia.
          rewrite Hsk. reflexivity. }
        rewrite Hrest. reflexivity.
  Qed.

  (* only column mid = K/2 is written (fit_impl.hpp:268) *)
  Theorem fixup_only_mid : forall g gn cs j d,
    (3 <= length cs)%nat -> j <> (length cs / 2)%nat ->
    nth j (fixup g gn cs) d = nth j cs d.
  Proof.
    intros g gn cs j d Hlen Hj. unfold C14_Misc.fixup.
    destruct (3 <=? length cs)%nat; [| reflexivity].
    apply nth_replace_other; [| exact Hj].
    destruct (half_bounds (length cs) Hlen). lia.
  Qed.

  Theorem fixup_length : forall g gn cs, length (fixup g gn cs) = length cs.
  Proof.
    intros g gn cs. unfold C14_Misc.fixup.
    destruct (3 <=? length cs)%nat eqn:Hb; [| reflexivity].
    apply Nat.leb_le in Hb.
    destruct (half_bounds (length cs) Hb) as [H1 H2].
    rewrite app_length. cbn [length]. rewrite firstn_length_le by lia.
    rewrite skipn_length. lia.
  Qed.

  Theorem fixup_ends_untouched : forall g gn cs d,
    (3 <= length cs)%nat ->
    nth 0 (fixup g gn cs) d = nth 0 cs d
    /\ nth (length cs - 1) (fixup g gn cs) d = nth (length cs - 1) cs d
    /\ length (fixup g gn cs) = length cs.
  Proof.
    intros g gn cs d Hlen.
    destruct (half_bounds (length cs) Hlen) as [H1 H2].
    split; [apply fixup_only_mid; [exact Hlen | lia] |].
    split; [apply fixup_only_mid; [exact Hlen | lia] |].
    apply fixup_length.
  Qed.

  (* K <= 2: the if constexpr (K > 2) block is not compiled *)
  Theorem fixup_short : forall g gn cs,
    (length cs < 3)%nat -> fixup g gn cs = cs.
  Proof.
    intros g gn cs Hlen. unfold C14_Misc.fixup.
    destruct (3 <=? length cs)%nat eqn:Hb; [| reflexivity].
    apply Nat.leb_le in Hb. lia.
  Qed.
End FixupShape.

(* ------------------------------------------------------------------ *)
(* Examples: the group hypotheses are satisfiable ((Z,+), exp = log = id) *)

Definition zfix := fixup Z Z Z.add Z.opp (fun v => v) (fun a => a) Z.opp.

Example fixup_ex_K3 : zfix 10 17 [1; 100; 2]%Z = [1; 4; 2]%Z.
Proof. vm_compute. reflexivity. Qed.

Example fixup_ex_K4 : zfix 10 17 [1; 2; 100; 3]%Z = [1; 2; 1; 3]%Z.
Proof. vm_compute. reflexivity. Qed.

Example fixup_ex_K5 : zfix 0 (-3) [5; 6; 0; 7; 8]%Z = [5; 6; -29; 7; 8]%Z.
Proof. vm_compute. reflexivity. Qed.

Example fixup_ex_K2 : zfix 10 17 [1; 2]%Z = [1; 2]%Z.
Proof. vm_compute. reflexivity. Qed.

Example fit_spline_interpolates_ex : forall g gn cs,
  (3 <= length cs)%nat ->
  (g + fold_left Z.add (map (fun v : Z => v) (zfix g gn cs)) 0 = gn)%Z.
Proof.
  intros g gn cs Hlen. unfold zfix.
  apply (fit_spline_interpolates_end Z Z Z.add 0%Z Z.opp (fun v => v) (fun a => a) Z.opp).
  - intros; lia.
  - intros; lia.
  - intros; lia.
  - intros; lia.
  - intros; lia.
  - intros; reflexivity.
  - intros; reflexivity.
  - exact Hlen.
Qed.

Example fit_spline_interpolates_ex_num :
  (10 + fold_left Z.add (zfix 10 17 [1; 2; 100; 3]) 0 = 17)%Z.
Proof. vm_compute. reflexivity. Qed.
