(* C14 -- proofs about the forward pass of reparameterize_spline
   (/repo/include/smooth/spline/detail/reparameterize_impl.hpp:115-166). *)

From Coq Require Import QArith Qabs Qminmax List Lia Lqa ZArith.
From SV Require Import Model.C14_Reparam.
Import ListNotations.
Open Scope Q_scope.

(* ------------------------------------------------------------------ *)
(* Arithmetic helpers                                                  *)

Lemma eps_pos : 0 < eps.
Proof. reflexivity. Qed.

Lemma idxQ_S : forall i, idxQ (S i) == idxQ i + 1.
Proof.
  intro i. unfold idxQ. rewrite Nat2Z.inj_succ. unfold Z.succ.
  rewrite inject_Z_plus. reflexivity.
Qed.

Lemma idxQ_nonneg : forall i, 0 <= idxQ i.
Proof.
  intro i. unfold idxQ. change 0 with (inject_Z 0).
  rewrite <- Zle_Qle. lia.
Qed.

Lemma half_nonneg : forall x, 0 <= x -> 0 <= x / 2.
Proof.
  intros x Hx. unfold Qdiv. apply Qmult_le_0_compat; [exact Hx | discriminate].
Qed.

Lemma Qpos_of_mul : forall z x, 0 < z -> 0 <= z * x -> 0 <= x.
Proof.
  intros z x Hz Hzx.
  destruct (Qlt_le_dec x 0) as [Hneg | Hok]; [| exact Hok].
  exfalso. assert (H : z * x < 0) by nra. lra.
Qed.

Lemma sq_le_mono : forall v w, 0 <= v -> 0 <= w -> v * v <= w * w -> v <= w.
Proof.
  intros v w Hv Hw Hsq.
  destruct (Qlt_le_dec w v) as [Hlt | Hok]; [| exact Hok].
  exfalso. assert (H : w * w < v * v) by nra. lra.
Qed.

Lemma sq_pos : forall v x, 0 <= v -> v * v == x -> 0 < x -> 0 < v.
Proof.
  intros v x Hv Hsq Hx.
  destruct (Qlt_le_dec 0 v) as [Hok | Hle]; [exact Hok |].
  exfalso. assert (Hv0 : v == 0) by lra.
  rewrite Hv0 in Hsq. lra.
Qed.

Lemma Qabs_big_cases : forall a, eps <= Qabs a -> a <= - eps \/ eps <= a.
Proof.
  intros a Ha. destruct (Qlt_le_dec a 0) as [Hneg | Hpos].
  - left. rewrite Qabs_neg in Ha by lra. lra.
  - right. rewrite Qabs_pos in Ha by exact Hpos. exact Ha.
Qed.

(* ------------------------------------------------------------------ *)
(* A segment with non-negative coefficients is non-decreasing          *)

Theorem reparam_seg_monotone : forall g u u',
  0 <= g_v1 g -> 0 <= g_v2 g -> 0 <= u -> u <= u' -> u' <= 1 ->
  seg_val g u <= seg_val g u'.
Proof.
  intros g u u' Hv1 Hv2 Hu Huu Hu'. unfold seg_val.
  assert (HA : 0 <= (u' - u) * (2 - u - u')) by (apply Qmult_le_0_compat; lra).
  assert (HB : 0 <= (u' - u) * (u' + u)) by (apply Qmult_le_0_compat; lra).
  assert (H1 : 0 <= g_v1 g * ((u' - u) * (2 - u - u'))) by (apply Qmult_le_0_compat; assumption).
  assert (H2 : 0 <= g_v2 g * ((u' - u) * (u' + u))) by (apply Qmult_le_0_compat; assumption).
  lra.
Qed.

Example reparam_seg_monotone_ex :
  seg_val {| g_dt := 1; g_v1 := 1 # 2; g_v2 := 3 # 2; g_g0 := 5 |} (1 # 4)
  <= seg_val {| g_dt := 1; g_v1 := 1 # 2; g_v2 := 3 # 2; g_g0 := 5 |} (3 # 4).
Proof. apply reparam_seg_monotone; simpl; discriminate. Qed.

Lemma seg_val_0 : forall g, seg_val g 0 == g_g0 g.
Proof. intro g. unfold seg_val. ring. Qed.

Lemma seg_val_1 : forall g, seg_val g 1 == g_g0 g + g_v1 g + g_v2 g.
Proof. intro g. unfold seg_val. ring. Qed.

(* ------------------------------------------------------------------ *)
(* The two branches of :149, in terms of the plain numbers             *)

(* |ai| < eps:  dt = ds / vi *)
Lemma small_branch_facts : forall ds vi vi2 a dt,
  0 < ds -> ds <= 1 -> 0 < vi -> vi * vi == vi2 -> eps <= vi2 ->
  - eps < a -> dt * vi == ds ->
  0 < dt
  /\ 0 <= dt * vi / 2
  /\ 0 <= dt * (dt * a + vi) / 2
  /\ (dt * vi / 2 + dt * (dt * a + vi) / 2 - ds) * (2 * vi2) == ds * ds * a
  /\ (a <= 0 -> dt * vi / 2 + dt * (dt * a + vi) / 2 <= ds).
Proof.
  intros ds vi vi2 a dt Hds Hds1 Hvi Hsq Hvi2 Ha Hdt.
  pose proof eps_pos as Heps.
  assert (Hdtpos : 0 < dt).
  { destruct (Qlt_le_dec 0 dt) as [Hok | Hle]; [exact Hok |].
    exfalso. assert (H : 0 <= (- dt) * vi) by (apply Qmult_le_0_compat; lra). lra. }
  assert (Hinner : 0 <= dt * a + vi).
  { apply (Qpos_of_mul vi); [exact Hvi |].
    assert (E : vi * (dt * a + vi) == ds * a + vi2).
    { rewrite <- Hdt, <- Hsq. ring. }
    rewrite E. assert (Hda : - (ds * eps) <= ds * a) by nra.
    assert (Hde : ds * eps <= eps) by nra. lra. }
  assert (Hexc : (dt * vi / 2 + dt * (dt * a + vi) / 2 - ds) * (2 * vi2) == ds * ds * a).
  { rewrite <- Hdt, <- Hsq. field. }
  split; [exact Hdtpos |].
  split; [apply half_nonneg; rewrite Hdt; lra |].
  split.
  { apply half_nonneg. apply Qmult_le_0_compat; lra. }
  split; [exact Hexc |].
  intro Hale.
  set (E := dt * vi / 2 + dt * (dt * a + vi) / 2) in *.
  assert (Hrhs : ds * ds * a <= 0) by nra.
  assert (Hz : 0 <= (2 * vi2) * (ds - E)).
  { assert (E2 : (2 * vi2) * (ds - E) == - (ds * ds * a)) by (rewrite <- Hexc; ring).
    rewrite E2. lra. }
  apply Qpos_of_mul in Hz; lra.
Qed.

(* |ai| >= eps:  dt = (-vi + sqrt(max(eps, vi2 + 2 ds ai))) / ai *)
Lemma sqrt_branch_facts : forall ds vi vi2 a w dt,
  0 < ds -> 0 < vi -> vi * vi == vi2 -> eps <= vi2 ->
  0 <= w -> w * w == Qmax eps (vi2 + 2 * ds * a) ->
  (a <= - eps \/ eps <= a) -> dt * a == - vi + w ->
  0 <= dt
  /\ 0 <= dt * vi / 2
  /\ 0 <= dt * (dt * a + vi) / 2
  /\ dt * vi / 2 + dt * (dt * a + vi) / 2 <= ds
  /\ (eps <= vi2 + 2 * ds * a -> dt * vi / 2 + dt * (dt * a + vi) / 2 == ds).
Proof.
  intros ds vi vi2 a w dt Hds Hvi Hsq Hvi2 Hw Hww Ha Hdt.
  pose proof eps_pos as Heps.
  set (rad := Qmax eps (vi2 + 2 * ds * a)) in *.
  set (E := dt * vi / 2 + dt * (dt * a + vi) / 2).
  assert (HE : E * (2 * a) == rad - vi2).
  { rewrite <- Hww, <- Hsq. unfold E.
    assert (X : dt * vi / 2 + dt * (dt * a + vi) / 2 == dt * vi + (dt * a) * dt / 2) by field.
    rewrite X.
    assert (Y : (dt * vi + dt * a * dt / 2) * (2 * a) == 2 * (dt * a) * vi + (dt * a) * (dt * a)) by field.
    rewrite Y, Hdt. ring. }
  assert (Hinner : dt * a + vi == w) by (rewrite Hdt; ring).
  assert (Hrad_lo : vi2 + 2 * ds * a <= rad) by apply Q.le_max_r.
  destruct Ha as [Hneg | Hpos].
  - (* braking *)
    assert (Hrad_hi : rad <= vi2).
    { unfold rad. apply Q.max_lub; [exact Hvi2 | nra]. }
    assert (Hwv : w <= vi).
    { apply sq_le_mono; [exact Hw | lra |]. rewrite Hww, Hsq. exact Hrad_hi. }
    assert (Hdt0 : 0 <= dt).
    { apply (Qpos_of_mul (- a)); [lra |].
      assert (X : - a * dt == - (dt * a)) by ring. rewrite X, Hdt. lra. }
    split; [exact Hdt0 |].
    split; [apply half_nonneg; apply Qmult_le_0_compat; lra |].
    split.
    { apply half_nonneg.
      apply Qmult_le_0_compat; [exact Hdt0 | rewrite Hinner; exact Hw]. }
    assert (Hle : E <= ds).
    { assert (Hz : 0 <= (- (2 * a)) * (ds - E)).
      { assert (X : - (2 * a) * (ds - E) == E * (2 * a) - 2 * ds * a) by ring.
        rewrite X, HE. lra. }
      apply Qpos_of_mul in Hz; lra. }
    split; [exact Hle |].
    intro Hnoclamp.
    assert (Hradeq : rad == vi2 + 2 * ds * a).
    { unfold rad. destruct (Q.max_spec eps (vi2 + 2 * ds * a)) as [[_ Hm] | [Hc Hm]].
      - exact Hm.
      - rewrite Hm. lra. }
    assert (Hz : (- (2 * a)) * (ds - E) == 0).
    { assert (X : - (2 * a) * (ds - E) == E * (2 * a) - 2 * ds * a) by ring.
      rewrite X, HE, Hradeq. ring. }
    apply Qmult_integral in Hz. destruct Hz as [Hz | Hz]; lra.
  - (* accelerating: no clamp because vi2 >= eps *)
    assert (Hradeq : rad == vi2 + 2 * ds * a).
    { unfold rad. destruct (Q.max_spec eps (vi2 + 2 * ds * a)) as [[_ Hm] | [Hc Hm]].
      - exact Hm.
      - exfalso. assert (0 < ds * a) by nra. lra. }
    assert (Hwv : vi <= w).
    { apply sq_le_mono; [lra | exact Hw |]. rewrite Hww, Hsq.
      fold rad. rewrite Hradeq. assert (0 < ds * a) by nra. lra. }
    assert (Hdt0 : 0 <= dt).
    { apply (Qpos_of_mul a); [lra |].
      assert (X : a * dt == dt * a) by ring. rewrite X, Hdt. lra. }
    assert (Heq : E == ds).
    { assert (Hz : (2 * a) * (ds - E) == 0).
      { assert (X : (2 * a) * (ds - E) == 2 * ds * a - E * (2 * a)) by ring.
        rewrite X, HE, Hradeq. ring. }
      apply Qmult_integral in Hz. destruct Hz as [Hz | Hz]; lra. }
    split; [exact Hdt0 |].
    split; [apply half_nonneg; apply Qmult_le_0_compat; lra |].
    split.
    { apply half_nonneg.
      apply Qmult_le_0_compat; [exact Hdt0 | rewrite Hinner; exact Hw]. }
    split; [rewrite Heq; apply Qle_refl |].
    intros _. exact Heq.
Qed.

(* ------------------------------------------------------------------ *)
(* What holds of every loop iteration                                  *)

Definition step_good (s0 ds : Q) (st : rstep) : Prop :=
  eps <= t_vi2 st /\ eps <= t_v2out st /\
  match t_ai st, t_seg st with
  | None, None => t_v2out st = t_vi2 st                  (* skipped: v2m unchanged *)
  | Some a, Some g =>
      g_g0 g = s0 + ds * idxQ (t_i st)
      /\ 0 <= g_dt g /\ 0 <= g_v1 g /\ 0 <= g_v2 g
      (* end of the segment does not pass the next grid point ... *)
      /\ (~ (0 < a /\ a < eps) -> seg_val g 1 <= g_g0 g + ds)
      (* ... and hits it exactly on the sqrt branch without eps-clamp *)
      /\ (eps <= Qabs a -> eps <= t_vi2 st + 2 * ds * a -> seg_val g 1 == g_g0 g + ds)
      (* small-acceleration branch: exact error of the dt = ds / vi shortcut *)
      /\ (Qabs a < eps -> (seg_val g 1 - (g_g0 g + ds)) * (2 * t_vi2 st) == ds * ds * a)
      /\ (Qabs a < eps -> 0 < g_dt g)
  | _, _ => False
  end.

Definition sq_exact (sq : Q -> Q) (x : Q) : Prop := sq x * sq x == x.

Section ReparamProofs.
  Variable sq : Q -> Q.
  Hypothesis sq_nonneg : forall x, 0 <= sq x.

  Lemma fwd_step_good : forall s0 ds i vi2 ai,
    0 < ds -> ds <= 1 -> eps <= vi2 ->
    Forall (sq_exact sq) (t_rads (fwd_step sq s0 ds i vi2 ai)) ->
    step_good s0 ds (fwd_step sq s0 ds i vi2 ai).
  Proof.
    intros s0 ds i vi2 ai Hds Hds1 Hvi2 Hex.
    pose proof eps_pos as Heps.
    destruct ai as [a |]; unfold fwd_step in *; cbn [t_rads] in Hex.
    2:{ unfold step_good; cbn. split; [exact Hvi2 |]. split; [exact Hvi2 | reflexivity]. }
    unfold step_good.
    cbn [t_vi2 t_v2out t_ai t_seg t_i g_dt g_v1 g_v2 g_g0].
    split; [exact Hvi2 |]. split; [apply Q.le_max_l |].
    split; [reflexivity |].
    set (vi := sq vi2) in *.
    assert (Hsqvi : vi * vi == vi2).
    { destruct (Qlt_le_dec (Qabs a) eps); inversion Hex; assumption. }
    assert (Hvi : 0 < vi) by (apply (sq_pos vi vi2); [apply sq_nonneg | exact Hsqvi | lra]).
    destruct (Qlt_le_dec (Qabs a) eps) as [Hsmall | Hbig].
    - (* small acceleration *)
      apply Qabs_Qlt_condition in Hsmall. destruct Hsmall as [Hlo Hhi].
      assert (Hdt : ds / vi * vi == ds) by (field; lra).
      destruct (small_branch_facts ds vi vi2 a (ds / vi) Hds Hds1 Hvi Hsqvi Hvi2 Hlo Hdt)
        as (F1 & F2 & F3 & F4 & F5).
      split; [lra |]. split; [exact F2 |]. split; [exact F3 |].
      split.
      { intro Hn. rewrite seg_val_1. cbn [g_g0 g_v1 g_v2].
        assert (Hale : a <= 0).
        { destruct (Qlt_le_dec 0 a) as [Hp | Hq]; [| exact Hq].
          exfalso. apply Hn. split; assumption. }
        specialize (F5 Hale). lra. }
      split.
      { intros Hbig _. exfalso.
        apply Qabs_big_cases in Hbig. destruct Hbig; lra. }
      split.
      { intros _. rewrite seg_val_1. cbn [g_g0 g_v1 g_v2].
        rewrite <- F4. ring. }
      intros _. exact F1.
    - (* sqrt branch *)
      set (rad := Qmax eps (vi2 + 2 * ds * a)) in *.
      assert (Hww : sq rad * sq rad == rad).
      { inversion Hex as [| ? ? _ Hex2]. inversion Hex2. assumption. }
      pose proof (Qabs_big_cases a Hbig) as Hcases.
      assert (Ha0 : ~ a == 0) by (destruct Hcases; lra).
      assert (Hdt : (- vi + sq rad) / a * a == - vi + sq rad) by (field; exact Ha0).
      destruct (sqrt_branch_facts ds vi vi2 a (sq rad) ((- vi + sq rad) / a)
                  Hds Hvi Hsqvi Hvi2 (sq_nonneg rad) Hww Hcases Hdt)
        as (F1 & F2 & F3 & F4 & F5).
      split; [exact F1 |]. split; [exact F2 |]. split; [exact F3 |].
      split.
      { intros _. rewrite seg_val_1. cbn [g_g0 g_v1 g_v2]. lra. }
      split.
      { intros _ Hnc. rewrite seg_val_1. cbn [g_g0 g_v1 g_v2].
        specialize (F5 Hnc). lra. }
      split.
      { intro Hs. exfalso. lra. }
      intro Hs. exfalso. lra.
  Qed.

  Lemma fwd_loop_good : forall s0 ds v2max dofs amin amax k i v2m,
    0 < ds -> ds <= 1 -> eps <= v2m ->
    Forall (sq_exact sq) (rads_of (fwd_loop sq s0 ds v2max dofs amin amax k i v2m)) ->
    Forall (step_good s0 ds) (fwd_loop sq s0 ds v2max dofs amin amax k i v2m).
  Proof.
    intros s0 ds v2max dofs amin amax k.
    induction k as [| k IH]; intros i v2m Hds Hds1 Hv Hex; cbn [fwd_loop].
    - constructor.
    - cbn [fwd_loop rads_of] in Hex. apply Forall_app in Hex. destruct Hex as [Hex1 Hex2].
      pose proof (fwd_step_good s0 ds i v2m _ Hds Hds1 Hv Hex1) as Hgood.
      constructor; [exact Hgood |].
      apply IH; try assumption.
      destruct Hgood as (_ & Hout & _). exact Hout.
  Qed.

  Lemma segs_of_good : forall s0 ds l,
    Forall (step_good s0 ds) l ->
    Forall (fun g => 0 <= g_dt g /\ 0 <= g_v1 g /\ 0 <= g_v2 g) (segs_of l).
  Proof.
    intros s0 ds l H. induction H as [| st l Hst Hl IH]; cbn [segs_of].
    - constructor.
    - destruct Hst as (_ & _ & Hm).
      destruct (t_ai st) as [a |], (t_seg st) as [g |]; try contradiction.
      + constructor; [| exact IH]. tauto.
      + exact IH.
  Qed.

  Lemma init_v2m_ge_eps : forall start_vel v2max,
    eps <= start_vel * start_vel ->
    (forall y, nth 0%nat v2max None = Some y -> eps <= y) ->
    eps <= init_v2m start_vel v2max.
  Proof.
    intros start_vel v2max Hs Hy. unfold init_v2m.
    destruct (nth 0%nat v2max None) as [y |]; [| exact Hs].
    apply Q.min_glb; [exact Hs | apply Hy; reflexivity].
  Qed.

  (* Main monotonicity theorem.  Side conditions found necessary:
     - ds <= 1 for the |ai| < eps branch (see reparam_monotone_small_acc_refuted),
     - eps <= start_vel^2 and eps <= v2max(0) so that vi2 >= eps at the first
       step (see reparam_slow_start_refuted).
     No assumption on the acceleration bounds, on the other v2max entries,
     or on the spline derivatives is needed. *)
  Theorem reparam_monotone : forall s0 ds n start_vel v2max dofs amin amax tmax,
    0 < ds -> ds <= 1 ->
    eps <= start_vel * start_vel ->
    (forall y, nth 0%nat v2max None = Some y -> eps <= y) ->
    let res := reparam sq s0 ds n start_vel v2max dofs amin amax tmax in
    Forall (sq_exact sq) (r_rads res) ->
    Forall (step_good s0 ds) (r_steps res)
    /\ r_segs res = segs_of (r_steps res)
    /\ Forall (fun g => 0 <= g_dt g /\ 0 <= g_v1 g /\ 0 <= g_v2 g
                        /\ forall u u', 0 <= u -> u <= u' -> u' <= 1 ->
                                        seg_val g u <= seg_val g u') (r_segs res).
  Proof.
    intros s0 ds n start_vel v2max dofs amin amax tmax Hds Hds1 Hs Hy res Hex.
    assert (Hgood : Forall (step_good s0 ds) (r_steps res)).
    { apply fwd_loop_good; try assumption. apply init_v2m_ge_eps; assumption. }
    split; [exact Hgood |]. split; [reflexivity |].
    pose proof (segs_of_good s0 ds _ Hgood) as Hsegs.
    change (segs_of (r_steps res)) with (r_segs res) in Hsegs.
    eapply Forall_impl; [| exact Hsegs].
    intros g (H0 & H1 & H2). repeat split; try assumption.
    intros u u' Hu Huu Hu'. apply reparam_seg_monotone; assumption.
  Qed.

  (* ---------------------------------------------------------------- *)
  (* No overshoot across segment boundaries                            *)

  Definition next_start (l : list rseg) (final : Q) : Q :=
    match l with [] => final | g :: _ => g_g0 g end.

  (* each segment ends no later than where the next one starts (the last
     one: no later than [final]) *)
  Fixpoint chain_ok (l : list rseg) (final : Q) : Prop :=
    match l with
    | [] => True
    | g :: l' => seg_val g 1 <= next_start l' final /\ chain_ok l' final
    end.

  Definition no_tiny_accel (st : rstep) : Prop :=
    match t_ai st with Some a => ~ (0 < a /\ a < eps) | None => True end.

  Lemma fwd_loop_index : forall s0 ds v2max dofs amin amax k i v2m,
    map t_i (fwd_loop sq s0 ds v2max dofs amin amax k i v2m) = seq i k.
  Proof.
    intros s0 ds v2max dofs amin amax k.
    induction k as [| k IH]; intros i v2m; cbn [fwd_loop map seq].
    - reflexivity.
    - rewrite IH. f_equal.
      unfold fwd_step. destruct (acc_bound ds v2max dofs amin amax i v2m); reflexivity.
  Qed.

  Lemma chain_steps : forall s0 ds l i,
    0 < ds ->
    Forall (step_good s0 ds) l -> Forall no_tiny_accel l ->
    map t_i l = seq i (length l) ->
    chain_ok (segs_of l) (s0 + ds * idxQ (i + length l))
    /\ s0 + ds * idxQ i <= next_start (segs_of l) (s0 + ds * idxQ (i + length l)).
  Proof.
    intros s0 ds l. induction l as [| st l IH]; intros i Hds Hg Hn Hidx.
    - cbn. split; [exact I |]. rewrite Nat.add_0_r. apply Qle_refl.
    - inversion Hg as [| ? ? Hst Hg']; subst.
      inversion Hn as [| ? ? Hnst Hn']; subst.
      cbn [map length seq] in Hidx. injection Hidx as Hi Hidx'. subst i.
      specialize (IH (S (t_i st)) Hds Hg' Hn' Hidx').
      replace (S (t_i st) + length l)%nat with (t_i st + length (st :: l))%nat in IH by (cbn; lia).
      destruct IH as [IHc IHs].
      set (final := s0 + ds * idxQ (t_i st + length (st :: l))) in *.
      pose proof (idxQ_S (t_i st)) as HS.
      cbn [segs_of].
      destruct Hst as (_ & _ & Hm). unfold no_tiny_accel in Hnst.
      destruct (t_ai st) as [a |], (t_seg st) as [g |]; try contradiction.
      + destruct Hm as (Hg0 & _ & _ & _ & Hend & _).
        specialize (Hend Hnst).
        cbn [chain_ok next_start]. split; [split; [| exact IHc] |].
        * eapply Qle_trans; [exact Hend |]. eapply Qle_trans; [| exact IHs].
          rewrite Hg0, HS. apply Qle_lteq. right. ring.
        * rewrite Hg0. apply Qle_refl.
      + split; [exact IHc |].
        eapply Qle_trans; [| exact IHs]. rewrite HS.
        assert (0 <= ds * idxQ (t_i st)) by (apply Qmult_le_0_compat; [lra | apply idxQ_nonneg]).
        nra.
  Qed.

  (* If no iteration has 0 < ai < eps, the reparameterisation never runs
     past the next grid point: with tmax = s0 + ds * N (as in :42) the
     piecewise function is non-decreasing across all segment boundaries. *)
  Theorem reparam_no_overshoot : forall s0 ds n start_vel v2max dofs amin amax tmax,
    0 < ds -> ds <= 1 ->
    eps <= start_vel * start_vel ->
    (forall y, nth 0%nat v2max None = Some y -> eps <= y) ->
    tmax == s0 + ds * idxQ n ->
    let res := reparam sq s0 ds n start_vel v2max dofs amin amax tmax in
    Forall (sq_exact sq) (r_rads res) ->
    Forall no_tiny_accel (r_steps res) ->
    chain_ok (r_segs res) (r_end res)
    /\ s0 <= next_start (r_segs res) (r_end res).
  Proof.
    intros s0 ds n start_vel v2max dofs amin amax tmax Hds Hds1 Hs Hy Htmax res Hex Hn.
    assert (Hgood : Forall (step_good s0 ds) (r_steps res)).
    { apply fwd_loop_good; try assumption. apply init_v2m_ge_eps; assumption. }
    assert (Hlen : length (r_steps res) = n).
    { unfold res, reparam; cbn [r_steps].
      rewrite <- (map_length t_i), fwd_loop_index. apply seq_length. }
    assert (Hidx : map t_i (r_steps res) = seq 0 (length (r_steps res))).
    { rewrite Hlen. unfold res, reparam; cbn [r_steps]. apply fwd_loop_index. }
    destruct (chain_steps s0 ds (r_steps res) 0%nat Hds Hgood Hn Hidx) as [Hc Hs0].
    rewrite Hlen in Hc, Hs0. cbn [Nat.add] in Hc, Hs0.
    change (segs_of (r_steps res)) with (r_segs res) in Hc, Hs0.
    change (r_end res) with tmax.
    assert (Hfinal : forall l, chain_ok l (s0 + ds * idxQ n) -> chain_ok l tmax).
    { induction l as [| g l IHl]; cbn [chain_ok]; [tauto |].
      intros [H1 H2]. split; [| apply IHl; exact H2].
      destruct l; cbn [next_start] in *; [rewrite Htmax; exact H1 | exact H1]. }
    split; [apply Hfinal; exact Hc |].
    assert (Hz : s0 + ds * idxQ 0 == s0) by (unfold idxQ; cbn; ring).
    rewrite Hz in Hs0.
    destruct (r_segs res); cbn [next_start] in *; [rewrite Htmax; exact Hs0 | exact Hs0].
  Qed.

  (* ---------------------------------------------------------------- *)
  (* Onto: grid starts, exact ends, final value                        *)

  Lemma fwd_loop_starts : forall s0 ds v2max dofs amin amax k i v2m,
    Forall (fun st => t_ai st <> None) (fwd_loop sq s0 ds v2max dofs amin amax k i v2m) ->
    map g_g0 (segs_of (fwd_loop sq s0 ds v2max dofs amin amax k i v2m))
    = map (fun j => s0 + ds * idxQ j) (seq i k).
  Proof.
    intros s0 ds v2max dofs amin amax k.
    induction k as [| k IH]; intros i v2m Hall; cbn [fwd_loop segs_of map seq].
    - reflexivity.
    - cbn [fwd_loop] in Hall. inversion Hall as [| ? ? Hst Hrest]; subst.
      destruct (acc_bound ds v2max dofs amin amax i v2m) as [a |] eqn:Hacc.
      + cbn [fwd_step t_seg t_v2out map g_g0]. f_equal.
        cbn [fwd_step t_v2out] in Hrest. apply IH. exact Hrest.
      + exfalso. apply Hst. reflexivity.
  Qed.

  (* With no skipped iteration: N segments, segment i starts at s0 + ds*i
     (so the first at s0), every segment taken on the sqrt branch without
     eps-clamp ends exactly at s0 + ds*(i+1) (this is in step_good), and the
     end value of the whole spline is tmax. *)
  Theorem reparam_onto : forall s0 ds n start_vel v2max dofs amin amax tmax,
    0 < ds -> ds <= 1 ->
    eps <= start_vel * start_vel ->
    (forall y, nth 0%nat v2max None = Some y -> eps <= y) ->
    let res := reparam sq s0 ds n start_vel v2max dofs amin amax tmax in
    Forall (sq_exact sq) (r_rads res) ->
    Forall (fun st => t_ai st <> None) (r_steps res) ->
    map g_g0 (r_segs res) = map (fun j => s0 + ds * idxQ j) (seq 0 n)
    /\ length (r_segs res) = n
    /\ (forall g, hd_error (r_segs res) = Some g -> seg_val g 0 == s0)
    /\ Forall (fun g => seg_val g 0 == g_g0 g) (r_segs res)
    /\ Forall (step_good s0 ds) (r_steps res)
    /\ r_end res = tmax.
  Proof.
    intros s0 ds n start_vel v2max dofs amin amax tmax Hds Hds1 Hs Hy res Hex Hall.
    assert (Hstarts : map g_g0 (r_segs res) = map (fun j => s0 + ds * idxQ j) (seq 0 n)).
    { unfold res, reparam; cbn [r_segs]. apply fwd_loop_starts. exact Hall. }
    split; [exact Hstarts |].
    split.
    { rewrite <- (map_length g_g0), Hstarts, map_length. apply seq_length. }
    split.
    { intros g Hhd. rewrite seg_val_0.
      destruct (r_segs res) as [| g' l] eqn:Hrs; [discriminate Hhd |].
      injection Hhd as Hgg. subst g'.
      destruct n as [| n']; [discriminate Hstarts |].
      cbn [map seq] in Hstarts. injection Hstarts as Hg _.
      rewrite Hg. unfold idxQ; cbn. ring. }
    split.
    { apply Forall_forall. intros g _. apply seg_val_0. }
    split; [| reflexivity].
    apply fwd_loop_good; try assumption. apply init_v2m_ge_eps; assumption.
  Qed.

  (* ---------------------------------------------------------------- *)
  (* Start speed                                                       *)

  (* The first iteration (when it emits a segment) starts with time
     derivative sqrt(min(start_vel^2, v2max(0))) and that is <= start_vel.
     g_dt can be 0 (see reparam_dt_pos_refuted), hence the product form. *)
  Theorem reparam_start_speed : forall s0 ds n start_vel v2max dofs amin amax tmax st g,
    0 < start_vel ->
    let res := reparam sq s0 ds n start_vel v2max dofs amin amax tmax in
    let v0 := init_v2m start_vel v2max in
    sq_exact sq v0 ->
    hd_error (r_steps res) = Some st -> t_seg st = Some g ->
    seg_du g 0 == g_dt g * sq v0
    /\ (~ g_dt g == 0 -> seg_du g 0 / g_dt g == sq v0)
    /\ sq v0 <= start_vel.
  Proof.
    intros s0 ds n start_vel v2max dofs amin amax tmax st g Hsv res v0 Hex Hhd Hseg.
    assert (Hdu : seg_du g 0 == g_dt g * sq v0).
    { destruct n as [| n']; [discriminate Hhd |].
      unfold res, reparam in Hhd; cbn [r_steps fwd_loop hd_error] in Hhd.
      inversion Hhd as [Hst]. clear Hhd. fold v0 in Hst.
      unfold fwd_step in Hst.
      destruct (acc_bound ds v2max dofs amin amax 0 v0) as [a |].
      - rewrite <- Hst in Hseg. cbn [t_seg] in Hseg. inversion Hseg as [Hg].
        unfold seg_du. cbn [g_v1 g_v2 g_dt]. field.
      - rewrite <- Hst in Hseg. discriminate Hseg. }
    split; [exact Hdu |].
    split.
    { intro Hnz. rewrite Hdu. field. exact Hnz. }
    apply sq_le_mono; [apply sq_nonneg | lra |].
    unfold sq_exact in Hex. rewrite Hex. unfold v0, init_v2m.
    destruct (nth 0%nat v2max None) as [y |]; [apply Q.le_min_l | apply Qle_refl].
  Qed.
End ReparamProofs.

(* ------------------------------------------------------------------ *)
(* Non-vacuity: an executable sqrt that is exact on squares of rationals *)

Definition qsqrt (q : Q) : Q :=
  let r := Qred q in Z.sqrt (Qnum r * Zpos (Qden r)) # Qden r.

Lemma qsqrt_nonneg : forall x, 0 <= qsqrt x.
Proof.
  intro x. unfold qsqrt, Qle. cbn [Qnum Qden]. rewrite Z.mul_1_r.
  change (0 * _)%Z with 0%Z. apply Z.sqrt_nonneg.
Qed.

Lemma sq_exact_check : forall sq l,
  forallb (fun x => Qeq_bool (sq x * sq x) x) l = true -> Forall (sq_exact sq) l.
Proof.
  intros sq l H. apply Forall_forall. intros x Hx.
  rewrite forallb_forall in H. apply Qeq_bool_iff. apply H. exact Hx.
Qed.

Lemma no_tiny_check : forall l,
  forallb (fun st => match t_ai st with
                     | Some a => Qle_bool a 0 || Qle_bool eps a
                     | None => true
                     end) l = true ->
  Forall no_tiny_accel l.
Proof.
  intros l H. apply Forall_forall. intros st Hst.
  rewrite forallb_forall in H. specialize (H st Hst).
  unfold no_tiny_accel. destruct (t_ai st) as [a |]; [| exact I].
  apply Bool.orb_true_iff in H. intros [H1 H2].
  destruct H as [H | H]; apply Qle_bool_iff in H; lra.
Qed.

(* ds = 1, N = 3, start_vel = 1, v2max = [1; 4; 9; 4], no degrees of freedom:
   accelerate 1 -> 2 -> 3, then brake to 2; all radicands are squares. *)
Definition ex_res : rres :=
  reparam qsqrt 0 1 3 1 [Some 1; Some 4; Some 9; Some 4] [] [] [] 3.

Example ex_res_values :
  map Qred (r_rads ex_res) = [1; 4; 4; 9; 9; 4]
  /\ map (fun g => Qred (g_dt g)) (r_segs ex_res) = [2 # 3; 2 # 5; 2 # 5]
  /\ map (fun g => Qred (g_g0 g)) (r_segs ex_res) = [0; 1; 2]
  /\ map (fun g => Qred (seg_val g 1)) (r_segs ex_res) = [1; 2; 3].
Proof. vm_compute. repeat split. Qed.

Lemma ex_res_exact : Forall (sq_exact qsqrt) (r_rads ex_res).
Proof. apply sq_exact_check. vm_compute. reflexivity. Qed.

Example reparam_monotone_ex :
  Forall (step_good 0 1) (r_steps ex_res)
  /\ Forall (fun g => 0 <= g_dt g /\ 0 <= g_v1 g /\ 0 <= g_v2 g
                      /\ forall u u', 0 <= u -> u <= u' -> u' <= 1 ->
                                      seg_val g u <= seg_val g u') (r_segs ex_res).
Proof.
  destruct (reparam_monotone qsqrt qsqrt_nonneg 0 1 3 1
              [Some 1; Some 4; Some 9; Some 4] [] [] [] 3) as (H1 & _ & H3).
  - reflexivity.
  - discriminate.
  - discriminate.
  - intros y Hy. cbn in Hy. inversion Hy. discriminate.
  - exact ex_res_exact.
  - split; [exact H1 | exact H3].
Qed.

Example reparam_no_overshoot_ex :
  chain_ok (r_segs ex_res) (r_end ex_res) /\ 0 <= next_start (r_segs ex_res) (r_end ex_res).
Proof.
  apply (reparam_no_overshoot qsqrt qsqrt_nonneg 0 1 3 1
           [Some 1; Some 4; Some 9; Some 4] [] [] [] 3).
  - reflexivity.
  - discriminate.
  - discriminate.
  - intros y Hy. cbn in Hy. inversion Hy. discriminate.
  - vm_compute. reflexivity.
  - exact ex_res_exact.
  - apply no_tiny_check. vm_compute. reflexivity.
Qed.

Example reparam_onto_ex :
  map g_g0 (r_segs ex_res) = map (fun j => 0 + 1 * idxQ j) (seq 0 3)
  /\ length (r_segs ex_res) = 3%nat
  /\ r_end ex_res = 3.
Proof.
  destruct (reparam_onto qsqrt qsqrt_nonneg 0 1 3 1
              [Some 1; Some 4; Some 9; Some 4] [] [] [] 3) as (H1 & H2 & _ & _ & _ & H6).
  - reflexivity.
  - discriminate.
  - discriminate.
  - intros y Hy. cbn in Hy. inversion Hy. discriminate.
  - exact ex_res_exact.
  - vm_compute. repeat constructor; discriminate.
  - repeat split; assumption.
Qed.

Example reparam_start_speed_ex :
  forall st g, hd_error (r_steps ex_res) = Some st -> t_seg st = Some g ->
  seg_du g 0 / g_dt g == 1.
Proof.
  intros st g Hhd Hseg.
  destruct (reparam_start_speed qsqrt qsqrt_nonneg 0 1 3 1
              [Some 1; Some 4; Some 9; Some 4] [] [] [] 3 st g) as (_ & H2 & _).
  - reflexivity.
  - vm_compute. reflexivity.
  - exact Hhd.
  - exact Hseg.
  - rewrite H2; [vm_compute; reflexivity |].
    vm_compute in Hhd. inversion Hhd as [Hst]. rewrite <- Hst in Hseg.
    cbn in Hseg. inversion Hseg. vm_compute. discriminate.
Qed.

(* ------------------------------------------------------------------ *)
(* Refutations: corners where the natural stronger claims fail          *)

(* (1) Without ds <= 1 the |ai| < eps shortcut dt = ds / vi can give a
   NEGATIVE second coefficient: the segment's s decreases towards its end.
   ds = 4, start_vel = 1e-4 (vi2 = eps), one degree of freedom with
   vel = 1, acc = 1e8 + 1/2, acc_max = 1: ai = 1 - acc*eps = -eps/2. *)
Theorem reparam_monotone_small_acc_refuted :
  exists s0 ds n start_vel v2max dofs amin amax tmax,
    0 < ds /\ eps <= start_vel * start_vel
    /\ (forall y, nth 0%nat v2max None = Some y -> eps <= y)
    /\ Forall (sq_exact qsqrt)
         (r_rads (reparam qsqrt s0 ds n start_vel v2max dofs amin amax tmax))
    /\ exists g, In g (r_segs (reparam qsqrt s0 ds n start_vel v2max dofs amin amax tmax))
                 /\ g_v2 g < 0 /\ seg_du g 1 < 0 /\ seg_val g 1 < seg_val g (3 # 4).
Proof.
  exists 0, 4, 1%nat, (1 # 10000), [None; None], [[(1, 200000001 # 2)]], [-(1)], [1], 4.
  split; [reflexivity |]. split; [discriminate |].
  split; [intros y Hy; discriminate Hy |].
  split; [apply sq_exact_check; vm_compute; reflexivity |].
  eexists. split; [left; reflexivity |].
  repeat split; vm_compute; reflexivity.
Qed.

(* (2) Without eps <= start_vel^2 (start_vel = 5e-5, vi2 = eps/4) the
   max(eps, .) clamp at :149 is inconsistent with vi2:
   (a) ai = eps > 0, ds = 1/4: the segment runs to s = 3/8 although the next
       grid point (and the final value t_max) is 1/4;
   (b) ai = -2 eps, ds = 1/16: the segment duration dt is NEGATIVE (-2500). *)
Theorem reparam_slow_start_refuted :
  (exists s0 ds n start_vel v2max dofs amin amax tmax,
    0 < ds /\ ds <= 1 /\ 0 < start_vel /\ tmax == s0 + ds * idxQ n
    /\ Forall (sq_exact qsqrt)
         (r_rads (reparam qsqrt s0 ds n start_vel v2max dofs amin amax tmax))
    /\ Forall no_tiny_accel
         (r_steps (reparam qsqrt s0 ds n start_vel v2max dofs amin amax tmax))
    /\ exists g, In g (r_segs (reparam qsqrt s0 ds n start_vel v2max dofs amin amax tmax))
                 /\ g_g0 g + ds < seg_val g 1 /\ tmax < seg_val g 1)
  /\
  (exists s0 ds n start_vel v2max dofs amin amax tmax,
    0 < ds /\ ds <= 1 /\ 0 < start_vel
    /\ Forall (sq_exact qsqrt)
         (r_rads (reparam qsqrt s0 ds n start_vel v2max dofs amin amax tmax))
    /\ exists g, In g (r_segs (reparam qsqrt s0 ds n start_vel v2max dofs amin amax tmax))
                 /\ g_dt g < 0).
Proof.
  split.
  - exists 0, (1 # 4), 1%nat, (1 # 20000), [None; Some (3 # 400000000)], [], [], [], (1 # 4).
    split; [reflexivity |]. split; [discriminate |]. split; [reflexivity |].
    split; [vm_compute; reflexivity |].
    split; [apply sq_exact_check; vm_compute; reflexivity |].
    split.
    { apply no_tiny_check. vm_compute. reflexivity. }
    eexists. split; [left; reflexivity |].
    split; vm_compute; reflexivity.
  - exists 0, (1 # 16), 1%nat, (1 # 20000), [None; Some 0], [], [], [], (1 # 16).
    split; [reflexivity |]. split; [discriminate |]. split; [reflexivity |].
    split; [apply sq_exact_check; vm_compute; reflexivity |].
    eexists. split; [left; reflexivity |].
    vm_compute; reflexivity.
Qed.

(* (3) Under ALL hypotheses of reparam_monotone the duration can be exactly 0
   (so g_dt > 0, which the Spline constructor asserts at spline_impl.hpp:54,
   is not a theorem): vi2 = eps, ai = -2 eps, ds = 1/4 gives
   max(eps, vi2 + 2 ds ai) = eps = vi2 and dt = (-vi + vi)/ai = 0. *)
Theorem reparam_dt_pos_refuted :
  exists s0 ds n start_vel v2max dofs amin amax tmax,
    0 < ds /\ ds <= 1 /\ eps <= start_vel * start_vel
    /\ (forall y, nth 0%nat v2max None = Some y -> eps <= y)
    /\ Forall (sq_exact qsqrt)
         (r_rads (reparam qsqrt s0 ds n start_vel v2max dofs amin amax tmax))
    /\ exists g, In g (r_segs (reparam qsqrt s0 ds n start_vel v2max dofs amin amax tmax))
                 /\ g_dt g == 0 /\ seg_val g 1 == g_g0 g /\ g_g0 g + ds <= tmax.
Proof.
  exists 0, (1 # 4), 1%nat, (1 # 10000), [None; Some 0], [], [], [], (1 # 4).
  split; [reflexivity |]. split; [discriminate |]. split; [discriminate |].
  split; [intros y Hy; discriminate Hy |].
  split; [apply sq_exact_check; vm_compute; reflexivity |].
  eexists. split; [left; reflexivity |].
  repeat split; vm_compute; try reflexivity; discriminate.
Qed.

(* (4) Under ALL hypotheses of reparam_monotone, an iteration with
   0 < ai < eps overshoots the next grid point, and not by a tiny amount when
   vi2 is near eps: ds = 1, vi2 = eps, v2max(1) = 2 eps gives ai = eps/2,
   dt = ds/vi = 1e4 and the segment runs to s = 5/4 although the spline's
   final value (t_max) is 1: the reparameterisation is not monotone there.
   Hence the no_tiny_accel premise of reparam_no_overshoot. *)
Theorem reparam_no_overshoot_tiny_accel_refuted :
  exists s0 ds n start_vel v2max dofs amin amax tmax,
    0 < ds /\ ds <= 1 /\ eps <= start_vel * start_vel
    /\ (forall y, nth 0%nat v2max None = Some y -> eps <= y)
    /\ tmax == s0 + ds * idxQ n
    /\ Forall (sq_exact qsqrt)
         (r_rads (reparam qsqrt s0 ds n start_vel v2max dofs amin amax tmax))
    /\ exists g, In g (r_segs (reparam qsqrt s0 ds n start_vel v2max dofs amin amax tmax))
                 /\ seg_val g 1 == 5 # 4 /\ tmax == 1
                 /\ ~ chain_ok (r_segs (reparam qsqrt s0 ds n start_vel v2max dofs amin amax tmax))
                               (r_end (reparam qsqrt s0 ds n start_vel v2max dofs amin amax tmax)).
Proof.
  exists 0, 1, 1%nat, (1 # 10000), [None; Some (2 # 100000000)], [], [], [], 1.
  split; [reflexivity |]. split; [discriminate |]. split; [discriminate |].
  split; [intros y Hy; discriminate Hy |].
  split; [vm_compute; reflexivity |].
  split; [apply sq_exact_check; vm_compute; reflexivity |].
  eexists. split; [left; reflexivity |].
  split; [vm_compute; reflexivity |]. split; [reflexivity |].
  vm_compute. intros [H _]. apply H. reflexivity.
Qed.
