(* C14 -- the backward linear program of reparameterize_spline (Model/C14_Reparam.v, bwd_rows;
   reparameterize_impl.hpp:85-110) and what its row [4] (commit 80e48c1) buys the forward pass:
   whenever the squared velocity the forward pass arrives with has an LP-feasible acceleration,
   the acceleration the forward pass picks keeps  vi^2 + 2 ds ai >= 0, so the max(eps, .) clamp of
   :153/:163 can only cut off a radicand in [0, eps) - never a negative one (the mechanism of the repaired
   finding C14-reparam-eps-clamp-gap).  lp2d::solve itself is external: its contract "Optimal => the returned
   point satisfies the rows" enters as the hypothesis  Forall (row_sat Y A) rows  and is checked at run time. *)
From Coq Require Import QArith Qabs Qminmax List Lia Lqa.
From SV Require Import Model.C14_Reparam Proofs.C14_Reparam.
Import ListNotations.
Local Open Scope Q_scope.

Definition row_sat (y a : Q) (r : lprow) : Prop :=
  match r with
  | (c0, c1, Some b) => c0 * y + c1 * a <= b
  | (_, _, None) => True
  end.
Definition rhs_nonneg (r : lprow) : Prop :=
  match r with (_, _, Some b) => 0 <= b | (_, _, None) => True end.

Lemma row_ok_iff : forall y a r, row_ok y a r = true <-> row_sat y a r.
Proof. intros y a [[c0 c1] [b|]]; cbn; [apply Qle_bool_iff | tauto]. Qed.

Lemma rows_ok_iff : forall rows y a, rows_ok rows y a = true <-> Forall (row_sat y a) rows.
Proof.
  intros rows y a. unfold rows_ok. rewrite forallb_forall, Forall_forall.
  split; intros H r Hr; apply row_ok_iff, H, Hr.
Qed.

Lemma row_sat_Qeq : forall y y' a a' r, y == y' -> a == a' -> row_sat y a r -> row_sat y' a' r.
Proof. intros y y' a a' [[c0 c1] [b|]] Hy Ha; cbn; [rewrite Hy, Ha; tauto | tauto]. Qed.

(* ------------------------------------------------------------------ shape *)
Lemma length_rows_vel : forall dof vmin vmax n,
  length dof = n -> length vmin = n -> length vmax = n -> length (rows_vel dof vmin vmax) = n.
Proof.
  induction dof as [|[vel acc] dof IH]; intros [|lo vmin] [|hi vmax] n H1 H2 H3; cbn in *; try lia.
  destruct n; [lia|]. f_equal. apply IH; lia.
Qed.
Lemma length_rows_acc_hi : forall dof amax n, length dof = n -> length amax = n -> length (rows_acc_hi dof amax) = n.
Proof.
  induction dof as [|[vel acc] dof IH]; intros [|hi amax] n H1 H2; cbn in *; try lia.
  destruct n; [lia|]. f_equal. apply IH; lia.
Qed.
Lemma length_rows_acc_lo : forall dof amin n, length dof = n -> length amin = n -> length (rows_acc_lo dof amin) = n.
Proof.
  induction dof as [|[vel acc] dof IH]; intros [|lo amin] n H1 H2; cbn in *; try lia.
  destruct n; [lia|]. f_equal. apply IH; lia.
Qed.

(* std::array<..., 2 + 3 * Dof<G>>  (:85) *)
Theorem bwd_rows_count : forall ds ynext dof vmin vmax amin amax n,
  length dof = n -> length vmin = n -> length vmax = n -> length amin = n -> length amax = n ->
  length (bwd_rows ds ynext dof vmin vmax amin amax) = (2 + 3 * n)%nat.
Proof.
  intros. unfold bwd_rows. cbn [length]. rewrite !app_length.
  rewrite (length_rows_vel _ _ _ n), (length_rows_acc_hi _ _ n), (length_rows_acc_lo _ _ n) by assumption.
  cbn [length]. lia.
Qed.

(* ------------------------------------------------------------------ rows [1] and [4] *)
Theorem bwd_feasible_next : forall ds ynext dof vmin vmax amin amax y a,
  Forall (row_sat y a) (bwd_rows ds ynext dof vmin vmax amin amax) ->
  0 <= y + 2 * ds * a /\ (forall yn, ynext = Some yn -> y + 2 * ds * a <= yn).
Proof.
  intros ds ynext dof vmin vmax amin amax y a H. unfold bwd_rows in H.
  inversion H as [|? ? H1 Hrest]; subst. split.
  - rewrite !Forall_app in Hrest. destruct Hrest as (_ & _ & _ & H4).
    inversion H4 as [|? ? H4' _]; subst. cbn in H4'. lra.
  - intros yn ->. cbn in H1. lra.
Qed.

(* ------------------------------------------------------------------ rows [3] bound the forward acceleration *)
Lemma omin_ge : forall a r x, (forall r0, r = Some r0 -> a <= r0) -> a <= x ->
  forall r0, omin r x = Some r0 -> a <= r0.
Proof.
  intros a [r1|] x Hr Hx r0 E; cbn in E; injection E as <-; [apply Q.min_glb; auto | exact Hx].
Qed.

Lemma acc_dofs_ge : forall dof amin amax y a r,
  Forall (row_sat y a) (rows_acc_hi dof amax) -> Forall (row_sat y a) (rows_acc_lo dof amin) ->
  (forall r0, r = Some r0 -> a <= r0) ->
  forall ai, acc_dofs y dof amin amax r = Some ai -> a <= ai.
Proof.
  pose proof eps_pos as Heps.
  induction dof as [|[vel acc] dof IH]; intros amin amax y a r Hhi Hlo Hr ai E.
  - cbn in E. auto.
  - destruct amin as [|lo amin]; [cbn in E; auto|].
    destruct amax as [|hi amax]; [cbn in E; auto|].
    cbn [rows_acc_hi rows_acc_lo] in Hhi, Hlo.
    inversion Hhi as [|? ? Hh Hhi']; subst. inversion Hlo as [|? ? Hl Hlo']; subst.
    cbn in Hh, Hl. cbn [acc_dofs] in E.
    eapply IH; [exact Hhi' | exact Hlo' | | exact E].
    destruct (Qlt_le_dec eps vel) as [Hp|Hp].
    + apply omin_ge; [exact Hr|]. apply Qle_shift_div_l; [lra|]. lra.
    + destruct (Qlt_le_dec vel (- eps)) as [Hn|Hn]; [|exact Hr].
      apply omin_ge; [exact Hr|].
      assert (Hq : (lo - acc * y) / vel * vel == lo - acc * y) by (field; lra).
      set (q := (lo - acc * y) / vel) in *.
      assert (Hz : 0 <= (- vel) * (q - a)).
      { assert (X : - vel * (q - a) == vel * a - q * vel) by ring. rewrite X, Hq. lra. }
      apply Qpos_of_mul in Hz; lra.
Qed.

(* the acceleration the forward pass picks at (s_i, vi2) (:138-150) is at least every LP-feasible acceleration
   for the same squared velocity, and therefore keeps the next squared velocity non-negative *)
Theorem lp_feasible_fwd_radicand_nonneg : forall ds v2max dofs vmin vmax amin amax i vi2 a ai,
  0 < ds ->
  Forall (row_sat vi2 a) (bwd_rows ds (nth (S i) v2max None) (nth i dofs []) vmin vmax amin amax) ->
  acc_bound ds v2max dofs amin amax i vi2 = Some ai ->
  a <= ai /\ 0 <= vi2 + 2 * ds * ai.
Proof.
  intros ds v2max dofs vmin vmax amin amax i vi2 a ai Hds Hf E.
  destruct (bwd_feasible_next _ _ _ _ _ _ _ _ _ Hf) as [H4 H1].
  unfold bwd_rows in Hf. inversion Hf as [|? ? _ Hrest]; subst.
  rewrite !Forall_app in Hrest. destruct Hrest as (_ & Hhi & Hlo & _).
  unfold acc_bound in E.
  assert (Hle : a <= ai).
  { eapply acc_dofs_ge; [exact Hhi | exact Hlo | | exact E].
    intros r0 Hr0. unfold acc_init in Hr0. destruct (nth (S i) v2max None) as [yn|]; [|discriminate].
    injection Hr0 as <-. specialize (H1 yn eq_refl).
    apply Qle_shift_div_l; lra. }
  split; [exact Hle|]. nra.
Qed.

(* ------------------------------------------------------------------ the feasible set is star-shaped about (0, 0) *)
Lemma row_sat_scale : forall t Y A r, 0 <= t -> t <= 1 -> rhs_nonneg r -> row_sat Y A r -> row_sat (t * Y) (t * A) r.
Proof.
  intros t Y A [[c0 c1] [b|]] Ht0 Ht1 Hb H; cbn in *; [|exact I].
  assert (E : c0 * (t * Y) + c1 * (t * A) == t * (c0 * Y + c1 * A)) by ring.
  rewrite E. nra.
Qed.

Lemma rhs_nonneg_rows_vel : forall dof vmin vmax, Forall rhs_nonneg (rows_vel dof vmin vmax).
Proof.
  induction dof as [|[vel acc] dof IH]; intros [|lo vmin] [|hi vmax]; cbn [rows_vel]; try constructor; [|apply IH].
  destruct (Qlt_le_dec eps vel); [|destruct (Qlt_le_dec vel (- eps))]; cbn; nra.
Qed.
Lemma rhs_nonneg_rows_acc_hi : forall dof amax, Forall (fun x => 0 <= x) amax -> Forall rhs_nonneg (rows_acc_hi dof amax).
Proof.
  induction dof as [|[vel acc] dof IH]; intros [|hi amax] H; cbn [rows_acc_hi]; try constructor.
  - inversion H; subst. cbn. assumption.
  - apply IH. inversion H; assumption.
Qed.
Lemma rhs_nonneg_rows_acc_lo : forall dof amin, Forall (fun x => x <= 0) amin -> Forall rhs_nonneg (rows_acc_lo dof amin).
Proof.
  induction dof as [|[vel acc] dof IH]; intros [|lo amin] H; cbn [rows_acc_lo]; try constructor.
  - inversion H; subst. cbn. lra.
  - apply IH. inversion H; assumption.
Qed.

(* acc_min <= 0 <= acc_max is asserted by the code (:33-34), 0 <= v2max(i+1) holds for every value the backward
   pass produces (a square at i = N, an LP optimum with row [2]/[4] otherwise) *)
Lemma bwd_rows_rhs_nonneg : forall ds ynext dof vmin vmax amin amax,
  (forall yn, ynext = Some yn -> 0 <= yn) ->
  Forall (fun x => 0 <= x) amax -> Forall (fun x => x <= 0) amin ->
  Forall rhs_nonneg (bwd_rows ds ynext dof vmin vmax amin amax).
Proof.
  intros ds ynext dof vmin vmax amin amax Hy Hhi Hlo. unfold bwd_rows. constructor.
  - destruct ynext as [yn|]; cbn; [apply Hy; reflexivity | exact I].
  - rewrite !Forall_app. repeat split.
    + apply rhs_nonneg_rows_vel.
    + apply rhs_nonneg_rows_acc_hi; assumption.
    + apply rhs_nonneg_rows_acc_lo; assumption.
    + constructor; [cbn; lra | constructor].
Qed.

Lemma bwd_feasible_scale : forall ds ynext dof vmin vmax amin amax Y A t,
  (forall yn, ynext = Some yn -> 0 <= yn) ->
  Forall (fun x => 0 <= x) amax -> Forall (fun x => x <= 0) amin ->
  0 <= t -> t <= 1 ->
  Forall (row_sat Y A) (bwd_rows ds ynext dof vmin vmax amin amax) ->
  Forall (row_sat (t * Y) (t * A)) (bwd_rows ds ynext dof vmin vmax amin amax).
Proof.
  intros ds ynext dof vmin vmax amin amax Y A t Hy Hhi Hlo Ht0 Ht1 H.
  pose proof (bwd_rows_rhs_nonneg ds ynext dof vmin vmax amin amax Hy Hhi Hlo) as Hb.
  rewrite Forall_forall in *. intros r Hr. apply row_sat_scale; auto.
Qed.

(* The repaired behaviour.  (Y, A) is the point lp2d returned for grid point i (Y = v2max(i), contract: it
   satisfies the rows); the forward pass arrives with some 0 <= vi2 <= Y (v2m = min(.., v2max(0)) at :125 and
   row [1] afterwards).  Then the next squared velocity vi2 + 2 ds ai of :153/:163 is >= 0. *)
Theorem reparam_lp_row4_radicand_nonneg : forall ds v2max dofs vmin vmax amin amax i Y A vi2 ai,
  0 < ds -> 0 < Y -> 0 <= vi2 -> vi2 <= Y ->
  Forall (fun x => 0 <= x) amax -> Forall (fun x => x <= 0) amin ->
  (forall yn, nth (S i) v2max None = Some yn -> 0 <= yn) ->
  Forall (row_sat Y A) (bwd_rows ds (nth (S i) v2max None) (nth i dofs []) vmin vmax amin amax) ->
  acc_bound ds v2max dofs amin amax i vi2 = Some ai ->
  0 <= vi2 + 2 * ds * ai.
Proof.
  intros ds v2max dofs vmin vmax amin amax i Y A vi2 ai Hds HY Hv0 HvY Hhi Hlo Hyn Hf E.
  set (t := vi2 / Y).
  assert (Ht0 : 0 <= t) by (apply Qle_shift_div_l; lra).
  assert (Ht1 : t <= 1) by (apply Qle_shift_div_r; lra).
  assert (HtY : t * Y == vi2) by (unfold t; field; lra).
  pose proof (bwd_feasible_scale _ _ _ vmin vmax _ _ _ _ t Hyn Hhi Hlo Ht0 Ht1 Hf) as Hs.
  assert (Hs' : Forall (row_sat vi2 (t * A)) (bwd_rows ds (nth (S i) v2max None) (nth i dofs []) vmin vmax amin amax)).
  { eapply Forall_impl; [|exact Hs]. intros r Hr. eapply row_sat_Qeq; [exact HtY | reflexivity | exact Hr]. }
  destruct (lp_feasible_fwd_radicand_nonneg _ _ _ _ _ _ _ _ _ _ _ Hds Hs' E) as [_ H]. exact H.
Qed.

(* non-vacuity: one degree of freedom, vel = 1, acc = 8, |a_spline| <= 1, ds = 1/4, no bound from the right:
   (Y, A) = (1/6, -1/3) is LP-feasible (it is the optimum), the forward pass arriving with vi2 = 1/8 picks ai = 0 *)
Example reparam_lp_row4_ex :
  Forall (row_sat (1 # 6) (- (1 # 3))) (bwd_rows (1 # 4) None [(1, 8)] [- (10)] [10] [- (1)] [1])
  /\ acc_bound (1 # 4) [None; None] [[(1, 8)]] [- (1)] [1] 0 (1 # 8) = Some ((1 - 8 * (1 # 8)) / 1)
  /\ 0 <= (1 # 8) + 2 * (1 # 4) * ((1 - 8 * (1 # 8)) / 1).
Proof.
  split; [apply rows_ok_iff; vm_compute; reflexivity|].
  split; [reflexivity | vm_compute; discriminate].
Qed.

(* Row [4] is not implied by the others: without it (the tree before 80e48c1) the same program accepts
   (y, a) = (1/4, -1) with y + 2 ds a = -1/4 < 0 - the input of reparam_onto_clamp_refuted ... *)
Theorem bwd_rows_without_row4_refuted :
  exists ds ynext dof vmin vmax amin amax y a,
    0 < ds /\ Forall (row_sat y a) (removelast (bwd_rows ds ynext dof vmin vmax amin amax))
    /\ y + 2 * ds * a < 0.
Proof.
  exists (1 # 4), None, [(1, 8)], [- (10)], [10], [- (1)], [1], (1 # 4), (- (1)).
  split; [reflexivity|]. split; [|reflexivity].
  cbn. repeat constructor; cbn; try discriminate.
Qed.

(* ... and with it that state is infeasible: the v2max of the witness of reparam_onto_clamp_refuted
   (Proofs/C14_Extra.v: vi2 = 1/4 at a grid point whose LP allows at most y = 1/6) is not a value the
   repaired backward pass can produce under the lp2d contract *)
Theorem onto_clamp_witness_excluded_by_row4 : forall vmin vmax a,
  ~ Forall (row_sat (1 # 4) a) (bwd_rows (1 # 4) None [(1, 8)] vmin vmax [- (1)] [1]).
Proof.
  intros vmin vmax a H. unfold bwd_rows in H. inversion H as [|? ? _ Hrest]; subst.
  rewrite !Forall_app in Hrest. destruct Hrest as [_ Hr].
  inversion Hr as [|? ? Hh Hr2]; subst. inversion Hr2 as [|? ? _ Hr3]; subst. inversion Hr3 as [|? ? H4' _]; subst.
  cbn in Hh, H4'. lra.
Qed.

(* ------------------------------------------------------------------ what the clamp can still cut off *)
(* Braking step on the sqrt branch whose radicand r = vi2 + 2 ds a lies in [0, eps): the segment ends
   (eps - r) / (2 |a|) short of the next grid point.  _partial: this bounds the gap by eps / (2 |a|) only; with
   vi2 = eps and -eps/(2 ds) <= a <= -eps the segment has zero duration and the gap is the whole ds
   (reparam_dt_pos_refuted) - a corner the harness strata do not reach (max knot jump measured: see notes). *)
Section Gap.
  Variable sq : Q -> Q.

  Theorem reparam_clamp_gap_partial : forall s0 ds i vi2 a g,
    0 < ds -> eps <= vi2 -> a <= - eps ->
    0 <= vi2 + 2 * ds * a -> vi2 + 2 * ds * a < eps ->
    Forall (sq_exact sq) (t_rads (fwd_step sq s0 ds i vi2 (Some a))) ->
    t_seg (fwd_step sq s0 ds i vi2 (Some a)) = Some g ->
    (g_g0 g + ds - seg_val g 1) * (2 * - a) == eps - (vi2 + 2 * ds * a)
    /\ 0 <= g_g0 g + ds - seg_val g 1
    /\ (g_g0 g + ds - seg_val g 1) * (2 * - a) <= eps.
  Proof.
    intros s0 ds i vi2 a g Hds Hvi2 Ha Hr0 Hr1 Hex Hseg.
    pose proof eps_pos as Heps.
    unfold fwd_step in Hex, Hseg. cbn [t_rads t_seg] in Hex, Hseg.
    destruct (Qlt_le_dec (Qabs a) eps) as [Hsmall|Hbig].
    { exfalso. apply Qabs_Qlt_condition in Hsmall. lra. }
    injection Hseg as <-.
    set (vi := sq vi2) in *. set (rad := Qmax eps (vi2 + 2 * ds * a)) in *.
    assert (Hrad : rad == eps).
    { unfold rad. destruct (Q.max_spec eps (vi2 + 2 * ds * a)) as [[Hc Hm]|[_ Hm]]; [lra | exact Hm]. }
    inversion Hex as [|? ? Hsqvi Hex2]; subst. inversion Hex2 as [|? ? Hww _]; subst.
    unfold sq_exact in Hsqvi, Hww. fold vi in Hsqvi. fold rad in Hww.
    set (w := sq rad) in *.
    assert (Ha0 : ~ a == 0) by lra.
    set (dt := (- vi + w) / a).
    assert (Hdt : dt * a == - vi + w) by (unfold dt; field; exact Ha0).
    rewrite seg_val_1. cbn [g_g0 g_v1 g_v2]. fold dt.
    set (E := dt * vi / 2 + dt * (dt * a + vi) / 2).
    assert (HE : E * (2 * a) == eps - vi2).
    { rewrite <- Hrad, <- Hww, <- Hsqvi. unfold E.
      assert (X : (dt * vi / 2 + dt * (dt * a + vi) / 2) * (2 * a) == 2 * (dt * a) * vi + (dt * a) * (dt * a)) by field.
      rewrite X, Hdt. ring. }
    assert (Hmain : (s0 + ds * idxQ i + ds - (s0 + ds * idxQ i + dt * vi / 2 + dt * (dt * a + vi) / 2)) * (2 * - a)
                    == eps - (vi2 + 2 * ds * a)).
    { assert (X : (s0 + ds * idxQ i + ds - (s0 + ds * idxQ i + dt * vi / 2 + dt * (dt * a + vi) / 2)) * (2 * - a)
                  == E * (2 * a) - 2 * ds * a) by (unfold E; ring).
      rewrite X, HE. ring. }
    split; [exact Hmain|]. split.
    - set (gap := s0 + ds * idxQ i + ds - (s0 + ds * idxQ i + dt * vi / 2 + dt * (dt * a + vi) / 2)) in *.
      assert (Hz : 0 <= (2 * - a) * gap).
      { assert (X : 2 * - a * gap == gap * (2 * - a)) by ring. rewrite X, Hmain. lra. }
      apply Qpos_of_mul in Hz; lra.
    - rewrite Hmain. lra.
  Qed.
End Gap.

(* non-vacuity of reparam_clamp_gap_partial: vi2 = 1, a = -2, ds = 1/4 - 1/400000000: radicand 1e-8/... in [0, eps) *)
Example reparam_clamp_gap_ex :
  let ds := (1 # 4) - (1 # 800000000) in
  0 < ds /\ eps <= 1 /\ - (2) <= - eps /\ 0 <= 1 + 2 * ds * - (2) /\ 1 + 2 * ds * - (2) < eps
  /\ Forall (sq_exact qsqrt) (t_rads (fwd_step qsqrt 0 ds 0 1 (Some (- (2))))).
Proof.
  cbv zeta. repeat split; try (vm_compute; reflexivity); try (vm_compute; discriminate).
  apply sq_exact_check. vm_compute. reflexivity.
Qed.
