(* Property C15 - per-group facts about the GENERATED code: the constrained part of SE2/SE3/Galilei/SE_K_3
   composition, inverse and exp IS the SO2/SO3 operation on the constrained parts (syntactically the same traced
   expressions), hence canonical sign, multiplicativity of the squared norm and the exp bounds carry over. *)
From Coq Require Import Reals List Lra Psatz.
From SV Require Import Base.GenPrelude Base.Mat Doc.Groups Base.Tactics.
From SV Require Import Gen.SO2 Gen.SO3.
From SV Require Import Proofs.C15_Norm Proofs.C15_SO3 Model.C15_History Model.C15_Groups.
Import ListNotations.
Local Open Scope R_scope.

Definition qp (k : nat) (q : list R) : list R := [nth k q 0; nth (k + 1) q 0; nth (k + 2) q 0; nth (k + 3) q 0].
Definition cp (k : nat) (q : list R) : list R := [nth k q 0; nth (k + 1) q 0].
Definition tp (k : nat) (a : list R) : list R := [nth k a 0; nth (k + 1) a 0; nth (k + 2) a 0].

Ltac conds := repeat match goal with H : _ /\ _ |- _ => destruct H end; repeat split; assumption.
Ltac pick_vm :=
  solve [ split; [conds | reflexivity]
        | left; split; [conds | reflexivity]
        | right; left; split; [conds | reflexivity]
        | right; right; left; split; [conds | reflexivity]
        | right; right; right; split; [conds | reflexivity]
        | right; split; [conds | reflexivity] ].
(* reduction of a generated relation on a product group to the generated SO2/SO3 relation on the constrained
   parts: both sides are evaluated (vm_compute only rearranges the let-bindings and list selections, the real
   arithmetic stays symbolic) and must coincide syntactically *)
Ltac q_reduce Hrel :=
  rel_cases Hrel; (split; [reflexivity|]);
  repeat match goal with Hp : _ |- _ => progress vm_compute in Hp end; vm_compute; pick_vm.
Ltac pick_path :=
  solve [ split; [tauto | first [reflexivity | list_eq; ring]]
        | left; split; [tauto | first [reflexivity | list_eq; ring]]
        | right; left; split; [tauto | first [reflexivity | list_eq; ring]]
        | right; right; left; split; [tauto | first [reflexivity | list_eq; ring]]
        | right; right; right; split; [tauto | first [reflexivity | list_eq; ring]]
        | right; split; [tauto | first [reflexivity | list_eq; ring]] ].

(* ---------------------------------------------------------------- SO2 *)
Lemma so2_comp_shape g h out : so2_comp_rel g h out ->
  length out = 2%nat /\ n2 (nth 0 out 0) (nth 1 out 0) = n2 (nth 0 g 0) (nth 1 g 0) * n2 (nth 0 h 0) (nth 1 h 0).
Proof. intros Hrel. rel_cases Hrel. autounfold with so2_comp_db. unfold n2. cbv zeta. cbn [nth length]. split; [reflexivity | ring]. Qed.
Lemma so2_inv_shape g out : so2_inv_rel g out ->
  length out = 2%nat /\ n2 (nth 0 out 0) (nth 1 out 0) = n2 (nth 0 g 0) (nth 1 g 0).
Proof. intros Hrel. rel_cases Hrel. autounfold with so2_inv_db. unfold n2. cbv zeta. cbn [nth length]. split; [reflexivity | ring]. Qed.
Lemma so2_exp_shape a out : so2_exp_rel a out -> length out = 2%nat /\ n2 (nth 0 out 0) (nth 1 out 0) = 1.
Proof.
  intros Hrel. rel_cases Hrel. autounfold with so2_exp_db. unfold n2. cbv zeta. cbn [nth length]. split; [reflexivity|].
  pose proof (sin2_cos2 (nth 0 a 0)) as H. unfold Rsqr in H. exact H.
Qed.

