(* Property C15 - theorems about ALL programs over the register file (induction over the operation list),
   for an abstract family of groups.  Instantiated with the generated code in Proofs/C15_Inst.v. *)
From Coq Require Import Reals List ZArith Lia Lra Bool Psatz.
From SV Require Import Base.Mat Model.C15_History Proofs.C15_Norm.
Import ListNotations.
Local Open Scope R_scope.

Lemma run_app {sort conv ctor : Type} csrc cdst ksort {E} (W : world sort conv ctor E) store p1 :
  forall p2 st st', run csrc cdst ksort W store st (p1 ++ p2) st' ->
  exists st1, run csrc cdst ksort W store st p1 st1 /\ run csrc cdst ksort W store st1 p2 st'.
Proof.
  induction p1 as [|o p1 IH]; intros p2 st st' Hrun; cbn [app] in Hrun.
  - exists st. split; [constructor | exact Hrun].
  - inversion Hrun as [|? ? st1 ? ? Hstep Hrest]; subst.
    destruct (IH _ _ _ Hrest) as [st2 [H1 H2]].
    exists st2. split; [econstructor; eassumption | exact H2].
Qed.

(* ================================================================== exact semantics: simulation *)
Section Sim.
  Variables sort conv ctor : Type.
  Variables csrc cdst : conv -> sort.
  Variable ksort : ctor -> sort.
  Variables E1 E2 : Type.
  Variable W1 : world sort conv ctor E1.     (* the code: operations on coefficient vectors *)
  Variable W2 : world sort conv ctor E2.     (* the specification: group-theoretic operations *)
  Variable good : sort -> E1 -> Prop.        (* representation constraint + canonical sign *)
  Variable phi : sort -> E1 -> E2.           (* meaning of a coefficient vector *)

  Hypothesis H_comp : forall s g h out, good s g -> good s h -> w_comp W1 s g h out ->
    good s out /\ w_comp W2 s (phi s g) (phi s h) (phi s out).
  Hypothesis H_inv : forall s g out, good s g -> w_inv W1 s g out ->
    good s out /\ w_inv W2 s (phi s g) (phi s out).
  Hypothesis H_exp : forall s a out, w_exp W1 s a out -> good s out /\ w_exp W2 s a (phi s out).
  Hypothesis H_conv : forall c g out, good (csrc c) g -> w_conv W1 c g out ->
    good (cdst c) out /\ w_conv W2 c (phi (csrc c) g) (phi (cdst c) out).
  Hypothesis H_ctor : forall k args out, w_ctor W1 k args out ->
    good (ksort k) out /\ w_ctor W2 k args (phi (ksort k) out).

  Definition good_state (st : state sort E1) : Prop := forall r s q, st r = Some (s, q) -> good s q.
  Definition rel (st : state sort E1) (sst : state sort E2) : Prop :=
    forall r, sst r = match st r with Some (s, q) => Some (s, phi s q) | None => None end.

  Let ex1 : sort -> E1 -> E1 -> Prop := fun _ => eq.
  Let ex2 : sort -> E2 -> E2 -> Prop := fun _ => eq.

  Lemma good_upd st d s q : good_state st -> good s q -> good_state (upd st d (s, q)).
  Proof.
    intros Hst Hq r s' q' Hr. unfold upd in Hr. destruct (Nat.eqb r d).
    - inversion Hr; subst; exact Hq.
    - eapply Hst; exact Hr.
  Qed.

  Lemma rel_upd st sst d s q : rel st sst -> rel (upd st d (s, q)) (upd sst d (s, phi s q)).
  Proof. intros Hrel r. unfold upd. destruct (Nat.eqb r d); [reflexivity | apply Hrel]. Qed.

  Lemma rel_lookup st sst r s q : rel st sst -> st r = Some (s, q) -> sst r = Some (s, phi s q).
  Proof. intros Hrel Hr. rewrite (Hrel r), Hr. reflexivity. Qed.

  Lemma do_comp_sim s g h q : good s g -> good s h -> do_comp W1 ex1 s g h q ->
    good s q /\ do_comp W2 ex2 s (phi s g) (phi s h) (phi s q).
  Proof.
    intros Hg Hh [out [Hc Hs]]. unfold ex1 in Hs; subst q.
    destruct (H_comp _ _ _ _ Hg Hh Hc) as [Ho Hc2]. split; [exact Ho|]. exists (phi s out). split; [exact Hc2 | reflexivity].
  Qed.

  Lemma do_exp_sim s a q : do_exp W1 ex1 s a q -> good s q /\ do_exp W2 ex2 s a (phi s q).
  Proof.
    intros [out [Hc Hs]]. unfold ex1 in Hs; subst q.
    destruct (H_exp _ _ _ Hc) as [Ho Hc2]. split; [exact Ho|]. exists (phi s out). split; [exact Hc2 | reflexivity].
  Qed.

  Lemma do_rplus_sim s g a q : good s g -> do_rplus W1 ex1 s g a q ->
    good s q /\ do_rplus W2 ex2 s (phi s g) a (phi s q).
  Proof.
    intros Hg [e [He Hc]]. destruct (do_exp_sim _ _ _ He) as [Hge He2].
    destruct (do_comp_sim _ _ _ _ Hg Hge Hc) as [Hq Hc2]. split; [exact Hq|]. exists (phi s e). split; assumption.
  Qed.

  Theorem step_sim st o st' sst :
    step csrc cdst ksort W1 ex1 st o st' -> good_state st -> rel st sst ->
    good_state st' /\ exists sst', step csrc cdst ksort W2 ex2 sst o sst' /\ rel st' sst'.
  Proof.
    intros Hstep Hgood Hrel. destruct Hstep.
    - (* ctor *) unfold ex1 in H0; subst q. destruct (H_ctor _ _ _ H) as [Ho H2].
      split; [apply good_upd; assumption|]. eexists. split; [|apply rel_upd; exact Hrel].
      econstructor; [exact H2 | reflexivity].
    - (* exp *) destruct (do_exp_sim _ _ _ H) as [Ho H2].
      split; [apply good_upd; assumption|]. eexists. split; [|apply rel_upd; exact Hrel]. constructor. exact H2.
    - (* comp *) destruct (do_comp_sim _ _ _ _ (Hgood _ _ _ H) (Hgood _ _ _ H0) H1) as [Ho H2].
      split; [apply good_upd; assumption|]. eexists. split; [|apply rel_upd; exact Hrel].
      econstructor; [eapply rel_lookup; eassumption | eapply rel_lookup; eassumption | exact H2].
    - (* inv *) unfold ex1 in H1; subst q. destruct (H_inv _ _ _ (Hgood _ _ _ H) H0) as [Ho H2].
      split; [apply good_upd; assumption|]. eexists. split; [|apply rel_upd; exact Hrel].
      econstructor; [eapply rel_lookup; eassumption | exact H2 | reflexivity].
    - (* rplus *) destruct (do_rplus_sim _ _ _ _ (Hgood _ _ _ H) H0) as [Ho H2].
      split; [apply good_upd; assumption|]. eexists. split; [|apply rel_upd; exact Hrel].
      econstructor; [eapply rel_lookup; eassumption | exact H2].
    - (* mulassign *) destruct (do_comp_sim _ _ _ _ (Hgood _ _ _ H) (Hgood _ _ _ H0) H1) as [Ho H2].
      split; [apply good_upd; assumption|]. eexists. split; [|apply rel_upd; exact Hrel].
      econstructor; [eapply rel_lookup; eassumption | eapply rel_lookup; eassumption | exact H2].
    - (* plusassign *) destruct (do_rplus_sim _ _ _ _ (Hgood _ _ _ H) H0) as [Ho H2].
      split; [apply good_upd; assumption|]. eexists. split; [|apply rel_upd; exact Hrel].
      econstructor; [eapply rel_lookup; eassumption | exact H2].
    - (* conv *) unfold ex1 in H1; subst q. destruct (H_conv _ _ _ (Hgood _ _ _ H) H0) as [Ho H2].
      split; [apply good_upd; assumption|]. eexists. split; [|apply rel_upd; exact Hrel].
      econstructor; [eapply rel_lookup; eassumption | exact H2 | reflexivity].
    - (* scale_sum *) destruct (do_rplus_sim _ _ _ _ (Hgood _ _ _ H) H0) as [Ho H2].
      split; [apply good_upd; assumption|]. eexists. split; [|apply rel_upd; exact Hrel].
      econstructor; [eapply rel_lookup; eassumption | exact H2].
  Qed.

  (* every reachable element of every program satisfies the representation constraint and is canonical, and
     its meaning is the group-theoretic value of the same program *)
  Theorem run_sim p : forall st st' sst,
    run csrc cdst ksort W1 ex1 st p st' -> good_state st -> rel st sst ->
    good_state st' /\ exists sst', run csrc cdst ksort W2 ex2 sst p sst' /\ rel st' sst'.
  Proof.
    induction p as [|o p IH]; intros st st' sst Hrun Hgood Hrel.
    - inversion Hrun; subst. split; [exact Hgood|]. exists sst. split; [constructor | exact Hrel].
    - inversion Hrun as [|? ? st1 ? ? Hstep Hrest]; subst.
      destruct (step_sim _ _ _ _ Hstep Hgood Hrel) as [Hg1 [sst1 [Hs1 Hr1]]].
      destruct (IH _ _ _ Hrest Hg1 Hr1) as [Hg2 [sst2 [Hs2 Hr2]]].
      split; [exact Hg2|]. exists sst2. split; [econstructor; eassumption | exact Hr2].
  Qed.

  Lemma good_empty : good_state empty.
  Proof. intros r s q H. discriminate H. Qed.
  Lemma rel_empty : rel empty empty.
  Proof. intros r. reflexivity. Qed.

  (* intermediate states: a prefix of a program is a program *)
  Corollary every_intermediate_good p1 p2 st' :
    run csrc cdst ksort W1 ex1 empty (p1 ++ p2) st' ->
    exists st1, run csrc cdst ksort W1 ex1 empty p1 st1 /\ good_state st1 /\
                exists sst1, run csrc cdst ksort W2 ex2 empty p1 sst1 /\ rel st1 sst1.
  Proof.
    intros Hrun. destruct (run_app _ _ _ _ _ _ _ _ _ Hrun) as [st1 [H1 _]].
    exists st1. split; [exact H1|]. exact (run_sim _ _ _ _ H1 good_empty rel_empty).
  Qed.
End Sim.

(* ================================================================== linear histories (bookkeeping only) *)
Section Linear.
  Variables sort conv ctor : Type.
  Variable conv_fresh : conv -> bool.
  Variable T : Type.

  Lemma tsize_linear (p : list (op sort conv ctor T)) : forall f w B,
    linear conv_fresh p f = true ->
    (forall r, f r = true -> (w r <= 1)%Z) -> (forall r, (0 <= w r <= B)%Z) ->
    forall r, (0 <= tsize conv_fresh p w r <= B + 3 * Z.of_nat (length p))%Z.
  Proof.
    induction p as [|o p IH]; intros f w B Hlin Hf Hw r.
    - cbn. specialize (Hw r). lia.
    - cbn [linear] in Hlin. apply andb_true_iff in Hlin. destruct Hlin as [Hop Hrest].
      unfold tsize. cbn [fold_left length]. fold (tsize conv_fresh p (tsize_step conv_fresh w o)).
      assert (Hw' : forall r0, (0 <= tsize_step conv_fresh w o r0 <= B + 3)%Z).
      { intros r0. unfold tsize_step, wupd. destruct (Nat.eqb r0 (dest o)); [|specialize (Hw r0); lia].
        pose proof (Hw 0%nat) as HB0.
        destruct o as [d k args|d s a|d x y|d x|d x a|x y|x a|d c x|d x al ks]; cbn [tsize_op linear_op] in *.
        - lia.
        - lia.
        - apply orb_true_iff in Hop. pose proof (Hw x). pose proof (Hw y).
          destruct Hop as [Hx|Hy]; [pose proof (Hf _ Hx) | pose proof (Hf _ Hy)]; lia.
        - pose proof (Hw x). lia.
        - pose proof (Hw x). lia.
        - apply orb_true_iff in Hop. pose proof (Hw x). pose proof (Hw y).
          destruct Hop as [Hx|Hy]; [pose proof (Hf _ Hx) | pose proof (Hf _ Hy)]; lia.
        - pose proof (Hw x). lia.
        - pose proof (Hw x). destruct (conv_fresh c); lia.
        - pose proof (Hw x). lia. }
      assert (Hf' : forall r0, fresh_step conv_fresh f o r0 = true -> (tsize_step conv_fresh w o r0 <= 1)%Z).
      { intros r0. unfold fresh_step, fupd, tsize_step, wupd. destruct (Nat.eqb r0 (dest o)); [|apply Hf].
        destruct o; cbn [fresh_op tsize_op]; try discriminate; try lia.
        intros Hc. rewrite Hc. lia. }
      specialize (IH _ _ (B + 3)%Z Hrest Hf' Hw' r). lia.
  Qed.
End Linear.

(* ================================================================== perturbation semantics: deviation *)
Section Dev.
  Variables sort conv ctor : Type.
  Variables csrc cdst : conv -> sort.
  Variable ksort : ctor -> sort.
  Variable E : Type.
  Variable W : world sort conv ctor E.
  Variable store : sort -> E -> E -> Prop.
  Variable conv_fresh : conv -> bool.
  Variable N : sort -> E -> R.               (* squared norm of the constrained part (1 if none) *)
  Variables eT eR : R.                       (* exp truncation budget / per-store perturbation of ln N *)
  Hypothesis eT_nonneg : 0 <= eT.
  Hypothesis eR_nonneg : 0 <= eR.

  Hypothesis D_comp : forall s g h out, 0 < N s g -> 0 < N s h -> w_comp W s g h out -> N s out = N s g * N s h.
  Hypothesis D_inv : forall s g out, 0 < N s g -> w_inv W s g out ->
    0 < N s out /\ Rabs (ln (N s out)) <= Rabs (ln (N s g)).
  Hypothesis D_exp : forall s a out, w_exp W s a out -> 0 < N s out /\ Rabs (ln (N s out)) <= eT.
  Hypothesis D_ctor : forall k args out, w_ctor W k args out ->
    0 < N (ksort k) out /\ Rabs (ln (N (ksort k) out)) <= eT.
  Hypothesis D_conv : forall c g out, w_conv W c g out -> 0 < N (csrc c) g ->
    0 < N (cdst c) out /\
    Rabs (ln (N (cdst c) out)) <= (if conv_fresh c then eT else Rabs (ln (N (csrc c) g))).
  Hypothesis D_store : forall s out q, store s out q -> 0 < N s out ->
    0 < N s q /\ Rabs (ln (N s q) - ln (N s out)) <= eR.

  Definition eps : R := eT + eR.

  Definition devinv (st : state sort E) (w : reg -> Z) : Prop :=
    forall r s q, st r = Some (s, q) -> 0 < N s q /\ Rabs (ln (N s q)) <= IZR (w r) * eps.

  Lemma stored_bound s out q B : store s out q -> 0 < N s out -> Rabs (ln (N s out)) <= B ->
    0 < N s q /\ Rabs (ln (N s q)) <= B + eR.
  Proof.
    intros Hs Hp HB. destruct (D_store _ _ _ Hs Hp) as [Hq Hd]. split; [exact Hq|].
    replace (ln (N s q)) with ((ln (N s q) - ln (N s out)) + ln (N s out)) by ring.
    eapply Rle_trans; [apply Rabs_triang|]. lra.
  Qed.

  (* norm_dev_comp : |ln N (x*y)| <= |ln N x| + |ln N y| + eR *)
  Lemma norm_dev_comp s g h q : 0 < N s g -> 0 < N s h -> do_comp W store s g h q ->
    0 < N s q /\ Rabs (ln (N s q)) <= Rabs (ln (N s g)) + Rabs (ln (N s h)) + eR.
  Proof.
    intros Hg Hh [out [Hc Hs]]. pose proof (D_comp _ _ _ _ Hg Hh Hc) as HN.
    assert (Hp : 0 < N s out) by (rewrite HN; apply Rmult_lt_0_compat; assumption).
    apply (stored_bound _ _ _ _ Hs Hp). rewrite HN, ln_mult by assumption. apply Rabs_triang.
  Qed.

  (* norm_dev_exp : |ln N (exp a)| <= eT + eR *)
  Lemma norm_dev_exp s a q : do_exp W store s a q -> 0 < N s q /\ Rabs (ln (N s q)) <= eT + eR.
  Proof. intros [out [Hc Hs]]. destruct (D_exp _ _ _ Hc) as [Hp Hb]. exact (stored_bound _ _ _ _ Hs Hp Hb). Qed.

  (* norm_dev_inv : |ln N (x^-1)| <= |ln N x| + eR *)
  Lemma norm_dev_inv s g out q : 0 < N s g -> w_inv W s g out -> store s out q ->
    0 < N s q /\ Rabs (ln (N s q)) <= Rabs (ln (N s g)) + eR.
  Proof. intros Hg Hi Hs. destruct (D_inv _ _ _ Hg Hi) as [Hp Hb]. exact (stored_bound _ _ _ _ Hs Hp Hb). Qed.

  Lemma norm_dev_rplus s g a q : 0 < N s g -> do_rplus W store s g a q ->
    0 < N s q /\ Rabs (ln (N s q)) <= Rabs (ln (N s g)) + 2 * eps.
  Proof.
    intros Hg [e [He Hc]]. destruct (norm_dev_exp _ _ _ He) as [Hpe Hbe].
    destruct (norm_dev_comp _ _ _ _ Hg Hpe Hc) as [Hq Hb]. split; [exact Hq|]. unfold eps. lra.
  Qed.

  Lemma devinv_upd st w d s q z : devinv st w -> 0 < N s q -> Rabs (ln (N s q)) <= IZR z * eps ->
    devinv (upd st d (s, q)) (wupd w d z).
  Proof.
    intros Hinv Hp Hb r s' q' Hr. unfold upd in Hr. unfold wupd. destruct (Nat.eqb r d).
    - inversion Hr; subst. split; assumption.
    - apply Hinv; exact Hr.
  Qed.

  Lemma eps_nonneg : 0 <= eps.
  Proof. unfold eps; lra. Qed.

  Theorem step_dev st o st' w :
    step csrc cdst ksort W store st o st' -> devinv st w -> devinv st' (tsize_step conv_fresh w o).
  Proof.
    intros Hstep Hinv. pose proof eps_nonneg as He. unfold tsize_step.
    destruct Hstep; cbn [dest tsize_op].
    - destruct (D_ctor _ _ _ H) as [Hp Hb]. destruct (stored_bound _ _ _ _ H0 Hp Hb) as [Hq Hbq].
      apply devinv_upd; try assumption. unfold eps. lra.
    - destruct (norm_dev_exp _ _ _ H) as [Hq Hbq]. apply devinv_upd; try assumption. unfold eps. lra.
    - destruct (Hinv _ _ _ H) as [Hg Hbg]. destruct (Hinv _ _ _ H0) as [Hh Hbh].
      destruct (norm_dev_comp _ _ _ _ Hg Hh H1) as [Hq Hbq]. apply devinv_upd; try assumption.
      rewrite !plus_IZR. unfold eps in *. lra.
    - destruct (Hinv _ _ _ H) as [Hg Hbg]. destruct (norm_dev_inv _ _ _ _ Hg H0 H1) as [Hq Hbq].
      apply devinv_upd; try assumption. rewrite !plus_IZR. unfold eps in *. lra.
    - destruct (Hinv _ _ _ H) as [Hg Hbg]. destruct (norm_dev_rplus _ _ _ _ Hg H0) as [Hq Hbq].
      apply devinv_upd; try assumption. rewrite !plus_IZR. lra.
    - destruct (Hinv _ _ _ H) as [Hg Hbg]. destruct (Hinv _ _ _ H0) as [Hh Hbh].
      destruct (norm_dev_comp _ _ _ _ Hg Hh H1) as [Hq Hbq]. apply devinv_upd; try assumption.
      rewrite !plus_IZR. unfold eps in *. lra.
    - destruct (Hinv _ _ _ H) as [Hg Hbg]. destruct (norm_dev_rplus _ _ _ _ Hg H0) as [Hq Hbq].
      apply devinv_upd; try assumption. rewrite !plus_IZR. lra.
    - destruct (Hinv _ _ _ H) as [Hg Hbg]. destruct (D_conv _ _ _ H0 Hg) as [Hp Hb].
      destruct (conv_fresh c).
      + destruct (stored_bound _ _ _ _ H1 Hp Hb) as [Hq Hbq]. apply devinv_upd; try assumption. unfold eps. lra.
      + destruct (stored_bound _ _ _ _ H1 Hp Hb) as [Hq Hbq]. apply devinv_upd; try assumption.
        rewrite !plus_IZR. unfold eps in *. lra.
    - destruct (Hinv _ _ _ H) as [Hg Hbg]. destruct (norm_dev_rplus _ _ _ _ Hg H0) as [Hq Hbq].
      apply devinv_upd; try assumption. rewrite !plus_IZR. lra.
  Qed.

  Theorem run_dev p : forall st st' w,
    run csrc cdst ksort W store st p st' -> devinv st w -> devinv st' (tsize conv_fresh p w).
  Proof.
    induction p as [|o p IH]; intros st st' w Hrun Hinv.
    - inversion Hrun; subst. exact Hinv.
    - inversion Hrun as [|? ? st1 ? ? Hstep Hrest]; subst. unfold tsize. cbn [fold_left].
      apply (IH _ _ _ Hrest). apply (step_dev _ _ _ _ Hstep Hinv).
  Qed.

  Lemma devinv_empty w : devinv empty w.
  Proof. intros r s q H. discriminate H. Qed.

  (* norm_dev_tree: the deviation of the constraint of any element reachable by any program is bounded by
     (size of the unfolded expression tree) * eps * (1 + o(1)) *)
  Theorem norm_dev_tree p st' r s q :
    run csrc cdst ksort W store empty p st' -> st' r = Some (s, q) ->
    let K := IZR (tsize conv_fresh p (fun _ => 0%Z) r) * eps in
    K <= 1/2 -> Rabs (N s q - 1) <= K * (1 + 2 * K).
  Proof.
    intros Hrun Hr K HK. destruct (run_dev _ _ _ _ Hrun (devinv_empty (fun _ => 0%Z)) _ _ _ Hr) as [Hp Hb].
    apply dev_of_log; assumption.
  Qed.
  (* the property's (n+1)*1e-14 for histories in which every composition has at most one non-fresh
     operand, provided one stored result perturbs ln N by at most 3e-15 in total (eT + eR) *)
  Theorem norm_dev_linear_histories p st' r s q :
    eT + eR <= 3 / 1000000000000000 ->
    (Z.of_nat (length p) <= 1000000000000)%Z ->
    linear conv_fresh p (fun _ => false) = true ->
    run csrc cdst ksort W store empty p st' -> st' r = Some (s, q) ->
    Rabs (N s q - 1) <= (INR (length p) + 1) * (1 / 100000000000000).
  Proof.
    intros Heps Hlen Hlin Hrun Hr.
    destruct (run_dev _ _ _ _ Hrun (devinv_empty (fun _ => 0%Z)) _ _ _ Hr) as [Hp Hb].
    assert (Hts : (0 <= tsize conv_fresh p (fun _ => 0%Z) r <= 0 + 3 * Z.of_nat (length p))%Z).
    { apply (tsize_linear _ _ _ conv_fresh _ p (fun _ => false) (fun _ => 0%Z) 0%Z Hlin).
      - intros r0 H0; discriminate H0.
      - intros r0; lia. }
    set (n := INR (length p)).
    assert (Hn0 : 0 <= n) by apply pos_INR.
    assert (Hn : n <= 1000000000000).
    { unfold n. rewrite INR_IZR_INZ. apply IZR_le. exact Hlen. }
    assert (Hz : IZR (tsize conv_fresh p (fun _ => 0%Z) r) <= 3 * n).
    { unfold n. rewrite INR_IZR_INZ. rewrite <- mult_IZR. apply IZR_le. lia. }
    assert (Hz0 : 0 <= IZR (tsize conv_fresh p (fun _ => 0%Z) r)) by (apply IZR_le; lia).
    unfold eps in Hb.
    set (K := 3 * n * (3 / 1000000000000000)).
    assert (HbK : Rabs (ln (N s q)) <= K).
    { eapply Rle_trans; [exact Hb|]. unfold K. 
      assert (0 <= eT + eR) by lra. nra. }
    assert (HK : K <= 1/2) by (unfold K; lra).
    pose proof (dev_of_log _ _ Hp HbK HK) as Hd.
    eapply Rle_trans; [exact Hd|]. unfold K. nra.
  Qed.
End Dev.

(* ================================================================== odeint: constant body velocity *)
Section Odeint.
  Variables sort conv ctor : Type.
  Variables csrc cdst : conv -> sort.
  Variable ksort : ctor -> sort.
  Variables E1 E2 : Type.
  Variable W1 : world sort conv ctor E1.
  Variable good : sort -> E1 -> Prop.
  Variable phi : sort -> E1 -> E2.
  Variable smul : sort -> E2 -> E2 -> E2.
  Variable sexp : sort -> list R -> E2.

  Hypothesis O_comp : forall s g h out, good s g -> good s h -> w_comp W1 s g h out ->
    good s out /\ phi s out = smul s (phi s g) (phi s h).
  Hypothesis O_exp : forall s a out, w_exp W1 s a out -> good s out /\ phi s out = sexp s a.
  (* one-parameter-subgroup law: exp of parallel vectors adds (with associativity folded in) *)
  Hypothesis O_flow : forall s g v al be, good s g ->
    smul s (smul s (phi s g) (sexp s (vscale al v))) (sexp s (vscale be v))
    = smul s (phi s g) (sexp s (vscale (al + be) v)).
  Hypothesis O_flow0 : forall s g v, good s g -> smul s (phi s g) (sexp s (vscale 0 v)) = phi s g.

  Let ex1 : sort -> E1 -> E1 -> Prop := fun _ => eq.
  Definition rsum (l : list R) : R := fold_right Rplus 0 l.

  Lemma vadd_vscale a b v : vadd (vscale a v) (vscale b v) = vscale (a + b) v.
  Proof.
    unfold vscale. induction v as [|x v IH]; cbn [map vadd]; [reflexivity|]. rewrite IH. f_equal. ring.
  Qed.

  Lemma ss_sum_cons2 a al k k2 ks : ss_sum (a :: al) (k :: k2 :: ks) = vadd (vscale a k) (ss_sum al (k2 :: ks)).
  Proof. reflexivity. Qed.

  Lemma ss_sum_const v al : al <> [] -> ss_sum al (repeat v (length al)) = vscale (rsum al) v.
  Proof.
    induction al as [|a al IH]; intros Hne; [contradiction|].
    destruct al as [|a2 al].
    - cbn. rewrite Rplus_0_r. reflexivity.
    - assert (IH' : ss_sum (a2 :: al) (v :: repeat v (length al)) = vscale (rsum (a2 :: al)) v)
        by (apply IH; discriminate).
      change (repeat v (length (a :: a2 :: al))) with (v :: v :: repeat v (length al)).
      rewrite ss_sum_cons2, IH', vadd_vscale. reflexivity.
  Qed.

  Lemma rsum_scale c l : rsum (map (Rmult c) l) = c * rsum l.
  Proof. unfold rsum. induction l as [|x l IH]; cbn [map fold_right]; [ring|]. rewrite IH. ring. Qed.

  Lemma rk_call_tangent dt coefs v : coefs <> [] ->
    ss_tangent (1 :: map (Rmult dt) coefs) (repeat v (length coefs)) = vscale (dt * rsum coefs) v.
  Proof.
    intros Hne. unfold ss_tangent. cbn [tl].
    rewrite <- (map_length (Rmult dt) coefs). rewrite ss_sum_const.
    - rewrite rsum_scale. reflexivity.
    - destruct coefs; [contradiction | discriminate].
  Qed.

  Lemma step_scalesum_inv st d x al ks st' :
    step csrc cdst ksort W1 ex1 st (OScaleSum d x al ks) st' ->
    exists s g q, st x = Some (s, g) /\ do_rplus W1 ex1 s g (ss_tangent al ks) q /\ st' = upd st d (s, q).
  Proof. intros H. inversion H; subst. eauto 10. Qed.

  Lemma rk_call_step d dt coefs v st st' s x :
    coefs <> [] -> good_state sort E1 good st -> st 0%nat = Some (s, x) ->
    step csrc cdst ksort W1 ex1 st (rk_call d dt coefs v) st' ->
    exists q, st' = upd st d (s, q) /\ good s q /\
              phi s q = smul s (phi s x) (sexp s (vscale (dt * rsum coefs) v)).
  Proof.
    intros Hne Hgood Hx Hstep. unfold rk_call in Hstep.
    destruct (step_scalesum_inv _ _ _ _ _ _ Hstep) as [s' [g [q [Hlook [Hrp ->]]]]].
    rewrite Hx in Hlook. inversion Hlook; subst s' g. clear Hlook.
    rewrite rk_call_tangent in Hrp by exact Hne.
    destruct Hrp as [e [[oe [Hexp Hse]] [out [Hcomp Hso]]]]. unfold ex1 in *. subst.
    destruct (O_exp _ _ _ Hexp) as [Hge Hpe].
    destruct (O_comp _ _ _ _ (Hgood _ _ _ Hx) Hge Hcomp) as [Hgo Hpo].
    exists q. split; [reflexivity|]. split; [exact Hgo|]. rewrite Hpo, Hpe. reflexivity.
  Qed.

  Lemma stages_run dt v A : forall st st' s x,
    (forall row, In row A -> row <> []) -> good_state sort E1 good st -> st 0%nat = Some (s, x) ->
    run csrc cdst ksort W1 ex1 st (map (fun row => rk_call 1%nat dt row v) A) st' ->
    good_state sort E1 good st' /\ st' 0%nat = Some (s, x).
  Proof.
    induction A as [|row A IH]; intros st st' s x Hrows Hgood Hx Hrun; cbn [map] in Hrun.
    - inversion Hrun; subst. split; assumption.
    - inversion Hrun as [|? ? st1 ? ? Hstep Hrest]; subst.
      destruct (rk_call_step _ _ _ _ _ _ _ _ (Hrows row (or_introl eq_refl)) Hgood Hx Hstep) as [q [-> [Hgq _]]].
      apply (IH _ _ s x (fun r Hr => Hrows r (or_intror Hr))) in Hrest.
      + exact Hrest.
      + apply good_upd; assumption.
      + unfold upd. cbn. exact Hx.
  Qed.

  Lemma rk_step_run dt A b v st st' s x :
    (forall row, In row A -> row <> []) -> b <> [] -> rsum b = 1 ->
    good_state sort E1 good st -> st 0%nat = Some (s, x) ->
    run csrc cdst ksort W1 ex1 st (rk_step dt A b v) st' ->
    good_state sort E1 good st' /\
    exists q, st' 0%nat = Some (s, q) /\ phi s q = smul s (phi s x) (sexp s (vscale dt v)).
  Proof.
    intros Hrows Hb Hsum Hgood Hx Hrun. unfold rk_step in Hrun.
    destruct (run_app _ _ _ _ _ _ _ _ _ Hrun) as [st1 [Hr1 Hr2]].
    destruct (stages_run _ _ _ _ _ _ _ Hrows Hgood Hx Hr1) as [Hg1 Hx1].
    inversion Hr2 as [|? ? st2 ? ? Hstep Hrest]; subst. inversion Hrest; subst.
    destruct (rk_call_step _ _ _ _ _ _ _ _ Hb Hg1 Hx1 Hstep) as [q [-> [Hgq Hpq]]].
    split; [apply good_upd; assumption|]. exists q. split; [reflexivity|].
    rewrite Hpq, Hsum, Rmult_1_r. reflexivity.
  Qed.

  (* any explicit Runge-Kutta tableau with sum b = 1, any number of steps, constant body velocity v:
     the state after n steps of size dt is x0 * exp((n dt) v) - exactly *)
  Theorem odeint_const_velocity n : forall dt A b v st st' s x0,
    (forall row, In row A -> row <> []) -> b <> [] -> rsum b = 1 ->
    good_state sort E1 good st -> st 0%nat = Some (s, x0) ->
    run csrc cdst ksort W1 ex1 st (rk_run n dt A b v) st' ->
    good_state sort E1 good st' /\
    exists q, st' 0%nat = Some (s, q) /\ phi s q = smul s (phi s x0) (sexp s (vscale (INR n * dt) v)).
  Proof.
    intros dt A b v st st' s x0 Hrows Hb Hsum. revert st st'.
    assert (Hgen : forall n st st' x al, good s x0 -> good_state sort E1 good st -> st 0%nat = Some (s, x) ->
              phi s x = smul s (phi s x0) (sexp s (vscale al v)) ->
              run csrc cdst ksort W1 ex1 st (rk_run n dt A b v) st' ->
              good_state sort E1 good st' /\
              exists q, st' 0%nat = Some (s, q) /\ phi s q = smul s (phi s x0) (sexp s (vscale (al + INR n * dt) v))).
    { clear n. induction n as [|n IH]; intros st st' x al Hg0 Hgood Hx Hpx Hrun.
      - cbn [rk_run] in Hrun. inversion Hrun; subst. split; [exact Hgood|]. exists x. split; [exact Hx|].
        cbn [INR]. rewrite Rmult_0_l, Rplus_0_r. exact Hpx.
      - cbn [rk_run] in Hrun. destruct (run_app _ _ _ _ _ _ _ _ _ Hrun) as [st1 [Hr1 Hr2]].
        destruct (rk_step_run _ _ _ _ _ _ _ _ Hrows Hb Hsum Hgood Hx Hr1) as [Hg1 [q [Hq Hpq]]].
        assert (Hpq' : phi s q = smul s (phi s x0) (sexp s (vscale (al + dt) v))).
        { rewrite Hpq, Hpx. apply O_flow. exact Hg0. }
        destruct (IH _ _ _ _ Hg0 Hg1 Hq Hpq' Hr2) as [Hg2 [q2 [Hq2 Hpq2]]].
        split; [exact Hg2|]. exists q2. split; [exact Hq2|]. rewrite Hpq2. rewrite S_INR.
        replace (al + dt + INR n * dt) with (al + (INR n + 1) * dt) by ring. reflexivity. }
    intros st st' Hgood Hx Hrun.
    destruct (Hgen n st st' x0 0 (Hgood _ _ _ Hx) Hgood Hx) as [Hg [q [Hq Hpq]]].
    - symmetry. apply O_flow0. exact (Hgood _ _ _ Hx).
    - exact Hrun.
    - split; [exact Hg|]. exists q. split; [exact Hq|]. rewrite Hpq, Rplus_0_l. reflexivity.
  Qed.
End Odeint.
