(* Property C15 - instantiation of the history theorems with the generated code of SO2, SO3, SE2, SE3,
   Galilei, SE_K_3<1,2,3> (Model/C15_Groups.v) using C01's lemmas and the per-group facts. *)
From Coq Require Import Reals List ZArith Lra Lia Psatz.
From SV Require Import Base.GenPrelude Base.Mat Doc.Groups Base.Tactics.
From SV Require Import Gen.SO2 Gen.SO3 Gen.SE2 Gen.SE3 Gen.Galilei Gen.SEK3_1 Gen.SEK3_2 Gen.SEK3_3.
From SV Require Proofs.C01_SO2 Proofs.C01_SO3 Proofs.C01_SE2 Proofs.C01_SE3 Proofs.C01_Galilei
  Proofs.C01_SEK3_1 Proofs.C01_SEK3_2 Proofs.C01_SEK3_3.
From SV Require Import Model.C15_History Model.C15_Groups.
From SV Require Import Proofs.C15_Norm Proofs.C15_SO3 Proofs.C15_Groups Proofs.C15_History.
From SV Require Import Proofs.C15_Q_SE2 Proofs.C15_Q_SE3 Proofs.C15_Q_GAL Proofs.C15_Q_SEK1 Proofs.C15_Q_SEK2 Proofs.C15_Q_SEK3.
Import ListNotations.
Local Open Scope R_scope.

Ltac explode L q :=
  cbn [rep] in L;
  repeat (destruct q as [|? q]; [discriminate L|]);
  destruct q as [|? q]; [|discriminate L].

Ltac sqn_unfold := unfold sqn, canon, texact, qn, qcanon, so3_texact, n4, n2, qp, cp, tp;
                   cbn [planar qoff toff nth Nat.add].

(* ------------------------------------------------------------------ constraint = unit squared norm *)
Lemma valid_sqn s q : valid s q <-> sqn s q = 1.
Proof. destruct s; unfold valid; doc_unfold; sqn_unfold; tauto. Qed.

(* ------------------------------------------------------------------ uniform facts about the generated operations *)
Lemma comp_facts s g h out : comp_rel s g h out ->
  length out = rep s /\ canon s out /\ sqn s out = sqn s g * sqn s h.
Proof.
  intros Hc. destruct s; cbn [comp_rel rep] in *.
  - destruct (so2_comp_shape _ _ _ Hc) as [HL HN]. revert HN. sqn_unfold. intros HN. repeat split; [exact HL | exact HN].
  - destruct (so3_comp_shape _ _ _ Hc) as [HL [HC HN]]. revert HC HN. sqn_unfold. intros HC HN. repeat split; assumption.
  - destruct (se2_comp_q _ _ _ Hc) as [HL Hq]. destruct (so2_comp_shape _ _ _ Hq) as [_ HN]. revert HN. sqn_unfold.
    intros HN. repeat split; [exact HL | exact HN].
  - destruct (se3_comp_q _ _ _ Hc) as [HL Hq]. destruct (so3_comp_shape _ _ _ Hq) as [_ [HC HN]]. revert HC HN. sqn_unfold.
    intros HC HN. repeat split; assumption.
  - destruct (gal_comp_q _ _ _ Hc) as [HL Hq]. destruct (so3_comp_shape _ _ _ Hq) as [_ [HC HN]]. revert HC HN. sqn_unfold.
    intros HC HN. repeat split; assumption.
  - destruct (sek1_comp_q _ _ _ Hc) as [HL Hq]. destruct (so3_comp_shape _ _ _ Hq) as [_ [HC HN]]. revert HC HN. sqn_unfold.
    intros HC HN. repeat split; assumption.
  - destruct (sek2_comp_q _ _ _ Hc) as [HL Hq]. destruct (so3_comp_shape _ _ _ Hq) as [_ [HC HN]]. revert HC HN. sqn_unfold.
    intros HC HN. repeat split; assumption.
  - destruct (sek3_comp_q _ _ _ Hc) as [HL Hq]. destruct (so3_comp_shape _ _ _ Hq) as [_ [HC HN]]. revert HC HN. sqn_unfold.
    intros HC HN. repeat split; assumption.
Qed.

Lemma ln_inv_abs x : 0 < x -> 0 < / x /\ Rabs (ln (/ x)) <= Rabs (ln x).
Proof. intros Hx. split; [apply Rinv_0_lt_compat; exact Hx|]. rewrite ln_Rinv by exact Hx. rewrite Rabs_Ropp. lra. Qed.

Lemma inv_facts s g out : 0 < sqn s g -> inv_rel s g out ->
  length out = rep s /\ (canon s g -> canon s out) /\ 0 < sqn s out /\ Rabs (ln (sqn s out)) <= Rabs (ln (sqn s g))
  /\ (sqn s g = 1 -> sqn s out = 1).
Proof.
  intros Hp Hc.
  assert (Hquat : forall k, so3_inv_rel (qp k g) (qp k out) -> 0 < qn (qp k g) ->
            (qcanon (qp k g) -> qcanon (qp k out)) /\ 0 < qn (qp k out) /\
            Rabs (ln (qn (qp k out))) <= Rabs (ln (qn (qp k g))) /\ (qn (qp k g) = 1 -> qn (qp k out) = 1)).
  { intros k Hq Hpos. destruct (so3_inv_shape _ _ Hpos Hq) as [_ [HC HN]]. split; [exact HC|]. rewrite HN.
    destruct (ln_inv_abs _ Hpos) as [H1 H2]. split; [exact H1|]. split; [exact H2|]. intros ->. field. }
  destruct s; cbn [inv_rel rep] in *.
  - destruct (so2_inv_shape _ _ Hc) as [HL HN]. revert Hp HN. sqn_unfold. intros Hp HN. rewrite HN.
    repeat split; try assumption; try lra. 
  - destruct (so3_inv_shape _ _ Hp Hc) as [HL _]. split; [exact HL|]. generalize (Hquat 0%nat). clear Hquat.
    revert Hp. sqn_unfold. intros Hp Hq. apply Hq; [|exact Hp].
    replace [nth 0 g 0; nth 1 g 0; nth 2 g 0; nth 3 g 0] with (qp 0 g) by reflexivity.
    assert (Ho : out = qp 0 out).
    { destruct (so3_inv_shape _ _ Hp Hc) as [HL' _]. explode HL' out. reflexivity. }
    destruct (so3_inv_shape _ _ Hp Hc) as [HL' _]. explode HL' out. 
    unfold so3_inv_rel in *. autounfold with so3_inv_db in *. cbv zeta in *. cbn [nth qp Nat.add] in *. exact Hc.
  - destruct (se2_inv_q _ _ Hc) as [HL Hq]. destruct (so2_inv_shape _ _ Hq) as [_ HN]. revert Hp HN. sqn_unfold.
    intros Hp HN. rewrite HN. repeat split; try assumption; try lra.
  - destruct (se3_inv_q _ _ Hc) as [HL Hq]. split; [exact HL|]. generalize (Hquat 3%nat Hq). revert Hp. sqn_unfold. tauto.
  - destruct (gal_inv_q _ _ Hc) as [HL Hq]. split; [exact HL|]. generalize (Hquat 7%nat Hq). revert Hp. sqn_unfold. tauto.
  - destruct (sek1_inv_q _ _ Hc) as [HL Hq]. split; [exact HL|]. generalize (Hquat 3%nat Hq). revert Hp. sqn_unfold. tauto.
  - destruct (sek2_inv_q _ _ Hc) as [HL Hq]. split; [exact HL|]. generalize (Hquat 6%nat Hq). revert Hp. sqn_unfold. tauto.
  - destruct (sek3_inv_q _ _ Hc) as [HL Hq]. split; [exact HL|]. generalize (Hquat 9%nat Hq). revert Hp. sqn_unfold. tauto.
Qed.

Lemma exp_facts s a out : exp_rel s a out ->
  length out = rep s /\ canon s out /\ Rabs (sqn s out - 1) <= 1 / 1000000000000000000 /\ (texact s a -> sqn s out = 1).
Proof.
  intros Hc.
  assert (Hquat : forall k j, so3_exp_rel (tp j a) (qp k out) ->
            qcanon (qp k out) /\ Rabs (qn (qp k out) - 1) <= 1 / 1000000000000000000 /\ (so3_texact (tp j a) -> qn (qp k out) = 1)).
  { intros k j Hq. destruct (so3_exp_shape _ _ Hq) as [_ H]. exact H. }
  assert (Hplanar : forall k, n2 (nth k out 0) (nth (k + 1) out 0) = 1 ->
            Rabs (n2 (nth k out 0) (nth (k + 1) out 0) - 1) <= 1 / 1000000000000000000).
  { intros k Hk. rewrite Hk. replace (1 - 1) with 0 by ring. rewrite Rabs_R0. lra. }
  destruct s; cbn [exp_rel rep] in *.
  - destruct (so2_exp_shape _ _ Hc) as [HL HN]. generalize (Hplanar 0%nat HN). revert HN. sqn_unfold. tauto.
  - destruct (so3_exp_shape _ _ Hc) as [HL [HC [HB HE]]]. revert HC HB HE. sqn_unfold. unfold C15_SO3.eps2, eps2. tauto.
  - destruct (se2_exp_q _ _ Hc) as [HL Hq]. destruct (so2_exp_shape _ _ Hq) as [_ HN]. generalize (Hplanar 2%nat). revert HN.
    sqn_unfold. tauto.
  - destruct (se3_exp_q _ _ Hc) as [HL Hq]. generalize (Hquat 3%nat 3%nat Hq). sqn_unfold. unfold C15_SO3.eps2, eps2. tauto.
  - destruct (gal_exp_q _ _ Hc) as [HL Hq]. generalize (Hquat 7%nat 7%nat Hq). sqn_unfold. unfold C15_SO3.eps2, eps2. tauto.
  - destruct (sek1_exp_q _ _ Hc) as [HL Hq]. generalize (Hquat 3%nat 3%nat Hq). sqn_unfold. unfold C15_SO3.eps2, eps2. tauto.
  - destruct (sek2_exp_q _ _ Hc) as [HL Hq]. generalize (Hquat 6%nat 6%nat Hq). sqn_unfold. unfold C15_SO3.eps2, eps2. tauto.
  - destruct (sek3_exp_q _ _ Hc) as [HL Hq]. generalize (Hquat 9%nat 9%nat Hq). sqn_unfold. unfold C15_SO3.eps2, eps2. tauto.
Qed.

Lemma so2_identity_shape out : so2_identity_rel out -> out = [0; 1].
Proof. intros Hrel. rel_cases Hrel. reflexivity. Qed.

Lemma id_facts s out : id_rel s out -> length out = rep s /\ canon s out /\ sqn s out = 1.
Proof.
  intros Hc.
  assert (Hquat : forall k, so3_identity_rel (qp k out) ->
            0 <= nth (k + 3) out 0 /\
            nth k out 0 * nth k out 0 + nth (k + 1) out 0 * nth (k + 1) out 0 + nth (k + 2) out 0 * nth (k + 2) out 0
            + nth (k + 3) out 0 * nth (k + 3) out 0 = 1).
  { intros k Hq. apply so3_identity_shape in Hq. unfold qp in Hq. injection Hq as H0 H1 H2 H3. rewrite H0, H1, H2, H3. lra. }
  assert (Hplanar : forall k, so2_identity_rel (cp k out) ->
            nth k out 0 * nth k out 0 + nth (k + 1) out 0 * nth (k + 1) out 0 = 1).
  { intros k Hq. apply so2_identity_shape in Hq. unfold cp in Hq. injection Hq as H0 H1. rewrite H0, H1. lra. }
  destruct s; cbn [id_rel rep] in *.
  - pose proof (so2_identity_shape _ Hc) as ->. sqn_unfold. repeat split; lra.
  - pose proof (so3_identity_shape _ Hc) as ->. sqn_unfold. repeat split; lra.
  - destruct (se2_identity_q _ Hc) as [HL Hq]. generalize (Hplanar 2%nat Hq). sqn_unfold. tauto.
  - destruct (se3_identity_q _ Hc) as [HL Hq]. generalize (Hquat 3%nat Hq). sqn_unfold. tauto.
  - destruct (gal_identity_q _ Hc) as [HL Hq]. generalize (Hquat 7%nat Hq). sqn_unfold. tauto.
  - destruct (sek1_identity_q _ Hc) as [HL Hq]. generalize (Hquat 3%nat Hq). sqn_unfold. tauto.
  - destruct (sek2_identity_q _ Hc) as [HL Hq]. generalize (Hquat 6%nat Hq). sqn_unfold. tauto.
  - destruct (sek3_identity_q _ Hc) as [HL Hq]. generalize (Hquat 9%nat Hq). sqn_unfold. tauto.
Qed.

(* ------------------------------------------------------------------ C01: documented-matrix meaning *)
Lemma comp_hom s g h out : good s g -> good s h -> comp_rel s g h out ->
  gmat s out = mmul (gmat s g) (gmat s h) /\ valid s out.
Proof.
  intros [Lg [Vg _]] [Lh [Vh _]] Hc.
  destruct s; explode Lg g; explode Lh h; cbn [valid gmat comp_rel] in *.
  - eapply C01_SO2.so2_comp_hom; eassumption.
  - eapply C01_SO3.so3_comp_hom; eassumption.
  - eapply C01_SE2.se2_comp_hom; eassumption.
  - eapply C01_SE3.se3_comp_hom; eassumption.
  - eapply C01_Galilei.gal_comp_hom; eassumption.
  - eapply C01_SEK3_1.sek1_comp_hom; eassumption.
  - eapply C01_SEK3_2.sek2_comp_hom; eassumption.
  - eapply C01_SEK3_3.sek3_comp_hom; eassumption.
Qed.

Lemma inv_hom s g out : good s g -> inv_rel s g out ->
  mmul (gmat s out) (gmat s g) = mI (dim s) /\ mmul (gmat s g) (gmat s out) = mI (dim s) /\ valid s out.
Proof.
  intros [Lg [Vg _]] Hc.
  destruct s; explode Lg g; cbn [valid gmat inv_rel dim] in *.
  - eapply C01_SO2.so2_inv_doc; eassumption.
  - eapply C01_SO3.so3_inv_doc; eassumption.
  - eapply C01_SE2.se2_inv_doc; eassumption.
  - eapply C01_SE3.se3_inv_doc; eassumption.
  - eapply C01_Galilei.gal_inv_doc; eassumption.
  - eapply C01_SEK3_1.sek1_inv_doc; eassumption.
  - eapply C01_SEK3_2.sek2_inv_doc; eassumption.
  - eapply C01_SEK3_3.sek3_inv_doc; eassumption.
Qed.

(* ------------------------------------------------------------------ constructors and conversions *)
Lemma sign_fix_facts a b c d out : sign_fix [a; b; c; d] out ->
  length out = 4%nat /\ 0 <= nth 3 out 0 /\ qn out = n4 a b c d.
Proof.
  unfold sign_fix, qn, n4. cbn [nth]. intros [[Hneg ->] | [Hpos ->]]; unfold vscale; cbn [map nth length].
  - repeat split; [lra | ring].
  - repeat split; lra.
Qed.

Lemma good_so3_of a b c d out : sign_fix [a; b; c; d] out -> n4 a b c d = 1 -> good SO3 out.
Proof.
  intros Hs HN. destruct (sign_fix_facts _ _ _ _ _ Hs) as [HL [HC HQ]]. unfold good. cbn [rep]. split; [exact HL|].
  split; [apply valid_sqn; revert HQ; sqn_unfold; intros HQ; rewrite HQ; exact HN | revert HC; sqn_unfold; tauto].
Qed.

Lemma so3_quat_ctor_good args out : so3_quat_ctor args out -> good SO3 out.
Proof.
  unfold so3_quat_ctor. cbv zeta. intros [Hz Hs]. eapply good_so3_of; [exact Hs|]. unfold n4.
  set (zz := nth 0 args 0 * nth 0 args 0 + nth 1 args 0 * nth 1 args 0 + nth 2 args 0 * nth 2 args 0 + nth 3 args 0 * nth 3 args 0) in *.
  assert (Hs2 : sqrt zz * sqrt zz = zz) by (apply sqrt_sqrt; lra).
  assert (Hne : sqrt zz <> 0) by (intro H0; rewrite H0 in Hs2; lra).
  replace (nth 0 args 0 / sqrt zz * (nth 0 args 0 / sqrt zz) + nth 1 args 0 / sqrt zz * (nth 1 args 0 / sqrt zz)
           + nth 2 args 0 / sqrt zz * (nth 2 args 0 / sqrt zz) + nth 3 args 0 / sqrt zz * (nth 3 args 0 / sqrt zz))
    with (zz / (sqrt zz * sqrt zz)) by (unfold zz; field; exact Hne).
  rewrite Hs2. field. lra.
Qed.

Lemma so3_rot_ctor_good ax args out : so3_rot_ctor ax args out -> good SO3 out.
Proof.
  unfold so3_rot_ctor. cbv zeta. intros Hs.
  pose proof (sin2_cos2 (nth 0 args 0 / 2)) as Hsc. unfold Rsqr in Hsc.
  destruct ax as [|[|ax]]; (eapply good_so3_of; [exact Hs|]); unfold n4; lra.
Qed.

Lemma so2_angle_ctor_good args out : so2_angle_ctor args out -> good SO2 out.
Proof.
  unfold so2_angle_ctor. cbv zeta. intros ->. unfold good. cbn [rep length]. split; [reflexivity|]. split; [|exact I].
  apply valid_sqn. sqn_unfold. pose proof (sin2_cos2 (nth 0 args 0)) as Hsc. unfold Rsqr in Hsc. exact Hsc.
Qed.

Lemma so2_coef_ctor_good args out : so2_coef_ctor args out -> good SO2 out.
Proof.
  unfold so2_coef_ctor. cbv zeta. intros [Hz ->]. unfold good. cbn [rep length]. split; [reflexivity|]. split; [|exact I].
  apply valid_sqn. sqn_unfold.
  set (zz := nth 1 args 0 * nth 1 args 0 + nth 0 args 0 * nth 0 args 0) in *.
  assert (Hs2 : sqrt zz * sqrt zz = zz) by (apply sqrt_sqrt; lra).
  assert (Hne : sqrt zz <> 0) by (intro H0; rewrite H0 in Hs2; lra).
  replace (nth 0 args 0 / sqrt zz * (nth 0 args 0 / sqrt zz) + nth 1 args 0 / sqrt zz * (nth 1 args 0 / sqrt zz))
    with (zz / (sqrt zz * sqrt zz)) by (unfold zz; field; exact Hne).
  rewrite Hs2. field. lra.
Qed.

Lemma good_sqn s q : good s q -> sqn s q = 1.
Proof. intros [_ [Hv _]]. apply valid_sqn. exact Hv. Qed.

Lemma ctor_good k args out : ctor_rel k args out -> good (ksort k) out.
Proof.
  destruct k; cbn [ctor_rel ksort]; intros H.
  - destruct (id_facts _ _ H) as [HL [HC HN]]. split; [exact HL|]. split; [apply valid_sqn; exact HN | exact HC].
  - apply so3_quat_ctor_good with args; exact H.
  - apply so3_rot_ctor_good with axis args; exact H.
  - apply so2_angle_ctor_good with args; exact H.
  - apply so2_coef_ctor_good with args; exact H.
Qed.

Lemma conv_good c g out : good (csrc c) g -> conv_rel c g out -> good (cdst c) out.
Proof.
  destruct c; cbn [conv_rel csrc cdst]; intros Hg H.
  - subst out. exact Hg.
  - destruct H as [l [_ H]]. cbv zeta in H. eapply so3_quat_ctor_good; exact H.
  - unfold proj_so2 in H. cbv zeta in H. eapply so2_angle_ctor_good; exact H.
  - destruct H as [q [[l [_ Hq]] ->]]. cbv zeta in Hq. apply so3_quat_ctor_good in Hq.
    destruct Hq as [HL [HV HC]]. explode HL q. unfold good. cbn [rep app length]. split; [reflexivity|].
    split; [revert HV | revert HC]; unfold valid; doc_unfold; sqn_unfold; tauto.
  - destruct H as [q [Hq ->]]. unfold proj_so2 in Hq. cbv zeta in Hq. apply so2_angle_ctor_good in Hq.
    destruct Hq as [HL [HV HC]]. explode HL q. unfold good. cbn [rep app length]. split; [reflexivity|].
    split; [revert HV | exact I]; unfold valid; doc_unfold; sqn_unfold; tauto.
Qed.

(* ================================================================== exact semantics *)
Notation exact := (fun (_ : sort) (a b : list R) => a = b).
Notation exactm := (fun (_ : sort) (a b : mat) => a = b).

Lemma X_comp s g h out : good s g -> good s h -> w_comp WcodeX s g h out ->
  good s out /\ w_comp Wspec s (gmat s g) (gmat s h) (gmat s out).
Proof.
  cbn [w_comp WcodeX Wspec]. intros Hg Hh Hc.
  destruct (comp_hom _ _ _ _ Hg Hh Hc) as [Hm Hv]. destruct (comp_facts _ _ _ _ Hc) as [HL [HC _]].
  split; [repeat split; assumption | exact Hm].
Qed.

Lemma X_inv s g out : good s g -> w_inv WcodeX s g out ->
  good s out /\ w_inv Wspec s (gmat s g) (gmat s out).
Proof.
  cbn [w_inv WcodeX Wspec]. intros Hg Hc.
  destruct (inv_hom _ _ _ Hg Hc) as [H1 [H2 Hv]].
  assert (Hp : 0 < sqn s g) by (rewrite (good_sqn _ _ Hg); lra).
  destruct (inv_facts _ _ _ Hp Hc) as [HL [HC _]]. destruct Hg as [_ [_ Hcg]].
  split; [repeat split; [exact HL | exact Hv | exact (HC Hcg)] | split; assumption].
Qed.

Lemma X_exp s a out : w_exp WcodeX s a out -> good s out /\ w_exp Wspec s a (gmat s out).
Proof.
  cbn [w_exp WcodeX Wspec]. intros [Ht Hc]. destruct (exp_facts _ _ _ Hc) as [HL [HC [_ HN]]].
  split; [repeat split; [exact HL | apply valid_sqn; exact (HN Ht) | exact HC] | exists out; split; [exact Hc | reflexivity]].
Qed.

Lemma X_conv c g out : good (csrc c) g -> w_conv WcodeX c g out ->
  good (cdst c) out /\ w_conv Wspec c (gmat (csrc c) g) (gmat (cdst c) out).
Proof.
  cbn [w_conv WcodeX Wspec]. intros Hg Hc. split; [exact (conv_good _ _ _ Hg Hc)|].
  exists g, out. repeat split; assumption.
Qed.

Lemma X_ctor k args out : w_ctor WcodeX k args out ->
  good (ksort k) out /\ w_ctor Wspec k args (gmat (ksort k) out).
Proof.
  cbn [w_ctor WcodeX Wspec]. intros Hc. split; [exact (ctor_good _ _ _ Hc)|]. exists out. split; [exact Hc | reflexivity].
Qed.

(* every reachable element of every program is valid and canonical, and its documented matrix is the
   group-theoretic value (products / inverses of documented matrices) of the same program *)
Theorem history_exact p st' :
  run csrc cdst ksort WcodeX exact empty p st' ->
  good_state sort (list R) good st' /\
  exists sst', run csrc cdst ksort Wspec exactm empty p sst' /\ rel sort (list R) mat gmat st' sst'.
Proof.
  intros Hrun.
  exact (run_sim sort conv ctor csrc cdst ksort (list R) mat WcodeX Wspec good gmat
           X_comp X_inv X_exp X_conv X_ctor p empty st' empty Hrun
           (good_empty sort (list R) good) (rel_empty sort (list R) mat gmat)).
Qed.

Theorem history_exact_intermediate p1 p2 st' :
  run csrc cdst ksort WcodeX exact empty (p1 ++ p2) st' ->
  exists st1, run csrc cdst ksort WcodeX exact empty p1 st1 /\ good_state sort (list R) good st1 /\
    exists sst1, run csrc cdst ksort Wspec exactm empty p1 sst1 /\ rel sort (list R) mat gmat st1 sst1.
Proof.
  intros Hrun.
  exact (every_intermediate_good sort conv ctor csrc cdst ksort (list R) mat WcodeX Wspec good gmat
           X_comp X_inv X_exp X_conv X_ctor p1 p2 st' Hrun).
Qed.

(* ================================================================== perturbation semantics *)
Definition eT : R := 2 / 1000000000000000000.            (* |ln N| of a fresh exp result: 2 * theta^4/192 <= 2e-18 *)
Definition eR (e : R) : R := 2 * e + 8 * (e * e).          (* effect on ln N of one stored result with relative error e *)

Lemma store_ratio4 e a b c d a' b' c' d' sg : 0 <= e -> sg = 1 \/ sg = -1 ->
  n4 (a' - sg * a) (b' - sg * b) (c' - sg * c) (d' - sg * d) <= e * e * n4 a b c d ->
  (1 - 2 * e) * n4 a b c d <= n4 a' b' c' d' <= (1 + e) * (1 + e) * n4 a b c d.
Proof.
  intros He [-> | ->] H.
  - apply close4_ratio; [exact He|]. replace (a' - a) with (a' - 1 * a) by ring. replace (b' - b) with (b' - 1 * b) by ring.
    replace (c' - c) with (c' - 1 * c) by ring. replace (d' - d) with (d' - 1 * d) by ring. exact H.
  - rewrite <- (n4_neg a b c d). apply close4_ratio; [exact He|]. rewrite n4_neg.
    replace (a' - - a) with (a' - -1 * a) by ring. replace (b' - - b) with (b' - -1 * b) by ring.
    replace (c' - - c) with (c' - -1 * c) by ring. replace (d' - - d) with (d' - -1 * d) by ring. exact H.
Qed.

Lemma store_ratio s e out q : 0 <= e -> store_pert e s out q ->
  (1 - 2 * e) * sqn s out <= sqn s q <= (1 + e) * (1 + e) * sqn s out.
Proof.
  intros He Hs. unfold store_pert, qdist2, sqn in *. destruct (planar s).
  - set (k := qoff s) in *.
    pose proof (store_ratio4 e (nth k out 0) (nth (k + 1) out 0) 0 0 (nth k q 0) (nth (k + 1) q 0) 0 0) as H4.
    unfold n4 in H4. rewrite Nat.add_0_r in Hs.
    destruct Hs as [Hs | Hs]; [specialize (H4 1 He (or_introl eq_refl)) | specialize (H4 (-1) He (or_intror eq_refl))];
      (assert (Hres : (1 - 2 * e) * (nth k out 0 * nth k out 0 + nth (k + 1) out 0 * nth (k + 1) out 0 + 0 * 0 + 0 * 0) <=
                      nth k q 0 * nth k q 0 + nth (k + 1) q 0 * nth (k + 1) q 0 + 0 * 0 + 0 * 0 <=
                      (1 + e) * (1 + e) * (nth k out 0 * nth k out 0 + nth (k + 1) out 0 * nth (k + 1) out 0 + 0 * 0 + 0 * 0))
         by (apply H4; lra)); lra.
  - set (k := qoff s) in *. rewrite Nat.add_0_r in Hs.
    destruct Hs as [Hs | Hs]; [apply (store_ratio4 e _ _ _ _ _ _ _ _ 1 He (or_introl eq_refl)) |
                               apply (store_ratio4 e _ _ _ _ _ _ _ _ (-1) He (or_intror eq_refl))]; exact Hs.
Qed.

Section DevInst.
  Variable e : R.
  Hypothesis He : 0 <= e <= 1 / 4.

  Lemma P_store s out q : store_pert e s out q -> 0 < sqn s out ->
    0 < sqn s q /\ Rabs (ln (sqn s q) - ln (sqn s out)) <= eR e.
  Proof.
    intros Hs Hp. apply ln_ratio_bound; [exact Hp | exact He | apply store_ratio; [lra | exact Hs]].
  Qed.

  Lemma P_comp s g h out : 0 < sqn s g -> 0 < sqn s h -> w_comp Wcode s g h out -> sqn s out = sqn s g * sqn s h.
  Proof. cbn [w_comp Wcode]. intros _ _ Hc. destruct (comp_facts _ _ _ _ Hc) as [_ [_ H]]. exact H. Qed.

  Lemma P_inv s g out : 0 < sqn s g -> w_inv Wcode s g out ->
    0 < sqn s out /\ Rabs (ln (sqn s out)) <= Rabs (ln (sqn s g)).
  Proof. cbn [w_inv Wcode]. intros Hp Hc. destruct (inv_facts _ _ _ Hp Hc) as [_ [_ [H1 [H2 _]]]]. split; assumption. Qed.

  Lemma near1 x : Rabs (x - 1) <= 1 / 1000000000000000000 -> 0 < x /\ Rabs (ln x) <= eT.
  Proof. intros H. destruct (abs_ln_near1 _ _ H) as [H1 H2]; [lra|]. split; [exact H1|]. unfold eT. lra. Qed.

  Lemma one_ok x : x = 1 -> 0 < x /\ Rabs (ln x) <= eT.
  Proof. intros ->. rewrite ln_1, Rabs_R0. unfold eT. lra. Qed.

  Lemma P_exp s a out : w_exp Wcode s a out -> 0 < sqn s out /\ Rabs (ln (sqn s out)) <= eT.
  Proof. cbn [w_exp Wcode]. intros Hc. destruct (exp_facts _ _ _ Hc) as [_ [_ [H _]]]. apply near1. exact H. Qed.

  Lemma P_ctor k args out : w_ctor Wcode k args out ->
    0 < sqn (ksort k) out /\ Rabs (ln (sqn (ksort k) out)) <= eT.
  Proof. cbn [w_ctor Wcode]. intros Hc. apply one_ok. apply good_sqn. exact (ctor_good _ _ _ Hc). Qed.

  Lemma P_conv c g out : w_conv Wcode c g out -> 0 < sqn (csrc c) g ->
    0 < sqn (cdst c) out /\
    Rabs (ln (sqn (cdst c) out)) <= (if conv_fresh c then eT else Rabs (ln (sqn (csrc c) g))).
  Proof.
    cbn [w_conv Wcode]. intros Hc Hp. destruct c; cbn [conv_rel conv_fresh csrc cdst] in *.
    - subst out. split; [exact Hp | lra].
    - destruct Hc as [l [_ H]]. cbv zeta in H. apply one_ok. apply good_sqn. eapply so3_quat_ctor_good; exact H.
    - unfold proj_so2 in Hc. cbv zeta in Hc. apply one_ok. apply good_sqn. eapply so2_angle_ctor_good; exact Hc.
    - destruct Hc as [q [[l [_ Hq]] ->]]. cbv zeta in Hq. apply so3_quat_ctor_good in Hq.
      pose proof (good_sqn _ _ Hq) as HN. destruct Hq as [HL _]. explode HL q. apply one_ok. revert HN. sqn_unfold. cbn [app nth]. tauto.
    - destruct Hc as [q [Hq ->]]. unfold proj_so2 in Hq. cbv zeta in Hq. apply so2_angle_ctor_good in Hq.
      pose proof (good_sqn _ _ Hq) as HN. destruct Hq as [HL _]. explode HL q. apply one_ok. revert HN. sqn_unfold. cbn [app nth]. tauto.
  Qed.

  Lemma eT_nonneg : 0 <= eT. Proof. unfold eT; lra. Qed.
  Lemma eR_nonneg : 0 <= eR e. Proof. unfold eR. nra. Qed.

  (* norm_dev_tree on the generated code: deviation of the constraint after ANY program, in terms of the size of
     the unfolded expression tree of the register *)
  Theorem norm_dev_tree_inst p st' r s q :
    run csrc cdst ksort Wcode (store_pert e) empty p st' -> st' r = Some (s, q) ->
    let K := IZR (tsize conv_fresh p (fun _ => 0%Z) r) * (eT + eR e) in
    K <= 1 / 2 -> Rabs (sqn s q - 1) <= K * (1 + 2 * K).
  Proof.
    exact (norm_dev_tree sort conv ctor csrc cdst ksort (list R) Wcode (store_pert e) conv_fresh sqn eT (eR e)
             eT_nonneg eR_nonneg P_comp P_inv P_exp P_ctor P_conv P_store p st' r s q).
  Qed.

  (* the property's bound for linear histories: stored results with relative error e <= 1e-15 (about 9 u) *)
  Theorem norm_dev_linear_inst p st' r s q :
    e <= 1 / 1000000000000000 ->
    (Z.of_nat (length p) <= 1000000000000)%Z ->
    linear conv_fresh p (fun _ => false) = true ->
    run csrc cdst ksort Wcode (store_pert e) empty p st' -> st' r = Some (s, q) ->
    Rabs (sqn s q - 1) <= (INR (length p) + 1) * (1 / 100000000000000).
  Proof.
    intros Hsmall.
    apply (norm_dev_linear_histories sort conv ctor csrc cdst ksort (list R) Wcode (store_pert e) conv_fresh sqn eT (eR e)
             eT_nonneg eR_nonneg P_comp P_inv P_exp P_ctor P_conv P_store p st' r s q).
    unfold eT, eR. destruct He as [He0 _]. nra.
  Qed.
End DevInst.

(* ================================================================== x := x * x : the bound is exponential, really *)
Definition u53 : R := / 9007199254740992.     (* 2^-53, unit roundoff of binary64 *)

Lemma sqn_w w : sqn SO3 [0; 0; 0; w] = w * w.
Proof. sqn_unfold. ring. Qed.

Lemma squaring_step e w st :
  st 0%nat = Some (SO3, [0; 0; 0; w]) ->
  step csrc cdst ksort Wcode (store_pert e) st (OComp 0%nat 0%nat 0%nat) (upd st 0%nat (SO3, [0; 0; 0; w * w])).
Proof.
  intros Hst. econstructor; [exact Hst | exact Hst|].
  exists (so3_comp_p0 [0; 0; 0; w] [0; 0; 0; w]). split.
  - cbn [w_comp Wcode comp_rel]. left. split; [|reflexivity].
    unfold so3_comp_c0. cbv zeta. cbn [nth]. split; [|exact I]. pose proof (Rle_0_sqr w) as Hw. unfold Rsqr in Hw. lra.
  - left. unfold qdist2, sqn, so3_comp_p0. cbv zeta. cbn [planar qoff nth Nat.add].
    match goal with |- ?l <= _ => replace l with 0 by ring end.
    apply Rmult_le_pos; [apply Rle_0_sqr|].
    match goal with |- 0 <= ?r => replace r with ((w * w) * (w * w)) by ring end. apply Rle_0_sqr.
Qed.

Lemma squaring_run e n : forall w st,
  st 0%nat = Some (SO3, [0; 0; 0; w]) ->
  exists st', run csrc cdst ksort Wcode (store_pert e) st (squaring n) st' /\
              st' 0%nat = Some (SO3, [0; 0; 0; w ^ (2 ^ n)]).
Proof.
  induction n as [|n IH]; intros w st Hst.
  - exists st. split; [constructor|]. replace (w ^ (2 ^ 0)) with w by (cbn; ring). exact Hst.
  - destruct (IH (w * w) (upd st 0%nat (SO3, [0; 0; 0; w * w])) eq_refl) as [st' [Hrun Hfin]].
    exists st'. split.
    + unfold squaring. cbn [repeat]. econstructor; [apply squaring_step; exact Hst | exact Hrun].
    + replace (w ^ (2 ^ S n)) with ((w * w) ^ (2 ^ n)); [exact Hfin|].
      replace (w * w) with (w ^ 2) by ring. rewrite <- pow_mult. f_equal.
Qed.

(* the perturbation pattern: Identity stored with one relative error e in q_w, every product exact;
   after n squarings  ||q||^2 - 1 >= 2^(n+1) e *)
Theorem norm_dev_squaring_growth e n : 0 < e ->
  exists st' q, run csrc cdst ksort Wcode (store_pert e) empty (sq_prog n) st' /\
                st' 0%nat = Some (SO3, q) /\ INR (2 ^ S n) * e <= sqn SO3 q - 1.
Proof.
  intros He.
  destruct (squaring_run e n (1 + e) (upd empty 0%nat (SO3, [0; 0; 0; 1 + e])) eq_refl) as [st' [Hrun Hfin]].
  exists st', [0; 0; 0; (1 + e) ^ (2 ^ n)]. split; [|split; [exact Hfin|]].
  - unfold sq_prog. econstructor; [|exact Hrun]. eapply S_ctor with (out := [0; 0; 0; 1]).
    + cbn [w_ctor Wcode ctor_rel id_rel]. split; [exact I | reflexivity].
    + left. unfold qdist2, sqn. cbn [ksort planar qoff nth Nat.add]. nra.
  - rewrite sqn_w. replace ((1 + e) ^ (2 ^ n) * (1 + e) ^ (2 ^ n)) with ((1 + e) ^ (2 ^ S n)).
    + pose proof (poly (2 ^ S n) e He). lra.
    + cbn [Nat.pow]. replace (2 * 2 ^ n)%nat with (2 ^ n + 2 ^ n)%nat by lia. rewrite pow_add. reflexivity.
Qed.

(* refutation of the property's linear bound in the perturbation model of binary64: 16 operations
   (Identity, 15 squarings), one half-ulp error, deviation > (n+1) 1e-14 *)
Theorem norm_dev_squaring_refuted :
  exists st' q, run csrc cdst ksort Wcode (store_pert u53) empty (sq_prog 15) st' /\
                st' 0%nat = Some (SO3, q) /\
                sqn SO3 q - 1 > (INR (length (sq_prog 15)) + 1) * (1 / 100000000000000).
Proof.
  assert (Hu : 0 < u53) by (unfold u53; apply Rinv_0_lt_compat; lra).
  destruct (norm_dev_squaring_growth u53 15 Hu) as [st' [q [Hrun [Hq Hdev]]]].
  exists st', q. split; [exact Hrun|]. split; [exact Hq|].
  replace (INR (length (sq_prog 15))) with 16.
  2:{ unfold sq_prog, squaring. cbn [length]. rewrite repeat_length. rewrite S_INR. cbn [INR]. lra. }
  assert (H2 : INR (2 ^ 16) = 65536) by (rewrite pow_INR; cbn [pow INR]; lra).
  rewrite H2 in Hdev. unfold u53 in *. lra.
Qed.

(* the same program is outside the linear class and its unfolded tree is exponential *)
Lemma squaring_not_linear :
  linear conv_fresh (sq_prog 15) (fun _ => false) = false.
Proof. reflexivity. Qed.
Lemma squaring_tsize :
  tsize conv_fresh (sq_prog 15) (fun _ => 0%Z) 0%nat = 65535%Z.
Proof. vm_compute. reflexivity. Qed.

(* ================================================================== non-vacuity *)
(* the exact-semantics theorem is about runs that exist: Identity; x1 := x0 * x0; x2 := x1^-1; x3 := x2 + a *)
Example history_exact_inhabited :
  exists st', run csrc cdst ksort WcodeX exact empty
    [OCtor 0%nat (KId SO3) []; OComp 1%nat 0%nat 0%nat; OInv 2%nat 1%nat; OExp 3%nat SO2 [1]] st'.
Proof.
  eexists. econstructor.
  { eapply S_ctor with (out := [0; 0; 0; 1]); [split; [exact I | reflexivity] | reflexivity]. }
  econstructor.
  { eapply S_comp with (s := SO3) (g := [0; 0; 0; 1]) (h := [0; 0; 0; 1]) (q := so3_comp_p0 [0; 0; 0; 1] [0; 0; 0; 1]); [reflexivity | reflexivity|].
    exists (so3_comp_p0 [0; 0; 0; 1] [0; 0; 0; 1]). split; [|reflexivity]. left. split; [|reflexivity].
    unfold so3_comp_c0. cbv zeta. cbn [nth]. split; [lra | exact I]. }
  econstructor.
  { eapply S_inv with (s := SO3) (g := so3_comp_p0 [0; 0; 0; 1] [0; 0; 0; 1]) (out := so3_inv_p1 (so3_comp_p0 [0; 0; 0; 1] [0; 0; 0; 1])); [reflexivity | | reflexivity].
    right. split; [|reflexivity]. unfold so3_inv_c1, so3_comp_p0. cbv zeta. cbn [nth]. split; [lra | exact I]. }
  econstructor.
  { apply S_exp. exists (so2_exp_p0 [1]). split; [|reflexivity]. split; [exact I|]. split; [exact I | reflexivity]. }
  constructor.
Qed.

Example dev_hypotheses_inhabited : 0 <= / 9007199254740992 <= 1 / 4.
Proof. split; [left; apply Rinv_0_lt_compat; lra|]. apply Rmult_le_reg_l with 9007199254740992; [lra|]. rewrite Rinv_r by lra. lra. Qed.
