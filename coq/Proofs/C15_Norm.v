(* Property C15 - real-analysis lemmas for the perturbation model: logarithm of the squared norm,
   effect of a norm-wise relative perturbation of the stored coefficients. *)
From Coq Require Import Reals List Lra Lia Psatz.
Import ListNotations.
Local Open Scope R_scope.

Lemma Rabs_le_inv a b : Rabs a <= b -> - b <= a <= b.
Proof. unfold Rabs. destruct (Rcase_abs a); lra. Qed.

Lemma ln_le_sub1 x : 0 < x -> ln x <= x - 1.
Proof.
  intros Hx. pose proof (exp_ineq1_le (ln x)) as H. rewrite exp_ln in H by exact Hx. lra.
Qed.

Lemma ln_ge_inv x : 0 < x -> 1 - / x <= ln x.
Proof.
  intros Hx. assert (Hi : 0 < / x) by (apply Rinv_0_lt_compat; exact Hx).
  pose proof (ln_le_sub1 (/ x) Hi) as H. rewrite ln_Rinv in H by exact Hx. lra.
Qed.

(* |x - 1| <= d <= 1/2  ->  |ln x| <= 2 d *)
Lemma abs_ln_near1 x d : Rabs (x - 1) <= d -> d <= 1/2 -> 0 < x /\ Rabs (ln x) <= 2 * d.
Proof.
  intros Hd Hh. apply Rabs_le_inv in Hd. assert (Hx : 0 < x) by lra. split; [exact Hx|].
  pose proof (ln_le_sub1 x Hx) as Hu. pose proof (ln_ge_inv x Hx) as Hl.
  assert (Hinv : / x <= 1 + 2 * d).
  { apply Rmult_le_reg_l with x; [exact Hx|]. rewrite Rinv_r by lra. nra. }
  apply Rabs_le. lra.
Qed.

(* from the logarithm back to the deviation of the squared norm: the "(1 + o(1))" of norm_dev_tree *)
Lemma dev_of_log N K : 0 < N -> Rabs (ln N) <= K -> K <= 1/2 -> Rabs (N - 1) <= K * (1 + 2 * K).
Proof.
  intros HN HK Hh. apply Rabs_le_inv in HK. assert (HK0 : 0 <= K) by lra.
  assert (Hlo : 1 - K <= N).
  { pose proof (exp_ineq1_le (- K)) as H1.
    assert (exp (- K) <= exp (ln N)).
    { destruct (Req_dec (- K) (ln N)) as [->|Hne]; [lra|]. left. apply exp_increasing. lra. }
    rewrite exp_ln in H by exact HN. lra. }
  assert (Hup : N * (1 - K) <= 1).
  { assert (Hle : N <= exp K).
    { rewrite <- (exp_ln N HN). destruct (Req_dec (ln N) K) as [->|Hne]; [lra|]. left. apply exp_increasing. lra. }
    pose proof (exp_ineq1_le (- K)) as H1. rewrite exp_Ropp in H1.
    assert (Hek : 0 < exp K) by apply exp_pos.
    assert (exp K * (1 - K) <= 1).
    { apply Rmult_le_reg_l with (/ exp K); [apply Rinv_0_lt_compat; exact Hek|].
      rewrite <- Rmult_assoc, Rinv_l by lra. lra. }
    nra. }
  apply Rabs_le. split; nra.
Qed.

(* ratio form of a stored-result perturbation *)
Lemma ln_ratio_bound A A' e :
  0 < A -> 0 <= e <= 1/4 -> (1 - 2 * e) * A <= A' <= (1 + e) * (1 + e) * A ->
  0 < A' /\ Rabs (ln A' - ln A) <= 2 * e + 8 * (e * e).
Proof.
  intros HA He [Hlo Hup]. assert (HA' : 0 < A') by nra. split; [exact HA'|].
  set (r := A' / A). assert (Hr : 0 < r) by (apply Rdiv_lt_0_compat; assumption).
  assert (Hrlo : 1 - 2 * e <= r).
  { unfold r. apply Rmult_le_reg_r with A; [exact HA|]. unfold Rdiv. rewrite Rmult_assoc, Rinv_l by lra. lra. }
  assert (Hrup : r <= (1 + e) * (1 + e)).
  { unfold r. apply Rmult_le_reg_r with A; [exact HA|]. unfold Rdiv. rewrite Rmult_assoc, Rinv_l by lra. lra. }
  assert (Hln : ln A' - ln A = ln r).
  { unfold r, Rdiv. rewrite ln_mult by (try assumption; apply Rinv_0_lt_compat; exact HA).
    rewrite ln_Rinv by exact HA. ring. }
  rewrite Hln. pose proof (ln_le_sub1 r Hr) as Hu. pose proof (ln_ge_inv r Hr) as Hl.
  assert (Hinv : / r <= 1 + 2 * e + 8 * (e * e)).
  { apply Rmult_le_reg_l with r; [exact Hr|]. rewrite Rinv_r by lra. nra. }
  apply Rabs_le. split; nra.
Qed.

(* ------------------------------------------------------------------ squared norms *)
Definition n2 (a b : R) : R := a * a + b * b.
Definition n4 (a b c d : R) : R := a * a + b * b + c * c + d * d.

Lemma n4_nonneg a b c d : 0 <= n4 a b c d.
Proof.
  unfold n4. pose proof (Rle_0_sqr a). pose proof (Rle_0_sqr b). pose proof (Rle_0_sqr c). pose proof (Rle_0_sqr d).
  unfold Rsqr in *. lra.
Qed.

Lemma cs4 a b c d x y z w :
  (a * x + b * y + c * z + d * w) * (a * x + b * y + c * z + d * w) <= n4 a b c d * n4 x y z w.
Proof.
  unfold n4.
  assert (H : (a*a + b*b + c*c + d*d) * (x*x + y*y + z*z + w*w) - (a*x + b*y + c*z + d*w) * (a*x + b*y + c*z + d*w)
              = (a*y - b*x) * (a*y - b*x) + (a*z - c*x) * (a*z - c*x) + (a*w - d*x) * (a*w - d*x)
                + (b*z - c*y) * (b*z - c*y) + (b*w - d*y) * (b*w - d*y) + (c*w - d*z) * (c*w - d*z)) by ring.
  pose proof (Rle_0_sqr (a*y - b*x)). pose proof (Rle_0_sqr (a*z - c*x)). pose proof (Rle_0_sqr (a*w - d*x)).
  pose proof (Rle_0_sqr (b*z - c*y)). pose proof (Rle_0_sqr (b*w - d*y)). pose proof (Rle_0_sqr (c*w - d*z)).
  unfold Rsqr in *. lra.
Qed.

(* |C| <= e A  from  C^2 <= A D, D <= e^2 A *)
Lemma cross_bound A D C e : 0 <= A -> 0 <= e -> 0 <= D -> C * C <= A * D -> D <= e * e * A -> - (e * A) <= C <= e * A.
Proof.
  intros HA He HD HC HDe.
  assert (H : C * C <= (e * A) * (e * A)) by nra.
  assert (HB : 0 <= e * A) by nra.
  generalize dependent (e * A). intros B HCB HB.
  split; apply Rnot_lt_le; intro Hlt.
  - assert (B * B < C * C) by nra. lra.
  - assert (B * B < C * C) by nra. lra.
Qed.

(* norm-wise perturbation of a 4-vector: n4 (q' - q) <= e^2 n4 q *)
Lemma close4_ratio e a b c d a' b' c' d' :
  0 <= e ->
  n4 (a' - a) (b' - b) (c' - c) (d' - d) <= e * e * n4 a b c d ->
  (1 - 2 * e) * n4 a b c d <= n4 a' b' c' d' <= (1 + e) * (1 + e) * n4 a b c d.
Proof.
  intros He Hd.
  set (A := n4 a b c d) in *. set (D := n4 (a' - a) (b' - b) (c' - c) (d' - d)) in *.
  set (C := a * (a' - a) + b * (b' - b) + c * (c' - c) + d * (d' - d)).
  assert (HA : 0 <= A) by apply n4_nonneg.
  assert (HD : 0 <= D) by apply n4_nonneg.
  assert (HC : C * C <= A * D) by (unfold C, A, D; apply cs4).
  assert (Hexp : n4 a' b' c' d' = A + 2 * C + D) by (unfold A, C, D, n4; ring).
  pose proof (cross_bound A D C e HA He HD HC Hd) as [Hc1 Hc2].
  rewrite Hexp. split; nra.
Qed.

Lemma close2_ratio e a b a' b' :
  0 <= e ->
  n2 (a' - a) (b' - b) <= e * e * n2 a b ->
  (1 - 2 * e) * n2 a b <= n2 a' b' <= (1 + e) * (1 + e) * n2 a b.
Proof.
  intros He Hd.
  pose proof (close4_ratio e a b 0 0 a' b' 0 0 He) as H. unfold n4, n2 in *.
  replace ((a' - a) * (a' - a) + (b' - b) * (b' - b) + (0 - 0) * (0 - 0) + (0 - 0) * (0 - 0))
    with ((a' - a) * (a' - a) + (b' - b) * (b' - b)) in H by ring.
  replace (a * a + b * b + 0 * 0 + 0 * 0) with (a * a + b * b) in H by ring.
  replace (a' * a' + b' * b' + 0 * 0 + 0 * 0) with (a' * a' + b' * b') in H by ring.
  apply H; exact Hd.
Qed.

(* component-wise relative errors are a special case of the norm-wise perturbation *)
Lemma rel_close4 e a b c d da db dc dd :
  Rabs da <= e -> Rabs db <= e -> Rabs dc <= e -> Rabs dd <= e ->
  n4 (a * (1 + da) - a) (b * (1 + db) - b) (c * (1 + dc) - c) (d * (1 + dd) - d) <= e * e * n4 a b c d.
Proof.
  intros Ha Hb Hc Hd. apply Rabs_le_inv in Ha, Hb, Hc, Hd. unfold n4.
  assert (da * da <= e * e) by nra. assert (db * db <= e * e) by nra.
  assert (dc * dc <= e * e) by nra. assert (dd * dd <= e * e) by nra.
  replace (a * (1 + da) - a) with (a * da) by ring. replace (b * (1 + db) - b) with (b * db) by ring.
  replace (c * (1 + dc) - c) with (c * dc) by ring. replace (d * (1 + dd) - d) with (d * dd) by ring.
  pose proof (Rle_0_sqr a). pose proof (Rle_0_sqr b). pose proof (Rle_0_sqr c). pose proof (Rle_0_sqr d).
  unfold Rsqr in *. nra.
Qed.

Lemma n4_neg a b c d : n4 (- a) (- b) (- c) (- d) = n4 a b c d.
Proof. unfold n4; ring. Qed.
