(* Property C15 - odeint_const_velocity instantiated for the generated SO2 code: the one-parameter-subgroup law
   is proved from the traced exp (sin/cos addition formulas).  For the other groups the law is the content of
   C02 (exp is the matrix exponential); the harness checks the statement on the real code for all groups. *)
From Coq Require Import Reals List ZArith Lra Lia.
From SV Require Import Base.GenPrelude Base.Mat Doc.Groups Base.Tactics Gen.SO2.
From SV Require Proofs.C01_SO2.
From SV Require Import Model.C15_History Model.C15_Groups.
From SV Require Import Proofs.C15_Norm Proofs.C15_SO3 Proofs.C15_Groups Proofs.C15_History Proofs.C15_Inst.
Import ListNotations.
Local Open Scope R_scope.

(* the code world restricted to programs whose exp calls are on SO2 elements *)
Definition Wso2 : world sort conv ctor (list R) :=
  Build_world comp_rel inv_rel (fun s a out => s = SO2 /\ exp_rel s a out) conv_rel ctor_rel.
Definition good2 (s : sort) (q : list R) : Prop := s = SO2 /\ good s q.
Definition smul2 (s : sort) (A B : mat) : mat := mmul A B.
Definition sexp2 (s : sort) (a : list R) : mat := so2_mat [sin (nth 0 a 0); cos (nth 0 a 0)].

Lemma nth0_vscale c v : nth 0 (vscale c v) 0 = c * nth 0 v 0.
Proof. unfold vscale. destruct v; cbn [map nth]; ring. Qed.

Lemma O2_comp s g h out : good2 s g -> good2 s h -> w_comp Wso2 s g h out ->
  good2 s out /\ gmat s out = smul2 s (gmat s g) (gmat s h).
Proof.
  cbn [w_comp Wso2]. intros [Hs Hg] [_ Hh] Hc.
  destruct (comp_hom _ _ _ _ Hg Hh Hc) as [Hm Hv]. destruct (comp_facts _ _ _ _ Hc) as [HL [HC _]].
  split; [split; [exact Hs | repeat split; assumption] | exact Hm].
Qed.

Lemma O2_exp s a out : w_exp Wso2 s a out -> good2 s out /\ gmat s out = sexp2 s a.
Proof.
  cbn [w_exp Wso2]. intros [-> Hc]. destruct (exp_facts _ _ _ Hc) as [HL [HC [_ HN]]].
  split; [split; [reflexivity | split; [exact HL | split; [apply valid_sqn; apply HN; exact I | exact HC]]]|].
  cbn [exp_rel] in Hc. rel_cases Hc. reflexivity.
Qed.

Lemma O2_flow s g v al be : good2 s g ->
  smul2 s (smul2 s (gmat s g) (sexp2 s (vscale al v))) (sexp2 s (vscale be v))
  = smul2 s (gmat s g) (sexp2 s (vscale (al + be) v)).
Proof.
  intros [-> [HL _]]. explode HL g. unfold smul2, sexp2. rewrite !nth0_vscale. cbn [gmat].
  rewrite Rmult_plus_distr_r, sin_plus, cos_plus. doc_unfold. mat_unfold. list_eq; ring.
Qed.

Lemma O2_flow0 s g v : good2 s g -> smul2 s (gmat s g) (sexp2 s (vscale 0 v)) = gmat s g.
Proof.
  intros [-> [HL _]]. explode HL g. unfold smul2, sexp2. rewrite nth0_vscale, Rmult_0_l, sin_0, cos_0. cbn [gmat].
  doc_unfold. mat_unfold. list_eq; ring.
Qed.

(* any explicit RK tableau with sum b = 1, any step count n, constant body velocity v on SO2:
   the traced code run through the scale_sum adaptor ends in x0 * exp(n dt v) exactly *)
Theorem odeint_const_velocity_so2 n dt A b v st st' x0 :
  (forall row, In row A -> row <> []) -> b <> [] -> rsum b = 1 ->
  good_state sort (list R) good2 st -> st 0%nat = Some (SO2, x0) ->
  run csrc cdst ksort Wso2 (fun _ => eq) st (rk_run n dt A b v) st' ->
  good_state sort (list R) good2 st' /\
  exists q, st' 0%nat = Some (SO2, q) /\
            so2_mat q = mmul (so2_mat x0) (so2_mat [sin (INR n * dt * nth 0 v 0); cos (INR n * dt * nth 0 v 0)]).
Proof.
  intros Hrows Hb Hsum Hgood Hx Hrun.
  destruct (odeint_const_velocity sort conv ctor csrc cdst ksort (list R) mat Wso2 good2 gmat smul2 sexp2
              O2_comp O2_exp O2_flow O2_flow0 n dt A b v st st' SO2 x0 Hrows Hb Hsum Hgood Hx Hrun) as [Hg [q [Hq Hm]]].
  split; [exact Hg|]. exists q. split; [exact Hq|]. cbn [gmat] in Hm. unfold smul2, sexp2 in Hm.
  rewrite nth0_vscale in Hm. exact Hm.
Qed.

(* non-vacuity: forward Euler (no stages, b = [1]), one step, from the Identity *)
Example odeint_so2_inhabited :
  exists st', run csrc cdst ksort Wso2 (fun _ => eq) (upd empty 0%nat (SO2, [0; 1])) (rk_run 1 (1/2) [] [1] [1]) st'.
Proof.
  eexists. cbn [rk_run rk_step map app]. econstructor; [|constructor].
  unfold rk_call. eapply S_scalesum with (s := SO2) (g := [0; 1]); [reflexivity|].
  eexists. split.
  - eexists. split; [|reflexivity]. cbn [w_exp Wso2]. split; [reflexivity|]. cbn [exp_rel]. split; [exact I | reflexivity].
  - eexists. split; [|reflexivity]. cbn [w_comp Wso2 comp_rel]. split; [exact I | reflexivity].
Qed.
