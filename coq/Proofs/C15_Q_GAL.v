(* Property C15 - the constrained part of the GENERATED GAL composition / inverse / exp is the generated
   SO3 operation on the constrained parts. *)
From Coq Require Import Reals List Lra.
From SV Require Import Base.GenPrelude Base.Mat Doc.Groups Base.Tactics.
From SV Require Import Gen.SO2 Gen.SO3 Gen.Galilei.
From SV Require Import Proofs.C15_Norm Proofs.C15_SO3 Proofs.C15_Groups.
Import ListNotations.
Local Open Scope R_scope.

Lemma gal_comp_q g h out : gal_comp_rel g h out -> length out = 11%nat /\ so3_comp_rel (qp 7 g) (qp 7 h) (qp 7 out).
Proof. intros Hrel. q_reduce Hrel. Qed.
Lemma gal_inv_q g out : gal_inv_rel g out -> length out = 11%nat /\ so3_inv_rel (qp 7 g) (qp 7 out).
Proof. intros Hrel. q_reduce Hrel. Qed.
Lemma gal_exp_q a out : gal_exp_rel a out -> length out = 11%nat /\ so3_exp_rel (tp 7 a) (qp 7 out).
Proof. intros Hrel. q_reduce Hrel. Qed.
Lemma gal_identity_q out : gal_identity_rel out -> length out = 11%nat /\ so3_identity_rel (qp 7 out).
Proof. intros Hrel. q_reduce Hrel. Qed.
