(* Property C15 - the constrained part of the GENERATED SE2 composition / inverse / exp is the generated
   SO2 operation on the constrained parts. *)
From Coq Require Import Reals List Lra.
From SV Require Import Base.GenPrelude Base.Mat Doc.Groups Base.Tactics.
From SV Require Import Gen.SO2 Gen.SO3 Gen.SE2.
From SV Require Import Proofs.C15_Norm Proofs.C15_SO3 Proofs.C15_Groups.
Import ListNotations.
Local Open Scope R_scope.

Lemma se2_comp_q g h out : se2_comp_rel g h out -> length out = 4%nat /\ so2_comp_rel (cp 2 g) (cp 2 h) (cp 2 out).
Proof. intros Hrel. q_reduce Hrel. Qed.
Lemma se2_inv_q g out : se2_inv_rel g out -> length out = 4%nat /\ so2_inv_rel (cp 2 g) (cp 2 out).
Proof. intros Hrel. q_reduce Hrel. Qed.
Lemma se2_exp_q a out : se2_exp_rel a out -> length out = 4%nat /\ so2_exp_rel [nth 2 a 0] (cp 2 out).
Proof. intros Hrel. q_reduce Hrel. Qed.
Lemma se2_identity_q out : se2_identity_rel out -> length out = 4%nat /\ so2_identity_rel (cp 2 out).
Proof. intros Hrel. q_reduce Hrel. Qed.
