(* Property C15 - the constrained part of the GENERATED SE3 composition / inverse / exp is the generated
   SO3 operation on the constrained parts. *)
From Coq Require Import Reals List Lra.
From SV Require Import Base.GenPrelude Base.Mat Doc.Groups Base.Tactics.
From SV Require Import Gen.SO2 Gen.SO3 Gen.SE3.
From SV Require Import Proofs.C15_Norm Proofs.C15_SO3 Proofs.C15_Groups.
Import ListNotations.
Local Open Scope R_scope.

Lemma se3_comp_q g h out : se3_comp_rel g h out -> length out = 7%nat /\ so3_comp_rel (qp 3 g) (qp 3 h) (qp 3 out).
Proof. intros Hrel. q_reduce Hrel. Qed.
Lemma se3_inv_q g out : se3_inv_rel g out -> length out = 7%nat /\ so3_inv_rel (qp 3 g) (qp 3 out).
Proof. intros Hrel. q_reduce Hrel. Qed.
Lemma se3_exp_q a out : se3_exp_rel a out -> length out = 7%nat /\ so3_exp_rel (tp 3 a) (qp 3 out).
Proof. intros Hrel. q_reduce Hrel. Qed.
Lemma se3_identity_q out : se3_identity_rel out -> length out = 7%nat /\ so3_identity_rel (qp 3 out).
Proof. intros Hrel. q_reduce Hrel. Qed.
