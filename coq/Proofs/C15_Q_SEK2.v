(* Property C15 - the constrained part of the GENERATED SEK2 composition / inverse / exp is the generated
   SO3 operation on the constrained parts. *)
From Coq Require Import Reals List Lra.
From SV Require Import Base.GenPrelude Base.Mat Doc.Groups Base.Tactics.
From SV Require Import Gen.SO2 Gen.SO3 Gen.SEK3_2.
From SV Require Import Proofs.C15_Norm Proofs.C15_SO3 Proofs.C15_Groups.
Import ListNotations.
Local Open Scope R_scope.

Lemma sek2_comp_q g h out : sek2_comp_rel g h out -> length out = 10%nat /\ so3_comp_rel (qp 6 g) (qp 6 h) (qp 6 out).
Proof. intros Hrel. q_reduce Hrel. Qed.
Lemma sek2_inv_q g out : sek2_inv_rel g out -> length out = 10%nat /\ so3_inv_rel (qp 6 g) (qp 6 out).
Proof. intros Hrel. q_reduce Hrel. Qed.
Lemma sek2_exp_q a out : sek2_exp_rel a out -> length out = 10%nat /\ so3_exp_rel (tp 6 a) (qp 6 out).
Proof. intros Hrel. q_reduce Hrel. Qed.
Lemma sek2_identity_q out : sek2_identity_rel out -> length out = 10%nat /\ so3_identity_rel (qp 6 out).
Proof. intros Hrel. q_reduce Hrel. Qed.
