(* Property C15 - facts about the GENERATED SO3 code (coq/Gen/SO3.v) needed by the history theorems and not
   already provided by C01: canonical sign, multiplicativity of the squared norm, exp. *)
From Coq Require Import Reals List Lra Psatz.
From SV Require Import Base.GenPrelude Base.Mat Doc.Groups Base.Tactics Gen.SO3 Proofs.C15_Norm.
Import ListNotations.
Local Open Scope R_scope.

Definition qn (q : list R) : R := n4 (nth 0 q 0) (nth 1 q 0) (nth 2 q 0) (nth 3 q 0).
Definition qcanon (q : list R) : Prop := 0 <= nth 3 q 0.
(* the exp input takes the closed-form path (or is exactly zero): there the traced exp is exactly on the
   manifold; on the Taylor path it is off by <= theta^4/192 (covered by the deviation theorems) *)
Definition eps2 : R := 3022314549036573 / 302231454903657293676544.   (* the double 1e-8, exactly *)
Definition so3_texact (a : list R) : Prop :=
  let t := nth 0 a 0 * nth 0 a 0 + (nth 1 a 0 * nth 1 a 0 + nth 2 a 0 * nth 2 a 0) in t = 0 \/ eps2 <= t.

Lemma so3_comp_shape g h out : so3_comp_rel g h out -> length out = 4%nat /\ qcanon out /\ qn out = qn g * qn h.
Proof.
  intros Hrel. rel_cases Hrel; revert Hpath; autounfold with so3_comp_db; unfold qcanon, qn, n4; cbv zeta;
    cbn [nth length]; intros Hpath; (split; [reflexivity|]); (split; [lra | ring]).
Qed.

Lemma so3_inv_shape g out : 0 < qn g -> so3_inv_rel g out ->
  length out = 4%nat /\ (qcanon g -> qcanon out) /\ qn out = / qn g.
Proof.
  intros Hpos Hrel. rel_cases Hrel; revert Hpath Hpos; autounfold with so3_inv_db; unfold qcanon, qn, n4; cbv zeta;
    cbn [nth length]; intros Hpath Hpos.
  - exfalso. lra.
  - set (d := nth 0 g 0 * nth 0 g 0 + nth 1 g 0 * nth 1 g 0 + (nth 2 g 0 * nth 2 g 0 + nth 3 g 0 * nth 3 g 0)) in *.
    assert (Hd : 0 < d) by lra. assert (Hdd : d = nth 0 g 0 * nth 0 g 0 + nth 1 g 0 * nth 1 g 0 + nth 2 g 0 * nth 2 g 0 + nth 3 g 0 * nth 3 g 0)
      by (unfold d; ring).
    split; [reflexivity|]. split.
    + intros Hw. unfold Rdiv. apply Rmult_le_pos; [exact Hw | left; apply Rinv_0_lt_compat; exact Hd].
    + rewrite <- Hdd. 
      replace (- (nth 0 g 0 / d) * - (nth 0 g 0 / d) + - (nth 1 g 0 / d) * - (nth 1 g 0 / d) + - (nth 2 g 0 / d) * - (nth 2 g 0 / d) + nth 3 g 0 / d * (nth 3 g 0 / d))
        with ((nth 0 g 0 * nth 0 g 0 + nth 1 g 0 * nth 1 g 0 + nth 2 g 0 * nth 2 g 0 + nth 3 g 0 * nth 3 g 0) / (d * d)) by (field; lra).
      rewrite <- Hdd. field. lra.
Qed.

Lemma so3_identity_shape out : so3_identity_rel out -> out = [0; 0; 0; 1].
Proof. intros Hrel. rel_cases Hrel. reflexivity. Qed.

Lemma sum3sq_nonneg a b c : 0 <= a * a + (b * b + c * c).
Proof. pose proof (Rle_0_sqr a). pose proof (Rle_0_sqr b). pose proof (Rle_0_sqr c). unfold Rsqr in *. lra. Qed.

Lemma eps2_pos : 0 < eps2.
Proof. unfold eps2. lra. Qed.
Lemma eps2_small : eps2 <= 11 / 1000000000.
Proof. unfold eps2. lra. Qed.

Lemma taylor_dev t : 0 <= t -> t <= 11 / 1000000000 ->
  Rabs (1 - t * t / 192 + t * t * t / 2304 - 1) <= 1 / 1000000000000000000.
Proof.
  intros H0 H1.
  assert (Hsq : t * t <= (11 / 1000000000) * (11 / 1000000000)) by (apply Rmult_le_compat; lra).
  assert (Hsq0 : 0 <= t * t) by (apply Rmult_le_pos; lra).
  assert (Hcu : t * t * t <= t * t * 1) by (apply Rmult_le_compat_l; lra).
  assert (Hcu0 : 0 <= t * t * t) by (apply Rmult_le_pos; lra).
  apply Rabs_le. lra.
Qed.

(* exp: always canonical; exactly unit on the closed-form path; |N - 1| <= 1e-18 on the Taylor path *)
Lemma so3_exp_shape a out : so3_exp_rel a out ->
  length out = 4%nat /\ qcanon out /\ Rabs (qn out - 1) <= 1 / 1000000000000000000 /\ (so3_texact a -> qn out = 1).
Proof.
  intros Hrel. unfold so3_texact.
  rel_cases Hrel; revert Hpath; autounfold with so3_exp_db; unfold qcanon, qn, n4; cbv zeta; cbn [nth length];
    fold eps2;
    set (t := nth 0 a 0 * nth 0 a 0 + (nth 1 a 0 * nth 1 a 0 + nth 2 a 0 * nth 2 a 0));
    intros Hpath; (split; [reflexivity|]); (split; [lra|]).
  1,2: assert (Ht : eps2 <= t) by lra;
       pose proof eps2_pos as Hep;
       assert (Hs : sqrt t * sqrt t = t) by (apply sqrt_sqrt; lra);
       assert (Hne : sqrt t <> 0) by (intro Hz; rewrite Hz in Hs; lra);
       pose proof (sin2_cos2 (sqrt t / 2)) as Hsc; unfold Rsqr in Hsc;
       set (r := sqrt t) in *; set (s := sin (r / 2)) in *; set (c := cos (r / 2)) in *.
  - assert (HN : s / r * nth 0 a 0 * (s / r * nth 0 a 0) + s / r * nth 1 a 0 * (s / r * nth 1 a 0) +
                 s / r * nth 2 a 0 * (s / r * nth 2 a 0) + c * c = 1).
    { replace (s / r * nth 0 a 0 * (s / r * nth 0 a 0) + s / r * nth 1 a 0 * (s / r * nth 1 a 0) + s / r * nth 2 a 0 * (s / r * nth 2 a 0))
        with (s * s * (t / (r * r))) by (unfold t; field; exact Hne).
      rewrite Hs. unfold Rdiv. rewrite Rinv_r by lra. lra. }
    rewrite HN. split; [rewrite Rminus_diag_eq by reflexivity; rewrite Rabs_R0; lra | intros _; reflexivity].
  - assert (HN : - (s / r * nth 0 a 0) * - (s / r * nth 0 a 0) + - (s / r * nth 1 a 0) * - (s / r * nth 1 a 0) +
                 - (s / r * nth 2 a 0) * - (s / r * nth 2 a 0) + - c * - c = 1).
    { replace (- (s / r * nth 0 a 0) * - (s / r * nth 0 a 0) + - (s / r * nth 1 a 0) * - (s / r * nth 1 a 0) + - (s / r * nth 2 a 0) * - (s / r * nth 2 a 0))
        with (s * s * (t / (r * r))) by (unfold t; field; exact Hne).
      rewrite Hs. unfold Rdiv. rewrite Rinv_r by lra. lra. }
    rewrite HN. split; [rewrite Rminus_diag_eq by reflexivity; rewrite Rabs_R0; lra | intros _; reflexivity].
  - assert (Ht0 : 0 <= t) by (unfold t; apply sum3sq_nonneg). pose proof eps2_small as Hes.
    assert (HN : (1 / 2 - t / 48) * nth 0 a 0 * ((1 / 2 - t / 48) * nth 0 a 0) + (1 / 2 - t / 48) * nth 1 a 0 * ((1 / 2 - t / 48) * nth 1 a 0) +
                 (1 / 2 - t / 48) * nth 2 a 0 * ((1 / 2 - t / 48) * nth 2 a 0) + (1 - t / 8) * (1 - t / 8)
                 = 1 - t * t / 192 + t * t * t / 2304) by (unfold t; field).
    rewrite HN. split.
    + apply taylor_dev; lra.
    + intros [Hz | Hge]; [rewrite Hz; field | lra].
  - assert (Ht0 : 0 <= t) by (unfold t; apply sum3sq_nonneg). pose proof eps2_small as Hes.
    assert (HN : - ((1 / 2 - t / 48) * nth 0 a 0) * - ((1 / 2 - t / 48) * nth 0 a 0) + - ((1 / 2 - t / 48) * nth 1 a 0) * - ((1 / 2 - t / 48) * nth 1 a 0) +
                 - ((1 / 2 - t / 48) * nth 2 a 0) * - ((1 / 2 - t / 48) * nth 2 a 0) + - (1 - t / 8) * - (1 - t / 8)
                 = 1 - t * t / 192 + t * t * t / 2304) by (unfold t; field).
    rewrite HN. split.
    + apply taylor_dev; lra.
    + intros [Hz | Hge]; [rewrite Hz; field | lra].
Qed.
