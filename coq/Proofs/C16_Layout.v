(* C16 - generic theorems about the memory model Model/C16_Layout.v: frame, load/store, verbatim copy,
   cast order, const alphabet, last-writer-wins for arbitrary histories, prefix-sum layout of Bundles,
   soundness of the boolean layout checkers that Proofs/C16_Tables.v runs on the generated table. *)
From Coq Require Import String.
From Coq Require Import List Arith ZArith Bool Lia.
From SV Require Import Model.C16_Layout.
Import ListNotations.

Local Ltac bsplit :=
  repeat match goal with
         | H : (_ && _)%bool = true |- _ => apply andb_true_iff in H; destruct H
         | H : (_ <=? _) = true |- _ => apply Nat.leb_le in H
         | H : (_ <? _) = true |- _ => apply Nat.ltb_lt in H
         | H : (_ =? _) = true |- _ => apply Nat.eqb_eq in H
         | H : (_ <=? _) = false |- _ => apply Nat.leb_gt in H
         | H : (_ <? _) = false |- _ => apply Nat.ltb_ge in H
         end.

(* ---------------------------------------------------------------- list facts *)
Lemma nth_skipn_c16 : forall (o : nat) (m : mem) (k : nat) d, nth k (skipn o m) d = nth (o + k) m d.
Proof.
  induction o as [|o IH]; intros m k d; [reflexivity|].
  destruct m as [|c m]; [destruct k; reflexivity|]. cbn [skipn Nat.add nth]. apply IH.
Qed.

Lemma nth_firstn_c16 : forall (n : nat) (l : mem) (k : nat) d, k < n -> nth k (firstn n l) d = nth k l d.
Proof.
  induction n as [|n IH]; intros l k d Hk; [lia|].
  destruct l as [|c l]; [reflexivity|]. destruct k as [|k]; [reflexivity|]. cbn [firstn nth]. apply IH. lia.
Qed.

Lemma load_length : forall m v, inbounds (length m) v = true -> length (load m v) = vlen v.
Proof.
  intros m v H. unfold inbounds, vend in H. bsplit. unfold load.
  rewrite firstn_length, skipn_length. lia.
Qed.

Lemma nth_load : forall m v k, k < vlen v -> nth k (load m v) 0%Z = nth (voff v + k) m 0%Z.
Proof.
  intros m v k Hk. unfold load. rewrite nth_firstn_c16 by exact Hk. apply nth_skipn_c16.
Qed.

Lemma load_as_map : forall m v, inbounds (length m) v = true ->
  load m v = map (fun k => nth (voff v + k) m 0%Z) (seq 0 (vlen v)).
Proof.
  intros m v Hb. set (f := fun k => nth (voff v + k) m 0%Z).
  apply nth_ext with (d := 0%Z) (d' := f 0).
  - rewrite load_length by exact Hb. now rewrite map_length, seq_length.
  - intros k Hk. rewrite load_length in Hk by exact Hb. rewrite nth_load by exact Hk.
    rewrite map_nth, seq_nth by exact Hk. reflexivity.
Qed.

(* ---------------------------------------------------------------- store_at *)
Lemma store_at_length : forall m off data, length (store_at m off data) = length m.
Proof.
  induction m as [|c m IH]; intros off data; [reflexivity|].
  destruct off as [|o]; cbn [store_at]; [destruct data as [|d ds]; cbn [length]; [reflexivity|]|cbn [length]];
    now rewrite IH.
Qed.

(* unconditional frame of the primitive: nothing outside [off, off + |data|) changes *)
Lemma nth_store_at_outside : forall m off data i,
  i < off \/ off + length data <= i -> nth i (store_at m off data) 0%Z = nth i m 0%Z.
Proof.
  induction m as [|c m IH]; intros off data i Hi; [reflexivity|].
  destruct off as [|o]; cbn [store_at].
  - destruct data as [|d ds]; [reflexivity|]. cbn [length] in Hi.
    destruct i as [|i]; [lia|]. cbn [nth]. apply IH. cbn [Nat.add]. lia.
  - destruct i as [|i]; [reflexivity|]. cbn [nth]. apply IH. lia.
Qed.

Lemma nth_store_at_inside : forall m off data i,
  off + length data <= length m -> off <= i < off + length data ->
  nth i (store_at m off data) 0%Z = nth (i - off) data 0%Z.
Proof.
  induction m as [|c m IH]; intros off data i Hb Hi; [cbn [length] in Hb; lia|].
  destruct off as [|o]; cbn [store_at].
  - destruct data as [|d ds]; [cbn [length] in Hi; lia|]. cbn [length] in Hb, Hi.
    destruct i as [|i]; [reflexivity|]. cbn [nth Nat.sub]. rewrite IH by (cbn [Nat.add]; lia).
    now rewrite Nat.sub_0_r.
  - cbn [length] in Hb. destruct i as [|i]; [lia|]. cbn [nth Nat.sub]. apply IH; lia.
Qed.

(* ---------------------------------------------------------------- store through a view: FRAME *)
Lemma store_length : forall m v data, length (store m v data) = length m.
Proof. intros. unfold store. apply store_at_length. Qed.

(* no hypothesis at all: whatever the data, a store through v cannot touch a cell outside v *)
Theorem frame_outside : forall m v data i, inview v i = false -> nth i (store m v data) 0%Z = nth i m 0%Z.
Proof.
  intros m v data i Hi. unfold store. apply nth_store_at_outside.
  pose proof (firstn_le_length (vlen v) data) as Hl.
  unfold inview, vend in Hi. apply andb_false_iff in Hi. destruct Hi as [Hi|Hi]; bsplit; lia.
Qed.

Theorem frame_inside : forall m v data i,
  inbounds (length m) v = true -> length data = vlen v -> inview v i = true ->
  nth i (store m v data) 0%Z = nth (i - voff v) data 0%Z.
Proof.
  intros m v data i Hb Hl Hi. unfold store. unfold inbounds, inview, vend in *. bsplit.
  rewrite firstn_all2 by lia. apply nth_store_at_inside; lia.
Qed.

(* "changes exactly the cells [off, off+len)" in one statement *)
Theorem frame : forall m v data i,
  inbounds (length m) v = true -> length data = vlen v ->
  nth i (store m v data) 0%Z = if inview v i then nth (i - voff v) data 0%Z else nth i m 0%Z.
Proof.
  intros m v data i Hb Hl. destruct (inview v i) eqn:Hi.
  - now apply frame_inside.
  - now apply frame_outside.
Qed.

Example frame_nontrivial :
  let m := [10; 11; 12; 13; 14; 15]%Z in let v := mkView 2 3 in
  inbounds (length m) v = true /\ store m v [7; 8; 9]%Z = [10; 11; 7; 8; 9; 15]%Z.
Proof. split; reflexivity. Qed.

Theorem load_store : forall m v data,
  inbounds (length m) v = true -> length data = vlen v -> load (store m v data) v = data.
Proof.
  intros m v data Hb Hl. apply nth_ext with (d := 0%Z) (d' := 0%Z).
  - rewrite load_length by (now rewrite store_length). now symmetry.
  - intros k Hk. rewrite load_length in Hk by (now rewrite store_length).
    rewrite nth_load by exact Hk. rewrite frame_inside; try assumption.
    + f_equal. lia.
    + unfold inview, vend. apply andb_true_iff. split; [apply Nat.leb_le|apply Nat.ltb_lt]; lia.
Qed.

Lemma disjoint_inview : forall a b i, disjoint a b = true -> inview a i = true -> inview b i = false.
Proof.
  intros a b i Hd Hi. unfold disjoint, inview, vend in *. apply orb_true_iff in Hd.
  apply andb_false_iff. destruct Hd; bsplit; [left; apply Nat.leb_gt|right; apply Nat.ltb_ge]; lia.
Qed.

Lemma disjoint_sym : forall a b, disjoint a b = disjoint b a.
Proof. intros. unfold disjoint. apply orb_comm. Qed.

Theorem load_store_disjoint : forall m v w data,
  disjoint v w = true -> load (store m v data) w = load m w.
Proof.
  intros m v w data Hd. unfold load at 1 2.
  apply nth_ext with (d := 0%Z) (d' := 0%Z).
  - rewrite !firstn_length, !skipn_length, store_length. reflexivity.
  - intros k Hk. rewrite firstn_length in Hk.
    rewrite !nth_firstn_c16 by lia. rewrite !nth_skipn_c16. apply frame_outside.
    rewrite disjoint_sym in Hd. apply (disjoint_inview w v); [exact Hd|].
    unfold inview, vend. apply andb_true_iff. split; [apply Nat.leb_le|apply Nat.ltb_lt]; lia.
Qed.

Example load_store_nontrivial :
  let m := [10; 11; 12; 13; 14; 15]%Z in
  load (store m (mkView 1 2) [7; 8]%Z) (mkView 1 2) = [7; 8]%Z /\
  load (store m (mkView 1 2) [7; 8]%Z) (mkView 3 3) = load m (mkView 3 3) /\
  disjoint (mkView 1 2) (mkView 3 3) = true.
Proof. repeat split. Qed.

(* ---------------------------------------------------------------- copy without temporary *)
Lemma copy_fwd_length : forall n m d s, length (copy_fwd m d s n) = length m.
Proof.
  induction n as [|n IH]; intros m d s; [reflexivity|]. cbn [copy_fwd]. rewrite IH. apply store_at_length.
Qed.

(* frame of an assignment: unconditional (also for aliased source/destination) *)
Lemma copy_fwd_outside : forall n m d s i, i < d \/ d + n <= i -> nth i (copy_fwd m d s n) 0%Z = nth i m 0%Z.
Proof.
  induction n as [|n IH]; intros m d s i Hi; [reflexivity|]. cbn [copy_fwd].
  rewrite IH by lia. apply nth_store_at_outside. cbn [length]. lia.
Qed.

Lemma copy_fwd_inside : forall n m d s i,
  d + n <= length m -> s + n <= length m -> (d <= s \/ d + n <= s \/ s + n <= d) ->
  d <= i < d + n -> nth i (copy_fwd m d s n) 0%Z = nth (s + (i - d)) m 0%Z.
Proof.
  induction n as [|n IH]; intros m d s i Hd Hs Hok Hi; [lia|]. cbn [copy_fwd].
  assert (Hlen : length (store_at m d [nth s m 0%Z]) = length m) by apply store_at_length.
  destruct (Nat.eq_dec i d) as [->|Hne].
  - rewrite copy_fwd_outside by lia. rewrite nth_store_at_inside by (cbn [length]; lia).
    rewrite Nat.sub_diag, Nat.add_0_r. reflexivity.
  - rewrite IH; try (rewrite Hlen); try lia.
    rewrite nth_store_at_outside by (cbn [length]; lia). f_equal. lia.
Qed.

Lemma copy_ok_cases : forall dst src, vlen dst = vlen src -> copy_ok dst src = true ->
  voff dst <= voff src \/ voff dst + vlen dst <= voff src \/ voff src + vlen dst <= voff dst.
Proof.
  intros dst src Hl H. unfold copy_ok, disjoint, vend in H.
  apply orb_true_iff in H. destruct H as [H|H]; [bsplit; lia|].
  apply orb_true_iff in H. destruct H; bsplit; lia.
Qed.

(* assignment / construction between storage kinds copies coefficient i to coefficient i *)
Theorem assign_verbatim : forall m dst src,
  wf_w (length m) m (WCopy dst src) = true ->
  load (exec_w m (WCopy dst src)) dst = load m src.
Proof.
  intros m dst src Hwf. cbn [wf_w] in Hwf. bsplit.
  match goal with H : vlen dst = vlen src |- _ => rename H into Hl end.
  match goal with H : copy_ok dst src = true |- _ => rename H into Hok end.
  match goal with H : inbounds _ dst = true |- _ => rename H into Hbd end.
  match goal with H : inbounds _ src = true |- _ => rename H into Hbs end.
  pose proof (copy_ok_cases dst src Hl Hok) as Hc.
  cbn [exec_w]. apply nth_ext with (d := 0%Z) (d' := 0%Z).
  - rewrite !load_length; [exact Hl|exact Hbs|now rewrite copy_fwd_length].
  - intros k Hk. rewrite load_length in Hk by (now rewrite copy_fwd_length).
    rewrite !nth_load by lia. unfold inbounds, vend in Hbd, Hbs. bsplit.
    rewrite copy_fwd_inside by lia. f_equal. lia.
Qed.

(* ... and writes nothing but the destination view *)
Theorem assign_frame : forall m dst src i,
  inview dst i = false -> nth i (exec_w m (WCopy dst src)) 0%Z = nth i m 0%Z.
Proof.
  intros m dst src i Hi. cbn [exec_w]. apply copy_fwd_outside.
  unfold inview, vend in Hi. apply andb_false_iff in Hi. destruct Hi; bsplit; lia.
Qed.

Example assign_verbatim_nontrivial :
  let m := [10; 11; 12; 13; 14; 15; 16]%Z in
  wf_w (length m) m (WCopy (mkView 1 3) (mkView 2 3)) = true            (* overlapping, dst below src *)
  /\ exec_w m (WCopy (mkView 1 3) (mkView 2 3)) = [10; 12; 13; 14; 14; 15; 16]%Z
  /\ wf_w (length m) m (WCopy (mkView 4 3) (mkView 0 3)) = true         (* disjoint *)
  /\ wf_w (length m) m (WCopy (mkView 2 3) (mkView 2 3)) = true         (* self assignment *)
  /\ wf_w (length m) m (WCopy (mkView 2 3) (mkView 1 3)) = false.       (* aliasing contract violated *)
Proof. repeat split. Qed.

(* the excluded case really is different (smearing), so the hypothesis copy_ok is needed *)
Example assign_alias_smear :
  let m := [10; 11; 12; 13; 14]%Z in
  load (exec_w m (WCopy (mkView 1 3) (mkView 0 3))) (mkView 1 3) = [10; 10; 10]%Z
  /\ load m (mkView 0 3) = [10; 11; 12]%Z.
Proof. split; reflexivity. Qed.

(* ---------------------------------------------------------------- cast *)
Theorem cast_no_reorder : forall conv m v k,
  inbounds (length m) v = true -> k < vlen v ->
  length (result_r m (RCast v conv)) = vlen v /\
  nth k (result_r m (RCast v conv)) (conv 0%Z) = conv (nth (voff v + k) m 0%Z).
Proof.
  intros conv m v k Hb Hk. cbn [result_r]. unfold cast_cells. split.
  - rewrite map_length. now apply load_length.
  - rewrite map_nth. f_equal. now apply nth_load.
Qed.

Example cast_nontrivial :
  result_r [1; 2; 3; 4; 5]%Z (RCast (mkView 1 3) (fun z => (z * 10)%Z)) = [20; 30; 40]%Z.
Proof. reflexivity. Qed.

(* ---------------------------------------------------------------- histories *)
Lemma exec_length : forall m o, length (exec m o) = length m.
Proof.
  intros m [r|w]; [reflexivity|]. destruct w; cbn [exec exec_w];
    [apply store_length|apply copy_fwd_length|apply store_length].
Qed.

Lemma run_length : forall ops m, length (run m ops) = length m.
Proof.
  unfold run. induction ops as [|o ops IH]; intros m; [reflexivity|]. cbn [fold_left]. rewrite IH. apply exec_length.
Qed.

Lemma run_snoc : forall ops o m, run m (ops ++ [o]) = exec (run m ops) o.
Proof. intros. unfold run. now rewrite fold_left_app. Qed.

(* const views: their op alphabet contains no store, so no history through const views changes memory *)
Theorem const_view_no_store : forall ops m, forallb (alphabet RO) ops = true -> run m ops = m.
Proof.
  unfold run. induction ops as [|o ops IH]; intros m H; [reflexivity|]. cbn [forallb] in H.
  apply andb_true_iff in H. destruct H as [Ho Hr]. destruct o as [r|w]; [|discriminate Ho].
  cbn [fold_left exec]. now apply IH.
Qed.

Example const_alphabet_nontrivial :
  forallb (alphabet RO) [R (RLoad (mkView 0 2)); R (RCast (mkView 1 1) (fun z => z))] = true
  /\ alphabet RO (W (WStore (mkView 0 1) [1%Z])) = false
  /\ alphabet RW (W (WStore (mkView 0 1) [1%Z])) = true.
Proof. repeat split. Qed.

(* frame of one mutating op: unconditional *)
Theorem exec_frame : forall m w i, inview (wdst w) i = false -> nth i (exec_w m w) 0%Z = nth i m 0%Z.
Proof.
  intros m w i Hi. destruct w as [v data|dst src|dst srcs f]; cbn [wdst] in Hi; cbn [exec_w].
  - now apply frame_outside.
  - now apply (assign_frame m dst src).
  - now apply frame_outside.
Qed.

Lemma wops_app : forall a b, wops (a ++ b) = wops a ++ wops b.
Proof.
  induction a as [|o a IH]; intros b; [reflexivity|]. destruct o; cbn [app wops]; [apply IH|]. now rewrite IH.
Qed.

(* frame of a whole history: a cell that lies in no destination view keeps its initial value -
   for ANY op list (no well-formedness needed: out-of-range, wrong-size and aliased ops included) *)
Theorem history_frame : forall ops m i, written ops i = false -> nth i (run m ops) 0%Z = nth i m 0%Z.
Proof.
  intros ops. induction ops as [|o ops IH] using rev_ind; intros m i Hw; [reflexivity|].
  rewrite run_snoc. unfold written in Hw. rewrite wops_app, existsb_app in Hw.
  apply orb_false_iff in Hw. destruct Hw as [Hw1 Hw2].
  destruct o as [r|w]; cbn [exec]; [now apply IH|].
  cbn [wops existsb] in Hw2. rewrite orb_false_r in Hw2.
  rewrite exec_frame by exact Hw2. now apply IH.
Qed.

Lemma wf_run_snoc : forall ops o m,
  wf_run m (ops ++ [o]) = wf_run m ops && wf_op (length m) (run m ops) o.
Proof.
  induction ops as [|p ops IH]; intros o m.
  - cbn [app wf_run run fold_left]. now rewrite andb_true_r.
  - cbn [app wf_run]. rewrite IH. rewrite exec_length. unfold run. cbn [fold_left]. now rewrite andb_assoc.
Qed.

(* overlap_history: ANY interleaving of mutating calls through arbitrarily overlapping views of one memory
   results, cell by cell, in the value given by the last writer of that cell (lww is defined cell-wise and
   never executes a store).  Induction over the op list; no bound on its length or on the views. *)
Theorem overlap_history : forall ops m i,
  wf_run m ops = true -> i < length m -> nth i (run m ops) 0%Z = lww (rev (wops ops)) m i.
Proof.
  intros ops. induction ops as [|o ops IH] using rev_ind; intros m i Hwf Hi; [reflexivity|].
  rewrite wf_run_snoc in Hwf. apply andb_true_iff in Hwf. destruct Hwf as [Hwf Hwo].
  rewrite run_snoc, wops_app, rev_app_distr.
  destruct o as [r|w]; cbn [exec wops rev app]; [now apply IH|].
  pose proof (run_length ops m) as Hlen.
  destruct w as [v data|dst src|dst srcs f]; cbn [wf_op wf_w] in Hwo; cbn [lww exec_w].
  - (* store of given coefficients *)
    bsplit. rewrite frame by (try rewrite Hlen; assumption).
    destruct (inview v i); [reflexivity|now apply IH].
  - (* copy between views *)
    bsplit.
    match goal with H : vlen dst = vlen src |- _ => rename H into Hl end.
    match goal with H : copy_ok dst src = true |- _ => rename H into Hok end.
    match goal with H : inbounds _ dst = true |- _ => rename H into Hbd end.
    match goal with H : inbounds _ src = true |- _ => rename H into Hbs end.
    pose proof (copy_ok_cases dst src Hl Hok) as Hc.
    unfold inbounds, vend in Hbd, Hbs. bsplit.
    destruct (inview dst i) eqn:Hin.
    + unfold inview, vend in Hin. bsplit. rewrite copy_fwd_inside by lia. apply IH; [exact Hwf|lia].
    + rewrite copy_fwd_outside; [now apply IH|].
      unfold inview, vend in Hin. apply andb_false_iff in Hin. destruct Hin; bsplit; lia.
  - (* value computed from loads made before the store *)
    bsplit.
    match goal with H : forallb _ srcs = true |- _ => rename H into Hsrcs end.
    assert (Hloads : map (load (run m ops)) srcs
                     = map (fun s => map (fun k => lww (rev (wops ops)) m (voff s + k)) (seq 0 (vlen s))) srcs).
    { apply map_ext_in. intros s Hs. rewrite forallb_forall in Hsrcs. specialize (Hsrcs s Hs).
      rewrite load_as_map by (now rewrite Hlen). apply map_ext_in. intros k Hk. apply in_seq in Hk.
      apply IH; [exact Hwf|]. unfold inbounds, vend in Hsrcs. bsplit. lia. }
    rewrite frame by (try rewrite Hlen; assumption). rewrite <- Hloads.
    destruct (inview dst i); [reflexivity|now apply IH].
Qed.

(* the hypotheses are satisfiable by a non-trivial interleaving on overlapping views, with every kind of op *)
Example overlap_history_nontrivial :
  let m := [1; 2; 3; 4; 5; 6; 7; 8]%Z in
  let ops := [ W (WStore (mkView 1 4) [10; 20; 30; 40]%Z);
               R (RLoad (mkView 0 8));
               W (WCopy (mkView 0 4) (mkView 2 4));                       (* overlaps its own source *)
               W (WCompute (mkView 3 2) [mkView 2 2; mkView 3 2]
                    (fun ls => map (fun z => (z + 1)%Z) (nth 0 ls [])));   (* dst overlaps both sources *)
               W (WStore (mkView 2 4) [7; 7; 7; 9]%Z);
               W (WCopy (mkView 4 4) (mkView 4 4)) ] in
  wf_run m ops = true
  /\ run m ops = [20; 30; 7; 7; 7; 9; 7; 8]%Z
  /\ map (lww (rev (wops ops)) m) (seq 0 8) = run m ops.
Proof. repeat split. Qed.

(* ---------------------------------------------------------------- sub-part accessors *)
Lemma subview_within : forall v a, vend a <= vlen v -> within (subview v a) v = true.
Proof.
  intros v a H. unfold within, subview, vend in *. cbn [voff vlen].
  apply andb_true_iff. split; apply Nat.leb_le; lia.
Qed.

Lemma subview_disjoint : forall v a b, disjoint a b = true -> disjoint (subview v a) (subview v b) = true.
Proof.
  intros v a b H. unfold disjoint, subview, vend in *. cbn [voff vlen]. apply orb_true_iff in H.
  apply orb_true_iff. destruct H; bsplit; [left|right]; apply Nat.leb_le; lia.
Qed.

Lemma subview_assoc : forall v a b, subview (subview v a) b = subview v (subview a b).
Proof. intros. unfold subview. cbn [voff vlen]. f_equal. lia. Qed.

(* a write through a sub-part accessor of a view changes only its own sub-range: every other accessor of
   the same object (disjoint from it in the layout table) and everything outside the object is untouched *)
Theorem subpart_write_local : forall m v a data,
  vend a <= vlen v ->
  (forall i, inview v i = false -> nth i (store m (subview v a) data) 0%Z = nth i m 0%Z)
  /\ (forall b, disjoint a b = true -> load (store m (subview v a) data) (subview v b) = load m (subview v b)).
Proof.
  intros m v a data Ha. split.
  - intros i Hi. apply frame_outside.
    unfold inview, subview, vend in *. cbn [voff vlen].
    apply andb_false_iff in Hi. apply andb_false_iff. destruct Hi; bsplit; [left; apply Nat.leb_gt|right; apply Nat.ltb_ge]; lia.
  - intros b Hd. apply load_store_disjoint. now apply subview_disjoint.
Qed.

Example subpart_nontrivial :   (* SE2 at offset 3 of a buffer: so2() = cells 5,6 *)
  let m := [0; 0; 0; 1; 2; 3; 4; 0]%Z in
  store m (subview (mkView 3 4) (mkView 2 2)) [8; 9]%Z = [0; 0; 0; 1; 2; 8; 9; 0]%Z.
Proof. reflexivity. Qed.

(* ---------------------------------------------------------------- soundness of the boolean checkers *)
Lemma pairwise_disjoint_sound : forall vs, pairwise_disjoint vs = true ->
  forall i j d, i < j -> j < length vs -> disjoint (nth i vs d) (nth j vs d) = true.
Proof.
  induction vs as [|v vs IH]; intros H i j d Hij Hj; [cbn [length] in Hj; lia|].
  cbn [pairwise_disjoint] in H. apply andb_true_iff in H. destruct H as [Hv Hr].
  destruct j as [|j]; [lia|]. cbn [length] in Hj. destruct i as [|i]; cbn [nth].
  - rewrite forallb_forall in Hv. apply Hv. apply nth_In. lia.
  - apply IH; [exact Hr|lia|lia].
Qed.

Lemma covers_sound : forall n vs, covers n vs = true ->
  forall i, i < n -> exists v, In v vs /\ inview v i = true.
Proof.
  intros n vs H i Hi. unfold covers in H. rewrite forallb_forall in H.
  specialize (H i). rewrite existsb_exists in H. apply H. apply in_seq. lia.
Qed.

(* every scalar of the object belongs to exactly one accessor; no accessor reaches outside the object *)
Theorem partition_ok_sound : forall n vs, partition_ok n vs = true ->
  (forall i, i < n -> exists k, k < length vs /\ inview (nth k vs (mkView 0 0)) i = true
                               /\ forall k', k' < length vs -> inview (nth k' vs (mkView 0 0)) i = true -> k' = k)
  /\ (forall v, In v vs -> vend v <= n /\ 0 < vlen v).
Proof.
  intros n vs H. unfold partition_ok in H. bsplit.
  match goal with H : pairwise_disjoint vs = true |- _ => rename H into Hd end.
  match goal with H : covers n vs = true |- _ => rename H into Hc end.
  match goal with H : all_within n vs = true |- _ => rename H into Hw end.
  match goal with H : nonempty vs = true |- _ => rename H into Hn end.
  split.
  - intros i Hi. destruct (covers_sound n vs Hc i Hi) as [v [Hin Hv]].
    destruct (In_nth vs v (mkView 0 0) Hin) as [k [Hk Hnth]].
    exists k. split; [exact Hk|]. split; [now rewrite Hnth|].
    intros k' Hk' Hv'. destruct (Nat.lt_trichotomy k' k) as [Hlt|[Heq|Hgt]]; [|exact Heq|].
    + pose proof (pairwise_disjoint_sound vs Hd k' k (mkView 0 0) Hlt Hk) as Hdj.
      pose proof (disjoint_inview _ _ i Hdj Hv') as Hf. rewrite Hnth in Hf. congruence.
    + pose proof (pairwise_disjoint_sound vs Hd k k' (mkView 0 0) Hgt Hk') as Hdj.
      rewrite Hnth in Hdj. pose proof (disjoint_inview _ _ i Hdj Hv) as Hf. congruence.
  - intros v Hin. unfold all_within, nonempty in *. rewrite forallb_forall in Hw, Hn.
    specialize (Hw v Hin). specialize (Hn v Hin). unfold inbounds in Hw. bsplit. lia.
Qed.

(* ---------------------------------------------------------------- Bundles: prefix sums, ALL compositions *)
Lemma psum_from_length : forall l a, length (psum_from a l) = S (length l).
Proof. induction l as [|x l IH]; intros a; [reflexivity|]. cbn [psum_from length]. now rewrite IH. Qed.

Lemma psum_from_nth : forall l a i, i <= length l -> nth i (psum_from a l) 0 = a + total (firstn i l).
Proof.
  induction l as [|x l IH]; intros a i Hi.
  - cbn [length] in Hi. assert (i = 0) by lia. subst. cbn. lia.
  - destruct i as [|i]; [cbn; lia|]. cbn [psum_from nth firstn total fold_right length] in *.
    rewrite IH by lia. unfold total. lia.
Qed.

(* off_i = sum_{k<i} RepSize_k *)
Theorem psum_nth : forall l i, i <= length l -> nth i (psum l) 0 = total (firstn i l).
Proof. intros. unfold psum. now rewrite psum_from_nth. Qed.

(* RepSize = RepSizesPsum.back() = sum of the parts *)
Theorem psum_last : forall l, nth (length l) (psum l) 0 = total l.
Proof. intros. rewrite psum_nth by lia. now rewrite firstn_all. Qed.

Lemma total_firstn_S : forall l i, i < length l -> total (firstn (S i) l) = total (firstn i l) + nth i l 0.
Proof.
  induction l as [|x l IH]; intros i Hi; [cbn [length] in Hi; lia|].
  destruct i as [|i]; [cbn; lia|]. cbn [length] in Hi.
  change (firstn (S (S i)) (x :: l)) with (x :: firstn (S i) l).
  change (firstn (S i) (x :: l)) with (x :: firstn i l).
  cbn [total fold_right nth]. fold (total (firstn (S i) l)). fold (total (firstn i l)).
  rewrite IH by lia. lia.
Qed.

Lemma total_firstn_mono : forall l i j, i <= j -> total (firstn i l) <= total (firstn j l).
Proof.
  induction l as [|x l IH]; intros i j Hij; [now rewrite !firstn_nil|].
  destruct i as [|i]; [cbn; lia|]. destruct j as [|j]; [lia|].
  cbn [firstn total fold_right]. fold (total (firstn i l)). fold (total (firstn j l)).
  specialize (IH i j). lia.
Qed.

Lemma total_firstn_le : forall l i, total (firstn i l) <= total l.
Proof.
  intros l i. destruct (Nat.le_gt_cases i (length l)) as [H|H].
  - rewrite <- (firstn_all l) at 2. now apply total_firstn_mono.
  - rewrite firstn_all2 by lia. lia.
Qed.

Lemma bundle_part_end : forall sizes i, i < length sizes ->
  vend (bundle_part sizes i) = total (firstn (S i) sizes).
Proof.
  intros sizes i Hi. unfold vend, bundle_part. cbn [voff vlen].
  rewrite psum_nth by lia. now rewrite total_firstn_S.
Qed.

Theorem bundle_parts_disjoint : forall sizes i j, i < j -> j < length sizes ->
  disjoint (bundle_part sizes i) (bundle_part sizes j) = true.
Proof.
  intros sizes i j Hij Hj. unfold disjoint. apply orb_true_iff. left. apply Nat.leb_le.
  rewrite bundle_part_end by lia. unfold bundle_part. cbn [voff]. rewrite psum_nth by lia.
  apply total_firstn_mono. lia.
Qed.

Theorem bundle_parts_within : forall sizes i, i < length sizes -> vend (bundle_part sizes i) <= total sizes.
Proof. intros sizes i Hi. rewrite bundle_part_end by exact Hi. apply total_firstn_le. Qed.

Theorem bundle_parts_cover : forall sizes k, k < total sizes ->
  exists i, i < length sizes /\ inview (bundle_part sizes i) k = true.
Proof.
  intros sizes k Hk.
  (* the first index whose end exceeds k *)
  assert (H : forall n, n <= length sizes -> k < total (firstn n sizes) ->
                exists i, i < n /\ total (firstn i sizes) <= k < total (firstn (S i) sizes)).
  { induction n as [|n IH]; intros Hn Hlt; [cbn in Hlt; lia|].
    destruct (Nat.lt_ge_cases k (total (firstn n sizes))) as [Hc|Hc].
    - destruct (IH ltac:(lia) Hc) as [i [Hi Hr]]. exists i. split; [lia|exact Hr].
    - exists n. split; [lia|]. split; [exact Hc|exact Hlt]. }
  destruct (H (length sizes) (le_n _)) as [i [Hi [Hlo Hhi]]]; [now rewrite firstn_all|].
  exists i. split; [exact Hi|]. unfold inview. rewrite bundle_part_end by exact Hi.
  unfold bundle_part. cbn [voff]. rewrite psum_nth by lia.
  apply andb_true_iff. split; [apply Nat.leb_le|apply Nat.ltb_lt]; lia.
Qed.

Example bundle_nontrivial :
  psum [7; 4; 11] = [0; 7; 11; 22]
  /\ bundle_views [7; 4; 11] = [mkView 0 7; mkView 7 4; mkView 11 11]
  /\ partition_ok 22 (bundle_views [7; 4; 11]) = true.
Proof. repeat split. Qed.

(* ---------------------------------------------------------------- SE_K_3 documented layout, every K *)
Lemma doc_SEK3_r3_view : forall k j, j < k -> nth j (doc_SEK3_parts k) (mkView 0 0) = mkView (3 * j) 3.
Proof.
  intros k j Hj. unfold doc_SEK3_parts. rewrite app_nth1 by (now rewrite map_length, seq_length).
  set (f := fun j => mkView (3 * j) 3).
  rewrite nth_indep with (d' := f 0) by (now rewrite map_length, seq_length).
  rewrite map_nth, seq_nth by exact Hj. reflexivity.
Qed.

Lemma doc_SEK3_so3_view : forall k, nth k (doc_SEK3_parts k) (mkView 0 0) = mkView (3 * k) 4.
Proof.
  intros k. unfold doc_SEK3_parts. rewrite app_nth2 by (rewrite map_length, seq_length; lia).
  rewrite map_length, seq_length, Nat.sub_diag. reflexivity.
Qed.

Theorem doc_SEK3_cover : forall k i, i < doc_SEK3_repsize k ->
  exists j, j <= k /\ inview (nth j (doc_SEK3_parts k) (mkView 0 0)) i = true.
Proof.
  intros k i Hi. unfold doc_SEK3_repsize in Hi.
  destruct (Nat.lt_ge_cases i (3 * k)) as [Hlt|Hge].
  - exists (i / 3). assert (Hj : i / 3 < k) by (apply Nat.div_lt_upper_bound; lia).
    split; [lia|]. rewrite doc_SEK3_r3_view by exact Hj. unfold inview, vend. cbn [voff vlen].
    pose proof (Nat.div_mod i 3 ltac:(lia)) as Hdm. pose proof (Nat.mod_upper_bound i 3 ltac:(lia)) as Hm.
    apply andb_true_iff. split; [apply Nat.leb_le|apply Nat.ltb_lt]; lia.
  - exists k. split; [lia|]. rewrite doc_SEK3_so3_view. unfold inview, vend. cbn [voff vlen].
    apply andb_true_iff. split; [apply Nat.leb_le|apply Nat.ltb_lt]; lia.
Qed.

Theorem doc_SEK3_disjoint : forall k a b, a < b -> b <= k ->
  disjoint (nth a (doc_SEK3_parts k) (mkView 0 0)) (nth b (doc_SEK3_parts k) (mkView 0 0)) = true.
Proof.
  intros k a b Hab Hb. rewrite (doc_SEK3_r3_view k a) by lia.
  destruct (Nat.eq_dec b k) as [->|Hne].
  - rewrite doc_SEK3_so3_view. unfold disjoint, vend. cbn [voff vlen]. apply orb_true_iff. left. apply Nat.leb_le. lia.
  - rewrite (doc_SEK3_r3_view k b) by lia. unfold disjoint, vend. cbn [voff vlen]. apply orb_true_iff. left.
    apply Nat.leb_le. lia.
Qed.
