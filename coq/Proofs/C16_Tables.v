(* C16 - statements about the GENERATED table Gen/LayoutC16.v (measured on the real classes of /repo on every
   run).  Each lemma is closed by computation; a changed pointer offset, segment size, constness of a returned
   view or availability of a mutating member in /repo changes the table and breaks the lemma of that group. *)
From Coq Require Import String.
From Coq Require Import List Arith ZArith Bool Lia.
From SV Require Import Model.C16_Layout Proofs.C16_Layout Gen.LayoutC16.
Import ListNotations.
Local Open Scope string_scope.

(* the table contains exactly the pool of the dumper: nothing is checked vacuously *)
Definition expected_groups : list string :=
  ["SO2"; "SO3"; "SE2"; "SE3"; "C1"; "Galilei"; "SEK3_1"; "SEK3_2"; "SEK3_3"; "SEK3_5";
   "B(SO3,E3,SE2)"; "B(SO2,E2)"; "B(SE3,B(SO2,E2),Galilei)"; "B(E1,C1,SEK3_2,E4,SO2)"; "B(SE2)";
   "B(SO3,E2)"; "B(B(SO3,E2),SE2)"; "B(B(B(SO3,E2),SE2),E3)"; "B(E2,E3)"].

Lemma table_complete :
  List.length layout_table = 12 * List.length expected_groups
  /\ forallb (fun e => existsb (String.eqb (e_group e)) expected_groups) layout_table = true.
Proof. split; vm_compute; reflexivity. Qed.

(* ---- per group: accessors sit where the header comment says, are pairwise disjoint, cover [0,RepSize),
        nested accessors compose by offset addition, const access returns const views, all six access kinds
        and both scalars agree *)
Lemma layout_doc_SO2 : check_group layout_table "SO2" = true. Proof. vm_compute. reflexivity. Qed.
Lemma layout_doc_C1 : check_group layout_table "C1" = true. Proof. vm_compute. reflexivity. Qed.
Lemma layout_doc_SO3 : check_group layout_table "SO3" = true. Proof. vm_compute. reflexivity. Qed.
Lemma layout_doc_SE2 : check_group layout_table "SE2" = true. Proof. vm_compute. reflexivity. Qed.
Lemma layout_doc_SE3 : check_group layout_table "SE3" = true. Proof. vm_compute. reflexivity. Qed.
Lemma layout_doc_Galilei : check_group layout_table "Galilei" = true. Proof. vm_compute. reflexivity. Qed.
Lemma layout_doc_SEK3_1 : check_group layout_table "SEK3_1" = true. Proof. vm_compute. reflexivity. Qed.
Lemma layout_doc_SEK3_2 : check_group layout_table "SEK3_2" = true. Proof. vm_compute. reflexivity. Qed.
Lemma layout_doc_SEK3_3 : check_group layout_table "SEK3_3" = true. Proof. vm_compute. reflexivity. Qed.
Lemma layout_doc_SEK3_5 : check_group layout_table "SEK3_5" = true. Proof. vm_compute. reflexivity. Qed.
Lemma layout_bundle_SO3_E3_SE2 : check_group layout_table "B(SO3,E3,SE2)" = true. Proof. vm_compute. reflexivity. Qed.
Lemma layout_bundle_SO2_E2 : check_group layout_table "B(SO2,E2)" = true. Proof. vm_compute. reflexivity. Qed.
Lemma layout_bundle_nested2 : check_group layout_table "B(SE3,B(SO2,E2),Galilei)" = true. Proof. vm_compute. reflexivity. Qed.
Lemma layout_bundle_mixed5 : check_group layout_table "B(E1,C1,SEK3_2,E4,SO2)" = true. Proof. vm_compute. reflexivity. Qed.
Lemma layout_bundle_single : check_group layout_table "B(SE2)" = true. Proof. vm_compute. reflexivity. Qed.
Lemma layout_bundle_SO3_E2 : check_group layout_table "B(SO3,E2)" = true. Proof. vm_compute. reflexivity. Qed.
Lemma layout_bundle_nested_inner : check_group layout_table "B(B(SO3,E2),SE2)" = true. Proof. vm_compute. reflexivity. Qed.
Lemma layout_bundle_nested3 : check_group layout_table "B(B(B(SO3,E2),SE2),E3)" = true. Proof. vm_compute. reflexivity. Qed.
Lemma layout_bundle_vectors : check_group layout_table "B(E2,E3)" = true. Proof. vm_compute. reflexivity. Qed.

Lemma all_groups_checked : forallb (check_group layout_table) expected_groups = true.
Proof. vm_compute. reflexivity. Qed.

(* ---- the op alphabet measured on the real classes: value and Map offer every mutating member, Map<const G>
        offers none of them (requires-expressions + compile probes), all three offer the read API *)
Lemma caps_alphabet : forallb check_caps caps_table = true /\ List.length caps_table = 3 * 2 * List.length expected_groups.
Proof. split; vm_compute; reflexivity. Qed.

Definition probe_groups : list string :=
  ["SO2"; "SO3"; "SE2"; "SE3"; "C1"; "Galilei"; "SEK3_1"; "SEK3_2"; "SEK3_3"; "B(SO3,E3,SE2)"; "B(SE3,B(SO2,E2),Galilei)"].

Lemma probes_alphabet :
  forallb check_probe probe_table = true
  /\ forallb (fun g => forallb (fun stmt => probe_present probe_table g "cmap" stmt && 
                                             (String.eqb stmt "read_api" || probe_present probe_table g "map" stmt))
                                ["setIdentity"; "setRandom"; "assign_same_storage"; "read_api"]) probe_groups = true.
Proof. split; vm_compute; reflexivity. Qed.

(* ---- a view's data() is the pointer it was built from and spans RepSize scalars *)
Lemma bases_ok : forallb (fun bn => check_base (fst bn) (snd bn)) base_table = true
                 /\ List.length base_table = 2 * List.length expected_groups.
Proof. split; vm_compute; reflexivity. Qed.

(* ---------------------------------------------------------------- semantic consequences, via the soundness lemmas *)
(* every measured object passes check_entry *)
Lemma every_entry_checked : forallb (check_entry layout_table) layout_table = true.
Proof. vm_compute. reflexivity. Qed.

(* for every measured object with accessors: each scalar of the object belongs to exactly one (primary)
   accessor and no accessor reaches outside [0, RepSize) *)
Theorem accessors_partition : forall e, In e layout_table -> primary (e_rows e) <> [] ->
  let vs := map snd (arows (primary (e_rows e))) in
  (forall i, i < e_repsize e ->
     exists k, k < List.length vs /\ inview (nth k vs (mkView 0 0)) i = true
               /\ forall k', k' < List.length vs -> inview (nth k' vs (mkView 0 0)) i = true -> k' = k)
  /\ (forall v, In v vs -> vend v <= e_repsize e /\ 0 < vlen v).
Proof.
  intros e Hin Hne vs. pose proof every_entry_checked as H. rewrite forallb_forall in H. specialize (H e Hin).
  unfold check_entry in H. destruct (doc_of e) as [[[n doc] docdyn]|]; [|discriminate].
  repeat (apply andb_true_iff in H; destruct H as [H ?]).
  match goal with Hn : Nat.eqb (e_repsize e) n = true |- _ => apply Nat.eqb_eq in Hn; rewrite Hn end.
  match goal with Hd : rows_eqb (arows (primary (e_rows e))) doc = true |- _ => rename Hd into Hdoc end.
  match goal with Hp : match doc with [] => true | _ => _ end = true |- _ => rename Hp into Hpart end.
  destruct doc as [|d doc'].
  - exfalso. apply Hne. destruct (primary (e_rows e)); [reflexivity|discriminate Hdoc].
  - apply partition_ok_sound. exact Hpart.
Qed.

(* every measured accessor (nested ones and r3(k) included) stays inside its object *)
Lemma accessor_within : forall e r, In e layout_table -> In r (e_rows e) -> vend (g_view r) <= e_repsize e.
Proof.
  intros e r Hin Hr. pose proof every_entry_checked as H. rewrite forallb_forall in H. specialize (H e Hin).
  unfold check_entry in H. destruct (doc_of e) as [[[n doc] docdyn]|]; [|discriminate].
  repeat (apply andb_true_iff in H; destruct H as [H ?]).
  match goal with Hw : forallb (fun r => inbounds (e_repsize e) (g_view r)) (e_rows e) = true |- _ =>
    rewrite forallb_forall in Hw; specialize (Hw r Hr); unfold inbounds in Hw; now apply Nat.leb_le in Hw end.
Qed.

(* a mutating call through ANY measured accessor r of an object placed at cell `obj` of a memory:
   (1) writes nothing outside the object, (2) writes nothing outside the accessor's measured range,
   (3) leaves every accessor whose measured range is disjoint from r's (all its siblings) unchanged *)
Theorem accessor_write_local : forall e r, In e layout_table -> In r (e_rows e) ->
  forall (m : mem) (obj : nat) (data : list cell),
    let o := mkView obj (e_repsize e) in
    (forall i, inview o i = false -> nth i (store m (subview o (g_view r)) data) 0%Z = nth i m 0%Z)
    /\ (forall i, inview (subview o (g_view r)) i = false -> nth i (store m (subview o (g_view r)) data) 0%Z = nth i m 0%Z)
    /\ (forall r', In r' (e_rows e) -> disjoint (g_view r) (g_view r') = true ->
          load (store m (subview o (g_view r)) data) (subview o (g_view r')) = load m (subview o (g_view r'))).
Proof.
  intros e r Hin Hr m obj data o.
  pose proof (accessor_within e r Hin Hr) as Hw.
  destruct (subpart_write_local m o (g_view r) data Hw) as [H1 H2].
  split; [exact H1|]. split; [intros i Hi; now apply frame_outside|]. intros r' _ Hd. now apply H2.
Qed.

Example accessor_write_local_nontrivial :
  exists e r, find_entry layout_table "SE2" "double" "map_mut" = Some e
              /\ find (fun r => String.eqb (g_name r) "so2") (e_rows e) = Some r /\ g_view r = mkView 2 2.
Proof. eexists. eexists. split; [vm_compute; reflexivity|]. split; vm_compute; reflexivity. Qed.
