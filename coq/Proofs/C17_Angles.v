(* C17: SO2 angle(), angle_cw(), angle_ccw(): ranges and congruence modulo 2 pi; built against Gen/Conv.v. *)
From Coq Require Import Reals List Lra Lia.
From Interval Require Import Tactic.
From SV Require Import Base.GenPrelude Base.Mat Base.Atan2 Doc.Groups Base.Tactics Gen.Conv.
Import ListNotations.
Local Open Scope R_scope.

(* the binary64 constant M_PI used by the code *)
Definition PI_d : R := 884279719003555 / 281474976710656.
Lemma PI_d_lt_PI : PI_d < PI.
Proof. unfold PI_d. interval with (i_prec 100). Qed.
Lemma PI_d_close : PI - PI_d < 1 / 1000000000000000.
Proof. unfold PI_d. interval with (i_prec 100). Qed.
Lemma PI_d_pos : 3 < PI_d.
Proof. unfold PI_d. lra. Qed.

Definition cong2pi (a b : R) : Prop := exists k : Z, Rabs (a - b - IZR k * (2 * PI)) <= 2 / 1000000000000000.

Lemma so2_angle_range g0 g1 out :
  so2_valid [g0; g1] -> so2_angle_rel [g0; g1] out -> exists a, out = [a] /\ - PI < a <= PI /\ sin a = g0 /\ cos a = g1.
Proof.
  intros Hv Hrel. rel_cases Hrel. autounfold with so2_angle_db. sv_unfold.
  eexists; split; [reflexivity|]. split; [apply atan2_bound|].
  apply sincos_atan2_unit. revert Hv. sv_unfold. lra.
Qed.

(* sign information of atan2 *)
Lemma atan2_neg_y y x : y < 0 -> - PI < atan2 y x < 0.
Proof.
  intros Hy. pose proof (atan2_bound y x) as [L U]. split; [exact L|].
  destruct (Rtotal_order 0 x) as [Hx | [Hx | Hx]].
  - rewrite atan2_pos by assumption. rewrite <- atan_0. apply atan_increasing.
    unfold Rdiv. assert (0 < / x) by (apply Rinv_0_lt_compat; assumption). nra.
  - subst. rewrite atan2_zero_neg by assumption. pose proof PI_RGT_0. lra.
  - rewrite atan2_neg_neg by assumption. pose proof (atan_bound (y / x)). lra.
Qed.
Lemma atan2_pos_y y x : 0 < y -> 0 < atan2 y x < PI.
Proof.
  intros Hy. pose proof (atan2_bound y x) as [L U].
  destruct (Rtotal_order 0 x) as [Hx | [Hx | Hx]].
  - rewrite atan2_pos by assumption. pose proof (atan_bound (y / x)). split; [|lra].
    rewrite <- atan_0. apply atan_increasing. unfold Rdiv. assert (0 < / x) by (apply Rinv_0_lt_compat; assumption). nra.
  - subst. rewrite atan2_zero_pos by assumption. pose proof PI_RGT_0. lra.
  - rewrite atan2_neg_nonneg by lra. pose proof (atan_bound (y / x)). split; [lra|].
    assert (atan (y / x) < 0); [|lra]. rewrite <- atan_0. apply atan_increasing.
    unfold Rdiv. assert (/ x < 0) by (apply Rinv_lt_0_compat; assumption). nra.
Qed.
Lemma atan2_zero_y_pos x : 0 < x -> atan2 0 x = 0.
Proof. intros H. rewrite atan2_pos by assumption. unfold Rdiv. rewrite Rmult_0_l. apply atan_0. Qed.

(* reflection through the origin shifts atan2 by pi *)
Lemma atan2_reflect_pos y x : 0 < y -> atan2 (- y) (- x) = atan2 y x - PI.
Proof.
  intros Hy. destruct (Rtotal_order 0 x) as [Hx | [Hx | Hx]].
  - rewrite (atan2_pos y x) by assumption. rewrite atan2_neg_neg by lra. f_equal. f_equal. field. lra.
  - subst. rewrite Ropp_0, atan2_zero_neg, atan2_zero_pos by lra. lra.
  - rewrite (atan2_neg_nonneg y x) by lra. rewrite atan2_pos by lra. replace (- y / - x) with (y / x) by (field; lra). lra.
Qed.
Lemma atan2_reflect_neg y x : y < 0 -> atan2 (- y) (- x) = atan2 y x + PI.
Proof.
  intros Hy. destruct (Rtotal_order 0 x) as [Hx | [Hx | Hx]].
  - rewrite (atan2_pos y x) by assumption. rewrite atan2_neg_nonneg by lra. f_equal. f_equal. field. lra.
  - subst. rewrite Ropp_0, atan2_zero_pos, atan2_zero_neg by lra. lra.
  - rewrite (atan2_neg_neg y x) by lra. rewrite atan2_pos by lra. replace (- y / - x) with (y / x) by (field; lra). lra.
Qed.

Lemma atan2_zero_y_neg x : x < 0 -> atan2 0 x = PI.
Proof. intros H. rewrite atan2_neg_nonneg by lra. unfold Rdiv. rewrite Rmult_0_l, atan_0. ring. Qed.

(* leaf solver: every path of angle_cw / angle_ccw, case split on the position of the point on the circle *)
Ltac ang_leaf := first [ exfalso; lra
                       | split; [lra | first [ exists 0%Z; apply Rabs_le; lra | exists 1%Z; apply Rabs_le; lra
                                             | exists (-1)%Z; apply Rabs_le; lra ] ] ].
Ltac ang_cases g0 g1 :=
  destruct (Rtotal_order g0 0) as [Hn | [E | Hp]];
  [ pose proof (atan2_neg_y g0 g1 Hn); rewrite ?(atan2_reflect_neg g0 g1) by assumption; ang_leaf
  | subst g0; assert (Hg : g1 * g1 = 1) by lra;
    destruct (Rtotal_order 0 g1) as [Hx | [Hx | Hx]]; [ | exfalso; nra | ];
    rewrite ?Ropp_0;
    [ rewrite ?(atan2_zero_y_pos g1) by lra; rewrite ?(atan2_zero_y_neg (- g1)) by lra; ang_leaf
    | rewrite ?(atan2_zero_y_neg g1) by lra; rewrite ?(atan2_zero_y_pos (- g1)) by lra; ang_leaf ]
  | pose proof (atan2_pos_y g0 g1 Hp); rewrite ?(atan2_reflect_pos g0 g1) by assumption; ang_leaf ].

(* angle_ccw lies in [0, 2 pi] and is congruent to angle() *)
Lemma so2_angle_ccw_range g0 g1 out :
  so2_valid [g0; g1] -> so2_angle_ccw_rel [g0; g1] out ->
  exists a, out = [a] /\ 0 <= a <= 2 * PI /\ cong2pi a (atan2 g0 g1).
Proof.
  intros Hv Hrel. pose proof PI_d_lt_PI. pose proof PI_d_close. pose proof PI_d_pos. pose proof PI_RGT_0.
  revert Hv; sv_unfold; intros Hv.
  rel_cases Hrel; autounfold with so2_angle_ccw_db in *; revert Hpath; sv_unfold; intros Hpath; fold PI_d;
  (eexists; split; [reflexivity|]); ang_cases g0 g1.
Qed.

(* angle_cw lies in [-2 pi, 0] and is congruent to angle() *)
Lemma so2_angle_cw_range g0 g1 out :
  so2_valid [g0; g1] -> so2_angle_cw_rel [g0; g1] out ->
  exists a, out = [a] /\ - (2 * PI) <= a <= 0 /\ cong2pi a (atan2 g0 g1).
Proof.
  intros Hv Hrel. pose proof PI_d_lt_PI. pose proof PI_d_close. pose proof PI_d_pos. pose proof PI_RGT_0.
  revert Hv; sv_unfold; intros Hv.
  rel_cases Hrel; autounfold with so2_angle_cw_db in *; revert Hpath; sv_unfold; intros Hpath; fold PI_d;
  (eexists; split; [reflexivity|]); ang_cases g0 g1.
Qed.
