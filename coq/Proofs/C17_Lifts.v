(* C17: lifts / projections, C1 factorisation, axis rotations, quaternion constructor; built against Gen/Conv.v. *)
From Coq Require Import Reals List Lra Lia.
From SV Require Import Base.GenPrelude Base.Mat Base.Trig Base.Atan2 Doc.Groups Base.Tactics Gen.Conv Gen.SO3 Gen.SO2.
Import ListNotations.
Local Open Scope R_scope.

Definition embed_so2_so3 (g : list R) : mat :=   (* diag (mat g, 1) *)
  [[nth 1 g 0; - nth 0 g 0; 0]; [nth 0 g 0; nth 1 g 0; 0]; [0; 0; 1]].

Ltac half_angle_setup g0 g1 :=
  let a := fresh "a" in
  destruct (sincos_atan2_unit g0 g1 ltac:(lra)) as [Hs Hc];
  pose proof (atan2_bound g0 g1) as Hb;
  set (a := atan2 g0 g1) in *;
  rewrite (sin_half_angle a) in Hs; rewrite (cos_half_angle a) in Hc;
  pose proof (sin2_cos2 (a / 2)) as Hsc; unfold Rsqr in Hsc; unfold Rdiv in *.

(* lift_so3 produces a valid canonical SO3 element whose matrix is diag(mat g, 1) *)
Lemma so2_lift_so3_mat g0 g1 out :
  so2_valid [g0; g1] -> so2_lift_so3_rel [g0; g1] out ->
  so3_valid out /\ 0 <= nth 3 out 0 /\ so3_mat out = embed_so2_so3 [g0; g1].
Proof.
  intros Hv Hrel. revert Hv; sv_unfold; intros Hv.
  rel_cases Hrel; autounfold with so2_lift_so3_db in *; revert Hpath; unfold embed_so2_so3; sv_unfold; intros Hpath.
  all: half_angle_setup g0 g1.
  all: generalize dependent (sin (a * / 2)); generalize dependent (cos (a * / 2)); intros c s; intros.
  all: assert (H1 : s * s + c * c = 1) by lra.
  all: try (exfalso; lra).
  all: rewrite ?H1, ?sqrt_1 in *; rewrite ?Rinv_1, ?Rmult_1_r, ?Rmult_0_l in *.
  all: (split; [nra | split; [lra | list_eq; nra]]).
Qed.

(* project_so2 inverts lift_so3 *)
Lemma so3_project_lift g0 g1 q out :
  so2_valid [g0; g1] -> so2_lift_so3_rel [g0; g1] q -> so3_project_so2_rel q out -> out = [g0; g1].
Proof.
  intros Hv Hl Hp. revert Hv; sv_unfold; intros Hv.
  rel_cases Hl; rel_cases Hp; autounfold with so2_lift_so3_db so3_project_so2_db in *; revert Hpath; sv_unfold; intros Hpath.
  all: destruct (sincos_atan2_unit g0 g1 ltac:(lra)) as [Hs0 Hc0]; pose proof (atan2_bound g0 g1) as Hb.
  all: set (a := atan2 g0 g1) in *.
  all: pose proof (sin2_cos2 (a / 2)) as Hsc; unfold Rsqr in Hsc; unfold Rdiv in *.
  all: assert (H1 : sin (a * / 2) * sin (a * / 2) + cos (a * / 2) * cos (a * / 2) = 1) by lra.
  all: rewrite ?H1, ?sqrt_1 in *; rewrite ?Rinv_1, ?Rmult_1_r, ?Rmult_0_l, ?Rmult_0_r, ?Rplus_0_r, ?Rplus_0_l in *.
  all: try (exfalso; lra).
  all: match goal with |- context [atan2 ?y ?x] =>
         replace y with (sin a) by (rewrite (sin_half_angle a); unfold Rdiv; ring);
         replace x with (cos a) by (rewrite (cos_half_angle a); unfold Rdiv; ring) end.
  all: rewrite atan2_unit_polar by assumption; rewrite Hs0, Hc0; reflexivity.
Qed.

(* C1 = scaling * so2 *)
Lemma c1_factorisation g0 g1 k r :
  c1_valid [g0; g1] -> c1_scaling_rel [g0; g1] k -> c1_so2_rel [g0; g1] r ->
  exists kk, k = [kk] /\ 0 < kk /\ so2_valid r /\ c1_mat [g0; g1] = mscale kk (so2_mat r).
Proof.
  intros Hv Hk Hr. revert Hv; sv_unfold; intros Hv. rel_cases Hk. rel_cases Hr.
  autounfold with c1_scaling_db c1_so2_db. sv_unfold.
  assert (Hpos : 0 < g0 * g0 + g1 * g1) by nra.
  assert (Hassoc : g1 * g1 + g0 * g0 = g0 * g0 + g1 * g1) by ring.
  rewrite ?Hassoc.
  assert (Hn : sqrt (g0 * g0 + g1 * g1) <> 0) by (apply Rgt_not_eq, sqrt_lt_R0; assumption).
  assert (Hsq : sqrt (g0 * g0 + g1 * g1) * sqrt (g0 * g0 + g1 * g1) = g0 * g0 + g1 * g1) by (apply sqrt_sqrt; lra).
  eexists; split; [reflexivity|]. split; [apply sqrt_lt_R0; assumption|].
  set (n := sqrt (g0 * g0 + g1 * g1)) in *. split.
  - replace (g0 / n * (g0 / n) + g1 / n * (g1 / n)) with ((g0 * g0 + g1 * g1) / (n * n)) by (field; assumption).
    rewrite Hsq. field. lra.
  - list_eq; field; assumption.
Qed.

(* rot_x/y/z(t) are valid, canonical, and rotate about the coordinate axes by t (all t) *)
Definition rot_axis_mat (i : nat) (t : R) : mat :=
  match i with
  | O => [[1; 0; 0]; [0; cos t; - sin t]; [0; sin t; cos t]]
  | S O => [[cos t; 0; sin t]; [0; 1; 0]; [- sin t; 0; cos t]]
  | _ => [[cos t; - sin t; 0]; [sin t; cos t; 0]; [0; 0; 1]]
  end.

Ltac rot_tac db t :=
  rewrite (sin_half_angle t), (cos_half_angle t);
  pose proof (sin2_cos2 (t / 2)) as Hsc; unfold Rsqr in Hsc;
  generalize dependent (sin (t / 2)); generalize dependent (cos (t / 2)); intros c s; intros;
  (split; [nra | split; [lra | list_eq; nra]]).

Lemma so3_rot_x_mat t out : so3_rot_x_rel [t] out -> so3_valid out /\ 0 <= nth 3 out 0 /\ so3_mat out = rot_axis_mat 0 t.
Proof.
  intros Hrel. rel_cases Hrel; autounfold with so3_rot_x_db in *; revert Hpath; unfold rot_axis_mat; sv_unfold; intros Hpath;
  rot_tac so3_rot_x_db t.
Qed.
Lemma so3_rot_y_mat t out : so3_rot_y_rel [t] out -> so3_valid out /\ 0 <= nth 3 out 0 /\ so3_mat out = rot_axis_mat 1 t.
Proof.
  intros Hrel. rel_cases Hrel; autounfold with so3_rot_y_db in *; revert Hpath; unfold rot_axis_mat; sv_unfold; intros Hpath;
  rot_tac so3_rot_y_db t.
Qed.
Lemma so3_rot_z_mat t out : so3_rot_z_rel [t] out -> so3_valid out /\ 0 <= nth 3 out 0 /\ so3_mat out = rot_axis_mat 2 t.
Proof.
  intros Hrel. rel_cases Hrel; autounfold with so3_rot_z_db in *; revert Hpath; unfold rot_axis_mat; sv_unfold; intros Hpath;
  rot_tac so3_rot_z_db t.
Qed.

(* quaternion constructor: normalises, picks the canonical hemisphere, keeps the rotation *)
Lemma so3_from_quat_spec q0 q1 q2 q3 out :
  0 < q0*q0 + q1*q1 + q2*q2 + q3*q3 -> so3_from_quat_rel [q0; q1; q2; q3] out ->
  so3_valid out /\ 0 <= nth 3 out 0 /\
  exists k, k <> 0 /\ out = [k * q0; k * q1; k * q2; k * q3].
Proof.
  intros Hpos Hrel.
  rel_cases Hrel; autounfold with so3_from_quat_db in *; revert Hpath; sv_unfold; intros Hpath.
  all: match type of Hpath with context [sqrt ?e] => assert (He : e = q0*q0 + q1*q1 + q2*q2 + q3*q3) by ring; rewrite ?He in *; clear He | _ => idtac end.
  all: try match goal with |- context [sqrt ?e] => assert (He : e = q0*q0 + q1*q1 + q2*q2 + q3*q3) by ring; rewrite ?He; clear He end.
  all: try (exfalso; revert Hpath; match goal with |- context [0 < ?e] => replace e with (q0*q0 + q1*q1 + q2*q2 + q3*q3) by ring end; lra).
  all: set (n2 := q0*q0 + q1*q1 + q2*q2 + q3*q3) in *.
  all: assert (Hn : 0 < sqrt n2) by (apply sqrt_lt_R0; assumption).
  all: assert (Hsq : sqrt n2 * sqrt n2 = n2) by (apply sqrt_sqrt; lra).
  all: set (n := sqrt n2) in *.
  - split; [|split].
    + replace (q0 / n * (q0 / n) + q1 / n * (q1 / n) + q2 / n * (q2 / n) + q3 / n * (q3 / n)) with (n2 / (n * n)) by (unfold n2; field; lra).
      rewrite Hsq. field. lra.
    + lra.
    + exists (/ n). split; [apply Rinv_neq_0_compat; lra | list_eq; field; lra].
  - split; [|split].
    + replace (- (q0 / n) * - (q0 / n) + - (q1 / n) * - (q1 / n) + - (q2 / n) * - (q2 / n) + - (q3 / n) * - (q3 / n)) with (n2 / (n * n)) by (unfold n2; field; lra).
      rewrite Hsq. field. lra.
    + lra.
    + exists (- / n). split; [apply Ropp_neq_0_compat, Rinv_neq_0_compat; lra | list_eq; field; lra].
Qed.
