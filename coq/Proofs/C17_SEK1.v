(* Written with scripts/author/c17.py (committed output; the check builds this file against
   the freshly generated Gen/SEK3_1.v).  Property C17. *)
From Coq Require Import Reals List Lra.
From SV Require Import Base.GenPrelude Base.Mat Doc.Groups Base.Tactics Gen.SEK3_1 Gen.SE3.
Import ListNotations.
Local Open Scope R_scope.

Lemma sek1_identity_is_se3 :
  forall out,
  Gen.SEK3_1.sek1_identity_rel  out <-> Gen.SE3.se3_identity_rel  out.
Proof.
  intros  out. split; intros Hrel; rel_cases Hrel;
  rel_pick_eq ltac:(revert Hpath; autounfold with sek1_identity_db se3_identity_db; sv_unfold) ltac:(autounfold with sek1_identity_db se3_identity_db; sv_unfold; first [reflexivity | list_eq; ring]).
Qed.

Lemma sek1_matrix_is_se3 :
  forall g0 g1 g2 g3 g4 g5 g6 out,
  Gen.SEK3_1.sek1_matrix_rel [g0; g1; g2; g3; g4; g5; g6] out <-> Gen.SE3.se3_matrix_rel [g0; g1; g2; g3; g4; g5; g6] out.
Proof.
  intros g0 g1 g2 g3 g4 g5 g6 out. split; intros Hrel; rel_cases Hrel;
  rel_pick_eq ltac:(revert Hpath; autounfold with sek1_matrix_db se3_matrix_db; sv_unfold) ltac:(autounfold with sek1_matrix_db se3_matrix_db; sv_unfold; first [reflexivity | list_eq; ring]).
Qed.

Lemma sek1_comp_is_se3 :
  forall g0 g1 g2 g3 g4 g5 g6 h0 h1 h2 h3 h4 h5 h6 out,
  Gen.SEK3_1.sek1_comp_rel [g0; g1; g2; g3; g4; g5; g6] [h0; h1; h2; h3; h4; h5; h6] out <-> Gen.SE3.se3_comp_rel [g0; g1; g2; g3; g4; g5; g6] [h0; h1; h2; h3; h4; h5; h6] out.
Proof.
  intros g0 g1 g2 g3 g4 g5 g6 h0 h1 h2 h3 h4 h5 h6 out. split; intros Hrel; rel_cases Hrel;
  rel_pick_eq ltac:(revert Hpath; autounfold with sek1_comp_db se3_comp_db; sv_unfold) ltac:(autounfold with sek1_comp_db se3_comp_db; sv_unfold; first [reflexivity | list_eq; ring]).
Qed.

Lemma sek1_inv_is_se3 :
  forall g0 g1 g2 g3 g4 g5 g6 out,
  Gen.SEK3_1.sek1_inv_rel [g0; g1; g2; g3; g4; g5; g6] out <-> Gen.SE3.se3_inv_rel [g0; g1; g2; g3; g4; g5; g6] out.
Proof.
  intros g0 g1 g2 g3 g4 g5 g6 out. split; intros Hrel; rel_cases Hrel;
  rel_pick_eq ltac:(revert Hpath; autounfold with sek1_inv_db se3_inv_db; sv_unfold) ltac:(autounfold with sek1_inv_db se3_inv_db; sv_unfold; first [reflexivity | list_eq; ring]).
Qed.

Lemma sek1_hat_is_se3 :
  forall a0 a1 a2 a3 a4 a5 out,
  Gen.SEK3_1.sek1_hat_rel [a0; a1; a2; a3; a4; a5] out <-> Gen.SE3.se3_hat_rel [a0; a1; a2; a3; a4; a5] out.
Proof.
  intros a0 a1 a2 a3 a4 a5 out. split; intros Hrel; rel_cases Hrel;
  rel_pick_eq ltac:(revert Hpath; autounfold with sek1_hat_db se3_hat_db; sv_unfold) ltac:(autounfold with sek1_hat_db se3_hat_db; sv_unfold; first [reflexivity | list_eq; ring]).
Qed.

Lemma sek1_vee_is_se3 :
  forall m0 m1 m2 m3 m4 m5 m6 m7 m8 m9 m10 m11 m12 m13 m14 m15 out,
  Gen.SEK3_1.sek1_vee_rel [m0; m1; m2; m3; m4; m5; m6; m7; m8; m9; m10; m11; m12; m13; m14; m15] out <-> Gen.SE3.se3_vee_rel [m0; m1; m2; m3; m4; m5; m6; m7; m8; m9; m10; m11; m12; m13; m14; m15] out.
Proof.
  intros m0 m1 m2 m3 m4 m5 m6 m7 m8 m9 m10 m11 m12 m13 m14 m15 out. split; intros Hrel; rel_cases Hrel;
  rel_pick_eq ltac:(revert Hpath; autounfold with sek1_vee_db se3_vee_db; sv_unfold) ltac:(autounfold with sek1_vee_db se3_vee_db; sv_unfold; first [reflexivity | list_eq; ring]).
Qed.

Lemma sek1_Ad_is_se3 :
  forall g0 g1 g2 g3 g4 g5 g6 out,
  Gen.SEK3_1.sek1_Ad_rel [g0; g1; g2; g3; g4; g5; g6] out <-> Gen.SE3.se3_Ad_rel [g0; g1; g2; g3; g4; g5; g6] out.
Proof.
  intros g0 g1 g2 g3 g4 g5 g6 out. split; intros Hrel; rel_cases Hrel;
  rel_pick_eq ltac:(revert Hpath; autounfold with sek1_Ad_db se3_Ad_db; sv_unfold) ltac:(autounfold with sek1_Ad_db se3_Ad_db; sv_unfold; first [reflexivity | list_eq; ring]).
Qed.

Lemma sek1_ad_is_se3 :
  forall a0 a1 a2 a3 a4 a5 out,
  Gen.SEK3_1.sek1_ad_rel [a0; a1; a2; a3; a4; a5] out <-> Gen.SE3.se3_ad_rel [a0; a1; a2; a3; a4; a5] out.
Proof.
  intros a0 a1 a2 a3 a4 a5 out. split; intros Hrel; rel_cases Hrel;
  rel_pick_eq ltac:(revert Hpath; autounfold with sek1_ad_db se3_ad_db; sv_unfold) ltac:(autounfold with sek1_ad_db se3_ad_db; sv_unfold; first [reflexivity | list_eq; ring]).
Qed.

Lemma sek1_bracket_is_se3 :
  forall a0 a1 a2 a3 a4 a5 b0 b1 b2 b3 b4 b5 out,
  Gen.SEK3_1.sek1_bracket_rel [a0; a1; a2; a3; a4; a5] [b0; b1; b2; b3; b4; b5] out <-> Gen.SE3.se3_bracket_rel [a0; a1; a2; a3; a4; a5] [b0; b1; b2; b3; b4; b5] out.
Proof.
  intros a0 a1 a2 a3 a4 a5 b0 b1 b2 b3 b4 b5 out. split; intros Hrel; rel_cases Hrel;
  rel_pick_eq ltac:(revert Hpath; autounfold with sek1_bracket_db se3_bracket_db; sv_unfold) ltac:(autounfold with sek1_bracket_db se3_bracket_db; sv_unfold; first [reflexivity | list_eq; ring]).
Qed.

Lemma sek1_exp_is_se3 :
  forall a0 a1 a2 a3 a4 a5 out,
  Gen.SEK3_1.sek1_exp_rel [a0; a1; a2; a3; a4; a5] out <-> Gen.SE3.se3_exp_rel [a0; a1; a2; a3; a4; a5] out.
Proof.
  intros a0 a1 a2 a3 a4 a5 out. split; intros Hrel; rel_cases Hrel;
  rel_pick_eq ltac:(revert Hpath; autounfold with sek1_exp_db se3_exp_db; sv_unfold) ltac:(autounfold with sek1_exp_db se3_exp_db; sv_unfold; first [reflexivity | list_eq; ring]).
Qed.

Lemma sek1_log_is_se3 :
  forall g0 g1 g2 g3 g4 g5 g6 out,
  Gen.SEK3_1.sek1_log_rel [g0; g1; g2; g3; g4; g5; g6] out <-> Gen.SE3.se3_log_rel [g0; g1; g2; g3; g4; g5; g6] out.
Proof.
  intros g0 g1 g2 g3 g4 g5 g6 out. split; intros Hrel; rel_cases Hrel;
  rel_pick_eq ltac:(revert Hpath; autounfold with sek1_log_db se3_log_db; sv_unfold) ltac:(autounfold with sek1_log_db se3_log_db; sv_unfold; first [reflexivity | list_eq; ring]).
Qed.

Lemma sek1_dr_exp_is_se3 :
  forall a0 a1 a2 a3 a4 a5 out,
  Gen.SEK3_1.sek1_dr_exp_rel [a0; a1; a2; a3; a4; a5] out <-> Gen.SE3.se3_dr_exp_rel [a0; a1; a2; a3; a4; a5] out.
Proof.
  intros a0 a1 a2 a3 a4 a5 out. split; intros Hrel; rel_cases Hrel;
  rel_pick_eq ltac:(revert Hpath; autounfold with sek1_dr_exp_db se3_dr_exp_db; sv_unfold) ltac:(autounfold with sek1_dr_exp_db se3_dr_exp_db; sv_unfold; first [reflexivity | list_eq; ring]).
Qed.

Lemma sek1_dr_expinv_is_se3 :
  forall a0 a1 a2 a3 a4 a5 out,
  Gen.SEK3_1.sek1_dr_expinv_rel [a0; a1; a2; a3; a4; a5] out <-> Gen.SE3.se3_dr_expinv_rel [a0; a1; a2; a3; a4; a5] out.
Proof.
  intros a0 a1 a2 a3 a4 a5 out. split; intros Hrel; rel_cases Hrel;
  rel_pick_eq ltac:(revert Hpath; autounfold with sek1_dr_expinv_db se3_dr_expinv_db; sv_unfold) ltac:(autounfold with sek1_dr_expinv_db se3_dr_expinv_db; sv_unfold; first [reflexivity | list_eq; ring]).
Qed.

Lemma sek1_dl_exp_is_se3 :
  forall a0 a1 a2 a3 a4 a5 out,
  Gen.SEK3_1.sek1_dl_exp_rel [a0; a1; a2; a3; a4; a5] out <-> Gen.SE3.se3_dl_exp_rel [a0; a1; a2; a3; a4; a5] out.
Proof.
  intros a0 a1 a2 a3 a4 a5 out. split; intros Hrel; rel_cases Hrel;
  rel_pick_eq ltac:(revert Hpath; autounfold with sek1_dl_exp_db se3_dl_exp_db; sv_unfold) ltac:(autounfold with sek1_dl_exp_db se3_dl_exp_db; sv_unfold; first [reflexivity | list_eq; ring]).
Qed.

Lemma sek1_dl_expinv_is_se3 :
  forall a0 a1 a2 a3 a4 a5 out,
  Gen.SEK3_1.sek1_dl_expinv_rel [a0; a1; a2; a3; a4; a5] out <-> Gen.SE3.se3_dl_expinv_rel [a0; a1; a2; a3; a4; a5] out.
Proof.
  intros a0 a1 a2 a3 a4 a5 out. split; intros Hrel; rel_cases Hrel;
  rel_pick_eq ltac:(revert Hpath; autounfold with sek1_dl_expinv_db se3_dl_expinv_db; sv_unfold) ltac:(autounfold with sek1_dl_expinv_db se3_dl_expinv_db; sv_unfold; first [reflexivity | list_eq; ring]).
Qed.

