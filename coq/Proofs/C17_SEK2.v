(* Written with scripts/author/c17.py (committed output; the check builds this file against
   the freshly generated Gen/SEK3_2.v).  Property C17. *)
From Coq Require Import Reals List Lra.
From SV Require Import Base.GenPrelude Base.Mat Doc.Groups Base.Tactics Gen.SEK3_2 Gen.Galilei.
From Coquelicot Require Import Coquelicot.
From SV Require Import Base.Trig Doc.Exp.
From SV Require Proofs.C02_SEK3_2 Proofs.C02_Galilei.
Import ListNotations.
Local Open Scope R_scope.

Lemma sek2_comp_in_galilei :
  forall g0 g1 g2 g3 g4 g5 g6 g7 g8 g9 h0 h1 h2 h3 h4 h5 h6 h7 h8 h9 out,
  Gen.SEK3_2.sek2_comp_rel [g0; g1; g2; g3; g4; g5; g6; g7; g8; g9] [h0; h1; h2; h3; h4; h5; h6; h7; h8; h9] out ->
  Gen.Galilei.gal_comp_rel [g0; g1; g2; g3; g4; g5; 0; g6; g7; g8; g9] [h0; h1; h2; h3; h4; h5; 0; h6; h7; h8; h9] (firstn 6 out ++ [0] ++ skipn 6 out).
Proof.
  intros g0 g1 g2 g3 g4 g5 g6 g7 g8 g9 h0 h1 h2 h3 h4 h5 h6 h7 h8 h9 out Hrel. rel_cases Hrel;
  rel_pick_eq ltac:(revert Hpath; autounfold with sek2_comp_db gal_comp_db; sv_unfold) ltac:(autounfold with sek2_comp_db gal_comp_db; sv_unfold; cbv [firstn skipn app]; list_eq; first [reflexivity | ring | field]).
Qed.

Lemma sek2_inv_in_galilei :
  forall g0 g1 g2 g3 g4 g5 g6 g7 g8 g9 out,
  Gen.SEK3_2.sek2_inv_rel [g0; g1; g2; g3; g4; g5; g6; g7; g8; g9] out ->
  Gen.Galilei.gal_inv_rel [g0; g1; g2; g3; g4; g5; 0; g6; g7; g8; g9] (firstn 6 out ++ [0] ++ skipn 6 out).
Proof.
  intros g0 g1 g2 g3 g4 g5 g6 g7 g8 g9 out Hrel. rel_cases Hrel;
  rel_pick_eq ltac:(revert Hpath; autounfold with sek2_inv_db gal_inv_db; sv_unfold) ltac:(autounfold with sek2_inv_db gal_inv_db; sv_unfold; cbv [firstn skipn app]; list_eq; first [reflexivity | ring | field]).
Qed.

Lemma sek2_exp_in_galilei_closed :
  forall a0 a1 a2 a3 a4 a5 a6 a7 a8 x y,
  eps2 < a6*a6 + a7*a7 + a8*a8 ->
  Gen.SEK3_2.sek2_exp_rel [a0; a1; a2; a3; a4; a5; a6; a7; a8] x -> Gen.Galilei.gal_exp_rel [a0; a1; a2; a3; a4; a5; 0; a6; a7; a8] y ->
  gal_mat y = sek_mat 2 x.
Proof.
  intros a0 a1 a2 a3 a4 a5 a6 a7 a8 x y Hbig Hx Hy.
  destruct (Proofs.C02_SEK3_2.sek2_exp_flow _ _ _ _ _ _ _ _ _ _ Hx Hbig) as [-> _].
  destruct (Proofs.C02_Galilei.gal_exp_flow _ _ _ _ _ _ _ _ _ _ _ Hy Hbig) as [-> _].
  flow_unfold. sv_unfold. list_eq; ring.
Qed.

Lemma sek2_identity_in_galilei :
  forall out, Gen.SEK3_2.sek2_identity_rel out -> Gen.Galilei.gal_identity_rel (firstn 6 out ++ [0] ++ skipn 6 out).
Proof.
  intros out Hrel. rel_cases Hrel.
  rel_pick_eq ltac:(revert Hpath; autounfold with sek2_identity_db gal_identity_db; sv_unfold) ltac:(autounfold with sek2_identity_db gal_identity_db; sv_unfold; cbv [firstn skipn app]; reflexivity).
Qed.

Lemma sek2_mat_embedding :
  forall g0 g1 g2 g3 g4 g5 g6 g7 g8 g9, gal_mat [g0; g1; g2; g3; g4; g5; 0; g6; g7; g8; g9] = sek_mat 2 [g0; g1; g2; g3; g4; g5; g6; g7; g8; g9] /\ (gal_valid [g0; g1; g2; g3; g4; g5; 0; g6; g7; g8; g9] <-> sek_valid 2 [g0; g1; g2; g3; g4; g5; g6; g7; g8; g9]).
Proof.
  intros. sv_unfold. split; [list_eq; ring | tauto].
Qed.

Lemma sek2_Ad_in_galilei :
  forall g0 g1 g2 g3 g4 g5 g6 g7 g8 g9 b0 b1 b2 b3 b4 b5 b6 b7 b8 A,
  Gen.SEK3_2.sek2_Ad_rel [g0; g1; g2; g3; g4; g5; g6; g7; g8; g9] A ->
  exists A', Gen.Galilei.gal_Ad_rel [g0; g1; g2; g3; g4; g5; 0; g6; g7; g8; g9] A' /\
    mvec A' [b0; b1; b2; b3; b4; b5; 0; b6; b7; b8] = (fun o => firstn 6 o ++ [0] ++ skipn 6 o) (mvec A [b0; b1; b2; b3; b4; b5; b6; b7; b8]).
Proof.
  intros g0 g1 g2 g3 g4 g5 g6 g7 g8 g9 b0 b1 b2 b3 b4 b5 b6 b7 b8 A Hrel. rel_cases Hrel; eexists;
  (split; [rel_pick_eq ltac:(revert Hpath; autounfold with sek2_Ad_db gal_Ad_db; sv_unfold) ltac:(reflexivity)|]);
  autounfold with sek2_Ad_db gal_Ad_db; sv_unfold; cbv [firstn skipn app]; list_eq; first [reflexivity | ring | field].
Qed.

Lemma sek2_ad_in_galilei :
  forall a0 a1 a2 a3 a4 a5 a6 a7 a8 b0 b1 b2 b3 b4 b5 b6 b7 b8 A,
  Gen.SEK3_2.sek2_ad_rel [a0; a1; a2; a3; a4; a5; a6; a7; a8] A ->
  exists A', Gen.Galilei.gal_ad_rel [a0; a1; a2; a3; a4; a5; 0; a6; a7; a8] A' /\
    mvec A' [b0; b1; b2; b3; b4; b5; 0; b6; b7; b8] = (fun o => firstn 6 o ++ [0] ++ skipn 6 o) (mvec A [b0; b1; b2; b3; b4; b5; b6; b7; b8]).
Proof.
  intros a0 a1 a2 a3 a4 a5 a6 a7 a8 b0 b1 b2 b3 b4 b5 b6 b7 b8 A Hrel. rel_cases Hrel; eexists;
  (split; [rel_pick_eq ltac:(revert Hpath; autounfold with sek2_ad_db gal_ad_db; sv_unfold) ltac:(reflexivity)|]);
  autounfold with sek2_ad_db gal_ad_db; sv_unfold; cbv [firstn skipn app]; list_eq; first [reflexivity | ring | field].
Qed.

Lemma sek2_dr_exp_in_galilei :
  forall a0 a1 a2 a3 a4 a5 a6 a7 a8 b0 b1 b2 b3 b4 b5 b6 b7 b8 A,
  Gen.SEK3_2.sek2_dr_exp_rel [a0; a1; a2; a3; a4; a5; a6; a7; a8] A ->
  exists A', Gen.Galilei.gal_dr_exp_rel [a0; a1; a2; a3; a4; a5; 0; a6; a7; a8] A' /\
    mvec A' [b0; b1; b2; b3; b4; b5; 0; b6; b7; b8] = (fun o => firstn 6 o ++ [0] ++ skipn 6 o) (mvec A [b0; b1; b2; b3; b4; b5; b6; b7; b8]).
Proof.
  intros a0 a1 a2 a3 a4 a5 a6 a7 a8 b0 b1 b2 b3 b4 b5 b6 b7 b8 A Hrel. rel_cases Hrel; eexists;
  (split; [rel_pick_eq ltac:(revert Hpath; autounfold with sek2_dr_exp_db gal_dr_exp_db; sv_unfold) ltac:(reflexivity)|]);
  autounfold with sek2_dr_exp_db gal_dr_exp_db; sv_unfold; cbv [firstn skipn app]; list_eq; first [reflexivity | ring | field].
Qed.

