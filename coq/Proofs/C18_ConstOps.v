(* C18 - operations that store only into cells of the calling thread are data-race free and behave under
   every schedule as when run alone; instances: the abstract action list of a table entry, the SubManifold
   model with a local scratch vector; refutation for the SubManifold model with the scratch as a member. *)
From Coq Require Import List Arith ZArith Bool Lia.
Import ListNotations.
From SV Require Import Model.C18_Interleave Model.C18_Footprint Model.C18_SubManifold Proofs.C18_Interleave.

Section ConstOps.
  Variable op : Type.
  (* actions thread t performs when it executes operation o on its own arguments/outputs *)
  Variable compile : op -> tid -> thread.
  (* the footprint table *)
  Variable writes_shared : op -> bool.
  (* the only private cells an operation touches are those of the executing thread
     (its stack frame, blocks it allocated itself, its output arguments) *)
  Hypothesis compile_own : forall o t a, In a (compile o t) -> action_own_private t a = true.
  (* soundness of the table: an operation listed as not writing shared state stores only into private cells *)
  Hypothesis table_sound :
    forall o t a, writes_shared o = false -> In a (compile o t) -> action_const_for t a = true.

  Lemma nth_threads_from : forall progs t0 i,
    nth i (threads_from compile t0 progs) [] = flat_map (fun o => compile o (t0 + i)) (nth i progs []).
  Proof.
    induction progs as [|p r IH]; intros t0 i.
    - destruct i; reflexivity.
    - destruct i as [|i]; cbn [threads_from nth].
      + now rewrite Nat.add_0_r.
      + rewrite IH. now rewrite Nat.add_succ_r.
  Qed.

  Lemma nth_threads_of : forall progs i,
    nth i (threads_of compile progs) [] = flat_map (fun o => compile o i) (nth i progs []).
  Proof. intros. unfold threads_of. now rewrite nth_threads_from. Qed.

  Lemma length_threads_from : forall progs t0, length (threads_from compile t0 progs) = length progs.
  Proof. induction progs as [|p r IH]; intros t0; cbn; auto. Qed.

  Theorem const_ops_disjoint : forall progs : list (list op),
    (forall i o, In o (nth i progs []) -> writes_shared o = false) ->
    disjoint_footprints (threads_of compile progs).
  Proof.
    intros progs Hc i j Hij l Hw Hf. rewrite nth_threads_of in Hw, Hf.
    apply writes_inv in Hw as [a [Ha [Hwa Hla]]]. apply in_flat_map in Ha as [o [Ho Ha]].
    apply footprint_inv in Hf as [b [Hb Hlb]]. apply in_flat_map in Hb as [o' [Ho' Hb]].
    pose proof (table_sound o i a (Hc i o Ho) Ha) as Hca. pose proof (compile_own o' j b Hb) as Hob.
    unfold action_const_for in Hca. unfold action_own_private in Hob. rewrite Hla in Hca. rewrite Hlb in Hob.
    destruct l as [n|u n].
    - rewrite Hwa in Hca. discriminate.
    - apply Nat.eqb_eq in Hca, Hob. congruence.
  Qed.

  (* any number of threads, any programs over the const alphabet, every schedule *)
  Theorem const_ops_race_free : forall progs : list (list op),
    (forall i o, In o (nth i progs []) -> writes_shared o = false) ->
    let ths := threads_of compile progs in
    race_free ths /\
    forall (s0 : store) (sched : list tid), is_merge sched ths ->
      (forall t, t < length progs -> final_trace sched ths s0 t = snd (solo (nth t ths []) s0 [])) /\
      (forall t l, In l (footprint (nth t ths [])) ->
         final_store sched ths s0 l = fst (solo (nth t ths []) s0 []) l) /\
      (forall l, final_store sched ths s0 l = union_effects ths s0 l).
  Proof.
    intros progs Hc ths. pose proof (const_ops_disjoint progs Hc) as Hd. fold ths in Hd.
    split; [now apply disjoint_footprints_iff_race_free|].
    intros s0 sched Hm. split; [|split].
    - intros t Ht. apply final_trace_is_solo_trace; try assumption.
      unfold ths, threads_of. now rewrite length_threads_from.
    - apply (disjoint_footprints_sequential ths s0 sched Hd Hm).
    - now apply final_store_is_union_of_private_effects.
  Qed.
End ConstOps.

(* ------------------------------------------------------------------ instance: table entries *)
Lemma compile_entry_own : forall e t a, In a (compile_entry e t) -> action_own_private t a = true.
Proof.
  intros e t a Hin. unfold compile_entry, scratch_of in Hin.
  destruct (fp_writes_shared e); cbn in Hin;
    repeat (destruct Hin as [<-|Hin]; [cbn; rewrite ?Nat.eqb_refl; reflexivity|]); contradiction.
Qed.

Lemma compile_entry_const : forall e t a,
  fp_writes_shared e = false -> In a (compile_entry e t) -> action_const_for t a = true.
Proof.
  intros e t a Hw Hin. unfold compile_entry, scratch_of in Hin. rewrite Hw in Hin. cbn in Hin.
  repeat (destruct Hin as [<-|Hin]; [cbn; rewrite ?Nat.eqb_refl; reflexivity|]). contradiction.
Qed.

Theorem table_entries_race_free : forall progs : list (list fp_entry),
  (forall i e, In e (nth i progs []) -> fp_writes_shared e = false) ->
  let ths := threads_of compile_entry progs in
  race_free ths /\
  forall (s0 : store) (sched : list tid), is_merge sched ths ->
    (forall t, t < length progs -> final_trace sched ths s0 t = snd (solo (nth t ths []) s0 [])) /\
    (forall t l, In l (footprint (nth t ths [])) ->
       final_store sched ths s0 l = fst (solo (nth t ths []) s0 []) l) /\
    (forall l, final_store sched ths s0 l = union_effects ths s0 l).
Proof.
  intros progs Hc.
  exact (const_ops_race_free fp_entry compile_entry fp_writes_shared compile_entry_own compile_entry_const progs Hc).
Qed.

(* an entry that stores into shared state is NOT race free already with two threads *)
Theorem table_entry_shared_write_races : forall e,
  fp_writes_shared e = true -> ~ race_free (threads_of compile_entry [[e]; [e]]).
Proof.
  intros e Hw Hr. unfold threads_of in Hr. cbn [threads_from flat_map] in Hr.
  apply (Hr 0 1 (Nat.neq_0_succ 0) (Wr (Shared 1000) (fun tr => (nth 0 tr 0 + nth 1 tr 0 + nth 2 tr 0)%Z))
            (Rd (Shared 1000))).
  - cbn [nth]. rewrite app_nil_r. unfold compile_entry, scratch_of. rewrite Hw. cbn. tauto.
  - cbn [nth]. rewrite app_nil_r. unfold compile_entry, scratch_of. rewrite Hw. cbn. tauto.
  - split; [reflexivity|now left].
Qed.

(* ------------------------------------------------------------------ instance: SubManifold model *)
Lemma forallb_map_all : forall (A B : Type) (P : B -> bool) (f : A -> B) l,
  (forall x, P (f x) = true) -> forallb P (map f l) = true.
Proof. intros A B P f l H. induction l as [|x r IH]; cbn; [reflexivity|]. now rewrite H, IH. Qed.

Lemma forallb_flat_map_all : forall (A B : Type) (P : B -> bool) (f : A -> list B) l,
  (forall x, forallb P (f x) = true) -> forallb P (flat_map f l) = true.
Proof.
  intros A B P f l H. induction l as [|x r IH]; cbn; [reflexivity|]. now rewrite forallb_app, H, IH.
Qed.

Section SubManifoldChecks.
  Variable P : tid -> action -> bool.
  Variable member : bool.
  Hypothesis P_shared_read : forall t n, P t (Rd (Shared n)) = true.
  Hypothesis P_priv : forall t n, P t (Rd (Priv t n)) = true /\ forall f, P t (Wr (Priv t n) f) = true.
  Hypothesis P_calc : forall t i, P t (Rd (c_calc member t i)) = true /\ forall f, P t (Wr (c_calc member t i) f) = true.

  Lemma scatter_all : forall t fixed cnt i j, forallb (P t) (scatter member t fixed i j cnt) = true.
  Proof.
    intros t fixed. induction cnt as [|c IH]; intros i j; cbn [scatter forallb]; [reflexivity|].
    unfold c_fixed at 1. rewrite P_shared_read. cbn [andb].
    destruct (is_fixed fixed i); [apply IH|]. cbn [forallb].
    unfold p_a. rewrite (proj1 (P_priv t _)), (proj2 (P_calc t i)). cbn [andb]. apply IH.
  Qed.

  Lemma gather_all : forall t fixed cnt i j, forallb (P t) (gather member t fixed i j cnt) = true.
  Proof.
    intros t fixed. induction cnt as [|c IH]; intros i j; cbn [gather forallb]; [reflexivity|].
    unfold c_fixed at 1. rewrite P_shared_read. cbn [andb].
    destruct (is_fixed fixed i); [apply IH|]. cbn [forallb].
    unfold p_ret. rewrite (proj1 (P_calc t i)), (proj2 (P_priv t _)). cbn [andb]. apply IH.
  Qed.

  Lemma compile_sub_all : forall n fixed o t, forallb (P t) (compile_sub member n fixed o t) = true.
  Proof.
    intros n fixed o t. destruct o; cbn [compile_sub].
    - unfold sub_rplus. cbn [forallb]. unfold c_m0 at 1. rewrite P_shared_read. cbn [andb].
      rewrite !forallb_app. rewrite scatter_all.
      rewrite forallb_map_all by (intros x; apply (proj2 (P_calc t x))).
      rewrite forallb_flat_map_all; [reflexivity|].
      intros x. cbn [forallb]. unfold c_m, p_res.
      now rewrite P_shared_read, (proj1 (P_calc t x)), (proj2 (P_priv t _)).
    - unfold sub_rminus. rewrite !forallb_app. rewrite gather_all.
      rewrite forallb_map_all by (intros x; unfold p_ret; apply (proj2 (P_priv t _))).
      rewrite forallb_flat_map_all; [reflexivity|].
      intros x. cbn [forallb]. unfold c_m, c_other_m.
      now rewrite !P_shared_read, (proj2 (P_calc t x)).
    - unfold sub_dof, c_m0, c_fixed, p_dof. cbn [forallb].
      now rewrite !P_shared_read, (proj2 (P_priv t _)).
  Qed.
End SubManifoldChecks.

Lemma compile_sub_own : forall member n fixed o t a,
  In a (compile_sub member n fixed o t) -> action_own_private t a = true.
Proof.
  intros member n fixed o t a Hin.
  pose proof (compile_sub_all action_own_private member) as H.
  assert (Hall : forallb (action_own_private t) (compile_sub member n fixed o t) = true).
  { apply H.
    - reflexivity.
    - intros t0 n0. split; [|intros f]; cbn; apply Nat.eqb_refl.
    - intros t0 i. unfold c_calc. destruct member; split; try intros f; cbn; try reflexivity; apply Nat.eqb_refl. }
  rewrite forallb_forall in Hall. now apply Hall.
Qed.

Lemma compile_sub_local_const : forall n fixed o t a,
  In a (compile_sub false n fixed o t) -> action_const_for t a = true.
Proof.
  intros n fixed o t a Hin.
  pose proof (compile_sub_all action_const_for false) as H.
  assert (Hall : forallb (action_const_for t) (compile_sub false n fixed o t) = true).
  { apply H.
    - reflexivity.
    - intros t0 n0. split; [|intros f]; cbn; apply Nat.eqb_refl.
    - intros t0 i. unfold c_calc. split; try intros f; cbn; apply Nat.eqb_refl. }
  rewrite forallb_forall in Hall. now apply Hall.
Qed.

(* with the scratch vector local to the call (repaired code), SubManifold's const operations are in the
   const alphabet: any dimension, any set of fixed dimensions, any programs, any number of threads *)
Theorem submanifold_local_scratch_race_free :
  forall (n : nat) (fixed : list nat) (progs : list (list subop)),
  let ths := threads_of (compile_sub false n fixed) progs in
  race_free ths /\
  forall (s0 : store) (sched : list tid), is_merge sched ths ->
    (forall t, t < length progs -> final_trace sched ths s0 t = snd (solo (nth t ths []) s0 [])) /\
    (forall t l, In l (footprint (nth t ths [])) ->
       final_store sched ths s0 l = fst (solo (nth t ths []) s0 []) l) /\
    (forall l, final_store sched ths s0 l = union_effects ths s0 l).
Proof.
  intros n fixed progs.
  apply (const_ops_race_free subop (compile_sub false n fixed) (fun _ => false)).
  - intros o t a Hin. now apply (compile_sub_own false n fixed o).
  - intros o t a _ Hin. now apply (compile_sub_local_const n fixed o).
  - reflexivity.
Qed.

(* with the scratch vector a member of the shared object (the code of the unchanged tree): two threads
   calling the const rplus on the same const object race, and under the schedule race_sched thread 0 loads
   thread 1's scratch value and returns 100 + 7 instead of 100 + 5 *)
Theorem submanifold_ops_race_refuted :
  is_merge race_sched (race_threads true) /\
  fst (solo (nth 0 (race_threads true) []) race_store []) (p_res 0 0) = 105%Z /\
  final_store race_sched (race_threads true) race_store (p_res 0 0) = 107%Z /\
  In 7%Z (final_trace race_sched (race_threads true) race_store 0) /\
  ~ In 7%Z (snd (solo (nth 0 (race_threads true) []) race_store [])) /\
  ~ race_free (race_threads true).
Proof.
  split; [apply is_mergeb_sound; vm_compute; reflexivity|].
  split; [vm_compute; reflexivity|].
  split; [vm_compute; reflexivity|].
  split; [vm_compute; tauto|].
  split.
  - vm_compute. intros H. repeat (destruct H as [H|H]; [discriminate H|]). exact H.
  - intros Hr.
    apply (Hr 0 1 (Nat.neq_0_succ 0) (Wr (c_calc true 0 0) (fun _ => 0%Z)) (Rd (c_calc true 1 0))).
    + cbn. tauto.
    + cbn. tauto.
    + split; [reflexivity|now left].
Qed.

(* "for all schedules ... every thread obtains the sequential results" is FALSE of the member-scratch model *)
Corollary submanifold_member_scratch_not_sequential :
  exists (ths : list thread) (s0 : store) (sched : list tid) (t : tid) (l : loc),
    ths = threads_of (compile_sub true 1 []) [[SubRplus]; [SubRplus]] /\
    is_merge sched ths /\ In l (footprint (nth t ths [])) /\
    final_store sched ths s0 l <> fst (solo (nth t ths []) s0 []) l.
Proof.
  exists (race_threads true), race_store, race_sched, 0, (p_res 0 0).
  destruct submanifold_ops_race_refuted as [Hm [Hs [Hf _]]].
  split; [reflexivity|].
  split; [assumption|]. split; [cbn; tauto|]. rewrite Hs, Hf. discriminate.
Qed.

(* non-vacuity of the repaired statement: same programs, same schedule, local scratch: 105 *)
Example submanifold_local_scratch_example :
  is_merge race_sched (race_threads false) /\
  final_store race_sched (race_threads false) race_store (p_res 0 0) = 105%Z /\
  final_store race_sched (race_threads false) race_store (p_res 1 0) = 107%Z /\
  race_threads false = threads_of (compile_sub false 1 []) [[SubRplus]; [SubRplus]].
Proof.
  split; [apply is_mergeb_sound; vm_compute; reflexivity|].
  split; [vm_compute; reflexivity|]. split; [vm_compute; reflexivity|].
  reflexivity.
Qed.

(* non-vacuity with fixed dimensions, rminus and dof: n = 3, dimension 1 fixed, three threads *)
Example submanifold_programs_example :
  let progs := [[SubRplus; SubDof]; [SubRminus]; [SubDof; SubRminus; SubRplus]] in
  let ths := threads_of (compile_sub false 3 [1]) progs in
  length (nth 0 ths []) = 23 /\ length (nth 2 ths []) = 41 /\ disjoint_footprintsb ths = true.
Proof. vm_compute. repeat split. Qed.
