(* C18 - proofs about the interleaving model: a family of threads with pairwise disjoint write/access
   footprints behaves, under EVERY schedule and for ANY number of threads, exactly like the threads run
   alone.  Induction on the schedule with an invariant ("each thread, continued alone from the current
   configuration, ends exactly as it does when run alone from the initial store"). *)
From Coq Require Import List Arith ZArith Bool Lia.
Import ListNotations.
From SV Require Import Model.C18_Interleave.

(* ------------------------------------------------------------------ locations, stores *)
Lemma loc_eqb_eq : forall a b, loc_eqb a b = true <-> a = b.
Proof.
  intros [n|t n] [m|u m]; cbn; split; intros H; try discriminate.
  - apply Nat.eqb_eq in H. now subst.
  - inversion H. apply Nat.eqb_refl.
  - apply andb_true_iff in H as [H1 H2]. apply Nat.eqb_eq in H1, H2. now subst.
  - inversion H. now rewrite !Nat.eqb_refl.
Qed.

Lemma loc_eqb_refl : forall a, loc_eqb a a = true.
Proof. intros a. now apply loc_eqb_eq. Qed.

Lemma loc_eqb_neq : forall a b, a <> b -> loc_eqb a b = false.
Proof.
  intros a b Hne. destruct (loc_eqb a b) eqn:E; [|reflexivity].
  apply loc_eqb_eq in E. contradiction.
Qed.

Lemma upd_same : forall s l v, upd s l v l = v.
Proof. intros. unfold upd. now rewrite loc_eqb_refl. Qed.

Lemma upd_other : forall s l v l', l <> l' -> upd s l v l' = s l'.
Proof. intros. unfold upd. now rewrite loc_eqb_neq. Qed.

Lemma mem_loc_In : forall l ls, mem_loc l ls = true <-> In l ls.
Proof.
  intros l ls. unfold mem_loc. rewrite existsb_exists. split.
  - intros [x [Hin Heq]]. apply loc_eqb_eq in Heq. now subst.
  - intros Hin. exists l. split; [assumption|apply loc_eqb_refl].
Qed.

(* ------------------------------------------------------------------ footprints *)
Lemma in_footprint : forall th a, In a th -> In (aloc a) (footprint th).
Proof. intros th a Hin. unfold footprint. now apply in_map. Qed.

Lemma in_writes : forall th a, In a th -> is_write a = true -> In (aloc a) (writes th).
Proof. intros th a Hin Hw. unfold writes. apply in_map. apply filter_In. now split. Qed.

Lemma writes_inv : forall th l, In l (writes th) -> exists a, In a th /\ is_write a = true /\ aloc a = l.
Proof.
  intros th l Hin. unfold writes in Hin. apply in_map_iff in Hin as [a [Ha Hf]].
  apply filter_In in Hf as [Hin Hw]. exists a. auto.
Qed.

Lemma footprint_inv : forall th l, In l (footprint th) -> exists a, In a th /\ aloc a = l.
Proof. intros th l Hin. unfold footprint in Hin. apply in_map_iff in Hin as [a [Ha Hin]]. exists a. auto. Qed.

Lemma writes_in_footprint : forall th l, In l (writes th) -> In l (footprint th).
Proof.
  intros th l Hin. apply writes_inv in Hin as [a [Hin [_ Hl]]]. subst l. now apply in_footprint.
Qed.

(* disjoint footprints = absence of C++ data races (no synchronisation in the model) *)
Theorem disjoint_footprints_iff_race_free : forall ths, disjoint_footprints ths <-> race_free ths.
Proof.
  intros ths. split.
  - intros Hd i j Hij a b Ha Hb [Hloc [Hw|Hw]].
    + apply (Hd i j Hij (aloc a)); [now apply in_writes|]. rewrite Hloc. now apply in_footprint.
    + apply (Hd j i (not_eq_sym Hij) (aloc b)); [now apply in_writes|]. rewrite <- Hloc. now apply in_footprint.
  - intros Hr i j Hij l Hw Hf.
    apply writes_inv in Hw as [a [Ha [Hwa Hla]]]. apply footprint_inv in Hf as [b [Hb Hlb]].
    apply (Hr i j Hij a b Ha Hb). split; [congruence|now left].
Qed.

(* ------------------------------------------------------------------ frame property of solo runs *)
Lemma solo_agree : forall acts (F : loc -> Prop) s s' tr,
  (forall a, In a acts -> F (aloc a)) ->
  (forall l, F l -> s l = s' l) ->
  snd (solo acts s tr) = snd (solo acts s' tr) /\
  (forall l, F l -> fst (solo acts s tr) l = fst (solo acts s' tr) l).
Proof.
  induction acts as [|a r IH]; intros F s s' tr Hin Hag; cbn [solo].
  - split; [reflexivity|assumption].
  - destruct a as [l|l f]; cbn [step_action fst snd].
    + assert (Hl : s l = s' l) by (apply Hag; apply (Hin (Rd l)); now left).
      rewrite Hl. apply IH; [|assumption]. intros a Ha. apply Hin. now right.
    + apply IH.
      * intros a Ha. apply Hin. now right.
      * intros l' Hl'. unfold upd. destruct (loc_eqb l l'); [reflexivity|now apply Hag].
Qed.

(* ------------------------------------------------------------------ set_nth *)
Lemma nth_error_lt : forall (A : Type) (l : list A) n x, nth_error l n = Some x -> n < length l.
Proof. intros A l n x H. apply nth_error_Some. intros Hc. rewrite Hc in H. discriminate. Qed.

Lemma length_set_nth : forall (A : Type) n (x : A) l, length (set_nth n x l) = length l.
Proof. intros A n x l. revert n. induction l as [|y r IH]; intros [|n]; cbn; auto. Qed.

Lemma nth_error_set_nth_eq : forall (A : Type) n (x : A) l, n < length l -> nth_error (set_nth n x l) n = Some x.
Proof.
  intros A n x l. revert n. induction l as [|y r IH]; intros [|n] Hlt; cbn in *; try lia; auto.
  apply IH. lia.
Qed.

Lemma nth_error_set_nth_neq : forall (A : Type) n m (x : A) l, n <> m -> nth_error (set_nth n x l) m = nth_error l m.
Proof.
  intros A n m x l. revert n m. induction l as [|y r IH]; intros [|n] [|m] Hne; cbn; auto; try congruence.
Qed.

(* ------------------------------------------------------------------ the invariant *)
Definition Inv (ths : list thread) (s0 : store) (c : config) : Prop :=
  length (snd c) = length ths /\
  (forall t rest tr, nth_error (snd c) t = Some (rest, tr) ->
     (exists done, nth t ths [] = done ++ rest) /\
     snd (solo rest (fst c) tr) = snd (solo (nth t ths []) s0 []) /\
     (forall l, In l (footprint (nth t ths [])) ->
        fst (solo rest (fst c) tr) l = fst (solo (nth t ths []) s0 []) l)) /\
  (forall l, (forall t, ~ In l (writes (nth t ths []))) -> fst c l = s0 l).

Lemma Inv_init : forall ths s0, Inv ths s0 (init ths s0).
Proof.
  intros ths s0. unfold Inv, init. cbn [fst snd]. split; [apply map_length|]. split; [|reflexivity].
  intros t rest tr Hn. rewrite nth_error_map in Hn.
  destruct (nth_error ths t) as [th|] eqn:E; cbn in Hn; [|discriminate].
  inversion Hn; subst rest tr. assert (Hnth : nth t ths [] = th) by (now apply nth_error_nth). rewrite Hnth.
  split; [exists []; reflexivity|]. split; reflexivity.
Qed.

Lemma Inv_step : forall ths s0 t c, disjoint_footprints ths -> Inv ths s0 c -> Inv ths s0 (step t c).
Proof.
  intros ths s0 t [s ts] Hd HI. unfold step. cbn [fst snd].
  destruct (nth_error ts t) as [[[|a rest] tr]|] eqn:E; try exact HI.
  destruct HI as [Hlen [Hth Hfr]]. cbn [fst snd] in *.
  assert (Ht : t < length ts) by (eapply nth_error_lt; exact E).
  destruct (Hth t _ _ E) as [[done Hdone] [Htr Hst]].
  assert (Hain : In a (nth t ths [])) by (rewrite Hdone; apply in_or_app; right; now left).
  (* the store changes only at a cell written by thread t *)
  assert (Hchg : forall l, fst (step_action a s tr) l <> s l -> In l (writes (nth t ths []))).
  { intros l Hne. destruct a as [l0|l0 f]; cbn [step_action fst] in Hne; [congruence|].
    destruct (loc_eqb l0 l) eqn:El.
    - apply loc_eqb_eq in El. subst l. now apply (in_writes _ (Wr l0 f)).
    - unfold upd in Hne. rewrite El in Hne. congruence. }
  unfold Inv. cbn [fst snd]. split; [now rewrite length_set_nth|]. split.
  - intros u rest' tr' Hn. destruct (Nat.eq_dec u t) as [->|Hne].
    + rewrite nth_error_set_nth_eq in Hn by assumption. inversion Hn; subst rest' tr'.
      split; [exists (done ++ [a]); now rewrite <- app_assoc|].
      cbn [solo] in Htr, Hst. split; assumption.
    + rewrite nth_error_set_nth_neq in Hn by congruence.
      destruct (Hth u _ _ Hn) as [[done' Hdone'] [Htr' Hst']].
      split; [now exists done'|].
      destruct (solo_agree rest' (fun l => In l (footprint (nth u ths []))) (fst (step_action a s tr)) s tr')
        as [Ha1 Ha2].
      * intros b Hb. apply in_footprint. rewrite Hdone'. apply in_or_app. now right.
      * intros l Hl.
        destruct (Z.eq_dec (fst (step_action a s tr) l) (s l)) as [Heq|Hneq]; [assumption|].
        exfalso. apply (Hd t u (not_eq_sym Hne) l); [now apply Hchg|assumption].
      * split; [now rewrite Ha1|]. intros l Hl. rewrite Ha2 by assumption. now apply Hst'.
  - intros l Hnw.
    destruct (Z.eq_dec (fst (step_action a s tr) l) (s l)) as [Heq|Hneq].
    + rewrite Heq. now apply Hfr.
    + exfalso. apply (Hnw t). now apply Hchg.
Qed.

(* for EVERY schedule (complete or not): the invariant *)
Theorem any_schedule_invariant : forall ths s0 sched,
  disjoint_footprints ths -> Inv ths s0 (run sched (init ths s0)).
Proof.
  intros ths s0 sched Hd. generalize (Inv_init ths s0). generalize (init ths s0).
  induction sched as [|t r IH]; intros c HI; cbn [run]; [assumption|].
  apply IH. now apply Inv_step.
Qed.

(* ------------------------------------------------------------------ a merge runs every thread to completion *)
Definition remaining (c : config) (t : tid) : nat :=
  match nth_error (snd c) t with Some (r, _) => length r | None => 0 end.

Lemma remaining_step_same : forall t c, remaining (step t c) t = pred (remaining c t).
Proof.
  intros t [s ts]. unfold step, remaining. cbn [fst snd].
  destruct (nth_error ts t) as [[[|a rest] tr]|] eqn:E; cbn [snd]; rewrite ?E; try reflexivity.
  rewrite nth_error_set_nth_eq; [reflexivity|]. eapply nth_error_lt; exact E.
Qed.

Lemma remaining_step_other : forall t u c, u <> t -> remaining (step t c) u = remaining c u.
Proof.
  intros t u [s ts] Hne. unfold step, remaining. cbn [fst snd].
  destruct (nth_error ts t) as [[[|a rest] tr]|] eqn:E; cbn [snd]; try reflexivity.
  now rewrite nth_error_set_nth_neq by congruence.
Qed.

Lemma remaining_run : forall sched c t,
  remaining (run sched c) t = remaining c t - count_occ Nat.eq_dec sched t.
Proof.
  induction sched as [|u r IH]; intros c t; cbn [run count_occ]; [lia|].
  rewrite IH. destruct (Nat.eq_dec u t) as [->|Hne].
  - rewrite remaining_step_same. lia.
  - rewrite remaining_step_other by congruence. reflexivity.
Qed.

Lemma remaining_init : forall ths s0 t, remaining (init ths s0) t = length (nth t ths []).
Proof.
  intros ths s0 t. unfold remaining, init. cbn [snd]. rewrite nth_error_map.
  destruct (nth_error ths t) as [th|] eqn:E; cbn.
  - assert (Hnth : nth t ths [] = th) by (now apply nth_error_nth). now rewrite Hnth.
  - apply nth_error_None in E. now rewrite nth_overflow.
Qed.

Lemma merge_finishes : forall ths s0 sched t,
  is_merge sched ths -> remaining (run sched (init ths s0)) t = 0.
Proof. intros ths s0 sched t Hm. rewrite remaining_run, remaining_init, (Hm t). lia. Qed.

Lemma is_mergeb_sound : forall sched ths, is_mergeb sched ths = true -> is_merge sched ths.
Proof.
  intros sched ths H. unfold is_mergeb in H. apply andb_true_iff in H as [H1 H2].
  rewrite forallb_forall in H1, H2. intros t.
  destruct (Nat.lt_ge_cases t (length ths)) as [Hlt|Hge].
  - apply Nat.eqb_eq. apply H1. apply in_seq. lia.
  - rewrite nth_overflow by assumption. cbn.
    apply count_occ_not_In. intros Hin. apply H2 in Hin. apply Nat.ltb_lt in Hin. lia.
Qed.

Lemma disjoint_footprintsb_sound : forall ths, disjoint_footprintsb ths = true -> disjoint_footprints ths.
Proof.
  intros ths H i j Hij l Hw Hf. unfold disjoint_footprintsb in H. rewrite forallb_forall in H.
  destruct (Nat.lt_ge_cases i (length ths)) as [Hi|Hi]; [|rewrite nth_overflow in Hw by assumption; contradiction].
  destruct (Nat.lt_ge_cases j (length ths)) as [Hj|Hj]; [|rewrite nth_overflow in Hf by assumption; contradiction].
  assert (Hii : In i (seq 0 (length ths))) by (apply in_seq; lia).
  assert (Hjj : In j (seq 0 (length ths))) by (apply in_seq; lia).
  specialize (H i Hii). rewrite forallb_forall in H. specialize (H j Hjj).
  apply orb_true_iff in H as [H|H]; [apply Nat.eqb_eq in H; contradiction|].
  rewrite forallb_forall in H. specialize (H l Hw). apply negb_true_iff in H.
  apply mem_loc_In in Hf. congruence.
Qed.

(* ------------------------------------------------------------------ main theorem *)
Theorem disjoint_footprints_sequential :
  forall (ths : list thread) (s0 : store) (sched : list tid),
    disjoint_footprints ths ->
    is_merge sched ths ->
    (* every thread runs to completion and has loaded exactly the values it loads when run alone *)
    (forall t, t < length ths ->
       nth_error (snd (run sched (init ths s0))) t = Some ([], snd (solo (nth t ths []) s0 []))) /\
    (* every cell a thread touches ends as that thread alone leaves it ... *)
    (forall t l, In l (footprint (nth t ths [])) ->
       final_store sched ths s0 l = fst (solo (nth t ths []) s0 []) l) /\
    (* ... and every cell nobody writes is unchanged: the final store is the union of the private effects *)
    (forall l, (forall t, ~ In l (writes (nth t ths []))) -> final_store sched ths s0 l = s0 l).
Proof.
  intros ths s0 sched Hd Hm.
  pose proof (any_schedule_invariant ths s0 sched Hd) as [Hlen [Hth Hfr]].
  unfold final_store. split; [|split].
  - intros t Ht.
    destruct (nth_error (snd (run sched (init ths s0))) t) as [[rest tr]|] eqn:E.
    + pose proof (merge_finishes ths s0 sched t Hm) as Hz. unfold remaining in Hz. rewrite E in Hz.
      destruct rest; [|discriminate]. destruct (Hth t _ _ E) as [_ [Htr _]]. cbn [solo snd] in Htr. now rewrite Htr.
    + apply nth_error_None in E. lia.
  - intros t l Hl.
    destruct (Nat.lt_ge_cases t (length ths)) as [Hlt|Hge].
    + destruct (nth_error (snd (run sched (init ths s0))) t) as [[rest tr]|] eqn:E.
      * pose proof (merge_finishes ths s0 sched t Hm) as Hz. unfold remaining in Hz. rewrite E in Hz.
        destruct rest; [|discriminate]. destruct (Hth t _ _ E) as [_ [_ Hst]]. cbn [solo fst] in Hst. now apply Hst.
      * apply nth_error_None in E. lia.
    + rewrite nth_overflow in Hl by assumption. contradiction.
  - assumption.
Qed.

(* the same, with the final store given as an explicit function *)
Lemma union_effects_spec : forall ths s0 l,
  (exists t, In l (writes (nth t ths [])) /\ union_effects ths s0 l = fst (solo (nth t ths []) s0 []) l) \/
  ((forall t, ~ In l (writes (nth t ths []))) /\ union_effects ths s0 l = s0 l).
Proof.
  induction ths as [|th r IH]; intros s0 l; cbn [union_effects].
  - right. split; [|reflexivity]. intros [|t]; cbn; auto.
  - destruct (mem_loc l (writes th)) eqn:E.
    + left. exists 0. split; [now apply mem_loc_In|reflexivity].
    + destruct (IH s0 l) as [[t [Hin Heq]]|[Hno Heq]].
      * left. exists (S t). now split.
      * right. split; [|assumption]. intros [|t]; cbn [nth]; [|apply Hno].
        intros Hin. apply mem_loc_In in Hin. congruence.
Qed.

Corollary final_store_is_union_of_private_effects :
  forall ths s0 sched, disjoint_footprints ths -> is_merge sched ths ->
    forall l, final_store sched ths s0 l = union_effects ths s0 l.
Proof.
  intros ths s0 sched Hd Hm l.
  destruct (disjoint_footprints_sequential ths s0 sched Hd Hm) as [_ [Hfp Hfr]].
  destruct (union_effects_spec ths s0 l) as [[t [Hin Heq]]|[Hno Heq]]; rewrite Heq.
  - apply Hfp. now apply writes_in_footprint.
  - now apply Hfr.
Qed.

Corollary final_trace_is_solo_trace :
  forall ths s0 sched, disjoint_footprints ths -> is_merge sched ths ->
    forall t, t < length ths -> final_trace sched ths s0 t = snd (solo (nth t ths []) s0 []).
Proof.
  intros ths s0 sched Hd Hm t Ht. unfold final_trace.
  destruct (disjoint_footprints_sequential ths s0 sched Hd Hm) as [Htr _]. now rewrite (Htr t Ht).
Qed.

(* schedule determinism: any two interleavings give the same final store and the same loads *)
Corollary schedule_deterministic :
  forall ths s0 sched1 sched2, disjoint_footprints ths -> is_merge sched1 ths -> is_merge sched2 ths ->
    (forall l, final_store sched1 ths s0 l = final_store sched2 ths s0 l) /\
    (forall t, t < length ths -> final_trace sched1 ths s0 t = final_trace sched2 ths s0 t).
Proof.
  intros ths s0 sched1 sched2 Hd H1 H2. split.
  - intros l. now rewrite !final_store_is_union_of_private_effects.
  - intros t Ht. now rewrite !final_trace_is_solo_trace.
Qed.

(* ------------------------------------------------------------------ non-vacuity *)
(* three threads: each loads the shared cells 0 and 1 and stores their sum / difference / product privately *)
Definition ex_thread (t : tid) (f : val -> val -> val) : thread :=
  [Rd (Shared 0); Rd (Shared 1); Wr (Priv t 0) (fun tr => f (nth 1 tr 0%Z) (nth 0 tr 0%Z)); Rd (Priv t 0)].
Definition ex_threads : list thread := [ex_thread 0 Z.add; ex_thread 1 Z.sub; ex_thread 2 Z.mul].
Definition ex_store : store := fun l => match l with Shared 0 => 7%Z | Shared 1 => 3%Z | _ => 0%Z end.
Definition ex_sched : list tid := [2; 0; 1; 1; 0; 2; 2; 0; 1; 0; 2; 1].

Example ex_disjoint : disjoint_footprints ex_threads.
Proof. apply disjoint_footprintsb_sound. vm_compute. reflexivity. Qed.

Example ex_merge : is_merge ex_sched ex_threads.
Proof. apply is_mergeb_sound. vm_compute. reflexivity. Qed.

Example ex_result :
  final_store ex_sched ex_threads ex_store (Priv 0 0) = 10%Z /\
  final_store ex_sched ex_threads ex_store (Priv 1 0) = 4%Z /\
  final_store ex_sched ex_threads ex_store (Priv 2 0) = 21%Z /\
  final_trace ex_sched ex_threads ex_store 1 = [4%Z; 3%Z; 7%Z].
Proof. vm_compute. repeat split. Qed.
