(* C18 - obligations on the MEASURED footprint table (Gen/FootprintC18.v, regenerated on every run from the
   mprotect run of harness/h_c18.cpp against the current headers).  Proved by computation: a new hidden store
   into shared state anywhere in the alphabet changes the table and breaks fp_table_const_except_known; an
   operation class disappearing from the harness breaks fp_table_alphabet_complete. *)
From Coq Require Import List Arith ZArith Bool String.
Import ListNotations.
From SV Require Import Model.C18_Interleave Model.C18_Footprint Model.C18_SubManifold.
From SV Require Import Proofs.C18_Interleave Proofs.C18_ConstOps.
From SV Require Import Gen.FootprintC18.

(* every class of operation named by the property statement was executed and is in the table *)
Lemma fp_table_alphabet_complete : table_alphabet_complete fp_table = true.
Proof. vm_compute. reflexivity. Qed.

(* every operation of the table is free of stores into shared state - except the known finding
   (SubManifold::rplus/rminus storing into m_calc and into nothing else) *)
Lemma fp_table_const_except_known : table_const_except_known fp_table = true.
Proof. vm_compute. reflexivity. Qed.

Lemma measured_const : forall e, In e fp_table -> known_mcalc e = false -> fp_writes_shared e = false.
Proof.
  intros e Hin Hk. pose proof fp_table_const_except_known as H. unfold table_const_except_known in H.
  rewrite forallb_forall in H. specialize (H e Hin). rewrite Hk, orb_false_r in H. now apply negb_true_iff.
Qed.

(* the property for the measured alphabet: any number of threads, any programs over the measured operations
   (the known finding excluded), every schedule *)
Theorem measured_alphabet_race_free : forall progs : list (list fp_entry),
  (forall i e, In e (nth i progs []) -> In e fp_table /\ known_mcalc e = false) ->
  let ths := threads_of compile_entry progs in
  race_free ths /\
  forall (s0 : store) (sched : list tid), is_merge sched ths ->
    (forall t, t < List.length progs -> final_trace sched ths s0 t = snd (solo (nth t ths []) s0 [])) /\
    (forall t l, In l (footprint (nth t ths [])) ->
       final_store sched ths s0 l = fst (solo (nth t ths []) s0 []) l) /\
    (forall l, final_store sched ths s0 l = union_effects ths s0 l).
Proof.
  intros progs Hin. apply table_entries_race_free.
  intros i e He. destruct (Hin i e He) as [Ht Hk]. now apply measured_const.
Qed.

(* non-vacuity: the table has operations outside the known finding, and a 3-thread program over them *)
Example measured_alphabet_nonempty :
  List.length (filter (fun e => negb (known_mcalc e)) fp_table) >= 40 /\
  (exists e, In e fp_table /\ known_mcalc e = false /\ fp_class e = "Spline::eval"%string).
Proof.
  split; [vm_compute; repeat constructor|].
  destruct (find (fun e => negb (known_mcalc e) && String.eqb (fp_class e) "Spline::eval") fp_table) as [e|] eqn:E;
    [|vm_compute in E; discriminate E].
  exists e. apply find_some in E as [Hin Hb]. apply andb_true_iff in Hb as [H1 H2].
  split; [assumption|]. split; [now apply negb_true_iff|now apply String.eqb_eq].
Qed.

(* SubManifold: the model instance that describes the current tree is selected by the measurement *)
Definition mcalc_member_now : bool := mcalc_is_shared_member fp_table.

Theorem submanifold_current_tree :
  (* scratch measured to be a local: SubManifold's const operations are race free under every schedule *)
  (mcalc_member_now = false ->
     (forall e, In e fp_table -> fp_writes_shared e = false) /\
     forall (n : nat) (fixed : list nat) (progs : list (list subop)),
       let ths := threads_of (compile_sub mcalc_member_now n fixed) progs in
       race_free ths /\
       forall (s0 : store) (sched : list tid), is_merge sched ths ->
         (forall t, t < List.length progs -> final_trace sched ths s0 t = snd (solo (nth t ths []) s0 [])) /\
         (forall l, final_store sched ths s0 l = union_effects ths s0 l)) /\
  (* scratch measured to be the shared member m_calc: the property is refuted by an explicit schedule *)
  (mcalc_member_now = true ->
     exists (ths : list thread) (s0 : store) (sched : list tid) (t : tid) (l : loc),
       ths = threads_of (compile_sub mcalc_member_now 1 []) [[SubRplus]; [SubRplus]] /\
       is_merge sched ths /\ In l (footprint (nth t ths [])) /\
       final_store sched ths s0 l <> fst (solo (nth t ths []) s0 []) l).
Proof.
  split; intros Hm; rewrite Hm.
  - split.
    + intros e Hin. destruct (fp_writes_shared e) eqn:Ew; [|reflexivity].
      destruct (known_mcalc e) eqn:Ek; [|now rewrite (measured_const e Hin Ek) in Ew].
      unfold mcalc_member_now, mcalc_is_shared_member in Hm.
      assert (Hex : existsb (fun e0 => fp_writes_shared e0 && known_mcalc e0) fp_table = true).
      { apply existsb_exists. exists e. split; [assumption|]. now rewrite Ew, Ek. }
      congruence.
    + intros n fixed progs ths.
      destruct (submanifold_local_scratch_race_free n fixed progs) as [Hr Hs]. fold ths in Hr, Hs.
      split; [assumption|]. intros s0 sched Hmerge. destruct (Hs s0 sched Hmerge) as [H1 [_ H3]]. now split.
  - exact submanifold_member_scratch_not_sequential.
Qed.
