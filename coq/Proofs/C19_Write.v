(* C19: frame / structure theorems of the block writer model, for all host matrices, offsets and write lists. *)
From Coq Require Import Reals List Bool Arith Lia.
From SV Require Import Base.Mat Model.C19_Sparse.
Import ListNotations.
Local Open Scope R_scope.

Lemma pos_eqb_eq a b : pos_eqb a b = true <-> a = b.
Proof.
  destruct a as [a1 a2], b as [b1 b2]. unfold pos_eqb; cbn [fst snd].
  rewrite andb_true_iff, !Nat.eqb_eq. split; [intros [-> ->]; reflexivity | intros H; inversion H; auto].
Qed.
Lemma pos_eqb_refl a : pos_eqb a a = true.
Proof. apply pos_eqb_eq; reflexivity. Qed.
Lemma pos_eqb_neq a b : a <> b -> pos_eqb a b = false.
Proof. intros H. destruct (pos_eqb a b) eqn:E; [apply pos_eqb_eq in E; contradiction | reflexivity]. Qed.

(* a successful update never changes the structure (key list), i.e. nonZeros / compressed-ness are preserved *)
Lemma sp_set_keys s k v s' : sp_set s k v = Some s' -> keys s' = keys s.
Proof.
  revert s'. induction s as [|[k' v'] r IH]; cbn [sp_set]; intros s' H; [discriminate|].
  destruct (pos_eqb k' k) eqn:E.
  - inversion H; subst. reflexivity.
  - destruct (sp_set r k v) as [r'|] eqn:E2; [|discriminate]. inversion H; subst. cbn. f_equal. apply IH; reflexivity.
Qed.

(* ... and it succeeds exactly when the key is in the structure *)
Lemma sp_set_some_iff s k v : (exists s', sp_set s k v = Some s') <-> In k (keys s).
Proof.
  induction s as [|[k' v'] r IH]; cbn [sp_set keys map In].
  - split; [intros [s' H]; discriminate | intros []].
  - destruct (pos_eqb k' k) eqn:E.
    + apply pos_eqb_eq in E. subst. split; [intros _; left; reflexivity | intros _; eexists; reflexivity].
    + split.
      * intros [s' H]. destruct (sp_set r k v) eqn:E2; [|discriminate]. right. apply IH. eexists; reflexivity.
      * intros [H|H]; [subst; rewrite pos_eqb_refl in E; discriminate|].
        apply IH in H. destruct H as [r' Hr']. fold keys in *. rewrite Hr'. eexists; reflexivity.
Qed.

(* frame: every other stored entry keeps its value; the written one gets the new value (first occurrence) *)
Lemma sp_set_get_other s k v s' k2 : sp_set s k v = Some s' -> k2 <> k -> sp_get s' k2 = sp_get s k2.
Proof.
  revert s'. induction s as [|[k' v'] r IH]; cbn [sp_set]; intros s' H Hne; [discriminate|].
  destruct (pos_eqb k' k) eqn:E.
  - inversion H; subst. apply pos_eqb_eq in E. subst. cbn [sp_get]. rewrite (pos_eqb_neq k k2) by congruence. reflexivity.
  - destruct (sp_set r k v) as [r'|] eqn:E2; [|discriminate]. inversion H; subst. cbn [sp_get].
    destruct (pos_eqb k' k2); [reflexivity | apply IH; [reflexivity | assumption]].
Qed.
Lemma sp_set_get_same s k v s' : sp_set s k v = Some s' -> sp_get s' k = Some v.
Proof.
  revert s'. induction s as [|[k' v'] r IH]; cbn [sp_set]; intros s' H; [discriminate|].
  destruct (pos_eqb k' k) eqn:E.
  - inversion H; subst. cbn [sp_get]. rewrite E. reflexivity.
  - destruct (sp_set r k v) as [r'|] eqn:E2; [|discriminate]. inversion H; subst. cbn [sp_get]. rewrite E. apply IH; reflexivity.
Qed.

(* whole write lists *)
Theorem write_keeps_structure s kvs s' : sp_write s kvs = Some s' -> keys s' = keys s.
Proof.
  revert s s'. induction kvs as [|[k v] r IH]; cbn [sp_write]; intros s s' H.
  - inversion H; reflexivity.
  - destruct (sp_set s k v) as [s1|] eqn:E; [|discriminate]. rewrite (IH _ _ H). eapply sp_set_keys; eassumption.
Qed.

Theorem write_succeeds_iff_structure_contains s kvs :
  (exists s', sp_write s kvs = Some s') <-> (forall k, In k (map fst kvs) -> In k (keys s)).
Proof.
  revert s. induction kvs as [|[k v] r IH]; intros s; cbn [sp_write map fst In].
  - split; [intros _ k []| intros _; eexists; reflexivity].
  - split.
    + intros [s' H]. destruct (sp_set s k v) as [s1|] eqn:E; [|discriminate].
      intros k2 [<-|Hin].
      * apply (sp_set_some_iff s k v). eexists; eassumption.
      * rewrite <- (sp_set_keys _ _ _ _ E). apply (proj1 (IH s1)); [eexists; eassumption | assumption].
    + intros Hall. assert (Hk : In k (keys s)) by (apply Hall; left; reflexivity).
      apply (sp_set_some_iff s k v) in Hk. destruct Hk as [s1 E]. rewrite E.
      apply IH. intros k2 Hin. rewrite (sp_set_keys _ _ _ _ E). apply Hall. right; assumption.
Qed.

Theorem write_frame s kvs s' k2 :
  sp_write s kvs = Some s' -> ~ In k2 (map fst kvs) -> sp_get s' k2 = sp_get s k2.
Proof.
  revert s s'. induction kvs as [|[k v] r IH]; cbn [sp_write map fst In]; intros s s' H Hn.
  - inversion H; reflexivity.
  - destruct (sp_set s k v) as [s1|] eqn:E; [|discriminate].
    rewrite (IH _ _ H) by tauto. eapply sp_set_get_other; [eassumption | intros ->; tauto].
Qed.

Theorem write_block_values s kvs s' k v :
  sp_write s kvs = Some s' -> NoDup (map fst kvs) -> In (k, v) kvs -> sp_get s' k = Some v.
Proof.
  revert s s'. induction kvs as [|[k1 v1] r IH]; cbn [sp_write map fst In]; intros s s' H Hnd Hin; [contradiction|].
  destruct (sp_set s k1 v1) as [s1|] eqn:E; [|discriminate]. inversion Hnd as [|? ? Hnotin Hnd']; subst.
  destruct Hin as [Heq|Hin].
  - inversion Heq; subst. rewrite (write_frame _ _ _ _ H Hnotin). eapply sp_set_get_same; eassumption.
  - eapply IH; eassumption.
Qed.

(* the two position maps are injective (distinct pattern entries are written to distinct host entries) *)
Lemma jac_pos_inj i0 a b : jac_pos i0 a = jac_pos i0 b -> a = b.
Proof. destruct a, b; unfold jac_pos; cbn. intros H; inversion H. f_equal; lia. Qed.

Lemma hess_pos_inj rows dof i0 a b :
  (0 < dof)%nat -> (i0 + dof <= rows)%nat -> hess_pos rows dof i0 a = hess_pos rows dof i0 b -> a = b.
Proof.
  destruct a as [r1 c1], b as [r2 c2]; unfold hess_pos; cbn [fst snd]. intros Hd Hle H. inversion H as [[Hr Hc]].
  assert (r1 = r2) by lia. subst. f_equal.
  pose proof (Nat.mod_upper_bound c1 dof ltac:(lia)). pose proof (Nat.mod_upper_bound c2 dof ltac:(lia)).
  assert (Hq : (c1 / dof = c2 / dof)%nat /\ (c1 mod dof = c2 mod dof)%nat).
  { assert (A : (rows * (c1 / dof) + c1 mod dof = rows * (c2 / dof) + c2 mod dof)%nat) by nia.
    assert (c1 mod dof < rows /\ c2 mod dof < rows)%nat by lia.
    destruct (Nat.lt_trichotomy (c1 / dof) (c2 / dof)) as [L|[E|L]]; [exfalso; nia | split; [exact E | nia] | exfalso; nia]. }
  destruct Hq as [Hq Hm]. rewrite (Nat.div_mod c1 dof), (Nat.div_mod c2 dof) by lia. rewrite Hq, Hm. reflexivity.
Qed.

Example write_nonvacuous :
  sp_write [((0, 0)%nat, 7); ((1, 0)%nat, 8); ((1, 1)%nat, 9)] [((1, 0)%nat, 5)] = Some [((0, 0)%nat, 7); ((1, 0)%nat, 5); ((1, 1)%nat, 9)].
Proof. reflexivity. Qed.
