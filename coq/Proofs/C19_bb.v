(* Written with scripts/author/c19.py (committed output; the check builds this file against
   the freshly generated Gen/BB.v).  Property C19. *)
From Coq Require Import Reals List Lra.
From SV Require Import Base.GenPrelude Base.Mat Doc.Groups Base.Tactics Gen.BB.
From SV Require Import Model.C19_Sparse Gen.PatternsC19.
Import ListNotations.
Local Open Scope R_scope.

Lemma bb_ad_pattern_complete :
  forall a0 a1 a2 a3 a4 out, Gen.BB.bb_ad_rel [a0; a1; a2; a3; a4] out ->
  all_zero (off_entries Gen.PatternsC19.bb_ad_pattern 5 5 out).
Proof.
  intros a0 a1 a2 a3 a4 out Hrel. rel_cases Hrel; unfold all_zero;
  autounfold with bb_ad_db;
  lazy [off_entries inpat existsb bb_ad_pattern mget nth map seq concat app length repeat fst snd andb orb Nat.eqb Nat.add]; reflexivity.
Qed.

Lemma bb_dr_exp_pattern_complete :
  forall a0 a1 a2 a3 a4 out, Gen.BB.bb_dr_exp_rel [a0; a1; a2; a3; a4] out ->
  all_zero (off_entries Gen.PatternsC19.bb_d_exp_pattern 5 5 out).
Proof.
  intros a0 a1 a2 a3 a4 out Hrel. rel_cases Hrel; unfold all_zero;
  autounfold with bb_dr_exp_db;
  lazy [off_entries inpat existsb bb_d_exp_pattern mget nth map seq concat app length repeat fst snd andb orb Nat.eqb Nat.add]; reflexivity.
Qed.

Lemma bb_dr_expinv_pattern_complete :
  forall a0 a1 a2 a3 a4 out, Gen.BB.bb_dr_expinv_rel [a0; a1; a2; a3; a4] out ->
  all_zero (off_entries Gen.PatternsC19.bb_d_exp_pattern 5 5 out).
Proof.
  intros a0 a1 a2 a3 a4 out Hrel. rel_cases Hrel; unfold all_zero;
  autounfold with bb_dr_expinv_db;
  lazy [off_entries inpat existsb bb_d_exp_pattern mget nth map seq concat app length repeat fst snd andb orb Nat.eqb Nat.add]; reflexivity.
Qed.

Lemma bb_d2r_exp_pattern_complete :
  forall a0 a1 a2 a3 a4 out, Gen.BB.bb_d2r_exp_rel [a0; a1; a2; a3; a4] out ->
  all_zero (off_entries Gen.PatternsC19.bb_d2_exp_pattern 5 25 out).
Proof.
  intros a0 a1 a2 a3 a4 out Hrel. rel_cases Hrel; unfold all_zero;
  autounfold with bb_d2r_exp_db;
  lazy [off_entries inpat existsb bb_d2_exp_pattern mget nth map seq concat app length repeat fst snd andb orb Nat.eqb Nat.add]; reflexivity.
Qed.

Lemma bb_d2r_expinv_pattern_complete :
  forall a0 a1 a2 a3 a4 out, Gen.BB.bb_d2r_expinv_rel [a0; a1; a2; a3; a4] out ->
  all_zero (off_entries Gen.PatternsC19.bb_d2_exp_pattern 5 25 out).
Proof.
  intros a0 a1 a2 a3 a4 out Hrel. rel_cases Hrel; unfold all_zero;
  autounfold with bb_d2r_expinv_db;
  lazy [off_entries inpat existsb bb_d2_exp_pattern mget nth map seq concat app length repeat fst snd andb orb Nat.eqb Nat.add]; reflexivity.
Qed.

