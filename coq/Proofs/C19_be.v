(* Written with scripts/author/c19.py (committed output; the check builds this file against
   the freshly generated Gen/BE.v).  Property C19. *)
From Coq Require Import Reals List Lra.
From SV Require Import Base.GenPrelude Base.Mat Doc.Groups Base.Tactics Gen.BE.
From SV Require Import Model.C19_Sparse Gen.PatternsC19.
Import ListNotations.
Local Open Scope R_scope.

Lemma be_ad_pattern_complete :
  forall a0 a1 a2 a3 a4 a5 a6 a7 a8 out, Gen.BE.be_ad_rel [a0; a1; a2; a3; a4; a5; a6; a7; a8] out ->
  all_zero (off_entries Gen.PatternsC19.be_ad_pattern 9 9 out).
Proof.
  intros a0 a1 a2 a3 a4 a5 a6 a7 a8 out Hrel. rel_cases Hrel; unfold all_zero;
  autounfold with be_ad_db;
  lazy [off_entries inpat existsb be_ad_pattern mget nth map seq concat app length repeat fst snd andb orb Nat.eqb Nat.add]; reflexivity.
Qed.

Lemma be_dr_exp_pattern_complete :
  forall a0 a1 a2 a3 a4 a5 a6 a7 a8 out, Gen.BE.be_dr_exp_rel [a0; a1; a2; a3; a4; a5; a6; a7; a8] out ->
  all_zero (off_entries Gen.PatternsC19.be_d_exp_pattern 9 9 out).
Proof.
  intros a0 a1 a2 a3 a4 a5 a6 a7 a8 out Hrel. rel_cases Hrel; unfold all_zero;
  autounfold with be_dr_exp_db;
  lazy [off_entries inpat existsb be_d_exp_pattern mget nth map seq concat app length repeat fst snd andb orb Nat.eqb Nat.add]; reflexivity.
Qed.

Lemma be_dr_expinv_pattern_complete :
  forall a0 a1 a2 a3 a4 a5 a6 a7 a8 out, Gen.BE.be_dr_expinv_rel [a0; a1; a2; a3; a4; a5; a6; a7; a8] out ->
  all_zero (off_entries Gen.PatternsC19.be_d_exp_pattern 9 9 out).
Proof.
  intros a0 a1 a2 a3 a4 a5 a6 a7 a8 out Hrel. rel_cases Hrel; unfold all_zero;
  autounfold with be_dr_expinv_db;
  lazy [off_entries inpat existsb be_d_exp_pattern mget nth map seq concat app length repeat fst snd andb orb Nat.eqb Nat.add]; reflexivity.
Qed.

Lemma be_d2r_exp_pattern_complete :
  forall a0 a1 a2 a3 a4 a5 a6 a7 a8 out, Gen.BE.be_d2r_exp_rel [a0; a1; a2; a3; a4; a5; a6; a7; a8] out ->
  all_zero (off_entries Gen.PatternsC19.be_d2_exp_pattern 9 81 out).
Proof.
  intros a0 a1 a2 a3 a4 a5 a6 a7 a8 out Hrel. rel_cases Hrel; unfold all_zero;
  autounfold with be_d2r_exp_db;
  lazy [off_entries inpat existsb be_d2_exp_pattern mget nth map seq concat app length repeat fst snd andb orb Nat.eqb Nat.add]; reflexivity.
Qed.

Lemma be_d2r_expinv_pattern_complete :
  forall a0 a1 a2 a3 a4 a5 a6 a7 a8 out, Gen.BE.be_d2r_expinv_rel [a0; a1; a2; a3; a4; a5; a6; a7; a8] out ->
  all_zero (off_entries Gen.PatternsC19.be_d2_exp_pattern 9 81 out).
Proof.
  intros a0 a1 a2 a3 a4 a5 a6 a7 a8 out Hrel. rel_cases Hrel; unfold all_zero;
  autounfold with be_d2r_expinv_db;
  lazy [off_entries inpat existsb be_d2_exp_pattern mget nth map seq concat app length repeat fst snd andb orb Nat.eqb Nat.add]; reflexivity.
Qed.

