(* Written with scripts/author/c19.py (committed output; the check builds this file against
   the freshly generated Gen/BEi.v).  Property C19. *)
From Coq Require Import Reals List Lra.
From SV Require Import Base.GenPrelude Base.Mat Doc.Groups Base.Tactics Gen.BEi.
From SV Require Import Model.C19_Sparse Gen.PatternsC19.
Import ListNotations.
Local Open Scope R_scope.

Lemma bei_ad_pattern_complete :
  forall a0 a1 a2 out, Gen.BEi.bei_ad_rel [a0; a1; a2] out ->
  all_zero (off_entries Gen.PatternsC19.bei_ad_pattern 3 3 out).
Proof.
  intros a0 a1 a2 out Hrel. rel_cases Hrel; unfold all_zero;
  autounfold with bei_ad_db;
  lazy [off_entries inpat existsb bei_ad_pattern mget nth map seq concat app length repeat fst snd andb orb Nat.eqb Nat.add]; reflexivity.
Qed.

Lemma bei_dr_exp_pattern_complete :
  forall a0 a1 a2 out, Gen.BEi.bei_dr_exp_rel [a0; a1; a2] out ->
  all_zero (off_entries Gen.PatternsC19.bei_d_exp_pattern 3 3 out).
Proof.
  intros a0 a1 a2 out Hrel. rel_cases Hrel; unfold all_zero;
  autounfold with bei_dr_exp_db;
  lazy [off_entries inpat existsb bei_d_exp_pattern mget nth map seq concat app length repeat fst snd andb orb Nat.eqb Nat.add]; reflexivity.
Qed.

Lemma bei_dr_expinv_pattern_complete :
  forall a0 a1 a2 out, Gen.BEi.bei_dr_expinv_rel [a0; a1; a2] out ->
  all_zero (off_entries Gen.PatternsC19.bei_d_exp_pattern 3 3 out).
Proof.
  intros a0 a1 a2 out Hrel. rel_cases Hrel; unfold all_zero;
  autounfold with bei_dr_expinv_db;
  lazy [off_entries inpat existsb bei_d_exp_pattern mget nth map seq concat app length repeat fst snd andb orb Nat.eqb Nat.add]; reflexivity.
Qed.

Lemma bei_d2r_exp_pattern_complete :
  forall a0 a1 a2 out, Gen.BEi.bei_d2r_exp_rel [a0; a1; a2] out ->
  all_zero (off_entries Gen.PatternsC19.bei_d2_exp_pattern 3 9 out).
Proof.
  intros a0 a1 a2 out Hrel. rel_cases Hrel; unfold all_zero;
  autounfold with bei_d2r_exp_db;
  lazy [off_entries inpat existsb bei_d2_exp_pattern mget nth map seq concat app length repeat fst snd andb orb Nat.eqb Nat.add]; reflexivity.
Qed.

Lemma bei_d2r_expinv_pattern_complete :
  forall a0 a1 a2 out, Gen.BEi.bei_d2r_expinv_rel [a0; a1; a2] out ->
  all_zero (off_entries Gen.PatternsC19.bei_d2_exp_pattern 3 9 out).
Proof.
  intros a0 a1 a2 out Hrel. rel_cases Hrel; unfold all_zero;
  autounfold with bei_d2r_expinv_db;
  lazy [off_entries inpat existsb bei_d2_exp_pattern mget nth map seq concat app length repeat fst snd andb orb Nat.eqb Nat.add]; reflexivity.
Qed.

