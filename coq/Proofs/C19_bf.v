(* Written with scripts/author/c19.py (committed output; the check builds this file against
   the freshly generated Gen/BF.v).  Property C19. *)
From Coq Require Import Reals List Lra.
From SV Require Import Base.GenPrelude Base.Mat Doc.Groups Base.Tactics Gen.BF.
From SV Require Import Model.C19_Sparse Gen.PatternsC19.
Import ListNotations.
Local Open Scope R_scope.

Lemma bf_ad_pattern_complete :
  forall a0 a1 a2 a3 a4 a5 a6 a7 out, Gen.BF.bf_ad_rel [a0; a1; a2; a3; a4; a5; a6; a7] out ->
  all_zero (off_entries Gen.PatternsC19.bf_ad_pattern 8 8 out).
Proof.
  intros a0 a1 a2 a3 a4 a5 a6 a7 out Hrel. rel_cases Hrel; unfold all_zero;
  autounfold with bf_ad_db;
  lazy [off_entries inpat existsb bf_ad_pattern mget nth map seq concat app length repeat fst snd andb orb Nat.eqb Nat.add]; reflexivity.
Qed.

Lemma bf_dr_exp_pattern_complete :
  forall a0 a1 a2 a3 a4 a5 a6 a7 out, Gen.BF.bf_dr_exp_rel [a0; a1; a2; a3; a4; a5; a6; a7] out ->
  all_zero (off_entries Gen.PatternsC19.bf_d_exp_pattern 8 8 out).
Proof.
  intros a0 a1 a2 a3 a4 a5 a6 a7 out Hrel. rel_cases Hrel; unfold all_zero;
  autounfold with bf_dr_exp_db;
  lazy [off_entries inpat existsb bf_d_exp_pattern mget nth map seq concat app length repeat fst snd andb orb Nat.eqb Nat.add]; reflexivity.
Qed.

Lemma bf_dr_expinv_pattern_complete :
  forall a0 a1 a2 a3 a4 a5 a6 a7 out, Gen.BF.bf_dr_expinv_rel [a0; a1; a2; a3; a4; a5; a6; a7] out ->
  all_zero (off_entries Gen.PatternsC19.bf_d_exp_pattern 8 8 out).
Proof.
  intros a0 a1 a2 a3 a4 a5 a6 a7 out Hrel. rel_cases Hrel; unfold all_zero;
  autounfold with bf_dr_expinv_db;
  lazy [off_entries inpat existsb bf_d_exp_pattern mget nth map seq concat app length repeat fst snd andb orb Nat.eqb Nat.add]; reflexivity.
Qed.

Lemma bf_d2r_exp_pattern_complete :
  forall a0 a1 a2 a3 a4 a5 a6 a7 out, Gen.BF.bf_d2r_exp_rel [a0; a1; a2; a3; a4; a5; a6; a7] out ->
  all_zero (off_entries Gen.PatternsC19.bf_d2_exp_pattern 8 64 out).
Proof.
  intros a0 a1 a2 a3 a4 a5 a6 a7 out Hrel. rel_cases Hrel; unfold all_zero;
  autounfold with bf_d2r_exp_db;
  lazy [off_entries inpat existsb bf_d2_exp_pattern mget nth map seq concat app length repeat fst snd andb orb Nat.eqb Nat.add]; reflexivity.
Qed.

Lemma bf_d2r_expinv_pattern_complete :
  forall a0 a1 a2 a3 a4 a5 a6 a7 out, Gen.BF.bf_d2r_expinv_rel [a0; a1; a2; a3; a4; a5; a6; a7] out ->
  all_zero (off_entries Gen.PatternsC19.bf_d2_exp_pattern 8 64 out).
Proof.
  intros a0 a1 a2 a3 a4 a5 a6 a7 out Hrel. rel_cases Hrel; unfold all_zero;
  autounfold with bf_d2r_expinv_db;
  lazy [off_entries inpat existsb bf_d2_exp_pattern mget nth map seq concat app length repeat fst snd andb orb Nat.eqb Nat.add]; reflexivity.
Qed.

