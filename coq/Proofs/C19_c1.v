(* Written with scripts/author/c19.py (committed output; the check builds this file against
   the freshly generated Gen/C1.v).  Property C19. *)
From Coq Require Import Reals List Lra.
From SV Require Import Base.GenPrelude Base.Mat Doc.Groups Base.Tactics Gen.C1.
From SV Require Import Model.C19_Sparse Gen.PatternsC19.
Import ListNotations.
Local Open Scope R_scope.

Lemma c1_ad_pattern_complete :
  forall a0 a1 out, Gen.C1.c1_ad_rel [a0; a1] out ->
  all_zero (off_entries Gen.PatternsC19.c1_ad_pattern 2 2 out).
Proof.
  intros a0 a1 out Hrel. rel_cases Hrel; unfold all_zero;
  autounfold with c1_ad_db;
  lazy [off_entries inpat existsb c1_ad_pattern mget nth map seq concat app length repeat fst snd andb orb Nat.eqb Nat.add]; reflexivity.
Qed.

Lemma c1_dr_exp_pattern_complete :
  forall a0 a1 out, Gen.C1.c1_dr_exp_rel [a0; a1] out ->
  all_zero (off_entries Gen.PatternsC19.c1_d_exp_pattern 2 2 out).
Proof.
  intros a0 a1 out Hrel. rel_cases Hrel; unfold all_zero;
  autounfold with c1_dr_exp_db;
  lazy [off_entries inpat existsb c1_d_exp_pattern mget nth map seq concat app length repeat fst snd andb orb Nat.eqb Nat.add]; reflexivity.
Qed.

Lemma c1_dr_expinv_pattern_complete :
  forall a0 a1 out, Gen.C1.c1_dr_expinv_rel [a0; a1] out ->
  all_zero (off_entries Gen.PatternsC19.c1_d_exp_pattern 2 2 out).
Proof.
  intros a0 a1 out Hrel. rel_cases Hrel; unfold all_zero;
  autounfold with c1_dr_expinv_db;
  lazy [off_entries inpat existsb c1_d_exp_pattern mget nth map seq concat app length repeat fst snd andb orb Nat.eqb Nat.add]; reflexivity.
Qed.

Lemma c1_d2r_exp_pattern_complete :
  forall a0 a1 out, Gen.C1.c1_d2r_exp_rel [a0; a1] out ->
  all_zero (off_entries Gen.PatternsC19.c1_d2_exp_pattern 2 4 out).
Proof.
  intros a0 a1 out Hrel. rel_cases Hrel; unfold all_zero;
  autounfold with c1_d2r_exp_db;
  lazy [off_entries inpat existsb c1_d2_exp_pattern mget nth map seq concat app length repeat fst snd andb orb Nat.eqb Nat.add]; reflexivity.
Qed.

Lemma c1_d2r_expinv_pattern_complete :
  forall a0 a1 out, Gen.C1.c1_d2r_expinv_rel [a0; a1] out ->
  all_zero (off_entries Gen.PatternsC19.c1_d2_exp_pattern 2 4 out).
Proof.
  intros a0 a1 out Hrel. rel_cases Hrel; unfold all_zero;
  autounfold with c1_d2r_expinv_db;
  lazy [off_entries inpat existsb c1_d2_exp_pattern mget nth map seq concat app length repeat fst snd andb orb Nat.eqb Nat.add]; reflexivity.
Qed.

