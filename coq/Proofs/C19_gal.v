(* Written with scripts/author/c19.py (committed output; the check builds this file against
   the freshly generated Gen/Galilei.v).  Property C19. *)
From Coq Require Import Reals List Lra.
From SV Require Import Base.GenPrelude Base.Mat Doc.Groups Base.Tactics Gen.Galilei.
From SV Require Import Model.C19_Sparse Gen.PatternsC19.
Import ListNotations.
Local Open Scope R_scope.

Lemma gal_ad_pattern_complete :
  forall a0 a1 a2 a3 a4 a5 a6 a7 a8 a9 out, Gen.Galilei.gal_ad_rel [a0; a1; a2; a3; a4; a5; a6; a7; a8; a9] out ->
  all_zero (off_entries Gen.PatternsC19.gal_ad_pattern 10 10 out).
Proof.
  intros a0 a1 a2 a3 a4 a5 a6 a7 a8 a9 out Hrel. rel_cases Hrel; unfold all_zero;
  autounfold with gal_ad_db;
  lazy [off_entries inpat existsb gal_ad_pattern mget nth map seq concat app length repeat fst snd andb orb Nat.eqb Nat.add]; reflexivity.
Qed.

Lemma gal_dr_exp_pattern_complete :
  forall a0 a1 a2 a3 a4 a5 a6 a7 a8 a9 out, Gen.Galilei.gal_dr_exp_rel [a0; a1; a2; a3; a4; a5; a6; a7; a8; a9] out ->
  all_zero (off_entries Gen.PatternsC19.gal_d_exp_pattern 10 10 out).
Proof.
  intros a0 a1 a2 a3 a4 a5 a6 a7 a8 a9 out Hrel. rel_cases Hrel; unfold all_zero;
  autounfold with gal_dr_exp_db;
  lazy [off_entries inpat existsb gal_d_exp_pattern mget nth map seq concat app length repeat fst snd andb orb Nat.eqb Nat.add]; reflexivity.
Qed.

Lemma gal_dr_expinv_pattern_complete :
  forall a0 a1 a2 a3 a4 a5 a6 a7 a8 a9 out, Gen.Galilei.gal_dr_expinv_rel [a0; a1; a2; a3; a4; a5; a6; a7; a8; a9] out ->
  all_zero (off_entries Gen.PatternsC19.gal_d_exp_pattern 10 10 out).
Proof.
  intros a0 a1 a2 a3 a4 a5 a6 a7 a8 a9 out Hrel. rel_cases Hrel; unfold all_zero;
  autounfold with gal_dr_expinv_db;
  lazy [off_entries inpat existsb gal_d_exp_pattern mget nth map seq concat app length repeat fst snd andb orb Nat.eqb Nat.add]; reflexivity.
Qed.

