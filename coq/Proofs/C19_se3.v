(* Written with scripts/author/c19.py (committed output; the check builds this file against
   the freshly generated Gen/SE3.v).  Property C19. *)
From Coq Require Import Reals List Lra.
From SV Require Import Base.GenPrelude Base.Mat Doc.Groups Base.Tactics Gen.SE3 Gen.SE3H.
From SV Require Import Model.C19_Sparse Gen.PatternsC19.
Import ListNotations.
Local Open Scope R_scope.

Lemma se3_ad_pattern_complete :
  forall a0 a1 a2 a3 a4 a5 out, Gen.SE3.se3_ad_rel [a0; a1; a2; a3; a4; a5] out ->
  all_zero (off_entries Gen.PatternsC19.se3_ad_pattern 6 6 out).
Proof.
  intros a0 a1 a2 a3 a4 a5 out Hrel. rel_cases Hrel; unfold all_zero;
  autounfold with se3_ad_db;
  lazy [off_entries inpat existsb se3_ad_pattern mget nth map seq concat app length repeat fst snd andb orb Nat.eqb Nat.add]; reflexivity.
Qed.

Lemma se3_dr_exp_pattern_complete :
  forall a0 a1 a2 a3 a4 a5 out, Gen.SE3.se3_dr_exp_rel [a0; a1; a2; a3; a4; a5] out ->
  all_zero (off_entries Gen.PatternsC19.se3_d_exp_pattern 6 6 out).
Proof.
  intros a0 a1 a2 a3 a4 a5 out Hrel. rel_cases Hrel; unfold all_zero;
  autounfold with se3_dr_exp_db;
  lazy [off_entries inpat existsb se3_d_exp_pattern mget nth map seq concat app length repeat fst snd andb orb Nat.eqb Nat.add]; reflexivity.
Qed.

Lemma se3_dr_expinv_pattern_complete :
  forall a0 a1 a2 a3 a4 a5 out, Gen.SE3.se3_dr_expinv_rel [a0; a1; a2; a3; a4; a5] out ->
  all_zero (off_entries Gen.PatternsC19.se3_d_exp_pattern 6 6 out).
Proof.
  intros a0 a1 a2 a3 a4 a5 out Hrel. rel_cases Hrel; unfold all_zero;
  autounfold with se3_dr_expinv_db;
  lazy [off_entries inpat existsb se3_d_exp_pattern mget nth map seq concat app length repeat fst snd andb orb Nat.eqb Nat.add]; reflexivity.
Qed.

Lemma se3_d2r_exp_pattern_complete :
  forall a0 a1 a2 a3 a4 a5 out, Gen.SE3H.se3_d2r_exp_rel [a0; a1; a2; a3; a4; a5] out ->
  all_zero (off_entries Gen.PatternsC19.se3_d2_exp_pattern 6 36 out).
Proof.
  intros a0 a1 a2 a3 a4 a5 out Hrel. rel_cases Hrel; unfold all_zero;
  autounfold with se3_d2r_exp_db;
  lazy [off_entries inpat existsb se3_d2_exp_pattern mget nth map seq concat app length repeat fst snd andb orb Nat.eqb Nat.add]; reflexivity.
Qed.

Lemma se3_d2r_expinv_pattern_complete :
  forall a0 a1 a2 a3 a4 a5 out, Gen.SE3H.se3_d2r_expinv_rel [a0; a1; a2; a3; a4; a5] out ->
  all_zero (off_entries Gen.PatternsC19.se3_d2_exp_pattern 6 36 out).
Proof.
  intros a0 a1 a2 a3 a4 a5 out Hrel. rel_cases Hrel; unfold all_zero;
  autounfold with se3_d2r_expinv_db;
  lazy [off_entries inpat existsb se3_d2_exp_pattern mget nth map seq concat app length repeat fst snd andb orb Nat.eqb Nat.add]; reflexivity.
Qed.

