(* Written with scripts/author/c19.py (committed output; the check builds this file against
   the freshly generated Gen/SO2.v).  Property C19. *)
From Coq Require Import Reals List Lra.
From SV Require Import Base.GenPrelude Base.Mat Doc.Groups Base.Tactics Gen.SO2.
From SV Require Import Model.C19_Sparse Gen.PatternsC19.
Import ListNotations.
Local Open Scope R_scope.

Lemma so2_ad_pattern_complete :
  forall a0 out, Gen.SO2.so2_ad_rel [a0] out ->
  all_zero (off_entries Gen.PatternsC19.so2_ad_pattern 1 1 out).
Proof.
  intros a0 out Hrel. rel_cases Hrel; unfold all_zero;
  autounfold with so2_ad_db;
  lazy [off_entries inpat existsb so2_ad_pattern mget nth map seq concat app length repeat fst snd andb orb Nat.eqb Nat.add]; reflexivity.
Qed.

Lemma so2_dr_exp_pattern_complete :
  forall a0 out, Gen.SO2.so2_dr_exp_rel [a0] out ->
  all_zero (off_entries Gen.PatternsC19.so2_d_exp_pattern 1 1 out).
Proof.
  intros a0 out Hrel. rel_cases Hrel; unfold all_zero;
  autounfold with so2_dr_exp_db;
  lazy [off_entries inpat existsb so2_d_exp_pattern mget nth map seq concat app length repeat fst snd andb orb Nat.eqb Nat.add]; reflexivity.
Qed.

Lemma so2_dr_expinv_pattern_complete :
  forall a0 out, Gen.SO2.so2_dr_expinv_rel [a0] out ->
  all_zero (off_entries Gen.PatternsC19.so2_d_exp_pattern 1 1 out).
Proof.
  intros a0 out Hrel. rel_cases Hrel; unfold all_zero;
  autounfold with so2_dr_expinv_db;
  lazy [off_entries inpat existsb so2_d_exp_pattern mget nth map seq concat app length repeat fst snd andb orb Nat.eqb Nat.add]; reflexivity.
Qed.

Lemma so2_d2r_exp_pattern_complete :
  forall a0 out, Gen.SO2.so2_d2r_exp_rel [a0] out ->
  all_zero (off_entries Gen.PatternsC19.so2_d2_exp_pattern 1 1 out).
Proof.
  intros a0 out Hrel. rel_cases Hrel; unfold all_zero;
  autounfold with so2_d2r_exp_db;
  lazy [off_entries inpat existsb so2_d2_exp_pattern mget nth map seq concat app length repeat fst snd andb orb Nat.eqb Nat.add]; reflexivity.
Qed.

Lemma so2_d2r_expinv_pattern_complete :
  forall a0 out, Gen.SO2.so2_d2r_expinv_rel [a0] out ->
  all_zero (off_entries Gen.PatternsC19.so2_d2_exp_pattern 1 1 out).
Proof.
  intros a0 out Hrel. rel_cases Hrel; unfold all_zero;
  autounfold with so2_d2r_expinv_db;
  lazy [off_entries inpat existsb so2_d2_exp_pattern mget nth map seq concat app length repeat fst snd andb orb Nat.eqb Nat.add]; reflexivity.
Qed.

