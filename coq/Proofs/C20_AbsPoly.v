(* C20 / integrate_absolute_polynomial  (/repo/include/smooth/polynomial/basis.hpp:427-452).
   Theorems about the real-number model  SV.Model.C20_AbsPoly.iapR  and the bridge to the
   executable model iapQ_thr.  The model is the code after /repo commit b9fcddd (second test
   abs(A) >= 1e-9): the quadratic regime is  thr <= |A|  and includes |A| = thr. *)
From Coq Require Import Reals QArith Qabs Qreals Lra Psatz Bool.
From Coquelicot Require Import Coquelicot.
From SV Require Import Model.C20_AbsPoly.
Local Open Scope R_scope.

Definition P (A B C t : R) : R := A * t * t + B * t + C.
Definition absP (A B C t : R) : R := Rabs (P A B C t).

(* ------------------------------------------------------------------ basic facts *)

Lemma Rltb_true : forall x y, x < y -> Rltb x y = true.
Proof. intros x y Hxy. unfold Rltb. destruct (Rlt_dec x y) as [Hlt | Hnlt]; [reflexivity | contradiction]. Qed.

Lemma Rltb_false : forall x y, ~ x < y -> Rltb x y = false.
Proof. intros x y Hxy. unfold Rltb. destruct (Rlt_dec x y) as [Hlt | Hnlt]; [contradiction | reflexivity]. Qed.

Lemma Rgeb_true : forall x y, y <= x -> Rgeb x y = true.
Proof.
  intros x y Hxy. unfold Rgeb. destruct (Rge_dec x y) as [Hge | Hnge]; [reflexivity | ].
  exfalso. apply Hnge. apply Rle_ge. exact Hxy.
Qed.

Lemma Rgeb_false : forall x y, x < y -> Rgeb x y = false.
Proof.
  intros x y Hxy. unfold Rgeb. destruct (Rge_dec x y) as [Hge | Hnge]; [ | reflexivity].
  exfalso. apply Rge_le in Hge. lra.
Qed.

Lemma abs_sign : forall s x, s = 1 \/ s = -1 -> 0 <= s * x -> Rabs x = s * x.
Proof.
  intros s x [Hs | Hs] Hx; subst s.
  - rewrite Rabs_right; lra.
  - rewrite Rabs_left1; lra.
Qed.

Example abs_sign_inst : Rabs (-3) = -1 * -3.
Proof. apply abs_sign; [right; reflexivity | lra]. Qed.

Lemma sign_of : forall x, x <> 0 -> exists s, (s = 1 \/ s = -1) /\ 0 < s * x.
Proof.
  intros x Hx. destruct (Rlt_dec 0 x) as [Hpos | Hneg].
  - exists 1. split; [left; reflexivity | lra].
  - exists (-1). split; [right; reflexivity | lra].
Qed.

Example sign_of_inst : exists s, (s = 1 \/ s = -1) /\ 0 < s * (-2).
Proof. apply sign_of. lra. Qed.

(* clamp *)
Lemma clampR_spec : forall m lo hi, lo <= hi ->
  let c := clampR m lo hi in
  lo <= c <= hi /\ (forall t, lo <= t -> t < c -> t < m) /\ (forall t, t <= hi -> c < t -> m < t).
Proof.
  intros m lo hi Hle. unfold clampR, Rltb.
  destruct (Rlt_dec m lo) as [H1 | H1]; [ | destruct (Rlt_dec hi m) as [H2 | H2] ];
    cbv zeta; repeat split; intros; lra.
Qed.

Example clampR_spec_inst : 0 <= clampR 5 0 1 <= 1.
Proof. apply (clampR_spec 5 0 1). lra. Qed.

Lemma clampR_mono : forall m1 m2 lo hi, lo <= hi -> m1 <= m2 -> clampR m1 lo hi <= clampR m2 lo hi.
Proof.
  intros m1 m2 lo hi Hle Hm. unfold clampR, Rltb.
  destruct (Rlt_dec m1 lo) as [H1 | H1]; destruct (Rlt_dec m2 lo) as [H3 | H3];
    destruct (Rlt_dec hi m1) as [H2 | H2]; destruct (Rlt_dec hi m2) as [H4 | H4]; lra.
Qed.

Example clampR_mono_inst : clampR (-3) 0 1 <= clampR (1/2) 0 1.
Proof. apply clampR_mono; lra. Qed.

(* ------------------------------------------------------------------ integration of pieces *)

Lemma integR_derive : forall A B C t, is_derive (integR A B C) t (P A B C t).
Proof.
  intros A B C t. unfold integR, P. auto_derive; [exact I | field].
Qed.

Lemma P_continuous : forall A B C t, continuous (P A B C) t.
Proof.
  intros A B C t. apply (ex_derive_continuous (P A B C) t).
  unfold P. auto_derive. exact I.
Qed.

Lemma is_RInt_P : forall A B C a b,
  is_RInt (P A B C) a b (integR A B C b - integR A B C a).
Proof.
  intros A B C a b.
  apply (is_RInt_derive (integR A B C) (P A B C) a b).
  - intros x Hx. apply integR_derive.
  - intros x Hx. apply P_continuous.
Qed.

(* a piece on which s*P >= 0 *)
Lemma piece : forall A B C a b s, s = 1 \/ s = -1 -> a <= b ->
  (forall t, a < t < b -> 0 <= s * P A B C t) ->
  is_RInt (absP A B C) a b (s * (integR A B C b - integR A B C a)).
Proof.
  intros A B C a b s Hs Hab Hsign.
  apply (is_RInt_ext (fun t => scal s (P A B C t))).
  - intros t Ht. rewrite Rmin_left, Rmax_right in Ht by exact Hab.
    unfold absP. rewrite (abs_sign s) by (auto). reflexivity.
  - apply (is_RInt_scal (P A B C) a b s). apply is_RInt_P.
Qed.

Example piece_inst : is_RInt (absP 0 1 0) (-1) 0 (-1 * (integR 0 1 0 0 - integR 0 1 0 (-1))).
Proof. apply piece; [right; reflexivity | lra | ]. intros t Ht. unfold P. lra. Qed.

Lemma absP_int_nonneg : forall A B C a b v, a <= b -> is_RInt (absP A B C) a b v -> 0 <= v.
Proof.
  intros A B C a b v Hab Hint. apply (is_RInt_ge_0 (absP A B C) a b v Hab Hint).
  intros x Hx. apply Rabs_pos.
Qed.

Example absP_int_nonneg_inst : 0 <= -1 * (integR 0 1 0 0 - integR 0 1 0 (-1)).
Proof. apply (absP_int_nonneg 0 1 0 (-1) 0); [lra | apply piece_inst]. Qed.

(* three pieces with sign pattern  s, -s, s *)
Lemma three_piece : forall A B C t0 t1 c1 c2 s, s = 1 \/ s = -1 ->
  t0 <= c1 -> c1 <= c2 -> c2 <= t1 ->
  (forall t, t0 < t < c1 -> 0 <= s * P A B C t) ->
  (forall t, c1 < t < c2 -> 0 <= - s * P A B C t) ->
  (forall t, c2 < t < t1 -> 0 <= s * P A B C t) ->
  is_RInt (absP A B C) t0 t1
    (Rabs (integR A B C t1 - integR A B C t0 + 2 * integR A B C c1 - 2 * integR A B C c2)).
Proof.
  intros A B C t0 t1 c1 c2 s Hs H01 H12 H21 Hp1 Hp2 Hp3.
  assert (Hs' : - s = 1 \/ - s = -1) by (destruct Hs; lra).
  pose proof (piece A B C t0 c1 s Hs H01 Hp1) as I1.
  pose proof (piece A B C c1 c2 (- s) Hs' H12 Hp2) as I2.
  pose proof (piece A B C c2 t1 s Hs H21 Hp3) as I3.
  pose proof (absP_int_nonneg _ _ _ _ _ _ H01 I1) as N1.
  pose proof (absP_int_nonneg _ _ _ _ _ _ H12 I2) as N2.
  pose proof (absP_int_nonneg _ _ _ _ _ _ H21 I3) as N3.
  pose proof (is_RInt_Chasles _ _ _ _ _ _ (is_RInt_Chasles _ _ _ _ _ _ I1 I2) I3) as I123.
  unfold plus in I123; simpl in I123.
  rewrite (abs_sign s) by (auto; lra).
  replace (s * (integR A B C t1 - integR A B C t0 + 2 * integR A B C c1 - 2 * integR A B C c2))
    with (s * (integR A B C c1 - integR A B C t0) + - s * (integR A B C c2 - integR A B C c1)
          + s * (integR A B C t1 - integR A B C c2)) by ring.
  exact I123.
Qed.

Example three_piece_inst :
  is_RInt (absP 0 1 0) (-1) 1
    (Rabs (integR 0 1 0 1 - integR 0 1 0 (-1) + 2 * integR 0 1 0 (-1) - 2 * integR 0 1 0 0)).
Proof.
  apply (three_piece 0 1 0 (-1) 1 (-1) 0 1); [left; reflexivity | lra | lra | lra | | | ];
    intros t Ht; unfold P; lra.
Qed.

(* P has constant sign s on [t0,t1] and the code takes the "no root" path *)
Lemma one_piece : forall A B C t0 t1 s, s = 1 \/ s = -1 -> t0 <= t1 ->
  (forall t, t0 < t < t1 -> 0 <= s * P A B C t) ->
  is_RInt (absP A B C) t0 t1
    (Rabs (integR A B C t1 - integR A B C t0 + 2 * integR A B C t1 - 2 * integR A B C t1)).
Proof.
  intros A B C t0 t1 s Hs H01 Hp.
  apply (three_piece A B C t0 t1 t1 t1 s Hs); try lra; try exact Hp; intros t Ht; lra.
Qed.

Example one_piece_inst :
  is_RInt (absP 1 0 1) 0 1
    (Rabs (integR 1 0 1 1 - integR 1 0 1 0 + 2 * integR 1 0 1 1 - 2 * integR 1 0 1 1)).
Proof. apply (one_piece 1 0 1 0 1 1); [left; reflexivity | lra | ]. intros t Ht. unfold P. nra. Qed.

(* ------------------------------------------------------------------ 3. constant *)
Theorem iapR_exact_constant : forall thr t0 t1 A B C,
  0 < thr -> t0 <= t1 -> A = 0 -> B = 0 ->
  is_RInt (absP A B C) t0 t1 (iapR thr t0 t1 A B C).
Proof.
  intros thr t0 t1 A B C Hthr H01 HA HB. subst A B.
  unfold iapR, midsR. rewrite Rabs_R0.
  rewrite (Rltb_false thr 0) by lra. rewrite andb_false_r. rewrite (Rgeb_false 0 thr) by lra.
  cbv iota zeta beta. unfold clampoR.
  destruct (Rle_dec 0 C) as [HC | HC].
  - apply (one_piece 0 0 C t0 t1 1); [left; reflexivity | exact H01 | ].
    intros t Ht. unfold P. lra.
  - apply (one_piece 0 0 C t0 t1 (-1)); [right; reflexivity | exact H01 | ].
    intros t Ht. unfold P. lra.
Qed.

Example iapR_exact_constant_inst : is_RInt (absP 0 0 (-2)) 0 3 (iapR iap_thrR 0 3 0 0 (-2)).
Proof.
  apply iapR_exact_constant; try lra; try reflexivity.
  unfold iap_thrR. apply Rdiv_lt_0_compat; [apply IZR_lt; reflexivity | apply pow_lt; lra].
Qed.

(* ------------------------------------------------------------------ 2. linear *)
(* the linear treatment (basis.hpp:425-427) is exact for B t + C *)
Lemma linear_core : forall B C t0 t1, B <> 0 -> t0 <= t1 ->
  is_RInt (absP 0 B C) t0 t1
    (Rabs (integR 0 B C t1 - integR 0 B C t0
           + 2 * integR 0 B C (clampR (clampR (- C / B) t0 t1) t0 t1) - 2 * integR 0 B C t1)).
Proof.
  intros B C t0 t1 HB0 H01.
  set (m := - C / B).
  destruct (clampR_spec m t0 t1 H01) as [Hc [Hlo Hhi]].
  set (c := clampR m t0 t1) in *.
  destruct (clampR_spec c t0 t1 H01) as [Hcc [Hlo' Hhi']].
  set (c' := clampR c t0 t1) in *.
  assert (Hfac : forall t, P 0 B C t = B * (t - m)) by (intros t; unfold P, m; field; exact HB0).
  destruct (sign_of B HB0) as [s [Hs HsB]].
  assert (Hs' : - s = 1 \/ - s = -1) by (destruct Hs; lra).
  apply (three_piece 0 B C t0 t1 c' t1 (- s) Hs'); try lra.
  - intros t Ht. rewrite Hfac.
    assert (Htm : t < m) by (apply Hlo; [lra | apply Hlo'; lra]).
    replace (- s * (B * (t - m))) with ((s * B) * (m - t)) by ring.
    apply Rmult_le_pos; lra.
  - intros t Ht. rewrite Hfac.
    assert (Htm : m < t) by (apply Hhi; [lra | apply Hhi'; lra]).
    replace (- - s * (B * (t - m))) with ((s * B) * (t - m)) by ring.
    apply Rmult_le_pos; lra.
  - intros t Ht. lra.
Qed.

Example linear_core_inst :
  is_RInt (absP 0 2 1) (-1) 1
    (Rabs (integR 0 2 1 1 - integR 0 2 1 (-1)
           + 2 * integR 0 2 1 (clampR (clampR (- 1 / 2) (-1) 1) (-1) 1) - 2 * integR 0 2 1 1)).
Proof. apply linear_core; lra. Qed.

(* NOTE: stated with 0 < thr.  With thr = 0 the test |A| < thr fails for A = 0 and the code
   falls through to the sign-constant path; see iapR_linear_thr0_refuted below. *)
Theorem iapR_exact_linear : forall thr t0 t1 A B C,
  0 < thr -> t0 <= t1 -> A = 0 -> thr < Rabs B ->
  is_RInt (absP A B C) t0 t1 (iapR thr t0 t1 A B C).
Proof.
  intros thr t0 t1 A B C Hthr H01 HA HB. subst A.
  assert (HB0 : B <> 0) by (intros HB0; subst B; rewrite Rabs_R0 in HB; lra).
  unfold iapR, midsR. rewrite Rabs_R0.
  rewrite (Rltb_true 0 thr) by lra. rewrite (Rltb_true thr (Rabs B)) by lra.
  cbv iota zeta beta. simpl andb. cbv iota. unfold clampoR.
  apply linear_core; assumption.
Qed.

Example iapR_exact_linear_inst : is_RInt (absP 0 1 0) (-1) 2 (iapR (1/2) (-1) 2 0 1 0).
Proof.
  apply iapR_exact_linear; try lra; try reflexivity. rewrite Rabs_R1. lra.
Qed.

(* With thr = 0 and A = 0 the test |A| < thr fails and |A| >= thr holds: the code divides by A = 0
   (NaN in binary64; the real-number model has no meaning there).  No statement is made for thr = 0
   in the linear regime; the code's threshold is positive (iap_thrR_pos). *)

(* ------------------------------------------------------------------ 1. quadratic *)
(* general form: the quadratic branch (:437-444) is exact whenever it is taken with A <> 0 *)
Theorem iapR_exact_quadratic_gen : forall thr t0 t1 A B C,
  t0 <= t1 -> A <> 0 -> thr <= Rabs A ->
  is_RInt (absP A B C) t0 t1 (iapR thr t0 t1 A B C).
Proof.
  intros thr t0 t1 A B C H01 HA0 HA.
  unfold iapR, midsR.
  rewrite (Rltb_false (Rabs A) thr) by lra. rewrite (Rgeb_true (Rabs A) thr) by lra.
  simpl andb. cbv iota zeta beta.
  set (res := B * B / (4 * A * A) - C / A).
  destruct (sign_of A HA0) as [s [Hs HsA]].
  unfold Rltb at 1. destruct (Rlt_dec 0 res) as [Hres | Hres]; unfold clampoR.
  - (* two real roots *)
    set (m1 := - B / (2 * A) - sqrt res). set (m2 := - B / (2 * A) + sqrt res).
    pose proof (sqrt_lt_R0 res Hres) as Hsq.
    pose proof (sqrt_sqrt res (Rlt_le _ _ Hres)) as Hsqsq.
    assert (Hm : m1 < m2) by (unfold m1, m2; lra).
    assert (Hfac : forall t, P A B C t = A * ((t - m1) * (t - m2))).
    { intros t. unfold P, m1, m2.
      replace ((t - (- B / (2 * A) - sqrt res)) * (t - (- B / (2 * A) + sqrt res)))
        with ((t + B / (2 * A)) * (t + B / (2 * A)) - sqrt res * sqrt res) by (field; exact HA0).
      rewrite Hsqsq. unfold res. field. exact HA0. }
    destruct (clampR_spec m1 t0 t1 H01) as [Hc1 [Hlo1 Hhi1]].
    destruct (clampR_spec m2 t0 t1 H01) as [Hc2 [Hlo2 Hhi2]].
    pose proof (clampR_mono m1 m2 t0 t1 H01 (Rlt_le _ _ Hm)) as Hc12.
    set (c1 := clampR m1 t0 t1) in *. set (c2 := clampR m2 t0 t1) in *.
    apply (three_piece A B C t0 t1 c1 c2 s Hs); try lra.
    + intros t Ht. rewrite Hfac.
      assert (Ht1 : t < m1) by (apply Hlo1; lra).
      replace (s * (A * ((t - m1) * (t - m2)))) with ((s * A) * ((m1 - t) * (m2 - t))) by ring.
      apply Rmult_le_pos; [lra | apply Rmult_le_pos; lra].
    + intros t Ht. rewrite Hfac.
      assert (Ht1 : m1 < t) by (apply Hhi1; lra).
      assert (Ht2 : t < m2) by (apply Hlo2; lra).
      replace (- s * (A * ((t - m1) * (t - m2)))) with ((s * A) * ((t - m1) * (m2 - t))) by ring.
      apply Rmult_le_pos; [lra | apply Rmult_le_pos; lra].
    + intros t Ht. rewrite Hfac.
      assert (Ht2 : m2 < t) by (apply Hhi2; lra).
      replace (s * (A * ((t - m1) * (t - m2)))) with ((s * A) * ((t - m1) * (t - m2))) by ring.
      apply Rmult_le_pos; [lra | apply Rmult_le_pos; lra].
  - (* no sign change *)
    apply (one_piece A B C t0 t1 s Hs H01).
    intros t Ht.
    replace (s * P A B C t)
      with ((s * A) * ((t + B / (2 * A)) * (t + B / (2 * A)) + - res))
      by (unfold P, res; field; exact HA0).
    apply Rmult_le_pos; [lra | ].
    pose proof (Rle_0_sqr (t + B / (2 * A))) as Hsqr. unfold Rsqr in Hsqr. lra.
Qed.

(* the regime of the code:  thr <= |A|  for a positive threshold (|A| = thr included) *)
Theorem iapR_exact_quadratic : forall thr t0 t1 A B C,
  0 < thr -> t0 <= t1 -> thr <= Rabs A ->
  is_RInt (absP A B C) t0 t1 (iapR thr t0 t1 A B C).
Proof.
  intros thr t0 t1 A B C Hthr H01 HA.
  apply iapR_exact_quadratic_gen; [exact H01 | | exact HA].
  intros HA0; subst A; rewrite Rabs_R0 in HA; lra.
Qed.

Example iapR_exact_quadratic_inst : is_RInt (absP 1 0 (-1)) (-2) 2 (iapR iap_thrR (-2) 2 1 0 (-1)).
Proof.
  apply iapR_exact_quadratic; try lra.
  - unfold iap_thrR. apply Rdiv_lt_0_compat; [apply IZR_lt; reflexivity | apply pow_lt; lra].
  - rewrite Rabs_R1. unfold iap_thrR. apply Rlt_le, Rlt_div_l; [apply pow_lt; lra | ]. lra.
Qed.

(* ------------------------------------------------------------------ the threshold *)
Lemma iap_thrR_bounds : 1 / 10 ^ 9 < iap_thrR < 1 / 10 ^ 9 + 1 / 10 ^ 24.
Proof. unfold iap_thrR. split; lra. Qed.

(* value of the code on the "neither regime" / no-root path *)
Lemma integR_sym_diff : forall A B C a b,
  integR A B C b - integR A B C a + 2 * integR A B C b - 2 * integR A B C b
  = integR A B C b - integR A B C a.
Proof. intros. ring. Qed.

(* ------------------------------------------------------------------ 4. |A| = thr (the former gap) *)
Lemma iap_thrR_pos : 0 < iap_thrR.
Proof. pose proof iap_thrR_bounds as [Hlo Hhi]. lra. Qed.

(* with the threshold of the code, |A| >= 1e-9 *)
Corollary iapR_exact_quadratic_code : forall t0 t1 A B C,
  t0 <= t1 -> iap_thrR <= Rabs A ->
  is_RInt (absP A B C) t0 t1 (iapR iap_thrR t0 t1 A B C).
Proof. intros t0 t1 A B C H01 HA. apply iapR_exact_quadratic; [apply iap_thrR_pos | exact H01 | exact HA]. Qed.

(* |A| equal to the threshold, either sign: the value is the integral.  (Before /repo commit b9fcddd the
   second test was strict, this input fell through both tests and the result was off by more than 1/2 for
   A = thr, B = 1, C = 0 on [-1,1].) *)
Theorem iapR_exact_at_threshold : forall t0 t1 A B C,
  t0 <= t1 -> Rabs A = iap_thrR ->
  is_RInt (absP A B C) t0 t1 (iapR iap_thrR t0 t1 A B C).
Proof. intros t0 t1 A B C H01 HA. apply iapR_exact_quadratic_code; [exact H01 | lra]. Qed.

Example iapR_exact_at_threshold_inst :
  is_RInt (absP iap_thrR 1 0) (-1) 1 (iapR iap_thrR (-1) 1 iap_thrR 1 0).
Proof.
  apply iapR_exact_at_threshold; [lra | ]. apply Rabs_pos_eq. apply Rlt_le, iap_thrR_pos.
Qed.

(* the former witness, evaluated: the model now returns a value within 1e-8 of 1 *)
Example iapR_former_gap_witness : forall I,
  is_RInt (absP iap_thrR 1 0) (-1) 1 I -> iapR iap_thrR (-1) 1 iap_thrR 1 0 = I.
Proof.
  intros I HI. apply (is_RInt_unique (absP iap_thrR 1 0) (-1) 1) in HI.
  pose proof (is_RInt_unique _ _ _ _ iapR_exact_at_threshold_inst) as HJ. congruence.
Qed.

(* ------------------------------------------------------------------ 5. |A| < thr, no real root *)
Theorem iapR_smallA_refuted : exists t0 t1 A B C I,
  t0 <= t1 /\ Rabs t0 <= 10 /\ Rabs t1 <= 10 /\ Rabs A <= 10 /\ Rabs B <= 10 /\ Rabs C <= 10 /\
  is_RInt (absP A B C) t0 t1 I /\ Rabs (iapR iap_thrR t0 t1 A B C - I) > 1 / 10 ^ 9.
Proof.
  pose proof iap_thrR_bounds as [Hlo Hhi].
  set (a := 9 / 10 ^ 10). set (b := 2 / 10 ^ 9). set (c := 1 / 10 ^ 8).
  exists (-10), 10, a, b, c.
  exists (Rabs (integR a b c 10 - integR a b c (-10) + 2 * integR a b c 10 - 2 * integR a b c 10)).
  assert (Ha : Rabs a = a) by (apply Rabs_pos_eq; unfold a; lra).
  assert (Hb : Rabs b = b) by (apply Rabs_pos_eq; unfold b; lra).
  assert (Hc : Rabs c = c) by (apply Rabs_pos_eq; unfold c; lra).
  split; [lra | ].
  split; [rewrite Rabs_left1; lra | ].
  split; [rewrite Rabs_pos_eq; lra | ].
  split; [rewrite Ha; unfold a; lra | ].
  split; [rewrite Hb; unfold b; lra | ].
  split; [rewrite Hc; unfold c; lra | ].
  split.
  - apply (one_piece a b c (-10) 10 1); [left; reflexivity | lra | ].
    intros t Ht. unfold P, a, b, c.
    replace (1 * (9 / 10 ^ 10 * t * t + 2 / 10 ^ 9 * t + 1 / 10 ^ 8))
      with ((1 / 10 ^ 10) * ((3 * t + 10 / 3) * (3 * t + 10 / 3) + 800 / 9)) by field.
    apply Rmult_le_pos; [lra | ].
    pose proof (Rle_0_sqr (3 * t + 10 / 3)) as Hsqr. unfold Rsqr in Hsqr. lra.
  - unfold iapR, midsR. rewrite Ha, Hb.
    rewrite (Rltb_true a iap_thrR) by (unfold a; lra).
    rewrite (Rltb_true iap_thrR b) by (unfold b; lra).
    simpl andb. cbv iota zeta beta. unfold clampoR.
    replace (- c / b) with (-5) by (unfold b, c; field).
    assert (Hcl : clampR (-5) (-10) 10 = -5).
    { unfold clampR. rewrite (Rltb_false (-5) (-10)) by lra. rewrite (Rltb_false 10 (-5)) by lra.
      reflexivity. }
    rewrite Hcl, Hcl. rewrite integR_sym_diff. unfold integR.
    replace (a * 10 * 10 * 10 / 3 + b * 10 * 10 / 2 + c * 10 -
      (a * -10 * -10 * -10 / 3 + b * -10 * -10 / 2 + c * -10) +
      2 * (a * -5 * -5 * -5 / 3 + b * -5 * -5 / 2 + c * -5) -
      2 * (a * 10 * 10 * 10 / 3 + b * 10 * 10 / 2 + c * 10))
      with (- (325 / 10 ^ 9)) by (unfold a, b, c; field).
    replace (a * 10 * 10 * 10 / 3 + b * 10 * 10 / 2 + c * 10 -
       (a * -10 * -10 * -10 / 3 + b * -10 * -10 / 2 + c * -10))
      with (800 / 10 ^ 9) by (unfold a, b, c; field).
    rewrite (Rabs_left1 (- (325 / 10 ^ 9))) by lra.
    rewrite (Rabs_pos_eq (800 / 10 ^ 9)) by lra.
    rewrite Rabs_left1 by lra. lra.
Qed.

(* ------------------------------------------------------------------ 6. bridge Q model = R model *)
Lemma Q2R_abs : forall x : Q, Q2R (Qabs x) = Rabs (Q2R x).
Proof.
  intros x. apply Qabs_case; intros Hx; apply Qle_Rle in Hx; rewrite RMicromega.Q2R_0 in Hx.
  - rewrite Rabs_pos_eq; [reflexivity | exact Hx].
  - rewrite Q2R_opp. rewrite Rabs_left1; [reflexivity | exact Hx].
Qed.

Lemma Qltb_Rltb : forall x y : Q, Qltb x y = Rltb (Q2R x) (Q2R y).
Proof.
  intros x y. unfold Qltb.
  destruct (x ?= y)%Q eqn:Hcmp.
  - symmetry. apply Rltb_false. apply Qeq_alt in Hcmp. apply Qeq_eqR in Hcmp. lra.
  - symmetry. apply Rltb_true. apply Qlt_alt in Hcmp. apply Qlt_Rlt. exact Hcmp.
  - symmetry. apply Rltb_false. apply Qgt_alt in Hcmp. apply Qlt_Rlt in Hcmp. lra.
Qed.

Lemma Qgeb_Rgeb : forall x y : Q, Qgeb x y = Rgeb (Q2R x) (Q2R y).
Proof.
  intros x y. unfold Qgeb.
  destruct (x ?= y)%Q eqn:Hcmp.
  - symmetry. apply Rgeb_true. apply Qeq_alt in Hcmp. apply Qeq_eqR in Hcmp. lra.
  - symmetry. apply Rgeb_false. apply Qlt_alt in Hcmp. apply Qlt_Rlt. exact Hcmp.
  - symmetry. apply Rgeb_true. apply Qgt_alt in Hcmp. apply Qlt_Rlt in Hcmp. lra.
Qed.

Lemma Rgeb_true_inv : forall x y, Rgeb x y = true -> y <= x.
Proof.
  intros x y Hb. unfold Rgeb in Hb. destruct (Rge_dec x y) as [Hge | Hnge]; [apply Rge_le; exact Hge | discriminate Hb].
Qed.

Example Rgeb_true_inv_inst : 1 <= 1.
Proof. apply Rgeb_true_inv. apply Rgeb_true. lra. Qed.

Lemma Q2R_clamp : forall v lo hi : Q,
  Q2R (clampQ v lo hi) = clampR (Q2R v) (Q2R lo) (Q2R hi).
Proof.
  intros v lo hi. unfold clampQ, clampR. rewrite !Qltb_Rltb.
  destruct (Rltb (Q2R v) (Q2R lo)); [reflexivity | ].
  destruct (Rltb (Q2R hi) (Q2R v)); reflexivity.
Qed.

Lemma Q2R_2 : Q2R 2 = 2. Proof. unfold Q2R; simpl; field. Qed.
Lemma Q2R_3 : Q2R 3 = 3. Proof. unfold Q2R; simpl; field. Qed.
Lemma Q2R_4 : Q2R 4 = 4. Proof. unfold Q2R; simpl; field. Qed.

Lemma Q2R_integ : forall A B C u : Q,
  Q2R (integQ A B C u) = integR (Q2R A) (Q2R B) (Q2R C) (Q2R u).
Proof.
  intros A B C u. unfold integQ, integR.
  rewrite !Q2R_plus, !Q2R_mult.
  rewrite !Q2R_div by (intros Habs; discriminate Habs).
  rewrite !Q2R_mult, Q2R_2, Q2R_3. reflexivity.
Qed.

Lemma Q2R_final : forall A B C t0 t1 c1 c2 : Q,
  Q2R (Qabs (integQ A B C t1 - integQ A B C t0 + 2 * integQ A B C c1 - 2 * integQ A B C c2))
  = Rabs (integR (Q2R A) (Q2R B) (Q2R C) (Q2R t1) - integR (Q2R A) (Q2R B) (Q2R C) (Q2R t0)
          + 2 * integR (Q2R A) (Q2R B) (Q2R C) (Q2R c1) - 2 * integR (Q2R A) (Q2R B) (Q2R C) (Q2R c2)).
Proof.
  intros A B C t0 t1 c1 c2.
  rewrite Q2R_abs, Q2R_minus, Q2R_plus, Q2R_minus, !Q2R_mult, !Q2R_integ, Q2R_2. reflexivity.
Qed.

Lemma Q2R_neq0 : forall x : Q, Q2R x <> 0 -> ~ (x == 0)%Q.
Proof. intros x Hx Habs. apply Hx. rewrite (Qeq_eqR _ _ Habs). apply RMicromega.Q2R_0. Qed.

Example Q2R_neq0_inst : ~ (2 == 0)%Q.
Proof. apply Q2R_neq0. rewrite Q2R_2. lra. Qed.

Lemma Rltb_true_inv : forall x y, Rltb x y = true -> x < y.
Proof.
  intros x y Hb. unfold Rltb in Hb. destruct (Rlt_dec x y) as [Hlt | Hnlt]; [exact Hlt | discriminate Hb].
Qed.

Example Rltb_true_inv_inst : 0 < 1.
Proof. apply Rltb_true_inv. apply Rltb_true. lra. Qed.

(* The contract on sq is only required at the single argument the code passes to std::sqrt, and only
   on the path where std::sqrt is called (basis.hpp:441-443).  This is the form that can actually be
   discharged: a function Q -> Q cannot return sqrt x for every positive rational x.
   0 < thr: with thr = 0 and A = 0 the quadratic branch would divide by zero. *)
Theorem iapQ_iapR : forall (sq : Q -> Q) (thr t0 t1 A B C : Q),
  ((thr <= Qabs A)%Q -> (0 < B * B / (4 * A * A) - C / A)%Q ->
     Q2R (sq (B * B / (4 * A * A) - C / A)%Q) = sqrt (Q2R (B * B / (4 * A * A) - C / A)%Q)) ->
  (0 < thr)%Q ->
  Q2R (iapQ_thr sq thr t0 t1 A B C)
  = iapR (Q2R thr) (Q2R t0) (Q2R t1) (Q2R A) (Q2R B) (Q2R C).
Proof.
  intros sq thr t0 t1 A B C Hsq Hthr.
  apply Qlt_Rlt in Hthr. rewrite RMicromega.Q2R_0 in Hthr.
  unfold iapQ_thr, iapR, midsQ, midsR.
  rewrite !Qltb_Rltb, Qgeb_Rgeb, !Q2R_abs.
  destruct (Rltb (Rabs (Q2R A)) (Q2R thr)) eqn:HcA.
  - assert (HcA' : Rgeb (Rabs (Q2R A)) (Q2R thr) = false).
    { apply Rgeb_false. apply Rltb_true_inv in HcA. exact HcA. }
    destruct (Rltb (Q2R thr) (Rabs (Q2R B))) eqn:HcB; simpl andb; cbv iota.
    + (* linear regime *)
      assert (HB0 : Q2R B <> 0).
      { intros HB0. rewrite HB0, Rabs_R0 in HcB. rewrite Rltb_false in HcB by lra. discriminate HcB. }
      unfold clampoQ, clampoR.
      rewrite Q2R_final, !Q2R_clamp.
      rewrite Q2R_div by (apply Q2R_neq0; exact HB0). rewrite Q2R_opp. reflexivity.
    + rewrite HcA'. unfold clampoQ, clampoR.
      rewrite Q2R_final. reflexivity.
  - simpl andb. cbv iota.
    destruct (Rgeb (Rabs (Q2R A)) (Q2R thr)) eqn:HcA'.
    + (* quadratic regime *)
      apply Rgeb_true_inv in HcA'.
      assert (HA0 : Q2R A <> 0).
      { intros HA0. rewrite HA0, Rabs_R0 in HcA'. lra. }
      assert (HthrA : (thr <= Qabs A)%Q) by (apply Rle_Qle; rewrite Q2R_abs; exact HcA').
      assert (HA0q : ~ (A == 0)%Q) by (apply Q2R_neq0; exact HA0).
      assert (H2A : ~ (2 * A == 0)%Q).
      { apply Q2R_neq0. rewrite Q2R_mult, Q2R_2. lra. }
      assert (H4A : ~ (4 * A * A == 0)%Q).
      { apply Q2R_neq0. rewrite !Q2R_mult, Q2R_4. nra. }
      cbv zeta.
      assert (Hres : Q2R (B * B / (4 * A * A) - C / A)
                     = Q2R B * Q2R B / (4 * Q2R A * Q2R A) - Q2R C / Q2R A).
      { rewrite Q2R_minus, !Q2R_div by assumption. rewrite !Q2R_mult, Q2R_4. reflexivity. }
      rewrite RMicromega.Q2R_0, Hres.
      destruct (Rltb 0 (Q2R B * Q2R B / (4 * Q2R A * Q2R A) - Q2R C / Q2R A)) eqn:Hc.
      * assert (Hpos : (0 < B * B / (4 * A * A) - C / A)%Q).
        { apply Rlt_Qlt. rewrite RMicromega.Q2R_0, Hres. apply Rltb_true_inv. exact Hc. }
        unfold clampoQ, clampoR.
        rewrite Q2R_final, !Q2R_clamp.
        rewrite Q2R_minus, Q2R_plus, !Q2R_div by assumption.
        rewrite Q2R_opp, Q2R_mult, Q2R_2, (Hsq HthrA Hpos), Hres. reflexivity.
      * unfold clampoQ, clampoR.
        rewrite Q2R_final. reflexivity.
    + unfold clampoQ, clampoR.
      rewrite Q2R_final. reflexivity.
Qed.

(* non-trivial instance on the two-root path: A = 1, B = 0, C = -1 (res = 1), sq 1 = 1 *)
Example iapQ_iapR_inst :
  Q2R (iapQ_thr (fun _ => 1%Q) iap_thr (-2) 2 1 0 (-1))
  = iapR (Q2R iap_thr) (Q2R (-2)) (Q2R 2) (Q2R 1) (Q2R 0) (Q2R (-1)).
Proof.
  apply iapQ_iapR; [ | reflexivity].
  intros HthrA Hpos.
  assert (Hone : Q2R 1 = 1) by (unfold Q2R; simpl; field).
  rewrite (Qeq_eqR (0 * 0 / (4 * 1 * 1) - -1 / 1) 1) by reflexivity.
  rewrite Hone, sqrt_1. reflexivity.
Qed.

(* the form with the contract quantified over all positive rationals follows (its premise cannot be
   met by any sq : Q -> Q, e.g. at x = 2; it is kept only because other files may name it) *)
Corollary iapQ_iapR_forall : forall (sq : Q -> Q) (thr t0 t1 A B C : Q),
  (forall x : Q, (0 < x)%Q -> Q2R (sq x) = sqrt (Q2R x)) ->
  (0 < thr)%Q ->
  Q2R (iapQ_thr sq thr t0 t1 A B C)
  = iapR (Q2R thr) (Q2R t0) (Q2R t1) (Q2R A) (Q2R B) (Q2R C).
Proof.
  intros sq thr t0 t1 A B C Hsq Hthr. apply iapQ_iapR; [ | exact Hthr].
  intros HthrA Hpos. apply Hsq. exact Hpos.
Qed.

(* with the threshold of the code *)
Corollary iapQ_iapR_code : forall (sq : Q -> Q) (t0 t1 A B C : Q),
  ((iap_thr <= Qabs A)%Q -> (0 < B * B / (4 * A * A) - C / A)%Q ->
     Q2R (sq (B * B / (4 * A * A) - C / A)%Q) = sqrt (Q2R (B * B / (4 * A * A) - C / A)%Q)) ->
  Q2R (iapQ sq t0 t1 A B C) = iapR iap_thrR (Q2R t0) (Q2R t1) (Q2R A) (Q2R B) (Q2R C).
Proof.
  intros sq t0 t1 A B C Hsq.
  assert (Hthr : Q2R iap_thr = iap_thrR).
  { unfold iap_thr, iap_thrR, Q2R, Rdiv. cbn [Qnum Qden]. f_equal. f_equal.
    rewrite (pow_IZR 2 82). f_equal. }
  unfold iapQ. rewrite <- Hthr. apply iapQ_iapR; [exact Hsq | reflexivity].
Qed.

Example iapQ_iapR_code_inst :
  Q2R (iapQ (fun _ => 1%Q) (-2) 2 1 0 (-1))
  = iapR iap_thrR (Q2R (-2)) (Q2R 2) (Q2R 1) (Q2R 0) (Q2R (-1)).
Proof.
  apply iapQ_iapR_code. intros HthrA Hpos.
  assert (Hone : Q2R 1 = 1) by (unfold Q2R; simpl; field).
  rewrite (Qeq_eqR (0 * 0 / (4 * 1 * 1) - -1 / 1) 1) by reflexivity.
  rewrite Hone, sqrt_1. reflexivity.
Qed.

(* ------------------------------------------------------------------ 7. error bound, |A| < thr < |B| *)
Lemma cube_mono : forall a b, a <= b -> a * a * a <= b * b * b.
Proof.
  intros a b Hab.
  assert (Hq : 0 <= a * a + a * b + b * b).
  { pose proof (Rle_0_sqr (a + b)) as H1. pose proof (Rle_0_sqr a) as H2. pose proof (Rle_0_sqr b) as H3.
    unfold Rsqr in H1, H2, H3. lra. }
  assert (Hprod : 0 <= (b - a) * (a * a + a * b + b * b)) by (apply Rmult_le_pos; lra).
  lra.
Qed.

Example cube_mono_inst : (-2) * (-2) * (-2) <= 1 * 1 * 1.
Proof. apply cube_mono. lra. Qed.

(* int |A t^2 + q| and int |q| differ by at most int |A| t^2 *)
Lemma absP_perturb : forall A B C t0 t1 I J, t0 <= t1 ->
  is_RInt (absP A B C) t0 t1 I -> is_RInt (absP 0 B C) t0 t1 J ->
  Rabs (I - J) <= Rabs A * (t1 * t1 * t1 - t0 * t0 * t0) / 3.
Proof.
  intros A B C t0 t1 I J H01 HI HJ.
  pose proof (is_RInt_P (Rabs A) 0 0 t0 t1) as HE.
  assert (Hpt : forall t, Rabs (absP A B C t - absP 0 B C t) <= P (Rabs A) 0 0 t).
  { intros t. unfold absP.
    eapply Rle_trans; [apply Rabs_triang_inv2 | ].
    replace (P A B C t - P 0 B C t) with (A * (t * t)) by (unfold P; ring).
    rewrite Rabs_mult. rewrite (Rabs_pos_eq (t * t)) by (apply Rle_0_sqr).
    unfold P. lra. }
  replace (Rabs A * (t1 * t1 * t1 - t0 * t0 * t0) / 3)
    with (integR (Rabs A) 0 0 t1 - integR (Rabs A) 0 0 t0) by (unfold integR; field).
  apply Rabs_le. split.
  - pose proof (is_RInt_minus _ _ _ _ _ _ HJ HI) as HJI. unfold minus, plus, opp in HJI; simpl in HJI.
    pose proof (is_RInt_le _ _ _ _ _ _ H01 HJI HE) as Hle.
    assert (Hle' : J + - I <= integR (Rabs A) 0 0 t1 - integR (Rabs A) 0 0 t0).
    { apply Hle. intros t Ht. pose proof (Hpt t) as Hp. apply Rabs_le_between in Hp. lra. }
    lra.
  - pose proof (is_RInt_minus _ _ _ _ _ _ HI HJ) as HIJ. unfold minus, plus, opp in HIJ; simpl in HIJ.
    pose proof (is_RInt_le _ _ _ _ _ _ H01 HIJ HE) as Hle.
    assert (Hle' : I + - J <= integR (Rabs A) 0 0 t1 - integR (Rabs A) 0 0 t0).
    { apply Hle. intros t Ht. pose proof (Hpt t) as Hp. apply Rabs_le_between in Hp. lra. }
    lra.
Qed.

Example absP_perturb_inst : forall I J,
  is_RInt (absP 1 1 0) 0 1 I -> is_RInt (absP 0 1 0) 0 1 J ->
  Rabs (I - J) <= Rabs 1 * (1 * 1 * 1 - 0 * 0 * 0) / 3.
Proof. intros I J HI HJ. apply (absP_perturb 1 1 0 0 1 I J); [lra | exact HI | exact HJ]. Qed.

Theorem iapR_smallA_bound : forall thr t0 t1 A B C I,
  0 <= thr -> t0 <= t1 -> Rabs A < thr -> thr < Rabs B ->
  is_RInt (absP A B C) t0 t1 I ->
  Rabs (iapR thr t0 t1 A B C - I) <= 2 * Rabs A * (t1 ^ 3 - t0 ^ 3) / 3.
Proof.
  intros thr t0 t1 A B C I Hthr H01 HA HB HI.
  assert (HB0 : B <> 0) by (intros HB0; subst B; rewrite Rabs_R0 in HB; lra).
  unfold iapR, midsR.
  rewrite (Rltb_true (Rabs A) thr) by lra. rewrite (Rltb_true thr (Rabs B)) by lra.
  simpl andb. cbv iota zeta beta. unfold clampoR.
  pose proof (linear_core B C t0 t1 HB0 H01) as HJ.
  destruct (clampR_spec (clampR (- C / B) t0 t1) t0 t1 H01) as [Hc _].
  set (c := clampR (clampR (- C / B) t0 t1) t0 t1) in *.
  set (X := integR A B C t1 - integR A B C t0 + 2 * integR A B C c - 2 * integR A B C t1).
  set (Xq := integR 0 B C t1 - integR 0 B C t0 + 2 * integR 0 B C c - 2 * integR 0 B C t1) in *.
  set (E := Rabs A * (t1 * t1 * t1 - t0 * t0 * t0) / 3).
  pose proof (absP_perturb A B C t0 t1 I (Rabs Xq) H01 HI HJ) as HIJ. fold E in HIJ.
  assert (HXE : Rabs (Rabs X - Rabs Xq) <= E).
  { eapply Rle_trans; [apply Rabs_triang_inv2 | ].
    replace (X - Xq) with (A / 3 * (c * c * c - t0 * t0 * t0) + - (A / 3 * (t1 * t1 * t1 - c * c * c)))
      by (unfold X, Xq, integR; field).
    eapply Rle_trans; [apply Rabs_triang | ].
    rewrite Rabs_Ropp, !Rabs_mult.
    pose proof (cube_mono t0 c (proj1 Hc)) as Hm1. pose proof (cube_mono c t1 (proj2 Hc)) as Hm2.
    rewrite (Rabs_pos_eq (c * c * c - t0 * t0 * t0)) by lra.
    rewrite (Rabs_pos_eq (t1 * t1 * t1 - c * c * c)) by lra.
    replace (Rabs (A / 3)) with (Rabs A / 3)
      by (unfold Rdiv; rewrite Rabs_mult, (Rabs_pos_eq (/ 3)) by lra; reflexivity).
    unfold E. lra. }
  replace (2 * Rabs A * (t1 ^ 3 - t0 ^ 3) / 3) with (E + E) by (unfold E; field).
  replace (Rabs X - I) with ((Rabs X - Rabs Xq) + - (I - Rabs Xq)) by ring.
  eapply Rle_trans; [apply Rabs_triang | ]. rewrite Rabs_Ropp. lra.
Qed.

Example iapR_smallA_bound_inst :
  Rabs (iapR iap_thrR (-10) 10 (9 / 10 ^ 10) (2 / 10 ^ 9) (1 / 10 ^ 8)
        - Rabs (integR (9 / 10 ^ 10) (2 / 10 ^ 9) (1 / 10 ^ 8) 10
                - integR (9 / 10 ^ 10) (2 / 10 ^ 9) (1 / 10 ^ 8) (-10)
                + 2 * integR (9 / 10 ^ 10) (2 / 10 ^ 9) (1 / 10 ^ 8) 10
                - 2 * integR (9 / 10 ^ 10) (2 / 10 ^ 9) (1 / 10 ^ 8) 10))
  <= 2 * Rabs (9 / 10 ^ 10) * (10 ^ 3 - (-10) ^ 3) / 3.
Proof.
  pose proof iap_thrR_bounds as [Hlo Hhi].
  apply iapR_smallA_bound.
  - lra.
  - lra.
  - rewrite Rabs_pos_eq; lra.
  - rewrite Rabs_pos_eq; lra.
  - apply (one_piece _ _ _ (-10) 10 1); [left; reflexivity | lra | ].
    intros t Ht. unfold P.
    replace (1 * (9 / 10 ^ 10 * t * t + 2 / 10 ^ 9 * t + 1 / 10 ^ 8))
      with ((1 / 10 ^ 10) * ((3 * t + 10 / 3) * (3 * t + 10 / 3) + 800 / 9)) by field.
    apply Rmult_le_pos; [lra | ].
    pose proof (Rle_0_sqr (3 * t + 10 / 3)) as Hsqr. unfold Rsqr in Hsqr. lra.
Qed.
