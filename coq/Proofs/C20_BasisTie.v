(* C20 / tie between the Q model and the code: Gen/BasisC20.v holds the matrices the constexpr code of /repo
   ACTUALLY produced on this run (exact binary64 values).  Every entry must be within 1e-12 * max(1,|exact|) of
   the Q model, and exactly equal to it where the exact value is a dyadic rational with a <= 53-bit numerator for the
   families whose floating-point evaluation is exact (integer / dyadic data throughout).
   lgr_nodes<K>, K = 1..16: the dumped nodes and weights are checked against the definition of the quadrature rule.
   A changed coefficient in /repo changes Gen/BasisC20.v and breaks one of the vm_compute obligations below. *)
From Coq Require Import List QArith ZArith Qabs Bool Lia.
From SV Require Import Model.C20_PolyBasis Gen.BasisC20 Proofs.C20_PolyBasis Proofs.C20_Monomial.
Import ListNotations.
Local Open Scope Q_scope.

Definition tol12 : Q := 1 # (10 ^ 12).
Definition qmax (a b : Q) : Q := if Qle_bool a b then b else a.
Fixpoint pow2 (p : positive) : bool := match p with xH => true | xO p' => pow2 p' | xI _ => false end.
Definition is_dyadic53 (e : Q) : bool := let r := Qred e in pow2 (Qden r) && (Z.abs (Qnum r) <? 2 ^ 53)%Z.
Definition close1 (d e : Q) : bool := Qle_bool (Qabs (d - e)) (tol12 * qmax 1 (Qabs e)).
Definition exact1 (d e : Q) : bool := close1 d e && (if is_dyadic53 e then Qeq_bool d e else true).
Definition all2 (f : Q -> Q -> bool) (a b : mat) : bool :=
  (length a =? length b)%nat &&
  forallb (fun '(x, y) => (length x =? length y)%nat && forallb (fun '(u, v) => f u v) (combine x y)) (combine a b).
Definition fam (f : Q -> Q -> bool) (d : list mat) (m : nat -> mat) : bool :=
  (length d =? 11)%nat && forK (fun K => (length (m K) =? K + 1)%nat && all2 f (nth K d []) (m K)).

(* reading of all2: entrywise *)
Lemma combine_nth_in : forall (A B : Type) (l : list A) (l' : list B) i da db,
  (i < length l)%nat -> length l = length l' -> In (nth i l da, nth i l' db) (combine l l').
Proof.
  intros A B l l' i da db Hi Hl. rewrite <- (combine_nth l l' i da db Hl). apply nth_In. rewrite combine_length. lia.
Qed.

Lemma all2_spec : forall f a b, all2 f a b = true ->
  forall i j, (i < length b)%nat -> (j < length (nth i b []))%nat -> f (get a i j) (get b i j) = true.
Proof.
  intros f a b H i j Hi Hj. unfold all2 in H. apply andb_prop in H. destruct H as [HL H].
  apply Nat.eqb_eq in HL. rewrite forallb_forall in H.
  assert (Hia : (i < length a)%nat) by lia.
  specialize (H (nth i a [], nth i b []) (combine_nth_in _ _ a b i [] [] Hia HL)). cbv beta iota in H.
  apply andb_prop in H. destruct H as [HL2 H]. apply Nat.eqb_eq in HL2. rewrite forallb_forall in H.
  assert (Hja : (j < length (nth i a []))%nat) by lia.
  specialize (H (nth j (nth i a []) 0, nth j (nth i b []) 0) (combine_nth_in _ _ _ _ j 0 0 Hja HL2)).
  exact H.
Qed.

Lemma fam_spec : forall f d m, fam f d m = true -> forall K i j, (K <= 10)%nat ->
  (i < length (m K))%nat -> (j < length (nth i (m K) []))%nat -> f (get (nth K d []) i j) (get (m K) i j) = true.
Proof.
  intros f d m H K i j HK Hi Hj. unfold fam in H. apply andb_prop in H. destruct H as [_ H].
  pose proof (forK_spec _ H K HK) as HKK. cbv beta in HKK. apply andb_prop in HKK. destruct HKK as [_ HKK].
  apply (all2_spec f _ _ HKK i j Hi Hj).
Qed.

Lemma close1_spec : forall d e, close1 d e = true -> Qabs (d - e) <= tol12 * qmax 1 (Qabs e).
Proof. intros d e H. apply Qle_bool_iff. exact H. Qed.

(* ---- one obligation per family; `exact1` where the code's arithmetic is exact, `close1` otherwise *)
Lemma tie_bernstein : fam exact1 d_bernstein (polynomial_basis Bernstein) = true. Proof. vm_cast_no_check (eq_refl true). Qed.
Lemma tie_bspline : fam close1 d_bspline (polynomial_basis Bspline) = true. Proof. vm_cast_no_check (eq_refl true). Qed.
Lemma tie_chebyshev1st : fam close1 d_chebyshev1st (polynomial_basis Chebyshev1st) = true. Proof. vm_cast_no_check (eq_refl true). Qed.
Lemma tie_chebyshev2nd : fam close1 d_chebyshev2nd (polynomial_basis Chebyshev2nd) = true. Proof. vm_cast_no_check (eq_refl true). Qed.
Lemma tie_hermite : fam exact1 d_hermite (polynomial_basis Hermite) = true. Proof. vm_cast_no_check (eq_refl true). Qed.
Lemma tie_laguerre : fam close1 d_laguerre (polynomial_basis Laguerre) = true. Proof. vm_cast_no_check (eq_refl true). Qed.
Lemma tie_legendre : fam exact1 d_legendre (polynomial_basis Legendre) = true. Proof. vm_cast_no_check (eq_refl true). Qed.
Lemma tie_monomial : fam exact1 d_monomial (polynomial_basis Monomial) = true. Proof. vm_cast_no_check (eq_refl true). Qed.
Lemma tie_cum_bernstein : fam exact1 d_cum_bernstein (polynomial_cumulative_basis Bernstein) = true. Proof. vm_cast_no_check (eq_refl true). Qed.
Lemma tie_cum_bspline : fam close1 d_cum_bspline (polynomial_cumulative_basis Bspline) = true. Proof. vm_cast_no_check (eq_refl true). Qed.
Lemma tie_monoderivs_3_4 : (length d_monoderivs_3_4 =? 11)%nat && forK (fun K => all2 exact1 (nth K d_monoderivs_3_4 []) (monomial_derivatives K (K + 1) (3 # 4))) = true.
Proof. vm_cast_no_check (eq_refl true). Qed.
Lemma tie_monoderivs_m3 : (length d_monoderivs_m3 =? 11)%nat && forK (fun K => all2 exact1 (nth K d_monoderivs_m3 []) (monomial_derivatives K (K + 1) (-3 # 1))) = true.
Proof. vm_cast_no_check (eq_refl true). Qed.
Lemma tie_monoint_0 : fam exact1 d_monoint_0 (fun K => monomial_integral K 0) = true. Proof. vm_cast_no_check (eq_refl true). Qed.
Lemma tie_monoint_1 : fam exact1 d_monoint_1 (fun K => monomial_integral K 1) = true. Proof. vm_cast_no_check (eq_refl true). Qed.
Lemma tie_monoint_2 : fam exact1 d_monoint_2 (fun K => monomial_integral K 2) = true. Proof. vm_cast_no_check (eq_refl true). Qed.
Lemma tie_monoint_3 : fam exact1 d_monoint_3 (fun K => monomial_integral K 3) = true. Proof. vm_cast_no_check (eq_refl true). Qed.
Lemma tie_monoint_4 : fam exact1 d_monoint_4 (fun K => monomial_integral K 4) = true. Proof. vm_cast_no_check (eq_refl true). Qed.
Lemma tie_monoint_5 : fam exact1 d_monoint_5 (fun K => monomial_integral K 5) = true. Proof. vm_cast_no_check (eq_refl true). Qed.
Lemma tie_monoint_6 : fam exact1 d_monoint_6 (fun K => monomial_integral K 6) = true. Proof. vm_cast_no_check (eq_refl true). Qed.
Lemma tie_monoint_7 : fam exact1 d_monoint_7 (fun K => monomial_integral K 7) = true. Proof. vm_cast_no_check (eq_refl true). Qed.
Lemma tie_monoint_8 : fam exact1 d_monoint_8 (fun K => monomial_integral K 8) = true. Proof. vm_cast_no_check (eq_refl true). Qed.
Lemma tie_monoint_9 : fam exact1 d_monoint_9 (fun K => monomial_integral K 9) = true. Proof. vm_cast_no_check (eq_refl true). Qed.
Lemma tie_monoint_10 : fam exact1 d_monoint_10 (fun K => monomial_integral K 10) = true. Proof. vm_cast_no_check (eq_refl true). Qed.
Lemma tie_monoint_11 : fam exact1 d_monoint_11 (fun K => monomial_integral K 11) = true. Proof. vm_cast_no_check (eq_refl true). Qed.
(* all derivative orders 4..11 (incl. the entries whose integer prefactor exceeds 2^32) *)
Theorem monoint_high_matches_code :
  fam exact1 d_monoint_4 (fun K => monomial_integral K 4) = true /\
  fam exact1 d_monoint_5 (fun K => monomial_integral K 5) = true /\
  fam exact1 d_monoint_6 (fun K => monomial_integral K 6) = true /\
  fam exact1 d_monoint_7 (fun K => monomial_integral K 7) = true /\
  fam exact1 d_monoint_8 (fun K => monomial_integral K 8) = true /\
  fam exact1 d_monoint_9 (fun K => monomial_integral K 9) = true /\
  fam exact1 d_monoint_10 (fun K => monomial_integral K 10) = true /\
  fam exact1 d_monoint_11 (fun K => monomial_integral K 11) = true.
Proof.
  exact (conj tie_monoint_4 (conj tie_monoint_5 (conj tie_monoint_6 (conj tie_monoint_7 (conj tie_monoint_8 (conj tie_monoint_9 (conj tie_monoint_10 tie_monoint_11))))))).
Qed.
Lemma tie_lagrange : fam exact1 d_lagrange_q (fun K => lagrange_basis K (nodes_quad K)) = true. Proof. vm_cast_no_check (eq_refl true). Qed.

Theorem basis_matches_code :
  fam exact1 d_bernstein (polynomial_basis Bernstein) = true /\
  fam close1 d_bspline (polynomial_basis Bspline) = true /\
  fam close1 d_chebyshev1st (polynomial_basis Chebyshev1st) = true /\
  fam close1 d_chebyshev2nd (polynomial_basis Chebyshev2nd) = true /\
  fam exact1 d_hermite (polynomial_basis Hermite) = true /\
  fam close1 d_laguerre (polynomial_basis Laguerre) = true /\
  fam exact1 d_legendre (polynomial_basis Legendre) = true /\
  fam exact1 d_monomial (polynomial_basis Monomial) = true /\
  fam exact1 d_cum_bernstein (polynomial_cumulative_basis Bernstein) = true /\
  fam close1 d_cum_bspline (polynomial_cumulative_basis Bspline) = true /\
  fam exact1 d_monoint_0 (fun K => monomial_integral K 0) = true /\
  fam exact1 d_monoint_1 (fun K => monomial_integral K 1) = true /\
  fam exact1 d_monoint_2 (fun K => monomial_integral K 2) = true /\
  fam exact1 d_monoint_3 (fun K => monomial_integral K 3) = true /\
  fam exact1 d_lagrange_q (fun K => lagrange_basis K (nodes_quad K)) = true.
Proof.
  exact (conj tie_bernstein (conj tie_bspline (conj tie_chebyshev1st (conj tie_chebyshev2nd (conj tie_hermite (conj tie_laguerre (conj tie_legendre (conj tie_monomial (conj tie_cum_bernstein (conj tie_cum_bspline (conj tie_monoint_0 (conj tie_monoint_1 (conj tie_monoint_2 (conj tie_monoint_3 tie_lagrange)))))))))))))).
Qed.

(* entrywise reading for one family (the others are identical instances of fam_spec) *)
Corollary bspline_entry_close : forall K i j, (K <= 10)%nat -> (i <= K)%nat -> (j <= K)%nat ->
  length (polynomial_basis Bspline K) = (K + 1)%nat -> length (nth i (polynomial_basis Bspline K) []) = (K + 1)%nat ->
  Qabs (get (nth K d_bspline []) i j - get (polynomial_basis Bspline K) i j)
  <= tol12 * qmax 1 (Qabs (get (polynomial_basis Bspline K) i j)).
Proof.
  intros K i j HK Hi Hj HL1 HL2. apply close1_spec. apply (fam_spec close1 _ _ tie_bspline K i j HK); lia.
Qed.

