(* C20 / lgr_nodes<K>, K = 1..16 (quadrature.hpp:88-113): the nodes and weights the constexpr code ACTUALLY produced
   (Gen/BasisC20.v, exact binary64 values) satisfy the definition of the Legendre-Gauss-Radau rule to 1e-9. *)
From Coq Require Import List QArith ZArith Qabs Bool Lia.
From SV Require Import Model.C20_PolyBasis Gen.BasisC20 Proofs.C20_BasisTie.
Import ListNotations.
Local Open Scope Q_scope.

(* ------------------------------------------------------------------ lgr_nodes<K>, K = 1..16 *)
Definition tol9 : Q := 1 # (10 ^ 9).
Definition mono_int (m : nat) : Q := if Nat.even m then 2 / Qn (m + 1) else 0.     (* int_{-1}^{1} x^m dx *)

(* cheap normalisation of a dyadic rational: strip common factors of two (the dumped numbers are binary64 values) *)
Fixpoint dyred_pos (n d : positive) : positive * positive :=
  match n, d with
  | xO n', xO d' => dyred_pos n' d'
  | _, _ => (n, d)
  end.
Definition dyred (q : Q) : Q :=
  match Qnum q with
  | Z0 => 0
  | Zpos n => let '(n', d') := dyred_pos n (Qden q) in Zpos n' # d'
  | Zneg n => let '(n', d') := dyred_pos n (Qden q) in Zneg n' # d'
  end.
Lemma dyred_pos_correct : forall n d n' d', dyred_pos n d = (n', d') -> (n * d' = n' * d)%positive.
Proof.
  induction n as [n IH | n IH |]; intros d n' d' H; destruct d as [d | d |]; cbn [dyred_pos] in H;
    try (inversion H; subst; reflexivity).
  specialize (IH d n' d' H). lia.
Qed.
Lemma dyred_correct : forall q, dyred q == q.
Proof.
  intros [n d]. unfold dyred, Qeq. cbn [Qnum Qden]. destruct n as [| n | n]; [reflexivity | |];
    destruct (dyred_pos n d) as [n' d'] eqn:E; cbn [Qnum Qden]; pose proof (dyred_pos_correct n d n' d' E); lia.
Qed.

(* moments: m-th entry is  sum_i w_i x_i^m  (ts_i = w_i x_i^m is carried along, multiplied by x_i at each step) *)
Definition dysum (ts : list Q) : Q := fold_left (fun a t => dyred (a + t)) ts 0.
Definition mstep (xs ts : list Q) : list Q := map (fun '(x, t) => dyred (x * t)) (combine xs ts).
Fixpoint moments (n : nat) (xs ts : list Q) : list Q :=
  match n with O => [] | S n' => dysum ts :: moments n' xs (mstep xs ts) end.
Fixpoint iterate (m : nat) (xs ts : list Q) : list Q := match m with O => ts | S m' => iterate m' xs (mstep xs ts) end.
Lemma moments_nth : forall n m xs ts, (m < n)%nat -> nth m (moments n xs ts) 0 = dysum (iterate m xs ts).
Proof.
  induction n as [| n IH]; intros m xs ts Hm; [lia |]. destruct m as [| m]; cbn [moments nth iterate]; [reflexivity |].
  apply IH. lia.
Qed.
Lemma fold_Qplus_compat : forall ts p q, p == q -> fold_left Qplus ts p == fold_left Qplus ts q.
Proof.
  induction ts as [| t ts IH]; intros p q Hpq; cbn [fold_left]; [exact Hpq |]. apply IH. rewrite Hpq. reflexivity.
Qed.
Lemma dysum_correct : forall ts a, fold_left (fun a t => dyred (a + t)) ts a == fold_left Qplus ts a.
Proof.
  induction ts as [| t ts IH]; intro a; cbn [fold_left]; [reflexivity |].
  rewrite IH. apply fold_Qplus_compat. apply dyred_correct.
Qed.

Definition qlt (a b : Q) : bool := negb (Qle_bool b a).
Lemma qlt_spec : forall a b, qlt a b = true -> a < b.
Proof.
  intros a b H. unfold qlt in H. apply negb_true_iff in H. apply Qnot_le_lt. intro C. apply Qle_bool_iff in C. congruence.
Qed.
Fixpoint increasing (l : list Q) : bool :=
  match l with
  | [] => true
  | a :: t => (match t with [] => true | b :: _ => qlt a b end) && increasing t
  end.
Definition lgr_xs (K : nat) : list Q := fst (nth (K - 1) d_lgr ([], [])).
Definition lgr_ws (K : nat) : list Q := snd (nth (K - 1) d_lgr ([], [])).
(* the definition of the rule, checked on the dumped numbers (exact rational arithmetic):
     x_0 = -1, nodes strictly increasing, x_i in (-1,1) for i >= 1, weights positive,
     | sum_i w_i x_i^m - int_{-1}^{1} x^m | <= 1e-9  for every m <= 2K-2 *)
Definition lgr_ok (K : nat) : bool :=
  let xs := lgr_xs K in let ws := lgr_ws K in
  (length xs =? K)%nat && (length ws =? K)%nat
  && Qeq_bool (nth 0 xs 0) (-(1))
  && increasing xs
  && forallb (fun x => qlt (-(1)) x && qlt x 1) (tl xs)
  && forallb (fun w => qlt 0 w) ws
  && forallb (fun '(m, q) => Qle_bool (Qabs (q - mono_int m)) tol9) (combine (seq 0 (2 * K - 1)) (moments (2 * K - 1) xs ws)).
Lemma chk_lgr_ok : forallb lgr_ok (seq 1 16) = true. Proof. vm_cast_no_check (eq_refl true). Qed.

Theorem lgr_nodes_correct : forall K, (1 <= K <= 16)%nat ->
  length (lgr_xs K) = K /\ length (lgr_ws K) = K /\ nth 0 (lgr_xs K) 0 == -(1) /\ increasing (lgr_xs K) = true /\
  (forall x, In x (tl (lgr_xs K)) -> -(1) < x /\ x < 1) /\ (forall w, In w (lgr_ws K) -> 0 < w) /\
  (forall m, (m <= 2 * K - 2)%nat -> Qabs (nth m (moments (2 * K - 1) (lgr_xs K) (lgr_ws K)) 0 - mono_int m) <= tol9).
Proof.
  intros K HK. pose proof chk_lgr_ok as H.
  rewrite forallb_forall in H. specialize (H K ltac:(apply in_seq; lia)). unfold lgr_ok in H. cbv zeta in H.
  apply andb_prop in H. destruct H as [H H7]. apply andb_prop in H. destruct H as [H H6].
  apply andb_prop in H. destruct H as [H H5]. apply andb_prop in H. destruct H as [H H4].
  apply andb_prop in H. destruct H as [H H3]. apply andb_prop in H. destruct H as [H1 H2].
  apply Nat.eqb_eq in H1. apply Nat.eqb_eq in H2. apply Qeq_bool_iff in H3.
  split; [exact H1 |]. split; [exact H2 |]. split; [exact H3 |]. split; [exact H4 |]. split; [| split].
  - intros x Hx. rewrite forallb_forall in H5. specialize (H5 x Hx). apply andb_prop in H5. destruct H5 as [A B].
    split; apply qlt_spec; assumption.
  - intros w Hw. rewrite forallb_forall in H6. specialize (H6 w Hw). apply qlt_spec. exact H6.
  - intros m Hm. rewrite forallb_forall in H7.
    assert (Hlen : length (moments (2 * K - 1) (lgr_xs K) (lgr_ws K)) = (2 * K - 1)%nat).
    { generalize (2 * K - 1)%nat (lgr_xs K) (lgr_ws K). induction n as [| n IH]; intros xs ts; cbn [moments length]; [reflexivity |].
      rewrite IH. reflexivity. }
    specialize (H7 (nth m (seq 0 (2 * K - 1)) 0%nat, nth m (moments (2 * K - 1) (lgr_xs K) (lgr_ws K)) 0)).
    rewrite seq_nth in H7 by lia. cbn [Nat.add] in H7. apply Qle_bool_iff. apply H7.
    assert (E : (m, nth m (moments (2 * K - 1) (lgr_xs K) (lgr_ws K)) 0)
                = (nth m (seq 0 (2 * K - 1)) 0%nat, nth m (moments (2 * K - 1) (lgr_xs K) (lgr_ws K)) 0))
      by (rewrite seq_nth by lia; reflexivity).
    rewrite E. apply combine_nth_in; [rewrite seq_length; lia | rewrite seq_length, Hlen; reflexivity].
Qed.

(* non-vacuity / what the numbers look like: K = 2 is the rule {-1, 1/3} with weights {1/2, 3/2} *)
Example lgr2_close :
  Qabs (nth 1 (lgr_xs 2) 0 - (1 # 3)) <= tol12 /\ Qabs (nth 0 (lgr_ws 2) 0 - (1 # 2)) <= tol12 /\ Qabs (nth 1 (lgr_ws 2) 0 - (3 # 2)) <= tol12.
Proof. vm_compute. repeat split; discriminate. Qed.
