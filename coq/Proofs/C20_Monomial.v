(* C20 / monomial_derivative(s), monomial_integral, lagrange_basis: theorems about Model/C20_PolyBasis.v.
   monomial_derivative: for ALL K, p, u (induction): the integer update `P2 *= i; P2 /= i - p` (basis.hpp:40-41)
   is exact and entry k equals d^p/du^p u^k (Coquelicot's Derive_n). *)
From Coquelicot Require Import Derive ElemFct.
From Coq Require Import List QArith ZArith Qabs Bool Reals Qreals Lra Lia.
From SV Require Import Model.C20_PolyBasis Proofs.C20_PolyBasis.
Import ListNotations.

(* ------------------------------------------------------------------ list-update lemmas *)
Lemma length_updl : forall (A : Type) (l : list A) i v, length (updl l i v) = length l.
Proof. induction l as [| h t IH]; intros i v; destruct i; cbn [updl length]; auto. Qed.

Lemma nth_updl_eq : forall (A : Type) (l : list A) i v d, (i < length l)%nat -> nth i (updl l i v) d = v.
Proof.
  induction l as [| h t IH]; intros i v d Hi; cbn [length] in Hi; [lia |].
  destruct i; cbn [updl nth]; [reflexivity | apply IH; lia].
Qed.

Lemma nth_updl_neq : forall (A : Type) (l : list A) i j v d, i <> j -> nth j (updl l i v) d = nth j l d.
Proof.
  induction l as [| h t IH]; intros i j v d Hij; [destruct i; reflexivity |].
  destruct i, j; cbn [updl nth]; try reflexivity; [lia | apply IH; lia].
Qed.

(* a loop that writes f i at every index i of [a, a+n) *)
Lemma nth_for_updl : forall (f : nat -> Q) n a (ret : list Q) k,
  (a + n <= length ret)%nat ->
  nth k (for_ (seq a n) (fun i r => updl r i (f i)) ret) 0%Q =
  if ((a <=? k) && (k <? a + n))%nat then f k else nth k ret 0%Q.
Proof.
  induction n as [| n IH]; intros a ret k Hlen.
  - cbn [seq for_ fold_left]. replace (a + 0)%nat with a by lia.
    destruct (Nat.leb_spec a k), (Nat.ltb_spec k a); cbn [andb]; try reflexivity; lia.
  - cbn [seq]. unfold for_ in *. cbn [fold_left]. rewrite IH by (rewrite length_updl; lia).
    destruct (Nat.leb_spec (S a) k), (Nat.ltb_spec k (S a + n)), (Nat.leb_spec a k), (Nat.ltb_spec k (a + S n));
      cbn [andb]; try reflexivity; try lia;
      first [ apply nth_updl_neq; lia | assert (k = a) by lia; subst k; apply nth_updl_eq; lia ].
Qed.

Lemma length_for_updl : forall (f : nat -> Q) is (ret : list Q), length (for_ is (fun i r => updl r i (f i)) ret) = length ret.
Proof.
  intros f is. induction is as [| i is IH]; intro ret; unfold for_ in *; cbn [fold_left]; [reflexivity |].
  rewrite IH. apply length_updl.
Qed.

(* ------------------------------------------------------------------ the integer update *)
Local Open Scope Z_scope.

(* a (a+1) ... (a+n-1) *)
Fixpoint prodrange (a n : nat) : Z :=
  match n with O => 1 | S n' => Z.of_nat a * prodrange (S a) n' end.

Lemma prodrange_snoc : forall n a, prodrange a (S n) = prodrange a n * Z.of_nat (a + n).
Proof.
  induction n as [| n IH]; intro a.
  - cbn [prodrange]. replace (a + 0)%nat with a by lia. lia.
  - change (prodrange a (S (S n))) with (Z.of_nat a * prodrange (S a) (S n)). rewrite IH.
    cbn [prodrange]. replace (S a + n)%nat with (a + S n)%nat by lia. lia.
Qed.

Lemma for_mul_prodrange : forall n a acc,
  for_ (seq a n) (fun j P2 => P2 * Z.of_nat j) acc = acc * prodrange a n.
Proof.
  induction n as [| n IH]; intros a acc; unfold for_ in *; cbn [seq fold_left prodrange]; [lia |].
  rewrite IH. lia.
Qed.

(* basis.hpp:36 : P2 = p!  *)
Lemma md_P2_init_spec : forall p, md_P2_init p = prodrange 1 p.
Proof.
  intro p. unfold md_P2_init. rewrite for_mul_prodrange. destruct p as [| p]; [reflexivity |].
  cbn [prodrange]. replace (S p - 1)%nat with p by lia. lia.
Qed.

(* basis.hpp:40-41 : the division is exact for every p and every i > p, and maintains P2 = (i-p+1)...i = i!/(i-p)! *)
Theorem md_P2_step_exact : forall p i, (p + 1 <= i)%nat ->
  (prodrange (i - p) p * Z.of_nat i) mod Z.of_nat (i - p) = 0 /\
  md_P2_step p i (prodrange (i - p) p) = prodrange (i - p + 1) p.
Proof.
  intros p i Hi. unfold md_P2_step.
  assert (E : prodrange (i - p) p * Z.of_nat i = prodrange (i - p + 1) p * Z.of_nat (i - p)).
  { replace i with ((i - p) + p)%nat at 2 by lia. rewrite <- prodrange_snoc. cbn [prodrange].
    replace (S (i - p)) with (i - p + 1)%nat by lia. lia. }
  rewrite E. split.
  - apply Z.mod_mul. lia.
  - apply Z.div_mul. lia.
Qed.

Lemma prodrange_fact : forall n a,
  Z.of_nat (Factorial.fact (a + n)) = prodrange (S a) n * Z.of_nat (Factorial.fact a).
Proof.
  induction n as [| n IH]; intro a.
  - cbn [prodrange]. replace (a + 0)%nat with a by lia. lia.
  - cbn [prodrange]. replace (a + S n)%nat with (S a + n)%nat by lia. rewrite IH.
    change (Factorial.fact (S a)) with (S a * Factorial.fact a)%nat. rewrite Nat2Z.inj_mul. lia.
Qed.

(* the value never exceeds 2^64 for K <= 20, so the std::size_t of the code does not wrap (finite check) *)
Lemma md_P2_no_wrap : forallb (fun i => forallb (fun p => (prodrange (i - p) p * Z.of_nat i <? 2 ^ 64)) (seq 0 i)) (seq 1 20) = true.
Proof. vm_compute. reflexivity. Qed.

(* ------------------------------------------------------------------ monomial_derivative, all K p u *)
Local Open Scope Q_scope.

Fixpoint qpowl (u : Q) (n : nat) : Q := match n with O => 1 | S n' => qpowl u n' * u end.
Definition md_val (p : nat) (u : Q) (i : nat) : Q := Qred (qpowl u (i - p) * inject_Z (prodrange (i - p + 1) p)).
Definition md_entry (p : nat) (u : Q) (k : nat) : Q := if (k <? p)%nat then 0 else md_val p u k.

Definition md_body (p : nat) (u : Q) (i : nat) (s : list Q * (Q * Z)) : list Q * (Q * Z) :=
  let '(ret, (P1, P2)) := s in
  let P1 := P1 * u in
  let P2 := md_P2_step p i P2 in
  (updl ret i (Qred (P1 * inject_Z P2)), (P1, P2)).

Lemma md_loop : forall p u n m ret, (p <= m)%nat ->
  for_ (seq (m + 1) n) (md_body p u) (ret, (qpowl u (m - p), prodrange (m - p + 1) p)) =
  (for_ (seq (m + 1) n) (fun i r => updl r i (md_val p u i)) ret,
   (qpowl u (m + n - p), prodrange (m + n - p + 1) p)).
Proof.
  intros p u. induction n as [| n IH]; intros m ret Hm.
  - cbn [seq for_ fold_left]. replace (m + 0)%nat with m by lia. reflexivity.
  - cbn [seq]. unfold for_ in *. cbn [fold_left]. unfold md_body at 2.
    destruct (md_P2_step_exact p (m + 1) ltac:(lia)) as [_ Hstep].
    replace (m + 1 - p)%nat with (m - p + 1)%nat in Hstep by lia. rewrite Hstep.
    change (qpowl u (m - p) * u) with (qpowl u (S (m - p))).
    replace (S (m - p)) with (m + 1 - p)%nat by lia.
    replace (m - p + 1 + 1)%nat with (m + 1 - p + 1)%nat by lia.
    replace (S (m + 1)) with (m + 1 + 1)%nat by lia.
    fold (md_val p u (m + 1)).
    rewrite (IH (m + 1)%nat _ ltac:(lia)). replace (m + 1 + n)%nat with (m + S n)%nat by lia. reflexivity.
Qed.

Lemma nth_repeat0 : forall n k, nth k (repeat 0 n) 0 = 0.
Proof. induction n as [| n IH]; intro k; destruct k; cbn [repeat nth]; auto. Qed.

Theorem monomial_derivative_entries : forall K p u k, (k <= K)%nat ->
  length (monomial_derivative K p u) = (K + 1)%nat /\
  nth k (monomial_derivative K p u) 0 = if (K <? p)%nat then 0 else md_entry p u k.
Proof.
  intros K p u k Hk. unfold monomial_derivative.
  destruct (Nat.ltb_spec K p) as [Hp | Hp].
  - split; [apply repeat_length | apply nth_repeat0].
  - rewrite md_P2_init_spec.
    set (ret0 := for_ (seq 0 p) (fun i ret => updl ret i 0) (repeat 0 (K + 1))).
    assert (L0 : length ret0 = (K + 1)%nat) by (unfold ret0; rewrite length_for_updl; apply repeat_length).
    assert (N0 : forall j, nth j ret0 0 = 0).
    { intro j. unfold ret0. rewrite (nth_for_updl (fun _ => 0)) by (rewrite repeat_length; lia).
      destruct ((0 <=? j)%nat && (j <? 0 + p)%nat); [reflexivity | apply nth_repeat0]. }
    change (for_ (seq (p + 1) (K - p)) _ ?s) with (for_ (seq (p + 1) (K - p)) (md_body p u) s).
    pose proof (md_loop p u (K - p) p (updl ret0 p (Qred (1 * inject_Z (prodrange 1 p)))) (Nat.le_refl p)) as HL.
    replace (p - p)%nat with 0%nat in HL by lia. cbn [qpowl] in HL. replace (0 + 1)%nat with 1%nat in HL by lia.
    rewrite HL. cbn [fst]. split.
    + rewrite length_for_updl, length_updl. exact L0.
    + rewrite nth_for_updl by (rewrite length_updl; lia). unfold md_entry.
      destruct (Nat.leb_spec (p + 1) k), (Nat.ltb_spec k (p + 1 + (K - p))), (Nat.ltb_spec k p); cbn [andb]; try reflexivity; try lia;
      first [ assert (k = p) by lia; subst k; rewrite nth_updl_eq by lia; unfold md_val;
              replace (p - p)%nat with 0%nat by lia; reflexivity
            | rewrite nth_updl_neq by lia; apply N0 ].
Qed.

Lemma Q2R_qpowl : forall u n, Q2R (qpowl u n) = (Q2R u ^ n)%R.
Proof.
  intros u n. induction n as [| n IH]; cbn [qpowl pow]; [apply Q2R_1 |]. rewrite Q2R_mult, IH. lra.
Qed.

Lemma Q2R_inject_Z : forall z, Q2R (inject_Z z) = IZR z.
Proof. intro z. unfold Q2R, inject_Z. cbn [Qnum Qden]. lra. Qed.

(* U_k = d^p/du^p u^k  for every K, every differentiation order p (also p > K) and every u *)
Theorem monomial_derivative_is_derivative : forall K p u k, (k <= K)%nat ->
  Q2R (nth k (monomial_derivative K p u) 0) = Derive_n (fun x : R => (x ^ k)%R) p (Q2R u).
Proof.
  intros K p u k Hk. destruct (monomial_derivative_entries K p u k Hk) as [_ E]. rewrite E.
  destruct (Nat.ltb_spec K p) as [Hp | Hp].
  - rewrite Derive_n_pow_bigi by lia. apply Q2R_0.
  - unfold md_entry. destruct (Nat.ltb_spec k p) as [Hkp | Hkp].
    + rewrite Derive_n_pow_bigi by lia. apply Q2R_0.
    + rewrite Derive_n_pow_smalli by lia. unfold md_val. rewrite Q2R_red, Q2R_mult, Q2R_qpowl, Q2R_inject_Z.
      pose proof (prodrange_fact p (k - p)) as HF. replace (k - p + p)%nat with k in HF by lia.
      replace (S (k - p)) with (k - p + 1)%nat in HF by lia.
      apply (f_equal IZR) in HF. rewrite mult_IZR, <- !INR_IZR_INZ in HF. rewrite HF.
      field. apply INR_fact_neq_0.
Qed.

(* monomial_derivatives<K,P>: row p is monomial_derivative(u, p) *)
Theorem monomial_derivatives_rows : forall K P u p, (p <= P)%nat ->
  nth p (monomial_derivatives K P u) [] = monomial_derivative K p u.
Proof.
  intros K P u p Hp. unfold monomial_derivatives.
  rewrite (nth_indep _ [] (monomial_derivative K 0 u)) by (rewrite map_length, seq_length; lia).
  rewrite (map_nth (fun p => monomial_derivative K p u) (seq 0 (P + 1)) 0%nat p). rewrite seq_nth by lia. reflexivity.
Qed.

(* ------------------------------------------------------------------ monomial_integral: K <= 10, P <= K+1
   M(i,j) = int_0^1 (d^P/du^P u^i)(d^P/du^P u^j) du, with the formal derivative and integral of coefficient lists *)
Definition pint01 (p : list Q) : Q := qsum (map (fun '(k, a) => a / Qn (k + 1)) (combine (seq 0 (length p)) p)).
Fixpoint iter {A : Type} (n : nat) (f : A -> A) (x : A) : A := match n with O => x | S n' => f (iter n' f x) end.
Definition chk_monoint_f (K : nat) : bool :=
  forallb (fun P => let M := monomial_integral K P in
    forj K (fun i => forj K (fun j =>
      Qeq_bool (get M i j) (pint01 (pmul (iter P pderiv (pmono i)) (iter P pderiv (pmono j))))))) (seq 0 (K + 2)).
Lemma chk_monoint_ok : forK chk_monoint_f = true. Proof. vm_cast_no_check (eq_refl true). Qed.

Theorem monomial_integral_is_integral : forall K P i j, (K <= 10)%nat -> (P <= K + 1)%nat -> (i <= K)%nat -> (j <= K)%nat ->
  get (monomial_integral K P) i j == pint01 (pmul (iter P pderiv (pmono i)) (iter P pderiv (pmono j))).
Proof.
  intros K P i j HK HP Hi Hj. pose proof (forK_spec chk_monoint_f chk_monoint_ok K HK) as H. unfold chk_monoint_f in H.
  rewrite forallb_forall in H. specialize (H P ltac:(apply in_seq; lia)). cbv beta zeta in H.
  pose proof (forj_spec _ _ H i Hi) as H1. cbv beta in H1. pose proof (forj_spec _ _ H1 j Hj) as H2. cbv beta in H2.
  apply Qeq_bool_iff in H2. exact H2.
Qed.

(* the formal derivative used above agrees with the closed form of d^p/du^p u^k (finite check, k <= 10, p <= 11) *)
Lemma pderiv_pmono : forallb (fun k => forallb (fun p =>
    peqb (iter p pderiv (pmono k)) (if (k <? p)%nat then [] else pscale (inject_Z (prodrange (k - p + 1) p)) (pmono (k - p))))
    (seq 0 12)) (seq 0 11) = true.
Proof. vm_compute. reflexivity. Qed.

(* ------------------------------------------------------------------ lagrange_basis
   PARTIAL: interpolation p_i(t_j) = delta_ij is established for K <= 10 on four concrete families of distinct
   rational nodes (exact arithmetic), not for arbitrary nodes (that needs an induction over the in-place array
   update of basis.hpp:328-335, not done). *)
Definition nodes_quad (K : nat) : list Q := map (fun i => (Qn i * Qn i - 3 * Qn i) / 4 + Qn i) (seq 0 (K + 1)).   (* the dumped family *)
Definition nodes_equi (K : nat) : list Q := map (fun i => Qn i) (seq 0 (K + 1)).
Definition nodes_cheb (K : nat) : list Q := map (fun i => (Qn (i * i) - 7) / Qn (i + 2)) (seq 0 (K + 1)).
Definition nodes_neg (K : nat) : list Q := map (fun i => - Qn (2 * i + 1) / Qn (3 * i + 2)) (seq 0 (K + 1)).
Definition distinct (ts : list Q) : bool :=
  forallb (fun i => forallb (fun j => (i =? j)%nat || negb (Qeq_bool (nth i ts 0) (nth j ts 0))) (seq 0 (length ts))) (seq 0 (length ts)).
Definition interpolates (K : nat) (ts : list Q) : bool :=
  let M := lagrange_basis K ts in
  distinct ts && forj K (fun i => forj K (fun j => Qeq_bool (peval (col M i) (nth j ts 0)) (if (i =? j)%nat then 1 else 0))).
Definition chk_lagrange_f (K : nat) : bool :=
  interpolates K (nodes_quad K) && interpolates K (nodes_equi K) && interpolates K (nodes_cheb K) && interpolates K (nodes_neg K).
Lemma chk_lagrange_ok : forK chk_lagrange_f = true. Proof. vm_cast_no_check (eq_refl true). Qed.

Theorem lagrange_interpolates_partial : forall K ts i j, (K <= 10)%nat ->
  (ts = nodes_quad K \/ ts = nodes_equi K \/ ts = nodes_cheb K \/ ts = nodes_neg K) -> (i <= K)%nat -> (j <= K)%nat ->
  distinct ts = true /\
  peval (col (lagrange_basis K ts) i) (nth j ts 0) == (if (i =? j)%nat then 1 else 0).
Proof.
  intros K ts i j HK Hts Hi Hj. pose proof (forK_spec chk_lagrange_f chk_lagrange_ok K HK) as H. unfold chk_lagrange_f in H.
  apply andb_prop in H. destruct H as [H H4]. apply andb_prop in H. destruct H as [H H3]. apply andb_prop in H. destruct H as [H1 H2].
  assert (Hint : interpolates K ts = true) by (destruct Hts as [E | [E | [E | E]]]; subst ts; assumption).
  unfold interpolates in Hint. cbv zeta in Hint. apply andb_prop in Hint. destruct Hint as [Hd Hint]. split; [exact Hd |].
  pose proof (forj_spec _ _ Hint i Hi) as Hi'. cbv beta in Hi'. pose proof (forj_spec _ _ Hi' j Hj) as Hj'. cbv beta in Hj'.
  apply Qeq_bool_iff in Hj'. exact Hj'.
Qed.
