(* C20 / Legendre, Chebyshev (1st, 2nd kind), Hermite, Laguerre: recurrences, normalisations, explicit formulas,
   for K <= 10, for all real x; lifted from the finite check chk_orthogonal_ok of Proofs/C20_PolyBasis.v. *)
From Coq Require Import List QArith ZArith Qabs Bool Reals Qreals Lra Lia.
From SV Require Import Model.C20_PolyBasis Proofs.C20_PolyBasis.
Import ListNotations.
Local Open Scope R_scope.

Lemma Q2R_Qn : forall n, Q2R (Qn n) = INR n.
Proof. intro n. unfold Qn, Q2R. cbn [Qnum Qden inject_Z]. rewrite <- INR_IZR_INZ. lra. Qed.

Lemma orth_K : forall K, (K <= 10)%nat ->
  legendre_rec K = true /\ cheb1_rec K = true /\ cheb2_rec K = true /\ hermite_rec K = true /\ laguerre_rec K = true /\
  chk_norm_f K = true.
Proof.
  intros K HK. pose proof (forK_spec chk_orthogonal_f chk_orthogonal_ok K HK) as H. unfold chk_orthogonal_f in H.
  apply andb_prop in H. destruct H as [H H6]. apply andb_prop in H. destruct H as [H H5].
  apply andb_prop in H. destruct H as [H H4]. apply andb_prop in H. destruct H as [H H3].
  apply andb_prop in H. destruct H as [H1 H2]. repeat split; assumption.
Qed.

(* (k+1) P_{k+1} = (2k+1) x P_k - k P_{k-1},  P_0 = 1, P_1 = x *)
Theorem legendre_recurrence : forall K, (K <= 10)%nat ->
  (forall x, pevalR (pcol Legendre K 0) x = 1) /\
  ((0 < K)%nat -> forall x, pevalR (pcol Legendre K 1) x = x) /\
  (forall k x, (1 <= k < K)%nat ->
     INR (k + 1) * pevalR (pcol Legendre K (k + 1)) x =
     INR (2 * k + 1) * x * pevalR (pcol Legendre K k) x - INR k * pevalR (pcol Legendre K (k - 1)) x).
Proof.
  intros K HK. destruct (orth_K K HK) as [H _]. destruct (chk_rec_R _ _ _ _ _ _ _ H) as [H0 [H1 H2]].
  split; [exact H0 |]. split.
  - intros HK0 x. rewrite (H1 HK0 x). apply pevalR_X.
  - intros k x Hk. specialize (H2 k x Hk). cbv beta in H2. rewrite !Q2R_Qn, Q2R_0 in H2. lra.
Qed.

(* T_{k+1} = 2x T_k - T_{k-1},  T_0 = 1, T_1 = x *)
Theorem chebyshev1st_recurrence : forall K, (K <= 10)%nat ->
  (forall x, pevalR (pcol Chebyshev1st K 0) x = 1) /\
  ((0 < K)%nat -> forall x, pevalR (pcol Chebyshev1st K 1) x = x) /\
  (forall k x, (1 <= k < K)%nat ->
     pevalR (pcol Chebyshev1st K (k + 1)) x = 2 * x * pevalR (pcol Chebyshev1st K k) x - pevalR (pcol Chebyshev1st K (k - 1)) x).
Proof.
  intros K HK. destruct (orth_K K HK) as [_ [H _]]. destruct (chk_rec_R _ _ _ _ _ _ _ H) as [H0 [H1 H2]].
  split; [exact H0 |]. split.
  - intros HK0 x. rewrite (H1 HK0 x). apply pevalR_X.
  - intros k x Hk. specialize (H2 k x Hk). cbv beta in H2. rewrite Q2R_1, Q2R_0 in H2.
    replace (Q2R 2) with 2 in H2 by (unfold Q2R; simpl; lra). lra.
Qed.

(* U_{k+1} = 2x U_k - U_{k-1},  U_0 = 1, U_1 = 2x *)
Theorem chebyshev2nd_recurrence : forall K, (K <= 10)%nat ->
  (forall x, pevalR (pcol Chebyshev2nd K 0) x = 1) /\
  ((0 < K)%nat -> forall x, pevalR (pcol Chebyshev2nd K 1) x = 2 * x) /\
  (forall k x, (1 <= k < K)%nat ->
     pevalR (pcol Chebyshev2nd K (k + 1)) x = 2 * x * pevalR (pcol Chebyshev2nd K k) x - pevalR (pcol Chebyshev2nd K (k - 1)) x).
Proof.
  intros K HK. destruct (orth_K K HK) as [_ [_ [H _]]]. destruct (chk_rec_R _ _ _ _ _ _ _ H) as [H0 [H1 H2]].
  assert (Q2 : Q2R 2 = 2) by (unfold Q2R; simpl; lra).
  split; [exact H0 |]. split.
  - intros HK0 x. rewrite (H1 HK0 x), pevalR_lin, Q2R_0, Q2. lra.
  - intros k x Hk. specialize (H2 k x Hk). cbv beta in H2. rewrite Q2R_1, Q2R_0, Q2 in H2. lra.
Qed.

(* H_{k+1} = 2x H_k - 2k H_{k-1},  H_0 = 1, H_1 = 2x   (physicists' Hermite polynomials) *)
Theorem hermite_recurrence : forall K, (K <= 10)%nat ->
  (forall x, pevalR (pcol Hermite K 0) x = 1) /\
  ((0 < K)%nat -> forall x, pevalR (pcol Hermite K 1) x = 2 * x) /\
  (forall k x, (1 <= k < K)%nat ->
     pevalR (pcol Hermite K (k + 1)) x = 2 * x * pevalR (pcol Hermite K k) x - INR (2 * k) * pevalR (pcol Hermite K (k - 1)) x).
Proof.
  intros K HK. destruct (orth_K K HK) as [_ [_ [_ [H _]]]]. destruct (chk_rec_R _ _ _ _ _ _ _ H) as [H0 [H1 H2]].
  assert (Q2 : Q2R 2 = 2) by (unfold Q2R; simpl; lra).
  split; [exact H0 |]. split.
  - intros HK0 x. rewrite (H1 HK0 x), pevalR_lin, Q2R_0, Q2. lra.
  - intros k x Hk. specialize (H2 k x Hk). cbv beta in H2. rewrite Q2R_1, Q2R_0, Q2, Q2R_Qn in H2. lra.
Qed.

(* (k+1) L_{k+1} = (2k+1-x) L_k - k L_{k-1},  L_0 = 1, L_1 = 1 - x *)
Theorem laguerre_recurrence : forall K, (K <= 10)%nat ->
  (forall x, pevalR (pcol Laguerre K 0) x = 1) /\
  ((0 < K)%nat -> forall x, pevalR (pcol Laguerre K 1) x = 1 - x) /\
  (forall k x, (1 <= k < K)%nat ->
     INR (k + 1) * pevalR (pcol Laguerre K (k + 1)) x =
     (INR (2 * k + 1) - x) * pevalR (pcol Laguerre K k) x - INR k * pevalR (pcol Laguerre K (k - 1)) x).
Proof.
  intros K HK. destruct (orth_K K HK) as [_ [_ [_ [_ [H _]]]]]. destruct (chk_rec_R _ _ _ _ _ _ _ H) as [H0 [H1 H2]].
  split; [exact H0 |]. split.
  - intros HK0 x. rewrite (H1 HK0 x). apply pevalR_1mX.
  - intros k x Hk. specialize (H2 k x Hk). cbv beta in H2. rewrite !Q2R_Qn, Q2R_m1 in H2. lra.
Qed.

(* normalisations and explicit formulas *)
Theorem orthogonal_normalisations : forall K k, (K <= 10)%nat -> (k <= K)%nat ->
  pevalR (pcol Legendre K k) 1 = 1 /\ pevalR (pcol Legendre K k) (-1) = Q2R (sgn k) /\
  pevalR (pcol Chebyshev1st K k) 1 = 1 /\ pevalR (pcol Chebyshev2nd K k) 1 = INR (k + 1) /\
  (nth k (pcol Hermite K k) 0%Q == inject_Z (2 ^ Z.of_nat k))%Q /\ pevalR (pcol Laguerre K k) 0 = 1 /\
  (forall x, pevalR (pcol Legendre K k) x = pevalR (legendre_def k) x) /\
  (forall x, pevalR (pcol Chebyshev1st K k) x = pevalR (cheb1_def k) x) /\
  (forall x, pevalR (pcol Chebyshev2nd K k) x = pevalR (cheb2_def k) x) /\
  (forall x, pevalR (pcol Hermite K k) x = pevalR (hermite_def k) x) /\
  (forall x, pevalR (pcol Laguerre K k) x = pevalR (laguerre_def k) x) /\
  (forall x, pevalR (pcol Monomial K k) x = pevalR (pmono k) x).
Proof.
  intros K k HK Hk. destruct (orth_K K HK) as [_ [_ [_ [_ [_ H]]]]]. unfold chk_norm_f in H. cbv zeta in H.
  pose proof (forj_spec _ _ H k Hk) as Hk'. cbv beta in Hk'.
  repeat (apply andb_prop in Hk'; let H' := fresh "N" in destruct Hk' as [Hk' H']).
  apply Qeq_bool_iff in Hk', N9, N8, N7, N6, N5.
  apply Qeq_eqR in Hk', N9, N8, N7, N5. rewrite peval_pevalR in Hk', N9, N8, N7, N5.
  rewrite ?Q2R_1, ?Q2R_0, ?Q2R_m1, ?Q2R_Qn in *.
  repeat split; try assumption; intro x; apply pevalR_peqb; assumption.
Qed.
