(* C20 / polynomial bases: identities of the Q model (Model/C20_PolyBasis.v) for K = 0..10.
   Pattern: a boolean check over the finite domain is evaluated by vm_compute, lifted to "forall K <= 10, ..." by
   forallb lemmas, and coefficient identities are turned into statements for ALL real evaluation points x by the
   evaluation morphism lemmas pevalR_* (an identity of coefficient lists is an identity of polynomials). *)
From Coq Require Import List QArith ZArith Qabs Bool Reals Qreals Lra Lia.
From SV Require Import Model.C20_PolyBasis.
Import ListNotations.

(* ------------------------------------------------------------------ evaluation over R *)
Local Open Scope R_scope.

Fixpoint pevalR (p : list Q) (x : R) : R :=
  match p with [] => 0 | a :: p' => Q2R a + x * pevalR p' x end.

Lemma Q2R_red : forall a, Q2R (Qred a) = Q2R a.
Proof. intro a. apply Qeq_eqR. apply Qred_correct. Qed.
Lemma Q2R_0 : Q2R 0 = 0. Proof. unfold Q2R. simpl. lra. Qed.
Lemma Q2R_1 : Q2R 1 = 1. Proof. unfold Q2R. simpl. lra. Qed.

Lemma pevalR_padd : forall p q x, pevalR (padd p q) x = pevalR p x + pevalR q x.
Proof.
  induction p as [| a p IH]; intros q x.
  - cbn [padd pevalR]. lra.
  - destruct q as [| b q]; cbn [padd pevalR]; [lra |]. rewrite Q2R_red, Q2R_plus, IH. lra.
Qed.

Lemma pevalR_pscale : forall c p x, pevalR (pscale c p) x = Q2R c * pevalR p x.
Proof.
  intros c p x. induction p as [| a p IH]; cbn [pscale map pevalR]; [lra |].
  fold (pscale c p). rewrite Q2R_red, Q2R_mult, IH. lra.
Qed.

Lemma pevalR_pmul : forall p q x, pevalR (pmul p q) x = pevalR p x * pevalR q x.
Proof.
  induction p as [| a p IH]; intros q x; cbn [pmul pevalR]; [lra |].
  rewrite pevalR_padd, pevalR_pscale. cbn [pevalR]. rewrite IH, Q2R_0. lra.
Qed.

Lemma pevalR_ppow : forall p n x, pevalR (ppow p n) x = pevalR p x ^ n.
Proof.
  intros p n x. induction n as [| n IH]; cbn [ppow pow].
  - cbn [pevalR]. rewrite Q2R_1. lra.
  - rewrite pevalR_pmul, IH. reflexivity.
Qed.

Lemma pevalR_psum : forall ps x, pevalR (psum ps) x = fold_right Rplus 0 (map (fun p => pevalR p x) ps).
Proof.
  intros ps x. induction ps as [| p ps IH]; cbn [psum fold_right map]; [reflexivity |].
  fold (psum ps). rewrite pevalR_padd, IH. reflexivity.
Qed.

Lemma pevalR_pzero : forall p x, pzero p = true -> pevalR p x = 0.
Proof.
  induction p as [| a p IH]; intros x H; cbn [pzero pevalR] in *; [reflexivity |].
  apply andb_prop in H. destruct H as [Ha Hp]. apply Qeq_bool_iff in Ha. apply Qeq_eqR in Ha.
  rewrite Ha, Q2R_0, (IH x Hp). lra.
Qed.

Lemma pevalR_peqb : forall p q x, peqb p q = true -> pevalR p x = pevalR q x.
Proof.
  induction p as [| a p IH]; intros q x H.
  - cbn [peqb] in H. cbn [pevalR]. symmetry. apply pevalR_pzero. exact H.
  - destruct q as [| b q]; cbn [peqb] in H.
    + rewrite (pevalR_pzero _ x H). reflexivity.
    + apply andb_prop in H. destruct H as [Hab Hpq]. apply Qeq_bool_iff in Hab. apply Qeq_eqR in Hab.
      cbn [pevalR]. rewrite Hab, (IH q x Hpq). reflexivity.
Qed.

Lemma pevalR_X : forall x, pevalR X x = x.
Proof. intro x. unfold X. cbn [pevalR]. rewrite Q2R_0, Q2R_1. lra. Qed.
Lemma pevalR_const : forall c x, pevalR (pconst c) x = Q2R c.
Proof. intros c x. unfold pconst. cbn [pevalR]. lra. Qed.
Lemma pevalR_lin : forall a b x, pevalR [a; b] x = Q2R a + Q2R b * x.
Proof. intros a b x. cbn [pevalR]. lra. Qed.
Lemma Q2R_m1 : Q2R (-(1)) = -1. Proof. unfold Q2R. simpl. lra. Qed.
Lemma pevalR_1mX : forall x, pevalR [1%Q; (-(1))%Q] x = 1 - x.
Proof. intro x. rewrite pevalR_lin, Q2R_1, Q2R_m1. lra. Qed.

(* ------------------------------------------------------------------ lifting finite checks *)
Lemma forallb_seq : forall (f : nat -> bool) n, forallb f (seq 0 n) = true -> forall k, (k < n)%nat -> f k = true.
Proof.
  intros f n H k Hk. rewrite forallb_forall in H. apply H. apply in_seq. lia.
Qed.

Definition forK (f : nat -> bool) : bool := forallb f (seq 0 11).
Lemma forK_spec : forall f, forK f = true -> forall K, (K <= 10)%nat -> f K = true.
Proof. intros f H K HK. apply (forallb_seq f 11 H). lia. Qed.
Definition forj (K : nat) (f : nat -> bool) : bool := forallb f (seq 0 (K + 1)).
Lemma forj_spec : forall K f, forj K f = true -> forall j, (j <= K)%nat -> f j = true.
Proof. intros K f H j Hj. apply (forallb_seq f (K + 1) H). lia. Qed.

Definition sumR (f : nat -> R) (n : nat) : R := fold_right Rplus 0 (map f (seq 0 n)).

(* ================================================================== Bernstein *)
Notation bern K j := (col (polynomial_basis Bernstein K) j).
Notation bspl K j := (col (polynomial_basis Bspline K) j).
Notation cum b K j := (col (polynomial_cumulative_basis b K) j).
Notation pcol b K k := (col (polynomial_basis b K) k).

Definition bern_def (K j : nat) : list Q := pscale (binom K j) (pmul (ppow X j) (ppow [1%Q; (-(1))%Q] (K - j))).

Definition chk_bernstein_f (K : nat) : bool :=
  let M := polynomial_basis Bernstein K in
  forj K (fun j => peqb (col M j) (bern_def K j) && Qle_bool 0 (binom K j))
  && peqb (psum (map (col M) (seq 0 (K + 1)))) [1%Q].
Lemma chk_bernstein_ok : forK chk_bernstein_f = true. Proof. vm_cast_no_check (eq_refl true). Qed.

(* b_{j,K}(x) = C(K,j) x^j (1-x)^(K-j) for every real x *)
Theorem bernstein_closed_form : forall K j x, (K <= 10)%nat -> (j <= K)%nat ->
  pevalR (bern K j) x = Q2R (binom K j) * (x ^ j * (1 - x) ^ (K - j)).
Proof.
  intros K j x HK Hj. pose proof (forK_spec chk_bernstein_f chk_bernstein_ok K HK) as H.
  unfold chk_bernstein_f in H. cbv zeta in H.
  apply andb_prop in H. destruct H as [H _]. pose proof (forj_spec _ _ H j Hj) as Hj'. cbv beta in Hj'.
  apply andb_prop in Hj'. destruct Hj' as [Hj' _].
  rewrite (pevalR_peqb _ _ x Hj'). unfold bern_def.
  rewrite pevalR_pscale, pevalR_pmul, !pevalR_ppow, pevalR_X, pevalR_1mX. reflexivity.
Qed.

Lemma binom_nonneg : forall K j, (K <= 10)%nat -> (j <= K)%nat -> 0 <= Q2R (binom K j).
Proof.
  intros K j HK Hj. pose proof (forK_spec chk_bernstein_f chk_bernstein_ok K HK) as H.
  unfold chk_bernstein_f in H. cbv zeta in H.
  apply andb_prop in H. destruct H as [H _]. pose proof (forj_spec _ _ H j Hj) as Hj'. cbv beta in Hj'.
  apply andb_prop in Hj'. destruct Hj' as [_ Hb]. apply Qle_bool_iff in Hb. apply Qle_Rle in Hb. rewrite Q2R_0 in Hb.
  exact Hb.
Qed.

Theorem bernstein_nonneg : forall K j x, (K <= 10)%nat -> (j <= K)%nat -> 0 <= x <= 1 -> 0 <= pevalR (bern K j) x.
Proof.
  intros K j x HK Hj Hx. rewrite bernstein_closed_form by assumption.
  apply Rmult_le_pos; [apply binom_nonneg; assumption |]. apply Rmult_le_pos; apply pow_le; lra.
Qed.

Theorem bernstein_partition_of_unity : forall K x, (K <= 10)%nat -> sumR (fun j => pevalR (bern K j) x) (K + 1) = 1.
Proof.
  intros K x HK. pose proof (forK_spec chk_bernstein_f chk_bernstein_ok K HK) as H.
  unfold chk_bernstein_f in H. cbv zeta in H.
  apply andb_prop in H. destruct H as [_ H]. apply (pevalR_peqb _ _ x) in H.
  rewrite pevalR_psum, map_map in H. unfold sumR. rewrite H. cbn [pevalR]. rewrite Q2R_1. lra.
Qed.

(* ================================================================== B-spline *)
(* piece of the cardinal B-spline N_K on [K-j, K-j+1], from the truncated-power formula
   N_K(y) = 1/K! sum_i (-1)^i C(K+1,i) (y-i)_+^K  with y = x + (K-j):  only i <= K-j contribute *)
Definition bspl_def (K j : nat) : list Q :=
  pscale (1 / inject_Z (fact K))
    (psum (map (fun i => pscale ((if Nat.even i then 1 else -(1)) * binom (K + 1) i)%Q
                                (ppow [Qn (K - j - i); 1%Q] K)) (seq 0 (K - j + 1)))).
(* Bernstein coefficients of a degree-K polynomial a:  c_i = sum_{k<=i} C(i,k)/C(K,k) a_k *)
Definition bern_coef (K : nat) (a : list Q) (i : nat) : Q :=
  Qred (qsum (map (fun k => binom i k / binom K k * nth k a 0)%Q (seq 0 (i + 1)))).
Definition bern_comb (MB : mat) (K : nat) (c : nat -> Q) : list Q := psum (map (fun i => pscale (c i) (col MB i)) (seq 0 (K + 1))).

Definition chk_bspline_f (K : nat) : bool :=
  let MB := polynomial_basis Bernstein K in
  let MS := polynomial_basis Bspline K in
  forj K (fun j => peqb (col MS j) (bspl_def K j)
                   && forj K (fun i => Qle_bool 0 (bern_coef K (col MS j) i))
                   && peqb (col MS j) (bern_comb MB K (bern_coef K (col MS j))))
  && peqb (psum (map (col MS) (seq 0 (K + 1)))) [1%Q].
Lemma chk_bspline_ok : forK chk_bspline_f = true. Proof. vm_cast_no_check (eq_refl true). Qed.

Lemma chk_bspline_j : forall K j, (K <= 10)%nat -> (j <= K)%nat ->
  peqb (bspl K j) (bspl_def K j) = true /\
  forj K (fun i => Qle_bool 0 (bern_coef K (bspl K j) i)) = true /\
  peqb (bspl K j) (bern_comb (polynomial_basis Bernstein K) K (bern_coef K (bspl K j))) = true.
Proof.
  intros K j HK Hj. pose proof (forK_spec chk_bspline_f chk_bspline_ok K HK) as H.
  unfold chk_bspline_f in H. cbv zeta in H.
  apply andb_prop in H. destruct H as [H _]. pose proof (forj_spec _ _ H j Hj) as Hj'. cbv beta in Hj'.
  apply andb_prop in Hj'. destruct Hj' as [Hj' H3]. apply andb_prop in Hj'. destruct Hj' as [H1 H2]. auto.
Qed.

(* column j is the piece of the cardinal B-spline (truncated-power formula), for every real x *)
Theorem bspline_closed_form : forall K j x, (K <= 10)%nat -> (j <= K)%nat ->
  pevalR (bspl K j) x =
  Q2R (1 / inject_Z (fact K)) *
  sumR (fun i => Q2R ((if Nat.even i then 1 else -(1)) * binom (K + 1) i) * (Q2R (Qn (K - j - i)) + x) ^ K) (K - j + 1).
Proof.
  intros K j x HK Hj. destruct (chk_bspline_j K j HK Hj) as [H1 _].
  rewrite (pevalR_peqb _ _ x H1). unfold bspl_def. rewrite pevalR_pscale, pevalR_psum, map_map. unfold sumR.
  f_equal. f_equal. apply map_ext. intro i. rewrite pevalR_pscale, pevalR_ppow, pevalR_lin, Q2R_1. f_equal. f_equal. lra.
Qed.

Lemma fold_right_Rplus_nonneg : forall l, (forall y, In y l -> 0 <= y) -> 0 <= fold_right Rplus 0 l.
Proof.
  induction l as [| a l IH]; intro H; cbn [fold_right]; [lra |].
  assert (0 <= a) by (apply H; left; reflexivity).
  assert (0 <= fold_right Rplus 0 l) by (apply IH; intros y Hy; apply H; right; exact Hy). lra.
Qed.

(* non-negative on [0,1]: all Bernstein coefficients of the piece are non-negative *)
Theorem bspline_nonneg : forall K j x, (K <= 10)%nat -> (j <= K)%nat -> 0 <= x <= 1 -> 0 <= pevalR (bspl K j) x.
Proof.
  intros K j x HK Hj Hx. destruct (chk_bspline_j K j HK Hj) as [_ [H2 H3]].
  rewrite (pevalR_peqb _ _ x H3). unfold bern_comb. rewrite pevalR_psum, map_map.
  apply fold_right_Rplus_nonneg. intros y Hy. apply in_map_iff in Hy. destruct Hy as [i [Ey Hi]]. subst y.
  apply in_seq in Hi. rewrite pevalR_pscale. apply Rmult_le_pos.
  - pose proof (forj_spec _ _ H2 i ltac:(lia)) as Hc. cbv beta in Hc. apply Qle_bool_iff in Hc.
    apply Qle_Rle in Hc. rewrite Q2R_0 in Hc. exact Hc.
  - apply bernstein_nonneg; [exact HK | lia | exact Hx].
Qed.

Theorem bspline_partition_of_unity : forall K x, (K <= 10)%nat -> sumR (fun j => pevalR (bspl K j) x) (K + 1) = 1.
Proof.
  intros K x HK. pose proof (forK_spec chk_bspline_f chk_bspline_ok K HK) as H.
  unfold chk_bspline_f in H. cbv zeta in H.
  apply andb_prop in H. destruct H as [_ H]. apply (pevalR_peqb _ _ x) in H.
  rewrite pevalR_psum, map_map in H. unfold sumR. rewrite H. cbn [pevalR]. rewrite Q2R_1. lra.
Qed.

(* ================================================================== cumulative bases *)
Definition chk_cumulative_f (K : nat) : bool :=
  let MB := polynomial_basis Bernstein K in
  let MS := polynomial_basis Bspline K in
  let CB := polynomial_cumulative_basis Bernstein K in
  let CS := polynomial_cumulative_basis Bspline K in
    (* definition: cumulative column j = sum of the columns nu >= j; column 0 is the constant 1 *)
    forj K (fun j => peqb (col CB j) (psum (map (col MB) (seq j (K + 1 - j))))
                     && peqb (col CS j) (psum (map (col MS) (seq j (K + 1 - j)))))
    && peqb (col CB 0) [1%Q] && peqb (col CS 0) [1%Q]
    (* Bernstein: cumulative functions j >= 1 run from 0 at u = 0 to 1 at u = 1; their sum is K u *)
    && forallb (fun j => Qeq_bool (peval (col CB j) 0) 0 && Qeq_bool (peval (col CB j) 1) 1) (seq 1 K)
    && peqb (psum (map (col CB) (seq 1 K))) [0%Q; Qn K].
Lemma chk_cumulative_ok : forK chk_cumulative_f = true. Proof. vm_cast_no_check (eq_refl true). Qed.

Lemma peval_pevalR : forall p q, Q2R (peval p q) = pevalR p (Q2R q).
Proof.
  induction p as [| a p IH]; intro q; cbn [peval pevalR]; [apply Q2R_0 |].
  rewrite Q2R_plus, Q2R_mult, IH. reflexivity.
Qed.

Lemma chk_cumulative_K : forall K, (K <= 10)%nat ->
  forj K (fun j => peqb (cum Bernstein K j) (psum (map (col (polynomial_basis Bernstein K)) (seq j (K + 1 - j))))
                   && peqb (cum Bspline K j) (psum (map (col (polynomial_basis Bspline K)) (seq j (K + 1 - j))))) = true /\
  peqb (cum Bernstein K 0) [1%Q] = true /\ peqb (cum Bspline K 0) [1%Q] = true /\
  forallb (fun j => Qeq_bool (peval (cum Bernstein K j) 0) 0 && Qeq_bool (peval (cum Bernstein K j) 1) 1) (seq 1 K) = true /\
  peqb (psum (map (col (polynomial_cumulative_basis Bernstein K)) (seq 1 K))) [0%Q; Qn K] = true.
Proof.
  intros K HK. pose proof (forK_spec chk_cumulative_f chk_cumulative_ok K HK) as H.
  unfold chk_cumulative_f in H. cbv zeta in H.
  repeat (apply andb_prop in H; let H' := fresh "H" in destruct H as [H H']). auto.
Qed.

Theorem cumulative_is_suffix_sum : forall K j x, (K <= 10)%nat -> (j <= K)%nat ->
  pevalR (cum Bernstein K j) x = fold_right Rplus 0 (map (fun nu => pevalR (bern K nu) x) (seq j (K + 1 - j))) /\
  pevalR (cum Bspline K j) x = fold_right Rplus 0 (map (fun nu => pevalR (bspl K nu) x) (seq j (K + 1 - j))).
Proof.
  intros K j x HK Hj. destruct (chk_cumulative_K K HK) as [H _].
  pose proof (forj_spec _ _ H j Hj) as Hj'. cbv beta in Hj'. apply andb_prop in Hj'. destruct Hj' as [H1 H2].
  rewrite (pevalR_peqb _ _ x H1), (pevalR_peqb _ _ x H2), !pevalR_psum, !map_map. split; reflexivity.
Qed.

Theorem cumulative_starts_with_one : forall K x, (K <= 10)%nat ->
  pevalR (cum Bernstein K 0) x = 1 /\ pevalR (cum Bspline K 0) x = 1.
Proof.
  intros K x HK. destruct (chk_cumulative_K K HK) as [_ [H1 [H2 _]]].
  rewrite (pevalR_peqb _ _ x H1), (pevalR_peqb _ _ x H2). cbn [pevalR]. rewrite Q2R_1. split; lra.
Qed.

Theorem cumulative_bernstein_endpoints : forall K j, (K <= 10)%nat -> (1 <= j <= K)%nat ->
  pevalR (cum Bernstein K j) 0 = 0 /\ pevalR (cum Bernstein K j) 1 = 1.
Proof.
  intros K j HK Hj. destruct (chk_cumulative_K K HK) as [_ [_ [_ [H _]]]].
  rewrite forallb_forall in H. specialize (H j ltac:(apply in_seq; lia)). cbv beta in H.
  apply andb_prop in H. destruct H as [H0 H1]. apply Qeq_bool_iff in H0, H1. apply Qeq_eqR in H0, H1.
  rewrite peval_pevalR in H0, H1. rewrite !Q2R_0 in H0. rewrite !Q2R_1 in H1. auto.
Qed.

Theorem cumulative_bernstein_sum : forall K x, (K <= 10)%nat ->
  fold_right Rplus 0 (map (fun j => pevalR (cum Bernstein K j) x) (seq 1 K)) = INR K * x.
Proof.
  intros K x HK. destruct (chk_cumulative_K K HK) as [_ [_ [_ [_ H]]]].
  apply (pevalR_peqb _ _ x) in H. rewrite pevalR_psum, map_map in H. rewrite H, pevalR_lin, Q2R_0.
  unfold Qn. unfold Q2R. cbn [Qnum Qden inject_Z]. rewrite <- INR_IZR_INZ. lra.
Qed.

(* ================================================================== three-term recurrences, normalisations *)
(* a_k p_{k+1} = (b0_k + b1_k X) p_k - c_k p_{k-1}  for 1 <= k < K,   p_0 = 1,  p_1 = given *)
Definition chk_rec (M : mat) (p1 : list Q) (a b0 b1 c : nat -> Q) (K : nat) : bool :=
  peqb (col M 0) [1%Q]
  && (if (0 <? K)%nat then peqb (col M 1) p1 else true)
  && forallb (fun k => peqb (pscale (a k) (col M (k + 1)))
                            (padd (pmul [b0 k; b1 k] (col M k)) (pscale (- c k)%Q (col M (k - 1))))) (seq 1 (K - 1)).

Lemma chk_rec_R : forall M p1 a b0 b1 c K, chk_rec M p1 a b0 b1 c K = true ->
  (forall x, pevalR (col M 0) x = 1) /\
  ((0 < K)%nat -> forall x, pevalR (col M 1) x = pevalR p1 x) /\
  (forall k x, (1 <= k < K)%nat ->
     Q2R (a k) * pevalR (col M (k + 1)) x =
     (Q2R (b0 k) + Q2R (b1 k) * x) * pevalR (col M k) x - Q2R (c k) * pevalR (col M (k - 1)) x).
Proof.
  intros M p1 a b0 b1 c K H. unfold chk_rec in H.
  apply andb_prop in H. destruct H as [H H3]. apply andb_prop in H. destruct H as [H1 H2]. repeat split.
  - intro x. rewrite (pevalR_peqb _ _ x H1). cbn [pevalR]. rewrite Q2R_1. lra.
  - intros HK x. destruct (Nat.ltb_spec 0 K) as [_ | C]; [| lia]. apply pevalR_peqb. exact H2.
  - intros k x Hk. rewrite forallb_forall in H3. specialize (H3 k ltac:(apply in_seq; lia)). cbv beta in H3.
    apply (pevalR_peqb _ _ x) in H3. rewrite pevalR_pscale, pevalR_padd, pevalR_pmul, pevalR_pscale, pevalR_lin, Q2R_opp in H3.
    lra.
Qed.

Definition legendre_rec K := chk_rec (polynomial_basis Legendre K) X (fun k => Qn (k + 1)) (fun _ => 0%Q) (fun k => Qn (2 * k + 1)) (fun k => Qn k) K.
Definition cheb1_rec K := chk_rec (polynomial_basis Chebyshev1st K) X (fun _ => 1%Q) (fun _ => 0%Q) (fun _ => 2%Q) (fun _ => 1%Q) K.
Definition cheb2_rec K := chk_rec (polynomial_basis Chebyshev2nd K) [0%Q; 2%Q] (fun _ => 1%Q) (fun _ => 0%Q) (fun _ => 2%Q) (fun _ => 1%Q) K.
Definition hermite_rec K := chk_rec (polynomial_basis Hermite K) [0%Q; 2%Q] (fun _ => 1%Q) (fun _ => 0%Q) (fun _ => 2%Q) (fun k => Qn (2 * k)) K.
Definition laguerre_rec K := chk_rec (polynomial_basis Laguerre K) [1%Q; (-(1))%Q] (fun k => Qn (k + 1)) (fun k => Qn (2 * k + 1)) (fun _ => (-(1))%Q) (fun k => Qn k) K.

(* the explicit (closed-form) coefficient formulas: definitions independent of the recurrences *)
Definition sgn (k : nat) : Q := if Nat.even k then 1%Q else (-(1))%Q.
Definition legendre_def (n : nat) : list Q :=
  psum (map (fun k => pscale (sgn k * binom n k * binom (2 * n - 2 * k) n / inject_Z (2 ^ Z.of_nat n))%Q
                             (pmono (n - 2 * k))) (seq 0 (n / 2 + 1))).
Definition cheb2_def (n : nat) : list Q :=
  psum (map (fun k => pscale (sgn k * binom (n - k) k * inject_Z (2 ^ Z.of_nat (n - 2 * k)))%Q
                             (pmono (n - 2 * k))) (seq 0 (n / 2 + 1))).
Definition cheb1_def (n : nat) : list Q :=
  match n with
  | O => [1%Q]
  | _ => psum (map (fun k => pscale ((Qn n / 2) * sgn k * inject_Z (fact (n - k - 1))
                                      / (inject_Z (fact k) * inject_Z (fact (n - 2 * k))) * inject_Z (2 ^ Z.of_nat (n - 2 * k)))%Q
                                    (pmono (n - 2 * k))) (seq 0 (n / 2 + 1)))
  end.
Definition hermite_def (n : nat) : list Q :=
  psum (map (fun m => pscale (inject_Z (fact n) * sgn m
                              / (inject_Z (fact m) * inject_Z (fact (n - 2 * m))) * inject_Z (2 ^ Z.of_nat (n - 2 * m)))%Q
                             (pmono (n - 2 * m))) (seq 0 (n / 2 + 1))).
Definition laguerre_def (n : nat) : list Q :=
  psum (map (fun k => pscale (binom n k * sgn k / inject_Z (fact k))%Q (pmono k)) (seq 0 (n + 1))).

(* normalisations: P_k(1) = 1, P_k(-1) = (-1)^k, T_k(1) = 1, U_k(1) = k+1, leading coefficient of H_k = 2^k, L_k(0) = 1 *)
Definition chk_norm_f (K : nat) : bool :=
  let ML := polynomial_basis Legendre K in let M1 := polynomial_basis Chebyshev1st K in
  let M2 := polynomial_basis Chebyshev2nd K in let MH := polynomial_basis Hermite K in
  let MG := polynomial_basis Laguerre K in let MM := polynomial_basis Monomial K in
  forj K (fun k => Qeq_bool (peval (col ML k) 1) 1
                   && Qeq_bool (peval (col ML k) (-(1))) (sgn k)
                   && Qeq_bool (peval (col M1 k) 1) 1
                   && Qeq_bool (peval (col M2 k) 1) (Qn (k + 1))
                   && Qeq_bool (nth k (col MH k) 0%Q) (inject_Z (2 ^ Z.of_nat k))
                   && Qeq_bool (peval (col MG k) 0) 1
                   && peqb (col ML k) (legendre_def k)
                   && peqb (col M1 k) (cheb1_def k)
                   && peqb (col M2 k) (cheb2_def k)
                   && peqb (col MH k) (hermite_def k)
                   && peqb (col MG k) (laguerre_def k)
                   && peqb (col MM k) (pmono k)).
Definition chk_orthogonal_f (K : nat) : bool :=
  legendre_rec K && cheb1_rec K && cheb2_rec K && hermite_rec K && laguerre_rec K && chk_norm_f K.
Lemma chk_orthogonal_ok : forK chk_orthogonal_f = true. Proof. vm_cast_no_check (eq_refl true). Qed.
