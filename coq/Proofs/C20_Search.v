(* C20 / binary_interval_search: theorems about Model/C20_Search.v for every list over Z, every query,
   every pivot function.  Discrete, axiom-free. *)
From Coq Require Import List ZArith Bool Lia Sorted.
From SV Require Import Model.C20_Search.
Import ListNotations.
Local Open Scope Z_scope.

Definition sorted (r : list Z) : Prop :=
  forall i j, (i <= j < length r)%nat -> nth i r 0 <= nth j r 0.

(* the standard library's notion implies ours *)
Lemma Sorted_sorted : forall r, Sorted Z.le r -> sorted r.
Proof.
  intros r HS. apply Sorted_StronglySorted in HS; [| intros x y z; apply Z.le_trans].
  induction HS as [| a l HSl IH Hall]; intros i j Hij; cbn [length] in Hij.
  - lia.
  - destruct i as [| i], j as [| j]; cbn [nth]; try lia.
    + rewrite Forall_forall in Hall. apply Hall. apply nth_In. lia.
    + apply IH. lia.
Qed.

(* loop invariant of utils.hpp:56-71: r[left] <= t < r[rght-1], left < rght <= size *)
Definition inv (r : list Z) (t : Z) (l g : nat) : Prop :=
  (l < g <= length r)%nat /\ nth l r 0 <= t < nth (g - 1) r 0.

Lemma inv_gap : forall r t l g, inv r t l g -> (l + 1 < g)%nat.
Proof.
  intros r t l g [Hlg Hv]. destruct (Nat.eq_dec g (l + 1)) as [E | NE]; [| lia].
  subst g. replace (l + 1 - 1)%nat with l in Hv by lia. lia.
Qed.

(* the interpolation denominator is non-zero (positive) and the numerator non-negative under the invariant *)
Lemma inv_denominator : forall r t l g, inv r t l g -> 0 < nth (g - 1) r 0 - nth l r 0 /\ 0 <= t - nth l r 0.
Proof. intros r t l g [_ Hv]. lia. Qed.

Lemma next_clamped_range : forall l n g, (l + 1 < g)%nat -> 0 <= n ->
  exists p, next_clamped l n (g - 2) = Some p /\ (l <= p <= g - 2)%nat.
Proof.
  intros l n g Hlg Hn. unfold next_clamped.
  destruct (Z.eqb_spec (Z.of_nat (g - 2) - Z.of_nat l) 0) as [E | NE].
  - exists l. split; [reflexivity | lia].
  - destruct (Z.geb_spec n (Z.of_nat (g - 2) - Z.of_nat l)) as [G | G].
    + exists (g - 2)%nat. split; [reflexivity | lia].
    + destruct (Z.ltb_spec n 0) as [L | L]; [lia |].
      exists (l + Z.to_nat n)%nat. split; [reflexivity | lia].
Qed.

(* without the clamp's lower side: a negative offset is undefined behaviour unless left = rght-2 *)
Lemma next_clamped_negative : forall l n g, (l + 2 < g)%nat -> n < 0 -> next_clamped l n (g - 2) = None.
Proof.
  intros l n g Hlg Hn. unfold next_clamped.
  destruct (Z.eqb_spec (Z.of_nat (g - 2) - Z.of_nat l) 0) as [E | NE]; [lia |].
  destruct (Z.geb_spec n (Z.of_nat (g - 2) - Z.of_nat l)) as [G | G]; [lia |].
  destruct (Z.ltb_spec n 0) as [L | L]; [reflexivity | lia].
Qed.

Section Proofs.
  Variable piv : nat -> nat -> nat -> Z.
  Variable r : list Z.
  Variable t : Z.
  (* the only thing assumed of the pivot function: non-negative on states satisfying the invariant *)
  Hypothesis Hpiv : forall k l g, inv r t l g -> 0 <= piv k l g.

  Definition found (p : nat) : Prop := (p + 1 < length r)%nat /\ nth p r 0 <= t < nth (p + 1) r 0.

  (* one iteration: either finishes with a correct answer, or continues in a strictly smaller state satisfying the
     invariant; the pivot is in [left, rght-2]; never UB *)
  Lemma step_spec : forall k l g, inv r t l g ->
    match step piv k r t l g with
    | Done (At p) _ => found p /\ (l <= p <= g - 2)%nat
    | Done _ _ => False
    | Cont l' g' p' _ => inv r t l' g' /\ (g' - l' < g - l)%nat /\ (l <= l')%nat /\ (g' <= g)%nat
                         /\ (l <= p' <= g - 2)%nat
    end.
  Proof.
    intros k l g Hinv. pose proof (inv_gap _ _ _ _ Hinv) as Hgap.
    destruct Hinv as [Hlg Hv]. unfold step.
    destruct (next_clamped_range l (piv k l g) g Hgap (Hpiv k l g (conj Hlg Hv))) as [p [Ep Hp]].
    rewrite Ep.
    destruct (Z.leb_spec (nth (p + 1) r 0) t) as [H1 | H1].
    - unfold inv. replace (p + 1 - 1)%nat with p by lia. repeat split; try lia.
    - destruct (Z.ltb_spec t (nth p r 0)) as [H2 | H2].
      + unfold inv. replace (p + 1 - 1)%nat with p by lia. repeat split; try lia.
      + unfold found. repeat split; try lia.
  Qed.

  (* termination with fuel to spare + correctness of the loop: fuel >= rght-left-1 suffices *)
  Lemma loop_spec : forall fuel k l g pv, inv r t l g -> (g - l <= fuel + 1)%nat ->
    exists p ps, loop piv fuel k r t l g pv = (At p, ps) /\ found p /\ (l <= p <= g - 2)%nat.
  Proof.
    induction fuel as [| f IH]; intros k l g pv Hinv Hf.
    - pose proof (inv_gap _ _ _ _ Hinv). lia.
    - pose proof (inv_gap _ _ _ _ Hinv) as Hgap. cbn [loop].
      destruct (Nat.ltb_spec (l + 1) g) as [_ | C]; [| lia].
      pose proof (step_spec k l g Hinv) as Hs.
      destruct (step piv k r t l g) as [x ps | l' g' p' ps].
      + destruct x as [| p | |]; try contradiction. exists p, ps. destruct Hs as [Hfd Hr]. auto.
      + destruct Hs as [Hinv' [Hlt [Hl [Hg Hp]]]].
        destruct (IH (S k) l' g' p' Hinv') as [p [ps' [E [Hfd Hr]]]]; [lia |].
        rewrite E. exists p, (ps ++ ps'). unfold addps. cbn [fst snd]. repeat split; try apply Hfd; lia.
  Qed.

  (* more fuel never changes the outcome *)
  Lemma loop_fuel_mono : forall fuel k l g pv x ps, loop piv fuel k r t l g pv = (x, ps) -> x <> Fuel ->
    forall fuel', (fuel <= fuel')%nat -> loop piv fuel' k r t l g pv = (x, ps).
  Proof.
    induction fuel as [| f IH]; intros k l g pv x ps E NF fuel' Hle.
    - cbn [loop] in E. inversion E. congruence.
    - destruct fuel' as [| f']; [lia |]. cbn [loop] in E |- *.
      destruct (l + 1 <? g)%nat; [| exact E].
      destruct (step piv k r t l g) as [x0 ps0 | l' g' p' ps0]; [exact E |].
      destruct (loop piv f (S k) r t l' g' p') as [x1 ps1] eqn:E1.
      unfold addps in E. cbn [fst snd] in E. inversion E; subst x1.
      rewrite (IH (S k) l' g' p' x ps1 E1 NF f'); [| lia]. reflexivity.
  Qed.
End Proofs.

(* ---------- the four documented cases (utils.hpp:33-36), for every pivot function ---------- *)

Theorem search_case1_empty : forall piv t, search piv [] t = (End, []).
Proof. reflexivity. Qed.

Theorem search_case2_below : forall piv r t, r <> [] -> t < nth 0 r 0 -> fst (search piv r t) = End.
Proof.
  intros piv r t Hne Hlt. destruct r as [| a r']; [congruence |]. unfold search.
  destruct (Z.ltb_spec t (nth 0 (a :: r') 0)) as [_ | C]; [reflexivity | lia].
Qed.

Theorem search_case3_above : forall piv r t, r <> [] -> sorted r -> nth (length r - 1) r 0 <= t ->
  fst (search piv r t) = At (length r - 1).
Proof.
  intros piv r t Hne Hs Hge. destruct r as [| a r']; [congruence |]. unfold search.
  remember (a :: r') as rr eqn:Err.
  assert (Hlen : (0 < length rr)%nat) by (subst rr; cbn [length]; lia).
  pose proof (Hs 0%nat (length rr - 1)%nat ltac:(lia)) as H0.
  destruct (Z.ltb_spec t (nth 0 rr 0)) as [C | _]; [lia |].
  destruct (Z.leb_spec (nth (length rr - 1) rr 0) t) as [_ | C]; [reflexivity | lia].
Qed.

Theorem search_case4_inside : forall piv r t,
  (forall k l g, inv r t l g -> 0 <= piv k l g) ->
  nth 0 r 0 <= t < nth (length r - 1) r 0 ->
  exists p, fst (search piv r t) = At p /\ (p + 1 < length r)%nat /\ nth p r 0 <= t < nth (p + 1) r 0.
Proof.
  intros piv r t Hpiv Hin. destruct r as [| a r'].
  - cbn in Hin. lia.
  - unfold search. remember (a :: r') as rr eqn:Err.
    assert (Hlen : (0 < length rr)%nat) by (subst rr; cbn [length]; lia).
    destruct (Z.ltb_spec t (nth 0 rr 0)) as [C | _]; [lia |].
    destruct (Z.leb_spec (nth (length rr - 1) rr 0) t) as [C | _]; [lia |].
    assert (Hinv : inv rr t 0 (length rr)) by (unfold inv; split; lia).
    destruct (loop_spec piv rr t Hpiv (length rr) 0 0 (length rr) 0 Hinv ltac:(lia)) as [p [ps [E [Hfd _]]]].
    rewrite E. exists p. unfold addps. cbn [fst]. split; [reflexivity | exact Hfd].
Qed.

(* the answer of case 4 is unique for a sorted range: the last index with r[i] <= t *)
Theorem interval_unique : forall r t i j, sorted r ->
  (i + 1 < length r)%nat -> nth i r 0 <= t < nth (i + 1) r 0 ->
  (j + 1 < length r)%nat -> nth j r 0 <= t < nth (j + 1) r 0 -> i = j.
Proof.
  intros r t i j Hs Hi Hvi Hj Hvj.
  destruct (Nat.lt_trichotomy i j) as [L | [E | G]]; [| exact E |].
  - pose proof (Hs (i + 1)%nat j ltac:(lia)). lia.
  - pose proof (Hs (j + 1)%nat i ltac:(lia)). lia.
Qed.

Theorem interval_is_last_le : forall r t i, sorted r ->
  (i + 1 < length r)%nat -> nth i r 0 <= t < nth (i + 1) r 0 ->
  forall j, (j < length r)%nat -> (nth j r 0 <= t <-> (j <= i)%nat).
Proof.
  intros r t i Hs Hi Hv j Hj. split; intro H.
  - destruct (Nat.le_gt_cases j i) as [L | G]; [exact L |].
    pose proof (Hs (i + 1)%nat j ltac:(lia)). lia.
  - pose proof (Hs j i ltac:(lia)). lia.
Qed.

(* total correctness: no UB, no fuel exhaustion, result determined by (r,t) alone - independent of the pivots *)
Theorem search_total : forall piv r t, sorted r ->
  (forall k l g, inv r t l g -> 0 <= piv k l g) ->
  match fst (search piv r t) with
  | End => r = [] \/ t < nth 0 r 0
  | At p => (p < length r)%nat /\ nth p r 0 <= t /\ (forall j, (p < j < length r)%nat -> t < nth j r 0)
  | UB | Fuel => False
  end.
Proof.
  intros piv r t Hs Hpiv. destruct r as [| a r'] eqn:Er; [cbn; auto |]. rewrite <- Er in *.
  assert (Hne : r <> []) by (subst r; discriminate).
  assert (Hlen : (0 < length r)%nat) by (subst r; cbn [length]; lia).
  destruct (Z.lt_ge_cases t (nth 0 r 0)) as [C2 | C2].
  - rewrite (search_case2_below piv r t Hne C2). auto.
  - destruct (Z.le_gt_cases (nth (length r - 1) r 0) t) as [C3 | C3].
    + rewrite (search_case3_above piv r t Hne Hs C3). repeat split; try lia.
    + destruct (search_case4_inside piv r t Hpiv ltac:(lia)) as [p [E [Hp Hv]]]. rewrite E.
      repeat split; try lia. intros j Hj. pose proof (Hs (p + 1)%nat j ltac:(lia)). lia.
Qed.

Corollary search_pivot_independent : forall piv1 piv2 r t, sorted r ->
  (forall k l g, inv r t l g -> 0 <= piv1 k l g) -> (forall k l g, inv r t l g -> 0 <= piv2 k l g) ->
  fst (search piv1 r t) = fst (search piv2 r t).
Proof.
  intros piv1 piv2 r t Hs H1 H2.
  pose proof (search_total piv1 r t Hs H1) as T1. pose proof (search_total piv2 r t Hs H2) as T2.
  destruct (fst (search piv1 r t)) as [| p | |], (fst (search piv2 r t)) as [| q | |]; try contradiction; try reflexivity.
  - destruct T2 as [Hq [Hvq _]]. destruct T1 as [T1 | T1]; [subst r; cbn in Hq; lia |].
    pose proof (Hs 0%nat q ltac:(lia)). lia.
  - destruct T1 as [Hp [Hvp _]]. destruct T2 as [T2 | T2]; [subst r; cbn in Hp; lia |].
    pose proof (Hs 0%nat p ltac:(lia)). lia.
  - destruct T1 as [Hp [Hvp Hup]], T2 as [Hq [Hvq Huq]]. f_equal.
    destruct (Nat.lt_trichotomy p q) as [L | [E | G]]; [| exact E |].
    + specialize (Hup q ltac:(lia)). lia.
    + specialize (Huq p ltac:(lia)). lia.
Qed.

(* ---------- the pivot functions that occur ---------- *)

(* exact interpolation (utils.hpp:57-62 in exact arithmetic): denominator non-zero, offset non-negative and
   below dist under the invariant *)
Lemma interp_piv_ok : forall r t k l g, inv r t l g ->
  0 <= interp_piv r t k l g < Z.of_nat (g - 1 - l).
Proof.
  intros r t k l g Hinv. pose proof (inv_gap _ _ _ _ Hinv) as Hgap.
  destruct (inv_denominator _ _ _ _ Hinv) as [Hd Hn]. destruct Hinv as [Hlg Hv].
  unfold interp_piv. destruct (Z.eqb_spec (nth (g - 1) r 0 - nth l r 0) 0) as [E | NE]; [lia |].
  set (a := nth l r 0) in *. set (b := nth (g - 1) r 0) in *. set (dist := Z.of_nat (g - 1 - l)).
  assert (Hdist : 0 < dist) by (unfold dist; lia).
  rewrite Z.quot_div_nonneg by nia. split.
  - apply Z.div_pos; nia.
  - apply Z.div_lt_upper_bound; nia.
Qed.

Lemma half_piv_ok : forall k l g, 0 <= half_piv k l g.
Proof. intros. unfold half_piv. apply Z.div_pos; lia. Qed.

Theorem search_interp_total : forall r t, sorted r ->
  match fst (search_interp r t) with
  | End => r = [] \/ t < nth 0 r 0
  | At p => (p < length r)%nat /\ nth p r 0 <= t /\ (forall j, (p < j < length r)%nat -> t < nth j r 0)
  | UB | Fuel => False
  end.
Proof.
  intros r t Hs. apply search_total; [exact Hs |]. intros k l g Hinv. apply (interp_piv_ok r t k l g Hinv).
Qed.

(* a pivot function that is negative in a reachable state does hit undefined behaviour: the lower side of the
   clamp really is needed from the invariant, std::ranges::next does not provide it *)
Example negative_pivot_is_UB : fst (search (fun _ _ _ => -1) [0; 1; 2; 3] 1) = UB.
Proof. reflexivity. Qed.

(* non-vacuity of the hypotheses, on a range with repeats *)
Example ex_sorted : sorted [0; 0; 1; 3; 3; 4].
Proof. apply Sorted_sorted. repeat first [apply Sorted_cons | apply Sorted_nil | apply HdRel_cons | apply HdRel_nil | lia]. Qed.
Example ex_case4 : search_interp [0; 0; 1; 3; 3; 4] 2 = (At 2, [0; 5; 3; 2]%nat).
Proof. reflexivity. Qed.
Example ex_case4_hyp : nth 0 [0; 0; 1; 3; 3; 4] 0 <= 2 < nth (length [0; 0; 1; 3; 3; 4] - 1) [0; 0; 1; 3; 3; 4] 0.
Proof. cbn. lia. Qed.
Example ex_inv : inv [0; 0; 1; 3; 3; 4] 2 0 6.
Proof. unfold inv. cbn. lia. Qed.
Example ex_case3 : fst (search_interp [0; 0; 1; 3; 3; 4] 4) = At 5.
Proof. reflexivity. Qed.
Example ex_case2 : fst (search_interp [0; 0; 1; 3; 3; 4] (-1)) = End.
Proof. reflexivity. Qed.
Example ex_repeats : fst (search_interp [0; 0; 1; 3; 3; 4] 3) = At 4 /\ fst (search half_piv [0; 0; 1; 3; 3; 4] 3) = At 4.
Proof. split; reflexivity. Qed.
