(* Property C01: the property theorems and nothing else.  Each is closed by the lemma of the same
   name proved in Proofs/C01_<unit>.v against the generated model; Print Assumptions lists the axioms. *)
From Coq Require Import Reals List Lra.
From SV Require Import Base.GenPrelude Base.Mat Doc.Groups.
From SV Require Gen.SO2.
From SV Require Gen.SO3.
From SV Require Gen.SE2.
From SV Require Gen.SE3.
From SV Require Gen.C1.
From SV Require Gen.Galilei.
From SV Require Gen.SEK3_1.
From SV Require Gen.SEK3_2.
From SV Require Gen.SEK3_3.
From SV Require Proofs.C01_SO2.
From SV Require Proofs.C01_SO3.
From SV Require Proofs.C01_SE2.
From SV Require Proofs.C01_SE3.
From SV Require Proofs.C01_C1.
From SV Require Proofs.C01_Galilei.
From SV Require Proofs.C01_SEK3_1.
From SV Require Proofs.C01_SEK3_2.
From SV Require Proofs.C01_SEK3_3.
Import ListNotations.
Local Open Scope R_scope.

Theorem C01_so2_matrix_doc :
  forall g0 g1 out,
  Gen.SO2.so2_matrix_rel [g0; g1] out -> out = so2_mat [g0; g1].
Proof. exact Proofs.C01_SO2.so2_matrix_doc. Qed.
Print Assumptions C01_so2_matrix_doc.

Theorem C01_so2_identity_doc :
  forall out, Gen.SO2.so2_identity_rel out -> so2_mat out = mI 2 /\ so2_valid out.
Proof. exact Proofs.C01_SO2.so2_identity_doc. Qed.
Print Assumptions C01_so2_identity_doc.

Theorem C01_so2_comp_hom :
  forall g0 g1 h0 h1 out,
  so2_valid [g0; g1] -> so2_valid [h0; h1] -> Gen.SO2.so2_comp_rel [g0; g1] [h0; h1] out ->
  so2_mat out = mmul (so2_mat [g0; g1]) (so2_mat [h0; h1]) /\ so2_valid out.
Proof. exact Proofs.C01_SO2.so2_comp_hom. Qed.
Print Assumptions C01_so2_comp_hom.

Theorem C01_so2_inv_doc :
  forall g0 g1 out,
  so2_valid [g0; g1] -> Gen.SO2.so2_inv_rel [g0; g1] out ->
  mmul (so2_mat out) (so2_mat [g0; g1]) = mI 2 /\ mmul (so2_mat [g0; g1]) (so2_mat out) = mI 2 /\ so2_valid out.
Proof. exact Proofs.C01_SO2.so2_inv_doc. Qed.
Print Assumptions C01_so2_inv_doc.

Theorem C01_so2_act_doc :
  forall g0 g1 v0 v1 out,
  Gen.SO2.so2_act_rel [g0; g1] [v0; v1] out ->
  out = mvec (so2_mat [g0; g1]) ([v0; v1]).
Proof. exact Proofs.C01_SO2.so2_act_doc. Qed.
Print Assumptions C01_so2_act_doc.

Theorem C01_so3_matrix_doc :
  forall g0 g1 g2 g3 out,
  Gen.SO3.so3_matrix_rel [g0; g1; g2; g3] out -> out = so3_mat [g0; g1; g2; g3].
Proof. exact Proofs.C01_SO3.so3_matrix_doc. Qed.
Print Assumptions C01_so3_matrix_doc.

Theorem C01_so3_identity_doc :
  forall out, Gen.SO3.so3_identity_rel out -> so3_mat out = mI 3 /\ so3_valid out.
Proof. exact Proofs.C01_SO3.so3_identity_doc. Qed.
Print Assumptions C01_so3_identity_doc.

Theorem C01_so3_comp_hom :
  forall g0 g1 g2 g3 h0 h1 h2 h3 out,
  so3_valid [g0; g1; g2; g3] -> so3_valid [h0; h1; h2; h3] -> Gen.SO3.so3_comp_rel [g0; g1; g2; g3] [h0; h1; h2; h3] out ->
  so3_mat out = mmul (so3_mat [g0; g1; g2; g3]) (so3_mat [h0; h1; h2; h3]) /\ so3_valid out.
Proof. exact Proofs.C01_SO3.so3_comp_hom. Qed.
Print Assumptions C01_so3_comp_hom.

Theorem C01_so3_inv_doc :
  forall g0 g1 g2 g3 out,
  so3_valid [g0; g1; g2; g3] -> Gen.SO3.so3_inv_rel [g0; g1; g2; g3] out ->
  mmul (so3_mat out) (so3_mat [g0; g1; g2; g3]) = mI 3 /\ mmul (so3_mat [g0; g1; g2; g3]) (so3_mat out) = mI 3 /\ so3_valid out.
Proof. exact Proofs.C01_SO3.so3_inv_doc. Qed.
Print Assumptions C01_so3_inv_doc.

Theorem C01_so3_act_doc :
  forall g0 g1 g2 g3 v0 v1 v2 out,
  Gen.SO3.so3_act_rel [g0; g1; g2; g3] [v0; v1; v2] out ->
  out = mvec (so3_mat [g0; g1; g2; g3]) ([v0; v1; v2]).
Proof. exact Proofs.C01_SO3.so3_act_doc. Qed.
Print Assumptions C01_so3_act_doc.

Theorem C01_se2_matrix_doc :
  forall g0 g1 g2 g3 out,
  Gen.SE2.se2_matrix_rel [g0; g1; g2; g3] out -> out = se2_mat [g0; g1; g2; g3].
Proof. exact Proofs.C01_SE2.se2_matrix_doc. Qed.
Print Assumptions C01_se2_matrix_doc.

Theorem C01_se2_identity_doc :
  forall out, Gen.SE2.se2_identity_rel out -> se2_mat out = mI 3 /\ se2_valid out.
Proof. exact Proofs.C01_SE2.se2_identity_doc. Qed.
Print Assumptions C01_se2_identity_doc.

Theorem C01_se2_comp_hom :
  forall g0 g1 g2 g3 h0 h1 h2 h3 out,
  se2_valid [g0; g1; g2; g3] -> se2_valid [h0; h1; h2; h3] -> Gen.SE2.se2_comp_rel [g0; g1; g2; g3] [h0; h1; h2; h3] out ->
  se2_mat out = mmul (se2_mat [g0; g1; g2; g3]) (se2_mat [h0; h1; h2; h3]) /\ se2_valid out.
Proof. exact Proofs.C01_SE2.se2_comp_hom. Qed.
Print Assumptions C01_se2_comp_hom.

Theorem C01_se2_inv_doc :
  forall g0 g1 g2 g3 out,
  se2_valid [g0; g1; g2; g3] -> Gen.SE2.se2_inv_rel [g0; g1; g2; g3] out ->
  mmul (se2_mat out) (se2_mat [g0; g1; g2; g3]) = mI 3 /\ mmul (se2_mat [g0; g1; g2; g3]) (se2_mat out) = mI 3 /\ se2_valid out.
Proof. exact Proofs.C01_SE2.se2_inv_doc. Qed.
Print Assumptions C01_se2_inv_doc.

Theorem C01_se2_act_doc :
  forall g0 g1 g2 g3 v0 v1 out,
  Gen.SE2.se2_act_rel [g0; g1; g2; g3] [v0; v1] out ->
  homog out = mvec (se2_mat [g0; g1; g2; g3]) (homog [v0; v1]).
Proof. exact Proofs.C01_SE2.se2_act_doc. Qed.
Print Assumptions C01_se2_act_doc.

Theorem C01_se3_matrix_doc :
  forall g0 g1 g2 g3 g4 g5 g6 out,
  Gen.SE3.se3_matrix_rel [g0; g1; g2; g3; g4; g5; g6] out -> out = se3_mat [g0; g1; g2; g3; g4; g5; g6].
Proof. exact Proofs.C01_SE3.se3_matrix_doc. Qed.
Print Assumptions C01_se3_matrix_doc.

Theorem C01_se3_identity_doc :
  forall out, Gen.SE3.se3_identity_rel out -> se3_mat out = mI 4 /\ se3_valid out.
Proof. exact Proofs.C01_SE3.se3_identity_doc. Qed.
Print Assumptions C01_se3_identity_doc.

Theorem C01_se3_comp_hom :
  forall g0 g1 g2 g3 g4 g5 g6 h0 h1 h2 h3 h4 h5 h6 out,
  se3_valid [g0; g1; g2; g3; g4; g5; g6] -> se3_valid [h0; h1; h2; h3; h4; h5; h6] -> Gen.SE3.se3_comp_rel [g0; g1; g2; g3; g4; g5; g6] [h0; h1; h2; h3; h4; h5; h6] out ->
  se3_mat out = mmul (se3_mat [g0; g1; g2; g3; g4; g5; g6]) (se3_mat [h0; h1; h2; h3; h4; h5; h6]) /\ se3_valid out.
Proof. exact Proofs.C01_SE3.se3_comp_hom. Qed.
Print Assumptions C01_se3_comp_hom.

Theorem C01_se3_inv_doc :
  forall g0 g1 g2 g3 g4 g5 g6 out,
  se3_valid [g0; g1; g2; g3; g4; g5; g6] -> Gen.SE3.se3_inv_rel [g0; g1; g2; g3; g4; g5; g6] out ->
  mmul (se3_mat out) (se3_mat [g0; g1; g2; g3; g4; g5; g6]) = mI 4 /\ mmul (se3_mat [g0; g1; g2; g3; g4; g5; g6]) (se3_mat out) = mI 4 /\ se3_valid out.
Proof. exact Proofs.C01_SE3.se3_inv_doc. Qed.
Print Assumptions C01_se3_inv_doc.

Theorem C01_se3_act_doc :
  forall g0 g1 g2 g3 g4 g5 g6 v0 v1 v2 out,
  Gen.SE3.se3_act_rel [g0; g1; g2; g3; g4; g5; g6] [v0; v1; v2] out ->
  homog out = mvec (se3_mat [g0; g1; g2; g3; g4; g5; g6]) (homog [v0; v1; v2]).
Proof. exact Proofs.C01_SE3.se3_act_doc. Qed.
Print Assumptions C01_se3_act_doc.

Theorem C01_c1_matrix_doc :
  forall g0 g1 out,
  Gen.C1.c1_matrix_rel [g0; g1] out -> out = c1_mat [g0; g1].
Proof. exact Proofs.C01_C1.c1_matrix_doc. Qed.
Print Assumptions C01_c1_matrix_doc.

Theorem C01_c1_identity_doc :
  forall out, Gen.C1.c1_identity_rel out -> c1_mat out = mI 2 /\ c1_valid out.
Proof. exact Proofs.C01_C1.c1_identity_doc. Qed.
Print Assumptions C01_c1_identity_doc.

Theorem C01_c1_comp_hom :
  forall g0 g1 h0 h1 out,
  c1_valid [g0; g1] -> c1_valid [h0; h1] -> Gen.C1.c1_comp_rel [g0; g1] [h0; h1] out ->
  c1_mat out = mmul (c1_mat [g0; g1]) (c1_mat [h0; h1]) /\ c1_valid out.
Proof. exact Proofs.C01_C1.c1_comp_hom. Qed.
Print Assumptions C01_c1_comp_hom.

Theorem C01_c1_inv_doc :
  forall g0 g1 out,
  c1_valid [g0; g1] -> Gen.C1.c1_inv_rel [g0; g1] out ->
  mmul (c1_mat out) (c1_mat [g0; g1]) = mI 2 /\ mmul (c1_mat [g0; g1]) (c1_mat out) = mI 2 /\ c1_valid out.
Proof. exact Proofs.C01_C1.c1_inv_doc. Qed.
Print Assumptions C01_c1_inv_doc.

Theorem C01_c1_act_doc :
  forall g0 g1 v0 v1 out,
  Gen.C1.c1_act_rel [g0; g1] [v0; v1] out ->
  out = mvec (c1_mat [g0; g1]) ([v0; v1]).
Proof. exact Proofs.C01_C1.c1_act_doc. Qed.
Print Assumptions C01_c1_act_doc.

Theorem C01_gal_matrix_doc :
  forall g0 g1 g2 g3 g4 g5 g6 g7 g8 g9 g10 out,
  Gen.Galilei.gal_matrix_rel [g0; g1; g2; g3; g4; g5; g6; g7; g8; g9; g10] out -> out = gal_mat [g0; g1; g2; g3; g4; g5; g6; g7; g8; g9; g10].
Proof. exact Proofs.C01_Galilei.gal_matrix_doc. Qed.
Print Assumptions C01_gal_matrix_doc.

Theorem C01_gal_identity_doc :
  forall out, Gen.Galilei.gal_identity_rel out -> gal_mat out = mI 5 /\ gal_valid out.
Proof. exact Proofs.C01_Galilei.gal_identity_doc. Qed.
Print Assumptions C01_gal_identity_doc.

Theorem C01_gal_comp_hom :
  forall g0 g1 g2 g3 g4 g5 g6 g7 g8 g9 g10 h0 h1 h2 h3 h4 h5 h6 h7 h8 h9 h10 out,
  gal_valid [g0; g1; g2; g3; g4; g5; g6; g7; g8; g9; g10] -> gal_valid [h0; h1; h2; h3; h4; h5; h6; h7; h8; h9; h10] -> Gen.Galilei.gal_comp_rel [g0; g1; g2; g3; g4; g5; g6; g7; g8; g9; g10] [h0; h1; h2; h3; h4; h5; h6; h7; h8; h9; h10] out ->
  gal_mat out = mmul (gal_mat [g0; g1; g2; g3; g4; g5; g6; g7; g8; g9; g10]) (gal_mat [h0; h1; h2; h3; h4; h5; h6; h7; h8; h9; h10]) /\ gal_valid out.
Proof. exact Proofs.C01_Galilei.gal_comp_hom. Qed.
Print Assumptions C01_gal_comp_hom.

Theorem C01_gal_inv_doc :
  forall g0 g1 g2 g3 g4 g5 g6 g7 g8 g9 g10 out,
  gal_valid [g0; g1; g2; g3; g4; g5; g6; g7; g8; g9; g10] -> Gen.Galilei.gal_inv_rel [g0; g1; g2; g3; g4; g5; g6; g7; g8; g9; g10] out ->
  mmul (gal_mat out) (gal_mat [g0; g1; g2; g3; g4; g5; g6; g7; g8; g9; g10]) = mI 5 /\ mmul (gal_mat [g0; g1; g2; g3; g4; g5; g6; g7; g8; g9; g10]) (gal_mat out) = mI 5 /\ gal_valid out.
Proof. exact Proofs.C01_Galilei.gal_inv_doc. Qed.
Print Assumptions C01_gal_inv_doc.

Theorem C01_gal_act_doc :
  forall g0 g1 g2 g3 g4 g5 g6 g7 g8 g9 g10 v0 v1 v2 v3 out,
  Gen.Galilei.gal_act_rel [g0; g1; g2; g3; g4; g5; g6; g7; g8; g9; g10] [v0; v1; v2; v3] out ->
  homog out = mvec (gal_mat [g0; g1; g2; g3; g4; g5; g6; g7; g8; g9; g10]) (homog [v0; v1; v2; v3]).
Proof. exact Proofs.C01_Galilei.gal_act_doc. Qed.
Print Assumptions C01_gal_act_doc.

Theorem C01_sek1_matrix_doc :
  forall g0 g1 g2 g3 g4 g5 g6 out,
  Gen.SEK3_1.sek1_matrix_rel [g0; g1; g2; g3; g4; g5; g6] out -> out = sek_mat 1 [g0; g1; g2; g3; g4; g5; g6].
Proof. exact Proofs.C01_SEK3_1.sek1_matrix_doc. Qed.
Print Assumptions C01_sek1_matrix_doc.

Theorem C01_sek1_identity_doc :
  forall out, Gen.SEK3_1.sek1_identity_rel out -> sek_mat 1 out = mI 4 /\ sek_valid 1 out.
Proof. exact Proofs.C01_SEK3_1.sek1_identity_doc. Qed.
Print Assumptions C01_sek1_identity_doc.

Theorem C01_sek1_comp_hom :
  forall g0 g1 g2 g3 g4 g5 g6 h0 h1 h2 h3 h4 h5 h6 out,
  sek_valid 1 [g0; g1; g2; g3; g4; g5; g6] -> sek_valid 1 [h0; h1; h2; h3; h4; h5; h6] -> Gen.SEK3_1.sek1_comp_rel [g0; g1; g2; g3; g4; g5; g6] [h0; h1; h2; h3; h4; h5; h6] out ->
  sek_mat 1 out = mmul (sek_mat 1 [g0; g1; g2; g3; g4; g5; g6]) (sek_mat 1 [h0; h1; h2; h3; h4; h5; h6]) /\ sek_valid 1 out.
Proof. exact Proofs.C01_SEK3_1.sek1_comp_hom. Qed.
Print Assumptions C01_sek1_comp_hom.

Theorem C01_sek1_inv_doc :
  forall g0 g1 g2 g3 g4 g5 g6 out,
  sek_valid 1 [g0; g1; g2; g3; g4; g5; g6] -> Gen.SEK3_1.sek1_inv_rel [g0; g1; g2; g3; g4; g5; g6] out ->
  mmul (sek_mat 1 out) (sek_mat 1 [g0; g1; g2; g3; g4; g5; g6]) = mI 4 /\ mmul (sek_mat 1 [g0; g1; g2; g3; g4; g5; g6]) (sek_mat 1 out) = mI 4 /\ sek_valid 1 out.
Proof. exact Proofs.C01_SEK3_1.sek1_inv_doc. Qed.
Print Assumptions C01_sek1_inv_doc.

Theorem C01_sek2_matrix_doc :
  forall g0 g1 g2 g3 g4 g5 g6 g7 g8 g9 out,
  Gen.SEK3_2.sek2_matrix_rel [g0; g1; g2; g3; g4; g5; g6; g7; g8; g9] out -> out = sek_mat 2 [g0; g1; g2; g3; g4; g5; g6; g7; g8; g9].
Proof. exact Proofs.C01_SEK3_2.sek2_matrix_doc. Qed.
Print Assumptions C01_sek2_matrix_doc.

Theorem C01_sek2_identity_doc :
  forall out, Gen.SEK3_2.sek2_identity_rel out -> sek_mat 2 out = mI 5 /\ sek_valid 2 out.
Proof. exact Proofs.C01_SEK3_2.sek2_identity_doc. Qed.
Print Assumptions C01_sek2_identity_doc.

Theorem C01_sek2_comp_hom :
  forall g0 g1 g2 g3 g4 g5 g6 g7 g8 g9 h0 h1 h2 h3 h4 h5 h6 h7 h8 h9 out,
  sek_valid 2 [g0; g1; g2; g3; g4; g5; g6; g7; g8; g9] -> sek_valid 2 [h0; h1; h2; h3; h4; h5; h6; h7; h8; h9] -> Gen.SEK3_2.sek2_comp_rel [g0; g1; g2; g3; g4; g5; g6; g7; g8; g9] [h0; h1; h2; h3; h4; h5; h6; h7; h8; h9] out ->
  sek_mat 2 out = mmul (sek_mat 2 [g0; g1; g2; g3; g4; g5; g6; g7; g8; g9]) (sek_mat 2 [h0; h1; h2; h3; h4; h5; h6; h7; h8; h9]) /\ sek_valid 2 out.
Proof. exact Proofs.C01_SEK3_2.sek2_comp_hom. Qed.
Print Assumptions C01_sek2_comp_hom.

Theorem C01_sek2_inv_doc :
  forall g0 g1 g2 g3 g4 g5 g6 g7 g8 g9 out,
  sek_valid 2 [g0; g1; g2; g3; g4; g5; g6; g7; g8; g9] -> Gen.SEK3_2.sek2_inv_rel [g0; g1; g2; g3; g4; g5; g6; g7; g8; g9] out ->
  mmul (sek_mat 2 out) (sek_mat 2 [g0; g1; g2; g3; g4; g5; g6; g7; g8; g9]) = mI 5 /\ mmul (sek_mat 2 [g0; g1; g2; g3; g4; g5; g6; g7; g8; g9]) (sek_mat 2 out) = mI 5 /\ sek_valid 2 out.
Proof. exact Proofs.C01_SEK3_2.sek2_inv_doc. Qed.
Print Assumptions C01_sek2_inv_doc.

Theorem C01_sek3_matrix_doc :
  forall g0 g1 g2 g3 g4 g5 g6 g7 g8 g9 g10 g11 g12 out,
  Gen.SEK3_3.sek3_matrix_rel [g0; g1; g2; g3; g4; g5; g6; g7; g8; g9; g10; g11; g12] out -> out = sek_mat 3 [g0; g1; g2; g3; g4; g5; g6; g7; g8; g9; g10; g11; g12].
Proof. exact Proofs.C01_SEK3_3.sek3_matrix_doc. Qed.
Print Assumptions C01_sek3_matrix_doc.

Theorem C01_sek3_identity_doc :
  forall out, Gen.SEK3_3.sek3_identity_rel out -> sek_mat 3 out = mI 6 /\ sek_valid 3 out.
Proof. exact Proofs.C01_SEK3_3.sek3_identity_doc. Qed.
Print Assumptions C01_sek3_identity_doc.

Theorem C01_sek3_comp_hom :
  forall g0 g1 g2 g3 g4 g5 g6 g7 g8 g9 g10 g11 g12 h0 h1 h2 h3 h4 h5 h6 h7 h8 h9 h10 h11 h12 out,
  sek_valid 3 [g0; g1; g2; g3; g4; g5; g6; g7; g8; g9; g10; g11; g12] -> sek_valid 3 [h0; h1; h2; h3; h4; h5; h6; h7; h8; h9; h10; h11; h12] -> Gen.SEK3_3.sek3_comp_rel [g0; g1; g2; g3; g4; g5; g6; g7; g8; g9; g10; g11; g12] [h0; h1; h2; h3; h4; h5; h6; h7; h8; h9; h10; h11; h12] out ->
  sek_mat 3 out = mmul (sek_mat 3 [g0; g1; g2; g3; g4; g5; g6; g7; g8; g9; g10; g11; g12]) (sek_mat 3 [h0; h1; h2; h3; h4; h5; h6; h7; h8; h9; h10; h11; h12]) /\ sek_valid 3 out.
Proof. exact Proofs.C01_SEK3_3.sek3_comp_hom. Qed.
Print Assumptions C01_sek3_comp_hom.

Theorem C01_sek3_inv_doc :
  forall g0 g1 g2 g3 g4 g5 g6 g7 g8 g9 g10 g11 g12 out,
  sek_valid 3 [g0; g1; g2; g3; g4; g5; g6; g7; g8; g9; g10; g11; g12] -> Gen.SEK3_3.sek3_inv_rel [g0; g1; g2; g3; g4; g5; g6; g7; g8; g9; g10; g11; g12] out ->
  mmul (sek_mat 3 out) (sek_mat 3 [g0; g1; g2; g3; g4; g5; g6; g7; g8; g9; g10; g11; g12]) = mI 6 /\ mmul (sek_mat 3 [g0; g1; g2; g3; g4; g5; g6; g7; g8; g9; g10; g11; g12]) (sek_mat 3 out) = mI 6 /\ sek_valid 3 out.
Proof. exact Proofs.C01_SEK3_3.sek3_inv_doc. Qed.
Print Assumptions C01_sek3_inv_doc.

