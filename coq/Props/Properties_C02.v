(* Property C02: the property theorems and nothing else .  Each is closed by the lemma of the same
   name proved in Proofs/C02_<unit>.v against the generated model; Print Assumptions lists the axioms. *)
From Coq Require Import Reals List Lra.
From SV Require Gen.SO2.
From SV Require Gen.SO3.
From SV Require Gen.SE2.
From SV Require Gen.SE3.
From SV Require Gen.C1.
From SV Require Gen.Galilei.
From SV Require Gen.SEK3_1.
From SV Require Gen.SEK3_2.
From SV Require Gen.SEK3_3.
From Coquelicot Require Import Coquelicot.
From SV Require Import Base.Trig Doc.Exp.
From SV Require Import Base.GenPrelude Base.Mat Doc.Groups.
From SV Require Proofs.C02_SO2.
From SV Require Proofs.C02_SO3.
From SV Require Proofs.C02_SE2.
From SV Require Proofs.C02_SE3.
From SV Require Proofs.C02_C1.
From SV Require Proofs.C02_Galilei.
From SV Require Proofs.C02_SEK3_1.
From SV Require Proofs.C02_SEK3_2.
Import ListNotations.
Local Open Scope R_scope.

Theorem C02_so2_exp_flow :
  forall a0 out, Gen.SO2.so2_exp_rel [a0] out -> so2_mat out = so2_flow [a0] 1 /\ so2_valid out.
Proof. exact Proofs.C02_SO2.so2_exp_flow. Qed.
Print Assumptions C02_so2_exp_flow.

Theorem C02_so2_exp_is_mexp :
  forall a0 out, Gen.SO2.so2_exp_rel [a0] out -> is_mexp 2 (so2_hat [a0]) (so2_mat out).
Proof. exact Proofs.C02_SO2.so2_exp_is_mexp. Qed.
Print Assumptions C02_so2_exp_is_mexp.

Theorem C02_so3_exp_flow :
  forall a0 a1 a2 out, Gen.SO3.so3_exp_rel [a0; a1; a2] out -> eps2 < a0*a0 + a1*a1 + a2*a2 ->
  so3_mat out = so3_flow [a0; a1; a2] 1 /\ so3_valid out.
Proof. exact Proofs.C02_SO3.so3_exp_flow. Qed.
Print Assumptions C02_so3_exp_flow.

Theorem C02_so3_exp_is_mexp :
  forall a0 a1 a2 out, Gen.SO3.so3_exp_rel [a0; a1; a2] out -> eps2 < a0*a0 + a1*a1 + a2*a2 ->
  is_mexp 3 (so3_hat [a0; a1; a2]) (so3_mat out).
Proof. exact Proofs.C02_SO3.so3_exp_is_mexp. Qed.
Print Assumptions C02_so3_exp_is_mexp.

Theorem C02_so3_exp_zero_rot :
  forall  out, Gen.SO3.so3_exp_rel [0; 0; 0] out ->
  so3_mat out = so3_flow0 [0; 0; 0] 1 /\ so3_valid out /\ is_mexp 3 (so3_hat [0; 0; 0]) (so3_mat out).
Proof. exact Proofs.C02_SO3.so3_exp_zero_rot. Qed.
Print Assumptions C02_so3_exp_zero_rot.

Theorem C02_se2_exp_flow :
  forall a0 a1 a2 out, Gen.SE2.se2_exp_rel [a0; a1; a2] out -> eps2 < a2*a2 ->
  se2_mat out = se2_flow [a0; a1; a2] 1 /\ se2_valid out.
Proof. exact Proofs.C02_SE2.se2_exp_flow. Qed.
Print Assumptions C02_se2_exp_flow.

Theorem C02_se2_exp_is_mexp :
  forall a0 a1 a2 out, Gen.SE2.se2_exp_rel [a0; a1; a2] out -> eps2 < a2*a2 ->
  is_mexp 3 (se2_hat [a0; a1; a2]) (se2_mat out).
Proof. exact Proofs.C02_SE2.se2_exp_is_mexp. Qed.
Print Assumptions C02_se2_exp_is_mexp.

Theorem C02_se2_exp_zero_rot :
  forall a0 a1 out, Gen.SE2.se2_exp_rel [a0; a1; 0] out ->
  se2_mat out = se2_flow0 [a0; a1; 0] 1 /\ is_mexp 3 (se2_hat [a0; a1; 0]) (se2_mat out).
Proof. exact Proofs.C02_SE2.se2_exp_zero_rot. Qed.
Print Assumptions C02_se2_exp_zero_rot.

Theorem C02_se3_exp_flow :
  forall a0 a1 a2 a3 a4 a5 out, Gen.SE3.se3_exp_rel [a0; a1; a2; a3; a4; a5] out -> eps2 < a3*a3 + a4*a4 + a5*a5 ->
  se3_mat out = se3_flow [a0; a1; a2; a3; a4; a5] 1 /\ se3_valid out.
Proof. exact Proofs.C02_SE3.se3_exp_flow. Qed.
Print Assumptions C02_se3_exp_flow.

Theorem C02_se3_exp_is_mexp :
  forall a0 a1 a2 a3 a4 a5 out, Gen.SE3.se3_exp_rel [a0; a1; a2; a3; a4; a5] out -> eps2 < a3*a3 + a4*a4 + a5*a5 ->
  is_mexp 4 (se3_hat [a0; a1; a2; a3; a4; a5]) (se3_mat out).
Proof. exact Proofs.C02_SE3.se3_exp_is_mexp. Qed.
Print Assumptions C02_se3_exp_is_mexp.

Theorem C02_se3_exp_zero_rot :
  forall a0 a1 a2 out, Gen.SE3.se3_exp_rel [a0; a1; a2; 0; 0; 0] out ->
  se3_mat out = se3_flow0 [a0; a1; a2; 0; 0; 0] 1 /\ se3_valid out /\ is_mexp 4 (se3_hat [a0; a1; a2; 0; 0; 0]) (se3_mat out).
Proof. exact Proofs.C02_SE3.se3_exp_zero_rot. Qed.
Print Assumptions C02_se3_exp_zero_rot.

Theorem C02_c1_exp_flow :
  forall a0 a1 out, Gen.C1.c1_exp_rel [a0; a1] out -> c1_mat out = c1_flow [a0; a1] 1 /\ c1_valid out.
Proof. exact Proofs.C02_C1.c1_exp_flow. Qed.
Print Assumptions C02_c1_exp_flow.

Theorem C02_c1_exp_is_mexp :
  forall a0 a1 out, Gen.C1.c1_exp_rel [a0; a1] out -> is_mexp 2 (c1_hat [a0; a1]) (c1_mat out).
Proof. exact Proofs.C02_C1.c1_exp_is_mexp. Qed.
Print Assumptions C02_c1_exp_is_mexp.

Theorem C02_gal_exp_flow :
  forall a0 a1 a2 a3 a4 a5 a6 a7 a8 a9 out, Gen.Galilei.gal_exp_rel [a0; a1; a2; a3; a4; a5; a6; a7; a8; a9] out -> eps2 < a7*a7 + a8*a8 + a9*a9 ->
  gal_mat out = gal_flow [a0; a1; a2; a3; a4; a5; a6; a7; a8; a9] 1 /\ gal_valid out.
Proof. exact Proofs.C02_Galilei.gal_exp_flow. Qed.
Print Assumptions C02_gal_exp_flow.

Theorem C02_gal_exp_is_mexp :
  forall a0 a1 a2 a3 a4 a5 a6 a7 a8 a9 out, Gen.Galilei.gal_exp_rel [a0; a1; a2; a3; a4; a5; a6; a7; a8; a9] out -> eps2 < a7*a7 + a8*a8 + a9*a9 ->
  is_mexp 5 (gal_hat [a0; a1; a2; a3; a4; a5; a6; a7; a8; a9]) (gal_mat out).
Proof. exact Proofs.C02_Galilei.gal_exp_is_mexp. Qed.
Print Assumptions C02_gal_exp_is_mexp.

Theorem C02_gal_exp_zero_rot :
  forall a0 a1 a2 a3 a4 a5 a6 out, Gen.Galilei.gal_exp_rel [a0; a1; a2; a3; a4; a5; a6; 0; 0; 0] out ->
  gal_mat out = gal_flow0 [a0; a1; a2; a3; a4; a5; a6; 0; 0; 0] 1 /\ gal_valid out /\ is_mexp 5 (gal_hat [a0; a1; a2; a3; a4; a5; a6; 0; 0; 0]) (gal_mat out).
Proof. exact Proofs.C02_Galilei.gal_exp_zero_rot. Qed.
Print Assumptions C02_gal_exp_zero_rot.

Theorem C02_sek1_exp_flow :
  forall a0 a1 a2 a3 a4 a5 out, Gen.SEK3_1.sek1_exp_rel [a0; a1; a2; a3; a4; a5] out -> eps2 < a3*a3 + a4*a4 + a5*a5 ->
  sek_mat 1 out = se3_flow [a0; a1; a2; a3; a4; a5] 1 /\ sek_valid 1 out.
Proof. exact Proofs.C02_SEK3_1.sek1_exp_flow. Qed.
Print Assumptions C02_sek1_exp_flow.

Theorem C02_sek1_exp_is_mexp :
  forall a0 a1 a2 a3 a4 a5 out, Gen.SEK3_1.sek1_exp_rel [a0; a1; a2; a3; a4; a5] out -> eps2 < a3*a3 + a4*a4 + a5*a5 ->
  is_mexp 4 (sek_hat 1 [a0; a1; a2; a3; a4; a5]) (sek_mat 1 out).
Proof. exact Proofs.C02_SEK3_1.sek1_exp_is_mexp. Qed.
Print Assumptions C02_sek1_exp_is_mexp.

Theorem C02_sek1_exp_zero_rot :
  forall a0 a1 a2 out, Gen.SEK3_1.sek1_exp_rel [a0; a1; a2; 0; 0; 0] out ->
  sek_mat 1 out = se3_flow0 [a0; a1; a2; 0; 0; 0] 1 /\ sek_valid 1 out /\ is_mexp 4 (sek_hat 1 [a0; a1; a2; 0; 0; 0]) (sek_mat 1 out).
Proof. exact Proofs.C02_SEK3_1.sek1_exp_zero_rot. Qed.
Print Assumptions C02_sek1_exp_zero_rot.

Theorem C02_sek2_exp_flow :
  forall a0 a1 a2 a3 a4 a5 a6 a7 a8 out, Gen.SEK3_2.sek2_exp_rel [a0; a1; a2; a3; a4; a5; a6; a7; a8] out -> eps2 < a6*a6 + a7*a7 + a8*a8 ->
  sek_mat 2 out = sek2_flow [a0; a1; a2; a3; a4; a5; a6; a7; a8] 1 /\ sek_valid 2 out.
Proof. exact Proofs.C02_SEK3_2.sek2_exp_flow. Qed.
Print Assumptions C02_sek2_exp_flow.

Theorem C02_sek2_exp_is_mexp :
  forall a0 a1 a2 a3 a4 a5 a6 a7 a8 out, Gen.SEK3_2.sek2_exp_rel [a0; a1; a2; a3; a4; a5; a6; a7; a8] out -> eps2 < a6*a6 + a7*a7 + a8*a8 ->
  is_mexp 5 (sek_hat 2 [a0; a1; a2; a3; a4; a5; a6; a7; a8]) (sek_mat 2 out).
Proof. exact Proofs.C02_SEK3_2.sek2_exp_is_mexp. Qed.
Print Assumptions C02_sek2_exp_is_mexp.

Theorem C02_sek2_exp_zero_rot :
  forall a0 a1 a2 a3 a4 a5 out, Gen.SEK3_2.sek2_exp_rel [a0; a1; a2; a3; a4; a5; 0; 0; 0] out ->
  sek_mat 2 out = sek2_flow0 [a0; a1; a2; a3; a4; a5; 0; 0; 0] 1 /\ sek_valid 2 out /\ is_mexp 5 (sek_hat 2 [a0; a1; a2; a3; a4; a5; 0; 0; 0]) (sek_mat 2 out).
Proof. exact Proofs.C02_SEK3_2.sek2_exp_zero_rot. Qed.
Print Assumptions C02_sek2_exp_zero_rot.

