(* C02: series side of the switch for exp (SE3, Galilei, SE_K_3<1>), rotation and translation parts: property theorems only. *)
From Coq Require Import Reals List Lra.
From SV Require Import Base.GenPrelude Base.Mat Base.Trig Base.Kernels Base.KernelQ Doc.Groups.
From SV Require Gen.Galilei Gen.SE3 Gen.SEK3_1.
From SV Require Proofs.C02_TruncK.
Import ListNotations.
Local Open Scope R_scope.

Theorem C02_se3_exp_trunc : forall a0 a1 a2 a3 a4 a5,
  0 < a3*a3 + a4*a4 + a5*a5 < eps2 ->
  let th2 := a3*a3 + a4*a4 + a5*a5 in let th := sqrt th2 in
  Gen.SE3.se3_exp_p4 [a0; a1; a2; a3; a4; a5] = Proofs.C02_TruncK.se3_exp_form (T_Q th2) (T_W th2) (T_cos2 th2) (T_sin3 th2) a0 a1 a2 a3 a4 a5 /\
  Gen.SE3.se3_exp_p1 [a0; a1; a2; a3; a4; a5] = Proofs.C02_TruncK.se3_exp_form (K_Q th) (K_W th) (K_cos2 th) (K_sin3 th) a0 a1 a2 a3 a4 a5 /\
  Gen.SE3.se3_exp_c4 [a0; a1; a2; a3; a4; a5] /\
  0 <= K_Q th - T_Q th2 <= eps2 * eps2 / 3840 /\
  0 <= K_W th - T_W th2 <= eps2 * eps2 / 384 /\
  0 <= K_cos2 th - T_cos2 th2 <= eps2 * eps2 * eps2 / 40320 /\
  0 <= K_sin3 th - T_sin3 th2 <= eps2 * eps2 * eps2 / 362880.
Proof. exact Proofs.C02_TruncK.se3_exp_trunc. Qed.
Print Assumptions C02_se3_exp_trunc.

Theorem C02_gal_exp_trunc : forall a0 a1 a2 a3 a4 a5 a6 a7 a8 a9,
  0 < a7*a7 + a8*a8 + a9*a9 < eps2 ->
  let th2 := a7*a7 + a8*a8 + a9*a9 in let th := sqrt th2 in
  Gen.Galilei.gal_exp_p4 [a0; a1; a2; a3; a4; a5; a6; a7; a8; a9] = Proofs.C02_TruncK.gal_exp_form (T_Q th2) (T_W th2) (T_cos2 th2) (T_sin3 th2) (T_cos4 th2) a0 a1 a2 a3 a4 a5 a6 a7 a8 a9 /\
  Gen.Galilei.gal_exp_p1 [a0; a1; a2; a3; a4; a5; a6; a7; a8; a9] = Proofs.C02_TruncK.gal_exp_form (K_Q th) (K_W th) (K_cos2 th) (K_sin3 th) (K_cos4 th) a0 a1 a2 a3 a4 a5 a6 a7 a8 a9 /\
  Gen.Galilei.gal_exp_c4 [a0; a1; a2; a3; a4; a5; a6; a7; a8; a9] /\
  0 <= K_Q th - T_Q th2 <= eps2 * eps2 / 3840 /\
  0 <= K_W th - T_W th2 <= eps2 * eps2 / 384 /\
  0 <= K_cos2 th - T_cos2 th2 <= eps2 * eps2 * eps2 / 40320 /\
  0 <= K_sin3 th - T_sin3 th2 <= eps2 * eps2 * eps2 / 362880 /\
  - (eps2 * eps2 * eps2 / 3628800) <= K_cos4 th - T_cos4 th2 <= 0.
Proof. exact Proofs.C02_TruncK.gal_exp_trunc. Qed.
Print Assumptions C02_gal_exp_trunc.

Theorem C02_sek1_exp_trunc : forall a0 a1 a2 a3 a4 a5,
  0 < a3*a3 + a4*a4 + a5*a5 < eps2 ->
  let th2 := a3*a3 + a4*a4 + a5*a5 in let th := sqrt th2 in
  Gen.SEK3_1.sek1_exp_p4 [a0; a1; a2; a3; a4; a5] = Proofs.C02_TruncK.sek1_exp_form (T_Q th2) (T_W th2) (T_cos2 th2) (T_sin3 th2) a0 a1 a2 a3 a4 a5 /\
  Gen.SEK3_1.sek1_exp_p1 [a0; a1; a2; a3; a4; a5] = Proofs.C02_TruncK.sek1_exp_form (K_Q th) (K_W th) (K_cos2 th) (K_sin3 th) a0 a1 a2 a3 a4 a5 /\
  Gen.SEK3_1.sek1_exp_c4 [a0; a1; a2; a3; a4; a5] /\
  0 <= K_Q th - T_Q th2 <= eps2 * eps2 / 3840 /\
  0 <= K_W th - T_W th2 <= eps2 * eps2 / 384 /\
  0 <= K_cos2 th - T_cos2 th2 <= eps2 * eps2 * eps2 / 40320 /\
  0 <= K_sin3 th - T_sin3 th2 <= eps2 * eps2 * eps2 / 362880.
Proof. exact Proofs.C02_TruncK.sek1_exp_trunc. Qed.
Print Assumptions C02_sek1_exp_trunc.
