(* C02: series side of the switch for exp (SE_K_3<2>, SE_K_3<3>), rotation and translation parts: property theorems only. *)
From Coq Require Import Reals List Lra.
From SV Require Import Base.GenPrelude Base.Mat Base.Trig Base.Kernels Base.KernelQ Doc.Groups.
From SV Require Gen.SEK3_2 Gen.SEK3_3.
From SV Require Proofs.C02_TruncK2.
Import ListNotations.
Local Open Scope R_scope.

Theorem C02_sek2_exp_trunc : forall a0 a1 a2 a3 a4 a5 a6 a7 a8,
  0 < a6*a6 + a7*a7 + a8*a8 < eps2 ->
  let th2 := a6*a6 + a7*a7 + a8*a8 in let th := sqrt th2 in
  Gen.SEK3_2.sek2_exp_p4 [a0; a1; a2; a3; a4; a5; a6; a7; a8] = Proofs.C02_TruncK2.sek2_exp_form (T_Q th2) (T_W th2) (T_cos2 th2) (T_sin3 th2) a0 a1 a2 a3 a4 a5 a6 a7 a8 /\
  Gen.SEK3_2.sek2_exp_p1 [a0; a1; a2; a3; a4; a5; a6; a7; a8] = Proofs.C02_TruncK2.sek2_exp_form (K_Q th) (K_W th) (K_cos2 th) (K_sin3 th) a0 a1 a2 a3 a4 a5 a6 a7 a8 /\
  Gen.SEK3_2.sek2_exp_c4 [a0; a1; a2; a3; a4; a5; a6; a7; a8] /\
  0 <= K_Q th - T_Q th2 <= eps2 * eps2 / 3840 /\
  0 <= K_W th - T_W th2 <= eps2 * eps2 / 384 /\
  0 <= K_cos2 th - T_cos2 th2 <= eps2 * eps2 * eps2 / 40320 /\
  0 <= K_sin3 th - T_sin3 th2 <= eps2 * eps2 * eps2 / 362880.
Proof. exact Proofs.C02_TruncK2.sek2_exp_trunc. Qed.
Print Assumptions C02_sek2_exp_trunc.

Theorem C02_sek3_exp_trunc : forall a0 a1 a2 a3 a4 a5 a6 a7 a8 a9 a10 a11,
  0 < a9*a9 + a10*a10 + a11*a11 < eps2 ->
  let th2 := a9*a9 + a10*a10 + a11*a11 in let th := sqrt th2 in
  Gen.SEK3_3.sek3_exp_p4 [a0; a1; a2; a3; a4; a5; a6; a7; a8; a9; a10; a11] = Proofs.C02_TruncK2.sek3_exp_form (T_Q th2) (T_W th2) (T_cos2 th2) (T_sin3 th2) a0 a1 a2 a3 a4 a5 a6 a7 a8 a9 a10 a11 /\
  Gen.SEK3_3.sek3_exp_p1 [a0; a1; a2; a3; a4; a5; a6; a7; a8; a9; a10; a11] = Proofs.C02_TruncK2.sek3_exp_form (K_Q th) (K_W th) (K_cos2 th) (K_sin3 th) a0 a1 a2 a3 a4 a5 a6 a7 a8 a9 a10 a11 /\
  Gen.SEK3_3.sek3_exp_c4 [a0; a1; a2; a3; a4; a5; a6; a7; a8; a9; a10; a11] /\
  0 <= K_Q th - T_Q th2 <= eps2 * eps2 / 3840 /\
  0 <= K_W th - T_W th2 <= eps2 * eps2 / 384 /\
  0 <= K_cos2 th - T_cos2 th2 <= eps2 * eps2 * eps2 / 40320 /\
  0 <= K_sin3 th - T_sin3 th2 <= eps2 * eps2 * eps2 / 362880.
Proof. exact Proofs.C02_TruncK2.sek3_exp_trunc. Qed.
Print Assumptions C02_sek3_exp_trunc.
