(* Property C02, log clauses (principal range, exp(log g) = g, log(exp a) = a): property theorems only. *)
From Coq Require Import Reals List Lra.
From SV Require Import Base.GenPrelude Base.Mat Base.Trig Base.KernelL Doc.Groups.
From SV Require Gen.SO2 Gen.SO3 Gen.SE2 Gen.C1.
From SV Require Proofs.C02_Log Proofs.C02_LogSO3 Proofs.C02_LogSE2 Proofs.C02_LogC1 Proofs.C02_TruncLog.
Import ListNotations.
Local Open Scope R_scope.

(* SO2 (no series branch: the statements are unconditional) *)
Theorem C02_so2_log_range : forall g0 g1 out,
  so2_valid [g0; g1] -> Gen.SO2.so2_log_rel [g0; g1] out -> exists a, out = [a] /\ - PI < a <= PI.
Proof. exact Proofs.C02_Log.so2_log_range. Qed.
Print Assumptions C02_so2_log_range.
Theorem C02_so2_exp_log : forall g0 g1 a out,
  so2_valid [g0; g1] -> Gen.SO2.so2_log_rel [g0; g1] a -> Gen.SO2.so2_exp_rel a out -> out = [g0; g1].
Proof. exact Proofs.C02_Log.so2_exp_log. Qed.
Print Assumptions C02_so2_exp_log.
Theorem C02_so2_log_exp : forall a g out,
  - PI < a <= PI -> Gen.SO2.so2_exp_rel [a] g -> Gen.SO2.so2_log_rel g out -> out = [a].
Proof. exact Proofs.C02_Log.so2_log_exp. Qed.
Print Assumptions C02_so2_log_exp.

(* SO3, closed-form branch of log (|vector part|^2 >= eps2), canonical hemisphere qw >= 0 *)
Theorem C02_so3_log_norm : forall g0 g1 g2 g3 out,
  so3_valid [g0; g1; g2; g3] -> 0 <= g3 -> eps2 <= g0*g0 + g1*g1 + g2*g2 -> Gen.SO3.so3_log_rel [g0; g1; g2; g3] out ->
  exists b0 b1 b2 phi, out = [b0; b1; b2] /\ b0*b0 + b1*b1 + b2*b2 = phi*phi /\ 0 <= phi <= PI.
Proof. exact Proofs.C02_LogSO3.so3_log_norm. Qed.
Print Assumptions C02_so3_log_norm.
Theorem C02_so3_exp_log : forall g0 g1 g2 g3 a out,
  so3_valid [g0; g1; g2; g3] -> 0 <= g3 -> eps2 <= g0*g0 + g1*g1 + g2*g2 ->
  Gen.SO3.so3_log_rel [g0; g1; g2; g3] a -> Gen.SO3.so3_exp_rel a out -> out = [g0; g1; g2; g3].
Proof. exact Proofs.C02_LogSO3.so3_exp_log. Qed.
Print Assumptions C02_so3_exp_log.
Theorem C02_so3_log_exp : forall a0 a1 a2 g out,
  eps2 <= a0*a0 + a1*a1 + a2*a2 -> a0*a0 + a1*a1 + a2*a2 < PI * PI ->
  Gen.SO3.so3_exp_rel [a0; a1; a2] g -> Gen.SO3.so3_log_rel g out ->
  (forall g0 g1 g2 g3, g = [g0; g1; g2; g3] -> eps2 <= g0*g0 + g1*g1 + g2*g2) ->
  out = [a0; a1; a2].
Proof. exact Proofs.C02_LogSO3.so3_log_exp. Qed.
Print Assumptions C02_so3_log_exp.

(* SE2, closed-form branches (angle^2 >= eps2), angle strictly inside (-pi, pi) where tan(angle/2) is finite *)
Theorem C02_se2_log_range : forall g0 g1 g2 g3 out,
  Gen.SE2.se2_log_rel [g0; g1; g2; g3] out -> exists x y a, out = [x; y; a] /\ - PI < a <= PI.
Proof. exact Proofs.C02_LogSE2.se2_log_range. Qed.
Print Assumptions C02_se2_log_range.
Theorem C02_se2_exp_log : forall g0 g1 g2 g3 a out,
  se2_valid [g0; g1; g2; g3] -> eps2 <= atan2 g2 g3 * atan2 g2 g3 -> atan2 g2 g3 < PI ->
  Gen.SE2.se2_log_rel [g0; g1; g2; g3] a -> Gen.SE2.se2_exp_rel a out -> out = [g0; g1; g2; g3].
Proof. exact Proofs.C02_LogSE2.se2_exp_log. Qed.
Print Assumptions C02_se2_exp_log.
Theorem C02_se2_log_exp : forall a0 a1 a2 g out,
  eps2 <= a2 * a2 -> - PI < a2 < PI -> Gen.SE2.se2_exp_rel [a0; a1; a2] g -> Gen.SE2.se2_log_rel g out -> out = [a0; a1; a2].
Proof. exact Proofs.C02_LogSE2.se2_log_exp. Qed.
Print Assumptions C02_se2_log_exp.

(* C1 = scaling x rotation (no series branch: unconditional on non-zero elements) *)
Theorem C02_c1_log_range : forall g0 g1 out,
  Gen.C1.c1_log_rel [g0; g1] out -> exists s a, out = [s; a] /\ - PI < a <= PI.
Proof. exact Proofs.C02_LogC1.c1_log_range. Qed.
Print Assumptions C02_c1_log_range.
Theorem C02_c1_exp_log : forall g0 g1 a out,
  c1_valid [g0; g1] -> Gen.C1.c1_log_rel [g0; g1] a -> Gen.C1.c1_exp_rel a out -> out = [g0; g1].
Proof. exact Proofs.C02_LogC1.c1_exp_log. Qed.
Print Assumptions C02_c1_exp_log.
Theorem C02_c1_log_exp : forall a0 a1 g out,
  - PI < a1 <= PI -> Gen.C1.c1_exp_rel [a0; a1] g -> Gen.C1.c1_log_rel g out -> out = [a0; a1].
Proof. exact Proofs.C02_LogC1.c1_log_exp. Qed.
Print Assumptions C02_c1_log_exp.

(* SE2 log below the switch: the series path is the closed-form path with (th/2)/tan(th/2) replaced by 1 - th^2/12 *)
Theorem C02_se2_log_trunc : forall g0 g1 g2 g3,
  let th := atan2 g2 g3 in
  0 < th * th < eps2 ->
  Gen.SE2.se2_log_p1 [g0; g1; g2; g3] = Proofs.C02_TruncLog.se2_log_form (T_L (th * th)) g0 g1 th /\
  Gen.SE2.se2_log_p0 [g0; g1; g2; g3] = Proofs.C02_TruncLog.se2_log_form (K_L th) g0 g1 th /\
  Gen.SE2.se2_log_c1 [g0; g1; g2; g3] /\
  - (eps2 * eps2 / 600) <= K_L th - T_L (th * th) <= 0.
Proof. exact Proofs.C02_TruncLog.se2_log_trunc. Qed.
Print Assumptions C02_se2_log_trunc.

(* SO3 log below the switch (canonical hemisphere, qw > 0) *)
Theorem C02_so3_log_trunc : forall g0 g1 g2 g3,
  so3_valid [g0; g1; g2; g3] -> 0 < g3 -> 0 < g0*g0 + g1*g1 + g2*g2 < eps2 ->
  let n2 := g0*g0 + g1*g1 + g2*g2 in let n := sqrt n2 in
  Gen.SO3.so3_log_p1 [g0; g1; g2; g3] = Proofs.C02_TruncLog.so3_log_form (Proofs.C02_TruncLog.T_S n2 g3) g0 g1 g2 /\
  Gen.SO3.so3_log_p0 [g0; g1; g2; g3] = Proofs.C02_TruncLog.so3_log_form (Proofs.C02_TruncLog.K_S n g3) g0 g1 g2 /\
  Gen.SO3.so3_log_c1 [g0; g1; g2; g3] /\
  0 <= Proofs.C02_TruncLog.K_S n g3 - Proofs.C02_TruncLog.T_S n2 g3 <= eps2 * eps2.
Proof. exact Proofs.C02_TruncLog.so3_log_trunc. Qed.
Print Assumptions C02_so3_log_trunc.
