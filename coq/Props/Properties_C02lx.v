(* Property C02, log clauses for SE3 (thorough tier): property theorems only. *)
From Coq Require Import Reals List Lra.
From SV Require Import Base.GenPrelude Base.Mat Base.Trig Doc.Groups.
From SV Require Gen.SE3.
From SV Require Proofs.C02_LogSE3.
Import ListNotations.
Local Open Scope R_scope.

(* closed-form branches; rotation angle strictly below pi (qw > 0), where sin(theta) <> 0 *)
Theorem C02_se3_exp_log : forall g0 g1 g2 g3 g4 g5 g6 a out,
  se3_valid [g0; g1; g2; g3; g4; g5; g6] -> 0 < g6 -> eps2 <= g3*g3 + g4*g4 + g5*g5 ->
  Gen.SE3.se3_log_rel [g0; g1; g2; g3; g4; g5; g6] a -> Gen.SE3.se3_exp_rel a out -> out = [g0; g1; g2; g3; g4; g5; g6].
Proof. exact Proofs.C02_LogSE3.se3_exp_log. Qed.
Print Assumptions C02_se3_exp_log.

Theorem C02_se3_log_exp : forall a0 a1 a2 a3 a4 a5 g out,
  eps2 < a3*a3 + a4*a4 + a5*a5 -> a3*a3 + a4*a4 + a5*a5 < PI * PI ->
  eps2 <= sin (sqrt (a3*a3 + a4*a4 + a5*a5) / 2) * sin (sqrt (a3*a3 + a4*a4 + a5*a5) / 2) ->
  Gen.SE3.se3_exp_rel [a0; a1; a2; a3; a4; a5] g -> Gen.SE3.se3_log_rel g out -> out = [a0; a1; a2; a3; a4; a5].
Proof. exact Proofs.C02_LogSE3.se3_log_exp. Qed.
Print Assumptions C02_se3_log_exp.
