(* Property C02, truncation layer (also used by C04/C05): property theorems only. *)
From Coq Require Import Reals List Lra.
From SV Require Import Base.GenPrelude Base.Mat Base.Trig Base.Kernels Doc.Groups.
From SV Require Gen.Trig Gen.SO3 Gen.SE2 Gen.SE3.
From SV Require Proofs.C02_Trunc Proofs.C02_TruncSE3.
Import ListNotations.
Local Open Scope R_scope.

(* on the series side of the switch the two paths of every detail/trig.hpp kernel agree to ~1e-24/k! *)
Theorem C02_cos_2_trunc : forall x2, 0 < x2 <= eps2 ->
  exists t c, Gen.Trig.cos_2_p0 [x2] = [t] /\ Gen.Trig.cos_2_p1 [x2] = [c] /\ 0 <= c - t <= Proofs.C02_Trunc.e6 / 40320.
Proof. exact Proofs.C02_Trunc.cos_2_trunc. Qed.
Print Assumptions C02_cos_2_trunc.
Theorem C02_sin_3_trunc : forall x2, 0 < x2 <= eps2 ->
  exists t c, Gen.Trig.sin_3_p0 [x2] = [t] /\ Gen.Trig.sin_3_p1 [x2] = [c] /\ 0 <= c - t <= Proofs.C02_Trunc.e6 / 362880.
Proof. exact Proofs.C02_Trunc.sin_3_trunc. Qed.
Print Assumptions C02_sin_3_trunc.
Theorem C02_cos_4_trunc : forall x2, 0 < x2 <= eps2 ->
  exists t c, Gen.Trig.cos_4_p0 [x2] = [t] /\ Gen.Trig.cos_4_p1 [x2] = [c] /\ - (Proofs.C02_Trunc.e6 / 3628800) <= c - t <= 0.
Proof. exact Proofs.C02_Trunc.cos_4_trunc. Qed.
Print Assumptions C02_cos_4_trunc.
Theorem C02_sin_5_trunc : forall x2, 0 < x2 <= eps2 ->
  exists t c, Gen.Trig.sin_5_p0 [x2] = [t] /\ Gen.Trig.sin_5_p1 [x2] = [c] /\ - (Proofs.C02_Trunc.e6 / 39916800) <= c - t <= 0.
Proof. exact Proofs.C02_Trunc.sin_5_trunc. Qed.
Print Assumptions C02_sin_5_trunc.
Theorem C02_cos_6_trunc : forall x2, 0 < x2 <= eps2 ->
  exists t c, Gen.Trig.cos_6_p0 [x2] = [t] /\ Gen.Trig.cos_6_p1 [x2] = [c] /\ 0 <= c - t <= Proofs.C02_Trunc.e6 / 479001600.
Proof. exact Proofs.C02_Trunc.cos_6_trunc. Qed.
Print Assumptions C02_cos_6_trunc.
Theorem C02_e6_tiny : Proofs.C02_Trunc.e6 < 1 / 10^23.
Proof. exact Proofs.C02_Trunc.e6_tiny. Qed.

(* the generated path conditions are the documented switch *)
Theorem C02_cos_2_paths : forall x2, (Gen.Trig.cos_2_c1 [x2] <-> eps2 < x2) /\ (Gen.Trig.cos_2_c0 [x2] <-> ~ eps2 < x2).
Proof. exact Proofs.C02_Trunc.cos_2_paths. Qed.

Theorem C02_so3_exp_trunc : forall a0 a1 a2,
  0 < a0*a0 + a1*a1 + a2*a2 < eps2 ->
  exists A_t A_c B_t B_c,
    Gen.SO3.so3_exp_p2 [a0; a1; a2] = [A_t * a0; A_t * a1; A_t * a2; B_t] /\
    Gen.SO3.so3_exp_p0 [a0; a1; a2] = [A_c * a0; A_c * a1; A_c * a2; B_c] /\
    Gen.SO3.so3_exp_c2 [a0; a1; a2] /\
    0 <= A_c - A_t <= eps2 * eps2 / 3840 /\ 0 <= B_c - B_t <= eps2 * eps2 / 384.
Proof. exact Proofs.C02_Trunc.so3_exp_trunc. Qed.
Print Assumptions C02_so3_exp_trunc.

Theorem C02_se2_exp_trunc : forall a0 a1 a2,
  0 < a2*a2 < eps2 ->
  exists A_t A_c B_t B_c,
    Gen.SE2.se2_exp_p1 [a0; a1; a2] = [A_t * a0 + B_t * a1; - B_t * a0 + A_t * a1; sin a2; cos a2] /\
    Gen.SE2.se2_exp_p0 [a0; a1; a2] = [A_c * a0 + B_c * a1; - B_c * a0 + A_c * a1; sin a2; cos a2] /\
    Gen.SE2.se2_exp_c1 [a0; a1; a2] /\
    Rabs (A_c - A_t) <= eps2 * eps2 / 120 /\ Rabs (B_c - B_t) <= eps2 * eps2 / 720.
Proof. exact Proofs.C02_Trunc.se2_exp_trunc. Qed.
Print Assumptions C02_se2_exp_trunc.

(* SE3 exp, rotation and translation part: series path = closed-form path with the four kernels replaced by their series *)
Theorem C02_se3_exp_trunc : forall a0 a1 a2 a3 a4 a5,
  0 < a3*a3 + a4*a4 + a5*a5 < eps2 ->
  let th2 := a3*a3 + a4*a4 + a5*a5 in let th := sqrt th2 in
  Gen.SE3.se3_exp_p4 [a0; a1; a2; a3; a4; a5] = Proofs.C02_TruncSE3.se3_exp_form (1/2 - th2/48) (1 - th2/8) (T_cos2 th2) (T_sin3 th2) a0 a1 a2 a3 a4 a5 /\
  Gen.SE3.se3_exp_p1 [a0; a1; a2; a3; a4; a5] = Proofs.C02_TruncSE3.se3_exp_form (sin (th/2) / th) (cos (th/2)) (K_cos2 th) (K_sin3 th) a0 a1 a2 a3 a4 a5 /\
  Gen.SE3.se3_exp_c4 [a0; a1; a2; a3; a4; a5] /\
  0 <= sin (th/2) / th - (1/2 - th2/48) <= eps2 * eps2 / 3840 /\
  0 <= cos (th/2) - (1 - th2/8) <= eps2 * eps2 / 384 /\
  0 <= K_cos2 th - T_cos2 th2 <= eps2 * eps2 * eps2 / 40320 /\
  0 <= K_sin3 th - T_sin3 th2 <= eps2 * eps2 * eps2 / 362880.
Proof. exact Proofs.C02_TruncSE3.se3_exp_trunc. Qed.
Print Assumptions C02_se3_exp_trunc.
