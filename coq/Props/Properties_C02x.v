(* Property C02: the property theorems and nothing else (thorough tier: the most expensive instances).  Each is closed by the lemma of the same
   name proved in Proofs/C02_<unit>.v against the generated model; Print Assumptions lists the axioms. *)
From Coq Require Import Reals List Lra.
From SV Require Gen.SO2.
From SV Require Gen.SO3.
From SV Require Gen.SE2.
From SV Require Gen.SE3.
From SV Require Gen.C1.
From SV Require Gen.Galilei.
From SV Require Gen.SEK3_1.
From SV Require Gen.SEK3_2.
From SV Require Gen.SEK3_3.
From Coquelicot Require Import Coquelicot.
From SV Require Import Base.Trig Doc.Exp.
From SV Require Import Base.GenPrelude Base.Mat Doc.Groups.
From SV Require Proofs.C02_SEK3_3.
Import ListNotations.
Local Open Scope R_scope.

Theorem C02_sek3_exp_flow :
  forall a0 a1 a2 a3 a4 a5 a6 a7 a8 a9 a10 a11 out, Gen.SEK3_3.sek3_exp_rel [a0; a1; a2; a3; a4; a5; a6; a7; a8; a9; a10; a11] out -> eps2 < a9*a9 + a10*a10 + a11*a11 ->
  sek_mat 3 out = sek3_flow [a0; a1; a2; a3; a4; a5; a6; a7; a8; a9; a10; a11] 1 /\ sek_valid 3 out.
Proof. exact Proofs.C02_SEK3_3.sek3_exp_flow. Qed.
Print Assumptions C02_sek3_exp_flow.

Theorem C02_sek3_exp_is_mexp :
  forall a0 a1 a2 a3 a4 a5 a6 a7 a8 a9 a10 a11 out, Gen.SEK3_3.sek3_exp_rel [a0; a1; a2; a3; a4; a5; a6; a7; a8; a9; a10; a11] out -> eps2 < a9*a9 + a10*a10 + a11*a11 ->
  is_mexp 6 (sek_hat 3 [a0; a1; a2; a3; a4; a5; a6; a7; a8; a9; a10; a11]) (sek_mat 3 out).
Proof. exact Proofs.C02_SEK3_3.sek3_exp_is_mexp. Qed.
Print Assumptions C02_sek3_exp_is_mexp.

Theorem C02_sek3_exp_zero_rot :
  forall a0 a1 a2 a3 a4 a5 a6 a7 a8 out, Gen.SEK3_3.sek3_exp_rel [a0; a1; a2; a3; a4; a5; a6; a7; a8; 0; 0; 0] out ->
  sek_mat 3 out = sek3_flow0 [a0; a1; a2; a3; a4; a5; a6; a7; a8; 0; 0; 0] 1 /\ sek_valid 3 out /\ is_mexp 6 (sek_hat 3 [a0; a1; a2; a3; a4; a5; a6; a7; a8; 0; 0; 0]) (sek_mat 3 out).
Proof. exact Proofs.C02_SEK3_3.sek3_exp_zero_rot. Qed.
Print Assumptions C02_sek3_exp_zero_rot.

