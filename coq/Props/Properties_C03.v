(* Property C03: the property theorems and nothing else.  Each is closed by the lemma of the same
   name proved in Proofs/C03_<unit>.v against the generated model; Print Assumptions lists the axioms. *)
From Coq Require Import Reals List Lra.
From SV Require Import Base.GenPrelude Base.Mat Doc.Groups.
From SV Require Gen.SO2.
From SV Require Gen.SO3.
From SV Require Gen.SE2.
From SV Require Gen.SE3.
From SV Require Gen.C1.
From SV Require Gen.Galilei.
From SV Require Gen.SEK3_1.
From SV Require Gen.SEK3_2.
From SV Require Gen.SEK3_3.
From SV Require Proofs.C03_SO2.
From SV Require Proofs.C03_SO3.
From SV Require Proofs.C03_SE2.
From SV Require Proofs.C03_SE3.
From SV Require Proofs.C03_C1.
From SV Require Proofs.C03_Galilei.
From SV Require Proofs.C03_SEK3_1.
From SV Require Proofs.C03_SEK3_2.
From SV Require Proofs.C03_SEK3_3.
Import ListNotations.
Local Open Scope R_scope.

Theorem C03_so2_hat_doc :
  forall a0 out,
  Gen.SO2.so2_hat_rel [a0] out -> out = so2_hat [a0].
Proof. exact Proofs.C03_SO2.so2_hat_doc. Qed.
Print Assumptions C03_so2_hat_doc.

Theorem C03_so2_vee_hat :
  forall a0 out,
  Gen.SO2.so2_vee_rel (mflat (so2_hat [a0])) out -> out = [a0].
Proof. exact Proofs.C03_SO2.so2_vee_hat. Qed.
Print Assumptions C03_so2_vee_hat.

Theorem C03_so2_hat_vee :
  forall a0 A v,
  A = so2_hat [a0] -> Gen.SO2.so2_vee_rel (mflat A) v -> so2_hat v = A.
Proof. exact Proofs.C03_SO2.so2_hat_vee. Qed.
Print Assumptions C03_so2_hat_vee.

Theorem C03_so2_hat_linear :
  forall s t a0 b0,
  so2_hat (vadd (vscale s [a0]) (vscale t [b0])) = madd (mscale s (so2_hat [a0])) (mscale t (so2_hat [b0])).
Proof. exact Proofs.C03_SO2.so2_hat_linear. Qed.
Print Assumptions C03_so2_hat_linear.

Theorem C03_so2_Ad_def :
  forall g0 g1 a0 A,
  so2_valid [g0; g1] -> Gen.SO2.so2_Ad_rel [g0; g1] A ->
  mmul (so2_hat (mvec A [a0])) (so2_mat [g0; g1]) = mmul (so2_mat [g0; g1]) (so2_hat [a0]).
Proof. exact Proofs.C03_SO2.so2_Ad_def. Qed.
Print Assumptions C03_so2_Ad_def.

Theorem C03_so2_ad_def :
  forall a0 b0 A,
  Gen.SO2.so2_ad_rel [a0] A ->
  so2_hat (mvec A [b0]) = comm (so2_hat [a0]) (so2_hat [b0]).
Proof. exact Proofs.C03_SO2.so2_ad_def. Qed.
Print Assumptions C03_so2_ad_def.

Theorem C03_so2_bracket_ad :
  forall a0 b0 A out,
  Gen.SO2.so2_ad_rel [a0] A -> Gen.SO2.so2_bracket_rel [a0] [b0] out -> out = mvec A [b0].
Proof. exact Proofs.C03_SO2.so2_bracket_ad. Qed.
Print Assumptions C03_so2_bracket_ad.

Theorem C03_so2_bracket_antisym :
  forall a0 b0 x y,
  Gen.SO2.so2_bracket_rel [a0] [b0] x -> Gen.SO2.so2_bracket_rel [b0] [a0] y -> x = vneg y.
Proof. exact Proofs.C03_SO2.so2_bracket_antisym. Qed.
Print Assumptions C03_so2_bracket_antisym.

Theorem C03_so2_jacobi :
  forall a0 b0 c0 bc ca ab x y z,
  Gen.SO2.so2_bracket_rel [b0] [c0] bc -> Gen.SO2.so2_bracket_rel [c0] [a0] ca -> Gen.SO2.so2_bracket_rel [a0] [b0] ab ->
  Gen.SO2.so2_bracket_rel [a0] bc x -> Gen.SO2.so2_bracket_rel [b0] ca y -> Gen.SO2.so2_bracket_rel [c0] ab z ->
  vadd (vadd x y) z = vzero 1.
Proof. exact Proofs.C03_SO2.so2_jacobi. Qed.
Print Assumptions C03_so2_jacobi.

Theorem C03_so2_Ad_hom :
  forall g0 g1 h0 h1 gh A1 A2 A12,
  so2_valid [g0; g1] -> so2_valid [h0; h1] ->
  Gen.SO2.so2_comp_rel [g0; g1] [h0; h1] gh -> Gen.SO2.so2_Ad_rel [g0; g1] A1 -> Gen.SO2.so2_Ad_rel [h0; h1] A2 -> Gen.SO2.so2_Ad_rel gh A12 ->
  A12 = mmul A1 A2.
Proof. exact Proofs.C03_SO2.so2_Ad_hom. Qed.
Print Assumptions C03_so2_Ad_hom.

Theorem C03_so3_hat_doc :
  forall a0 a1 a2 out,
  Gen.SO3.so3_hat_rel [a0; a1; a2] out -> out = so3_hat [a0; a1; a2].
Proof. exact Proofs.C03_SO3.so3_hat_doc. Qed.
Print Assumptions C03_so3_hat_doc.

Theorem C03_so3_vee_hat :
  forall a0 a1 a2 out,
  Gen.SO3.so3_vee_rel (mflat (so3_hat [a0; a1; a2])) out -> out = [a0; a1; a2].
Proof. exact Proofs.C03_SO3.so3_vee_hat. Qed.
Print Assumptions C03_so3_vee_hat.

Theorem C03_so3_hat_vee :
  forall a0 a1 a2 A v,
  A = so3_hat [a0; a1; a2] -> Gen.SO3.so3_vee_rel (mflat A) v -> so3_hat v = A.
Proof. exact Proofs.C03_SO3.so3_hat_vee. Qed.
Print Assumptions C03_so3_hat_vee.

Theorem C03_so3_hat_linear :
  forall s t a0 a1 a2 b0 b1 b2,
  so3_hat (vadd (vscale s [a0; a1; a2]) (vscale t [b0; b1; b2])) = madd (mscale s (so3_hat [a0; a1; a2])) (mscale t (so3_hat [b0; b1; b2])).
Proof. exact Proofs.C03_SO3.so3_hat_linear. Qed.
Print Assumptions C03_so3_hat_linear.

Theorem C03_so3_Ad_def :
  forall g0 g1 g2 g3 a0 a1 a2 A,
  so3_valid [g0; g1; g2; g3] -> Gen.SO3.so3_Ad_rel [g0; g1; g2; g3] A ->
  mmul (so3_hat (mvec A [a0; a1; a2])) (so3_mat [g0; g1; g2; g3]) = mmul (so3_mat [g0; g1; g2; g3]) (so3_hat [a0; a1; a2]).
Proof. exact Proofs.C03_SO3.so3_Ad_def. Qed.
Print Assumptions C03_so3_Ad_def.

Theorem C03_so3_ad_def :
  forall a0 a1 a2 b0 b1 b2 A,
  Gen.SO3.so3_ad_rel [a0; a1; a2] A ->
  so3_hat (mvec A [b0; b1; b2]) = comm (so3_hat [a0; a1; a2]) (so3_hat [b0; b1; b2]).
Proof. exact Proofs.C03_SO3.so3_ad_def. Qed.
Print Assumptions C03_so3_ad_def.

Theorem C03_so3_bracket_ad :
  forall a0 a1 a2 b0 b1 b2 A out,
  Gen.SO3.so3_ad_rel [a0; a1; a2] A -> Gen.SO3.so3_bracket_rel [a0; a1; a2] [b0; b1; b2] out -> out = mvec A [b0; b1; b2].
Proof. exact Proofs.C03_SO3.so3_bracket_ad. Qed.
Print Assumptions C03_so3_bracket_ad.

Theorem C03_so3_bracket_antisym :
  forall a0 a1 a2 b0 b1 b2 x y,
  Gen.SO3.so3_bracket_rel [a0; a1; a2] [b0; b1; b2] x -> Gen.SO3.so3_bracket_rel [b0; b1; b2] [a0; a1; a2] y -> x = vneg y.
Proof. exact Proofs.C03_SO3.so3_bracket_antisym. Qed.
Print Assumptions C03_so3_bracket_antisym.

Theorem C03_so3_jacobi :
  forall a0 a1 a2 b0 b1 b2 c0 c1 c2 bc ca ab x y z,
  Gen.SO3.so3_bracket_rel [b0; b1; b2] [c0; c1; c2] bc -> Gen.SO3.so3_bracket_rel [c0; c1; c2] [a0; a1; a2] ca -> Gen.SO3.so3_bracket_rel [a0; a1; a2] [b0; b1; b2] ab ->
  Gen.SO3.so3_bracket_rel [a0; a1; a2] bc x -> Gen.SO3.so3_bracket_rel [b0; b1; b2] ca y -> Gen.SO3.so3_bracket_rel [c0; c1; c2] ab z ->
  vadd (vadd x y) z = vzero 3.
Proof. exact Proofs.C03_SO3.so3_jacobi. Qed.
Print Assumptions C03_so3_jacobi.

Theorem C03_so3_Ad_hom :
  forall g0 g1 g2 g3 h0 h1 h2 h3 gh A1 A2 A12,
  so3_valid [g0; g1; g2; g3] -> so3_valid [h0; h1; h2; h3] ->
  Gen.SO3.so3_comp_rel [g0; g1; g2; g3] [h0; h1; h2; h3] gh -> Gen.SO3.so3_Ad_rel [g0; g1; g2; g3] A1 -> Gen.SO3.so3_Ad_rel [h0; h1; h2; h3] A2 -> Gen.SO3.so3_Ad_rel gh A12 ->
  A12 = mmul A1 A2.
Proof. exact Proofs.C03_SO3.so3_Ad_hom. Qed.
Print Assumptions C03_so3_Ad_hom.

Theorem C03_se2_hat_doc :
  forall a0 a1 a2 out,
  Gen.SE2.se2_hat_rel [a0; a1; a2] out -> out = se2_hat [a0; a1; a2].
Proof. exact Proofs.C03_SE2.se2_hat_doc. Qed.
Print Assumptions C03_se2_hat_doc.

Theorem C03_se2_vee_hat :
  forall a0 a1 a2 out,
  Gen.SE2.se2_vee_rel (mflat (se2_hat [a0; a1; a2])) out -> out = [a0; a1; a2].
Proof. exact Proofs.C03_SE2.se2_vee_hat. Qed.
Print Assumptions C03_se2_vee_hat.

Theorem C03_se2_hat_vee :
  forall a0 a1 a2 A v,
  A = se2_hat [a0; a1; a2] -> Gen.SE2.se2_vee_rel (mflat A) v -> se2_hat v = A.
Proof. exact Proofs.C03_SE2.se2_hat_vee. Qed.
Print Assumptions C03_se2_hat_vee.

Theorem C03_se2_hat_linear :
  forall s t a0 a1 a2 b0 b1 b2,
  se2_hat (vadd (vscale s [a0; a1; a2]) (vscale t [b0; b1; b2])) = madd (mscale s (se2_hat [a0; a1; a2])) (mscale t (se2_hat [b0; b1; b2])).
Proof. exact Proofs.C03_SE2.se2_hat_linear. Qed.
Print Assumptions C03_se2_hat_linear.

Theorem C03_se2_Ad_def :
  forall g0 g1 g2 g3 a0 a1 a2 A,
  se2_valid [g0; g1; g2; g3] -> Gen.SE2.se2_Ad_rel [g0; g1; g2; g3] A ->
  mmul (se2_hat (mvec A [a0; a1; a2])) (se2_mat [g0; g1; g2; g3]) = mmul (se2_mat [g0; g1; g2; g3]) (se2_hat [a0; a1; a2]).
Proof. exact Proofs.C03_SE2.se2_Ad_def. Qed.
Print Assumptions C03_se2_Ad_def.

Theorem C03_se2_ad_def :
  forall a0 a1 a2 b0 b1 b2 A,
  Gen.SE2.se2_ad_rel [a0; a1; a2] A ->
  se2_hat (mvec A [b0; b1; b2]) = comm (se2_hat [a0; a1; a2]) (se2_hat [b0; b1; b2]).
Proof. exact Proofs.C03_SE2.se2_ad_def. Qed.
Print Assumptions C03_se2_ad_def.

Theorem C03_se2_bracket_ad :
  forall a0 a1 a2 b0 b1 b2 A out,
  Gen.SE2.se2_ad_rel [a0; a1; a2] A -> Gen.SE2.se2_bracket_rel [a0; a1; a2] [b0; b1; b2] out -> out = mvec A [b0; b1; b2].
Proof. exact Proofs.C03_SE2.se2_bracket_ad. Qed.
Print Assumptions C03_se2_bracket_ad.

Theorem C03_se2_bracket_antisym :
  forall a0 a1 a2 b0 b1 b2 x y,
  Gen.SE2.se2_bracket_rel [a0; a1; a2] [b0; b1; b2] x -> Gen.SE2.se2_bracket_rel [b0; b1; b2] [a0; a1; a2] y -> x = vneg y.
Proof. exact Proofs.C03_SE2.se2_bracket_antisym. Qed.
Print Assumptions C03_se2_bracket_antisym.

Theorem C03_se2_jacobi :
  forall a0 a1 a2 b0 b1 b2 c0 c1 c2 bc ca ab x y z,
  Gen.SE2.se2_bracket_rel [b0; b1; b2] [c0; c1; c2] bc -> Gen.SE2.se2_bracket_rel [c0; c1; c2] [a0; a1; a2] ca -> Gen.SE2.se2_bracket_rel [a0; a1; a2] [b0; b1; b2] ab ->
  Gen.SE2.se2_bracket_rel [a0; a1; a2] bc x -> Gen.SE2.se2_bracket_rel [b0; b1; b2] ca y -> Gen.SE2.se2_bracket_rel [c0; c1; c2] ab z ->
  vadd (vadd x y) z = vzero 3.
Proof. exact Proofs.C03_SE2.se2_jacobi. Qed.
Print Assumptions C03_se2_jacobi.

Theorem C03_se2_Ad_hom :
  forall g0 g1 g2 g3 h0 h1 h2 h3 gh A1 A2 A12,
  se2_valid [g0; g1; g2; g3] -> se2_valid [h0; h1; h2; h3] ->
  Gen.SE2.se2_comp_rel [g0; g1; g2; g3] [h0; h1; h2; h3] gh -> Gen.SE2.se2_Ad_rel [g0; g1; g2; g3] A1 -> Gen.SE2.se2_Ad_rel [h0; h1; h2; h3] A2 -> Gen.SE2.se2_Ad_rel gh A12 ->
  A12 = mmul A1 A2.
Proof. exact Proofs.C03_SE2.se2_Ad_hom. Qed.
Print Assumptions C03_se2_Ad_hom.

Theorem C03_se3_hat_doc :
  forall a0 a1 a2 a3 a4 a5 out,
  Gen.SE3.se3_hat_rel [a0; a1; a2; a3; a4; a5] out -> out = se3_hat [a0; a1; a2; a3; a4; a5].
Proof. exact Proofs.C03_SE3.se3_hat_doc. Qed.
Print Assumptions C03_se3_hat_doc.

Theorem C03_se3_vee_hat :
  forall a0 a1 a2 a3 a4 a5 out,
  Gen.SE3.se3_vee_rel (mflat (se3_hat [a0; a1; a2; a3; a4; a5])) out -> out = [a0; a1; a2; a3; a4; a5].
Proof. exact Proofs.C03_SE3.se3_vee_hat. Qed.
Print Assumptions C03_se3_vee_hat.

Theorem C03_se3_hat_vee :
  forall a0 a1 a2 a3 a4 a5 A v,
  A = se3_hat [a0; a1; a2; a3; a4; a5] -> Gen.SE3.se3_vee_rel (mflat A) v -> se3_hat v = A.
Proof. exact Proofs.C03_SE3.se3_hat_vee. Qed.
Print Assumptions C03_se3_hat_vee.

Theorem C03_se3_hat_linear :
  forall s t a0 a1 a2 a3 a4 a5 b0 b1 b2 b3 b4 b5,
  se3_hat (vadd (vscale s [a0; a1; a2; a3; a4; a5]) (vscale t [b0; b1; b2; b3; b4; b5])) = madd (mscale s (se3_hat [a0; a1; a2; a3; a4; a5])) (mscale t (se3_hat [b0; b1; b2; b3; b4; b5])).
Proof. exact Proofs.C03_SE3.se3_hat_linear. Qed.
Print Assumptions C03_se3_hat_linear.

Theorem C03_se3_Ad_def :
  forall g0 g1 g2 g3 g4 g5 g6 a0 a1 a2 a3 a4 a5 A,
  se3_valid [g0; g1; g2; g3; g4; g5; g6] -> Gen.SE3.se3_Ad_rel [g0; g1; g2; g3; g4; g5; g6] A ->
  mmul (se3_hat (mvec A [a0; a1; a2; a3; a4; a5])) (se3_mat [g0; g1; g2; g3; g4; g5; g6]) = mmul (se3_mat [g0; g1; g2; g3; g4; g5; g6]) (se3_hat [a0; a1; a2; a3; a4; a5]).
Proof. exact Proofs.C03_SE3.se3_Ad_def. Qed.
Print Assumptions C03_se3_Ad_def.

Theorem C03_se3_ad_def :
  forall a0 a1 a2 a3 a4 a5 b0 b1 b2 b3 b4 b5 A,
  Gen.SE3.se3_ad_rel [a0; a1; a2; a3; a4; a5] A ->
  se3_hat (mvec A [b0; b1; b2; b3; b4; b5]) = comm (se3_hat [a0; a1; a2; a3; a4; a5]) (se3_hat [b0; b1; b2; b3; b4; b5]).
Proof. exact Proofs.C03_SE3.se3_ad_def. Qed.
Print Assumptions C03_se3_ad_def.

Theorem C03_se3_bracket_ad :
  forall a0 a1 a2 a3 a4 a5 b0 b1 b2 b3 b4 b5 A out,
  Gen.SE3.se3_ad_rel [a0; a1; a2; a3; a4; a5] A -> Gen.SE3.se3_bracket_rel [a0; a1; a2; a3; a4; a5] [b0; b1; b2; b3; b4; b5] out -> out = mvec A [b0; b1; b2; b3; b4; b5].
Proof. exact Proofs.C03_SE3.se3_bracket_ad. Qed.
Print Assumptions C03_se3_bracket_ad.

Theorem C03_se3_bracket_antisym :
  forall a0 a1 a2 a3 a4 a5 b0 b1 b2 b3 b4 b5 x y,
  Gen.SE3.se3_bracket_rel [a0; a1; a2; a3; a4; a5] [b0; b1; b2; b3; b4; b5] x -> Gen.SE3.se3_bracket_rel [b0; b1; b2; b3; b4; b5] [a0; a1; a2; a3; a4; a5] y -> x = vneg y.
Proof. exact Proofs.C03_SE3.se3_bracket_antisym. Qed.
Print Assumptions C03_se3_bracket_antisym.

Theorem C03_se3_jacobi :
  forall a0 a1 a2 a3 a4 a5 b0 b1 b2 b3 b4 b5 c0 c1 c2 c3 c4 c5 bc ca ab x y z,
  Gen.SE3.se3_bracket_rel [b0; b1; b2; b3; b4; b5] [c0; c1; c2; c3; c4; c5] bc -> Gen.SE3.se3_bracket_rel [c0; c1; c2; c3; c4; c5] [a0; a1; a2; a3; a4; a5] ca -> Gen.SE3.se3_bracket_rel [a0; a1; a2; a3; a4; a5] [b0; b1; b2; b3; b4; b5] ab ->
  Gen.SE3.se3_bracket_rel [a0; a1; a2; a3; a4; a5] bc x -> Gen.SE3.se3_bracket_rel [b0; b1; b2; b3; b4; b5] ca y -> Gen.SE3.se3_bracket_rel [c0; c1; c2; c3; c4; c5] ab z ->
  vadd (vadd x y) z = vzero 6.
Proof. exact Proofs.C03_SE3.se3_jacobi. Qed.
Print Assumptions C03_se3_jacobi.

Theorem C03_se3_Ad_hom :
  forall g0 g1 g2 g3 g4 g5 g6 h0 h1 h2 h3 h4 h5 h6 gh A1 A2 A12,
  se3_valid [g0; g1; g2; g3; g4; g5; g6] -> se3_valid [h0; h1; h2; h3; h4; h5; h6] ->
  Gen.SE3.se3_comp_rel [g0; g1; g2; g3; g4; g5; g6] [h0; h1; h2; h3; h4; h5; h6] gh -> Gen.SE3.se3_Ad_rel [g0; g1; g2; g3; g4; g5; g6] A1 -> Gen.SE3.se3_Ad_rel [h0; h1; h2; h3; h4; h5; h6] A2 -> Gen.SE3.se3_Ad_rel gh A12 ->
  A12 = mmul A1 A2.
Proof. exact Proofs.C03_SE3.se3_Ad_hom. Qed.
Print Assumptions C03_se3_Ad_hom.

Theorem C03_c1_hat_doc :
  forall a0 a1 out,
  Gen.C1.c1_hat_rel [a0; a1] out -> out = c1_hat [a0; a1].
Proof. exact Proofs.C03_C1.c1_hat_doc. Qed.
Print Assumptions C03_c1_hat_doc.

Theorem C03_c1_vee_hat :
  forall a0 a1 out,
  Gen.C1.c1_vee_rel (mflat (c1_hat [a0; a1])) out -> out = [a0; a1].
Proof. exact Proofs.C03_C1.c1_vee_hat. Qed.
Print Assumptions C03_c1_vee_hat.

Theorem C03_c1_hat_vee :
  forall a0 a1 A v,
  A = c1_hat [a0; a1] -> Gen.C1.c1_vee_rel (mflat A) v -> c1_hat v = A.
Proof. exact Proofs.C03_C1.c1_hat_vee. Qed.
Print Assumptions C03_c1_hat_vee.

Theorem C03_c1_hat_linear :
  forall s t a0 a1 b0 b1,
  c1_hat (vadd (vscale s [a0; a1]) (vscale t [b0; b1])) = madd (mscale s (c1_hat [a0; a1])) (mscale t (c1_hat [b0; b1])).
Proof. exact Proofs.C03_C1.c1_hat_linear. Qed.
Print Assumptions C03_c1_hat_linear.

Theorem C03_c1_Ad_def :
  forall g0 g1 a0 a1 A,
  c1_valid [g0; g1] -> Gen.C1.c1_Ad_rel [g0; g1] A ->
  mmul (c1_hat (mvec A [a0; a1])) (c1_mat [g0; g1]) = mmul (c1_mat [g0; g1]) (c1_hat [a0; a1]).
Proof. exact Proofs.C03_C1.c1_Ad_def. Qed.
Print Assumptions C03_c1_Ad_def.

Theorem C03_c1_ad_def :
  forall a0 a1 b0 b1 A,
  Gen.C1.c1_ad_rel [a0; a1] A ->
  c1_hat (mvec A [b0; b1]) = comm (c1_hat [a0; a1]) (c1_hat [b0; b1]).
Proof. exact Proofs.C03_C1.c1_ad_def. Qed.
Print Assumptions C03_c1_ad_def.

Theorem C03_c1_bracket_ad :
  forall a0 a1 b0 b1 A out,
  Gen.C1.c1_ad_rel [a0; a1] A -> Gen.C1.c1_bracket_rel [a0; a1] [b0; b1] out -> out = mvec A [b0; b1].
Proof. exact Proofs.C03_C1.c1_bracket_ad. Qed.
Print Assumptions C03_c1_bracket_ad.

Theorem C03_c1_bracket_antisym :
  forall a0 a1 b0 b1 x y,
  Gen.C1.c1_bracket_rel [a0; a1] [b0; b1] x -> Gen.C1.c1_bracket_rel [b0; b1] [a0; a1] y -> x = vneg y.
Proof. exact Proofs.C03_C1.c1_bracket_antisym. Qed.
Print Assumptions C03_c1_bracket_antisym.

Theorem C03_c1_jacobi :
  forall a0 a1 b0 b1 c0 c1 bc ca ab x y z,
  Gen.C1.c1_bracket_rel [b0; b1] [c0; c1] bc -> Gen.C1.c1_bracket_rel [c0; c1] [a0; a1] ca -> Gen.C1.c1_bracket_rel [a0; a1] [b0; b1] ab ->
  Gen.C1.c1_bracket_rel [a0; a1] bc x -> Gen.C1.c1_bracket_rel [b0; b1] ca y -> Gen.C1.c1_bracket_rel [c0; c1] ab z ->
  vadd (vadd x y) z = vzero 2.
Proof. exact Proofs.C03_C1.c1_jacobi. Qed.
Print Assumptions C03_c1_jacobi.

Theorem C03_c1_Ad_hom :
  forall g0 g1 h0 h1 gh A1 A2 A12,
  c1_valid [g0; g1] -> c1_valid [h0; h1] ->
  Gen.C1.c1_comp_rel [g0; g1] [h0; h1] gh -> Gen.C1.c1_Ad_rel [g0; g1] A1 -> Gen.C1.c1_Ad_rel [h0; h1] A2 -> Gen.C1.c1_Ad_rel gh A12 ->
  A12 = mmul A1 A2.
Proof. exact Proofs.C03_C1.c1_Ad_hom. Qed.
Print Assumptions C03_c1_Ad_hom.

Theorem C03_gal_hat_doc :
  forall a0 a1 a2 a3 a4 a5 a6 a7 a8 a9 out,
  Gen.Galilei.gal_hat_rel [a0; a1; a2; a3; a4; a5; a6; a7; a8; a9] out -> out = gal_hat [a0; a1; a2; a3; a4; a5; a6; a7; a8; a9].
Proof. exact Proofs.C03_Galilei.gal_hat_doc. Qed.
Print Assumptions C03_gal_hat_doc.

Theorem C03_gal_vee_hat :
  forall a0 a1 a2 a3 a4 a5 a6 a7 a8 a9 out,
  Gen.Galilei.gal_vee_rel (mflat (gal_hat [a0; a1; a2; a3; a4; a5; a6; a7; a8; a9])) out -> out = [a0; a1; a2; a3; a4; a5; a6; a7; a8; a9].
Proof. exact Proofs.C03_Galilei.gal_vee_hat. Qed.
Print Assumptions C03_gal_vee_hat.

Theorem C03_gal_hat_vee :
  forall a0 a1 a2 a3 a4 a5 a6 a7 a8 a9 A v,
  A = gal_hat [a0; a1; a2; a3; a4; a5; a6; a7; a8; a9] -> Gen.Galilei.gal_vee_rel (mflat A) v -> gal_hat v = A.
Proof. exact Proofs.C03_Galilei.gal_hat_vee. Qed.
Print Assumptions C03_gal_hat_vee.

Theorem C03_gal_hat_linear :
  forall s t a0 a1 a2 a3 a4 a5 a6 a7 a8 a9 b0 b1 b2 b3 b4 b5 b6 b7 b8 b9,
  gal_hat (vadd (vscale s [a0; a1; a2; a3; a4; a5; a6; a7; a8; a9]) (vscale t [b0; b1; b2; b3; b4; b5; b6; b7; b8; b9])) = madd (mscale s (gal_hat [a0; a1; a2; a3; a4; a5; a6; a7; a8; a9])) (mscale t (gal_hat [b0; b1; b2; b3; b4; b5; b6; b7; b8; b9])).
Proof. exact Proofs.C03_Galilei.gal_hat_linear. Qed.
Print Assumptions C03_gal_hat_linear.

Theorem C03_gal_Ad_def :
  forall g0 g1 g2 g3 g4 g5 g6 g7 g8 g9 g10 a0 a1 a2 a3 a4 a5 a6 a7 a8 a9 A,
  gal_valid [g0; g1; g2; g3; g4; g5; g6; g7; g8; g9; g10] -> Gen.Galilei.gal_Ad_rel [g0; g1; g2; g3; g4; g5; g6; g7; g8; g9; g10] A ->
  mmul (gal_hat (mvec A [a0; a1; a2; a3; a4; a5; a6; a7; a8; a9])) (gal_mat [g0; g1; g2; g3; g4; g5; g6; g7; g8; g9; g10]) = mmul (gal_mat [g0; g1; g2; g3; g4; g5; g6; g7; g8; g9; g10]) (gal_hat [a0; a1; a2; a3; a4; a5; a6; a7; a8; a9]).
Proof. exact Proofs.C03_Galilei.gal_Ad_def. Qed.
Print Assumptions C03_gal_Ad_def.

Theorem C03_gal_ad_def :
  forall a0 a1 a2 a3 a4 a5 a6 a7 a8 a9 b0 b1 b2 b3 b4 b5 b6 b7 b8 b9 A,
  Gen.Galilei.gal_ad_rel [a0; a1; a2; a3; a4; a5; a6; a7; a8; a9] A ->
  gal_hat (mvec A [b0; b1; b2; b3; b4; b5; b6; b7; b8; b9]) = comm (gal_hat [a0; a1; a2; a3; a4; a5; a6; a7; a8; a9]) (gal_hat [b0; b1; b2; b3; b4; b5; b6; b7; b8; b9]).
Proof. exact Proofs.C03_Galilei.gal_ad_def. Qed.
Print Assumptions C03_gal_ad_def.

Theorem C03_gal_bracket_ad :
  forall a0 a1 a2 a3 a4 a5 a6 a7 a8 a9 b0 b1 b2 b3 b4 b5 b6 b7 b8 b9 A out,
  Gen.Galilei.gal_ad_rel [a0; a1; a2; a3; a4; a5; a6; a7; a8; a9] A -> Gen.Galilei.gal_bracket_rel [a0; a1; a2; a3; a4; a5; a6; a7; a8; a9] [b0; b1; b2; b3; b4; b5; b6; b7; b8; b9] out -> out = mvec A [b0; b1; b2; b3; b4; b5; b6; b7; b8; b9].
Proof. exact Proofs.C03_Galilei.gal_bracket_ad. Qed.
Print Assumptions C03_gal_bracket_ad.

Theorem C03_gal_bracket_antisym :
  forall a0 a1 a2 a3 a4 a5 a6 a7 a8 a9 b0 b1 b2 b3 b4 b5 b6 b7 b8 b9 x y,
  Gen.Galilei.gal_bracket_rel [a0; a1; a2; a3; a4; a5; a6; a7; a8; a9] [b0; b1; b2; b3; b4; b5; b6; b7; b8; b9] x -> Gen.Galilei.gal_bracket_rel [b0; b1; b2; b3; b4; b5; b6; b7; b8; b9] [a0; a1; a2; a3; a4; a5; a6; a7; a8; a9] y -> x = vneg y.
Proof. exact Proofs.C03_Galilei.gal_bracket_antisym. Qed.
Print Assumptions C03_gal_bracket_antisym.

Theorem C03_gal_jacobi :
  forall a0 a1 a2 a3 a4 a5 a6 a7 a8 a9 b0 b1 b2 b3 b4 b5 b6 b7 b8 b9 c0 c1 c2 c3 c4 c5 c6 c7 c8 c9 bc ca ab x y z,
  Gen.Galilei.gal_bracket_rel [b0; b1; b2; b3; b4; b5; b6; b7; b8; b9] [c0; c1; c2; c3; c4; c5; c6; c7; c8; c9] bc -> Gen.Galilei.gal_bracket_rel [c0; c1; c2; c3; c4; c5; c6; c7; c8; c9] [a0; a1; a2; a3; a4; a5; a6; a7; a8; a9] ca -> Gen.Galilei.gal_bracket_rel [a0; a1; a2; a3; a4; a5; a6; a7; a8; a9] [b0; b1; b2; b3; b4; b5; b6; b7; b8; b9] ab ->
  Gen.Galilei.gal_bracket_rel [a0; a1; a2; a3; a4; a5; a6; a7; a8; a9] bc x -> Gen.Galilei.gal_bracket_rel [b0; b1; b2; b3; b4; b5; b6; b7; b8; b9] ca y -> Gen.Galilei.gal_bracket_rel [c0; c1; c2; c3; c4; c5; c6; c7; c8; c9] ab z ->
  vadd (vadd x y) z = vzero 10.
Proof. exact Proofs.C03_Galilei.gal_jacobi. Qed.
Print Assumptions C03_gal_jacobi.

Theorem C03_gal_Ad_hom :
  forall g0 g1 g2 g3 g4 g5 g6 g7 g8 g9 g10 h0 h1 h2 h3 h4 h5 h6 h7 h8 h9 h10 gh A1 A2 A12,
  gal_valid [g0; g1; g2; g3; g4; g5; g6; g7; g8; g9; g10] -> gal_valid [h0; h1; h2; h3; h4; h5; h6; h7; h8; h9; h10] ->
  Gen.Galilei.gal_comp_rel [g0; g1; g2; g3; g4; g5; g6; g7; g8; g9; g10] [h0; h1; h2; h3; h4; h5; h6; h7; h8; h9; h10] gh -> Gen.Galilei.gal_Ad_rel [g0; g1; g2; g3; g4; g5; g6; g7; g8; g9; g10] A1 -> Gen.Galilei.gal_Ad_rel [h0; h1; h2; h3; h4; h5; h6; h7; h8; h9; h10] A2 -> Gen.Galilei.gal_Ad_rel gh A12 ->
  A12 = mmul A1 A2.
Proof. exact Proofs.C03_Galilei.gal_Ad_hom. Qed.
Print Assumptions C03_gal_Ad_hom.

Theorem C03_sek1_hat_doc :
  forall a0 a1 a2 a3 a4 a5 out,
  Gen.SEK3_1.sek1_hat_rel [a0; a1; a2; a3; a4; a5] out -> out = sek_hat 1 [a0; a1; a2; a3; a4; a5].
Proof. exact Proofs.C03_SEK3_1.sek1_hat_doc. Qed.
Print Assumptions C03_sek1_hat_doc.

Theorem C03_sek1_vee_hat :
  forall a0 a1 a2 a3 a4 a5 out,
  Gen.SEK3_1.sek1_vee_rel (mflat (sek_hat 1 [a0; a1; a2; a3; a4; a5])) out -> out = [a0; a1; a2; a3; a4; a5].
Proof. exact Proofs.C03_SEK3_1.sek1_vee_hat. Qed.
Print Assumptions C03_sek1_vee_hat.

Theorem C03_sek1_hat_vee :
  forall a0 a1 a2 a3 a4 a5 A v,
  A = sek_hat 1 [a0; a1; a2; a3; a4; a5] -> Gen.SEK3_1.sek1_vee_rel (mflat A) v -> sek_hat 1 v = A.
Proof. exact Proofs.C03_SEK3_1.sek1_hat_vee. Qed.
Print Assumptions C03_sek1_hat_vee.

Theorem C03_sek1_hat_linear :
  forall s t a0 a1 a2 a3 a4 a5 b0 b1 b2 b3 b4 b5,
  sek_hat 1 (vadd (vscale s [a0; a1; a2; a3; a4; a5]) (vscale t [b0; b1; b2; b3; b4; b5])) = madd (mscale s (sek_hat 1 [a0; a1; a2; a3; a4; a5])) (mscale t (sek_hat 1 [b0; b1; b2; b3; b4; b5])).
Proof. exact Proofs.C03_SEK3_1.sek1_hat_linear. Qed.
Print Assumptions C03_sek1_hat_linear.

Theorem C03_sek1_Ad_def :
  forall g0 g1 g2 g3 g4 g5 g6 a0 a1 a2 a3 a4 a5 A,
  sek_valid 1 [g0; g1; g2; g3; g4; g5; g6] -> Gen.SEK3_1.sek1_Ad_rel [g0; g1; g2; g3; g4; g5; g6] A ->
  mmul (sek_hat 1 (mvec A [a0; a1; a2; a3; a4; a5])) (sek_mat 1 [g0; g1; g2; g3; g4; g5; g6]) = mmul (sek_mat 1 [g0; g1; g2; g3; g4; g5; g6]) (sek_hat 1 [a0; a1; a2; a3; a4; a5]).
Proof. exact Proofs.C03_SEK3_1.sek1_Ad_def. Qed.
Print Assumptions C03_sek1_Ad_def.

Theorem C03_sek1_ad_def :
  forall a0 a1 a2 a3 a4 a5 b0 b1 b2 b3 b4 b5 A,
  Gen.SEK3_1.sek1_ad_rel [a0; a1; a2; a3; a4; a5] A ->
  sek_hat 1 (mvec A [b0; b1; b2; b3; b4; b5]) = comm (sek_hat 1 [a0; a1; a2; a3; a4; a5]) (sek_hat 1 [b0; b1; b2; b3; b4; b5]).
Proof. exact Proofs.C03_SEK3_1.sek1_ad_def. Qed.
Print Assumptions C03_sek1_ad_def.

Theorem C03_sek1_bracket_ad :
  forall a0 a1 a2 a3 a4 a5 b0 b1 b2 b3 b4 b5 A out,
  Gen.SEK3_1.sek1_ad_rel [a0; a1; a2; a3; a4; a5] A -> Gen.SEK3_1.sek1_bracket_rel [a0; a1; a2; a3; a4; a5] [b0; b1; b2; b3; b4; b5] out -> out = mvec A [b0; b1; b2; b3; b4; b5].
Proof. exact Proofs.C03_SEK3_1.sek1_bracket_ad. Qed.
Print Assumptions C03_sek1_bracket_ad.

Theorem C03_sek1_bracket_antisym :
  forall a0 a1 a2 a3 a4 a5 b0 b1 b2 b3 b4 b5 x y,
  Gen.SEK3_1.sek1_bracket_rel [a0; a1; a2; a3; a4; a5] [b0; b1; b2; b3; b4; b5] x -> Gen.SEK3_1.sek1_bracket_rel [b0; b1; b2; b3; b4; b5] [a0; a1; a2; a3; a4; a5] y -> x = vneg y.
Proof. exact Proofs.C03_SEK3_1.sek1_bracket_antisym. Qed.
Print Assumptions C03_sek1_bracket_antisym.

Theorem C03_sek1_jacobi :
  forall a0 a1 a2 a3 a4 a5 b0 b1 b2 b3 b4 b5 c0 c1 c2 c3 c4 c5 bc ca ab x y z,
  Gen.SEK3_1.sek1_bracket_rel [b0; b1; b2; b3; b4; b5] [c0; c1; c2; c3; c4; c5] bc -> Gen.SEK3_1.sek1_bracket_rel [c0; c1; c2; c3; c4; c5] [a0; a1; a2; a3; a4; a5] ca -> Gen.SEK3_1.sek1_bracket_rel [a0; a1; a2; a3; a4; a5] [b0; b1; b2; b3; b4; b5] ab ->
  Gen.SEK3_1.sek1_bracket_rel [a0; a1; a2; a3; a4; a5] bc x -> Gen.SEK3_1.sek1_bracket_rel [b0; b1; b2; b3; b4; b5] ca y -> Gen.SEK3_1.sek1_bracket_rel [c0; c1; c2; c3; c4; c5] ab z ->
  vadd (vadd x y) z = vzero 6.
Proof. exact Proofs.C03_SEK3_1.sek1_jacobi. Qed.
Print Assumptions C03_sek1_jacobi.

Theorem C03_sek1_Ad_hom :
  forall g0 g1 g2 g3 g4 g5 g6 h0 h1 h2 h3 h4 h5 h6 gh A1 A2 A12,
  sek_valid 1 [g0; g1; g2; g3; g4; g5; g6] -> sek_valid 1 [h0; h1; h2; h3; h4; h5; h6] ->
  Gen.SEK3_1.sek1_comp_rel [g0; g1; g2; g3; g4; g5; g6] [h0; h1; h2; h3; h4; h5; h6] gh -> Gen.SEK3_1.sek1_Ad_rel [g0; g1; g2; g3; g4; g5; g6] A1 -> Gen.SEK3_1.sek1_Ad_rel [h0; h1; h2; h3; h4; h5; h6] A2 -> Gen.SEK3_1.sek1_Ad_rel gh A12 ->
  A12 = mmul A1 A2.
Proof. exact Proofs.C03_SEK3_1.sek1_Ad_hom. Qed.
Print Assumptions C03_sek1_Ad_hom.

Theorem C03_sek2_hat_doc :
  forall a0 a1 a2 a3 a4 a5 a6 a7 a8 out,
  Gen.SEK3_2.sek2_hat_rel [a0; a1; a2; a3; a4; a5; a6; a7; a8] out -> out = sek_hat 2 [a0; a1; a2; a3; a4; a5; a6; a7; a8].
Proof. exact Proofs.C03_SEK3_2.sek2_hat_doc. Qed.
Print Assumptions C03_sek2_hat_doc.

Theorem C03_sek2_vee_hat :
  forall a0 a1 a2 a3 a4 a5 a6 a7 a8 out,
  Gen.SEK3_2.sek2_vee_rel (mflat (sek_hat 2 [a0; a1; a2; a3; a4; a5; a6; a7; a8])) out -> out = [a0; a1; a2; a3; a4; a5; a6; a7; a8].
Proof. exact Proofs.C03_SEK3_2.sek2_vee_hat. Qed.
Print Assumptions C03_sek2_vee_hat.

Theorem C03_sek2_hat_vee :
  forall a0 a1 a2 a3 a4 a5 a6 a7 a8 A v,
  A = sek_hat 2 [a0; a1; a2; a3; a4; a5; a6; a7; a8] -> Gen.SEK3_2.sek2_vee_rel (mflat A) v -> sek_hat 2 v = A.
Proof. exact Proofs.C03_SEK3_2.sek2_hat_vee. Qed.
Print Assumptions C03_sek2_hat_vee.

Theorem C03_sek2_hat_linear :
  forall s t a0 a1 a2 a3 a4 a5 a6 a7 a8 b0 b1 b2 b3 b4 b5 b6 b7 b8,
  sek_hat 2 (vadd (vscale s [a0; a1; a2; a3; a4; a5; a6; a7; a8]) (vscale t [b0; b1; b2; b3; b4; b5; b6; b7; b8])) = madd (mscale s (sek_hat 2 [a0; a1; a2; a3; a4; a5; a6; a7; a8])) (mscale t (sek_hat 2 [b0; b1; b2; b3; b4; b5; b6; b7; b8])).
Proof. exact Proofs.C03_SEK3_2.sek2_hat_linear. Qed.
Print Assumptions C03_sek2_hat_linear.

Theorem C03_sek2_Ad_def :
  forall g0 g1 g2 g3 g4 g5 g6 g7 g8 g9 a0 a1 a2 a3 a4 a5 a6 a7 a8 A,
  sek_valid 2 [g0; g1; g2; g3; g4; g5; g6; g7; g8; g9] -> Gen.SEK3_2.sek2_Ad_rel [g0; g1; g2; g3; g4; g5; g6; g7; g8; g9] A ->
  mmul (sek_hat 2 (mvec A [a0; a1; a2; a3; a4; a5; a6; a7; a8])) (sek_mat 2 [g0; g1; g2; g3; g4; g5; g6; g7; g8; g9]) = mmul (sek_mat 2 [g0; g1; g2; g3; g4; g5; g6; g7; g8; g9]) (sek_hat 2 [a0; a1; a2; a3; a4; a5; a6; a7; a8]).
Proof. exact Proofs.C03_SEK3_2.sek2_Ad_def. Qed.
Print Assumptions C03_sek2_Ad_def.

Theorem C03_sek2_ad_def :
  forall a0 a1 a2 a3 a4 a5 a6 a7 a8 b0 b1 b2 b3 b4 b5 b6 b7 b8 A,
  Gen.SEK3_2.sek2_ad_rel [a0; a1; a2; a3; a4; a5; a6; a7; a8] A ->
  sek_hat 2 (mvec A [b0; b1; b2; b3; b4; b5; b6; b7; b8]) = comm (sek_hat 2 [a0; a1; a2; a3; a4; a5; a6; a7; a8]) (sek_hat 2 [b0; b1; b2; b3; b4; b5; b6; b7; b8]).
Proof. exact Proofs.C03_SEK3_2.sek2_ad_def. Qed.
Print Assumptions C03_sek2_ad_def.

Theorem C03_sek2_bracket_ad :
  forall a0 a1 a2 a3 a4 a5 a6 a7 a8 b0 b1 b2 b3 b4 b5 b6 b7 b8 A out,
  Gen.SEK3_2.sek2_ad_rel [a0; a1; a2; a3; a4; a5; a6; a7; a8] A -> Gen.SEK3_2.sek2_bracket_rel [a0; a1; a2; a3; a4; a5; a6; a7; a8] [b0; b1; b2; b3; b4; b5; b6; b7; b8] out -> out = mvec A [b0; b1; b2; b3; b4; b5; b6; b7; b8].
Proof. exact Proofs.C03_SEK3_2.sek2_bracket_ad. Qed.
Print Assumptions C03_sek2_bracket_ad.

Theorem C03_sek2_bracket_antisym :
  forall a0 a1 a2 a3 a4 a5 a6 a7 a8 b0 b1 b2 b3 b4 b5 b6 b7 b8 x y,
  Gen.SEK3_2.sek2_bracket_rel [a0; a1; a2; a3; a4; a5; a6; a7; a8] [b0; b1; b2; b3; b4; b5; b6; b7; b8] x -> Gen.SEK3_2.sek2_bracket_rel [b0; b1; b2; b3; b4; b5; b6; b7; b8] [a0; a1; a2; a3; a4; a5; a6; a7; a8] y -> x = vneg y.
Proof. exact Proofs.C03_SEK3_2.sek2_bracket_antisym. Qed.
Print Assumptions C03_sek2_bracket_antisym.

Theorem C03_sek2_jacobi :
  forall a0 a1 a2 a3 a4 a5 a6 a7 a8 b0 b1 b2 b3 b4 b5 b6 b7 b8 c0 c1 c2 c3 c4 c5 c6 c7 c8 bc ca ab x y z,
  Gen.SEK3_2.sek2_bracket_rel [b0; b1; b2; b3; b4; b5; b6; b7; b8] [c0; c1; c2; c3; c4; c5; c6; c7; c8] bc -> Gen.SEK3_2.sek2_bracket_rel [c0; c1; c2; c3; c4; c5; c6; c7; c8] [a0; a1; a2; a3; a4; a5; a6; a7; a8] ca -> Gen.SEK3_2.sek2_bracket_rel [a0; a1; a2; a3; a4; a5; a6; a7; a8] [b0; b1; b2; b3; b4; b5; b6; b7; b8] ab ->
  Gen.SEK3_2.sek2_bracket_rel [a0; a1; a2; a3; a4; a5; a6; a7; a8] bc x -> Gen.SEK3_2.sek2_bracket_rel [b0; b1; b2; b3; b4; b5; b6; b7; b8] ca y -> Gen.SEK3_2.sek2_bracket_rel [c0; c1; c2; c3; c4; c5; c6; c7; c8] ab z ->
  vadd (vadd x y) z = vzero 9.
Proof. exact Proofs.C03_SEK3_2.sek2_jacobi. Qed.
Print Assumptions C03_sek2_jacobi.

Theorem C03_sek2_Ad_hom :
  forall g0 g1 g2 g3 g4 g5 g6 g7 g8 g9 h0 h1 h2 h3 h4 h5 h6 h7 h8 h9 gh A1 A2 A12,
  sek_valid 2 [g0; g1; g2; g3; g4; g5; g6; g7; g8; g9] -> sek_valid 2 [h0; h1; h2; h3; h4; h5; h6; h7; h8; h9] ->
  Gen.SEK3_2.sek2_comp_rel [g0; g1; g2; g3; g4; g5; g6; g7; g8; g9] [h0; h1; h2; h3; h4; h5; h6; h7; h8; h9] gh -> Gen.SEK3_2.sek2_Ad_rel [g0; g1; g2; g3; g4; g5; g6; g7; g8; g9] A1 -> Gen.SEK3_2.sek2_Ad_rel [h0; h1; h2; h3; h4; h5; h6; h7; h8; h9] A2 -> Gen.SEK3_2.sek2_Ad_rel gh A12 ->
  A12 = mmul A1 A2.
Proof. exact Proofs.C03_SEK3_2.sek2_Ad_hom. Qed.
Print Assumptions C03_sek2_Ad_hom.

Theorem C03_sek3_hat_doc :
  forall a0 a1 a2 a3 a4 a5 a6 a7 a8 a9 a10 a11 out,
  Gen.SEK3_3.sek3_hat_rel [a0; a1; a2; a3; a4; a5; a6; a7; a8; a9; a10; a11] out -> out = sek_hat 3 [a0; a1; a2; a3; a4; a5; a6; a7; a8; a9; a10; a11].
Proof. exact Proofs.C03_SEK3_3.sek3_hat_doc. Qed.
Print Assumptions C03_sek3_hat_doc.

Theorem C03_sek3_vee_hat :
  forall a0 a1 a2 a3 a4 a5 a6 a7 a8 a9 a10 a11 out,
  Gen.SEK3_3.sek3_vee_rel (mflat (sek_hat 3 [a0; a1; a2; a3; a4; a5; a6; a7; a8; a9; a10; a11])) out -> out = [a0; a1; a2; a3; a4; a5; a6; a7; a8; a9; a10; a11].
Proof. exact Proofs.C03_SEK3_3.sek3_vee_hat. Qed.
Print Assumptions C03_sek3_vee_hat.

Theorem C03_sek3_hat_vee :
  forall a0 a1 a2 a3 a4 a5 a6 a7 a8 a9 a10 a11 A v,
  A = sek_hat 3 [a0; a1; a2; a3; a4; a5; a6; a7; a8; a9; a10; a11] -> Gen.SEK3_3.sek3_vee_rel (mflat A) v -> sek_hat 3 v = A.
Proof. exact Proofs.C03_SEK3_3.sek3_hat_vee. Qed.
Print Assumptions C03_sek3_hat_vee.

Theorem C03_sek3_hat_linear :
  forall s t a0 a1 a2 a3 a4 a5 a6 a7 a8 a9 a10 a11 b0 b1 b2 b3 b4 b5 b6 b7 b8 b9 b10 b11,
  sek_hat 3 (vadd (vscale s [a0; a1; a2; a3; a4; a5; a6; a7; a8; a9; a10; a11]) (vscale t [b0; b1; b2; b3; b4; b5; b6; b7; b8; b9; b10; b11])) = madd (mscale s (sek_hat 3 [a0; a1; a2; a3; a4; a5; a6; a7; a8; a9; a10; a11])) (mscale t (sek_hat 3 [b0; b1; b2; b3; b4; b5; b6; b7; b8; b9; b10; b11])).
Proof. exact Proofs.C03_SEK3_3.sek3_hat_linear. Qed.
Print Assumptions C03_sek3_hat_linear.

Theorem C03_sek3_Ad_def :
  forall g0 g1 g2 g3 g4 g5 g6 g7 g8 g9 g10 g11 g12 a0 a1 a2 a3 a4 a5 a6 a7 a8 a9 a10 a11 A,
  sek_valid 3 [g0; g1; g2; g3; g4; g5; g6; g7; g8; g9; g10; g11; g12] -> Gen.SEK3_3.sek3_Ad_rel [g0; g1; g2; g3; g4; g5; g6; g7; g8; g9; g10; g11; g12] A ->
  mmul (sek_hat 3 (mvec A [a0; a1; a2; a3; a4; a5; a6; a7; a8; a9; a10; a11])) (sek_mat 3 [g0; g1; g2; g3; g4; g5; g6; g7; g8; g9; g10; g11; g12]) = mmul (sek_mat 3 [g0; g1; g2; g3; g4; g5; g6; g7; g8; g9; g10; g11; g12]) (sek_hat 3 [a0; a1; a2; a3; a4; a5; a6; a7; a8; a9; a10; a11]).
Proof. exact Proofs.C03_SEK3_3.sek3_Ad_def. Qed.
Print Assumptions C03_sek3_Ad_def.

Theorem C03_sek3_ad_def :
  forall a0 a1 a2 a3 a4 a5 a6 a7 a8 a9 a10 a11 b0 b1 b2 b3 b4 b5 b6 b7 b8 b9 b10 b11 A,
  Gen.SEK3_3.sek3_ad_rel [a0; a1; a2; a3; a4; a5; a6; a7; a8; a9; a10; a11] A ->
  sek_hat 3 (mvec A [b0; b1; b2; b3; b4; b5; b6; b7; b8; b9; b10; b11]) = comm (sek_hat 3 [a0; a1; a2; a3; a4; a5; a6; a7; a8; a9; a10; a11]) (sek_hat 3 [b0; b1; b2; b3; b4; b5; b6; b7; b8; b9; b10; b11]).
Proof. exact Proofs.C03_SEK3_3.sek3_ad_def. Qed.
Print Assumptions C03_sek3_ad_def.

Theorem C03_sek3_bracket_ad :
  forall a0 a1 a2 a3 a4 a5 a6 a7 a8 a9 a10 a11 b0 b1 b2 b3 b4 b5 b6 b7 b8 b9 b10 b11 A out,
  Gen.SEK3_3.sek3_ad_rel [a0; a1; a2; a3; a4; a5; a6; a7; a8; a9; a10; a11] A -> Gen.SEK3_3.sek3_bracket_rel [a0; a1; a2; a3; a4; a5; a6; a7; a8; a9; a10; a11] [b0; b1; b2; b3; b4; b5; b6; b7; b8; b9; b10; b11] out -> out = mvec A [b0; b1; b2; b3; b4; b5; b6; b7; b8; b9; b10; b11].
Proof. exact Proofs.C03_SEK3_3.sek3_bracket_ad. Qed.
Print Assumptions C03_sek3_bracket_ad.

Theorem C03_sek3_bracket_antisym :
  forall a0 a1 a2 a3 a4 a5 a6 a7 a8 a9 a10 a11 b0 b1 b2 b3 b4 b5 b6 b7 b8 b9 b10 b11 x y,
  Gen.SEK3_3.sek3_bracket_rel [a0; a1; a2; a3; a4; a5; a6; a7; a8; a9; a10; a11] [b0; b1; b2; b3; b4; b5; b6; b7; b8; b9; b10; b11] x -> Gen.SEK3_3.sek3_bracket_rel [b0; b1; b2; b3; b4; b5; b6; b7; b8; b9; b10; b11] [a0; a1; a2; a3; a4; a5; a6; a7; a8; a9; a10; a11] y -> x = vneg y.
Proof. exact Proofs.C03_SEK3_3.sek3_bracket_antisym. Qed.
Print Assumptions C03_sek3_bracket_antisym.

Theorem C03_sek3_jacobi :
  forall a0 a1 a2 a3 a4 a5 a6 a7 a8 a9 a10 a11 b0 b1 b2 b3 b4 b5 b6 b7 b8 b9 b10 b11 c0 c1 c2 c3 c4 c5 c6 c7 c8 c9 c10 c11 bc ca ab x y z,
  Gen.SEK3_3.sek3_bracket_rel [b0; b1; b2; b3; b4; b5; b6; b7; b8; b9; b10; b11] [c0; c1; c2; c3; c4; c5; c6; c7; c8; c9; c10; c11] bc -> Gen.SEK3_3.sek3_bracket_rel [c0; c1; c2; c3; c4; c5; c6; c7; c8; c9; c10; c11] [a0; a1; a2; a3; a4; a5; a6; a7; a8; a9; a10; a11] ca -> Gen.SEK3_3.sek3_bracket_rel [a0; a1; a2; a3; a4; a5; a6; a7; a8; a9; a10; a11] [b0; b1; b2; b3; b4; b5; b6; b7; b8; b9; b10; b11] ab ->
  Gen.SEK3_3.sek3_bracket_rel [a0; a1; a2; a3; a4; a5; a6; a7; a8; a9; a10; a11] bc x -> Gen.SEK3_3.sek3_bracket_rel [b0; b1; b2; b3; b4; b5; b6; b7; b8; b9; b10; b11] ca y -> Gen.SEK3_3.sek3_bracket_rel [c0; c1; c2; c3; c4; c5; c6; c7; c8; c9; c10; c11] ab z ->
  vadd (vadd x y) z = vzero 12.
Proof. exact Proofs.C03_SEK3_3.sek3_jacobi. Qed.
Print Assumptions C03_sek3_jacobi.

Theorem C03_sek3_Ad_hom :
  forall g0 g1 g2 g3 g4 g5 g6 g7 g8 g9 g10 g11 g12 h0 h1 h2 h3 h4 h5 h6 h7 h8 h9 h10 h11 h12 gh A1 A2 A12,
  sek_valid 3 [g0; g1; g2; g3; g4; g5; g6; g7; g8; g9; g10; g11; g12] -> sek_valid 3 [h0; h1; h2; h3; h4; h5; h6; h7; h8; h9; h10; h11; h12] ->
  Gen.SEK3_3.sek3_comp_rel [g0; g1; g2; g3; g4; g5; g6; g7; g8; g9; g10; g11; g12] [h0; h1; h2; h3; h4; h5; h6; h7; h8; h9; h10; h11; h12] gh -> Gen.SEK3_3.sek3_Ad_rel [g0; g1; g2; g3; g4; g5; g6; g7; g8; g9; g10; g11; g12] A1 -> Gen.SEK3_3.sek3_Ad_rel [h0; h1; h2; h3; h4; h5; h6; h7; h8; h9; h10; h11; h12] A2 -> Gen.SEK3_3.sek3_Ad_rel gh A12 ->
  A12 = mmul A1 A2.
Proof. exact Proofs.C03_SEK3_3.sek3_Ad_hom. Qed.
Print Assumptions C03_sek3_Ad_hom.

