(* Property C03, "Ad(exp(a)) is the matrix exponential of ad(a)": property theorems only (SO3, SE2). *)
From Coq Require Import Reals List Lra.
From SV Require Import Base.GenPrelude Base.Mat Base.Trig Doc.Groups Doc.Exp.
From SV Require Gen.SO3 Gen.SE2.
From SV Require Proofs.C03_AdExp.
Import ListNotations.
Local Open Scope R_scope.

Theorem C03_so3_Ad_exp_mexp : forall a0 a1 a2 g A B,
  eps2 < a0*a0 + a1*a1 + a2*a2 -> Gen.SO3.so3_exp_rel [a0; a1; a2] g -> Gen.SO3.so3_Ad_rel g A ->
  Gen.SO3.so3_ad_rel [a0; a1; a2] B -> is_mexp 3 B A.
Proof. exact Proofs.C03_AdExp.so3_Ad_exp_mexp. Qed.
Print Assumptions C03_so3_Ad_exp_mexp.

Theorem C03_se2_Ad_exp_mexp : forall a0 a1 a2 g A B,
  eps2 < a2 * a2 -> Gen.SE2.se2_exp_rel [a0; a1; a2] g -> Gen.SE2.se2_Ad_rel g A ->
  Gen.SE2.se2_ad_rel [a0; a1; a2] B -> is_mexp 3 B A.
Proof. exact Proofs.C03_AdExp.se2_Ad_exp_mexp. Qed.
Print Assumptions C03_se2_Ad_exp_mexp.
