(* Property C03, thorough tier: Ad(exp(a)) is the matrix exponential of ad(a) for SE3. *)
From Coq Require Import Reals List Lra.
From SV Require Import Base.GenPrelude Base.Mat Base.Trig Doc.Groups Doc.Exp.
From SV Require Gen.SE3.
From SV Require Proofs.C03_AdExpSE3.
Import ListNotations.
Local Open Scope R_scope.

Theorem C03_se3_Ad_exp_mexp : forall a0 a1 a2 a3 a4 a5 g A B,
  eps2 < a3*a3 + a4*a4 + a5*a5 -> Gen.SE3.se3_exp_rel [a0; a1; a2; a3; a4; a5] g -> Gen.SE3.se3_Ad_rel g A ->
  Gen.SE3.se3_ad_rel [a0; a1; a2; a3; a4; a5] B -> is_mexp 6 B A.
Proof. exact Proofs.C03_AdExpSE3.se3_Ad_exp_mexp. Qed.
Print Assumptions C03_se3_Ad_exp_mexp.
