(* Property C04: the property theorems and nothing else .  Each is closed by the lemma of the same
   name proved in Proofs/C04_<unit>.v against the generated model; Print Assumptions lists the axioms. *)
From Coq Require Import Reals List Lra.
From Coquelicot Require Import Coquelicot.
From SV Require Import Base.Trig Doc.Exp.
From SV Require Gen.SE2 Gen.SO3 Gen.SE3.
From SV Require Import Base.GenPrelude Base.Mat Doc.Groups.
From SV Require Proofs.C04_SE2.
From SV Require Proofs.C04_SO3.
Import ListNotations.
Local Open Scope R_scope.

Theorem C04_se2_dr_expinv_is_inverse :
  forall a0 a1 a2, eps2 < a2 * a2 -> sin a2 <> 0 ->
  mmul (Gen.SE2.se2_dr_expinv_p0 [a0; a1; a2]) (Gen.SE2.se2_dr_exp_p1 [a0; a1; a2]) = mI 3 /\
  mmul (Gen.SE2.se2_dr_exp_p1 [a0; a1; a2]) (Gen.SE2.se2_dr_expinv_p0 [a0; a1; a2]) = mI 3.
Proof. exact Proofs.C04_SE2.se2_dr_expinv_is_inverse. Qed.
Print Assumptions C04_se2_dr_expinv_is_inverse.

Theorem C04_se2_dr_exp_is_jacobian :
  forall a0 a1 a2 k r c, eps2 < a2 * a2 -> (k < 3)%nat -> (r < 3)%nat -> (c < 3)%nat ->
  is_derive (fun x => mget (se2_flow (match k with O => [x; a1; a2] | S O => [a0; x; a2] | _ => [a0; a1; x] end) 1) r c) (nth k [a0; a1; a2] 0)
            (mget (mmul (se2_flow [a0; a1; a2] 1) (se2_hat (mcol (Gen.SE2.se2_dr_exp_p1 [a0; a1; a2]) k))) r c).
Proof. exact Proofs.C04_SE2.se2_dr_exp_is_jacobian. Qed.
Print Assumptions C04_se2_dr_exp_is_jacobian.

Theorem C04_se2_dl_exp_is_Ad_dr_exp :
  forall a0 a1 a2 g A J L, eps2 < a2 * a2 ->
  Gen.SE2.se2_exp_rel [a0; a1; a2] g -> Gen.SE2.se2_Ad_rel g A -> Gen.SE2.se2_dr_exp_rel [a0; a1; a2] J -> Gen.SE2.se2_dl_exp_rel [a0; a1; a2] L ->
  L = mmul A J.
Proof. exact Proofs.C04_SE2.se2_dl_exp_is_Ad_dr_exp. Qed.
Print Assumptions C04_se2_dl_exp_is_Ad_dr_exp.

Theorem C04_so3_dr_expinv_is_inverse :
  forall a0 a1 a2, eps2 < a0*a0 + a1*a1 + a2*a2 -> sin (sqrt (a0*a0 + a1*a1 + a2*a2)) <> 0 ->
  mmul (Gen.SO3.so3_dr_expinv_p0 [a0; a1; a2]) (Gen.SO3.so3_dr_exp_p1 [a0; a1; a2]) = mI 3 /\
  mmul (Gen.SO3.so3_dr_exp_p1 [a0; a1; a2]) (Gen.SO3.so3_dr_expinv_p0 [a0; a1; a2]) = mI 3.
Proof. exact Proofs.C04_SO3.so3_dr_expinv_is_inverse. Qed.
Print Assumptions C04_so3_dr_expinv_is_inverse.

Theorem C04_so3_dr_exp_is_jacobian :
  forall a0 a1 a2 k r c, eps2 < a0*a0 + a1*a1 + a2*a2 -> (k < 3)%nat -> (r < 3)%nat -> (c < 3)%nat ->
  is_derive (fun x => mget (so3_flow (match k with O => [x; a1; a2] | S O => [a0; x; a2] | _ => [a0; a1; x] end) 1) r c) (nth k [a0; a1; a2] 0)
            (mget (mmul (so3_flow [a0; a1; a2] 1) (so3_hat (mcol (Gen.SO3.so3_dr_exp_p1 [a0; a1; a2]) k))) r c).
Proof. exact Proofs.C04_SO3.so3_dr_exp_is_jacobian. Qed.
Print Assumptions C04_so3_dr_exp_is_jacobian.

Theorem C04_so3_dl_exp_is_Ad_dr_exp :
  forall a0 a1 a2 g A J L, eps2 < a0*a0 + a1*a1 + a2*a2 ->
  Gen.SO3.so3_exp_rel [a0; a1; a2] g -> Gen.SO3.so3_Ad_rel g A -> Gen.SO3.so3_dr_exp_rel [a0; a1; a2] J -> Gen.SO3.so3_dl_exp_rel [a0; a1; a2] L ->
  L = mmul A J.
Proof. exact Proofs.C04_SO3.so3_dl_exp_is_Ad_dr_exp. Qed.
Print Assumptions C04_so3_dl_exp_is_Ad_dr_exp.

