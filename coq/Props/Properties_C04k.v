(* C04: series side of the switch for dr_exp and dl_exp (SO3, SE2, SE3): property theorems only. *)
From Coq Require Import Reals List Lra.
From SV Require Import Base.GenPrelude Base.Mat Base.Trig Base.Kernels Base.KernelQ Doc.Groups.
From SV Require Gen.SE2 Gen.SE3 Gen.SO3.
From SV Require Proofs.C04_TruncK.
Import ListNotations.
Local Open Scope R_scope.

Theorem C04_so3_dr_exp_trunc : forall a0 a1 a2,
  0 < a0*a0 + a1*a1 + a2*a2 < eps2 ->
  let th2 := a0*a0 + a1*a1 + a2*a2 in let th := sqrt th2 in
  Gen.SO3.so3_dr_exp_p0 [a0; a1; a2] = Proofs.C04_TruncK.so3_dr_exp_form (T_cos2 th2) (T_sin3 th2) a0 a1 a2 /\
  Gen.SO3.so3_dr_exp_p1 [a0; a1; a2] = Proofs.C04_TruncK.so3_dr_exp_form (K_cos2 th) (K_sin3 th) a0 a1 a2 /\
  Gen.SO3.so3_dr_exp_c0 [a0; a1; a2] /\
  0 <= K_cos2 th - T_cos2 th2 <= eps2 * eps2 * eps2 / 40320 /\
  0 <= K_sin3 th - T_sin3 th2 <= eps2 * eps2 * eps2 / 362880.
Proof. exact Proofs.C04_TruncK.so3_dr_exp_trunc. Qed.
Print Assumptions C04_so3_dr_exp_trunc.

Theorem C04_so3_dl_exp_trunc : forall a0 a1 a2,
  0 < a0*a0 + a1*a1 + a2*a2 < eps2 ->
  let th2 := a0*a0 + a1*a1 + a2*a2 in let th := sqrt th2 in
  Gen.SO3.so3_dl_exp_p0 [a0; a1; a2] = Proofs.C04_TruncK.so3_dl_exp_form (T_cos2 th2) (T_sin3 th2) a0 a1 a2 /\
  Gen.SO3.so3_dl_exp_p1 [a0; a1; a2] = Proofs.C04_TruncK.so3_dl_exp_form (K_cos2 th) (K_sin3 th) a0 a1 a2 /\
  Gen.SO3.so3_dl_exp_c0 [a0; a1; a2] /\
  0 <= K_cos2 th - T_cos2 th2 <= eps2 * eps2 * eps2 / 40320 /\
  0 <= K_sin3 th - T_sin3 th2 <= eps2 * eps2 * eps2 / 362880.
Proof. exact Proofs.C04_TruncK.so3_dl_exp_trunc. Qed.
Print Assumptions C04_so3_dl_exp_trunc.

Theorem C04_se2_dr_exp_trunc : forall a0 a1 a2,
  0 < a2*a2 < eps2 ->
  let th2 := a2*a2 in let th := sqrt th2 in
  Gen.SE2.se2_dr_exp_p0 [a0; a1; a2] = Proofs.C04_TruncK.se2_dr_exp_form (T_cos2 th2) (T_sin3 th2) a0 a1 a2 /\
  Gen.SE2.se2_dr_exp_p1 [a0; a1; a2] = Proofs.C04_TruncK.se2_dr_exp_form (K_cos2 th) (K_sin3 th) a0 a1 a2 /\
  Gen.SE2.se2_dr_exp_c0 [a0; a1; a2] /\
  0 <= K_cos2 th - T_cos2 th2 <= eps2 * eps2 * eps2 / 40320 /\
  0 <= K_sin3 th - T_sin3 th2 <= eps2 * eps2 * eps2 / 362880.
Proof. exact Proofs.C04_TruncK.se2_dr_exp_trunc. Qed.
Print Assumptions C04_se2_dr_exp_trunc.

Theorem C04_se2_dl_exp_trunc : forall a0 a1 a2,
  0 < a2*a2 < eps2 ->
  let th2 := a2*a2 in let th := sqrt th2 in
  Gen.SE2.se2_dl_exp_p0 [a0; a1; a2] = Proofs.C04_TruncK.se2_dl_exp_form (T_cos2 th2) (T_sin3 th2) a0 a1 a2 /\
  Gen.SE2.se2_dl_exp_p1 [a0; a1; a2] = Proofs.C04_TruncK.se2_dl_exp_form (K_cos2 th) (K_sin3 th) a0 a1 a2 /\
  Gen.SE2.se2_dl_exp_c0 [a0; a1; a2] /\
  0 <= K_cos2 th - T_cos2 th2 <= eps2 * eps2 * eps2 / 40320 /\
  0 <= K_sin3 th - T_sin3 th2 <= eps2 * eps2 * eps2 / 362880.
Proof. exact Proofs.C04_TruncK.se2_dl_exp_trunc. Qed.
Print Assumptions C04_se2_dl_exp_trunc.

Theorem C04_se3_dr_exp_trunc : forall a0 a1 a2 a3 a4 a5,
  0 < a3*a3 + a4*a4 + a5*a5 < eps2 ->
  let th2 := a3*a3 + a4*a4 + a5*a5 in let th := sqrt th2 in
  Gen.SE3.se3_dr_exp_p0 [a0; a1; a2; a3; a4; a5] = Proofs.C04_TruncK.se3_dr_exp_form (T_cos2 th2) (T_sin3 th2) (T_cos4 th2) (T_sin5 th2) a0 a1 a2 a3 a4 a5 /\
  Gen.SE3.se3_dr_exp_p1 [a0; a1; a2; a3; a4; a5] = Proofs.C04_TruncK.se3_dr_exp_form (K_cos2 th) (K_sin3 th) (K_cos4 th) (K_sin5 th) a0 a1 a2 a3 a4 a5 /\
  Gen.SE3.se3_dr_exp_c0 [a0; a1; a2; a3; a4; a5] /\
  0 <= K_cos2 th - T_cos2 th2 <= eps2 * eps2 * eps2 / 40320 /\
  0 <= K_sin3 th - T_sin3 th2 <= eps2 * eps2 * eps2 / 362880 /\
  - (eps2 * eps2 * eps2 / 3628800) <= K_cos4 th - T_cos4 th2 <= 0 /\
  - (eps2 * eps2 * eps2 / 39916800) <= K_sin5 th - T_sin5 th2 <= 0.
Proof. exact Proofs.C04_TruncK.se3_dr_exp_trunc. Qed.
Print Assumptions C04_se3_dr_exp_trunc.

Theorem C04_se3_dl_exp_trunc : forall a0 a1 a2 a3 a4 a5,
  0 < a3*a3 + a4*a4 + a5*a5 < eps2 ->
  let th2 := a3*a3 + a4*a4 + a5*a5 in let th := sqrt th2 in
  Gen.SE3.se3_dl_exp_p0 [a0; a1; a2; a3; a4; a5] = Proofs.C04_TruncK.se3_dl_exp_form (T_cos2 th2) (T_sin3 th2) (T_cos4 th2) (T_sin5 th2) a0 a1 a2 a3 a4 a5 /\
  Gen.SE3.se3_dl_exp_p1 [a0; a1; a2; a3; a4; a5] = Proofs.C04_TruncK.se3_dl_exp_form (K_cos2 th) (K_sin3 th) (K_cos4 th) (K_sin5 th) a0 a1 a2 a3 a4 a5 /\
  Gen.SE3.se3_dl_exp_c0 [a0; a1; a2; a3; a4; a5] /\
  0 <= K_cos2 th - T_cos2 th2 <= eps2 * eps2 * eps2 / 40320 /\
  0 <= K_sin3 th - T_sin3 th2 <= eps2 * eps2 * eps2 / 362880 /\
  - (eps2 * eps2 * eps2 / 3628800) <= K_cos4 th - T_cos4 th2 <= 0 /\
  - (eps2 * eps2 * eps2 / 39916800) <= K_sin5 th - T_sin5 th2 <= 0.
Proof. exact Proofs.C04_TruncK.se3_dl_exp_trunc. Qed.
Print Assumptions C04_se3_dl_exp_trunc.
