(* C04: series side of the switch for dr_exp and dl_exp (Galilei, SE_K_3<1..3>): property theorems only. *)
From Coq Require Import Reals List Lra.
From SV Require Import Base.GenPrelude Base.Mat Base.Trig Base.Kernels Base.KernelQ Doc.Groups.
From SV Require Gen.Galilei Gen.SEK3_1 Gen.SEK3_2 Gen.SEK3_3.
From SV Require Proofs.C04_TruncK2.
Import ListNotations.
Local Open Scope R_scope.

Theorem C04_gal_dr_exp_trunc : forall a0 a1 a2 a3 a4 a5 a6 a7 a8 a9,
  0 < a7*a7 + a8*a8 + a9*a9 < eps2 ->
  let th2 := a7*a7 + a8*a8 + a9*a9 in let th := sqrt th2 in
  Gen.Galilei.gal_dr_exp_p0 [a0; a1; a2; a3; a4; a5; a6; a7; a8; a9] = Proofs.C04_TruncK2.gal_dr_exp_form (T_cos2 th2) (T_sin3 th2) (T_cos4 th2) (T_cos6 th2) (T_sin5 th2) a0 a1 a2 a3 a4 a5 a6 a7 a8 a9 /\
  Gen.Galilei.gal_dr_exp_p1 [a0; a1; a2; a3; a4; a5; a6; a7; a8; a9] = Proofs.C04_TruncK2.gal_dr_exp_form (K_cos2 th) (K_sin3 th) (K_cos4 th) (K_cos6 th) (K_sin5 th) a0 a1 a2 a3 a4 a5 a6 a7 a8 a9 /\
  Gen.Galilei.gal_dr_exp_c0 [a0; a1; a2; a3; a4; a5; a6; a7; a8; a9] /\
  0 <= K_cos2 th - T_cos2 th2 <= eps2 * eps2 * eps2 / 40320 /\
  0 <= K_sin3 th - T_sin3 th2 <= eps2 * eps2 * eps2 / 362880 /\
  - (eps2 * eps2 * eps2 / 3628800) <= K_cos4 th - T_cos4 th2 <= 0 /\
  0 <= K_cos6 th - T_cos6 th2 <= eps2 * eps2 * eps2 / 479001600 /\
  - (eps2 * eps2 * eps2 / 39916800) <= K_sin5 th - T_sin5 th2 <= 0.
Proof. exact Proofs.C04_TruncK2.gal_dr_exp_trunc. Qed.
Print Assumptions C04_gal_dr_exp_trunc.

Theorem C04_gal_dl_exp_trunc : forall a0 a1 a2 a3 a4 a5 a6 a7 a8 a9,
  0 < a7*a7 + a8*a8 + a9*a9 < eps2 ->
  let th2 := a7*a7 + a8*a8 + a9*a9 in let th := sqrt th2 in
  Gen.Galilei.gal_dl_exp_p0 [a0; a1; a2; a3; a4; a5; a6; a7; a8; a9] = Proofs.C04_TruncK2.gal_dl_exp_form (T_cos2 th2) (T_sin3 th2) (T_cos4 th2) (T_cos6 th2) (T_sin5 th2) a0 a1 a2 a3 a4 a5 a6 a7 a8 a9 /\
  Gen.Galilei.gal_dl_exp_p1 [a0; a1; a2; a3; a4; a5; a6; a7; a8; a9] = Proofs.C04_TruncK2.gal_dl_exp_form (K_cos2 th) (K_sin3 th) (K_cos4 th) (K_cos6 th) (K_sin5 th) a0 a1 a2 a3 a4 a5 a6 a7 a8 a9 /\
  Gen.Galilei.gal_dl_exp_c0 [a0; a1; a2; a3; a4; a5; a6; a7; a8; a9] /\
  0 <= K_cos2 th - T_cos2 th2 <= eps2 * eps2 * eps2 / 40320 /\
  0 <= K_sin3 th - T_sin3 th2 <= eps2 * eps2 * eps2 / 362880 /\
  - (eps2 * eps2 * eps2 / 3628800) <= K_cos4 th - T_cos4 th2 <= 0 /\
  0 <= K_cos6 th - T_cos6 th2 <= eps2 * eps2 * eps2 / 479001600 /\
  - (eps2 * eps2 * eps2 / 39916800) <= K_sin5 th - T_sin5 th2 <= 0.
Proof. exact Proofs.C04_TruncK2.gal_dl_exp_trunc. Qed.
Print Assumptions C04_gal_dl_exp_trunc.

Theorem C04_sek1_dr_exp_trunc : forall a0 a1 a2 a3 a4 a5,
  0 < a3*a3 + a4*a4 + a5*a5 < eps2 ->
  let th2 := a3*a3 + a4*a4 + a5*a5 in let th := sqrt th2 in
  Gen.SEK3_1.sek1_dr_exp_p0 [a0; a1; a2; a3; a4; a5] = Proofs.C04_TruncK2.sek1_dr_exp_form (T_cos2 th2) (T_sin3 th2) (T_cos4 th2) (T_sin5 th2) a0 a1 a2 a3 a4 a5 /\
  Gen.SEK3_1.sek1_dr_exp_p1 [a0; a1; a2; a3; a4; a5] = Proofs.C04_TruncK2.sek1_dr_exp_form (K_cos2 th) (K_sin3 th) (K_cos4 th) (K_sin5 th) a0 a1 a2 a3 a4 a5 /\
  Gen.SEK3_1.sek1_dr_exp_c0 [a0; a1; a2; a3; a4; a5] /\
  0 <= K_cos2 th - T_cos2 th2 <= eps2 * eps2 * eps2 / 40320 /\
  0 <= K_sin3 th - T_sin3 th2 <= eps2 * eps2 * eps2 / 362880 /\
  - (eps2 * eps2 * eps2 / 3628800) <= K_cos4 th - T_cos4 th2 <= 0 /\
  - (eps2 * eps2 * eps2 / 39916800) <= K_sin5 th - T_sin5 th2 <= 0.
Proof. exact Proofs.C04_TruncK2.sek1_dr_exp_trunc. Qed.
Print Assumptions C04_sek1_dr_exp_trunc.

Theorem C04_sek1_dl_exp_trunc : forall a0 a1 a2 a3 a4 a5,
  0 < a3*a3 + a4*a4 + a5*a5 < eps2 ->
  let th2 := a3*a3 + a4*a4 + a5*a5 in let th := sqrt th2 in
  Gen.SEK3_1.sek1_dl_exp_p0 [a0; a1; a2; a3; a4; a5] = Proofs.C04_TruncK2.sek1_dl_exp_form (T_cos2 th2) (T_sin3 th2) (T_cos4 th2) (T_sin5 th2) a0 a1 a2 a3 a4 a5 /\
  Gen.SEK3_1.sek1_dl_exp_p1 [a0; a1; a2; a3; a4; a5] = Proofs.C04_TruncK2.sek1_dl_exp_form (K_cos2 th) (K_sin3 th) (K_cos4 th) (K_sin5 th) a0 a1 a2 a3 a4 a5 /\
  Gen.SEK3_1.sek1_dl_exp_c0 [a0; a1; a2; a3; a4; a5] /\
  0 <= K_cos2 th - T_cos2 th2 <= eps2 * eps2 * eps2 / 40320 /\
  0 <= K_sin3 th - T_sin3 th2 <= eps2 * eps2 * eps2 / 362880 /\
  - (eps2 * eps2 * eps2 / 3628800) <= K_cos4 th - T_cos4 th2 <= 0 /\
  - (eps2 * eps2 * eps2 / 39916800) <= K_sin5 th - T_sin5 th2 <= 0.
Proof. exact Proofs.C04_TruncK2.sek1_dl_exp_trunc. Qed.
Print Assumptions C04_sek1_dl_exp_trunc.

Theorem C04_sek2_dr_exp_trunc : forall a0 a1 a2 a3 a4 a5 a6 a7 a8,
  0 < a6*a6 + a7*a7 + a8*a8 < eps2 ->
  let th2 := a6*a6 + a7*a7 + a8*a8 in let th := sqrt th2 in
  Gen.SEK3_2.sek2_dr_exp_p0 [a0; a1; a2; a3; a4; a5; a6; a7; a8] = Proofs.C04_TruncK2.sek2_dr_exp_form (T_cos2 th2) (T_sin3 th2) (T_cos4 th2) (T_sin5 th2) a0 a1 a2 a3 a4 a5 a6 a7 a8 /\
  Gen.SEK3_2.sek2_dr_exp_p1 [a0; a1; a2; a3; a4; a5; a6; a7; a8] = Proofs.C04_TruncK2.sek2_dr_exp_form (K_cos2 th) (K_sin3 th) (K_cos4 th) (K_sin5 th) a0 a1 a2 a3 a4 a5 a6 a7 a8 /\
  Gen.SEK3_2.sek2_dr_exp_c0 [a0; a1; a2; a3; a4; a5; a6; a7; a8] /\
  0 <= K_cos2 th - T_cos2 th2 <= eps2 * eps2 * eps2 / 40320 /\
  0 <= K_sin3 th - T_sin3 th2 <= eps2 * eps2 * eps2 / 362880 /\
  - (eps2 * eps2 * eps2 / 3628800) <= K_cos4 th - T_cos4 th2 <= 0 /\
  - (eps2 * eps2 * eps2 / 39916800) <= K_sin5 th - T_sin5 th2 <= 0.
Proof. exact Proofs.C04_TruncK2.sek2_dr_exp_trunc. Qed.
Print Assumptions C04_sek2_dr_exp_trunc.

Theorem C04_sek2_dl_exp_trunc : forall a0 a1 a2 a3 a4 a5 a6 a7 a8,
  0 < a6*a6 + a7*a7 + a8*a8 < eps2 ->
  let th2 := a6*a6 + a7*a7 + a8*a8 in let th := sqrt th2 in
  Gen.SEK3_2.sek2_dl_exp_p0 [a0; a1; a2; a3; a4; a5; a6; a7; a8] = Proofs.C04_TruncK2.sek2_dl_exp_form (T_cos2 th2) (T_sin3 th2) (T_cos4 th2) (T_sin5 th2) a0 a1 a2 a3 a4 a5 a6 a7 a8 /\
  Gen.SEK3_2.sek2_dl_exp_p1 [a0; a1; a2; a3; a4; a5; a6; a7; a8] = Proofs.C04_TruncK2.sek2_dl_exp_form (K_cos2 th) (K_sin3 th) (K_cos4 th) (K_sin5 th) a0 a1 a2 a3 a4 a5 a6 a7 a8 /\
  Gen.SEK3_2.sek2_dl_exp_c0 [a0; a1; a2; a3; a4; a5; a6; a7; a8] /\
  0 <= K_cos2 th - T_cos2 th2 <= eps2 * eps2 * eps2 / 40320 /\
  0 <= K_sin3 th - T_sin3 th2 <= eps2 * eps2 * eps2 / 362880 /\
  - (eps2 * eps2 * eps2 / 3628800) <= K_cos4 th - T_cos4 th2 <= 0 /\
  - (eps2 * eps2 * eps2 / 39916800) <= K_sin5 th - T_sin5 th2 <= 0.
Proof. exact Proofs.C04_TruncK2.sek2_dl_exp_trunc. Qed.
Print Assumptions C04_sek2_dl_exp_trunc.

Theorem C04_sek3_dr_exp_trunc : forall a0 a1 a2 a3 a4 a5 a6 a7 a8 a9 a10 a11,
  0 < a9*a9 + a10*a10 + a11*a11 < eps2 ->
  let th2 := a9*a9 + a10*a10 + a11*a11 in let th := sqrt th2 in
  Gen.SEK3_3.sek3_dr_exp_p0 [a0; a1; a2; a3; a4; a5; a6; a7; a8; a9; a10; a11] = Proofs.C04_TruncK2.sek3_dr_exp_form (T_cos2 th2) (T_sin3 th2) (T_cos4 th2) (T_sin5 th2) a0 a1 a2 a3 a4 a5 a6 a7 a8 a9 a10 a11 /\
  Gen.SEK3_3.sek3_dr_exp_p1 [a0; a1; a2; a3; a4; a5; a6; a7; a8; a9; a10; a11] = Proofs.C04_TruncK2.sek3_dr_exp_form (K_cos2 th) (K_sin3 th) (K_cos4 th) (K_sin5 th) a0 a1 a2 a3 a4 a5 a6 a7 a8 a9 a10 a11 /\
  Gen.SEK3_3.sek3_dr_exp_c0 [a0; a1; a2; a3; a4; a5; a6; a7; a8; a9; a10; a11] /\
  0 <= K_cos2 th - T_cos2 th2 <= eps2 * eps2 * eps2 / 40320 /\
  0 <= K_sin3 th - T_sin3 th2 <= eps2 * eps2 * eps2 / 362880 /\
  - (eps2 * eps2 * eps2 / 3628800) <= K_cos4 th - T_cos4 th2 <= 0 /\
  - (eps2 * eps2 * eps2 / 39916800) <= K_sin5 th - T_sin5 th2 <= 0.
Proof. exact Proofs.C04_TruncK2.sek3_dr_exp_trunc. Qed.
Print Assumptions C04_sek3_dr_exp_trunc.

Theorem C04_sek3_dl_exp_trunc : forall a0 a1 a2 a3 a4 a5 a6 a7 a8 a9 a10 a11,
  0 < a9*a9 + a10*a10 + a11*a11 < eps2 ->
  let th2 := a9*a9 + a10*a10 + a11*a11 in let th := sqrt th2 in
  Gen.SEK3_3.sek3_dl_exp_p0 [a0; a1; a2; a3; a4; a5; a6; a7; a8; a9; a10; a11] = Proofs.C04_TruncK2.sek3_dl_exp_form (T_cos2 th2) (T_sin3 th2) (T_cos4 th2) (T_sin5 th2) a0 a1 a2 a3 a4 a5 a6 a7 a8 a9 a10 a11 /\
  Gen.SEK3_3.sek3_dl_exp_p1 [a0; a1; a2; a3; a4; a5; a6; a7; a8; a9; a10; a11] = Proofs.C04_TruncK2.sek3_dl_exp_form (K_cos2 th) (K_sin3 th) (K_cos4 th) (K_sin5 th) a0 a1 a2 a3 a4 a5 a6 a7 a8 a9 a10 a11 /\
  Gen.SEK3_3.sek3_dl_exp_c0 [a0; a1; a2; a3; a4; a5; a6; a7; a8; a9; a10; a11] /\
  0 <= K_cos2 th - T_cos2 th2 <= eps2 * eps2 * eps2 / 40320 /\
  0 <= K_sin3 th - T_sin3 th2 <= eps2 * eps2 * eps2 / 362880 /\
  - (eps2 * eps2 * eps2 / 3628800) <= K_cos4 th - T_cos4 th2 <= 0 /\
  - (eps2 * eps2 * eps2 / 39916800) <= K_sin5 th - T_sin5 th2 <= 0.
Proof. exact Proofs.C04_TruncK2.sek3_dl_exp_trunc. Qed.
Print Assumptions C04_sek3_dl_exp_trunc.
