(* Property C04, series side of the small-angle switch for dr_expinv (SO3, SE2): property theorems only. *)
From Coq Require Import Reals List Lra.
From SV Require Import Base.GenPrelude Base.Mat Base.Trig Base.KernelA Doc.Groups.
From SV Require Gen.SO3 Gen.SE2.
From SV Require Proofs.C04_Trunc.
Import ListNotations.
Local Open Scope R_scope.

(* the kernel: closed form minus its two-term series, for every 0 < x <= 1 *)
Theorem C04_KA_trunc : forall x, 0 < x <= 1 -> 0 <= K_A x - T_A (x*x) <= x^4 / 25000.
Proof. exact Base.KernelA.KA_trunc. Qed.
Print Assumptions C04_KA_trunc.

Theorem C04_so3_dr_expinv_trunc : forall a0 a1 a2,
  0 < a0*a0 + a1*a1 + a2*a2 < eps2 ->
  Gen.SO3.so3_dr_expinv_p1 [a0; a1; a2] = Proofs.C04_Trunc.jinv_form (T_A (a0*a0 + a1*a1 + a2*a2)) (so3_hat [a0; a1; a2]) 3 /\
  Gen.SO3.so3_dr_expinv_p0 [a0; a1; a2] = Proofs.C04_Trunc.jinv_form (K_A (sqrt (a0*a0 + a1*a1 + a2*a2))) (so3_hat [a0; a1; a2]) 3 /\
  Gen.SO3.so3_dr_expinv_c1 [a0; a1; a2] /\
  0 <= K_A (sqrt (a0*a0 + a1*a1 + a2*a2)) - T_A (a0*a0 + a1*a1 + a2*a2) <= eps2 * eps2 / 25000.
Proof. exact Proofs.C04_Trunc.so3_dr_expinv_trunc. Qed.
Print Assumptions C04_so3_dr_expinv_trunc.

Theorem C04_se2_dr_expinv_trunc : forall a0 a1 a2,
  0 < a2*a2 < eps2 ->
  Gen.SE2.se2_dr_expinv_p1 [a0; a1; a2] = Proofs.C04_Trunc.jinv_form (T_A (a2*a2)) (Gen.SE2.se2_ad_p0 [a0; a1; a2]) 3 /\
  Gen.SE2.se2_dr_expinv_p0 [a0; a1; a2] = Proofs.C04_Trunc.jinv_form (K_A a2) (Gen.SE2.se2_ad_p0 [a0; a1; a2]) 3 /\
  Gen.SE2.se2_dr_expinv_c1 [a0; a1; a2] /\
  0 <= K_A a2 - T_A (a2*a2) <= eps2 * eps2 / 25000.
Proof. exact Proofs.C04_Trunc.se2_dr_expinv_trunc. Qed.
Print Assumptions C04_se2_dr_expinv_trunc.
