(* Property C04: the property theorems and nothing else (thorough tier: the most expensive instances).  Each is closed by the lemma of the same
   name proved in Proofs/C04_<unit>.v against the generated model; Print Assumptions lists the axioms. *)
From Coq Require Import Reals List Lra.
From Coquelicot Require Import Coquelicot.
From SV Require Import Base.Trig Doc.Exp.
From SV Require Gen.SE2 Gen.SO3 Gen.SE3.
From SV Require Import Base.GenPrelude Base.Mat Doc.Groups.
From SV Require Proofs.C04_SE3.
Import ListNotations.
Local Open Scope R_scope.

Theorem C04_se3_dr_exp_closed_path :
  forall a0 a1 a2 a3 a4 a5 out, eps2 < a3*a3 + a4*a4 + a5*a5 -> Gen.SE3.se3_dr_exp_rel [a0; a1; a2; a3; a4; a5] out -> out = Gen.SE3.se3_dr_exp_p1 [a0; a1; a2; a3; a4; a5].
Proof. exact Proofs.C04_SE3.se3_dr_exp_closed_path. Qed.
Print Assumptions C04_se3_dr_exp_closed_path.

Theorem C04_se3_dr_exp_is_jacobian :
  forall a0 a1 a2 a3 a4 a5 k r c, eps2 < a3*a3 + a4*a4 + a5*a5 -> (k < 6)%nat -> (r < 4)%nat -> (c < 4)%nat ->
  is_derive (fun x => mget (se3_flow (match k with O => [x; a1; a2; a3; a4; a5] | S O => [a0; x; a2; a3; a4; a5] | S (S O) => [a0; a1; x; a3; a4; a5] | S (S (S O)) => [a0; a1; a2; x; a4; a5] | S (S (S (S O))) => [a0; a1; a2; a3; x; a5] | _ => [a0; a1; a2; a3; a4; x] end) 1) r c) (nth k [a0; a1; a2; a3; a4; a5] 0)
            (mget (mmul (se3_flow [a0; a1; a2; a3; a4; a5] 1) (se3_hat (mcol (Gen.SE3.se3_dr_exp_p1 [a0; a1; a2; a3; a4; a5]) k))) r c).
Proof. exact Proofs.C04_SE3.se3_dr_exp_is_jacobian. Qed.
Print Assumptions C04_se3_dr_exp_is_jacobian.

