(* Property C05: the property theorems and nothing else .  Each is closed by the lemma of the same
   name proved in Proofs/C05_<unit>.v against the generated model; Print Assumptions lists the axioms. *)
From Coq Require Import Reals List Lra.
From Coquelicot Require Import Coquelicot.
From SV Require Import Base.Trig Doc.Exp.
From SV Require Gen.SE2 Gen.SO3.
From SV Require Import Base.GenPrelude Base.Mat Doc.Groups.
From SV Require Proofs.C05_SE2.
From SV Require Proofs.C05_SO3.
Import ListNotations.
Local Open Scope R_scope.

Theorem C05_se2_dr_exp_closed_path :
  forall a0 a1 a2 out, eps2 < a2 * a2 -> Gen.SE2.se2_dr_exp_rel [a0; a1; a2] out -> out = Gen.SE2.se2_dr_exp_p1 [a0; a1; a2].
Proof. exact Proofs.C05_SE2.se2_dr_exp_closed_path. Qed.
Print Assumptions C05_se2_dr_exp_closed_path.

Theorem C05_se2_dr_expinv_closed_path :
  forall a0 a1 a2 out, eps2 < a2 * a2 -> Gen.SE2.se2_dr_expinv_rel [a0; a1; a2] out -> out = Gen.SE2.se2_dr_expinv_p0 [a0; a1; a2].
Proof. exact Proofs.C05_SE2.se2_dr_expinv_closed_path. Qed.
Print Assumptions C05_se2_dr_expinv_closed_path.

Theorem C05_se2_d2r_exp_closed_path :
  forall a0 a1 a2 out, eps2 < a2 * a2 -> Gen.SE2.se2_d2r_exp_rel [a0; a1; a2] out -> out = Gen.SE2.se2_d2r_exp_p0 [a0; a1; a2].
Proof. exact Proofs.C05_SE2.se2_d2r_exp_closed_path. Qed.
Print Assumptions C05_se2_d2r_exp_closed_path.

Theorem C05_se2_d2r_expinv_closed_path :
  forall a0 a1 a2 out, eps2 < a2 * a2 -> Gen.SE2.se2_d2r_expinv_rel [a0; a1; a2] out -> out = Gen.SE2.se2_d2r_expinv_p0 [a0; a1; a2].
Proof. exact Proofs.C05_SE2.se2_d2r_expinv_closed_path. Qed.
Print Assumptions C05_se2_d2r_expinv_closed_path.

Theorem C05_se2_d2r_exp_is_derivative_0 :
  forall a0 a1 a2 i j, eps2 < a2 * a2 -> (i < 3)%nat -> (j < 3)%nat ->
  is_derive (fun x => mget (Gen.SE2.se2_dr_exp_p1 [x; a1; a2]) i j) a0
            (mget (Gen.SE2.se2_d2r_exp_p0 [a0; a1; a2]) j (3 * i + 0)).
Proof. exact Proofs.C05_SE2.se2_d2r_exp_is_derivative_0. Qed.
Print Assumptions C05_se2_d2r_exp_is_derivative_0.

Theorem C05_se2_d2r_exp_is_derivative_1 :
  forall a0 a1 a2 i j, eps2 < a2 * a2 -> (i < 3)%nat -> (j < 3)%nat ->
  is_derive (fun x => mget (Gen.SE2.se2_dr_exp_p1 [a0; x; a2]) i j) a1
            (mget (Gen.SE2.se2_d2r_exp_p0 [a0; a1; a2]) j (3 * i + 1)).
Proof. exact Proofs.C05_SE2.se2_d2r_exp_is_derivative_1. Qed.
Print Assumptions C05_se2_d2r_exp_is_derivative_1.

Theorem C05_se2_d2r_exp_is_derivative_2 :
  forall a0 a1 a2 i j, eps2 < a2 * a2 -> (i < 3)%nat -> (j < 3)%nat ->
  is_derive (fun x => mget (Gen.SE2.se2_dr_exp_p1 [a0; a1; x]) i j) a2
            (mget (Gen.SE2.se2_d2r_exp_p0 [a0; a1; a2]) j (3 * i + 2)).
Proof. exact Proofs.C05_SE2.se2_d2r_exp_is_derivative_2. Qed.
Print Assumptions C05_se2_d2r_exp_is_derivative_2.

Theorem C05_se2_d2r_expinv_is_derivative_0 :
  forall a0 a1 a2 i j, eps2 < a2 * a2 -> sin a2 <> 0 -> (i < 3)%nat -> (j < 3)%nat ->
  is_derive (fun x => mget (Gen.SE2.se2_dr_expinv_p0 [x; a1; a2]) i j) a0
            (mget (Gen.SE2.se2_d2r_expinv_p0 [a0; a1; a2]) j (3 * i + 0)).
Proof. exact Proofs.C05_SE2.se2_d2r_expinv_is_derivative_0. Qed.
Print Assumptions C05_se2_d2r_expinv_is_derivative_0.

Theorem C05_se2_d2r_expinv_is_derivative_1 :
  forall a0 a1 a2 i j, eps2 < a2 * a2 -> sin a2 <> 0 -> (i < 3)%nat -> (j < 3)%nat ->
  is_derive (fun x => mget (Gen.SE2.se2_dr_expinv_p0 [a0; x; a2]) i j) a1
            (mget (Gen.SE2.se2_d2r_expinv_p0 [a0; a1; a2]) j (3 * i + 1)).
Proof. exact Proofs.C05_SE2.se2_d2r_expinv_is_derivative_1. Qed.
Print Assumptions C05_se2_d2r_expinv_is_derivative_1.

Theorem C05_se2_d2r_expinv_is_derivative_2 :
  forall a0 a1 a2 i j, eps2 < a2 * a2 -> sin a2 <> 0 -> (i < 3)%nat -> (j < 3)%nat ->
  is_derive (fun x => mget (Gen.SE2.se2_dr_expinv_p0 [a0; a1; x]) i j) a2
            (mget (Gen.SE2.se2_d2r_expinv_p0 [a0; a1; a2]) j (3 * i + 2)).
Proof. exact Proofs.C05_SE2.se2_d2r_expinv_is_derivative_2. Qed.
Print Assumptions C05_se2_d2r_expinv_is_derivative_2.

Theorem C05_so3_dr_exp_closed_path :
  forall a0 a1 a2 out, eps2 < a0*a0 + a1*a1 + a2*a2 -> Gen.SO3.so3_dr_exp_rel [a0; a1; a2] out -> out = Gen.SO3.so3_dr_exp_p1 [a0; a1; a2].
Proof. exact Proofs.C05_SO3.so3_dr_exp_closed_path. Qed.
Print Assumptions C05_so3_dr_exp_closed_path.

Theorem C05_so3_dr_expinv_closed_path :
  forall a0 a1 a2 out, eps2 < a0*a0 + a1*a1 + a2*a2 -> Gen.SO3.so3_dr_expinv_rel [a0; a1; a2] out -> out = Gen.SO3.so3_dr_expinv_p0 [a0; a1; a2].
Proof. exact Proofs.C05_SO3.so3_dr_expinv_closed_path. Qed.
Print Assumptions C05_so3_dr_expinv_closed_path.

Theorem C05_so3_d2r_exp_closed_path :
  forall a0 a1 a2 out, eps2 < a0*a0 + a1*a1 + a2*a2 -> Gen.SO3.so3_d2r_exp_rel [a0; a1; a2] out -> out = Gen.SO3.so3_d2r_exp_p0 [a0; a1; a2].
Proof. exact Proofs.C05_SO3.so3_d2r_exp_closed_path. Qed.
Print Assumptions C05_so3_d2r_exp_closed_path.

Theorem C05_so3_d2r_expinv_closed_path :
  forall a0 a1 a2 out, eps2 < a0*a0 + a1*a1 + a2*a2 -> Gen.SO3.so3_d2r_expinv_rel [a0; a1; a2] out -> out = Gen.SO3.so3_d2r_expinv_p0 [a0; a1; a2].
Proof. exact Proofs.C05_SO3.so3_d2r_expinv_closed_path. Qed.
Print Assumptions C05_so3_d2r_expinv_closed_path.

Theorem C05_so3_d2r_exp_is_derivative_0 :
  forall a0 a1 a2 i j, eps2 < a0*a0 + a1*a1 + a2*a2 -> (i < 3)%nat -> (j < 3)%nat ->
  is_derive (fun x => mget (Gen.SO3.so3_dr_exp_p1 [x; a1; a2]) i j) a0
            (mget (Gen.SO3.so3_d2r_exp_p0 [a0; a1; a2]) j (3 * i + 0)).
Proof. exact Proofs.C05_SO3.so3_d2r_exp_is_derivative_0. Qed.
Print Assumptions C05_so3_d2r_exp_is_derivative_0.

Theorem C05_so3_d2r_exp_is_derivative_1 :
  forall a0 a1 a2 i j, eps2 < a0*a0 + a1*a1 + a2*a2 -> (i < 3)%nat -> (j < 3)%nat ->
  is_derive (fun x => mget (Gen.SO3.so3_dr_exp_p1 [a0; x; a2]) i j) a1
            (mget (Gen.SO3.so3_d2r_exp_p0 [a0; a1; a2]) j (3 * i + 1)).
Proof. exact Proofs.C05_SO3.so3_d2r_exp_is_derivative_1. Qed.
Print Assumptions C05_so3_d2r_exp_is_derivative_1.

Theorem C05_so3_d2r_exp_is_derivative_2 :
  forall a0 a1 a2 i j, eps2 < a0*a0 + a1*a1 + a2*a2 -> (i < 3)%nat -> (j < 3)%nat ->
  is_derive (fun x => mget (Gen.SO3.so3_dr_exp_p1 [a0; a1; x]) i j) a2
            (mget (Gen.SO3.so3_d2r_exp_p0 [a0; a1; a2]) j (3 * i + 2)).
Proof. exact Proofs.C05_SO3.so3_d2r_exp_is_derivative_2. Qed.
Print Assumptions C05_so3_d2r_exp_is_derivative_2.

Theorem C05_so3_d2r_expinv_is_derivative_0 :
  forall a0 a1 a2 i j, eps2 < a0*a0 + a1*a1 + a2*a2 -> sin (sqrt (a0*a0 + a1*a1 + a2*a2)) <> 0 -> (i < 3)%nat -> (j < 3)%nat ->
  is_derive (fun x => mget (Gen.SO3.so3_dr_expinv_p0 [x; a1; a2]) i j) a0
            (mget (Gen.SO3.so3_d2r_expinv_p0 [a0; a1; a2]) j (3 * i + 0)).
Proof. exact Proofs.C05_SO3.so3_d2r_expinv_is_derivative_0. Qed.
Print Assumptions C05_so3_d2r_expinv_is_derivative_0.

Theorem C05_so3_d2r_expinv_is_derivative_1 :
  forall a0 a1 a2 i j, eps2 < a0*a0 + a1*a1 + a2*a2 -> sin (sqrt (a0*a0 + a1*a1 + a2*a2)) <> 0 -> (i < 3)%nat -> (j < 3)%nat ->
  is_derive (fun x => mget (Gen.SO3.so3_dr_expinv_p0 [a0; x; a2]) i j) a1
            (mget (Gen.SO3.so3_d2r_expinv_p0 [a0; a1; a2]) j (3 * i + 1)).
Proof. exact Proofs.C05_SO3.so3_d2r_expinv_is_derivative_1. Qed.
Print Assumptions C05_so3_d2r_expinv_is_derivative_1.

Theorem C05_so3_d2r_expinv_is_derivative_2 :
  forall a0 a1 a2 i j, eps2 < a0*a0 + a1*a1 + a2*a2 -> sin (sqrt (a0*a0 + a1*a1 + a2*a2)) <> 0 -> (i < 3)%nat -> (j < 3)%nat ->
  is_derive (fun x => mget (Gen.SO3.so3_dr_expinv_p0 [a0; a1; x]) i j) a2
            (mget (Gen.SO3.so3_d2r_expinv_p0 [a0; a1; a2]) j (3 * i + 2)).
Proof. exact Proofs.C05_SO3.so3_d2r_expinv_is_derivative_2. Qed.
Print Assumptions C05_so3_d2r_expinv_is_derivative_2.

