(* Property C05, series side of the small-angle switch for the SE2 d2r_exp table: property theorems only. *)
From Coq Require Import Reals List Lra.
From SV Require Import Base.GenPrelude Base.Mat Base.Trig Base.KernelH Doc.Groups.
From SV Require Gen.SE2 Gen.SO3.
From SV Require Proofs.C05_Trunc.
Import ListNotations.
Local Open Scope R_scope.

(* kernels: closed forms minus the series used by the code, for every z <> 0 with |z| <= 1 *)
Theorem C05_hess_kernels_trunc : forall z, z <> 0 -> Rabs z <= 1 ->
  Rabs (kA z - tA (z*z)) <= (z*z)*(z*z)/720 /\
  Rabs (kB z - tB (z*z)) <= (z*z)*(z*z)/5040 + 1 / 100000000000000000 /\
  Rabs (kdA z - tdA z) <= Rabs z * (z*z) / 170 /\
  Rabs (kdB z - tdB z) <= Rabs z * (z*z) / 1200.
Proof. exact Base.KernelH.hess_kernels_trunc. Qed.
Print Assumptions C05_hess_kernels_trunc.

Theorem C05_se2_d2r_exp_trunc : forall a0 a1 a2,
  0 < a2*a2 < eps2 ->
  Gen.SE2.se2_d2r_exp_p1 [a0; a1; a2] = Proofs.C05_Trunc.se2_hess_form (tA (a2*a2)) (tB (a2*a2)) (tdA a2) (tdB a2) a0 a1 a2 /\
  Gen.SE2.se2_d2r_exp_p0 [a0; a1; a2] = Proofs.C05_Trunc.se2_hess_form (kA a2) (kB a2) (kdA a2) (kdB a2) a0 a1 a2 /\
  Gen.SE2.se2_d2r_exp_c1 [a0; a1; a2] /\
  Rabs (kA a2 - tA (a2*a2)) <= eps2 * eps2 / 720 /\
  Rabs (kB a2 - tB (a2*a2)) <= eps2 * eps2 / 5040 + 1 / 100000000000000000 /\
  Rabs (kdA a2 - tdA a2) <= eps2 / 1000000 /\
  Rabs (kdB a2 - tdB a2) <= eps2 / 10000000.
Proof. exact Proofs.C05_Trunc.se2_d2r_exp_trunc. Qed.
Print Assumptions C05_se2_d2r_exp_trunc.

Theorem C05_so3_d2r_exp_trunc : forall a0 a1 a2,
  0 < a0*a0 + a1*a1 + a2*a2 < eps2 ->
  let th2 := a0*a0 + a1*a1 + a2*a2 in let th := sqrt th2 in
  Gen.SO3.so3_d2r_exp_p1 [a0; a1; a2] = Proofs.C05_Trunc.so3_hess_form (tA th2) (tB th2) (- 1 / 12) (- 1 / 60) a0 a1 a2 /\
  Gen.SO3.so3_d2r_exp_p0 [a0; a1; a2] = Proofs.C05_Trunc.so3_hess_form (kA th) (kB th) (kdA th / th) (kdB th / th) a0 a1 a2 /\
  Gen.SO3.so3_d2r_exp_c1 [a0; a1; a2] /\
  Rabs (kA th - tA th2) <= eps2 * eps2 / 720 /\
  Rabs (kB th - tB th2) <= eps2 * eps2 / 5040 + 1 / 100000000000000000 /\
  Rabs (kdA th / th - (- 1 / 12)) <= eps2 / 170 /\
  Rabs (kdB th / th - (- 1 / 60)) <= eps2 / 1200.
Proof. exact Proofs.C05_Trunc.so3_d2r_exp_trunc. Qed.
Print Assumptions C05_so3_d2r_exp_trunc.
