(* Property C06: the property theorems and nothing else .  Each is closed by the lemma of the same
   name proved in Proofs/C06_<unit>.v against the generated model; Print Assumptions lists the axioms. *)
From Coq Require Import Reals List Lra.
From SV Require Import Base.GenPrelude Base.Mat Doc.Groups.
From SV Require Gen.SO2.
From SV Require Gen.SO3.
From SV Require Gen.SE2.
From SV Require Gen.SE3.
From SV Require Gen.SE3H.
From SV Require Gen.C1.
From SV Require Gen.Rn.
From SV Require Gen.BA.
From SV Require Gen.BB.
From SV Require Gen.BC.
From SV Require Gen.BD.
From SV Require Gen.BEi.
From SV Require Gen.BE.
From SV Require Gen.BF.
From SV Require Gen.BG.
From SV Require Proofs.C06_BA.
From SV Require Proofs.C06_BB.
From SV Require Proofs.C06_BC.
From SV Require Proofs.C06_BD.
From SV Require Proofs.C06_BEi.
From SV Require Proofs.C06_BG.
From SV Require Proofs.C06_Rn.
Import ListNotations.
Local Open Scope R_scope.

Theorem C06_ba_comp_parts :
  forall g0 g1 g2 g3 g4 g5 g6 h0 h1 h2 h3 h4 h5 h6 out,
  Gen.BA.ba_comp_rel [g0; g1; g2; g3; g4; g5; g6] [h0; h1; h2; h3; h4; h5; h6] out ->
  exists o0 o1,
    Gen.SO3.so3_comp_rel [g0; g1; g2; g3] [h0; h1; h2; h3] o0 /\
    Gen.Rn.v3_comp_rel [g4; g5; g6] [h4; h5; h6] o1 /\
    out = o0 ++ o1.
Proof. exact Proofs.C06_BA.ba_comp_parts. Qed.
Print Assumptions C06_ba_comp_parts.

Theorem C06_ba_inv_parts :
  forall g0 g1 g2 g3 g4 g5 g6 out,
  Gen.BA.ba_inv_rel [g0; g1; g2; g3; g4; g5; g6] out ->
  exists o0 o1,
    Gen.SO3.so3_inv_rel [g0; g1; g2; g3] o0 /\
    Gen.Rn.v3_inv_rel [g4; g5; g6] o1 /\
    out = o0 ++ o1.
Proof. exact Proofs.C06_BA.ba_inv_parts. Qed.
Print Assumptions C06_ba_inv_parts.

Theorem C06_ba_log_parts :
  forall g0 g1 g2 g3 g4 g5 g6 out,
  Gen.BA.ba_log_rel [g0; g1; g2; g3; g4; g5; g6] out ->
  exists o0 o1,
    Gen.SO3.so3_log_rel [g0; g1; g2; g3] o0 /\
    Gen.Rn.v3_log_rel [g4; g5; g6] o1 /\
    out = o0 ++ o1.
Proof. exact Proofs.C06_BA.ba_log_parts. Qed.
Print Assumptions C06_ba_log_parts.

Theorem C06_ba_exp_parts :
  forall a0 a1 a2 a3 a4 a5 out,
  Gen.BA.ba_exp_rel [a0; a1; a2; a3; a4; a5] out ->
  exists o0 o1,
    Gen.SO3.so3_exp_rel [a0; a1; a2] o0 /\
    Gen.Rn.v3_exp_rel [a3; a4; a5] o1 /\
    out = o0 ++ o1.
Proof. exact Proofs.C06_BA.ba_exp_parts. Qed.
Print Assumptions C06_ba_exp_parts.

Theorem C06_ba_Ad_parts :
  forall g0 g1 g2 g3 g4 g5 g6 out,
  Gen.BA.ba_Ad_rel [g0; g1; g2; g3; g4; g5; g6] out ->
  exists o0 o1,
    Gen.SO3.so3_Ad_rel [g0; g1; g2; g3] o0 /\
    Gen.Rn.v3_Ad_rel [g4; g5; g6] o1 /\
    out = blockdiag [o0; o1].
Proof. exact Proofs.C06_BA.ba_Ad_parts. Qed.
Print Assumptions C06_ba_Ad_parts.

Theorem C06_ba_ad_parts :
  forall a0 a1 a2 a3 a4 a5 out,
  Gen.BA.ba_ad_rel [a0; a1; a2; a3; a4; a5] out ->
  exists o0 o1,
    Gen.SO3.so3_ad_rel [a0; a1; a2] o0 /\
    Gen.Rn.v3_ad_rel [a3; a4; a5] o1 /\
    out = blockdiag [o0; o1].
Proof. exact Proofs.C06_BA.ba_ad_parts. Qed.
Print Assumptions C06_ba_ad_parts.

Theorem C06_ba_dr_exp_parts :
  forall a0 a1 a2 a3 a4 a5 out,
  Gen.BA.ba_dr_exp_rel [a0; a1; a2; a3; a4; a5] out ->
  exists o0 o1,
    Gen.SO3.so3_dr_exp_rel [a0; a1; a2] o0 /\
    Gen.Rn.v3_dr_exp_rel [a3; a4; a5] o1 /\
    out = blockdiag [o0; o1].
Proof. exact Proofs.C06_BA.ba_dr_exp_parts. Qed.
Print Assumptions C06_ba_dr_exp_parts.

Theorem C06_ba_dr_expinv_parts :
  forall a0 a1 a2 a3 a4 a5 out,
  Gen.BA.ba_dr_expinv_rel [a0; a1; a2; a3; a4; a5] out ->
  exists o0 o1,
    Gen.SO3.so3_dr_expinv_rel [a0; a1; a2] o0 /\
    Gen.Rn.v3_dr_expinv_rel [a3; a4; a5] o1 /\
    out = blockdiag [o0; o1].
Proof. exact Proofs.C06_BA.ba_dr_expinv_parts. Qed.
Print Assumptions C06_ba_dr_expinv_parts.

Theorem C06_ba_d2r_exp_parts :
  forall a0 a1 a2 a3 a4 a5 out,
  Gen.BA.ba_d2r_exp_rel [a0; a1; a2; a3; a4; a5] out ->
  exists o0 o1,
    Gen.SO3.so3_d2r_exp_rel [a0; a1; a2] o0 /\
    Gen.Rn.v3_d2r_exp_rel [a3; a4; a5] o1 /\
    out = bundle_hess [o0; o1].
Proof. exact Proofs.C06_BA.ba_d2r_exp_parts. Qed.
Print Assumptions C06_ba_d2r_exp_parts.

Theorem C06_ba_d2r_expinv_parts :
  forall a0 a1 a2 a3 a4 a5 out,
  Gen.BA.ba_d2r_expinv_rel [a0; a1; a2; a3; a4; a5] out ->
  exists o0 o1,
    Gen.SO3.so3_d2r_expinv_rel [a0; a1; a2] o0 /\
    Gen.Rn.v3_d2r_expinv_rel [a3; a4; a5] o1 /\
    out = bundle_hess [o0; o1].
Proof. exact Proofs.C06_BA.ba_d2r_expinv_parts. Qed.
Print Assumptions C06_ba_d2r_expinv_parts.

Theorem C06_ba_identity_parts :
  forall out, Gen.BA.ba_identity_rel out ->
  exists o0 o1,
    Gen.SO3.so3_identity_rel o0 /\
    Gen.Rn.v3_identity_rel o1 /\
    out = o0 ++ o1.
Proof. exact Proofs.C06_BA.ba_identity_parts. Qed.
Print Assumptions C06_ba_identity_parts.

Theorem C06_ba_part0_view :
  forall g0 g1 g2 g3 g4 g5 g6 out,
  Gen.BA.ba_part0_rel [g0; g1; g2; g3; g4; g5; g6] out ->
  out = [g0; g1; g2; g3] /\ out = vslice [g0; g1; g2; g3; g4; g5; g6] (nth 0 (psum [4%nat; 3%nat]) 0%nat) 4%nat.
Proof. exact Proofs.C06_BA.ba_part0_view. Qed.
Print Assumptions C06_ba_part0_view.

Theorem C06_ba_part1_view :
  forall g0 g1 g2 g3 g4 g5 g6 out,
  Gen.BA.ba_part1_rel [g0; g1; g2; g3; g4; g5; g6] out ->
  out = [g4; g5; g6] /\ out = vslice [g0; g1; g2; g3; g4; g5; g6] (nth 1 (psum [4%nat; 3%nat]) 0%nat) 3%nat.
Proof. exact Proofs.C06_BA.ba_part1_view. Qed.
Print Assumptions C06_ba_part1_view.

Theorem C06_bb_comp_parts :
  forall g0 g1 g2 g3 g4 g5 h0 h1 h2 h3 h4 h5 out,
  Gen.BB.bb_comp_rel [g0; g1; g2; g3; g4; g5] [h0; h1; h2; h3; h4; h5] out ->
  exists o0 o1,
    Gen.Rn.v2_comp_rel [g0; g1] [h0; h1] o0 /\
    Gen.SE2.se2_comp_rel [g2; g3; g4; g5] [h2; h3; h4; h5] o1 /\
    out = o0 ++ o1.
Proof. exact Proofs.C06_BB.bb_comp_parts. Qed.
Print Assumptions C06_bb_comp_parts.

Theorem C06_bb_inv_parts :
  forall g0 g1 g2 g3 g4 g5 out,
  Gen.BB.bb_inv_rel [g0; g1; g2; g3; g4; g5] out ->
  exists o0 o1,
    Gen.Rn.v2_inv_rel [g0; g1] o0 /\
    Gen.SE2.se2_inv_rel [g2; g3; g4; g5] o1 /\
    out = o0 ++ o1.
Proof. exact Proofs.C06_BB.bb_inv_parts. Qed.
Print Assumptions C06_bb_inv_parts.

Theorem C06_bb_log_parts :
  forall g0 g1 g2 g3 g4 g5 out,
  Gen.BB.bb_log_rel [g0; g1; g2; g3; g4; g5] out ->
  exists o0 o1,
    Gen.Rn.v2_log_rel [g0; g1] o0 /\
    Gen.SE2.se2_log_rel [g2; g3; g4; g5] o1 /\
    out = o0 ++ o1.
Proof. exact Proofs.C06_BB.bb_log_parts. Qed.
Print Assumptions C06_bb_log_parts.

Theorem C06_bb_exp_parts :
  forall a0 a1 a2 a3 a4 out,
  Gen.BB.bb_exp_rel [a0; a1; a2; a3; a4] out ->
  exists o0 o1,
    Gen.Rn.v2_exp_rel [a0; a1] o0 /\
    Gen.SE2.se2_exp_rel [a2; a3; a4] o1 /\
    out = o0 ++ o1.
Proof. exact Proofs.C06_BB.bb_exp_parts. Qed.
Print Assumptions C06_bb_exp_parts.

Theorem C06_bb_Ad_parts :
  forall g0 g1 g2 g3 g4 g5 out,
  Gen.BB.bb_Ad_rel [g0; g1; g2; g3; g4; g5] out ->
  exists o0 o1,
    Gen.Rn.v2_Ad_rel [g0; g1] o0 /\
    Gen.SE2.se2_Ad_rel [g2; g3; g4; g5] o1 /\
    out = blockdiag [o0; o1].
Proof. exact Proofs.C06_BB.bb_Ad_parts. Qed.
Print Assumptions C06_bb_Ad_parts.

Theorem C06_bb_ad_parts :
  forall a0 a1 a2 a3 a4 out,
  Gen.BB.bb_ad_rel [a0; a1; a2; a3; a4] out ->
  exists o0 o1,
    Gen.Rn.v2_ad_rel [a0; a1] o0 /\
    Gen.SE2.se2_ad_rel [a2; a3; a4] o1 /\
    out = blockdiag [o0; o1].
Proof. exact Proofs.C06_BB.bb_ad_parts. Qed.
Print Assumptions C06_bb_ad_parts.

Theorem C06_bb_dr_exp_parts :
  forall a0 a1 a2 a3 a4 out,
  Gen.BB.bb_dr_exp_rel [a0; a1; a2; a3; a4] out ->
  exists o0 o1,
    Gen.Rn.v2_dr_exp_rel [a0; a1] o0 /\
    Gen.SE2.se2_dr_exp_rel [a2; a3; a4] o1 /\
    out = blockdiag [o0; o1].
Proof. exact Proofs.C06_BB.bb_dr_exp_parts. Qed.
Print Assumptions C06_bb_dr_exp_parts.

Theorem C06_bb_dr_expinv_parts :
  forall a0 a1 a2 a3 a4 out,
  Gen.BB.bb_dr_expinv_rel [a0; a1; a2; a3; a4] out ->
  exists o0 o1,
    Gen.Rn.v2_dr_expinv_rel [a0; a1] o0 /\
    Gen.SE2.se2_dr_expinv_rel [a2; a3; a4] o1 /\
    out = blockdiag [o0; o1].
Proof. exact Proofs.C06_BB.bb_dr_expinv_parts. Qed.
Print Assumptions C06_bb_dr_expinv_parts.

Theorem C06_bb_d2r_exp_parts :
  forall a0 a1 a2 a3 a4 out,
  Gen.BB.bb_d2r_exp_rel [a0; a1; a2; a3; a4] out ->
  exists o0 o1,
    Gen.Rn.v2_d2r_exp_rel [a0; a1] o0 /\
    Gen.SE2.se2_d2r_exp_rel [a2; a3; a4] o1 /\
    out = bundle_hess [o0; o1].
Proof. exact Proofs.C06_BB.bb_d2r_exp_parts. Qed.
Print Assumptions C06_bb_d2r_exp_parts.

Theorem C06_bb_d2r_expinv_parts :
  forall a0 a1 a2 a3 a4 out,
  Gen.BB.bb_d2r_expinv_rel [a0; a1; a2; a3; a4] out ->
  exists o0 o1,
    Gen.Rn.v2_d2r_expinv_rel [a0; a1] o0 /\
    Gen.SE2.se2_d2r_expinv_rel [a2; a3; a4] o1 /\
    out = bundle_hess [o0; o1].
Proof. exact Proofs.C06_BB.bb_d2r_expinv_parts. Qed.
Print Assumptions C06_bb_d2r_expinv_parts.

Theorem C06_bb_identity_parts :
  forall out, Gen.BB.bb_identity_rel out ->
  exists o0 o1,
    Gen.Rn.v2_identity_rel o0 /\
    Gen.SE2.se2_identity_rel o1 /\
    out = o0 ++ o1.
Proof. exact Proofs.C06_BB.bb_identity_parts. Qed.
Print Assumptions C06_bb_identity_parts.

Theorem C06_bb_part0_view :
  forall g0 g1 g2 g3 g4 g5 out,
  Gen.BB.bb_part0_rel [g0; g1; g2; g3; g4; g5] out ->
  out = [g0; g1] /\ out = vslice [g0; g1; g2; g3; g4; g5] (nth 0 (psum [2%nat; 4%nat]) 0%nat) 2%nat.
Proof. exact Proofs.C06_BB.bb_part0_view. Qed.
Print Assumptions C06_bb_part0_view.

Theorem C06_bb_part1_view :
  forall g0 g1 g2 g3 g4 g5 out,
  Gen.BB.bb_part1_rel [g0; g1; g2; g3; g4; g5] out ->
  out = [g2; g3; g4; g5] /\ out = vslice [g0; g1; g2; g3; g4; g5] (nth 1 (psum [2%nat; 4%nat]) 0%nat) 4%nat.
Proof. exact Proofs.C06_BB.bb_part1_view. Qed.
Print Assumptions C06_bb_part1_view.

Theorem C06_bc_comp_parts :
  forall g0 g1 g2 g3 g4 g5 g6 g7 g8 g9 g10 h0 h1 h2 h3 h4 h5 h6 h7 h8 h9 h10 out,
  Gen.BC.bc_comp_rel [g0; g1; g2; g3; g4; g5; g6; g7; g8; g9; g10] [h0; h1; h2; h3; h4; h5; h6; h7; h8; h9; h10] out ->
  exists o0 o1 o2 o3,
    Gen.SE2.se2_comp_rel [g0; g1; g2; g3] [h0; h1; h2; h3] o0 /\
    Gen.SO3.so3_comp_rel [g4; g5; g6; g7] [h4; h5; h6; h7] o1 /\
    Gen.Rn.v1_comp_rel [g8] [h8] o2 /\
    Gen.SO2.so2_comp_rel [g9; g10] [h9; h10] o3 /\
    out = o0 ++ o1 ++ o2 ++ o3.
Proof. exact Proofs.C06_BC.bc_comp_parts. Qed.
Print Assumptions C06_bc_comp_parts.

Theorem C06_bc_inv_parts :
  forall g0 g1 g2 g3 g4 g5 g6 g7 g8 g9 g10 out,
  Gen.BC.bc_inv_rel [g0; g1; g2; g3; g4; g5; g6; g7; g8; g9; g10] out ->
  exists o0 o1 o2 o3,
    Gen.SE2.se2_inv_rel [g0; g1; g2; g3] o0 /\
    Gen.SO3.so3_inv_rel [g4; g5; g6; g7] o1 /\
    Gen.Rn.v1_inv_rel [g8] o2 /\
    Gen.SO2.so2_inv_rel [g9; g10] o3 /\
    out = o0 ++ o1 ++ o2 ++ o3.
Proof. exact Proofs.C06_BC.bc_inv_parts. Qed.
Print Assumptions C06_bc_inv_parts.

Theorem C06_bc_log_parts :
  forall g0 g1 g2 g3 g4 g5 g6 g7 g8 g9 g10 out,
  Gen.BC.bc_log_rel [g0; g1; g2; g3; g4; g5; g6; g7; g8; g9; g10] out ->
  exists o0 o1 o2 o3,
    Gen.SE2.se2_log_rel [g0; g1; g2; g3] o0 /\
    Gen.SO3.so3_log_rel [g4; g5; g6; g7] o1 /\
    Gen.Rn.v1_log_rel [g8] o2 /\
    Gen.SO2.so2_log_rel [g9; g10] o3 /\
    out = o0 ++ o1 ++ o2 ++ o3.
Proof. exact Proofs.C06_BC.bc_log_parts. Qed.
Print Assumptions C06_bc_log_parts.

Theorem C06_bc_exp_parts :
  forall a0 a1 a2 a3 a4 a5 a6 a7 out,
  Gen.BC.bc_exp_rel [a0; a1; a2; a3; a4; a5; a6; a7] out ->
  exists o0 o1 o2 o3,
    Gen.SE2.se2_exp_rel [a0; a1; a2] o0 /\
    Gen.SO3.so3_exp_rel [a3; a4; a5] o1 /\
    Gen.Rn.v1_exp_rel [a6] o2 /\
    Gen.SO2.so2_exp_rel [a7] o3 /\
    out = o0 ++ o1 ++ o2 ++ o3.
Proof. exact Proofs.C06_BC.bc_exp_parts. Qed.
Print Assumptions C06_bc_exp_parts.

Theorem C06_bc_Ad_parts :
  forall g0 g1 g2 g3 g4 g5 g6 g7 g8 g9 g10 out,
  Gen.BC.bc_Ad_rel [g0; g1; g2; g3; g4; g5; g6; g7; g8; g9; g10] out ->
  exists o0 o1 o2 o3,
    Gen.SE2.se2_Ad_rel [g0; g1; g2; g3] o0 /\
    Gen.SO3.so3_Ad_rel [g4; g5; g6; g7] o1 /\
    Gen.Rn.v1_Ad_rel [g8] o2 /\
    Gen.SO2.so2_Ad_rel [g9; g10] o3 /\
    out = blockdiag [o0; o1; o2; o3].
Proof. exact Proofs.C06_BC.bc_Ad_parts. Qed.
Print Assumptions C06_bc_Ad_parts.

Theorem C06_bc_ad_parts :
  forall a0 a1 a2 a3 a4 a5 a6 a7 out,
  Gen.BC.bc_ad_rel [a0; a1; a2; a3; a4; a5; a6; a7] out ->
  exists o0 o1 o2 o3,
    Gen.SE2.se2_ad_rel [a0; a1; a2] o0 /\
    Gen.SO3.so3_ad_rel [a3; a4; a5] o1 /\
    Gen.Rn.v1_ad_rel [a6] o2 /\
    Gen.SO2.so2_ad_rel [a7] o3 /\
    out = blockdiag [o0; o1; o2; o3].
Proof. exact Proofs.C06_BC.bc_ad_parts. Qed.
Print Assumptions C06_bc_ad_parts.

Theorem C06_bc_dr_exp_parts :
  forall a0 a1 a2 a3 a4 a5 a6 a7 out,
  Gen.BC.bc_dr_exp_rel [a0; a1; a2; a3; a4; a5; a6; a7] out ->
  exists o0 o1 o2 o3,
    Gen.SE2.se2_dr_exp_rel [a0; a1; a2] o0 /\
    Gen.SO3.so3_dr_exp_rel [a3; a4; a5] o1 /\
    Gen.Rn.v1_dr_exp_rel [a6] o2 /\
    Gen.SO2.so2_dr_exp_rel [a7] o3 /\
    out = blockdiag [o0; o1; o2; o3].
Proof. exact Proofs.C06_BC.bc_dr_exp_parts. Qed.
Print Assumptions C06_bc_dr_exp_parts.

Theorem C06_bc_dr_expinv_parts :
  forall a0 a1 a2 a3 a4 a5 a6 a7 out,
  Gen.BC.bc_dr_expinv_rel [a0; a1; a2; a3; a4; a5; a6; a7] out ->
  exists o0 o1 o2 o3,
    Gen.SE2.se2_dr_expinv_rel [a0; a1; a2] o0 /\
    Gen.SO3.so3_dr_expinv_rel [a3; a4; a5] o1 /\
    Gen.Rn.v1_dr_expinv_rel [a6] o2 /\
    Gen.SO2.so2_dr_expinv_rel [a7] o3 /\
    out = blockdiag [o0; o1; o2; o3].
Proof. exact Proofs.C06_BC.bc_dr_expinv_parts. Qed.
Print Assumptions C06_bc_dr_expinv_parts.

Theorem C06_bc_d2r_exp_parts :
  forall a0 a1 a2 a3 a4 a5 a6 a7 out,
  Gen.BC.bc_d2r_exp_rel [a0; a1; a2; a3; a4; a5; a6; a7] out ->
  exists o0 o1 o2 o3,
    Gen.SE2.se2_d2r_exp_rel [a0; a1; a2] o0 /\
    Gen.SO3.so3_d2r_exp_rel [a3; a4; a5] o1 /\
    Gen.Rn.v1_d2r_exp_rel [a6] o2 /\
    Gen.SO2.so2_d2r_exp_rel [a7] o3 /\
    out = bundle_hess [o0; o1; o2; o3].
Proof. exact Proofs.C06_BC.bc_d2r_exp_parts. Qed.
Print Assumptions C06_bc_d2r_exp_parts.

Theorem C06_bc_d2r_expinv_parts :
  forall a0 a1 a2 a3 a4 a5 a6 a7 out,
  Gen.BC.bc_d2r_expinv_rel [a0; a1; a2; a3; a4; a5; a6; a7] out ->
  exists o0 o1 o2 o3,
    Gen.SE2.se2_d2r_expinv_rel [a0; a1; a2] o0 /\
    Gen.SO3.so3_d2r_expinv_rel [a3; a4; a5] o1 /\
    Gen.Rn.v1_d2r_expinv_rel [a6] o2 /\
    Gen.SO2.so2_d2r_expinv_rel [a7] o3 /\
    out = bundle_hess [o0; o1; o2; o3].
Proof. exact Proofs.C06_BC.bc_d2r_expinv_parts. Qed.
Print Assumptions C06_bc_d2r_expinv_parts.

Theorem C06_bc_identity_parts :
  forall out, Gen.BC.bc_identity_rel out ->
  exists o0 o1 o2 o3,
    Gen.SE2.se2_identity_rel o0 /\
    Gen.SO3.so3_identity_rel o1 /\
    Gen.Rn.v1_identity_rel o2 /\
    Gen.SO2.so2_identity_rel o3 /\
    out = o0 ++ o1 ++ o2 ++ o3.
Proof. exact Proofs.C06_BC.bc_identity_parts. Qed.
Print Assumptions C06_bc_identity_parts.

Theorem C06_bc_part0_view :
  forall g0 g1 g2 g3 g4 g5 g6 g7 g8 g9 g10 out,
  Gen.BC.bc_part0_rel [g0; g1; g2; g3; g4; g5; g6; g7; g8; g9; g10] out ->
  out = [g0; g1; g2; g3] /\ out = vslice [g0; g1; g2; g3; g4; g5; g6; g7; g8; g9; g10] (nth 0 (psum [4%nat; 4%nat; 1%nat; 2%nat]) 0%nat) 4%nat.
Proof. exact Proofs.C06_BC.bc_part0_view. Qed.
Print Assumptions C06_bc_part0_view.

Theorem C06_bc_part1_view :
  forall g0 g1 g2 g3 g4 g5 g6 g7 g8 g9 g10 out,
  Gen.BC.bc_part1_rel [g0; g1; g2; g3; g4; g5; g6; g7; g8; g9; g10] out ->
  out = [g4; g5; g6; g7] /\ out = vslice [g0; g1; g2; g3; g4; g5; g6; g7; g8; g9; g10] (nth 1 (psum [4%nat; 4%nat; 1%nat; 2%nat]) 0%nat) 4%nat.
Proof. exact Proofs.C06_BC.bc_part1_view. Qed.
Print Assumptions C06_bc_part1_view.

Theorem C06_bc_part2_view :
  forall g0 g1 g2 g3 g4 g5 g6 g7 g8 g9 g10 out,
  Gen.BC.bc_part2_rel [g0; g1; g2; g3; g4; g5; g6; g7; g8; g9; g10] out ->
  out = [g8] /\ out = vslice [g0; g1; g2; g3; g4; g5; g6; g7; g8; g9; g10] (nth 2 (psum [4%nat; 4%nat; 1%nat; 2%nat]) 0%nat) 1%nat.
Proof. exact Proofs.C06_BC.bc_part2_view. Qed.
Print Assumptions C06_bc_part2_view.

Theorem C06_bc_part3_view :
  forall g0 g1 g2 g3 g4 g5 g6 g7 g8 g9 g10 out,
  Gen.BC.bc_part3_rel [g0; g1; g2; g3; g4; g5; g6; g7; g8; g9; g10] out ->
  out = [g9; g10] /\ out = vslice [g0; g1; g2; g3; g4; g5; g6; g7; g8; g9; g10] (nth 3 (psum [4%nat; 4%nat; 1%nat; 2%nat]) 0%nat) 2%nat.
Proof. exact Proofs.C06_BC.bc_part3_view. Qed.
Print Assumptions C06_bc_part3_view.

Theorem C06_bd_comp_parts :
  forall g0 g1 g2 g3 g4 g5 g6 g7 h0 h1 h2 h3 h4 h5 h6 h7 out,
  Gen.BD.bd_comp_rel [g0; g1; g2; g3; g4; g5; g6; g7] [h0; h1; h2; h3; h4; h5; h6; h7] out ->
  exists o0 o1,
    Gen.SO3.so3_comp_rel [g0; g1; g2; g3] [h0; h1; h2; h3] o0 /\
    Gen.SO3.so3_comp_rel [g4; g5; g6; g7] [h4; h5; h6; h7] o1 /\
    out = o0 ++ o1.
Proof. exact Proofs.C06_BD.bd_comp_parts. Qed.
Print Assumptions C06_bd_comp_parts.

Theorem C06_bd_inv_parts :
  forall g0 g1 g2 g3 g4 g5 g6 g7 out,
  Gen.BD.bd_inv_rel [g0; g1; g2; g3; g4; g5; g6; g7] out ->
  exists o0 o1,
    Gen.SO3.so3_inv_rel [g0; g1; g2; g3] o0 /\
    Gen.SO3.so3_inv_rel [g4; g5; g6; g7] o1 /\
    out = o0 ++ o1.
Proof. exact Proofs.C06_BD.bd_inv_parts. Qed.
Print Assumptions C06_bd_inv_parts.

Theorem C06_bd_log_parts :
  forall g0 g1 g2 g3 g4 g5 g6 g7 out,
  Gen.BD.bd_log_rel [g0; g1; g2; g3; g4; g5; g6; g7] out ->
  exists o0 o1,
    Gen.SO3.so3_log_rel [g0; g1; g2; g3] o0 /\
    Gen.SO3.so3_log_rel [g4; g5; g6; g7] o1 /\
    out = o0 ++ o1.
Proof. exact Proofs.C06_BD.bd_log_parts. Qed.
Print Assumptions C06_bd_log_parts.

Theorem C06_bd_exp_parts :
  forall a0 a1 a2 a3 a4 a5 out,
  Gen.BD.bd_exp_rel [a0; a1; a2; a3; a4; a5] out ->
  exists o0 o1,
    Gen.SO3.so3_exp_rel [a0; a1; a2] o0 /\
    Gen.SO3.so3_exp_rel [a3; a4; a5] o1 /\
    out = o0 ++ o1.
Proof. exact Proofs.C06_BD.bd_exp_parts. Qed.
Print Assumptions C06_bd_exp_parts.

Theorem C06_bd_Ad_parts :
  forall g0 g1 g2 g3 g4 g5 g6 g7 out,
  Gen.BD.bd_Ad_rel [g0; g1; g2; g3; g4; g5; g6; g7] out ->
  exists o0 o1,
    Gen.SO3.so3_Ad_rel [g0; g1; g2; g3] o0 /\
    Gen.SO3.so3_Ad_rel [g4; g5; g6; g7] o1 /\
    out = blockdiag [o0; o1].
Proof. exact Proofs.C06_BD.bd_Ad_parts. Qed.
Print Assumptions C06_bd_Ad_parts.

Theorem C06_bd_ad_parts :
  forall a0 a1 a2 a3 a4 a5 out,
  Gen.BD.bd_ad_rel [a0; a1; a2; a3; a4; a5] out ->
  exists o0 o1,
    Gen.SO3.so3_ad_rel [a0; a1; a2] o0 /\
    Gen.SO3.so3_ad_rel [a3; a4; a5] o1 /\
    out = blockdiag [o0; o1].
Proof. exact Proofs.C06_BD.bd_ad_parts. Qed.
Print Assumptions C06_bd_ad_parts.

Theorem C06_bd_dr_exp_parts :
  forall a0 a1 a2 a3 a4 a5 out,
  Gen.BD.bd_dr_exp_rel [a0; a1; a2; a3; a4; a5] out ->
  exists o0 o1,
    Gen.SO3.so3_dr_exp_rel [a0; a1; a2] o0 /\
    Gen.SO3.so3_dr_exp_rel [a3; a4; a5] o1 /\
    out = blockdiag [o0; o1].
Proof. exact Proofs.C06_BD.bd_dr_exp_parts. Qed.
Print Assumptions C06_bd_dr_exp_parts.

Theorem C06_bd_dr_expinv_parts :
  forall a0 a1 a2 a3 a4 a5 out,
  Gen.BD.bd_dr_expinv_rel [a0; a1; a2; a3; a4; a5] out ->
  exists o0 o1,
    Gen.SO3.so3_dr_expinv_rel [a0; a1; a2] o0 /\
    Gen.SO3.so3_dr_expinv_rel [a3; a4; a5] o1 /\
    out = blockdiag [o0; o1].
Proof. exact Proofs.C06_BD.bd_dr_expinv_parts. Qed.
Print Assumptions C06_bd_dr_expinv_parts.

Theorem C06_bd_d2r_exp_parts :
  forall a0 a1 a2 a3 a4 a5 out,
  Gen.BD.bd_d2r_exp_rel [a0; a1; a2; a3; a4; a5] out ->
  exists o0 o1,
    Gen.SO3.so3_d2r_exp_rel [a0; a1; a2] o0 /\
    Gen.SO3.so3_d2r_exp_rel [a3; a4; a5] o1 /\
    out = bundle_hess [o0; o1].
Proof. exact Proofs.C06_BD.bd_d2r_exp_parts. Qed.
Print Assumptions C06_bd_d2r_exp_parts.

Theorem C06_bd_d2r_expinv_parts :
  forall a0 a1 a2 a3 a4 a5 out,
  Gen.BD.bd_d2r_expinv_rel [a0; a1; a2; a3; a4; a5] out ->
  exists o0 o1,
    Gen.SO3.so3_d2r_expinv_rel [a0; a1; a2] o0 /\
    Gen.SO3.so3_d2r_expinv_rel [a3; a4; a5] o1 /\
    out = bundle_hess [o0; o1].
Proof. exact Proofs.C06_BD.bd_d2r_expinv_parts. Qed.
Print Assumptions C06_bd_d2r_expinv_parts.

Theorem C06_bd_identity_parts :
  forall out, Gen.BD.bd_identity_rel out ->
  exists o0 o1,
    Gen.SO3.so3_identity_rel o0 /\
    Gen.SO3.so3_identity_rel o1 /\
    out = o0 ++ o1.
Proof. exact Proofs.C06_BD.bd_identity_parts. Qed.
Print Assumptions C06_bd_identity_parts.

Theorem C06_bd_part0_view :
  forall g0 g1 g2 g3 g4 g5 g6 g7 out,
  Gen.BD.bd_part0_rel [g0; g1; g2; g3; g4; g5; g6; g7] out ->
  out = [g0; g1; g2; g3] /\ out = vslice [g0; g1; g2; g3; g4; g5; g6; g7] (nth 0 (psum [4%nat; 4%nat]) 0%nat) 4%nat.
Proof. exact Proofs.C06_BD.bd_part0_view. Qed.
Print Assumptions C06_bd_part0_view.

Theorem C06_bd_part1_view :
  forall g0 g1 g2 g3 g4 g5 g6 g7 out,
  Gen.BD.bd_part1_rel [g0; g1; g2; g3; g4; g5; g6; g7] out ->
  out = [g4; g5; g6; g7] /\ out = vslice [g0; g1; g2; g3; g4; g5; g6; g7] (nth 1 (psum [4%nat; 4%nat]) 0%nat) 4%nat.
Proof. exact Proofs.C06_BD.bd_part1_view. Qed.
Print Assumptions C06_bd_part1_view.

Theorem C06_bei_comp_parts :
  forall g0 g1 g2 g3 h0 h1 h2 h3 out,
  Gen.BEi.bei_comp_rel [g0; g1; g2; g3] [h0; h1; h2; h3] out ->
  exists o0 o1,
    Gen.SO2.so2_comp_rel [g0; g1] [h0; h1] o0 /\
    Gen.Rn.v2_comp_rel [g2; g3] [h2; h3] o1 /\
    out = o0 ++ o1.
Proof. exact Proofs.C06_BEi.bei_comp_parts. Qed.
Print Assumptions C06_bei_comp_parts.

Theorem C06_bei_inv_parts :
  forall g0 g1 g2 g3 out,
  Gen.BEi.bei_inv_rel [g0; g1; g2; g3] out ->
  exists o0 o1,
    Gen.SO2.so2_inv_rel [g0; g1] o0 /\
    Gen.Rn.v2_inv_rel [g2; g3] o1 /\
    out = o0 ++ o1.
Proof. exact Proofs.C06_BEi.bei_inv_parts. Qed.
Print Assumptions C06_bei_inv_parts.

Theorem C06_bei_log_parts :
  forall g0 g1 g2 g3 out,
  Gen.BEi.bei_log_rel [g0; g1; g2; g3] out ->
  exists o0 o1,
    Gen.SO2.so2_log_rel [g0; g1] o0 /\
    Gen.Rn.v2_log_rel [g2; g3] o1 /\
    out = o0 ++ o1.
Proof. exact Proofs.C06_BEi.bei_log_parts. Qed.
Print Assumptions C06_bei_log_parts.

Theorem C06_bei_exp_parts :
  forall a0 a1 a2 out,
  Gen.BEi.bei_exp_rel [a0; a1; a2] out ->
  exists o0 o1,
    Gen.SO2.so2_exp_rel [a0] o0 /\
    Gen.Rn.v2_exp_rel [a1; a2] o1 /\
    out = o0 ++ o1.
Proof. exact Proofs.C06_BEi.bei_exp_parts. Qed.
Print Assumptions C06_bei_exp_parts.

Theorem C06_bei_Ad_parts :
  forall g0 g1 g2 g3 out,
  Gen.BEi.bei_Ad_rel [g0; g1; g2; g3] out ->
  exists o0 o1,
    Gen.SO2.so2_Ad_rel [g0; g1] o0 /\
    Gen.Rn.v2_Ad_rel [g2; g3] o1 /\
    out = blockdiag [o0; o1].
Proof. exact Proofs.C06_BEi.bei_Ad_parts. Qed.
Print Assumptions C06_bei_Ad_parts.

Theorem C06_bei_ad_parts :
  forall a0 a1 a2 out,
  Gen.BEi.bei_ad_rel [a0; a1; a2] out ->
  exists o0 o1,
    Gen.SO2.so2_ad_rel [a0] o0 /\
    Gen.Rn.v2_ad_rel [a1; a2] o1 /\
    out = blockdiag [o0; o1].
Proof. exact Proofs.C06_BEi.bei_ad_parts. Qed.
Print Assumptions C06_bei_ad_parts.

Theorem C06_bei_dr_exp_parts :
  forall a0 a1 a2 out,
  Gen.BEi.bei_dr_exp_rel [a0; a1; a2] out ->
  exists o0 o1,
    Gen.SO2.so2_dr_exp_rel [a0] o0 /\
    Gen.Rn.v2_dr_exp_rel [a1; a2] o1 /\
    out = blockdiag [o0; o1].
Proof. exact Proofs.C06_BEi.bei_dr_exp_parts. Qed.
Print Assumptions C06_bei_dr_exp_parts.

Theorem C06_bei_dr_expinv_parts :
  forall a0 a1 a2 out,
  Gen.BEi.bei_dr_expinv_rel [a0; a1; a2] out ->
  exists o0 o1,
    Gen.SO2.so2_dr_expinv_rel [a0] o0 /\
    Gen.Rn.v2_dr_expinv_rel [a1; a2] o1 /\
    out = blockdiag [o0; o1].
Proof. exact Proofs.C06_BEi.bei_dr_expinv_parts. Qed.
Print Assumptions C06_bei_dr_expinv_parts.

Theorem C06_bei_d2r_exp_parts :
  forall a0 a1 a2 out,
  Gen.BEi.bei_d2r_exp_rel [a0; a1; a2] out ->
  exists o0 o1,
    Gen.SO2.so2_d2r_exp_rel [a0] o0 /\
    Gen.Rn.v2_d2r_exp_rel [a1; a2] o1 /\
    out = bundle_hess [o0; o1].
Proof. exact Proofs.C06_BEi.bei_d2r_exp_parts. Qed.
Print Assumptions C06_bei_d2r_exp_parts.

Theorem C06_bei_d2r_expinv_parts :
  forall a0 a1 a2 out,
  Gen.BEi.bei_d2r_expinv_rel [a0; a1; a2] out ->
  exists o0 o1,
    Gen.SO2.so2_d2r_expinv_rel [a0] o0 /\
    Gen.Rn.v2_d2r_expinv_rel [a1; a2] o1 /\
    out = bundle_hess [o0; o1].
Proof. exact Proofs.C06_BEi.bei_d2r_expinv_parts. Qed.
Print Assumptions C06_bei_d2r_expinv_parts.

Theorem C06_bei_identity_parts :
  forall out, Gen.BEi.bei_identity_rel out ->
  exists o0 o1,
    Gen.SO2.so2_identity_rel o0 /\
    Gen.Rn.v2_identity_rel o1 /\
    out = o0 ++ o1.
Proof. exact Proofs.C06_BEi.bei_identity_parts. Qed.
Print Assumptions C06_bei_identity_parts.

Theorem C06_bei_part0_view :
  forall g0 g1 g2 g3 out,
  Gen.BEi.bei_part0_rel [g0; g1; g2; g3] out ->
  out = [g0; g1] /\ out = vslice [g0; g1; g2; g3] (nth 0 (psum [2%nat; 2%nat]) 0%nat) 2%nat.
Proof. exact Proofs.C06_BEi.bei_part0_view. Qed.
Print Assumptions C06_bei_part0_view.

Theorem C06_bei_part1_view :
  forall g0 g1 g2 g3 out,
  Gen.BEi.bei_part1_rel [g0; g1; g2; g3] out ->
  out = [g2; g3] /\ out = vslice [g0; g1; g2; g3] (nth 1 (psum [2%nat; 2%nat]) 0%nat) 2%nat.
Proof. exact Proofs.C06_BEi.bei_part1_view. Qed.
Print Assumptions C06_bei_part1_view.

Theorem C06_bg_comp_parts :
  forall g0 g1 g2 g3 g4 h0 h1 h2 h3 h4 out,
  Gen.BG.bg_comp_rel [g0; g1; g2; g3; g4] [h0; h1; h2; h3; h4] out ->
  exists o0 o1 o2,
    Gen.Rn.v1_comp_rel [g0] [h0] o0 /\
    Gen.C1.c1_comp_rel [g1; g2] [h1; h2] o1 /\
    Gen.SO2.so2_comp_rel [g3; g4] [h3; h4] o2 /\
    out = o0 ++ o1 ++ o2.
Proof. exact Proofs.C06_BG.bg_comp_parts. Qed.
Print Assumptions C06_bg_comp_parts.

Theorem C06_bg_inv_parts :
  forall g0 g1 g2 g3 g4 out,
  Gen.BG.bg_inv_rel [g0; g1; g2; g3; g4] out ->
  exists o0 o1 o2,
    Gen.Rn.v1_inv_rel [g0] o0 /\
    Gen.C1.c1_inv_rel [g1; g2] o1 /\
    Gen.SO2.so2_inv_rel [g3; g4] o2 /\
    out = o0 ++ o1 ++ o2.
Proof. exact Proofs.C06_BG.bg_inv_parts. Qed.
Print Assumptions C06_bg_inv_parts.

Theorem C06_bg_log_parts :
  forall g0 g1 g2 g3 g4 out,
  Gen.BG.bg_log_rel [g0; g1; g2; g3; g4] out ->
  exists o0 o1 o2,
    Gen.Rn.v1_log_rel [g0] o0 /\
    Gen.C1.c1_log_rel [g1; g2] o1 /\
    Gen.SO2.so2_log_rel [g3; g4] o2 /\
    out = o0 ++ o1 ++ o2.
Proof. exact Proofs.C06_BG.bg_log_parts. Qed.
Print Assumptions C06_bg_log_parts.

Theorem C06_bg_exp_parts :
  forall a0 a1 a2 a3 out,
  Gen.BG.bg_exp_rel [a0; a1; a2; a3] out ->
  exists o0 o1 o2,
    Gen.Rn.v1_exp_rel [a0] o0 /\
    Gen.C1.c1_exp_rel [a1; a2] o1 /\
    Gen.SO2.so2_exp_rel [a3] o2 /\
    out = o0 ++ o1 ++ o2.
Proof. exact Proofs.C06_BG.bg_exp_parts. Qed.
Print Assumptions C06_bg_exp_parts.

Theorem C06_bg_Ad_parts :
  forall g0 g1 g2 g3 g4 out,
  Gen.BG.bg_Ad_rel [g0; g1; g2; g3; g4] out ->
  exists o0 o1 o2,
    Gen.Rn.v1_Ad_rel [g0] o0 /\
    Gen.C1.c1_Ad_rel [g1; g2] o1 /\
    Gen.SO2.so2_Ad_rel [g3; g4] o2 /\
    out = blockdiag [o0; o1; o2].
Proof. exact Proofs.C06_BG.bg_Ad_parts. Qed.
Print Assumptions C06_bg_Ad_parts.

Theorem C06_bg_ad_parts :
  forall a0 a1 a2 a3 out,
  Gen.BG.bg_ad_rel [a0; a1; a2; a3] out ->
  exists o0 o1 o2,
    Gen.Rn.v1_ad_rel [a0] o0 /\
    Gen.C1.c1_ad_rel [a1; a2] o1 /\
    Gen.SO2.so2_ad_rel [a3] o2 /\
    out = blockdiag [o0; o1; o2].
Proof. exact Proofs.C06_BG.bg_ad_parts. Qed.
Print Assumptions C06_bg_ad_parts.

Theorem C06_bg_dr_exp_parts :
  forall a0 a1 a2 a3 out,
  Gen.BG.bg_dr_exp_rel [a0; a1; a2; a3] out ->
  exists o0 o1 o2,
    Gen.Rn.v1_dr_exp_rel [a0] o0 /\
    Gen.C1.c1_dr_exp_rel [a1; a2] o1 /\
    Gen.SO2.so2_dr_exp_rel [a3] o2 /\
    out = blockdiag [o0; o1; o2].
Proof. exact Proofs.C06_BG.bg_dr_exp_parts. Qed.
Print Assumptions C06_bg_dr_exp_parts.

Theorem C06_bg_dr_expinv_parts :
  forall a0 a1 a2 a3 out,
  Gen.BG.bg_dr_expinv_rel [a0; a1; a2; a3] out ->
  exists o0 o1 o2,
    Gen.Rn.v1_dr_expinv_rel [a0] o0 /\
    Gen.C1.c1_dr_expinv_rel [a1; a2] o1 /\
    Gen.SO2.so2_dr_expinv_rel [a3] o2 /\
    out = blockdiag [o0; o1; o2].
Proof. exact Proofs.C06_BG.bg_dr_expinv_parts. Qed.
Print Assumptions C06_bg_dr_expinv_parts.

Theorem C06_bg_d2r_exp_parts :
  forall a0 a1 a2 a3 out,
  Gen.BG.bg_d2r_exp_rel [a0; a1; a2; a3] out ->
  exists o0 o1 o2,
    Gen.Rn.v1_d2r_exp_rel [a0] o0 /\
    Gen.C1.c1_d2r_exp_rel [a1; a2] o1 /\
    Gen.SO2.so2_d2r_exp_rel [a3] o2 /\
    out = bundle_hess [o0; o1; o2].
Proof. exact Proofs.C06_BG.bg_d2r_exp_parts. Qed.
Print Assumptions C06_bg_d2r_exp_parts.

Theorem C06_bg_d2r_expinv_parts :
  forall a0 a1 a2 a3 out,
  Gen.BG.bg_d2r_expinv_rel [a0; a1; a2; a3] out ->
  exists o0 o1 o2,
    Gen.Rn.v1_d2r_expinv_rel [a0] o0 /\
    Gen.C1.c1_d2r_expinv_rel [a1; a2] o1 /\
    Gen.SO2.so2_d2r_expinv_rel [a3] o2 /\
    out = bundle_hess [o0; o1; o2].
Proof. exact Proofs.C06_BG.bg_d2r_expinv_parts. Qed.
Print Assumptions C06_bg_d2r_expinv_parts.

Theorem C06_bg_identity_parts :
  forall out, Gen.BG.bg_identity_rel out ->
  exists o0 o1 o2,
    Gen.Rn.v1_identity_rel o0 /\
    Gen.C1.c1_identity_rel o1 /\
    Gen.SO2.so2_identity_rel o2 /\
    out = o0 ++ o1 ++ o2.
Proof. exact Proofs.C06_BG.bg_identity_parts. Qed.
Print Assumptions C06_bg_identity_parts.

Theorem C06_bg_part0_view :
  forall g0 g1 g2 g3 g4 out,
  Gen.BG.bg_part0_rel [g0; g1; g2; g3; g4] out ->
  out = [g0] /\ out = vslice [g0; g1; g2; g3; g4] (nth 0 (psum [1%nat; 2%nat; 2%nat]) 0%nat) 1%nat.
Proof. exact Proofs.C06_BG.bg_part0_view. Qed.
Print Assumptions C06_bg_part0_view.

Theorem C06_bg_part1_view :
  forall g0 g1 g2 g3 g4 out,
  Gen.BG.bg_part1_rel [g0; g1; g2; g3; g4] out ->
  out = [g1; g2] /\ out = vslice [g0; g1; g2; g3; g4] (nth 1 (psum [1%nat; 2%nat; 2%nat]) 0%nat) 2%nat.
Proof. exact Proofs.C06_BG.bg_part1_view. Qed.
Print Assumptions C06_bg_part1_view.

Theorem C06_bg_part2_view :
  forall g0 g1 g2 g3 g4 out,
  Gen.BG.bg_part2_rel [g0; g1; g2; g3; g4] out ->
  out = [g3; g4] /\ out = vslice [g0; g1; g2; g3; g4] (nth 2 (psum [1%nat; 2%nat; 2%nat]) 0%nat) 2%nat.
Proof. exact Proofs.C06_BG.bg_part2_view. Qed.
Print Assumptions C06_bg_part2_view.

Theorem C06_v1_comp_additive :
  forall g0 h0 out,
  Gen.Rn.v1_comp_rel [g0] [h0] out -> out = vadd [g0] [h0].
Proof. exact Proofs.C06_Rn.v1_comp_additive. Qed.
Print Assumptions C06_v1_comp_additive.

Theorem C06_v1_inv_additive :
  forall g0 out,
  Gen.Rn.v1_inv_rel [g0] out -> out = vneg [g0].
Proof. exact Proofs.C06_Rn.v1_inv_additive. Qed.
Print Assumptions C06_v1_inv_additive.

Theorem C06_v1_identity_additive :
  forall out,
  Gen.Rn.v1_identity_rel  out -> out = vzero 1.
Proof. exact Proofs.C06_Rn.v1_identity_additive. Qed.
Print Assumptions C06_v1_identity_additive.

Theorem C06_v1_exp_additive :
  forall a0 out,
  Gen.Rn.v1_exp_rel [a0] out -> out = [a0].
Proof. exact Proofs.C06_Rn.v1_exp_additive. Qed.
Print Assumptions C06_v1_exp_additive.

Theorem C06_v1_log_additive :
  forall g0 out,
  Gen.Rn.v1_log_rel [g0] out -> out = [g0].
Proof. exact Proofs.C06_Rn.v1_log_additive. Qed.
Print Assumptions C06_v1_log_additive.

Theorem C06_v1_Ad_additive :
  forall g0 out,
  Gen.Rn.v1_Ad_rel [g0] out -> out = mI 1.
Proof. exact Proofs.C06_Rn.v1_Ad_additive. Qed.
Print Assumptions C06_v1_Ad_additive.

Theorem C06_v1_ad_additive :
  forall a0 out,
  Gen.Rn.v1_ad_rel [a0] out -> out = mzero 1 1.
Proof. exact Proofs.C06_Rn.v1_ad_additive. Qed.
Print Assumptions C06_v1_ad_additive.

Theorem C06_v1_dr_exp_additive :
  forall a0 out,
  Gen.Rn.v1_dr_exp_rel [a0] out -> out = mI 1.
Proof. exact Proofs.C06_Rn.v1_dr_exp_additive. Qed.
Print Assumptions C06_v1_dr_exp_additive.

Theorem C06_v1_dr_expinv_additive :
  forall a0 out,
  Gen.Rn.v1_dr_expinv_rel [a0] out -> out = mI 1.
Proof. exact Proofs.C06_Rn.v1_dr_expinv_additive. Qed.
Print Assumptions C06_v1_dr_expinv_additive.

Theorem C06_v1_d2r_exp_additive :
  forall a0 out,
  Gen.Rn.v1_d2r_exp_rel [a0] out -> out = mzero 1 1.
Proof. exact Proofs.C06_Rn.v1_d2r_exp_additive. Qed.
Print Assumptions C06_v1_d2r_exp_additive.

Theorem C06_v1_d2r_expinv_additive :
  forall a0 out,
  Gen.Rn.v1_d2r_expinv_rel [a0] out -> out = mzero 1 1.
Proof. exact Proofs.C06_Rn.v1_d2r_expinv_additive. Qed.
Print Assumptions C06_v1_d2r_expinv_additive.

Theorem C06_v2_comp_additive :
  forall g0 g1 h0 h1 out,
  Gen.Rn.v2_comp_rel [g0; g1] [h0; h1] out -> out = vadd [g0; g1] [h0; h1].
Proof. exact Proofs.C06_Rn.v2_comp_additive. Qed.
Print Assumptions C06_v2_comp_additive.

Theorem C06_v2_inv_additive :
  forall g0 g1 out,
  Gen.Rn.v2_inv_rel [g0; g1] out -> out = vneg [g0; g1].
Proof. exact Proofs.C06_Rn.v2_inv_additive. Qed.
Print Assumptions C06_v2_inv_additive.

Theorem C06_v2_identity_additive :
  forall out,
  Gen.Rn.v2_identity_rel  out -> out = vzero 2.
Proof. exact Proofs.C06_Rn.v2_identity_additive. Qed.
Print Assumptions C06_v2_identity_additive.

Theorem C06_v2_exp_additive :
  forall a0 a1 out,
  Gen.Rn.v2_exp_rel [a0; a1] out -> out = [a0; a1].
Proof. exact Proofs.C06_Rn.v2_exp_additive. Qed.
Print Assumptions C06_v2_exp_additive.

Theorem C06_v2_log_additive :
  forall g0 g1 out,
  Gen.Rn.v2_log_rel [g0; g1] out -> out = [g0; g1].
Proof. exact Proofs.C06_Rn.v2_log_additive. Qed.
Print Assumptions C06_v2_log_additive.

Theorem C06_v2_Ad_additive :
  forall g0 g1 out,
  Gen.Rn.v2_Ad_rel [g0; g1] out -> out = mI 2.
Proof. exact Proofs.C06_Rn.v2_Ad_additive. Qed.
Print Assumptions C06_v2_Ad_additive.

Theorem C06_v2_ad_additive :
  forall a0 a1 out,
  Gen.Rn.v2_ad_rel [a0; a1] out -> out = mzero 2 2.
Proof. exact Proofs.C06_Rn.v2_ad_additive. Qed.
Print Assumptions C06_v2_ad_additive.

Theorem C06_v2_dr_exp_additive :
  forall a0 a1 out,
  Gen.Rn.v2_dr_exp_rel [a0; a1] out -> out = mI 2.
Proof. exact Proofs.C06_Rn.v2_dr_exp_additive. Qed.
Print Assumptions C06_v2_dr_exp_additive.

Theorem C06_v2_dr_expinv_additive :
  forall a0 a1 out,
  Gen.Rn.v2_dr_expinv_rel [a0; a1] out -> out = mI 2.
Proof. exact Proofs.C06_Rn.v2_dr_expinv_additive. Qed.
Print Assumptions C06_v2_dr_expinv_additive.

Theorem C06_v2_d2r_exp_additive :
  forall a0 a1 out,
  Gen.Rn.v2_d2r_exp_rel [a0; a1] out -> out = mzero 2 4.
Proof. exact Proofs.C06_Rn.v2_d2r_exp_additive. Qed.
Print Assumptions C06_v2_d2r_exp_additive.

Theorem C06_v2_d2r_expinv_additive :
  forall a0 a1 out,
  Gen.Rn.v2_d2r_expinv_rel [a0; a1] out -> out = mzero 2 4.
Proof. exact Proofs.C06_Rn.v2_d2r_expinv_additive. Qed.
Print Assumptions C06_v2_d2r_expinv_additive.

Theorem C06_v3_comp_additive :
  forall g0 g1 g2 h0 h1 h2 out,
  Gen.Rn.v3_comp_rel [g0; g1; g2] [h0; h1; h2] out -> out = vadd [g0; g1; g2] [h0; h1; h2].
Proof. exact Proofs.C06_Rn.v3_comp_additive. Qed.
Print Assumptions C06_v3_comp_additive.

Theorem C06_v3_inv_additive :
  forall g0 g1 g2 out,
  Gen.Rn.v3_inv_rel [g0; g1; g2] out -> out = vneg [g0; g1; g2].
Proof. exact Proofs.C06_Rn.v3_inv_additive. Qed.
Print Assumptions C06_v3_inv_additive.

Theorem C06_v3_identity_additive :
  forall out,
  Gen.Rn.v3_identity_rel  out -> out = vzero 3.
Proof. exact Proofs.C06_Rn.v3_identity_additive. Qed.
Print Assumptions C06_v3_identity_additive.

Theorem C06_v3_exp_additive :
  forall a0 a1 a2 out,
  Gen.Rn.v3_exp_rel [a0; a1; a2] out -> out = [a0; a1; a2].
Proof. exact Proofs.C06_Rn.v3_exp_additive. Qed.
Print Assumptions C06_v3_exp_additive.

Theorem C06_v3_log_additive :
  forall g0 g1 g2 out,
  Gen.Rn.v3_log_rel [g0; g1; g2] out -> out = [g0; g1; g2].
Proof. exact Proofs.C06_Rn.v3_log_additive. Qed.
Print Assumptions C06_v3_log_additive.

Theorem C06_v3_Ad_additive :
  forall g0 g1 g2 out,
  Gen.Rn.v3_Ad_rel [g0; g1; g2] out -> out = mI 3.
Proof. exact Proofs.C06_Rn.v3_Ad_additive. Qed.
Print Assumptions C06_v3_Ad_additive.

Theorem C06_v3_ad_additive :
  forall a0 a1 a2 out,
  Gen.Rn.v3_ad_rel [a0; a1; a2] out -> out = mzero 3 3.
Proof. exact Proofs.C06_Rn.v3_ad_additive. Qed.
Print Assumptions C06_v3_ad_additive.

Theorem C06_v3_dr_exp_additive :
  forall a0 a1 a2 out,
  Gen.Rn.v3_dr_exp_rel [a0; a1; a2] out -> out = mI 3.
Proof. exact Proofs.C06_Rn.v3_dr_exp_additive. Qed.
Print Assumptions C06_v3_dr_exp_additive.

Theorem C06_v3_dr_expinv_additive :
  forall a0 a1 a2 out,
  Gen.Rn.v3_dr_expinv_rel [a0; a1; a2] out -> out = mI 3.
Proof. exact Proofs.C06_Rn.v3_dr_expinv_additive. Qed.
Print Assumptions C06_v3_dr_expinv_additive.

Theorem C06_v3_d2r_exp_additive :
  forall a0 a1 a2 out,
  Gen.Rn.v3_d2r_exp_rel [a0; a1; a2] out -> out = mzero 3 9.
Proof. exact Proofs.C06_Rn.v3_d2r_exp_additive. Qed.
Print Assumptions C06_v3_d2r_exp_additive.

Theorem C06_v3_d2r_expinv_additive :
  forall a0 a1 a2 out,
  Gen.Rn.v3_d2r_expinv_rel [a0; a1; a2] out -> out = mzero 3 9.
Proof. exact Proofs.C06_Rn.v3_d2r_expinv_additive. Qed.
Print Assumptions C06_v3_d2r_expinv_additive.

Theorem C06_v4_comp_additive :
  forall g0 g1 g2 g3 h0 h1 h2 h3 out,
  Gen.Rn.v4_comp_rel [g0; g1; g2; g3] [h0; h1; h2; h3] out -> out = vadd [g0; g1; g2; g3] [h0; h1; h2; h3].
Proof. exact Proofs.C06_Rn.v4_comp_additive. Qed.
Print Assumptions C06_v4_comp_additive.

Theorem C06_v4_inv_additive :
  forall g0 g1 g2 g3 out,
  Gen.Rn.v4_inv_rel [g0; g1; g2; g3] out -> out = vneg [g0; g1; g2; g3].
Proof. exact Proofs.C06_Rn.v4_inv_additive. Qed.
Print Assumptions C06_v4_inv_additive.

Theorem C06_v4_identity_additive :
  forall out,
  Gen.Rn.v4_identity_rel  out -> out = vzero 4.
Proof. exact Proofs.C06_Rn.v4_identity_additive. Qed.
Print Assumptions C06_v4_identity_additive.

Theorem C06_v4_exp_additive :
  forall a0 a1 a2 a3 out,
  Gen.Rn.v4_exp_rel [a0; a1; a2; a3] out -> out = [a0; a1; a2; a3].
Proof. exact Proofs.C06_Rn.v4_exp_additive. Qed.
Print Assumptions C06_v4_exp_additive.

Theorem C06_v4_log_additive :
  forall g0 g1 g2 g3 out,
  Gen.Rn.v4_log_rel [g0; g1; g2; g3] out -> out = [g0; g1; g2; g3].
Proof. exact Proofs.C06_Rn.v4_log_additive. Qed.
Print Assumptions C06_v4_log_additive.

Theorem C06_v4_Ad_additive :
  forall g0 g1 g2 g3 out,
  Gen.Rn.v4_Ad_rel [g0; g1; g2; g3] out -> out = mI 4.
Proof. exact Proofs.C06_Rn.v4_Ad_additive. Qed.
Print Assumptions C06_v4_Ad_additive.

Theorem C06_v4_ad_additive :
  forall a0 a1 a2 a3 out,
  Gen.Rn.v4_ad_rel [a0; a1; a2; a3] out -> out = mzero 4 4.
Proof. exact Proofs.C06_Rn.v4_ad_additive. Qed.
Print Assumptions C06_v4_ad_additive.

Theorem C06_v4_dr_exp_additive :
  forall a0 a1 a2 a3 out,
  Gen.Rn.v4_dr_exp_rel [a0; a1; a2; a3] out -> out = mI 4.
Proof. exact Proofs.C06_Rn.v4_dr_exp_additive. Qed.
Print Assumptions C06_v4_dr_exp_additive.

Theorem C06_v4_dr_expinv_additive :
  forall a0 a1 a2 a3 out,
  Gen.Rn.v4_dr_expinv_rel [a0; a1; a2; a3] out -> out = mI 4.
Proof. exact Proofs.C06_Rn.v4_dr_expinv_additive. Qed.
Print Assumptions C06_v4_dr_expinv_additive.

Theorem C06_v4_d2r_exp_additive :
  forall a0 a1 a2 a3 out,
  Gen.Rn.v4_d2r_exp_rel [a0; a1; a2; a3] out -> out = mzero 4 16.
Proof. exact Proofs.C06_Rn.v4_d2r_exp_additive. Qed.
Print Assumptions C06_v4_d2r_exp_additive.

Theorem C06_v4_d2r_expinv_additive :
  forall a0 a1 a2 a3 out,
  Gen.Rn.v4_d2r_expinv_rel [a0; a1; a2; a3] out -> out = mzero 4 16.
Proof. exact Proofs.C06_Rn.v4_d2r_expinv_additive. Qed.
Print Assumptions C06_v4_d2r_expinv_additive.

Theorem C06_vx0_comp_additive :
  forall out,
  Gen.Rn.vx0_comp_rel [] [] out -> out = vadd [] [].
Proof. exact Proofs.C06_Rn.vx0_comp_additive. Qed.
Print Assumptions C06_vx0_comp_additive.

Theorem C06_vx0_inv_additive :
  forall out,
  Gen.Rn.vx0_inv_rel [] out -> out = vneg [].
Proof. exact Proofs.C06_Rn.vx0_inv_additive. Qed.
Print Assumptions C06_vx0_inv_additive.

Theorem C06_vx0_identity_additive :
  forall out,
  Gen.Rn.vx0_identity_rel  out -> out = vzero 0.
Proof. exact Proofs.C06_Rn.vx0_identity_additive. Qed.
Print Assumptions C06_vx0_identity_additive.

Theorem C06_vx0_exp_additive :
  forall out,
  Gen.Rn.vx0_exp_rel [] out -> out = [].
Proof. exact Proofs.C06_Rn.vx0_exp_additive. Qed.
Print Assumptions C06_vx0_exp_additive.

Theorem C06_vx0_log_additive :
  forall out,
  Gen.Rn.vx0_log_rel [] out -> out = [].
Proof. exact Proofs.C06_Rn.vx0_log_additive. Qed.
Print Assumptions C06_vx0_log_additive.

Theorem C06_vx0_Ad_additive :
  forall out,
  Gen.Rn.vx0_Ad_rel [] out -> out = mI 0.
Proof. exact Proofs.C06_Rn.vx0_Ad_additive. Qed.
Print Assumptions C06_vx0_Ad_additive.

Theorem C06_vx0_ad_additive :
  forall out,
  Gen.Rn.vx0_ad_rel [] out -> out = mzero 0 0.
Proof. exact Proofs.C06_Rn.vx0_ad_additive. Qed.
Print Assumptions C06_vx0_ad_additive.

Theorem C06_vx0_dr_exp_additive :
  forall out,
  Gen.Rn.vx0_dr_exp_rel [] out -> out = mI 0.
Proof. exact Proofs.C06_Rn.vx0_dr_exp_additive. Qed.
Print Assumptions C06_vx0_dr_exp_additive.

Theorem C06_vx0_dr_expinv_additive :
  forall out,
  Gen.Rn.vx0_dr_expinv_rel [] out -> out = mI 0.
Proof. exact Proofs.C06_Rn.vx0_dr_expinv_additive. Qed.
Print Assumptions C06_vx0_dr_expinv_additive.

Theorem C06_vx0_d2r_exp_additive :
  forall out,
  Gen.Rn.vx0_d2r_exp_rel [] out -> out = mzero 0 0.
Proof. exact Proofs.C06_Rn.vx0_d2r_exp_additive. Qed.
Print Assumptions C06_vx0_d2r_exp_additive.

Theorem C06_vx0_d2r_expinv_additive :
  forall out,
  Gen.Rn.vx0_d2r_expinv_rel [] out -> out = mzero 0 0.
Proof. exact Proofs.C06_Rn.vx0_d2r_expinv_additive. Qed.
Print Assumptions C06_vx0_d2r_expinv_additive.

Theorem C06_vx1_comp_additive :
  forall g0 h0 out,
  Gen.Rn.vx1_comp_rel [g0] [h0] out -> out = vadd [g0] [h0].
Proof. exact Proofs.C06_Rn.vx1_comp_additive. Qed.
Print Assumptions C06_vx1_comp_additive.

Theorem C06_vx1_inv_additive :
  forall g0 out,
  Gen.Rn.vx1_inv_rel [g0] out -> out = vneg [g0].
Proof. exact Proofs.C06_Rn.vx1_inv_additive. Qed.
Print Assumptions C06_vx1_inv_additive.

Theorem C06_vx1_identity_additive :
  forall out,
  Gen.Rn.vx1_identity_rel  out -> out = vzero 1.
Proof. exact Proofs.C06_Rn.vx1_identity_additive. Qed.
Print Assumptions C06_vx1_identity_additive.

Theorem C06_vx1_exp_additive :
  forall a0 out,
  Gen.Rn.vx1_exp_rel [a0] out -> out = [a0].
Proof. exact Proofs.C06_Rn.vx1_exp_additive. Qed.
Print Assumptions C06_vx1_exp_additive.

Theorem C06_vx1_log_additive :
  forall g0 out,
  Gen.Rn.vx1_log_rel [g0] out -> out = [g0].
Proof. exact Proofs.C06_Rn.vx1_log_additive. Qed.
Print Assumptions C06_vx1_log_additive.

Theorem C06_vx1_Ad_additive :
  forall g0 out,
  Gen.Rn.vx1_Ad_rel [g0] out -> out = mI 1.
Proof. exact Proofs.C06_Rn.vx1_Ad_additive. Qed.
Print Assumptions C06_vx1_Ad_additive.

Theorem C06_vx1_ad_additive :
  forall a0 out,
  Gen.Rn.vx1_ad_rel [a0] out -> out = mzero 1 1.
Proof. exact Proofs.C06_Rn.vx1_ad_additive. Qed.
Print Assumptions C06_vx1_ad_additive.

Theorem C06_vx1_dr_exp_additive :
  forall a0 out,
  Gen.Rn.vx1_dr_exp_rel [a0] out -> out = mI 1.
Proof. exact Proofs.C06_Rn.vx1_dr_exp_additive. Qed.
Print Assumptions C06_vx1_dr_exp_additive.

Theorem C06_vx1_dr_expinv_additive :
  forall a0 out,
  Gen.Rn.vx1_dr_expinv_rel [a0] out -> out = mI 1.
Proof. exact Proofs.C06_Rn.vx1_dr_expinv_additive. Qed.
Print Assumptions C06_vx1_dr_expinv_additive.

Theorem C06_vx1_d2r_exp_additive :
  forall a0 out,
  Gen.Rn.vx1_d2r_exp_rel [a0] out -> out = mzero 1 1.
Proof. exact Proofs.C06_Rn.vx1_d2r_exp_additive. Qed.
Print Assumptions C06_vx1_d2r_exp_additive.

Theorem C06_vx1_d2r_expinv_additive :
  forall a0 out,
  Gen.Rn.vx1_d2r_expinv_rel [a0] out -> out = mzero 1 1.
Proof. exact Proofs.C06_Rn.vx1_d2r_expinv_additive. Qed.
Print Assumptions C06_vx1_d2r_expinv_additive.

Theorem C06_vx3_comp_additive :
  forall g0 g1 g2 h0 h1 h2 out,
  Gen.Rn.vx3_comp_rel [g0; g1; g2] [h0; h1; h2] out -> out = vadd [g0; g1; g2] [h0; h1; h2].
Proof. exact Proofs.C06_Rn.vx3_comp_additive. Qed.
Print Assumptions C06_vx3_comp_additive.

Theorem C06_vx3_inv_additive :
  forall g0 g1 g2 out,
  Gen.Rn.vx3_inv_rel [g0; g1; g2] out -> out = vneg [g0; g1; g2].
Proof. exact Proofs.C06_Rn.vx3_inv_additive. Qed.
Print Assumptions C06_vx3_inv_additive.

Theorem C06_vx3_identity_additive :
  forall out,
  Gen.Rn.vx3_identity_rel  out -> out = vzero 3.
Proof. exact Proofs.C06_Rn.vx3_identity_additive. Qed.
Print Assumptions C06_vx3_identity_additive.

Theorem C06_vx3_exp_additive :
  forall a0 a1 a2 out,
  Gen.Rn.vx3_exp_rel [a0; a1; a2] out -> out = [a0; a1; a2].
Proof. exact Proofs.C06_Rn.vx3_exp_additive. Qed.
Print Assumptions C06_vx3_exp_additive.

Theorem C06_vx3_log_additive :
  forall g0 g1 g2 out,
  Gen.Rn.vx3_log_rel [g0; g1; g2] out -> out = [g0; g1; g2].
Proof. exact Proofs.C06_Rn.vx3_log_additive. Qed.
Print Assumptions C06_vx3_log_additive.

Theorem C06_vx3_Ad_additive :
  forall g0 g1 g2 out,
  Gen.Rn.vx3_Ad_rel [g0; g1; g2] out -> out = mI 3.
Proof. exact Proofs.C06_Rn.vx3_Ad_additive. Qed.
Print Assumptions C06_vx3_Ad_additive.

Theorem C06_vx3_ad_additive :
  forall a0 a1 a2 out,
  Gen.Rn.vx3_ad_rel [a0; a1; a2] out -> out = mzero 3 3.
Proof. exact Proofs.C06_Rn.vx3_ad_additive. Qed.
Print Assumptions C06_vx3_ad_additive.

Theorem C06_vx3_dr_exp_additive :
  forall a0 a1 a2 out,
  Gen.Rn.vx3_dr_exp_rel [a0; a1; a2] out -> out = mI 3.
Proof. exact Proofs.C06_Rn.vx3_dr_exp_additive. Qed.
Print Assumptions C06_vx3_dr_exp_additive.

Theorem C06_vx3_dr_expinv_additive :
  forall a0 a1 a2 out,
  Gen.Rn.vx3_dr_expinv_rel [a0; a1; a2] out -> out = mI 3.
Proof. exact Proofs.C06_Rn.vx3_dr_expinv_additive. Qed.
Print Assumptions C06_vx3_dr_expinv_additive.

Theorem C06_vx3_d2r_exp_additive :
  forall a0 a1 a2 out,
  Gen.Rn.vx3_d2r_exp_rel [a0; a1; a2] out -> out = mzero 3 9.
Proof. exact Proofs.C06_Rn.vx3_d2r_exp_additive. Qed.
Print Assumptions C06_vx3_d2r_exp_additive.

Theorem C06_vx3_d2r_expinv_additive :
  forall a0 a1 a2 out,
  Gen.Rn.vx3_d2r_expinv_rel [a0; a1; a2] out -> out = mzero 3 9.
Proof. exact Proofs.C06_Rn.vx3_d2r_expinv_additive. Qed.
Print Assumptions C06_vx3_d2r_expinv_additive.

Theorem C06_vx5_comp_additive :
  forall g0 g1 g2 g3 g4 h0 h1 h2 h3 h4 out,
  Gen.Rn.vx5_comp_rel [g0; g1; g2; g3; g4] [h0; h1; h2; h3; h4] out -> out = vadd [g0; g1; g2; g3; g4] [h0; h1; h2; h3; h4].
Proof. exact Proofs.C06_Rn.vx5_comp_additive. Qed.
Print Assumptions C06_vx5_comp_additive.

Theorem C06_vx5_inv_additive :
  forall g0 g1 g2 g3 g4 out,
  Gen.Rn.vx5_inv_rel [g0; g1; g2; g3; g4] out -> out = vneg [g0; g1; g2; g3; g4].
Proof. exact Proofs.C06_Rn.vx5_inv_additive. Qed.
Print Assumptions C06_vx5_inv_additive.

Theorem C06_vx5_identity_additive :
  forall out,
  Gen.Rn.vx5_identity_rel  out -> out = vzero 5.
Proof. exact Proofs.C06_Rn.vx5_identity_additive. Qed.
Print Assumptions C06_vx5_identity_additive.

Theorem C06_vx5_exp_additive :
  forall a0 a1 a2 a3 a4 out,
  Gen.Rn.vx5_exp_rel [a0; a1; a2; a3; a4] out -> out = [a0; a1; a2; a3; a4].
Proof. exact Proofs.C06_Rn.vx5_exp_additive. Qed.
Print Assumptions C06_vx5_exp_additive.

Theorem C06_vx5_log_additive :
  forall g0 g1 g2 g3 g4 out,
  Gen.Rn.vx5_log_rel [g0; g1; g2; g3; g4] out -> out = [g0; g1; g2; g3; g4].
Proof. exact Proofs.C06_Rn.vx5_log_additive. Qed.
Print Assumptions C06_vx5_log_additive.

Theorem C06_vx5_Ad_additive :
  forall g0 g1 g2 g3 g4 out,
  Gen.Rn.vx5_Ad_rel [g0; g1; g2; g3; g4] out -> out = mI 5.
Proof. exact Proofs.C06_Rn.vx5_Ad_additive. Qed.
Print Assumptions C06_vx5_Ad_additive.

Theorem C06_vx5_ad_additive :
  forall a0 a1 a2 a3 a4 out,
  Gen.Rn.vx5_ad_rel [a0; a1; a2; a3; a4] out -> out = mzero 5 5.
Proof. exact Proofs.C06_Rn.vx5_ad_additive. Qed.
Print Assumptions C06_vx5_ad_additive.

Theorem C06_vx5_dr_exp_additive :
  forall a0 a1 a2 a3 a4 out,
  Gen.Rn.vx5_dr_exp_rel [a0; a1; a2; a3; a4] out -> out = mI 5.
Proof. exact Proofs.C06_Rn.vx5_dr_exp_additive. Qed.
Print Assumptions C06_vx5_dr_exp_additive.

Theorem C06_vx5_dr_expinv_additive :
  forall a0 a1 a2 a3 a4 out,
  Gen.Rn.vx5_dr_expinv_rel [a0; a1; a2; a3; a4] out -> out = mI 5.
Proof. exact Proofs.C06_Rn.vx5_dr_expinv_additive. Qed.
Print Assumptions C06_vx5_dr_expinv_additive.

Theorem C06_vx5_d2r_exp_additive :
  forall a0 a1 a2 a3 a4 out,
  Gen.Rn.vx5_d2r_exp_rel [a0; a1; a2; a3; a4] out -> out = mzero 5 25.
Proof. exact Proofs.C06_Rn.vx5_d2r_exp_additive. Qed.
Print Assumptions C06_vx5_d2r_exp_additive.

Theorem C06_vx5_d2r_expinv_additive :
  forall a0 a1 a2 a3 a4 out,
  Gen.Rn.vx5_d2r_expinv_rel [a0; a1; a2; a3; a4] out -> out = mzero 5 25.
Proof. exact Proofs.C06_Rn.vx5_d2r_expinv_additive. Qed.
Print Assumptions C06_vx5_d2r_expinv_additive.

Theorem C06_sc_comp_additive :
  forall g0 h0 out,
  Gen.Rn.sc_comp_rel [g0] [h0] out -> out = vadd [g0] [h0].
Proof. exact Proofs.C06_Rn.sc_comp_additive. Qed.
Print Assumptions C06_sc_comp_additive.

Theorem C06_sc_inv_additive :
  forall g0 out,
  Gen.Rn.sc_inv_rel [g0] out -> out = vneg [g0].
Proof. exact Proofs.C06_Rn.sc_inv_additive. Qed.
Print Assumptions C06_sc_inv_additive.

Theorem C06_sc_identity_additive :
  forall out,
  Gen.Rn.sc_identity_rel  out -> out = vzero 1.
Proof. exact Proofs.C06_Rn.sc_identity_additive. Qed.
Print Assumptions C06_sc_identity_additive.

Theorem C06_sc_exp_additive :
  forall a0 out,
  Gen.Rn.sc_exp_rel [a0] out -> out = [a0].
Proof. exact Proofs.C06_Rn.sc_exp_additive. Qed.
Print Assumptions C06_sc_exp_additive.

Theorem C06_sc_log_additive :
  forall g0 out,
  Gen.Rn.sc_log_rel [g0] out -> out = [g0].
Proof. exact Proofs.C06_Rn.sc_log_additive. Qed.
Print Assumptions C06_sc_log_additive.

Theorem C06_sc_Ad_additive :
  forall g0 out,
  Gen.Rn.sc_Ad_rel [g0] out -> out = mI 1.
Proof. exact Proofs.C06_Rn.sc_Ad_additive. Qed.
Print Assumptions C06_sc_Ad_additive.

Theorem C06_sc_ad_additive :
  forall a0 out,
  Gen.Rn.sc_ad_rel [a0] out -> out = mzero 1 1.
Proof. exact Proofs.C06_Rn.sc_ad_additive. Qed.
Print Assumptions C06_sc_ad_additive.

Theorem C06_sc_dr_exp_additive :
  forall a0 out,
  Gen.Rn.sc_dr_exp_rel [a0] out -> out = mI 1.
Proof. exact Proofs.C06_Rn.sc_dr_exp_additive. Qed.
Print Assumptions C06_sc_dr_exp_additive.

Theorem C06_sc_dr_expinv_additive :
  forall a0 out,
  Gen.Rn.sc_dr_expinv_rel [a0] out -> out = mI 1.
Proof. exact Proofs.C06_Rn.sc_dr_expinv_additive. Qed.
Print Assumptions C06_sc_dr_expinv_additive.

Theorem C06_sc_d2r_exp_additive :
  forall a0 out,
  Gen.Rn.sc_d2r_exp_rel [a0] out -> out = mzero 1 1.
Proof. exact Proofs.C06_Rn.sc_d2r_exp_additive. Qed.
Print Assumptions C06_sc_d2r_exp_additive.

Theorem C06_sc_d2r_expinv_additive :
  forall a0 out,
  Gen.Rn.sc_d2r_expinv_rel [a0] out -> out = mzero 1 1.
Proof. exact Proofs.C06_Rn.sc_d2r_expinv_additive. Qed.
Print Assumptions C06_sc_d2r_expinv_additive.

