(* Property C06: the property theorems and nothing else (thorough tier: the most expensive instances).  Each is closed by the lemma of the same
   name proved in Proofs/C06_<unit>.v against the generated model; Print Assumptions lists the axioms. *)
From Coq Require Import Reals List Lra.
From SV Require Import Base.GenPrelude Base.Mat Doc.Groups.
From SV Require Gen.SO2.
From SV Require Gen.SO3.
From SV Require Gen.SE2.
From SV Require Gen.SE3.
From SV Require Gen.SE3H.
From SV Require Gen.C1.
From SV Require Gen.Rn.
From SV Require Gen.BA.
From SV Require Gen.BB.
From SV Require Gen.BC.
From SV Require Gen.BD.
From SV Require Gen.BEi.
From SV Require Gen.BE.
From SV Require Gen.BF.
From SV Require Gen.BG.
From SV Require Proofs.C06_BE.
From SV Require Proofs.C06_BF.
Import ListNotations.
Local Open Scope R_scope.

Theorem C06_be_comp_parts :
  forall g0 g1 g2 g3 g4 g5 g6 g7 g8 g9 g10 h0 h1 h2 h3 h4 h5 h6 h7 h8 h9 h10 out,
  Gen.BE.be_comp_rel [g0; g1; g2; g3; g4; g5; g6; g7; g8; g9; g10] [h0; h1; h2; h3; h4; h5; h6; h7; h8; h9; h10] out ->
  exists o0 o1,
    Gen.BEi.bei_comp_rel [g0; g1; g2; g3] [h0; h1; h2; h3] o0 /\
    Gen.SE3.se3_comp_rel [g4; g5; g6; g7; g8; g9; g10] [h4; h5; h6; h7; h8; h9; h10] o1 /\
    out = o0 ++ o1.
Proof. exact Proofs.C06_BE.be_comp_parts. Qed.
Print Assumptions C06_be_comp_parts.

Theorem C06_be_inv_parts :
  forall g0 g1 g2 g3 g4 g5 g6 g7 g8 g9 g10 out,
  Gen.BE.be_inv_rel [g0; g1; g2; g3; g4; g5; g6; g7; g8; g9; g10] out ->
  exists o0 o1,
    Gen.BEi.bei_inv_rel [g0; g1; g2; g3] o0 /\
    Gen.SE3.se3_inv_rel [g4; g5; g6; g7; g8; g9; g10] o1 /\
    out = o0 ++ o1.
Proof. exact Proofs.C06_BE.be_inv_parts. Qed.
Print Assumptions C06_be_inv_parts.

Theorem C06_be_log_parts :
  forall g0 g1 g2 g3 g4 g5 g6 g7 g8 g9 g10 out,
  Gen.BE.be_log_rel [g0; g1; g2; g3; g4; g5; g6; g7; g8; g9; g10] out ->
  exists o0 o1,
    Gen.BEi.bei_log_rel [g0; g1; g2; g3] o0 /\
    Gen.SE3.se3_log_rel [g4; g5; g6; g7; g8; g9; g10] o1 /\
    out = o0 ++ o1.
Proof. exact Proofs.C06_BE.be_log_parts. Qed.
Print Assumptions C06_be_log_parts.

Theorem C06_be_exp_parts :
  forall a0 a1 a2 a3 a4 a5 a6 a7 a8 out,
  Gen.BE.be_exp_rel [a0; a1; a2; a3; a4; a5; a6; a7; a8] out ->
  exists o0 o1,
    Gen.BEi.bei_exp_rel [a0; a1; a2] o0 /\
    Gen.SE3.se3_exp_rel [a3; a4; a5; a6; a7; a8] o1 /\
    out = o0 ++ o1.
Proof. exact Proofs.C06_BE.be_exp_parts. Qed.
Print Assumptions C06_be_exp_parts.

Theorem C06_be_Ad_parts :
  forall g0 g1 g2 g3 g4 g5 g6 g7 g8 g9 g10 out,
  Gen.BE.be_Ad_rel [g0; g1; g2; g3; g4; g5; g6; g7; g8; g9; g10] out ->
  exists o0 o1,
    Gen.BEi.bei_Ad_rel [g0; g1; g2; g3] o0 /\
    Gen.SE3.se3_Ad_rel [g4; g5; g6; g7; g8; g9; g10] o1 /\
    out = blockdiag [o0; o1].
Proof. exact Proofs.C06_BE.be_Ad_parts. Qed.
Print Assumptions C06_be_Ad_parts.

Theorem C06_be_ad_parts :
  forall a0 a1 a2 a3 a4 a5 a6 a7 a8 out,
  Gen.BE.be_ad_rel [a0; a1; a2; a3; a4; a5; a6; a7; a8] out ->
  exists o0 o1,
    Gen.BEi.bei_ad_rel [a0; a1; a2] o0 /\
    Gen.SE3.se3_ad_rel [a3; a4; a5; a6; a7; a8] o1 /\
    out = blockdiag [o0; o1].
Proof. exact Proofs.C06_BE.be_ad_parts. Qed.
Print Assumptions C06_be_ad_parts.

Theorem C06_be_dr_exp_parts :
  forall a0 a1 a2 a3 a4 a5 a6 a7 a8 out,
  Gen.BE.be_dr_exp_rel [a0; a1; a2; a3; a4; a5; a6; a7; a8] out ->
  exists o0 o1,
    Gen.BEi.bei_dr_exp_rel [a0; a1; a2] o0 /\
    Gen.SE3.se3_dr_exp_rel [a3; a4; a5; a6; a7; a8] o1 /\
    out = blockdiag [o0; o1].
Proof. exact Proofs.C06_BE.be_dr_exp_parts. Qed.
Print Assumptions C06_be_dr_exp_parts.

Theorem C06_be_dr_expinv_parts :
  forall a0 a1 a2 a3 a4 a5 a6 a7 a8 out,
  Gen.BE.be_dr_expinv_rel [a0; a1; a2; a3; a4; a5; a6; a7; a8] out ->
  exists o0 o1,
    Gen.BEi.bei_dr_expinv_rel [a0; a1; a2] o0 /\
    Gen.SE3.se3_dr_expinv_rel [a3; a4; a5; a6; a7; a8] o1 /\
    out = blockdiag [o0; o1].
Proof. exact Proofs.C06_BE.be_dr_expinv_parts. Qed.
Print Assumptions C06_be_dr_expinv_parts.

Theorem C06_be_d2r_exp_parts :
  forall a0 a1 a2 a3 a4 a5 a6 a7 a8 out,
  Gen.BE.be_d2r_exp_rel [a0; a1; a2; a3; a4; a5; a6; a7; a8] out ->
  exists o0 o1,
    Gen.BEi.bei_d2r_exp_rel [a0; a1; a2] o0 /\
    Gen.SE3H.se3_d2r_exp_rel [a3; a4; a5; a6; a7; a8] o1 /\
    out = bundle_hess [o0; o1].
Proof. exact Proofs.C06_BE.be_d2r_exp_parts. Qed.
Print Assumptions C06_be_d2r_exp_parts.

Theorem C06_be_d2r_expinv_parts :
  forall a0 a1 a2 a3 a4 a5 a6 a7 a8 out,
  Gen.BE.be_d2r_expinv_rel [a0; a1; a2; a3; a4; a5; a6; a7; a8] out ->
  exists o0 o1,
    Gen.BEi.bei_d2r_expinv_rel [a0; a1; a2] o0 /\
    Gen.SE3H.se3_d2r_expinv_rel [a3; a4; a5; a6; a7; a8] o1 /\
    out = bundle_hess [o0; o1].
Proof. exact Proofs.C06_BE.be_d2r_expinv_parts. Qed.
Print Assumptions C06_be_d2r_expinv_parts.

Theorem C06_be_identity_parts :
  forall out, Gen.BE.be_identity_rel out ->
  exists o0 o1,
    Gen.BEi.bei_identity_rel o0 /\
    Gen.SE3.se3_identity_rel o1 /\
    out = o0 ++ o1.
Proof. exact Proofs.C06_BE.be_identity_parts. Qed.
Print Assumptions C06_be_identity_parts.

Theorem C06_be_part0_view :
  forall g0 g1 g2 g3 g4 g5 g6 g7 g8 g9 g10 out,
  Gen.BE.be_part0_rel [g0; g1; g2; g3; g4; g5; g6; g7; g8; g9; g10] out ->
  out = [g0; g1; g2; g3] /\ out = vslice [g0; g1; g2; g3; g4; g5; g6; g7; g8; g9; g10] (nth 0 (psum [4%nat; 7%nat]) 0%nat) 4%nat.
Proof. exact Proofs.C06_BE.be_part0_view. Qed.
Print Assumptions C06_be_part0_view.

Theorem C06_be_part1_view :
  forall g0 g1 g2 g3 g4 g5 g6 g7 g8 g9 g10 out,
  Gen.BE.be_part1_rel [g0; g1; g2; g3; g4; g5; g6; g7; g8; g9; g10] out ->
  out = [g4; g5; g6; g7; g8; g9; g10] /\ out = vslice [g0; g1; g2; g3; g4; g5; g6; g7; g8; g9; g10] (nth 1 (psum [4%nat; 7%nat]) 0%nat) 7%nat.
Proof. exact Proofs.C06_BE.be_part1_view. Qed.
Print Assumptions C06_be_part1_view.

Theorem C06_bf_comp_parts :
  forall g0 g1 g2 g3 g4 g5 g6 g7 g8 h0 h1 h2 h3 h4 h5 h6 h7 h8 out,
  Gen.BF.bf_comp_rel [g0; g1; g2; g3; g4; g5; g6; g7; g8] [h0; h1; h2; h3; h4; h5; h6; h7; h8] out ->
  exists o0 o1,
    Gen.C1.c1_comp_rel [g0; g1] [h0; h1] o0 /\
    Gen.SE3.se3_comp_rel [g2; g3; g4; g5; g6; g7; g8] [h2; h3; h4; h5; h6; h7; h8] o1 /\
    out = o0 ++ o1.
Proof. exact Proofs.C06_BF.bf_comp_parts. Qed.
Print Assumptions C06_bf_comp_parts.

Theorem C06_bf_inv_parts :
  forall g0 g1 g2 g3 g4 g5 g6 g7 g8 out,
  Gen.BF.bf_inv_rel [g0; g1; g2; g3; g4; g5; g6; g7; g8] out ->
  exists o0 o1,
    Gen.C1.c1_inv_rel [g0; g1] o0 /\
    Gen.SE3.se3_inv_rel [g2; g3; g4; g5; g6; g7; g8] o1 /\
    out = o0 ++ o1.
Proof. exact Proofs.C06_BF.bf_inv_parts. Qed.
Print Assumptions C06_bf_inv_parts.

Theorem C06_bf_log_parts :
  forall g0 g1 g2 g3 g4 g5 g6 g7 g8 out,
  Gen.BF.bf_log_rel [g0; g1; g2; g3; g4; g5; g6; g7; g8] out ->
  exists o0 o1,
    Gen.C1.c1_log_rel [g0; g1] o0 /\
    Gen.SE3.se3_log_rel [g2; g3; g4; g5; g6; g7; g8] o1 /\
    out = o0 ++ o1.
Proof. exact Proofs.C06_BF.bf_log_parts. Qed.
Print Assumptions C06_bf_log_parts.

Theorem C06_bf_exp_parts :
  forall a0 a1 a2 a3 a4 a5 a6 a7 out,
  Gen.BF.bf_exp_rel [a0; a1; a2; a3; a4; a5; a6; a7] out ->
  exists o0 o1,
    Gen.C1.c1_exp_rel [a0; a1] o0 /\
    Gen.SE3.se3_exp_rel [a2; a3; a4; a5; a6; a7] o1 /\
    out = o0 ++ o1.
Proof. exact Proofs.C06_BF.bf_exp_parts. Qed.
Print Assumptions C06_bf_exp_parts.

Theorem C06_bf_Ad_parts :
  forall g0 g1 g2 g3 g4 g5 g6 g7 g8 out,
  Gen.BF.bf_Ad_rel [g0; g1; g2; g3; g4; g5; g6; g7; g8] out ->
  exists o0 o1,
    Gen.C1.c1_Ad_rel [g0; g1] o0 /\
    Gen.SE3.se3_Ad_rel [g2; g3; g4; g5; g6; g7; g8] o1 /\
    out = blockdiag [o0; o1].
Proof. exact Proofs.C06_BF.bf_Ad_parts. Qed.
Print Assumptions C06_bf_Ad_parts.

Theorem C06_bf_ad_parts :
  forall a0 a1 a2 a3 a4 a5 a6 a7 out,
  Gen.BF.bf_ad_rel [a0; a1; a2; a3; a4; a5; a6; a7] out ->
  exists o0 o1,
    Gen.C1.c1_ad_rel [a0; a1] o0 /\
    Gen.SE3.se3_ad_rel [a2; a3; a4; a5; a6; a7] o1 /\
    out = blockdiag [o0; o1].
Proof. exact Proofs.C06_BF.bf_ad_parts. Qed.
Print Assumptions C06_bf_ad_parts.

Theorem C06_bf_dr_exp_parts :
  forall a0 a1 a2 a3 a4 a5 a6 a7 out,
  Gen.BF.bf_dr_exp_rel [a0; a1; a2; a3; a4; a5; a6; a7] out ->
  exists o0 o1,
    Gen.C1.c1_dr_exp_rel [a0; a1] o0 /\
    Gen.SE3.se3_dr_exp_rel [a2; a3; a4; a5; a6; a7] o1 /\
    out = blockdiag [o0; o1].
Proof. exact Proofs.C06_BF.bf_dr_exp_parts. Qed.
Print Assumptions C06_bf_dr_exp_parts.

Theorem C06_bf_dr_expinv_parts :
  forall a0 a1 a2 a3 a4 a5 a6 a7 out,
  Gen.BF.bf_dr_expinv_rel [a0; a1; a2; a3; a4; a5; a6; a7] out ->
  exists o0 o1,
    Gen.C1.c1_dr_expinv_rel [a0; a1] o0 /\
    Gen.SE3.se3_dr_expinv_rel [a2; a3; a4; a5; a6; a7] o1 /\
    out = blockdiag [o0; o1].
Proof. exact Proofs.C06_BF.bf_dr_expinv_parts. Qed.
Print Assumptions C06_bf_dr_expinv_parts.

Theorem C06_bf_d2r_exp_parts :
  forall a0 a1 a2 a3 a4 a5 a6 a7 out,
  Gen.BF.bf_d2r_exp_rel [a0; a1; a2; a3; a4; a5; a6; a7] out ->
  exists o0 o1,
    Gen.C1.c1_d2r_exp_rel [a0; a1] o0 /\
    Gen.SE3H.se3_d2r_exp_rel [a2; a3; a4; a5; a6; a7] o1 /\
    out = bundle_hess [o0; o1].
Proof. exact Proofs.C06_BF.bf_d2r_exp_parts. Qed.
Print Assumptions C06_bf_d2r_exp_parts.

Theorem C06_bf_d2r_expinv_parts :
  forall a0 a1 a2 a3 a4 a5 a6 a7 out,
  Gen.BF.bf_d2r_expinv_rel [a0; a1; a2; a3; a4; a5; a6; a7] out ->
  exists o0 o1,
    Gen.C1.c1_d2r_expinv_rel [a0; a1] o0 /\
    Gen.SE3H.se3_d2r_expinv_rel [a2; a3; a4; a5; a6; a7] o1 /\
    out = bundle_hess [o0; o1].
Proof. exact Proofs.C06_BF.bf_d2r_expinv_parts. Qed.
Print Assumptions C06_bf_d2r_expinv_parts.

Theorem C06_bf_identity_parts :
  forall out, Gen.BF.bf_identity_rel out ->
  exists o0 o1,
    Gen.C1.c1_identity_rel o0 /\
    Gen.SE3.se3_identity_rel o1 /\
    out = o0 ++ o1.
Proof. exact Proofs.C06_BF.bf_identity_parts. Qed.
Print Assumptions C06_bf_identity_parts.

Theorem C06_bf_part0_view :
  forall g0 g1 g2 g3 g4 g5 g6 g7 g8 out,
  Gen.BF.bf_part0_rel [g0; g1; g2; g3; g4; g5; g6; g7; g8] out ->
  out = [g0; g1] /\ out = vslice [g0; g1; g2; g3; g4; g5; g6; g7; g8] (nth 0 (psum [2%nat; 7%nat]) 0%nat) 2%nat.
Proof. exact Proofs.C06_BF.bf_part0_view. Qed.
Print Assumptions C06_bf_part0_view.

Theorem C06_bf_part1_view :
  forall g0 g1 g2 g3 g4 g5 g6 g7 g8 out,
  Gen.BF.bf_part1_rel [g0; g1; g2; g3; g4; g5; g6; g7; g8] out ->
  out = [g2; g3; g4; g5; g6; g7; g8] /\ out = vslice [g0; g1; g2; g3; g4; g5; g6; g7; g8] (nth 1 (psum [2%nat; 7%nat]) 0%nat) 7%nat.
Proof. exact Proofs.C06_BF.bf_part1_view. Qed.
Print Assumptions C06_bf_part1_view.

