(* C07 - Manifold axioms hold for every Manifold model: property theorems (statements written out in full;
   definitions of the models: Model/C07_Adaptors.v, Model/C07_Inst.v; of man_laws: Proofs/C07_Laws.v). *)
From Coq Require Import List Arith Bool QArith Qcanon.
From SV Require Import Model.C07_Adaptors Model.C07_Inst Proofs.C07_Laws Proofs.C07_Vector Proofs.C07_Variant
  Proofs.C07_Sub Proofs.C07_Any Proofs.C07_Inst Proofs.C07_Main.
Import ListNotations.
Local Open Scope nat_scope.

(* ================= std::vector<M>: for every base manifold satisfying the axioms, every size ================= *)
Theorem C07_vector_axioms : forall (T : Type) (szero : T) (M : Type) (o : man_ops T M) (r : man_rel T M),
  man_laws szero o r -> man_laws szero (vec_ops szero o) (vec_rel o r).
Proof. exact vec_laws. Qed.
Print Assumptions C07_vector_axioms.

Theorem C07_vector_elementwise : forall (T : Type) (szero : T) (M : Type) (o : man_ops T M) (r : man_rel T M),
  man_laws szero o r -> forall v a,
  vec_rplus o v a = rplus_seg o v a /\
  (forall v2, Forall (r_valid r) v -> Forall (r_valid r) v2 -> Forall2 (r_compat r) v v2 ->
              vec_rminus szero o v v2 = rminus_cat o v v2).
Proof. exact vector_elementwise. Qed.
Print Assumptions C07_vector_elementwise.

Theorem C07_vector_rminus_rplus : forall (T : Type) (szero : T) (M : Type) (o : man_ops T M) (r : man_rel T M),
  man_laws szero o r -> forall v a,
  Forall (r_valid r) v -> length a = vec_dof o v -> vec_inj o r v a ->
  vec_rminus szero o (vec_rplus o v a) v = a.
Proof. exact vector_rminus_rplus. Qed.
Print Assumptions C07_vector_rminus_rplus.

Theorem C07_vector_rplus_rminus : forall (T : Type) (szero : T) (M : Type) (o : man_ops T M) (r : man_rel T M),
  man_laws szero o r -> forall v v2,
  Forall (r_valid r) v -> Forall (r_valid r) v2 -> Forall2 (r_compat r) v2 v -> Forall2 (r_reach r) v2 v ->
  vec_rplus o v (vec_rminus szero o v2 v) = v2.
Proof. exact vector_rplus_rminus. Qed.
Print Assumptions C07_vector_rplus_rminus.

Theorem C07_vector_rminus_self : forall (T : Type) (szero : T) (M : Type) (o : man_ops T M) (r : man_rel T M),
  man_laws szero o r -> forall v, Forall (r_valid r) v ->
  vec_rminus szero o v v = repeat szero (vec_dof o v).
Proof. exact vector_rminus_self. Qed.
Print Assumptions C07_vector_rminus_self.

Theorem C07_vector_dof : forall (T : Type) (szero : T) (M : Type) (o : man_ops T M) (r : man_rel T M),
  man_laws szero o r -> forall v, Forall (r_valid r) v ->
  vec_dof o v = sumdof o v /\
  (forall a, length a = vec_dof o v -> vec_dof o (vec_rplus o v a) = vec_dof o v /\ length (vec_rplus o v a) = length v) /\
  (forall v2, Forall (r_valid r) v2 -> Forall2 (r_compat r) v v2 -> length (vec_rminus szero o v v2) = vec_dof o v).
Proof. exact vector_dof_laws. Qed.
Print Assumptions C07_vector_dof.

Theorem C07_vector_cast_same_scalar : forall (T : Type) (szero : T) (M : Type) (o : man_ops T M) (r : man_rel T M),
  man_laws szero o r -> forall v, Forall (r_valid r) v -> vec_cast o v = v.
Proof. exact vector_cast_same. Qed.
Print Assumptions C07_vector_cast_same_scalar.

(* ================= std::variant<Ms...>: every alternative ================= *)
Theorem C07_variant_axioms : forall (T : Type) (szero : T) (U : Type) (alt : nat -> man_ops T U) (altr : nat -> man_rel T U),
  (forall i, man_laws szero (alt i) (altr i)) -> man_laws szero (var_ops alt) (var_rel altr).
Proof. exact var_laws. Qed.
Print Assumptions C07_variant_axioms.

Theorem C07_variant_dispatch : forall (T U : Type) (alt : nat -> man_ops T U) i x y a,
  var_dof alt (i, x) = m_dof (alt i) x /\
  var_rplus alt (i, x) a = (i, m_rplus (alt i) x a) /\
  var_rminus_opt alt (i, x) (i, y) = Some (m_rminus (alt i) x y) /\
  var_cast alt (i, x) = (i, m_cast (alt i) x).
Proof. exact var_dispatch. Qed.
Print Assumptions C07_variant_dispatch.

(* ================= SubManifold<M>: every base manifold, every dof, every subset of fixed dims ================= *)
Theorem C07_sub_ctor_wf : forall (T : Type) (M : Type) (o : man_ops T M) (r : man_rel T M) m0 m fixed_dims,
  r_valid r m0 -> r_valid r m -> m_dof o m = m_dof o m0 ->
  NoDup fixed_dims -> Forall (fun x => x < m_dof o m0) fixed_dims ->
  sub_wf o r (sub_ctor m0 m fixed_dims).
Proof. exact sub_ctor_wf. Qed.
Print Assumptions C07_sub_ctor_wf.

Theorem C07_sub_dof : forall (T : Type) (M : Type) (o : man_ops T M) m0 m fixed_dims,
  sub_dof o (sub_ctor m0 m fixed_dims) = m_dof o m0 - length fixed_dims.
Proof. exact sub_dof_ctor. Qed.
Print Assumptions C07_sub_dof.

Theorem C07_sub_keeps_origin : forall (T : Type) (szero : T) (M : Type) (o : man_ops T M) s a,
  s_m0 (sub_rplus szero o s a) = s_m0 s.
Proof. exact sub_keeps_origin. Qed.
Print Assumptions C07_sub_keeps_origin.

Theorem C07_sub_moves_only_free : forall (T : Type) (szero : T) (M : Type) (o : man_ops T M) (r : man_rel T M) s a,
  sub_wf o r s -> length a = sub_dof o s ->
  let e := sub_scatter szero o s a in
  s_m (sub_rplus szero o s a) = m_rplus o (s_m s) e /\
  length e = m_dof o (s_m0 s) /\
  (forall f, In f (s_fixed s) -> nth f e szero = szero) /\
  gath e 0 (s_fixed s) = a.
Proof. exact sub_moves_only_free. Qed.
Print Assumptions C07_sub_moves_only_free.

Theorem C07_sub_reports_only_free : forall (T : Type) (szero : T) (M : Type) (o : man_ops T M) (r : man_rel T M),
  man_laws szero o r -> forall s1 s2, sub_wf o r s1 -> sub_wf o r s2 -> r_compat r (s_m s1) (s_m s2) ->
  sub_rminus szero o s1 s2 = gath (m_rminus o (s_m s1) (s_m s2)) 0 (s_fixed s1).
Proof. exact sub_rminus_eq. Qed.
Print Assumptions C07_sub_reports_only_free.

Theorem C07_sub_rminus_rplus : forall (T : Type) (szero : T) (M : Type) (o : man_ops T M) (r : man_rel T M),
  man_laws szero o r -> forall s a,
  sub_wf o r s -> length a = sub_dof o s -> r_inj r (s_m s) (sub_scatter szero o s a) ->
  sub_rminus szero o (sub_rplus szero o s a) s = a.
Proof. exact sub_rminus_rplus. Qed.
Print Assumptions C07_sub_rminus_rplus.

Theorem C07_sub_rplus_rminus : forall (T : Type) (szero : T) (M : Type) (o : man_ops T M) (r : man_rel T M),
  man_laws szero o r -> forall s s2,
  sub_wf o r s -> sub_wf o r s2 ->
  (s_m0 s2 = s_m0 s /\ s_fixed s2 = s_fixed s /\ r_compat r (s_m s2) (s_m s)) ->
  (r_reach r (s_m s2) (s_m s) /\ zero_at szero (s_fixed s) 0 (m_rminus o (s_m s2) (s_m s))) ->
  sub_rplus szero o s (sub_rminus szero o s2 s) = s2.
Proof. exact sub_rplus_rminus. Qed.
Print Assumptions C07_sub_rplus_rminus.

Theorem C07_sub_rminus_self : forall (T : Type) (szero : T) (M : Type) (o : man_ops T M) (r : man_rel T M),
  man_laws szero o r -> forall s, sub_wf o r s ->
  sub_rminus szero o s s = repeat szero (sub_dof o s).
Proof. exact sub_rminus_self. Qed.
Print Assumptions C07_sub_rminus_self.

Theorem C07_sub_dof_laws : forall (T : Type) (szero : T) (M : Type) (o : man_ops T M) (r : man_rel T M),
  man_laws szero o r -> forall s, sub_wf o r s ->
  sub_dof o s + length (s_fixed s) = m_dof o (s_m0 s) /\
  (forall a, length a = sub_dof o s -> sub_wf o r (sub_rplus szero o s a) /\ sub_dof o (sub_rplus szero o s a) = sub_dof o s) /\
  (forall s2, sub_wf o r s2 -> r_compat (sub_rel szero o r) s s2 -> length (sub_rminus szero o s s2) = sub_dof o s).
Proof. exact sub_dof_laws. Qed.
Print Assumptions C07_sub_dof_laws.

(* cast: the repaired argument order (notes/C07-cast.patch) ... *)
Theorem C07_sub_cast_same_scalar_repaired : forall (T : Type) (szero : T) (M : Type) (o : man_ops T M) (r : man_rel T M),
  man_laws szero o r -> forall s, sub_wf o r s -> sub_cast o true s = s.
Proof. exact sub_cast_same_scalar. Qed.
Print Assumptions C07_sub_cast_same_scalar_repaired.

Theorem C07_sub_axioms_repaired : forall (T : Type) (szero : T) (M : Type) (o : man_ops T M) (r : man_rel T M),
  man_laws szero o r -> man_laws szero (sub_ops szero o true) (sub_rel szero o r).
Proof. exact sub_laws. Qed.
Print Assumptions C07_sub_axioms_repaired.

(* ... and the code as it is on the unchanged tree: origin and value are swapped, for every SubManifold;
   the clause "a cast to the same scalar type behaves identically" is refuted by a concrete witness *)
Theorem C07_sub_cast_current_swaps : forall (T : Type) (szero : T) (M : Type) (o : man_ops T M) (r : man_rel T M),
  man_laws szero o r -> forall s, sub_wf o r s ->
  sub_cast o false s = MkSub (s_m s) (s_m0 s) (s_fixed s).
Proof. exact sub_cast_current_swaps. Qed.
Print Assumptions C07_sub_cast_current_swaps.

Theorem C07_sub_cast_same_scalar_refuted :
  exists s : sub (list Qc), sub_wf oVX rVX s /\
    m_cast (oSUBX false) s <> s /\
    s_m (m_cast (oSUBX false) s) = s_m0 s /\ s_m0 (m_cast (oSUBX false) s) = s_m s /\ s_m s <> s_m0 s.
Proof. exact sub_cast_refuted. Qed.
Print Assumptions C07_sub_cast_same_scalar_refuted.

(* ================= AnyManifold: value semantics of clone, axioms through the wrapper ================= *)
Theorem C07_any_copy_identical : forall (T W : Type) (o : man_ops T W) (h : heap W) a w, any_deref h a = Some w ->
  exists h' c, any_copy_ctor h a = Some (h', c) /\ c <> a /\
    any_deref h' c = Some w /\ any_deref h' a = Some w /\
    any_dof o h' c = any_dof o h' a /\
    (forall v, option_map (fun hb => any_deref (fst hb) (snd hb)) (any_rplus o h' c v)
             = option_map (fun hb => any_deref (fst hb) (snd hb)) (any_rplus o h' a v)) /\
    (forall b, any_rminus o h' c b = any_rminus o h' a b) /\ (forall b, any_rminus o h' b c = any_rminus o h' b a).
Proof. exact any_copy_identical. Qed.
Print Assumptions C07_any_copy_identical.

Theorem C07_any_copy_independent : forall (T W : Type) (_ : man_ops T W) (h : heap W) a w, any_deref h a = Some w ->
  exists h' c, any_copy_ctor h a = Some (h', c) /\
    (forall v, exists h2, any_set h' c v = Some h2 /\ any_deref h2 c = Some v /\ any_deref h2 a = Some w) /\
    (forall v, exists h2, any_set h' a v = Some h2 /\ any_deref h2 a = Some v /\ any_deref h2 c = Some w).
Proof. exact any_copy_independent. Qed.
Print Assumptions C07_any_copy_independent.

Theorem C07_any_copy_assign : forall (W : Type) (h : heap W) dst src w wd,
  any_deref h src = Some w -> any_deref h dst = Some wd ->
  exists h' p, any_copy_assign h dst src = Some (h', p) /\ any_deref h' p = Some w /\
    (dst <> src -> any_deref h' src = Some w) /\
    (dst <> src -> forall v, exists h2, any_set h' p v = Some h2 /\ any_deref h2 p = Some v /\ any_deref h2 src = Some w).
Proof. exact any_copy_assign_value. Qed.
Print Assumptions C07_any_copy_assign.

Theorem C07_any_rminus_rplus : forall (T : Type) (szero : T) (W : Type) (o : man_ops T W) (r : man_rel T W),
  man_laws szero o r -> forall (h : heap W) a w v, any_deref h a = Some w ->
  r_valid r w -> length v = m_dof o w -> r_inj r w v ->
  exists h' b, any_rplus o h a v = Some (h', b) /\ any_deref h' a = Some w /\
               any_dof o h' b = Some (m_dof o w) /\ any_rminus o h' b a = Some v.
Proof. exact any_rminus_rplus. Qed.
Print Assumptions C07_any_rminus_rplus.

Theorem C07_any_rplus_rminus : forall (T : Type) (szero : T) (W : Type) (o : man_ops T W) (r : man_rel T W),
  man_laws szero o r -> forall (h : heap W) a a2 w w2, any_deref h a = Some w -> any_deref h a2 = Some w2 ->
  r_valid r w -> r_valid r w2 -> r_compat r w2 w -> r_reach r w2 w ->
  exists t h' b, any_rminus o h a2 a = Some t /\ length t = m_dof o w /\
                 any_rplus o h a t = Some (h', b) /\ any_deref h' b = Some w2.
Proof. exact any_rplus_rminus. Qed.
Print Assumptions C07_any_rplus_rminus.

Theorem C07_any_rminus_self : forall (T : Type) (szero : T) (W : Type) (o : man_ops T W) (r : man_rel T W),
  man_laws szero o r -> forall (h : heap W) a w, any_deref h a = Some w -> r_valid r w ->
  any_rminus o h a a = Some (repeat szero (m_dof o w)).
Proof. exact any_rminus_self. Qed.
Print Assumptions C07_any_rminus_self.

(* ================= the executable instance: base manifold Q^n and the harness universe ================= *)
Theorem C07_qn_axioms : forall sd, man_laws qzero (qn_ops sd) (qn_rel sd).
Proof. exact qn_laws. Qed.
Print Assumptions C07_qn_axioms.

Theorem C07_universe_axioms_repaired : man_laws qzero (p_ops true) p_rel.
Proof. exact p_laws. Qed.
Print Assumptions C07_universe_axioms_repaired.

Theorem C07_universe_variant_axioms_repaired : man_laws qzero (var_ops (v_alt true)) (var_rel (fun _ => p_rel)).
Proof. exact variant_laws. Qed.
Print Assumptions C07_universe_variant_axioms_repaired.

(* value types: a copy held in another register is independent of the original *)
Theorem C07_copy_value_independent : forall rep st d s p l,
  d <> s -> d < length (st_regs st) -> get_reg st s = Some (VP p) -> same_type (build l) p = true ->
  let st1 := fst (step rep st (OCopy d s)) in
  let st2 := fst (step rep st1 (OSet d l)) in
  get_reg st1 d = Some (VP p) /\ get_reg st1 s = Some (VP p) /\
  get_reg st2 d = Some (VP (build l)) /\ get_reg st2 s = Some (VP p).
Proof. exact copy_value_independent. Qed.
Print Assumptions C07_copy_value_independent.
