(** * C08 - property theorems (full statements; proofs in coq/Proofs/C08_*.v).
    Statements are those of the proved lemmas, restated verbatim.

    The theorems about [dr_numerical] / [dr] / [dr_idx] are about the code as it is in /repo now: hypothesis
    [current_code o] = "the version flags of [o] are the ones recorded in the model file" (both repairs present:
    59fd5d3 restore from a saved copy, 41b038a K = 2 Jacobian from the K = 1 routine).  There is no hypothesis on
    the group operations any more.  The refutations of the old behaviour ([restore_inexact_refuted] in
    Proofs/C08_DiffLayout.v, [k2_jac_accuracy_refuted] / [k2_jac_step_bound] in Proofs/C08_FwdDiff.v) and the
    statements over the parametrised model (hypothesis [restore_ok]) remain there as lemmas; they are history,
    not properties of the current code. *)
From Coq Require Import List Arith Bool ZArith Reals.
From Coquelicot Require Import Coquelicot.
From SV Require Import Model.C08_DiffLayout Proofs.C08_DiffLayout Proofs.C08_FwdDiff Proofs.C08_Link.
Import ListNotations.

Theorem C08_jac_layout :
  forall (Sc X Y JT HT : Type) (o : Ops Sc X Y) (f : list X -> Y) (x : list X),
       current_code o ->
       let out := dr_numerical JT HT o 1 f x in
       o_val out = f x /\
       o_args out = x /\
       o_H out = None /\
       (exists J : JGrid Sc,
          o_J out = Some (JNum JT J) /\
          length J = sum_dof o x /\
          (forall i j : nat,
           (i < length x)%nat ->
           (j < dofX o (getx o i x))%nat -> getJ J (offset o x i + j) = Some (quot1 o (eps o) f x i j)) /\
          (forall c : nat,
           (c < sum_dof o x)%nat ->
           exists i j : nat,
             (i < length x)%nat /\ (j < dofX o (getx o i x))%nat /\ c = (offset o x i + j)%nat)).
Proof. exact k1_characterisation_current. Qed.
Print Assumptions C08_jac_layout.

Theorem C08_hess_cells :
  forall (Sc X Y JT HT : Type) (o : Ops Sc X Y) (f : list X -> Y) (x : list X),
       current_code o ->
       let out := dr_numerical JT HT o 2 f x in
       let nx := sum_dof o x in
       let ny := dofY o (f x) in
       o_val out = f x /\
       o_args out = x /\
       (exists (J : JGrid Sc) (H : HGrid Sc),
          o_J out = Some (JNum JT J) /\
          o_H out = Some (HNum HT H) /\
          length J = nx /\
          length H = nx /\
          (forall r : nat, (r < nx)%nat -> length (nth r H []) = (nx * ny)%nat) /\
          (forall i j : nat,
           (i < length x)%nat ->
           (j < dofX o (getx o i x))%nat ->
           getJ J (offset o x i + j) = Some (quot1 o (eps o) f x i j)) /\
          (forall i0 k0 i1 k1 j : nat,
           (i0 < length x)%nat ->
           (i1 < length x)%nat ->
           (k0 < dofX o (getx o i0 x))%nat ->
           (k1 < dofX o (getx o i1 x))%nat ->
           (j < ny)%nat ->
           getH H (offset o x i0 + k0) (j * nx + offset o x i1 + k1) =
           Some (nth j (quot2 o f x i0 k0 i1 k1) (szero o)))).
Proof. exact k2_characterisation_current. Qed.
Print Assumptions C08_hess_cells.

Theorem C08_hess_layout :
  forall (Sc X Y : Type) (o : Ops Sc X Y) (x : list X) (ny : nat),
       let nx := sum_dof o x in
       let row := fun i0 k0 : nat => (offset o x i0 + k0)%nat in
       let col := fun j i1 k1 : nat => (j * nx + offset o x i1 + k1)%nat in
       (forall i0 k0 i1 k1 j : nat,
        (i0 < length x)%nat ->
        (i1 < length x)%nat ->
        (k0 < dofX o (getx o i0 x))%nat ->
        (k1 < dofX o (getx o i1 x))%nat ->
        (j < ny)%nat ->
        (row i0 k0 < nx)%nat /\
        (col j i1 k1 < nx * ny)%nat /\
        (col j i1 k1 / nx)%nat = j /\ col j i1 k1 mod nx = (offset o x i1 + k1)%nat) /\
       (forall i0 k0 i1 k1 j i0' k0' i1' k1' j' : nat,
        (i0 < length x)%nat ->
        (i1 < length x)%nat ->
        (k0 < dofX o (getx o i0 x))%nat ->
        (k1 < dofX o (getx o i1 x))%nat ->
        (i0' < length x)%nat ->
        (i1' < length x)%nat ->
        (k0' < dofX o (getx o i0' x))%nat ->
        (k1' < dofX o (getx o i1' x))%nat ->
        row i0 k0 = row i0' k0' ->
        col j i1 k1 = col j' i1' k1' -> i0 = i0' /\ k0 = k0' /\ i1 = i1' /\ k1 = k1' /\ j = j') /\
       (forall r c : nat,
        (r < nx)%nat ->
        (c < nx * ny)%nat ->
        exists i0 k0 i1 k1 j : nat,
          (i0 < length x)%nat /\
          (i1 < length x)%nat /\
          (k0 < dofX o (getx o i0 x))%nat /\
          (k1 < dofX o (getx o i1 x))%nat /\ (j < ny)%nat /\ r = row i0 k0 /\ c = col j i1 k1).
Proof. exact hess_layout. Qed.
Print Assumptions C08_hess_layout.

Theorem C08_jac_columns :
  forall (Sc X Y JT HT : Type) (o : Ops Sc X Y) (K : nat) (c : Callable X Y JT HT) 
         (x : list X) (idx : list nat),
       K = 1%nat \/ K = 2%nat ->
       current_code o ->
       NoDup idx ->
       List.Forall (fun i : nat => (i < length x)%nat) idx ->
       let xred := map (fun i : nat => getx o i x) idx in
       exists (osub ofull : Out Sc X Y JT HT) (Jsub Jfull : JGrid Sc),
         dr_idx o K Numerical c x idx = Some osub /\
         dr o K Numerical c x = Some ofull /\
         o_J osub = Some (JNum JT Jsub) /\
         o_J ofull = Some (JNum JT Jfull) /\
         o_val osub = o_val ofull /\
         o_args osub = x /\
         o_args ofull = x /\
         length Jsub = sum_dof o xred /\
         length Jfull = sum_dof o x /\
         (forall k j : nat,
          (k < length idx)%nat ->
          (j < dofX o (getx o (nth k idx 0) x))%nat ->
          getJ Jsub (offset o xred k + j) = getJ Jfull (offset o x (nth k idx 0%nat) + j) /\
          getJ Jsub (offset o xred k + j) <> None).
Proof. exact jac_columns_current. Qed.
Print Assumptions C08_jac_columns.

Theorem C08_hess_subset :
  forall (Sc X Y JT HT : Type) (o : Ops Sc X Y) (c : Callable X Y JT HT) (x : list X) (idx : list nat),
       current_code o ->
       NoDup idx ->
       List.Forall (fun i : nat => (i < length x)%nat) idx ->
       let xred := map (fun i : nat => getx o i x) idx in
       let ny := dofY o (c_f c x) in
       exists (osub ofull : Out Sc X Y JT HT) (Hsub Hfull : HGrid Sc),
         dr_idx o 2 Numerical c x idx = Some osub /\
         dr o 2 Numerical c x = Some ofull /\
         o_H osub = Some (HNum HT Hsub) /\
         o_H ofull = Some (HNum HT Hfull) /\
         (forall k0 c0 k1 c1 j : nat,
          (k0 < length idx)%nat ->
          (k1 < length idx)%nat ->
          (c0 < dofX o (getx o (nth k0 idx 0) x))%nat ->
          (c1 < dofX o (getx o (nth k1 idx 0) x))%nat ->
          (j < ny)%nat ->
          getH Hsub (offset o xred k0 + c0) (j * sum_dof o xred + offset o xred k1 + c1) =
          getH Hfull (offset o x (nth k0 idx 0%nat) + c0)
            (j * sum_dof o x + offset o x (nth k1 idx 0%nat) + c1) /\
          getH Hsub (offset o xred k0 + c0) (j * sum_dof o xred + offset o xred k1 + c1) <> None).
Proof. exact hess_subset_current. Qed.
Print Assumptions C08_hess_subset.

Theorem C08_restore_exact :
  forall (Sc X Y JT HT : Type) (o : Ops Sc X Y) (K : nat) (c : Callable X Y JT HT) 
         (x : list X) (idx : list nat) (consts : list bool),
       K = 1%nat \/ K = 2%nat ->
       current_code o ->
       length consts = length x ->
       (forall out : Out Sc X Y JT HT,
        dr o K Numerical c x = Some out -> o_args out = x /\ caller_view consts x (o_args out) = x) /\
       (forall out : Out Sc X Y JT HT, dr_idx o K Numerical c x idx = Some out -> o_args out = x).
Proof. exact restore_exact_current. Qed.
Print Assumptions C08_restore_exact.

Theorem C08_analytic_passthrough :
  forall (Sc X Y JT HT : Type) (o : Ops Sc X Y) (c : Callable X Y JT HT) (x : list X)
         (jac : list X -> JT) (hess : list X -> HT),
       c_jac c = Some jac ->
       dr o 1 Analytic c x =
       Some {| o_val := c_f c x; o_J := Some (JUser Sc (jac x)); o_H := None; o_args := x |} /\
       dr o 1 Default c x =
       Some {| o_val := c_f c x; o_J := Some (JUser Sc (jac x)); o_H := None; o_args := x |} /\
       (c_hess c = Some hess ->
        dr o 2 Analytic c x =
        Some
          {|
            o_val := c_f c x; o_J := Some (JUser Sc (jac x)); o_H := Some (HUser Sc (hess x)); o_args := x
          |} /\
        dr o 2 Default c x =
        Some
          {|
            o_val := c_f c x; o_J := Some (JUser Sc (jac x)); o_H := Some (HUser Sc (hess x)); o_args := x
          |}) /\ (c_hess c = None -> dr o 2 Default c x = dr o 2 Numerical c x /\ dr o 2 Analytic c x = None).
Proof. exact analytic_passthrough. Qed.
Print Assumptions C08_analytic_passthrough.

Theorem C08_default_with_subset_is_numerical :
  forall (Sc X Y JT HT : Type) (o : Ops Sc X Y) (K : nat) (c : Callable X Y JT HT) 
         (x : list X) (idx : list nat), dr_idx o K Default c x idx = dr_idx o K Numerical c x idx.
Proof. exact default_with_subset_is_numerical. Qed.
Print Assumptions C08_default_with_subset_is_numerical.

Theorem C08_k0_value_only :
  forall (Sc X Y JT HT : Type) (o : Ops Sc X Y) (m : Mode) (c : Callable X Y JT HT) 
         (x : list X) (idx : list nat),
       dr o 0 m c x = Some {| o_val := c_f c x; o_J := None; o_H := None; o_args := x |} /\
       (NoDup idx ->
        dr_idx o 0 m c x idx = Some {| o_val := c_f c x; o_J := None; o_H := None; o_args := x |}).
Proof. exact k0_value_only. Qed.
Print Assumptions C08_k0_value_only.

Theorem C08_jac_entry_error :
  forall (X Y : Type) (o : Ops R X Y),
       sdiv o = Rdiv ->
       szero o = 0 ->
       forall (f : list X -> Y) (x : list X) (i j r : nat) (M2 : R),
       let h := step o (eps o) (getx o i x) j in
       let phi := fun t : R => nth r (rminus o (f (pert o x i j t)) (f x)) 0 in
       0 < h ->
       phi 0 = 0 ->
       (r < length (rminus o (f (pert o x i j h)) (f x)))%nat ->
       (forall t : R, 0 <= t <= 0 + h -> forall k : nat, (k <= 2)%nat -> ex_derive_n phi k t) ->
       (forall t : R, 0 <= t <= 0 + h -> Rabs (Derive_n phi 2 t) <= M2) ->
       Rabs (nth r (quot1 o (eps o) f x i j) 0 - Derive phi 0) <= h * M2 / 2.
Proof. exact jac_entry_error. Qed.
Print Assumptions C08_jac_entry_error.

Theorem C08_fwd_diff_bound :
  forall (f : R -> R) (x h h' M1 M2 ef dh F0 F1 : R),
       0 < h ->
       0 < h' ->
       (forall t : R, x <= t <= x + h' -> forall k : nat, (k <= 2)%nat -> ex_derive_n f k t) ->
       (forall t : R, x <= t <= x + h' -> Rabs (Derive_n f 2 t) <= M2) ->
       Rabs (Derive f x) <= M1 ->
       Rabs (h' - h) <= dh ->
       Rabs (F1 - f (x + h')) <= ef ->
       Rabs (F0 - f x) <= ef -> Rabs ((F1 - F0) / h - Derive f x) <= (h' ^ 2 * M2 / 2 + 2 * ef + M1 * dh) / h.
Proof. exact fwd_diff_bound. Qed.
Print Assumptions C08_fwd_diff_bound.

Theorem C08_fwd_diff_code_step :
  forall (f : R -> R) (x h' M2 ef F0 F1 : R),
       let h := code_step eps1 x in
       x = 0 \/ 1 / 10 <= Rabs x <= 10 ->
       0 < h' ->
       Rabs (h' - h) <= / 2 ^ 53 * (Rabs x + h) ->
       (forall t : R, x <= t <= x + h' -> forall k : nat, (k <= 2)%nat -> ex_derive_n f k t) ->
       (forall t : R, x <= t <= x + h' -> Rabs (Derive_n f 2 t) <= M2) ->
       M2 <= 100 ->
       0 <= ef ->
       ef <= / 2 ^ 46 ->
       Rabs (F1 - f (x + h')) <= ef ->
       Rabs (F0 - f x) <= ef -> Rabs ((F1 - F0) / h - Derive f x) <= 1 / 10000 * Rmax 1 (Rabs (Derive f x)).
Proof. exact fwd_diff_code_step. Qed.
Print Assumptions C08_fwd_diff_code_step.

Theorem C08_k2_jac_is_k1_jac :
  forall (Sc X Y JT HT : Type) (o : Ops Sc X Y) (f : list X -> Y) (x : list X),
       current_code o ->
       exists J1 J2 : JGrid Sc,
         o_J (dr_numerical JT HT o 1 f x) = Some (JNum JT J1) /\
         o_J (dr_numerical JT HT o 2 f x) = Some (JNum JT J2) /\
         length J1 = length J2 /\
         (forall c : nat, (c < sum_dof o x)%nat -> getJ J1 c = getJ J2 c /\ getJ J2 c <> None).
Proof. exact k2_jac_is_k1_jac. Qed.
Print Assumptions C08_k2_jac_is_k1_jac.

Theorem C08_k2_jac_entry_error :
  forall (X Y : Type) (o : Ops R X Y),
       sdiv o = Rdiv ->
       szero o = 0 ->
       forall (JT HT : Type) (f : list X -> Y) (x : list X) (i j r : nat) (M2 : R),
       current_code o ->
       (i < length x)%nat ->
       (j < dofX o (getx o i x))%nat ->
       let h := step o (eps o) (getx o i x) j in
       let phi := fun t : R => nth r (rminus o (f (pert o x i j t)) (f x)) 0 in
       0 < h ->
       phi 0 = 0 ->
       (r < length (rminus o (f (pert o x i j h)) (f x)))%nat ->
       (forall t : R, 0 <= t <= 0 + h -> forall k : nat, (k <= 2)%nat -> ex_derive_n phi k t) ->
       (forall t : R, 0 <= t <= 0 + h -> Rabs (Derive_n phi 2 t) <= M2) ->
       exists (J : JGrid R) (col : list R),
         o_J (dr_numerical JT HT o 2 f x) = Some (JNum JT J) /\
         getJ J (offset o x i + j) = Some col /\ Rabs (nth r col 0 - Derive phi 0) <= h * M2 / 2.
Proof. exact k2_jac_entry_error. Qed.
Print Assumptions C08_k2_jac_entry_error.

Theorem C08_k2_jac_accuracy :
  forall (f : R -> R) (x M2 : R),
       let h := code_step eps1 x in
       x = 0 \/ 1 / 10 <= Rabs x <= 10 ->
       (forall t : R, x <= t <= x + h -> forall k : nat, (k <= 2)%nat -> ex_derive_n f k t) ->
       (forall t : R, x <= t <= x + h -> Rabs (Derive_n f 2 t) <= M2) ->
       M2 <= 100 -> Rabs ((f (x + h) - f x) / h - Derive f x) <= 1 / 10000 * Rmax 1 (Rabs (Derive f x)).
Proof. exact k2_jac_accuracy_current. Qed.
Print Assumptions C08_k2_jac_accuracy.

Theorem C08_second_diff_bound :
  forall (P Pb Pba Pbaa Pbab : R -> R -> R) (h0 h1 M21 M12 eN N : R),
       0 < h0 ->
       0 < h1 ->
       (forall b : R, P 0 b = 0) ->
       (forall a b : R, 0 <= a <= h0 -> 0 <= b <= h1 -> is_derive (fun b' : R_AbsRing => P a b') b (Pb a b)) ->
       (forall a b : R, 0 <= a <= h0 -> 0 <= b <= h1 -> is_derive (fun a' : R_AbsRing => Pb a' b) a (Pba a b)) ->
       (forall a b : R,
        0 <= a <= h0 -> 0 <= b <= h1 -> is_derive (fun a' : R_AbsRing => Pba a' b) a (Pbaa a b)) ->
       (forall b : R, 0 <= b <= h1 -> is_derive (fun b' : R_AbsRing => Pba 0 b') b (Pbab 0 b)) ->
       (forall a b : R, 0 <= a <= h0 -> 0 <= b <= h1 -> Rabs (Pbaa a b) <= M21) ->
       (forall b : R, 0 <= b <= h1 -> Rabs (Pbab 0 b) <= M12) ->
       Rabs (N - (P h0 h1 - P h0 0)) <= eN ->
       Rabs (N / h0 / h1 - Pba 0 0) <= h0 * M21 / 2 + h1 * M12 + eN / (h0 * h1).
Proof. exact second_diff_bound. Qed.
Print Assumptions C08_second_diff_bound.

Theorem C08_second_diff_code_step :
  forall (P Pb Pba Pbaa Pbab : R -> R -> R) (x0 x1 M21 M12 eN N : R),
       let h0 := code_step eps2 x0 in
       let h1 := code_step eps2 x1 in
       x0 = 0 \/ 1 / 10 <= Rabs x0 <= 10 ->
       x1 = 0 \/ 1 / 10 <= Rabs x1 <= 10 ->
       (forall b : R, P 0 b = 0) ->
       (forall a b : R, 0 <= a <= h0 -> 0 <= b <= h1 -> is_derive (fun b' : R_AbsRing => P a b') b (Pb a b)) ->
       (forall a b : R, 0 <= a <= h0 -> 0 <= b <= h1 -> is_derive (fun a' : R_AbsRing => Pb a' b) a (Pba a b)) ->
       (forall a b : R,
        0 <= a <= h0 -> 0 <= b <= h1 -> is_derive (fun a' : R_AbsRing => Pba a' b) a (Pbaa a b)) ->
       (forall b : R, 0 <= b <= h1 -> is_derive (fun b' : R_AbsRing => Pba 0 b') b (Pbab 0 b)) ->
       (forall a b : R, 0 <= a <= h0 -> 0 <= b <= h1 -> Rabs (Pbaa a b) <= M21) ->
       (forall b : R, 0 <= b <= h1 -> Rabs (Pbab 0 b) <= M12) ->
       M21 <= 10 ->
       M12 <= 10 ->
       eN <= 4 * / 2 ^ 46 ->
       Rabs (N - (P h0 h1 - P h0 0)) <= eN ->
       Rabs (N / h0 / h1 - Pba 0 0) <= 5 / 100 * Rmax 1 (Rabs (Pba 0 0)).
Proof. exact second_diff_code_step. Qed.
Print Assumptions C08_second_diff_code_step.

Theorem C08_mixed_partial_swap :
  forall P Pb Pba Pa Pab : R -> R -> R,
       (forall (a : R) (b : R_AbsRing), is_derive (fun b' : R_AbsRing => P a b') b (Pb a b)) ->
       (forall (a : R_AbsRing) (b : R), is_derive (fun a' : R_AbsRing => Pb a' b) a (Pba a b)) ->
       (forall (a : R_AbsRing) (b : R), is_derive (fun a' : R_AbsRing => P a' b) a (Pa a b)) ->
       (forall (a : R) (b : R_AbsRing), is_derive (fun b' : R_AbsRing => Pa a b') b (Pab a b)) ->
       continuity_2d_pt Pba 0 0 -> continuity_2d_pt Pab 0 0 -> Pba 0 0 = Pab 0 0.
Proof. exact mixed_partial_swap. Qed.
Print Assumptions C08_mixed_partial_swap.

Theorem C08_restore_float_bound :
  forall x h d1 d2 u e : R,
       0 <= u ->
       u <= / 2 ^ 53 ->
       0 <= e <= / 2 ^ 13 ->
       Rabs d1 <= u ->
       Rabs d2 <= u ->
       Rabs h <= e * Rabs x -> Rabs (((x + h) * (1 + d1) - h) * (1 + d2) - x) <= 3 * u * Rabs x.
Proof. exact restore_float_bound. Qed.
Print Assumptions C08_restore_float_bound.

Theorem C08_restore_k1_within_1e15 :
  forall x h d1 d2 : R,
       Rabs d1 <= / 2 ^ 53 ->
       Rabs d2 <= / 2 ^ 53 ->
       Rabs h <= eps1 * Rabs x -> Rabs (((x + h) * (1 + d1) - h) * (1 + d2) - x) <= 1 / 10 ^ 15 * Rabs x.
Proof. exact restore_k1_within_1e15. Qed.
Print Assumptions C08_restore_k1_within_1e15.

Theorem C08_restore_float_bound_n :
  forall (u e : R) (xs hs d1s d2s : nat -> R),
       0 <= u ->
       u <= / 2 ^ 53 ->
       0 <= e <= / 2 ^ 13 ->
       (forall i : nat, Rabs (d1s i) <= u) ->
       (forall i : nat, Rabs (d2s i) <= u) ->
       (forall i : nat, Rabs (hs i) <= e * Rabs (xs i)) ->
       (forall i : nat, xs (S i) = trip (xs i) (hs i) (d1s i) (d2s i)) ->
       forall n : nat, Rabs (xs n - xs 0%nat) <= ((1 + 3 * u) ^ n - 1) * Rabs (xs 0%nat).
Proof. exact restore_float_bound_n. Qed.
Print Assumptions C08_restore_float_bound_n.

