(* Property C09: the property theorems and nothing else.  Each is closed by the lemma of the same name in
   Proofs/C09_*.v about the executable model Model/C09_*.v; Print Assumptions lists the axioms.
   All theorems about the minimize loop are stated for THE CODE THAT EXISTS: the model instance [code_now]
   (Model/C09_Minimize.v; /repo since commit 16638da, optim.hpp:147 with the disjunct r_n == 0).  The lemmas in Proofs/
   hold for both values of the model's [fixed] flag and are instantiated here.  The only statement about the code before
   that commit is the historical C09_zero_residual_spin_refuted. *)
From Coq Require Import QArith Qabs Bool List ZArith.
From SV Require Import Model.C09_TrStrategy Model.C09_Minimize.
From SV Require Proofs.C09_TrStrategy Proofs.C09_Minimize.
Import ListNotations.
Import Proofs.C09_TrStrategy Proofs.C09_Minimize.
Local Open Scope Q_scope.

(* callbacks (initial point first, then one per accepted step) have non-increasing cost; the final cost is below
   every callback cost, in particular not above the start -- for every strategy that only takes steps with rho > 0,
   every oracle sequence meeting the exact-arithmetic contract (C10), options, start and strategy state *)
Theorem C09_cost_monotone :
  forall (S X : Type) (strat : strategy S) (opts : options) (orc : nat -> oracle X),
  takes_only_positive strat ->
  forall x0 c0 s0, 0 <= c0 ->
  (forall s, reach strat opts code_now orc x0 c0 s0 s -> st s = None -> (iter s < max_iter opts)%nat ->
             exact_oracle (cost s) (orc (iter s))) ->
  let r := run strat opts code_now orc x0 c0 s0 in
  mono (cbs r) /\ (forall p, In p (cbs r) -> cost r <= snd p /\ snd p <= c0) /\ cost r <= c0.
Proof. exact (fun S X strat opts => @cost_monotone S X strat opts code_now). Qed.
Print Assumptions C09_cost_monotone.

Theorem C09_cost_monotone_ceres :
  forall (X : Type) opts (orc : nat -> oracle X) x0 c0 s0, 0 <= c0 ->
  (forall s, reach ceres opts code_now orc x0 c0 s0 s -> st s = None -> (iter s < max_iter opts)%nat ->
             exact_oracle (cost s) (orc (iter s))) ->
  let r := run ceres opts code_now orc x0 c0 s0 in
  mono (cbs r) /\ (forall p, In p (cbs r) -> cost r <= snd p /\ snd p <= c0) /\ cost r <= c0.
Proof. exact (fun X opts => @cost_monotone_ceres X opts code_now). Qed.
Print Assumptions C09_cost_monotone_ceres.

Theorem C09_cost_monotone_disney :
  forall (X : Type) opts (orc : nat -> oracle X) x0 c0 d0, 0 <= c0 ->
  (forall s, reach disney opts code_now orc x0 c0 d0 s -> st s = None -> (iter s < max_iter opts)%nat ->
             exact_oracle (cost s) (orc (iter s))) ->
  let r := run disney opts code_now orc x0 c0 d0 in
  mono (cbs r) /\ (forall p, In p (cbs r) -> cost r <= snd p /\ snd p <= c0) /\ cost r <= c0.
Proof. exact (fun X opts => @cost_monotone_disney X opts code_now). Qed.
Print Assumptions C09_cost_monotone_disney.

(* floating-point variant: each callback cost is at most (1 + sl) times the previous one *)
Theorem C09_cost_monotone_fl :
  forall (S X : Type) (strat : strategy S) (opts : options) (orc : nat -> oracle X),
  takes_only_positive strat ->
  forall sl x0 c0 s0, 0 <= sl -> 0 <= c0 ->
  (forall s, reach strat opts code_now orc x0 c0 s0 s -> st s = None -> (iter s < max_iter opts)%nat ->
             fl_oracle sl (cost s) (orc (iter s))) ->
  let r := run strat opts code_now orc x0 c0 s0 in
  mono_sl sl (cbs r) /\ 0 <= cost r.
Proof. exact (fun S X strat opts => @cost_monotone_fl S X strat opts code_now). Qed.
Print Assumptions C09_cost_monotone_fl.

(* without the strategy contract the statement is false (user-defined strategy) *)
Theorem C09_cost_monotone_without_contract_refuted :
  exists (sc : script) (oc : oracle Z),
    exact_oracle 1 oc /\ ~ mono (cbs (run scripted ex_opts code_now (orc_of_list [oc]) 0%Z 1 sc)).
Proof. exact cost_monotone_without_contract_refuted. Qed.
Print Assumptions C09_cost_monotone_without_contract_refuted.

Theorem C09_iter_bound :
  forall (S X : Type) (strat : strategy S) (opts : options) (orc : nat -> oracle X) x0 c0 s0,
  let r := run strat opts code_now orc x0 c0 s0 in
  (result_iter r <= max_iter opts)%nat /\
  length (evs r) = result_iter r /\
  length (cbs r) = Datatypes.S (count_stepped (evs r)) /\
  (1 <= length (cbs r) <= max_iter opts + 1)%nat /\
  last (cbs r) (x0, c0) = (x0, c0).
Proof. exact (fun S X strat opts => @iter_bound S X strat opts code_now). Qed.
Print Assumptions C09_iter_bound.

Theorem C09_status_maxiters_iff :
  forall (S X : Type) (strat : strategy S) (opts : options) (orc : nat -> oracle X) x0 c0 s0,
  let r := run strat opts code_now orc x0 c0 s0 in
  (result_status r = MaxIters <-> Forall (fun e => e_conv e = None) (evs r)) /\
  (result_status r = MaxIters -> result_iter r = max_iter opts) /\
  (forall v, v <> MaxIters -> result_status r = v ->
     exists e rest, evs r = e :: rest /\ e_conv e = Some v /\ e_stepped e = true /\
                    Forall (fun e' => e_conv e' = None) rest /\ (1 <= result_iter r <= max_iter opts)%nat).
Proof. exact (fun S X strat opts => @status_maxiters_iff S X strat opts code_now). Qed.
Print Assumptions C09_status_maxiters_iff.

Theorem C09_final_is_last_iterate :
  forall (S X : Type) (strat : strategy S) (opts : options) (orc : nat -> oracle X) x0 c0 s0,
  let r := run strat opts code_now orc x0 c0 s0 in
  hd_error (cbs r) = Some (cur r, cost r).
Proof. exact (fun S X strat opts => @final_is_last_iterate S X strat opts code_now). Qed.
Print Assumptions C09_final_is_last_iterate.

Theorem C09_reject_keeps_x :
  forall (S X : Type) (strat : strategy S) (opts : options) (oc : oracle X) (s : state S X),
  accept oc (fst (step_and_update strat (sstate s) (o_rho oc))) = false ->
  cur (step strat opts code_now oc s) = cur s /\ cost (step strat opts code_now oc s) = cost s /\
  cbs (step strat opts code_now oc s) = cbs s.
Proof. exact (fun S X strat opts => @reject_keeps_x S X strat opts code_now). Qed.
Print Assumptions C09_reject_keeps_x.

(* zero residual (the region of the former finding C09-zero-residual-nan, fixed in /repo by 16638da): the iteration that
   sees r_n == 0 takes the (zero) step, hands it to the callback and ends the loop with Ftol -- for every strategy,
   every tolerance (also ptol, ftol <= 0) and every oracle record *)
Theorem C09_zero_residual_stops :
  forall (S X : Type) (strat : strategy S) (opts : options) (orc : nat -> oracle X) (s : state S X),
  st s = None -> o_rn_zero (orc (iter s)) = true ->
  st (step strat opts code_now (orc (iter s)) s) = Some Ftol /\
  cbs (step strat opts code_now (orc (iter s)) s) = (o_xp (orc (iter s)), o_cost_new (orc (iter s))) :: cbs s.
Proof. exact (@zero_residual_stops). Qed.
Print Assumptions C09_zero_residual_stops.

(* run level: an executed iteration with r_n == 0 is the last one and the run reports Ftol; hence no iteration (no
   strategy update, no trust-region solve) ever follows a zero residual and Delta cannot be driven to underflow by it *)
Theorem C09_zero_residual_ends_run :
  forall (S X : Type) (strat : strategy S) (opts : options) (orc : nat -> oracle X) x0 c0 s0,
  let r := run strat opts code_now orc x0 c0 s0 in
  forall i, (i < result_iter r)%nat -> o_rn_zero (orc i) = true ->
    result_iter r = Datatypes.S i /\ result_status r = Ftol.
Proof. exact (@zero_residual_ends_run). Qed.
Print Assumptions C09_zero_residual_ends_run.

(* HISTORICAL (kept so that the regression is documented on the model side): the code BEFORE 16638da, i.e. the model
   with [fixed := false], spins on a zero residual when ptol = 0 until Delta is below the radius where
   lambda = 1/Delta overflows.  This is a statement about the old code only; it is still a theorem of the
   parametrised model. *)
Theorem C09_zero_residual_spin_refuted :
  let r := run ceres spin_opts false (fun _ => spin_oracle) 0%Z 0 ceres_init in
  result_status r = MaxIters /\ result_iter r = 60%nat /\ length (cbs r) = 61%nat /\
  existsb (fun e => e_stepped e && Qltb (e_delta e) lambda_overflow_radius) (evs r) = true.
Proof. exact zero_residual_spin_refuted. Qed.
Print Assumptions C09_zero_residual_spin_refuted.

(* strategies *)
Theorem C09_ceres_run_facts :
  forall (X : Type) opts (orc : nat -> oracle X) x0 c0 s0, ceres_inv s0 ->
  let r := run ceres opts code_now orc x0 c0 s0 in
  ceres_inv (sstate r) /\ Forall (fun e => 0 < e_delta e) (evs r).
Proof. exact (fun X opts => @ceres_run_facts X opts code_now). Qed.
Print Assumptions C09_ceres_run_facts.

Theorem C09_disney_run_facts :
  forall (X : Type) opts (orc : nat -> oracle X) x0 c0 (d0 : Q), 0 < d0 ->
  let r := run disney opts code_now orc x0 c0 d0 in
  0 < sstate r /\ Forall (fun e => 0 < e_delta e) (evs r).
Proof. exact (fun X opts => @disney_run_facts X opts code_now). Qed.
Print Assumptions C09_disney_run_facts.

Theorem C09_ceres_reject_shrinks :
  forall s rho, ceres_inv s -> fst (ceres_step s rho) = false ->
  c_delta (snd (ceres_step s rho)) <= c_delta s / 2 /\
  c_delta (snd (ceres_step s rho)) < c_delta s /\
  c_reduce (snd (ceres_step s rho)) == 2 * c_reduce s.
Proof. exact ceres_reject_shrinks. Qed.
Print Assumptions C09_ceres_reject_shrinks.

Theorem C09_ceres_accept_bounds :
  forall s rho, ceres_inv s -> fst (ceres_step s rho) = true ->
  c_delta s / 2 < c_delta (snd (ceres_step s rho)) /\
  c_delta (snd (ceres_step s rho)) <= c_delta s / c_third /\
  c_reduce (snd (ceres_step s rho)) = 2.
Proof. exact ceres_accept_bounds. Qed.
Print Assumptions C09_ceres_accept_bounds.

Theorem C09_ceres_take_iff :
  forall s rho, fst (ceres_step s rho) = true <-> xltb (Fin c_1em3) rho = true.
Proof. exact ceres_take_iff. Qed.
Print Assumptions C09_ceres_take_iff.

Theorem C09_disney_reject_shrinks :
  forall d rho, 0 < d -> fst (disney_step d rho) = false ->
  snd (disney_step d rho) == d / 10 /\ snd (disney_step d rho) < d.
Proof. exact disney_reject_shrinks. Qed.
Print Assumptions C09_disney_reject_shrinks.

Theorem C09_disney_take_iff :
  forall d rho, fst (disney_step d rho) = true <-> xltb (Fin 0) rho = true.
Proof. exact disney_take_iff. Qed.
Print Assumptions C09_disney_take_iff.

Theorem C09_strategies_take_only_positive : takes_only_positive ceres /\ takes_only_positive disney.
Proof. exact (conj ceres_takes_only_positive disney_takes_only_positive). Qed.
Print Assumptions C09_strategies_take_only_positive.
