(* Property C10: the property theorems and nothing else.  Each is closed by a lemma of Proofs/C10_*.v;
   Print Assumptions lists the axioms (the standard library's real-number axioms). *)
From Coq Require Import List QArith Qreals Reals Arith.
From Coquelicot Require Import Coquelicot.
From SV Require Import Model.C10_Assembly Proofs.C10_LinAlg Proofs.C10_Dphi Proofs.C10_AssemblyProofs
  Proofs.C10_Colwise Proofs.C10_Main.
Import ListNotations.
Local Open Scope R_scope.

(* ---- real-number theorems, every shape m x n, every J (rank-deficient included) ------------------ *)

Theorem C10_normal_eq_minimiser :
  forall (m n : nat) (J : nat -> nat -> R) (d : nat -> R) (lam : R) (r x : nat -> R),
  0 <= lam -> normal_eq m n J d lam r x -> forall y, phi m n J d lam r x <= phi m n J d lam r y.
Proof. exact normal_eq_minimiser. Qed.
Print Assumptions C10_normal_eq_minimiser.

Theorem C10_minimiser_strict :
  forall (m n : nat) (J : nat -> nat -> R) (d : nat -> R) (lam : R) (r x : nat -> R),
  0 < lam -> dpos n d -> normal_eq m n J d lam r x ->
  forall y, (exists j, (j < n)%nat /\ y j <> x j) -> phi m n J d lam r x < phi m n J d lam r y.
Proof. exact normal_eq_minimiser_strict. Qed.
Print Assumptions C10_minimiser_strict.

Theorem C10_minimiser_unique :
  forall (m n : nat) (J : nat -> nat -> R) (d : nat -> R) (lam : R) (r x : nat -> R),
  0 < lam -> dpos n d -> normal_eq m n J d lam r x ->
  forall y, phi m n J d lam r y <= phi m n J d lam r x -> forall j, (j < n)%nat -> y j = x j.
Proof. exact minimiser_unique. Qed.
Print Assumptions C10_minimiser_unique.

Theorem C10_H_spd :
  forall (m n : nat) (J : nat -> nat -> R) (d : nat -> R) (lam : R) (u : nat -> R),
  0 < lam -> dpos n d -> (exists j, (j < n)%nat /\ u j <> 0) ->
  0 < sumn n (fun k => u k * Hv m n J d lam u k).
Proof. exact H_spd. Qed.
Print Assumptions C10_H_spd.

Theorem C10_descent :
  forall (m n : nat) (J : nat -> nat -> R) (d : nat -> R) (lam : R) (r x : nat -> R),
  0 <= lam -> normal_eq m n J d lam r x ->
  sqrt (res2 m n J r x) <= sqrt (sumn m (fun i => r i * r i)).
Proof. exact descent. Qed.
Print Assumptions C10_descent.

Theorem C10_pred_red_nonneg :
  forall (m n : nat) (J : nat -> nat -> R) (d : nat -> R) (lam : R) (r x : nat -> R),
  0 <= lam -> 0 < sumn m (fun i => r i * r i) -> normal_eq m n J d lam r x ->
  0 <= pred_red_code m n J r x.
Proof. exact pred_red_code_nonneg. Qed.
Print Assumptions C10_pred_red_nonneg.

Theorem C10_pred_red_zero_iff_dx_zero :
  forall (m n : nat) (J : nat -> nat -> R) (d : nat -> R) (lam : R) (r x : nat -> R),
  0 < lam -> dpos n d -> 0 < sumn m (fun i => r i * r i) -> normal_eq m n J d lam r x ->
  (pred_red_code m n J r x = 0 <-> forall j, (j < n)%nat -> x j = 0).
Proof. exact pred_red_code_zero_iff. Qed.
Print Assumptions C10_pred_red_zero_iff_dx_zero.

Theorem C10_dphi_correct :
  forall (m n : nat) (J : nat -> nat -> R) (d r : nat -> R) (x : R -> nat -> R) (x' : nat -> R) (lam0 : R),
  0 < lam0 -> dpos n d ->
  (forall l, 0 < l -> normal_eq m n J d l r (x l)) ->
  (forall j, (j < n)%nat -> is_derive (fun l => x l j) lam0 (x' j)) ->
  forall y, (forall k, (k < n)%nat -> Hv m n J d lam0 y k = dq_code d (x lam0) k) ->
  is_derive (fun l => sqrt (reg2 n d (x l))) lam0 (dphi_code n d (x lam0) y).
Proof. exact dphi_correct. Qed.
Print Assumptions C10_dphi_correct.

(* ---- the exact model of the code ------------------------------------------------------------------ *)

(* under the contract of Eigen's LDLT solve *)
Theorem C10_model_solve_linear_ldlt :
  forall solve : list (list Q) -> list Q -> list Q,
  (forall n H b, shape n H -> length b = n -> spdQ n H -> solves n H b (solve H b)) ->
  forall m n J d r lam,
  (0 < lam)%Q -> (forall j, (j < n)%nat -> (0 < vnth d j)%Q) ->
  sll_spec m n J d r lam (solve_linear_ldlt solve m n J d r lam).
Proof. exact sll_model_correct. Qed.
Print Assumptions C10_model_solve_linear_ldlt.

Theorem C10_model_solve_trust_region :
  forall solve : list (list Q) -> list Q -> list Q,
  (forall n H b, shape n H -> length b = n -> spdQ n H -> solves n H b (solve H b)) ->
  forall m n J d r Delta,
  (0 < Delta)%Q -> (forall j, (j < n)%nat -> (0 < vnth d j)%Q) ->
  let res := solve_trust_region solve m n J d r Delta in
  (snd res == 1 / Delta)%Q /\
  fst res = out_x (solve_linear_ldlt solve m n J d r (snd res)) /\
  sll_spec m n J d r (snd res) (solve_linear_ldlt solve m n J d r (snd res)).
Proof. exact str_model_correct. Qed.
Print Assumptions C10_model_solve_trust_region.

(* for any solver, when the two solves pass the exact certificate check (what the extracted driver
   evaluates on every correspondence case) *)
Theorem C10_model_certified :
  forall (solve : list (list Q) -> list Q -> list Q) m n J d r lam,
  (0 < lam)%Q -> (forall j, (j < n)%nat -> (0 < vnth d j)%Q) ->
  sll_certified m n J d r lam (solve_linear_ldlt solve m n J d r lam) = true ->
  sll_spec m n J d r lam (solve_linear_ldlt solve m n J d r lam).
Proof. exact sll_certified_correct. Qed.
Print Assumptions C10_model_certified.

Theorem C10_model_assembles_spd :
  forall m n J d lam,
  (0 < lam)%Q -> (forall j, (j < n)%nat -> (0 < vnth d j)%Q) ->
  shape n (assemble_H m n J d lam) /\ spdQ n (assemble_H m n J d lam) /\
  forall k j, (k < n)%nat -> (j < n)%nat ->
    Q2R (mnth (assemble_H m n J d lam) k j) = Hm m (mR J) (vR d) (Q2R lam) k j.
Proof.
  exact (fun m n J d lam Hl Hd =>
    conj (shape_assemble_H m n J d lam)
      (conj (assemble_H_spd m n J d lam Hl Hd) (fun k j => assemble_H_R m n J d lam k j))).
Qed.
Print Assumptions C10_model_assembles_spd.

Theorem C10_colwise_sparse_eq_dense :
  forall m n M j, (j < n)%nat ->
  (vnth (colwise_sqnorm_sparse n (to_sparse m n M)) j == vnth (colwise_sqnorm_dense m n M) j)%Q.
Proof. exact colwise_sparse_eq_dense. Qed.
Print Assumptions C10_colwise_sparse_eq_dense.
