(* Property C11: the property theorems and nothing else .  Each is closed by the lemma of the same
   name proved in Proofs/C11_<unit>.v against the generated model; Print Assumptions lists the axioms. *)
From Coq Require Import Reals List Lra.
From Coquelicot Require Import Coquelicot.
From SV Require Import Base.Trig.
From SV Require Gen.CS Gen.SO3 Gen.SE2.
From SV Require Import Base.GenPrelude Base.Mat Doc.Groups.
From SV Require Proofs.C11_Vec.
From SV Require Proofs.C11_SO3.
From SV Require Proofs.C11_SE2.
Import ListNotations.
Local Open Scope R_scope.

Theorem C11_csv1_val_spec :
  forall v1_0 v1_1 b0 b1 b2 b3 u out,
  Gen.CS.csv1_val_rel [v1_0; v1_1] [b0; b1; b2; b3] [u] out ->
  out = [(1 * (1) * b1 + 1 * (u) * b3) * v1_0; (1 * (1) * b1 + 1 * (u) * b3) * v1_1].
Proof. exact Proofs.C11_Vec.csv1_val_spec. Qed.
Print Assumptions C11_csv1_val_spec.

Theorem C11_csv1_vel_spec :
  forall v1_0 v1_1 b0 b1 b2 b3 u out,
  Gen.CS.csv1_vel_rel [v1_0; v1_1] [b0; b1; b2; b3] [u] out ->
  out = [(1 * (1) * b3) * v1_0; (1 * (1) * b3) * v1_1].
Proof. exact Proofs.C11_Vec.csv1_vel_spec. Qed.
Print Assumptions C11_csv1_vel_spec.

Theorem C11_csv1_acc_spec :
  forall v1_0 v1_1 b0 b1 b2 b3 u out,
  Gen.CS.csv1_acc_rel [v1_0; v1_1] [b0; b1; b2; b3] [u] out ->
  out = [0 * v1_0; 0 * v1_1].
Proof. exact Proofs.C11_Vec.csv1_acc_spec. Qed.
Print Assumptions C11_csv1_acc_spec.

Theorem C11_csv1_jer_spec :
  forall v1_0 v1_1 b0 b1 b2 b3 u out,
  Gen.CS.csv1_jer_rel [v1_0; v1_1] [b0; b1; b2; b3] [u] out ->
  out = [0 * v1_0; 0 * v1_1].
Proof. exact Proofs.C11_Vec.csv1_jer_spec. Qed.
Print Assumptions C11_csv1_jer_spec.

Theorem C11_csv1_vel_is_derivative_of_val :
  forall v1_0 v1_1 b0 b1 b2 b3 u i, (i < 2)%nat ->
  is_derive (fun x => nth i (Gen.CS.csv1_val_p0 [v1_0; v1_1] [b0; b1; b2; b3] [x]) 0) u (nth i (Gen.CS.csv1_vel_p0 [v1_0; v1_1] [b0; b1; b2; b3] [u]) 0).
Proof. exact Proofs.C11_Vec.csv1_vel_is_derivative_of_val. Qed.
Print Assumptions C11_csv1_vel_is_derivative_of_val.

Theorem C11_csv1_acc_is_derivative_of_vel :
  forall v1_0 v1_1 b0 b1 b2 b3 u i, (i < 2)%nat ->
  is_derive (fun x => nth i (Gen.CS.csv1_vel_p0 [v1_0; v1_1] [b0; b1; b2; b3] [x]) 0) u (nth i (Gen.CS.csv1_acc_p0 [v1_0; v1_1] [b0; b1; b2; b3] [u]) 0).
Proof. exact Proofs.C11_Vec.csv1_acc_is_derivative_of_vel. Qed.
Print Assumptions C11_csv1_acc_is_derivative_of_vel.

Theorem C11_csv1_jer_is_derivative_of_acc :
  forall v1_0 v1_1 b0 b1 b2 b3 u i, (i < 2)%nat ->
  is_derive (fun x => nth i (Gen.CS.csv1_acc_p0 [v1_0; v1_1] [b0; b1; b2; b3] [x]) 0) u (nth i (Gen.CS.csv1_jer_p0 [v1_0; v1_1] [b0; b1; b2; b3] [u]) 0).
Proof. exact Proofs.C11_Vec.csv1_jer_is_derivative_of_acc. Qed.
Print Assumptions C11_csv1_jer_is_derivative_of_acc.

Theorem C11_csv2_val_spec :
  forall v1_0 v1_1 v2_0 v2_1 b0 b1 b2 b3 b4 b5 b6 b7 b8 u out,
  Gen.CS.csv2_val_rel [v1_0; v1_1] [v2_0; v2_1] [b0; b1; b2; b3; b4; b5; b6; b7; b8] [u] out ->
  out = [(1 * (1) * b1 + 1 * (u) * b4 + 1 * (u * u) * b7) * v1_0 + (1 * (1) * b2 + 1 * (u) * b5 + 1 * (u * u) * b8) * v2_0; (1 * (1) * b1 + 1 * (u) * b4 + 1 * (u * u) * b7) * v1_1 + (1 * (1) * b2 + 1 * (u) * b5 + 1 * (u * u) * b8) * v2_1].
Proof. exact Proofs.C11_Vec.csv2_val_spec. Qed.
Print Assumptions C11_csv2_val_spec.

Theorem C11_csv2_vel_spec :
  forall v1_0 v1_1 v2_0 v2_1 b0 b1 b2 b3 b4 b5 b6 b7 b8 u out,
  Gen.CS.csv2_vel_rel [v1_0; v1_1] [v2_0; v2_1] [b0; b1; b2; b3; b4; b5; b6; b7; b8] [u] out ->
  out = [(1 * (1) * b4 + 2 * (u) * b7) * v1_0 + (1 * (1) * b5 + 2 * (u) * b8) * v2_0; (1 * (1) * b4 + 2 * (u) * b7) * v1_1 + (1 * (1) * b5 + 2 * (u) * b8) * v2_1].
Proof. exact Proofs.C11_Vec.csv2_vel_spec. Qed.
Print Assumptions C11_csv2_vel_spec.

Theorem C11_csv2_acc_spec :
  forall v1_0 v1_1 v2_0 v2_1 b0 b1 b2 b3 b4 b5 b6 b7 b8 u out,
  Gen.CS.csv2_acc_rel [v1_0; v1_1] [v2_0; v2_1] [b0; b1; b2; b3; b4; b5; b6; b7; b8] [u] out ->
  out = [(2 * (1) * b7) * v1_0 + (2 * (1) * b8) * v2_0; (2 * (1) * b7) * v1_1 + (2 * (1) * b8) * v2_1].
Proof. exact Proofs.C11_Vec.csv2_acc_spec. Qed.
Print Assumptions C11_csv2_acc_spec.

Theorem C11_csv2_jer_spec :
  forall v1_0 v1_1 v2_0 v2_1 b0 b1 b2 b3 b4 b5 b6 b7 b8 u out,
  Gen.CS.csv2_jer_rel [v1_0; v1_1] [v2_0; v2_1] [b0; b1; b2; b3; b4; b5; b6; b7; b8] [u] out ->
  out = [0 * v1_0 + 0 * v2_0; 0 * v1_1 + 0 * v2_1].
Proof. exact Proofs.C11_Vec.csv2_jer_spec. Qed.
Print Assumptions C11_csv2_jer_spec.

Theorem C11_csv2_vel_is_derivative_of_val :
  forall v1_0 v1_1 v2_0 v2_1 b0 b1 b2 b3 b4 b5 b6 b7 b8 u i, (i < 2)%nat ->
  is_derive (fun x => nth i (Gen.CS.csv2_val_p0 [v1_0; v1_1] [v2_0; v2_1] [b0; b1; b2; b3; b4; b5; b6; b7; b8] [x]) 0) u (nth i (Gen.CS.csv2_vel_p0 [v1_0; v1_1] [v2_0; v2_1] [b0; b1; b2; b3; b4; b5; b6; b7; b8] [u]) 0).
Proof. exact Proofs.C11_Vec.csv2_vel_is_derivative_of_val. Qed.
Print Assumptions C11_csv2_vel_is_derivative_of_val.

Theorem C11_csv2_acc_is_derivative_of_vel :
  forall v1_0 v1_1 v2_0 v2_1 b0 b1 b2 b3 b4 b5 b6 b7 b8 u i, (i < 2)%nat ->
  is_derive (fun x => nth i (Gen.CS.csv2_vel_p0 [v1_0; v1_1] [v2_0; v2_1] [b0; b1; b2; b3; b4; b5; b6; b7; b8] [x]) 0) u (nth i (Gen.CS.csv2_acc_p0 [v1_0; v1_1] [v2_0; v2_1] [b0; b1; b2; b3; b4; b5; b6; b7; b8] [u]) 0).
Proof. exact Proofs.C11_Vec.csv2_acc_is_derivative_of_vel. Qed.
Print Assumptions C11_csv2_acc_is_derivative_of_vel.

Theorem C11_csv2_jer_is_derivative_of_acc :
  forall v1_0 v1_1 v2_0 v2_1 b0 b1 b2 b3 b4 b5 b6 b7 b8 u i, (i < 2)%nat ->
  is_derive (fun x => nth i (Gen.CS.csv2_acc_p0 [v1_0; v1_1] [v2_0; v2_1] [b0; b1; b2; b3; b4; b5; b6; b7; b8] [x]) 0) u (nth i (Gen.CS.csv2_jer_p0 [v1_0; v1_1] [v2_0; v2_1] [b0; b1; b2; b3; b4; b5; b6; b7; b8] [u]) 0).
Proof. exact Proofs.C11_Vec.csv2_jer_is_derivative_of_acc. Qed.
Print Assumptions C11_csv2_jer_is_derivative_of_acc.

Theorem C11_csv3_val_spec :
  forall v1_0 v1_1 v2_0 v2_1 v3_0 v3_1 b0 b1 b2 b3 b4 b5 b6 b7 b8 b9 b10 b11 b12 b13 b14 b15 u out,
  Gen.CS.csv3_val_rel [v1_0; v1_1] [v2_0; v2_1] [v3_0; v3_1] [b0; b1; b2; b3; b4; b5; b6; b7; b8; b9; b10; b11; b12; b13; b14; b15] [u] out ->
  out = [(1 * (1) * b1 + 1 * (u) * b5 + 1 * (u * u) * b9 + 1 * (u * u * u) * b13) * v1_0 + (1 * (1) * b2 + 1 * (u) * b6 + 1 * (u * u) * b10 + 1 * (u * u * u) * b14) * v2_0 + (1 * (1) * b3 + 1 * (u) * b7 + 1 * (u * u) * b11 + 1 * (u * u * u) * b15) * v3_0; (1 * (1) * b1 + 1 * (u) * b5 + 1 * (u * u) * b9 + 1 * (u * u * u) * b13) * v1_1 + (1 * (1) * b2 + 1 * (u) * b6 + 1 * (u * u) * b10 + 1 * (u * u * u) * b14) * v2_1 + (1 * (1) * b3 + 1 * (u) * b7 + 1 * (u * u) * b11 + 1 * (u * u * u) * b15) * v3_1].
Proof. exact Proofs.C11_Vec.csv3_val_spec. Qed.
Print Assumptions C11_csv3_val_spec.

Theorem C11_csv3_vel_spec :
  forall v1_0 v1_1 v2_0 v2_1 v3_0 v3_1 b0 b1 b2 b3 b4 b5 b6 b7 b8 b9 b10 b11 b12 b13 b14 b15 u out,
  Gen.CS.csv3_vel_rel [v1_0; v1_1] [v2_0; v2_1] [v3_0; v3_1] [b0; b1; b2; b3; b4; b5; b6; b7; b8; b9; b10; b11; b12; b13; b14; b15] [u] out ->
  out = [(1 * (1) * b5 + 2 * (u) * b9 + 3 * (u * u) * b13) * v1_0 + (1 * (1) * b6 + 2 * (u) * b10 + 3 * (u * u) * b14) * v2_0 + (1 * (1) * b7 + 2 * (u) * b11 + 3 * (u * u) * b15) * v3_0; (1 * (1) * b5 + 2 * (u) * b9 + 3 * (u * u) * b13) * v1_1 + (1 * (1) * b6 + 2 * (u) * b10 + 3 * (u * u) * b14) * v2_1 + (1 * (1) * b7 + 2 * (u) * b11 + 3 * (u * u) * b15) * v3_1].
Proof. exact Proofs.C11_Vec.csv3_vel_spec. Qed.
Print Assumptions C11_csv3_vel_spec.

Theorem C11_csv3_acc_spec :
  forall v1_0 v1_1 v2_0 v2_1 v3_0 v3_1 b0 b1 b2 b3 b4 b5 b6 b7 b8 b9 b10 b11 b12 b13 b14 b15 u out,
  Gen.CS.csv3_acc_rel [v1_0; v1_1] [v2_0; v2_1] [v3_0; v3_1] [b0; b1; b2; b3; b4; b5; b6; b7; b8; b9; b10; b11; b12; b13; b14; b15] [u] out ->
  out = [(2 * (1) * b9 + 6 * (u) * b13) * v1_0 + (2 * (1) * b10 + 6 * (u) * b14) * v2_0 + (2 * (1) * b11 + 6 * (u) * b15) * v3_0; (2 * (1) * b9 + 6 * (u) * b13) * v1_1 + (2 * (1) * b10 + 6 * (u) * b14) * v2_1 + (2 * (1) * b11 + 6 * (u) * b15) * v3_1].
Proof. exact Proofs.C11_Vec.csv3_acc_spec. Qed.
Print Assumptions C11_csv3_acc_spec.

Theorem C11_csv3_jer_spec :
  forall v1_0 v1_1 v2_0 v2_1 v3_0 v3_1 b0 b1 b2 b3 b4 b5 b6 b7 b8 b9 b10 b11 b12 b13 b14 b15 u out,
  Gen.CS.csv3_jer_rel [v1_0; v1_1] [v2_0; v2_1] [v3_0; v3_1] [b0; b1; b2; b3; b4; b5; b6; b7; b8; b9; b10; b11; b12; b13; b14; b15] [u] out ->
  out = [(6 * (1) * b13) * v1_0 + (6 * (1) * b14) * v2_0 + (6 * (1) * b15) * v3_0; (6 * (1) * b13) * v1_1 + (6 * (1) * b14) * v2_1 + (6 * (1) * b15) * v3_1].
Proof. exact Proofs.C11_Vec.csv3_jer_spec. Qed.
Print Assumptions C11_csv3_jer_spec.

Theorem C11_csv3_vel_is_derivative_of_val :
  forall v1_0 v1_1 v2_0 v2_1 v3_0 v3_1 b0 b1 b2 b3 b4 b5 b6 b7 b8 b9 b10 b11 b12 b13 b14 b15 u i, (i < 2)%nat ->
  is_derive (fun x => nth i (Gen.CS.csv3_val_p0 [v1_0; v1_1] [v2_0; v2_1] [v3_0; v3_1] [b0; b1; b2; b3; b4; b5; b6; b7; b8; b9; b10; b11; b12; b13; b14; b15] [x]) 0) u (nth i (Gen.CS.csv3_vel_p0 [v1_0; v1_1] [v2_0; v2_1] [v3_0; v3_1] [b0; b1; b2; b3; b4; b5; b6; b7; b8; b9; b10; b11; b12; b13; b14; b15] [u]) 0).
Proof. exact Proofs.C11_Vec.csv3_vel_is_derivative_of_val. Qed.
Print Assumptions C11_csv3_vel_is_derivative_of_val.

Theorem C11_csv3_acc_is_derivative_of_vel :
  forall v1_0 v1_1 v2_0 v2_1 v3_0 v3_1 b0 b1 b2 b3 b4 b5 b6 b7 b8 b9 b10 b11 b12 b13 b14 b15 u i, (i < 2)%nat ->
  is_derive (fun x => nth i (Gen.CS.csv3_vel_p0 [v1_0; v1_1] [v2_0; v2_1] [v3_0; v3_1] [b0; b1; b2; b3; b4; b5; b6; b7; b8; b9; b10; b11; b12; b13; b14; b15] [x]) 0) u (nth i (Gen.CS.csv3_acc_p0 [v1_0; v1_1] [v2_0; v2_1] [v3_0; v3_1] [b0; b1; b2; b3; b4; b5; b6; b7; b8; b9; b10; b11; b12; b13; b14; b15] [u]) 0).
Proof. exact Proofs.C11_Vec.csv3_acc_is_derivative_of_vel. Qed.
Print Assumptions C11_csv3_acc_is_derivative_of_vel.

Theorem C11_csv3_jer_is_derivative_of_acc :
  forall v1_0 v1_1 v2_0 v2_1 v3_0 v3_1 b0 b1 b2 b3 b4 b5 b6 b7 b8 b9 b10 b11 b12 b13 b14 b15 u i, (i < 2)%nat ->
  is_derive (fun x => nth i (Gen.CS.csv3_acc_p0 [v1_0; v1_1] [v2_0; v2_1] [v3_0; v3_1] [b0; b1; b2; b3; b4; b5; b6; b7; b8; b9; b10; b11; b12; b13; b14; b15] [x]) 0) u (nth i (Gen.CS.csv3_jer_p0 [v1_0; v1_1] [v2_0; v2_1] [v3_0; v3_1] [b0; b1; b2; b3; b4; b5; b6; b7; b8; b9; b10; b11; b12; b13; b14; b15] [u]) 0).
Proof. exact Proofs.C11_Vec.csv3_jer_is_derivative_of_acc. Qed.
Print Assumptions C11_csv3_jer_is_derivative_of_acc.

Theorem C11_csv4_val_spec :
  forall v1_0 v1_1 v2_0 v2_1 v3_0 v3_1 v4_0 v4_1 b0 b1 b2 b3 b4 b5 b6 b7 b8 b9 b10 b11 b12 b13 b14 b15 b16 b17 b18 b19 b20 b21 b22 b23 b24 u out,
  Gen.CS.csv4_val_rel [v1_0; v1_1] [v2_0; v2_1] [v3_0; v3_1] [v4_0; v4_1] [b0; b1; b2; b3; b4; b5; b6; b7; b8; b9; b10; b11; b12; b13; b14; b15; b16; b17; b18; b19; b20; b21; b22; b23; b24] [u] out ->
  out = [(1 * (1) * b1 + 1 * (u) * b6 + 1 * (u * u) * b11 + 1 * (u * u * u) * b16 + 1 * (u * u * u * u) * b21) * v1_0 + (1 * (1) * b2 + 1 * (u) * b7 + 1 * (u * u) * b12 + 1 * (u * u * u) * b17 + 1 * (u * u * u * u) * b22) * v2_0 + (1 * (1) * b3 + 1 * (u) * b8 + 1 * (u * u) * b13 + 1 * (u * u * u) * b18 + 1 * (u * u * u * u) * b23) * v3_0 + (1 * (1) * b4 + 1 * (u) * b9 + 1 * (u * u) * b14 + 1 * (u * u * u) * b19 + 1 * (u * u * u * u) * b24) * v4_0; (1 * (1) * b1 + 1 * (u) * b6 + 1 * (u * u) * b11 + 1 * (u * u * u) * b16 + 1 * (u * u * u * u) * b21) * v1_1 + (1 * (1) * b2 + 1 * (u) * b7 + 1 * (u * u) * b12 + 1 * (u * u * u) * b17 + 1 * (u * u * u * u) * b22) * v2_1 + (1 * (1) * b3 + 1 * (u) * b8 + 1 * (u * u) * b13 + 1 * (u * u * u) * b18 + 1 * (u * u * u * u) * b23) * v3_1 + (1 * (1) * b4 + 1 * (u) * b9 + 1 * (u * u) * b14 + 1 * (u * u * u) * b19 + 1 * (u * u * u * u) * b24) * v4_1].
Proof. exact Proofs.C11_Vec.csv4_val_spec. Qed.
Print Assumptions C11_csv4_val_spec.

Theorem C11_csv4_vel_spec :
  forall v1_0 v1_1 v2_0 v2_1 v3_0 v3_1 v4_0 v4_1 b0 b1 b2 b3 b4 b5 b6 b7 b8 b9 b10 b11 b12 b13 b14 b15 b16 b17 b18 b19 b20 b21 b22 b23 b24 u out,
  Gen.CS.csv4_vel_rel [v1_0; v1_1] [v2_0; v2_1] [v3_0; v3_1] [v4_0; v4_1] [b0; b1; b2; b3; b4; b5; b6; b7; b8; b9; b10; b11; b12; b13; b14; b15; b16; b17; b18; b19; b20; b21; b22; b23; b24] [u] out ->
  out = [(1 * (1) * b6 + 2 * (u) * b11 + 3 * (u * u) * b16 + 4 * (u * u * u) * b21) * v1_0 + (1 * (1) * b7 + 2 * (u) * b12 + 3 * (u * u) * b17 + 4 * (u * u * u) * b22) * v2_0 + (1 * (1) * b8 + 2 * (u) * b13 + 3 * (u * u) * b18 + 4 * (u * u * u) * b23) * v3_0 + (1 * (1) * b9 + 2 * (u) * b14 + 3 * (u * u) * b19 + 4 * (u * u * u) * b24) * v4_0; (1 * (1) * b6 + 2 * (u) * b11 + 3 * (u * u) * b16 + 4 * (u * u * u) * b21) * v1_1 + (1 * (1) * b7 + 2 * (u) * b12 + 3 * (u * u) * b17 + 4 * (u * u * u) * b22) * v2_1 + (1 * (1) * b8 + 2 * (u) * b13 + 3 * (u * u) * b18 + 4 * (u * u * u) * b23) * v3_1 + (1 * (1) * b9 + 2 * (u) * b14 + 3 * (u * u) * b19 + 4 * (u * u * u) * b24) * v4_1].
Proof. exact Proofs.C11_Vec.csv4_vel_spec. Qed.
Print Assumptions C11_csv4_vel_spec.

Theorem C11_csv4_acc_spec :
  forall v1_0 v1_1 v2_0 v2_1 v3_0 v3_1 v4_0 v4_1 b0 b1 b2 b3 b4 b5 b6 b7 b8 b9 b10 b11 b12 b13 b14 b15 b16 b17 b18 b19 b20 b21 b22 b23 b24 u out,
  Gen.CS.csv4_acc_rel [v1_0; v1_1] [v2_0; v2_1] [v3_0; v3_1] [v4_0; v4_1] [b0; b1; b2; b3; b4; b5; b6; b7; b8; b9; b10; b11; b12; b13; b14; b15; b16; b17; b18; b19; b20; b21; b22; b23; b24] [u] out ->
  out = [(2 * (1) * b11 + 6 * (u) * b16 + 12 * (u * u) * b21) * v1_0 + (2 * (1) * b12 + 6 * (u) * b17 + 12 * (u * u) * b22) * v2_0 + (2 * (1) * b13 + 6 * (u) * b18 + 12 * (u * u) * b23) * v3_0 + (2 * (1) * b14 + 6 * (u) * b19 + 12 * (u * u) * b24) * v4_0; (2 * (1) * b11 + 6 * (u) * b16 + 12 * (u * u) * b21) * v1_1 + (2 * (1) * b12 + 6 * (u) * b17 + 12 * (u * u) * b22) * v2_1 + (2 * (1) * b13 + 6 * (u) * b18 + 12 * (u * u) * b23) * v3_1 + (2 * (1) * b14 + 6 * (u) * b19 + 12 * (u * u) * b24) * v4_1].
Proof. exact Proofs.C11_Vec.csv4_acc_spec. Qed.
Print Assumptions C11_csv4_acc_spec.

Theorem C11_csv4_jer_spec :
  forall v1_0 v1_1 v2_0 v2_1 v3_0 v3_1 v4_0 v4_1 b0 b1 b2 b3 b4 b5 b6 b7 b8 b9 b10 b11 b12 b13 b14 b15 b16 b17 b18 b19 b20 b21 b22 b23 b24 u out,
  Gen.CS.csv4_jer_rel [v1_0; v1_1] [v2_0; v2_1] [v3_0; v3_1] [v4_0; v4_1] [b0; b1; b2; b3; b4; b5; b6; b7; b8; b9; b10; b11; b12; b13; b14; b15; b16; b17; b18; b19; b20; b21; b22; b23; b24] [u] out ->
  out = [(6 * (1) * b16 + 24 * (u) * b21) * v1_0 + (6 * (1) * b17 + 24 * (u) * b22) * v2_0 + (6 * (1) * b18 + 24 * (u) * b23) * v3_0 + (6 * (1) * b19 + 24 * (u) * b24) * v4_0; (6 * (1) * b16 + 24 * (u) * b21) * v1_1 + (6 * (1) * b17 + 24 * (u) * b22) * v2_1 + (6 * (1) * b18 + 24 * (u) * b23) * v3_1 + (6 * (1) * b19 + 24 * (u) * b24) * v4_1].
Proof. exact Proofs.C11_Vec.csv4_jer_spec. Qed.
Print Assumptions C11_csv4_jer_spec.

Theorem C11_csv4_vel_is_derivative_of_val :
  forall v1_0 v1_1 v2_0 v2_1 v3_0 v3_1 v4_0 v4_1 b0 b1 b2 b3 b4 b5 b6 b7 b8 b9 b10 b11 b12 b13 b14 b15 b16 b17 b18 b19 b20 b21 b22 b23 b24 u i, (i < 2)%nat ->
  is_derive (fun x => nth i (Gen.CS.csv4_val_p0 [v1_0; v1_1] [v2_0; v2_1] [v3_0; v3_1] [v4_0; v4_1] [b0; b1; b2; b3; b4; b5; b6; b7; b8; b9; b10; b11; b12; b13; b14; b15; b16; b17; b18; b19; b20; b21; b22; b23; b24] [x]) 0) u (nth i (Gen.CS.csv4_vel_p0 [v1_0; v1_1] [v2_0; v2_1] [v3_0; v3_1] [v4_0; v4_1] [b0; b1; b2; b3; b4; b5; b6; b7; b8; b9; b10; b11; b12; b13; b14; b15; b16; b17; b18; b19; b20; b21; b22; b23; b24] [u]) 0).
Proof. exact Proofs.C11_Vec.csv4_vel_is_derivative_of_val. Qed.
Print Assumptions C11_csv4_vel_is_derivative_of_val.

Theorem C11_csv4_acc_is_derivative_of_vel :
  forall v1_0 v1_1 v2_0 v2_1 v3_0 v3_1 v4_0 v4_1 b0 b1 b2 b3 b4 b5 b6 b7 b8 b9 b10 b11 b12 b13 b14 b15 b16 b17 b18 b19 b20 b21 b22 b23 b24 u i, (i < 2)%nat ->
  is_derive (fun x => nth i (Gen.CS.csv4_vel_p0 [v1_0; v1_1] [v2_0; v2_1] [v3_0; v3_1] [v4_0; v4_1] [b0; b1; b2; b3; b4; b5; b6; b7; b8; b9; b10; b11; b12; b13; b14; b15; b16; b17; b18; b19; b20; b21; b22; b23; b24] [x]) 0) u (nth i (Gen.CS.csv4_acc_p0 [v1_0; v1_1] [v2_0; v2_1] [v3_0; v3_1] [v4_0; v4_1] [b0; b1; b2; b3; b4; b5; b6; b7; b8; b9; b10; b11; b12; b13; b14; b15; b16; b17; b18; b19; b20; b21; b22; b23; b24] [u]) 0).
Proof. exact Proofs.C11_Vec.csv4_acc_is_derivative_of_vel. Qed.
Print Assumptions C11_csv4_acc_is_derivative_of_vel.

Theorem C11_csv4_jer_is_derivative_of_acc :
  forall v1_0 v1_1 v2_0 v2_1 v3_0 v3_1 v4_0 v4_1 b0 b1 b2 b3 b4 b5 b6 b7 b8 b9 b10 b11 b12 b13 b14 b15 b16 b17 b18 b19 b20 b21 b22 b23 b24 u i, (i < 2)%nat ->
  is_derive (fun x => nth i (Gen.CS.csv4_acc_p0 [v1_0; v1_1] [v2_0; v2_1] [v3_0; v3_1] [v4_0; v4_1] [b0; b1; b2; b3; b4; b5; b6; b7; b8; b9; b10; b11; b12; b13; b14; b15; b16; b17; b18; b19; b20; b21; b22; b23; b24] [x]) 0) u (nth i (Gen.CS.csv4_jer_p0 [v1_0; v1_1] [v2_0; v2_1] [v3_0; v3_1] [v4_0; v4_1] [b0; b1; b2; b3; b4; b5; b6; b7; b8; b9; b10; b11; b12; b13; b14; b15; b16; b17; b18; b19; b20; b21; b22; b23; b24] [u]) 0).
Proof. exact Proofs.C11_Vec.csv4_jer_is_derivative_of_acc. Qed.
Print Assumptions C11_csv4_jer_is_derivative_of_acc.

Theorem C11_cs_basis1_spec :
  forall b0 b1 b2 b3 u c, Gen.CS.cs_basis1_rel [b0; b1; b2; b3] [u] c ->
  c = [(1 * (1) * b1 + 1 * (u) * b3)].
Proof. exact Proofs.C11_SO3.cs_basis1_spec. Qed.
Print Assumptions C11_cs_basis1_spec.

Theorem C11_cs_basis2_spec :
  forall b0 b1 b2 b3 b4 b5 b6 b7 b8 u c, Gen.CS.cs_basis2_rel [b0; b1; b2; b3; b4; b5; b6; b7; b8] [u] c ->
  c = [(1 * (1) * b1 + 1 * (u) * b4 + 1 * (u * u) * b7); (1 * (1) * b2 + 1 * (u) * b5 + 1 * (u * u) * b8)].
Proof. exact Proofs.C11_SO3.cs_basis2_spec. Qed.
Print Assumptions C11_cs_basis2_spec.

Theorem C11_cso3_1_val_is_product_of_exps :
  forall v1_0 v1_1 v1_2 b0 b1 b2 b3 u c out,
  Gen.CS.cs_basis1_rel [b0; b1; b2; b3] [u] c ->
  Gen.CS.cso3_1_val_rel [v1_0; v1_1; v1_2] [b0; b1; b2; b3] [u] out ->
  exists e1 g1,
    Gen.SO3.so3_exp_rel [nth 0 c 0 * v1_0; nth 0 c 0 * v1_1; nth 0 c 0 * v1_2] e1 /\
    Gen.SO3.so3_comp_rel [0; 0; 0; 1] e1 g1 /\
    out = g1.
Proof. exact Proofs.C11_SO3.cso3_1_val_is_product_of_exps. Qed.
Print Assumptions C11_cso3_1_val_is_product_of_exps.

Theorem C11_cso3_1_vel_spec :
  forall v1_0 v1_1 v1_2 b0 b1 b2 b3 u out,
  Gen.CS.cso3_1_vel_rel [v1_0; v1_1; v1_2] [b0; b1; b2; b3] [u] out ->
  out = [(1 * (1) * b3) * v1_0; (1 * (1) * b3) * v1_1; (1 * (1) * b3) * v1_2].
Proof. exact Proofs.C11_SO3.cso3_1_vel_spec. Qed.
Print Assumptions C11_cso3_1_vel_spec.

Theorem C11_cse2_2_val_is_product_of_exps :
  forall v1_0 v1_1 v1_2 v2_0 v2_1 v2_2 b0 b1 b2 b3 b4 b5 b6 b7 b8 u c out,
  Gen.CS.cs_basis2_rel [b0; b1; b2; b3; b4; b5; b6; b7; b8] [u] c ->
  Gen.CS.cse2_2_val_rel [v1_0; v1_1; v1_2] [v2_0; v2_1; v2_2] [b0; b1; b2; b3; b4; b5; b6; b7; b8] [u] out ->
  exists e1 e2 g1 g2,
    Gen.SE2.se2_exp_rel [nth 0 c 0 * v1_0; nth 0 c 0 * v1_1; nth 0 c 0 * v1_2] e1 /\
    Gen.SE2.se2_comp_rel [0; 0; 0; 1] e1 g1 /\
    Gen.SE2.se2_exp_rel [nth 1 c 0 * v2_0; nth 1 c 0 * v2_1; nth 1 c 0 * v2_2] e2 /\
    Gen.SE2.se2_comp_rel g1 e2 g2 /\
    out = g2.
Proof. exact Proofs.C11_SE2.cse2_2_val_is_product_of_exps. Qed.
Print Assumptions C11_cse2_2_val_is_product_of_exps.

