(* Property C12: the property theorems and nothing else.  Each is closed by the lemma of the same name (without the
   C12_ prefix) proved in Proofs/C12_Main.v; Print Assumptions lists the axioms.
   Reading guide: [flags] selects per defect between the code as it is (false) and the repaired code (true), see
   Model/C12_SplineBook.v.  Theorems that need a repair carry the hypothesis  fx_... fl = true ; the [_refuted]
   theorems are about flags_current (all false) = the unchanged tree.  [ev_rel f a b] : value a = f (value b) and
   identical derivative data (control points, u, Del/T) -- i.e. identical velocity and acceleration. *)
From Coq Require Import List QArith Qcanon ZArith Bool Arith.
From SV Require Import Model.C12_SplineBook Model.C12_Inst.
From SV Require Proofs.C12_Search Proofs.C12_Basis Proofs.C12_Spline Proofs.C12_InstProofs Proofs.C12_Main.
Import Proofs.C12_Basis Proofs.C12_Spline Proofs.C12_InstProofs Proofs.C12_Main.
Import ListNotations.
Local Open Scope nat_scope.

(* interpolating binary_interval_search (utils.hpp:42-81), any pivot: rules 3 and 4 of its contract *)
Theorem C12_bis_result :
  forall (r : list Q) (t : Q) (i : nat), bis r t = Some i ->
  i < length r /\ (qnth r 0 <= t)%Q /\
  ((i = length r - 1 /\ (qnth r (length r - 1) <= t)%Q) \/ (S i < length r /\ (qnth r i <= t)%Q /\ (t < qnth r (S i))%Q)).
Proof. exact Proofs.C12_Main.bis_result. Qed.
Print Assumptions C12_bis_result.

(* rules 1 and 2 *)
Theorem C12_bis_not_found :
  forall (r : list Q) (t : Q), bis r t = None -> r = [] \/ (t < qnth r 0)%Q.
Proof. exact Proofs.C12_Main.bis_not_found. Qed.
Print Assumptions C12_bis_not_found.

(* find_idx returns the segment containing t (the last one for t >= t_max) *)
Theorem C12_find_idx_spec :
forall (G : Type) (op : G -> G -> G) (inv : G -> G) (e : G) (tan : Type) (seg : ctrl tan -> Q -> G),
  group_laws G op inv e -> seg_contract G tan e seg ->
  forall (s : spline G tan) (t : Q), WF G tan s -> 0 < size G tan s -> (0 <= t)%Q ->
  let i := find_idx G tan s t in
  i < size G tan s /\ (prev_t G tan s i <= t)%Q /\
  ((t < eT G tan s i)%Q \/ (i = size G tan s - 1 /\ (eT G tan s i <= t)%Q)).
Proof. exact Proofs.C12_Main.find_idx_spec. Qed.
Print Assumptions C12_find_idx_spec.

(* operator() on [end_t[i-1], end_t[i]) evaluates segment i: value and derivative data (V_i, u(t), Del_i/T_i) *)
Theorem C12_eval_seg :
forall (G : Type) (op : G -> G -> G) (inv : G -> G) (e : G) (tan : Type) (seg : ctrl tan -> Q -> G),
  group_laws G op inv e -> seg_contract G tan e seg ->
  forall (s : spline G tan) (t : Q) (i : nat), WF G tan s -> i < size G tan s ->
  (prev_t G tan s i <= t)%Q -> ((t < eT G tan s i)%Q \/ (i = size G tan s - 1 /\ (t <= eT G tan s i)%Q)) ->
  eval_full G op inv e tan seg s t =
    (curve G op inv e tan seg s i t, Some (sV G tan s i, useg G tan s i t, ratio G tan s i)).
Proof. exact Proofs.C12_Main.eval_seg. Qed.
Print Assumptions C12_eval_seg.

(* a continuous Spline is evaluated by the curve of ANY segment whose closed interval contains t (continuity at knots) *)
Theorem C12_eval_segment :
forall (G : Type) (op : G -> G -> G) (inv : G -> G) (e : G) (tan : Type) (seg : ctrl tan -> Q -> G),
  group_laws G op inv e -> seg_contract G tan e seg ->
  forall (s : spline G tan) (t : Q) (i : nat), WF G tan s -> Cont G op inv e tan seg s -> i < size G tan s ->
  (prev_t G tan s i <= t)%Q -> (t <= eT G tan s i)%Q -> eval G op inv e tan seg s t = curve G op inv e tan seg s i t.
Proof. exact Proofs.C12_Main.eval_segment. Qed.
Print Assumptions C12_eval_segment.

(* outside [0, t_max]: start() / end() and zero derivatives (None) *)
Theorem C12_eval_outside :
  forall (G : Type) (op : G -> G -> G) (inv : G -> G) (e : G) (tan : Type) (seg : ctrl tan -> Q -> G) (s : spline G tan) (t : Q),
  ((t < 0)%Q -> eval_full G op inv e tan seg s t = (g0 s, None)) /\
  (size G tan s = 0 -> eval_full G op inv e tan seg s t = (g0 s, None)) /\
  (0 < size G tan s -> (0 <= t)%Q -> (tmax G tan s < t)%Q -> eval_full G op inv e tan seg s t = (end_ G tan s, None)).
Proof. exact Proofs.C12_Main.eval_outside. Qed.
Print Assumptions C12_eval_outside.

Theorem C12_eval_start_end :
forall (G : Type) (op : G -> G -> G) (inv : G -> G) (e : G) (tan : Type) (seg : ctrl tan -> Q -> G),
  group_laws G op inv e -> seg_contract G tan e seg ->
  forall (s : spline G tan), WF G tan s ->
  eval G op inv e tan seg s 0%Q = g0 s /\ (Cont G op inv e tan seg s -> eval G op inv e tan seg s (tmax G tan s) = end_ G tan s).
Proof. exact Proofs.C12_Main.eval_start_end. Qed.
Print Assumptions C12_eval_start_end.

(* structural invariant (equal lengths, 0 < end_t strictly increasing, 0 <= T0, 0 < Del, T0 + Del <= 1) after EVERY operation list *)
Theorem C12_WF_reachable :
forall (G : Type) (op : G -> G -> G) (inv : G -> G) (e : G) (tan : Type) (seg : ctrl tan -> Q -> G)
    (smul : Q -> tan -> tan) (tneg : tan -> tan) (texp : tan -> G) (tlog : G -> tan) (K : nat) (fl : flags),
  group_laws G op inv e -> seg_contract G tan e seg ->
  fx_crop_idx fl = true ->
  forall (ops : list (sop G tan)) (s : spline G tan), WF G tan s -> Forall (op_wf G tan) ops ->
  WF G tan (run G op inv e tan smul tneg texp tlog seg K fl ops s).
Proof. exact Proofs.C12_Main.WF_reachable. Qed.
Print Assumptions C12_WF_reachable.

(* ... together with the continuity equation, for histories whose joints are compatible *)
Theorem C12_Inv_reachable :
forall (G : Type) (op : G -> G -> G) (inv : G -> G) (e : G) (tan : Type) (seg : ctrl tan -> Q -> G)
    (smul : Q -> tan -> tan) (tneg : tan -> tan) (texp : tan -> G) (tlog : G -> tan) (K : nat) (fl : flags),
  group_laws G op inv e -> seg_contract G tan e seg ->
  fx_crop_idx fl = true -> fx_make_local fl = true ->
  forall (ops : list (sop G tan)) (s : spline G tan), Inv G op inv e tan seg s ->
  ops_ok G op inv e tan seg smul tneg texp tlog K fl s ops ->
  Inv G op inv e tan seg (run G op inv e tan smul tneg texp tlog seg K fl ops s).
Proof. exact Proofs.C12_Main.Inv_reachable. Qed.
Print Assumptions C12_Inv_reachable.

Theorem C12_reachable_continuous :
forall (G : Type) (op : G -> G -> G) (inv : G -> G) (e : G) (tan : Type) (seg : ctrl tan -> Q -> G)
    (smul : Q -> tan -> tan) (tneg : tan -> tan) (texp : tan -> G) (tlog : G -> tan) (K : nat) (fl : flags),
  group_laws G op inv e -> seg_contract G tan e seg ->
  fx_crop_idx fl = true -> fx_make_local fl = true ->
  forall (ops : list (sop G tan)) (s0 : spline G tan), Inv G op inv e tan seg s0 ->
  ops_ok G op inv e tan seg smul tneg texp tlog K fl s0 ops ->
  let s := run G op inv e tan smul tneg texp tlog seg K fl ops s0 in
  eval G op inv e tan seg s 0%Q = g0 s /\ eval G op inv e tan seg s (tmax G tan s) = end_ G tan s /\
  (forall i, S i < size G tan s -> curve G op inv e tan seg s i (eT G tan s i) = curve G op inv e tan seg s (S i) (eT G tan s i)) /\
  (forall i t, i < size G tan s -> (prev_t G tan s i <= t)%Q -> (t <= eT G tan s i)%Q ->
     eval G op inv e tan seg s t = curve G op inv e tan seg s i t).
Proof. exact Proofs.C12_Main.reachable_continuous. Qed.
Print Assumptions C12_reachable_continuous.

(* concat_local / operator+= : y = x1 before t1 and x1.end() * x2(t - t1) from t1 on (x1.end() = x1(t1) by eval_start_end) *)
Theorem C12_concat_local_spec :
forall (G : Type) (op : G -> G -> G) (inv : G -> G) (e : G) (tan : Type) (seg : ctrl tan -> Q -> G),
  group_laws G op inv e -> seg_contract G tan e seg ->
  forall (s o : spline G tan) (t : Q), WF G tan s -> WF G tan o ->
  let y := concat_local G op tan s o in
  WF G tan y /\
  (0 < size G tan s -> (t < tmax G tan s)%Q -> eval_full G op inv e tan seg y t = eval_full G op inv e tan seg s t) /\
  (0 < size G tan o -> (tmax G tan s <= t)%Q ->
     ev_rel G tan (op (end_ G tan s)) (eval_full G op inv e tan seg y t) (eval_full G op inv e tan seg o (t - tmax G tan s)%Q)) /\
  (size G tan o = 0 -> (tmax G tan s < t)%Q \/ size G tan s = 0 ->
     eval_full G op inv e tan seg y t = (op (end_ G tan s) (g0 o), None)) /\
  (size G tan s = 0 -> (t < 0)%Q -> eval_full G op inv e tan seg y t = (op (end_ G tan s) (g0 o), None)).
Proof. exact Proofs.C12_Main.concat_local_spec. Qed.
Print Assumptions C12_concat_local_spec.

Theorem C12_concat_global_spec :
forall (G : Type) (op : G -> G -> G) (inv : G -> G) (e : G) (tan : Type) (seg : ctrl tan -> Q -> G),
  group_laws G op inv e -> seg_contract G tan e seg ->
  forall (s o : spline G tan) (t : Q), WF G tan s -> WF G tan o ->
  let y := concat_global G tan s o in
  WF G tan y /\
  (0 < size G tan s -> (t < tmax G tan s)%Q -> eval_full G op inv e tan seg y t = eval_full G op inv e tan seg s t) /\
  (0 < size G tan o -> (tmax G tan s <= t)%Q ->
     ev_rel G tan (fun g => g) (eval_full G op inv e tan seg y t) (eval_full G op inv e tan seg o (t - tmax G tan s)%Q)) /\
  (size G tan o = 0 -> (tmax G tan s < t)%Q \/ size G tan s = 0 -> eval_full G op inv e tan seg y t = (g0 o, None)) /\
  (size G tan s = 0 -> (t < 0)%Q -> eval_full G op inv e tan seg y t = (g0 o, None)).
Proof. exact Proofs.C12_Main.concat_global_spec. Qed.
Print Assumptions C12_concat_global_spec.

Theorem C12_concat_continuous :
forall (G : Type) (op : G -> G -> G) (inv : G -> G) (e : G) (tan : Type) (seg : ctrl tan -> Q -> G),
  group_laws G op inv e -> seg_contract G tan e seg ->
  forall (s o : spline G tan), WF G tan s -> WF G tan o -> Cont G op inv e tan seg s -> Cont G op inv e tan seg o ->
  ((0 < size G tan s -> g0 o = e) -> Cont G op inv e tan seg (concat_local G op tan s o)) /\
  ((0 < size G tan s -> g0 o = end_ G tan s) -> Cont G op inv e tan seg (concat_global G tan s o)).
Proof. exact Proofs.C12_Main.concat_continuous. Qed.
Print Assumptions C12_concat_continuous.

(* crop(ta, tb, localize) for ANY segment count and ANY ta < tb (later segment, on a knot, ...), repaired index/frame *)
Theorem C12_crop_spec :
forall (G : Type) (op : G -> G -> G) (inv : G -> G) (e : G) (tan : Type) (seg : ctrl tan -> Q -> G),
  group_laws G op inv e -> seg_contract G tan e seg ->
  forall (fl : flags), fx_crop_idx fl = true ->
  forall (s : spline G tan) (ta tb : Q) (loc : bool), WF G tan s -> (loc = true \/ fx_crop_frame fl = true) ->
  let ta' := qmax ta 0 in
  let tb' := qmin tb (tmax G tan s) in
  (ta' < tb')%Q ->
  let y := crop G op inv e tan seg fl s ta tb loc in
  let fr := fun g => if loc then op (inv (eval G op inv e tan seg s ta')) g else g in
  WF G tan y /\ tmax G tan y = (tb' - ta')%Q /\
  (forall t, (0 <= t)%Q -> (t < tb' - ta')%Q ->
     ev_rel G tan fr (eval_full G op inv e tan seg y t) (eval_full G op inv e tan seg s (ta' + t)%Q)) /\
  (forall t, (t < 0)%Q -> eval_full G op inv e tan seg y t = (fr (eval G op inv e tan seg s ta'), None)) /\
  (forall t, (tb' - ta' < t)%Q -> eval_full G op inv e tan seg y t = (fr (eval G op inv e tan seg s tb'), None)) /\
  (Cont G op inv e tan seg s ->
     eval G op inv e tan seg y (tb' - ta')%Q = fr (eval G op inv e tan seg s tb') /\ Cont G op inv e tan seg y).
Proof. exact Proofs.C12_Main.crop_spec. Qed.
Print Assumptions C12_crop_spec.

Theorem C12_crop_empty_interval :
  forall (G : Type) (op : G -> G -> G) (inv : G -> G) (e : G) (tan : Type) (seg : ctrl tan -> Q -> G) (fl : flags)
    (s : spline G tan) (ta tb : Q) (loc : bool),
  (qmin tb (tmax G tan s) <= qmax ta 0)%Q -> crop G op inv e tan seg fl s ta tb loc = mk_empty G tan e.
Proof. exact Proofs.C12_Main.crop_empty_interval. Qed.
Print Assumptions C12_crop_empty_interval.

Theorem C12_crop_no_division_by_zero :
  forall (G tan : Type) (fl : flags), fx_crop_idx fl = true ->
  forall (s : spline G tan) (ta tb : Q), WF G tan s -> crop_div0 G tan fl s ta tb = false.
Proof. exact Proofs.C12_Main.crop_no_division_by_zero. Qed.
Print Assumptions C12_crop_no_division_by_zero.

(* make_local (repaired): y(t) = x(0)^-1 x(t) *)
Theorem C12_make_local_spec :
forall (G : Type) (op : G -> G -> G) (inv : G -> G) (e : G) (tan : Type) (seg : ctrl tan -> Q -> G),
  group_laws G op inv e -> seg_contract G tan e seg ->
  forall (fl : flags), fx_make_local fl = true -> forall (s : spline G tan) (t : Q), WF G tan s ->
  WF G tan (make_local G op inv e tan fl s) /\
  ev_rel G tan (op (inv (g0 s))) (eval_full G op inv e tan seg (make_local G op inv e tan fl s) t) (eval_full G op inv e tan seg s t) /\
  (Cont G op inv e tan seg s -> Cont G op inv e tan seg (make_local G op inv e tan fl s)).
Proof. exact Proofs.C12_Main.make_local_spec. Qed.
Print Assumptions C12_make_local_spec.

(* sum_{j=1..K} B~_j(u) = K u for EVERY degree K (cumulative Bernstein basis) *)
Theorem C12_basis_sum_every_degree :
  forall (K : nat) (u : Q), (sumeval (tl (bcum_poly K)) u == inject_Z (Z.of_nat K) * u)%Q.
Proof. exact Proofs.C12_Main.basis_sum_every_degree. Qed.
Print Assumptions C12_basis_sum_every_degree.

(* ConstantVelocity(v,T,ga)(t) = ga * exp(t v), EVERY degree K >= 1 (repaired T/K) *)
Theorem C12_constant_velocity_spec :
forall (G : Type) (op : G -> G -> G) (inv : G -> G) (e : G) (tan : Type) (seg : ctrl tan -> Q -> G)
    (smul : Q -> tan -> tan) (tneg : tan -> tan) (texp : tan -> G) (tlog : G -> tan) (K : nat) (fl : flags),
  group_laws G op inv e -> seg_contract G tan e seg ->
  exp_contract G tan op inv e smul tneg texp tlog seg ->
  fx_cv fl = true -> 0 < K -> forall (v : tan) (T : Q) (ga : G), (0 < T)%Q ->
  let c := constant_velocity G op e tan smul seg K fl v T ga in
  WF G tan c /\ Cont G op inv e tan seg c /\ size G tan c = 1 /\ tmax G tan c = T /\ g0 c = ga /\
  end_ G tan c = op ga (texp (smul T v)) /\
  (forall t, (0 <= t)%Q -> (t <= T)%Q ->
     eval G op inv e tan seg c t = op ga (texp (smul t v)) /\
     exists u r, snd (eval_full G op inv e tan seg c t) = Some (repeat (smul (T / inject_Z (Z.of_nat K))%Q v) K, u, r) /\
                 (u == t / T)%Q /\ (r == 1 / T)%Q).
Proof. exact Proofs.C12_Main.constant_velocity_spec. Qed.
Print Assumptions C12_constant_velocity_spec.

(* FixedCubic meets its end poses; end velocities: derivative data (V, u, Del/T) = ([T va/3; _; T vb/3], 0 resp. 1, 1/T) ... *)
Theorem C12_fixed_cubic_spec :
forall (G : Type) (op : G -> G -> G) (inv : G -> G) (e : G) (tan : Type) (seg : ctrl tan -> Q -> G)
    (smul : Q -> tan -> tan) (tneg : tan -> tan) (texp : tan -> G) (tlog : G -> tan) (K : nat) (fl : flags),
  group_laws G op inv e -> seg_contract G tan e seg ->
  exp_contract G tan op inv e smul tneg texp tlog seg ->
  forall (gb : G) (va vb : tan) (T : Q) (ga : G), (0 < T)%Q ->
  let c := fixed_cubic G op inv tan smul tneg texp tlog seg gb va vb T ga in
  WF G tan c /\ Cont G op inv e tan seg c /\ tmax G tan c = T /\
  eval G op inv e tan seg c 0%Q = ga /\ eval G op inv e tan seg c T = gb /\ end_ G tan c = gb /\
  (exists V1, Vs c = [[smul (T / 3)%Q va; V1; smul (T / 3)%Q vb]]) /\
  (exists V u r, snd (eval_full G op inv e tan seg c 0%Q) = Some (V, u, r) /\ (u == 0)%Q /\ (r == 1 / T)%Q) /\
  (exists V u r, snd (eval_full G op inv e tan seg c T) = Some (V, u, r) /\ (u == 1)%Q /\ (r == 1 / T)%Q).
Proof. exact Proofs.C12_Main.fixed_cubic_spec. Qed.
Print Assumptions C12_fixed_cubic_spec.

(* ... with B~'(0) = (3,0,0), B~'(1) = (0,0,3), B~(0) = 0, B~(1) = 1: by the velocity recursion of cspline_eval_vs (property C11) vel(0) = (1/T) 3 (T va/3) = va and vel(T) = vb.  PARTIAL: the recursion itself is C11's theorem *)
Theorem C12_fixed_cubic_velocity_partial :
  map (fun p => Qred (peval (pderiv p) 0)) (tl (bcum_poly 3)) = [3; 0; 0]%Q /\
  map (fun p => Qred (peval (pderiv p) 1)) (tl (bcum_poly 3)) = [0; 0; 3]%Q /\
  map (fun p => Qred (peval p 0)) (tl (bcum_poly 3)) = [0; 0; 0]%Q /\
  map (fun p => Qred (peval p 1)) (tl (bcum_poly 3)) = [1; 1; 1]%Q.
Proof. exact Proofs.C12_Main.fixed_cubic_velocity_partial. Qed.
Print Assumptions C12_fixed_cubic_velocity_partial.

(* arclength bookkeeping: one absolute integral per segment meeting (0,t), over u_i(segment_i /\ [0,t]).  PARTIAL: the integral (integrate_absolute_polynomial) is C20's *)
Theorem C12_arclength_spec_partial :
  forall (G : Type) (e : G) (tan : Type) (tadd : tan -> tan -> tan) (tzero : tan) (absint : ctrl tan -> Q -> Q -> tan)
    (s : spline G tan) (t : Q), WF G tan s ->
  arclength G tan tadd tzero absint s t =
    fold_left (fun a (p : nat * Q * Q) => tadd a (absint (sV G tan s (fst (fst p))) (snd (fst p)) (snd p)))
              (arclength_parts G tan (size G tan s) 0 s t) tzero /\
  (forall j ua ub, In (j, ua, ub) (arclength_parts G tan (size G tan s) 0 s t) <->
     j < size G tan s /\ (j = 0 \/ (prev_t G tan s j < t)%Q) /\
     ua = sT0 G tan s j /\ ub = useg G tan s j (qmin t (eT G tan s j))) /\
  (forall j, j < size G tan s -> (sT0 G tan s j == useg G tan s j (prev_t G tan s j))%Q).
Proof. exact Proofs.C12_Main.arclength_spec_partial. Qed.
Print Assumptions C12_arclength_spec_partial.

(* CURRENT code: crop(3/2, 3) of three unit segments is not x(ta)^-1 x(ta+t) *)
Theorem C12_crop_spec_refuted_later_segment :
  exists (s : ispline) (ta tb t : Q), iWF s /\ iCont s /\ (0 <= ta)%Q /\ (ta < tb)%Q /\ (tb <= tmax V2 V2 s)%Q /\
    (0 <= t)%Q /\ (t < tb - ta)%Q /\
    eval V2 vadd vneg vzero V2 inst_seg (i_crop flags_current s ta tb true) t <>
    vadd (vneg (eval V2 vadd vneg vzero V2 inst_seg s ta)) (eval V2 vadd vneg vzero V2 inst_seg s (ta + t)%Q).
Proof. exact Proofs.C12_Main.crop_spec_refuted_later_segment. Qed.
Print Assumptions C12_crop_spec_refuted_later_segment.

(* CURRENT code: ... and violates T0 + Del <= 1 *)
Theorem C12_WF_crop_refuted :
  exists (s : ispline) (ta tb : Q), iWF s /\ ~ iWF (i_crop flags_current s ta tb true).
Proof. exact Proofs.C12_Main.WF_crop_refuted. Qed.
Print Assumptions C12_WF_crop_refuted.

(* CURRENT code: ta on the first knot, tb in the same segment: 0/0 *)
Theorem C12_crop_refuted_knot_division_by_zero :
  exists (s : ispline) (ta tb : Q), iWF s /\ (0 <= ta)%Q /\ (ta < tb)%Q /\ (tb <= tmax V2 V2 s)%Q /\
    i_crop_div0 flags_current s ta tb = true.
Proof. exact Proofs.C12_Main.crop_refuted_knot_division_by_zero. Qed.
Print Assumptions C12_crop_refuted_knot_division_by_zero.

(* CURRENT code: non-localised crop stores local-frame end points *)
Theorem C12_crop_spec_refuted_not_localized :
  exists (s : ispline) (ta tb : Q), iWF s /\ iCont s /\ (0 <= ta)%Q /\ (ta < tb)%Q /\ (tb <= tmax V2 V2 s)%Q /\
    end_ V2 V2 (i_crop flags_current s ta tb false) <> eval V2 vadd vneg vzero V2 inst_seg s tb.
Proof. exact Proofs.C12_Main.crop_spec_refuted_not_localized. Qed.
Print Assumptions C12_crop_spec_refuted_not_localized.

(* CURRENT code: ConstantVelocity of degree 2 ends at ga + (2/3) T v *)
Theorem C12_constant_velocity_refuted :
  exists (K : nat) (v ga : V2) (T : Q), 0 < K /\ (0 < T)%Q /\
    eval V2 vadd vneg vzero V2 inst_seg (i_cv K flags_current v T ga) T <> vadd ga (vsmul T v).
Proof. exact Proofs.C12_Main.constant_velocity_refuted. Qed.
Print Assumptions C12_constant_velocity_refuted.

(* CURRENT code: make_local leaves end points in the old frame *)
Theorem C12_make_local_refuted :
  exists (s : ispline), iWF s /\ iCont s /\
    end_ V2 V2 (i_make_local flags_current s) <> vadd (vneg (g0 s)) (end_ V2 V2 s) /\
    ~ iCont (i_make_local flags_current s).
Proof. exact Proofs.C12_Main.make_local_refuted. Qed.
Print Assumptions C12_make_local_refuted.

(* the executable instance run by the correspondence satisfies the hypotheses of every theorem above (non-vacuity) *)
Theorem C12_model_instance_is_a_model :
  group_laws V2 vadd vneg vzero /\ seg_contract V2 V2 vzero inst_seg.
Proof. exact Proofs.C12_Main.model_instance_is_a_model. Qed.
Print Assumptions C12_model_instance_is_a_model.

(* ... and of the ConstantVelocity / FixedCubic theorems (exp = log = identity on the vector space) *)
Theorem C12_model_instance_exp_contract :
  exp_contract V2 V2 vadd vneg vzero vsmul vneg vid vid inst_seg.
Proof. exact Proofs.C12_Main.model_instance_exp_contract. Qed.
Print Assumptions C12_model_instance_exp_contract.

