(* Property C13: the property theorems and nothing else.  Each is closed by the lemma proved in Proofs/C13_*.v;
   Print Assumptions lists the axioms.  Model: Model/C13_BSplineIdx.v (index selection), Model/C13_Eval.v
   (evaluation over an abstract group), Gen/BasisC13.v (the library's coefficient matrices, regenerated every run). *)
From Coq Require Import Reals ZArith QArith List.
From SV Require Import Model.C13_BSplineIdx Model.C13_Eval Gen.BasisC13.
From SV Require Proofs.C13_Idx Proofs.C13_Curve Proofs.C13_Basis Proofs.C13_Instance.
Import ListNotations.
Local Open Scope Q_scope.

Notation Laws := Proofs.C13_Curve.Laws.
Notation Bideal := Proofs.C13_Basis.Bideal.
Notation order_of := Proofs.C13_Curve.order_of.
Notation knot_ids := Proofs.C13_Basis.knot_ids.
Notation near := Proofs.C13_Basis.near.

(* ---- domain [t_min, t_max], interval index and local parameter, for all t0, dt > 0, N, t ---- *)
Theorem C13_window_spec :
  forall K N t0 dt t i,
  0 < dt -> (0 <= K)%Z -> (N <= two63)%Z -> (0 <= i <= N - K - 1)%Z ->
  t0 + inject_Z i * dt <= t -> t < t0 + inject_Z (i + 1) * dt ->
  bs_select K N t0 dt t = (i, Qred ((t - t0 - inject_Z i * dt) / dt))
  /\ 0 <= (t - t0 - inject_Z i * dt) / dt < 1.
Proof. exact Proofs.C13_Idx.window_spec. Qed.
Print Assumptions C13_window_spec.

Theorem C13_knot_select :
  forall K N t0 dt t i,
  0 < dt -> (0 <= K)%Z -> (N <= two63)%Z -> (0 <= i <= N - K - 1)%Z ->
  t == t0 + inject_Z i * dt -> bs_select K N t0 dt t = (i, 0).
Proof. exact Proofs.C13_Idx.knot_select. Qed.
Print Assumptions C13_knot_select.

Theorem C13_clamp_low :
  forall K N t0 dt t,
  0 < dt -> (0 <= K)%Z -> (K + 1 <= N)%Z -> t < bs_tmin t0 -> bs_select K N t0 dt t = (0%Z, 0).
Proof. exact Proofs.C13_Idx.clamp_low. Qed.
Print Assumptions C13_clamp_low.

(* end value from t_max on, for ALL t - however large (t - t0)/dt is (bspline_impl.hpp:58-59 clamps the quotient to
   [-1, size()] before the conversion to int64_t; /repo 967e2a1).  N < 2^63 bounds the control-point count, not t. *)
Theorem C13_clamp_high :
  forall K N t0 dt t,
  0 < dt -> (0 <= K)%Z -> (K + 1 <= N)%Z -> (N < two63)%Z -> bs_tmax K N t0 dt <= t ->
  bs_select K N t0 dt t = ((N - K - 1)%Z, 1).
Proof. exact Proofs.C13_Idx.clamp_high. Qed.
Print Assumptions C13_clamp_high.

(* the conversion to int64_t on l.58 never sees an out-of-range operand *)
Theorem C13_cast_defined :
  forall N s, (0 <= N < two63)%Z ->
  (- two63 <= qtrunc (qclamp s (-1) (inject_Z N)) < two63)%Z /\ idx_raw N s = qtrunc (qclamp s (-1) (inject_Z N)).
Proof. exact Proofs.C13_Idx.cast_defined. Qed.
Print Assumptions C13_cast_defined.

Theorem C13_select_in_range :
  forall K N t0 dt t, (0 <= K)%Z -> (K + 1 <= N)%Z ->
  let '(i, u) := bs_select K N t0 dt t in (0 <= i /\ i + K + 1 <= N)%Z /\ 0 <= u <= 1.
Proof. exact Proofs.C13_Idx.select_in_range. Qed.
Print Assumptions C13_select_in_range.

Theorem C13_tmin_tmax :
  forall K N t0 dt, bs_tmin t0 = t0 /\ bs_tmax K N t0 dt == t0 + (inject_Z N - inject_Z K) * dt.
Proof. intros; split; [apply Proofs.C13_Idx.tmin_formula|apply Proofs.C13_Idx.tmax_formula]. Qed.
Print Assumptions C13_tmin_tmax.

(* ---- the library's coefficient matrices (regenerated from the tree under test) ---- *)
Theorem C13_basis_close :
  close_mats (1 # 1125899906842624) (Bact 1) (Bideal 1) = true /\ close_mats (1 # 1125899906842624) (Bact 2) (Bideal 2) = true /\
  close_mats (1 # 1125899906842624) (Bact 3) (Bideal 3) = true /\ close_mats (1 # 1125899906842624) (Bact 4) (Bideal 4) = true /\
  close_mats (1 # 1125899906842624) (Bact 5) (Bideal 5) = true /\ close_mats (1 # 1125899906842624) (Bact 6) (Bideal 6) = true.
Proof.
  exact (conj Proofs.C13_Basis.basis_close_1 (conj Proofs.C13_Basis.basis_close_2 (conj Proofs.C13_Basis.basis_close_3
        (conj Proofs.C13_Basis.basis_close_4 (conj Proofs.C13_Basis.basis_close_5 Proofs.C13_Basis.basis_close_6))))).
Qed.
Print Assumptions C13_basis_close.

Theorem C13_bspline_knot_identities :
  knot_ids Qeq (Bideal 1) 1 /\ knot_ids Qeq (Bideal 2) 2 /\ knot_ids Qeq (Bideal 3) 3 /\
  knot_ids Qeq (Bideal 4) 4 /\ knot_ids Qeq (Bideal 5) 5 /\ knot_ids Qeq (Bideal 6) 6.
Proof.
  exact (conj Proofs.C13_Basis.bspline_knot_identities_1 (conj Proofs.C13_Basis.bspline_knot_identities_2
        (conj Proofs.C13_Basis.bspline_knot_identities_3 (conj Proofs.C13_Basis.bspline_knot_identities_4
        (conj Proofs.C13_Basis.bspline_knot_identities_5 Proofs.C13_Basis.bspline_knot_identities_6))))).
Qed.
Print Assumptions C13_bspline_knot_identities.

Theorem C13_actual_knot_identities :
  knot_ids (near (1 # 17592186044416)) (Bact 1) 1 /\ knot_ids (near (1 # 17592186044416)) (Bact 2) 2 /\
  knot_ids (near (1 # 17592186044416)) (Bact 3) 3 /\ knot_ids (near (1 # 17592186044416)) (Bact 4) 4 /\
  knot_ids (near (1 # 17592186044416)) (Bact 5) 5 /\ knot_ids (near (1 # 17592186044416)) (Bact 6) 6.
Proof.
  exact (conj Proofs.C13_Basis.actual_knot_identities_1 (conj Proofs.C13_Basis.actual_knot_identities_2
        (conj Proofs.C13_Basis.actual_knot_identities_3 (conj Proofs.C13_Basis.actual_knot_identities_4
        (conj Proofs.C13_Basis.actual_knot_identities_5 Proofs.C13_Basis.actual_knot_identities_6))))).
Qed.
Print Assumptions C13_actual_knot_identities.

Theorem C13_continuity_sharp :
  ~ Proofs.C13_Curve.knot_shape 1 (Bideal 1) 1 /\ ~ Proofs.C13_Curve.knot_shape 2 (Bideal 2) 2.
Proof. exact (conj Proofs.C13_Basis.knot_shape_sharp_1 Proofs.C13_Basis.knot_shape_sharp_2). Qed.
Print Assumptions C13_continuity_sharp.

(* (Bj, dBj, d2Bj) are value, first and second formal derivative of the basis polynomial, every u (degree 3 shown in
   full; the lemmas for K = 1..6 are Proofs.C13_Basis.mono_deriv_spec_K) *)
Theorem C13_coef_derivatives_3 :
  forall u c0 c1 c2 c3,
  let c := [c0; c1; c2; c3] in
  dot (mono_deriv 3 0 u) c == Proofs.C13_Basis.peval c u /\
  dot (mono_deriv 3 1 u) c == Proofs.C13_Basis.peval (Proofs.C13_Basis.pderiv c) u /\
  dot (mono_deriv 3 2 u) c == Proofs.C13_Basis.peval (Proofs.C13_Basis.pderiv (Proofs.C13_Basis.pderiv c)) u.
Proof. exact Proofs.C13_Basis.mono_deriv_spec_3. Qed.
Print Assumptions C13_coef_derivatives_3.

Theorem C13_coef3_is_dot :
  forall M K u j,
  let '(b, db, d2b) := coef3 M K u j in
  b == dot (mono_deriv K 0 u) (col j M) /\ db == dot (mono_deriv K 1 u) (col j M) /\ d2b == dot (mono_deriv K 2 u) (col j M).
Proof. exact Proofs.C13_Basis.coef3_dot. Qed.
Print Assumptions C13_coef3_is_dot.

(* ---- C^(K-1): value / velocity / acceleration of order <= min(K-1,2) agree from both sides of every interior knot,
        K = 1..6, every group satisfying the laws, every control-point sequence ---- *)
Theorem C13_knot_continuity :
  forall K, In K [1; 2; 3; 4; 5; 6]%nat ->
  forall (G T : Type) (op : G -> G -> G) (e : G) (inv : G -> G) (exp : T -> G) (log : G -> T)
         (Ad : G -> T -> T) (br tadd : T -> T -> T) (tzero : T) (smul : Q -> T -> T),
  @Laws G T op e inv exp log Ad br tadd tzero smul ->
  forall (ctrl : list G) (i : nat), (i + K + 2 <= length ctrl)%nat ->
  outputs_upto G T (order_of K) (window_eval G T op e inv exp log Ad br tadd tzero smul (Bideal K) K ctrl i 1)
  = outputs_upto G T (order_of K) (window_eval G T op e inv exp log Ad br tadd tzero smul (Bideal K) K ctrl (S i) 0).
Proof. exact Proofs.C13_Basis.bspline_knot_continuity. Qed.
Print Assumptions C13_knot_continuity.

Theorem C13_knot_continuity_eval :
  forall K, In K [1; 2; 3; 4; 5; 6]%nat ->
  forall (G T : Type) (op : G -> G -> G) (e : G) (inv : G -> G) (exp : T -> G) (log : G -> T)
         (Ad : G -> T -> T) (br tadd : T -> T -> T) (tzero : T) (smul : Q -> T -> T),
  @Laws G T op e inv exp log Ad br tadd tzero smul ->
  forall (ctrl : list G) (t0 dt t : Q) (i : nat),
  0 < dt -> (Z.of_nat (length ctrl) <= two63)%Z -> (i + K + 2 <= length ctrl)%nat ->
  t == t0 + inject_Z (Z.of_nat (S i)) * dt ->
  outputs_upto G T (order_of K) (bs_eval G T op e inv exp log Ad br tadd tzero smul (Bideal K) K ctrl t0 dt t)
  = outputs_upto G T (order_of K)
      (Proofs.C13_Curve.scale G T smul dt (window_eval G T op e inv exp log Ad br tadd tzero smul (Bideal K) K ctrl i 1)).
Proof. exact Proofs.C13_Basis.bspline_knot_continuity_eval. Qed.
Print Assumptions C13_knot_continuity_eval.

Theorem C13_bs_eval_window :
  forall (G T : Type) (op : G -> G -> G) (e : G) (inv : G -> G) (exp : T -> G) (log : G -> T)
         (Ad : G -> T -> T) (br tadd : T -> T -> T) (tzero : T) (smul : Q -> T -> T)
         (M : list (list Q)) (K : nat) (ctrl : list G) (t0 dt t : Q) (i : nat),
  0 < dt -> (Z.of_nat (length ctrl) <= two63)%Z -> (i + K + 1 <= length ctrl)%nat ->
  t0 + inject_Z (Z.of_nat i) * dt <= t -> t < t0 + inject_Z (Z.of_nat i + 1) * dt ->
  bs_eval G T op e inv exp log Ad br tadd tzero smul M K ctrl t0 dt t
  = Proofs.C13_Curve.scale G T smul dt
      (window_eval G T op e inv exp log Ad br tadd tzero smul M K ctrl i (Qred ((t - t0 - inject_Z (Z.of_nat i) * dt) / dt))).
Proof. exact Proofs.C13_Curve.bs_eval_window. Qed.
Print Assumptions C13_bs_eval_window.

(* ---- local support: any basis matrix, any degree, any group, all t ---- *)
Theorem C13_local_support :
  forall (G T : Type) (op : G -> G -> G) (e : G) (inv : G -> G) (exp : T -> G) (log : G -> T)
         (Ad : G -> T -> T) (br tadd : T -> T -> T) (tzero : T) (smul : Q -> T -> T)
         (M : list (list Q)) (K : nat) (ctrl ctrl' : list G) (j : nat) (t0 dt t : Q) (d : G),
  length ctrl = length ctrl' -> (forall k, k <> j -> nth k ctrl d = nth k ctrl' d) ->
  let i := Z.to_nat (fst (bs_select (Z.of_nat K) (Z.of_nat (length ctrl)) t0 dt t)) in
  (j < i \/ i + K < j)%nat ->
  bs_eval G T op e inv exp log Ad br tadd tzero smul M K ctrl t0 dt t
  = bs_eval G T op e inv exp log Ad br tadd tzero smul M K ctrl' t0 dt t.
Proof. exact Proofs.C13_Curve.local_support. Qed.
Print Assumptions C13_local_support.

Theorem C13_local_support_interval :
  forall (G T : Type) (op : G -> G -> G) (e : G) (inv : G -> G) (exp : T -> G) (log : G -> T)
         (Ad : G -> T -> T) (br tadd : T -> T -> T) (tzero : T) (smul : Q -> T -> T)
         (M : list (list Q)) (K : nat) (ctrl ctrl' : list G) (j m : nat) (t0 dt t : Q) (d : G),
  length ctrl = length ctrl' -> (forall k, k <> j -> nth k ctrl d = nth k ctrl' d) ->
  0 < dt -> (Z.of_nat (length ctrl) <= two63)%Z -> (m + K + 1 <= length ctrl)%nat ->
  t0 + inject_Z (Z.of_nat m) * dt <= t -> t < t0 + inject_Z (Z.of_nat m + 1) * dt ->
  (j < m \/ m + K < j)%nat ->
  bs_eval G T op e inv exp log Ad br tadd tzero smul M K ctrl t0 dt t
  = bs_eval G T op e inv exp log Ad br tadd tzero smul M K ctrl' t0 dt t.
Proof. exact Proofs.C13_Curve.local_support_interval. Qed.
Print Assumptions C13_local_support_interval.

(* ---- constants and left equivariance: any basis matrix, any degree, any group with the laws, all t ---- *)
Theorem C13_constants :
  forall (G T : Type) (op : G -> G -> G) (e : G) (inv : G -> G) (exp : T -> G) (log : G -> T)
         (Ad : G -> T -> T) (br tadd : T -> T -> T) (tzero : T) (smul : Q -> T -> T),
  @Laws G T op e inv exp log Ad br tadd tzero smul ->
  forall (M : list (list Q)) (K : nat) (g : G) (n : nat) (t0 dt t : Q),
  (K + 1 <= n)%nat ->
  bs_eval G T op e inv exp log Ad br tadd tzero smul M K (repeat g n) t0 dt t = (g, tzero, tzero).
Proof. exact Proofs.C13_Curve.constants. Qed.
Print Assumptions C13_constants.

Theorem C13_left_equivariance :
  forall (G T : Type) (op : G -> G -> G) (e : G) (inv : G -> G) (exp : T -> G) (log : G -> T)
         (Ad : G -> T -> T) (br tadd : T -> T -> T) (tzero : T) (smul : Q -> T -> T),
  @Laws G T op e inv exp log Ad br tadd tzero smul ->
  forall (M : list (list Q)) (K : nat) (ctrl : list G) (h : G) (t0 dt t : Q),
  (K + 1 <= length ctrl)%nat ->
  bs_eval G T op e inv exp log Ad br tadd tzero smul M K (map (op h) ctrl) t0 dt t =
  let '(g, w, a) := bs_eval G T op e inv exp log Ad br tadd tzero smul M K ctrl t0 dt t in (op h g, w, a).
Proof. exact Proofs.C13_Curve.left_equivariance. Qed.
Print Assumptions C13_left_equivariance.

(* ---- the assumed laws are satisfiable by a non-commutative Lie group (Heisenberg group over R) ---- *)
Theorem C13_laws_satisfiable :
  @Laws Proofs.C13_Instance.H3 Proofs.C13_Instance.H3 Proofs.C13_Instance.h_op Proofs.C13_Instance.h_e
        Proofs.C13_Instance.h_inv Proofs.C13_Instance.h_exp Proofs.C13_Instance.h_log Proofs.C13_Instance.h_Ad
        Proofs.C13_Instance.h_br Proofs.C13_Instance.h_add Proofs.C13_Instance.h_e Proofs.C13_Instance.h_smul
  /\ Proofs.C13_Instance.h_op (1, 0, 0)%R (0, 1, 0)%R <> Proofs.C13_Instance.h_op (0, 1, 0)%R (1, 0, 0)%R.
Proof. exact (conj Proofs.C13_Instance.heisenberg_laws Proofs.C13_Instance.heisenberg_noncommutative). Qed.
Print Assumptions C13_laws_satisfiable.
