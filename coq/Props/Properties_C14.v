(* Property C14: the property theorems and nothing else.  Each is closed by the lemma of the same name proved in
   Proofs/C14_*.v about the executable models Model/C14_*.v; Print Assumptions lists the axioms. *)
From Coq Require Import QArith Qabs Qminmax List ZArith Reals.
From SV Require Import Model.C14_Fit1d Model.C14_Dubins Model.C14_Reparam Model.C14_Misc.
From SV Require Gen.BasisC14.
From SV Require Import Proofs.C14_Fit1d_Base Proofs.C14_Fit1d_Rows Proofs.C14_Fit1d Proofs.C14_Fit1d_Dump.
From SV Require Import Proofs.C14_Dubins Proofs.C14_Reparam Proofs.C14_ReparamLP Proofs.C14_Misc Proofs.C14_Extra.
Import ListNotations.
Local Open Scope Q_scope.

Theorem C14_fit1d_rows_meaning : forall s dt dx lv rv xs,   supported s ->
  (1 <= npts dt dx)%nat -> length xs = npts dt dx ->
  Forall (fun c => length c = (Kdeg s + 1)%nat) xs ->
  length lv = length (LeftDeg s) -> length rv = length (RghtDeg s) ->
  (Forall2 Qeq (mat_vec (A_dense s dt dx) (concat xs)) (b_vec s dt dx lv rv) <-> constraints_hold s dt dx lv rv xs).
Proof. exact Proofs.C14_Fit1d.fit1d_rows_meaning. Qed.
Print Assumptions C14_fit1d_rows_meaning.

Theorem C14_fit1d_row_count : forall s dt dx, (1 <= npts dt dx)%nat ->
  length (A_rows s dt dx) = n_eq s (npts dt dx).
Proof. exact Proofs.C14_Fit1d.fit1d_row_count. Qed.
Print Assumptions C14_fit1d_row_count.

Theorem C14_fit1d_col_count : forall s dt dx, (1 <= npts dt dx)%nat ->
  Forall (fun r => length r = n_coef s (npts dt dx)) (A_dense s dt dx).
Proof. exact Proofs.C14_Fit1d.fit1d_col_count. Qed.
Print Assumptions C14_fit1d_col_count.

Theorem C14_fit1d_counts : forall s N, supported s -> (1 <= N)%nat ->
  (n_eq s N <= n_coef s N)%nat /\ (OptDeg s = None -> n_eq s N = n_coef s N).
Proof. exact Proofs.C14_Fit1d.fit1d_counts. Qed.
Print Assumptions C14_fit1d_counts.

Theorem C14_kkt_solution_feasible : forall s od dt dx lv rv z,   (1 <= npts dt dx)%nat ->
  length z = (n_coef s (npts dt dx) + n_eq s (npts dt dx))%nat ->
  Forall2 Qeq (mat_vec (kkt_H s od dt dx) z) (kkt_rhs s dt dx lv rv) ->
  Forall2 Qeq (mat_vec (A_dense s dt dx) (firstn (n_coef s (npts dt dx)) z)) (b_vec s dt dx lv rv).
Proof. exact Proofs.C14_Fit1d.kkt_solution_feasible. Qed.
Print Assumptions C14_kkt_solution_feasible.

Theorem C14_kkt_H_blocks : forall s od dt dx r col,
  (1 <= npts dt dx)%nat -> (r < n_eq s (npts dt dx))%nat -> (col < n_coef s (npts dt dx))%nat ->
  mget (kkt_H s od dt dx) (n_coef s (npts dt dx) + r) col = mget (A_dense s dt dx) r col
  /\ mget (kkt_H s od dt dx) col (n_coef s (npts dt dx) + r) = mget (A_dense s dt dx) r col.
Proof. exact Proofs.C14_Fit1d.kkt_H_blocks. Qed.
Print Assumptions C14_kkt_H_blocks.

Theorem C14_fit1d_output_feasible : forall s (lu : list (list Q) -> list Q -> list Q) dt dx lv rv, (1 <= npts dt dx)%nat ->
  (OptDeg s = None ->
     Forall2 Qeq (mat_vec (A_dense s dt dx) (lu (A_dense s dt dx) (b_vec s dt dx lv rv))) (b_vec s dt dx lv rv)) ->
  (forall od, OptDeg s = Some od ->
     let z := lu (kkt_H s od dt dx) (kkt_rhs s dt dx lv rv) in
     length z = (n_coef s (npts dt dx) + n_eq s (npts dt dx))%nat /\
     Forall2 Qeq (mat_vec (kkt_H s od dt dx) z) (kkt_rhs s dt dx lv rv)) ->
  Forall2 Qeq (mat_vec (A_dense s dt dx) (fit_spline_1d s lu dt dx lv rv)) (b_vec s dt dx lv rv).
Proof. exact Proofs.C14_Fit1d.fit1d_output_feasible. Qed.
Print Assumptions C14_fit1d_output_feasible.

Theorem C14_basis_dump_matches :
  Forall2 (Forall2 Qeq) (U0tB 1 0) Gen.BasisC14.dump_U0tB_1_0 /\ Forall2 (Forall2 Qeq) (U1tB 1 0) Gen.BasisC14.dump_U1tB_1_0 /\
  Forall2 (Forall2 Qeq) (U0tB 3 2) Gen.BasisC14.dump_U0tB_3_2 /\ Forall2 (Forall2 Qeq) (U1tB 3 2) Gen.BasisC14.dump_U1tB_3_2 /\
  Forall2 (Forall2 Qeq) (U0tB 5 3) Gen.BasisC14.dump_U0tB_5_3 /\ Forall2 (Forall2 Qeq) (U1tB 5 3) Gen.BasisC14.dump_U1tB_5_3 /\
  Forall2 (Forall2 qcloseP) (cost_P 5 3) Gen.BasisC14.dump_P_5_3 /\
  Forall2 (Forall2 Qeq) (U0tB 6 3) Gen.BasisC14.dump_U0tB_6_3 /\ Forall2 (Forall2 Qeq) (U1tB 6 3) Gen.BasisC14.dump_U1tB_6_3 /\
  Forall2 (Forall2 qcloseP) (cost_P 6 3) Gen.BasisC14.dump_P_6_3.
Proof. exact Proofs.C14_Fit1d_Dump.basis_dump_matches. Qed.
Print Assumptions C14_basis_dump_matches.

Theorem C14_reparam_monotone_small_acc_refuted :
  exists s0 ds n start_vel v2max dofs amin amax tmax,
    0 < ds /\ eps <= start_vel * start_vel
    /\ (forall y, nth 0%nat v2max None = Some y -> eps <= y)
    /\ Forall (sq_exact qsqrt)
         (r_rads (reparam qsqrt s0 ds n start_vel v2max dofs amin amax tmax))
    /\ exists g, In g (r_segs (reparam qsqrt s0 ds n start_vel v2max dofs amin amax tmax))
                 /\ g_v2 g < 0 /\ seg_du g 1 < 0 /\ seg_val g 1 < seg_val g (3 # 4).
Proof. exact Proofs.C14_Reparam.reparam_monotone_small_acc_refuted. Qed.
Print Assumptions C14_reparam_monotone_small_acc_refuted.

Theorem C14_reparam_slow_start_refuted :
  (exists s0 ds n start_vel v2max dofs amin amax tmax,
    0 < ds /\ ds <= 1 /\ 0 < start_vel /\ tmax == s0 + ds * idxQ n
    /\ Forall (sq_exact qsqrt)
         (r_rads (reparam qsqrt s0 ds n start_vel v2max dofs amin amax tmax))
    /\ Forall no_tiny_accel
         (r_steps (reparam qsqrt s0 ds n start_vel v2max dofs amin amax tmax))
    /\ exists g, In g (r_segs (reparam qsqrt s0 ds n start_vel v2max dofs amin amax tmax))
                 /\ g_g0 g + ds < seg_val g 1 /\ tmax < seg_val g 1)
  /\
  (exists s0 ds n start_vel v2max dofs amin amax tmax,
    0 < ds /\ ds <= 1 /\ 0 < start_vel
    /\ Forall (sq_exact qsqrt)
         (r_rads (reparam qsqrt s0 ds n start_vel v2max dofs amin amax tmax))
    /\ exists g, In g (r_segs (reparam qsqrt s0 ds n start_vel v2max dofs amin amax tmax))
                 /\ g_dt g < 0).
Proof. exact Proofs.C14_Reparam.reparam_slow_start_refuted. Qed.
Print Assumptions C14_reparam_slow_start_refuted.

Theorem C14_reparam_dt_pos_refuted :
  exists s0 ds n start_vel v2max dofs amin amax tmax,
    0 < ds /\ ds <= 1 /\ eps <= start_vel * start_vel
    /\ (forall y, nth 0%nat v2max None = Some y -> eps <= y)
    /\ Forall (sq_exact qsqrt)
         (r_rads (reparam qsqrt s0 ds n start_vel v2max dofs amin amax tmax))
    /\ exists g, In g (r_segs (reparam qsqrt s0 ds n start_vel v2max dofs amin amax tmax))
                 /\ g_dt g == 0 /\ seg_val g 1 == g_g0 g /\ g_g0 g + ds <= tmax.
Proof. exact Proofs.C14_Reparam.reparam_dt_pos_refuted. Qed.
Print Assumptions C14_reparam_dt_pos_refuted.

Theorem C14_reparam_no_overshoot_tiny_accel_refuted :
  exists s0 ds n start_vel v2max dofs amin amax tmax,
    0 < ds /\ ds <= 1 /\ eps <= start_vel * start_vel
    /\ (forall y, nth 0%nat v2max None = Some y -> eps <= y)
    /\ tmax == s0 + ds * idxQ n
    /\ Forall (sq_exact qsqrt)
         (r_rads (reparam qsqrt s0 ds n start_vel v2max dofs amin amax tmax))
    /\ exists g, In g (r_segs (reparam qsqrt s0 ds n start_vel v2max dofs amin amax tmax))
                 /\ seg_val g 1 == 5 # 4 /\ tmax == 1
                 /\ ~ chain_ok (r_segs (reparam qsqrt s0 ds n start_vel v2max dofs amin amax tmax))
                               (r_end (reparam qsqrt s0 ds n start_vel v2max dofs amin amax tmax)).
Proof. exact Proofs.C14_Reparam.reparam_no_overshoot_tiny_accel_refuted. Qed.
Print Assumptions C14_reparam_no_overshoot_tiny_accel_refuted.

Theorem C14_reparam_seg_monotone : forall g u u',
  0 <= g_v1 g -> 0 <= g_v2 g -> 0 <= u -> u <= u' -> u' <= 1 ->
  seg_val g u <= seg_val g u'.
Proof. exact Proofs.C14_Reparam.reparam_seg_monotone. Qed.
Print Assumptions C14_reparam_seg_monotone.

Theorem C14_fit_spline_interpolates 
  : forall (G T : Type) (op : G -> G -> G) (e : G) (inv : G -> G) (gexp : T -> G) (glog : G -> T) (tneg : T -> T),
    (forall a b c : G, op (op a b) c = op a (op b c)) ->
    (forall a : G, op e a = a) -> (forall a : G, op a e = a) ->
    (forall a : G, op (inv a) a = e) -> (forall a : G, op a (inv a) = e) ->
    (forall v : T, gexp (tneg v) = inv (gexp v)) ->
    (forall a : G, gexp (glog a) = a) ->
    forall (g gn : G) (cs : list T), (3 <= length cs)%nat ->
    fold_left op (map gexp (fixup G T op inv gexp glog tneg g gn cs)) e = op (inv g) gn.
Proof. exact Proofs.C14_Misc.fit_spline_interpolates. Qed.
Print Assumptions C14_fit_spline_interpolates.

Theorem C14_fixup_ends_untouched 
  : forall (G T : Type) (op : G -> G -> G) (inv : G -> G) (gexp : T -> G) (glog : G -> T) (tneg : T -> T)
      (g gn : G) (cs : list T) (d : T), (3 <= length cs)%nat ->
    nth 0 (fixup G T op inv gexp glog tneg g gn cs) d = nth 0 cs d /\
    nth (length cs - 1) (fixup G T op inv gexp glog tneg g gn cs) d = nth (length cs - 1) cs d /\
    length (fixup G T op inv gexp glog tneg g gn cs) = length cs.
Proof. exact Proofs.C14_Misc.fixup_ends_untouched. Qed.
Print Assumptions C14_fixup_ends_untouched.

Theorem C14_fixup_short 
  : forall (G T : Type) (op : G -> G -> G) (inv : G -> G) (gexp : T -> G) (glog : G -> T) (tneg : T -> T)
      (g gn : G) (cs : list T), (length cs < 3)%nat -> fixup G T op inv gexp glog tneg g gn cs = cs.
Proof. exact Proofs.C14_Misc.fixup_short. Qed.
Print Assumptions C14_fixup_short.

Theorem C14_fit_bspline_span 
  : forall (K : Z) (t0 t1 dt : Q), 0 < dt -> t0 <= t1 ->
    bs_tmin t0 <= t0 /\ t1 <= bs_tmax K t0 dt (num_pts K t0 t1 dt).
Proof. exact Proofs.C14_Misc.fit_bspline_span. Qed.
Print Assumptions C14_fit_bspline_span.

Theorem C14_num_pts_ge 
  : forall (K : Z) (t0 t1 dt : Q), 0 < dt -> t0 <= t1 -> (K + 1 <= num_pts K t0 t1 dt)%Z.
Proof. exact Proofs.C14_Misc.num_pts_ge. Qed.
Print Assumptions C14_num_pts_ge.

Theorem C14_dubins_min_word 
  : forall (R : Q) (lsl lsr rsl rsr rlr lrl : cand) (r : dsel),
    dubins_select R lsl lsr rsl rsr rlr lrl = Some r ->
    (d_word r < 6)%nat /\
    (exists c : Q * Q * Q,
       nth (d_word r) [lsl; lsr; rsl; rsr; rlr; lrl] None = Some c /\
       d_len r == len_of R (d_word r) c /\ d_desc r = desc_of (d_word r) c) /\
    (forall (j : nat) (c : Q * Q * Q),
       (j < 6)%nat -> nth j [lsl; lsr; rsl; rsr; rlr; lrl] None = Some c -> d_len r <= len_of R j c) /\
    (forall (j : nat) (c : Q * Q * Q),
       (j < d_word r)%nat -> nth j [lsl; lsr; rsl; rsr; rlr; lrl] None = Some c -> d_len r < len_of R j c).
Proof. exact Proofs.C14_Dubins.dubins_min_word. Qed.
Print Assumptions C14_dubins_min_word.

Theorem C14_dubins_select_some 
  : forall (R : Q) (c : Q * Q * Q) (lsl : option (Q * Q * Q)) (lsr rsl rsr rlr lrl : cand),
    lsl = Some c -> exists r : dsel, dubins_select R lsl lsr rsl rsr rlr lrl = Some r.
Proof. exact Proofs.C14_Dubins.dubins_select_some. Qed.
Print Assumptions C14_dubins_select_some.

Theorem C14_dubins_angle_range 
  : forall (pi twopi d : Q) (s : seg),
    0 < pi -> twopi == 2 * pi -> - pi <= d -> d <= pi -> 0 <= dubins_angle twopi d s < twopi.
Proof. exact Proofs.C14_Dubins.dubins_angle_range. Qed.
Print Assumptions C14_dubins_angle_range.

Theorem C14_csc_straight_len 
  : forall d13 ux uy cw sz : R,
    (ux * ux + uy * uy)%R = 1%R ->
    let tx := (ux * cw - uy * sz)%R in
    let ty := (uy * cw + ux * sz)%R in (d13 * ux * tx + d13 * uy * ty)%R = (d13 * cw)%R.
Proof. exact Proofs.C14_Dubins.csc_straight_len. Qed.
Print Assumptions C14_csc_straight_len.

Theorem C14_csc_straight_nonneg 
  : forall Rr d13 : R,
    (0 < 2 * Rr)%R -> (2 * Rr < d13)%R -> (0 <= d13 * sqrt (1 - 4 * Rr * Rr / (d13 * d13)))%R.
Proof. exact Proofs.C14_Dubins.csc_straight_nonneg. Qed.
Print Assumptions C14_csc_straight_nonneg.

Theorem C14_reparam_monotone 
  : forall sq : Q -> Q, (forall x : Q, 0 <= sq x) ->
    forall (s0 ds : Q) (n : nat) (start_vel : Q) (v2max : list (option Q)) (dofs : list (list (Q * Q)))
      (amin amax : list Q) (tmax : Q),
    0 < ds -> ds <= 1 -> eps <= start_vel * start_vel ->
    (forall y : Q, nth 0 v2max None = Some y -> eps <= y) ->
    let res := reparam sq s0 ds n start_vel v2max dofs amin amax tmax in
    Forall (sq_exact sq) (r_rads res) ->
    Forall (step_good s0 ds) (r_steps res) /\
    r_segs res = segs_of (r_steps res) /\
    Forall (fun g : rseg =>
       0 <= g_dt g /\ 0 <= g_v1 g /\ 0 <= g_v2 g /\
       (forall u u' : Q, 0 <= u -> u <= u' -> u' <= 1 -> seg_val g u <= seg_val g u')) (r_segs res).
Proof. exact Proofs.C14_Reparam.reparam_monotone. Qed.
Print Assumptions C14_reparam_monotone.

Theorem C14_reparam_no_overshoot 
  : forall sq : Q -> Q, (forall x : Q, 0 <= sq x) ->
    forall (s0 ds : Q) (n : nat) (start_vel : Q) (v2max : list (option Q)) (dofs : list (list (Q * Q)))
      (amin amax : list Q) (tmax : Q),
    0 < ds -> ds <= 1 -> eps <= start_vel * start_vel ->
    (forall y : Q, nth 0 v2max None = Some y -> eps <= y) ->
    tmax == s0 + ds * idxQ n ->
    let res := reparam sq s0 ds n start_vel v2max dofs amin amax tmax in
    Forall (sq_exact sq) (r_rads res) ->
    Forall no_tiny_accel (r_steps res) ->
    chain_ok (r_segs res) (r_end res) /\ s0 <= next_start (r_segs res) (r_end res).
Proof. exact Proofs.C14_Reparam.reparam_no_overshoot. Qed.
Print Assumptions C14_reparam_no_overshoot.

Theorem C14_reparam_onto 
  : forall sq : Q -> Q, (forall x : Q, 0 <= sq x) ->
    forall (s0 ds : Q) (n : nat) (start_vel : Q) (v2max : list (option Q)) (dofs : list (list (Q * Q)))
      (amin amax : list Q) (tmax : Q),
    0 < ds -> ds <= 1 -> eps <= start_vel * start_vel ->
    (forall y : Q, nth 0 v2max None = Some y -> eps <= y) ->
    let res := reparam sq s0 ds n start_vel v2max dofs amin amax tmax in
    Forall (sq_exact sq) (r_rads res) ->
    Forall (fun st : rstep => t_ai st <> None) (r_steps res) ->
    map g_g0 (r_segs res) = map (fun j : nat => s0 + ds * idxQ j) (seq 0 n) /\
    length (r_segs res) = n /\
    (forall g : rseg, hd_error (r_segs res) = Some g -> seg_val g 0 == s0) /\
    Forall (fun g : rseg => seg_val g 0 == g_g0 g) (r_segs res) /\
    Forall (step_good s0 ds) (r_steps res) /\ r_end res = tmax.
Proof. exact Proofs.C14_Reparam.reparam_onto. Qed.
Print Assumptions C14_reparam_onto.

Theorem C14_reparam_start_speed 
  : forall sq : Q -> Q, (forall x : Q, 0 <= sq x) ->
    forall (s0 ds : Q) (n : nat) (start_vel : Q) (v2max : list (option Q)) (dofs : list (list (Q * Q)))
      (amin amax : list Q) (tmax : Q) (st : rstep) (g : rseg),
    0 < start_vel ->
    let res := reparam sq s0 ds n start_vel v2max dofs amin amax tmax in
    let v0 := init_v2m start_vel v2max in
    sq_exact sq v0 ->
    hd_error (r_steps res) = Some st -> t_seg st = Some g ->
    seg_du g 0 == g_dt g * sq v0 /\ (~ g_dt g == 0 -> seg_du g 0 / g_dt g == sq v0) /\ sq v0 <= start_vel.
Proof. exact Proofs.C14_Reparam.reparam_start_speed. Qed.
Print Assumptions C14_reparam_start_speed.

Theorem C14_num_pts_covers_index :
  forall K t0 t1 dt t,
  0 < dt -> t0 <= t -> t <= t1 ->
  (0 <= bs_istar t0 dt t)%Z /\ (bs_istar t0 dt t + K + 1 <= num_pts K t0 t1 dt)%Z.
Proof. exact Proofs.C14_Misc.num_pts_covers_index. Qed.
Print Assumptions C14_num_pts_covers_index.

Theorem C14_num_pts_is_last_index : forall K t0 t1 dt,
  num_pts K t0 t1 dt = (bs_istar t0 dt t1 + K + 1)%Z.
Proof. exact Proofs.C14_Misc.num_pts_is_last_index. Qed.
Print Assumptions C14_num_pts_is_last_index.

Theorem C14_num_pts_eq_old : forall K t0 t1 dt, 0 < dt -> num_pts K t0 t1 dt = num_pts_old K t0 t1 dt.
Proof. exact Proofs.C14_Misc.num_pts_eq_old. Qed.
Print Assumptions C14_num_pts_eq_old.

Theorem C14_reparam_onto_clamp_refuted :
  exists s0 ds n start_vel v2max dofs amin amax tmax,
    0 < ds /\ ds <= 1 /\ eps <= start_vel * start_vel
    /\ (forall y, nth 0%nat v2max None = Some y -> eps <= y)
    /\ tmax == s0 + ds * idxQ n
    /\ Forall (sq_exact qsqrt) (r_rads (reparam qsqrt s0 ds n start_vel v2max dofs amin amax tmax))
    /\ Forall no_tiny_accel (r_steps (reparam qsqrt s0 ds n start_vel v2max dofs amin amax tmax))
    /\ exists g, hd_error (r_segs (reparam qsqrt s0 ds n start_vel v2max dofs amin amax tmax)) = Some g
                 /\ 0 < g_dt g /\ seg_val g 1 < g_g0 g + ds /\ seg_val g 1 + (1 # 10) < tmax.
Proof. exact Proofs.C14_Extra.reparam_onto_clamp_refuted. Qed.
Print Assumptions C14_reparam_onto_clamp_refuted.

Theorem C14_bwd_rows_count : forall ds ynext dof vmin vmax amin amax n,
  length dof = n -> length vmin = n -> length vmax = n -> length amin = n -> length amax = n ->
  length (bwd_rows ds ynext dof vmin vmax amin amax) = (2 + 3 * n)%nat.
Proof. exact Proofs.C14_ReparamLP.bwd_rows_count. Qed.
Print Assumptions C14_bwd_rows_count.

Theorem C14_bwd_feasible_next : forall ds ynext dof vmin vmax amin amax y a,
  Forall (row_sat y a) (bwd_rows ds ynext dof vmin vmax amin amax) ->
  0 <= y + 2 * ds * a /\ (forall yn, ynext = Some yn -> y + 2 * ds * a <= yn).
Proof. exact Proofs.C14_ReparamLP.bwd_feasible_next. Qed.
Print Assumptions C14_bwd_feasible_next.

Theorem C14_lp_feasible_fwd_radicand_nonneg : forall ds v2max dofs vmin vmax amin amax i vi2 a ai,
  0 < ds ->
  Forall (row_sat vi2 a) (bwd_rows ds (nth (S i) v2max None) (nth i dofs []) vmin vmax amin amax) ->
  acc_bound ds v2max dofs amin amax i vi2 = Some ai ->
  a <= ai /\ 0 <= vi2 + 2 * ds * ai.
Proof. exact Proofs.C14_ReparamLP.lp_feasible_fwd_radicand_nonneg. Qed.
Print Assumptions C14_lp_feasible_fwd_radicand_nonneg.

Theorem C14_reparam_lp_row4_radicand_nonneg : forall ds v2max dofs vmin vmax amin amax i Y A vi2 ai,
  0 < ds -> 0 < Y -> 0 <= vi2 -> vi2 <= Y ->
  Forall (fun x => 0 <= x) amax -> Forall (fun x => x <= 0) amin ->
  (forall yn, nth (S i) v2max None = Some yn -> 0 <= yn) ->
  Forall (row_sat Y A) (bwd_rows ds (nth (S i) v2max None) (nth i dofs []) vmin vmax amin amax) ->
  acc_bound ds v2max dofs amin amax i vi2 = Some ai ->
  0 <= vi2 + 2 * ds * ai.
Proof. exact Proofs.C14_ReparamLP.reparam_lp_row4_radicand_nonneg. Qed.
Print Assumptions C14_reparam_lp_row4_radicand_nonneg.

Theorem C14_bwd_rows_without_row4_refuted :
  exists ds ynext dof vmin vmax amin amax y a,
    0 < ds /\ Forall (row_sat y a) (removelast (bwd_rows ds ynext dof vmin vmax amin amax))
    /\ y + 2 * ds * a < 0.
Proof. exact Proofs.C14_ReparamLP.bwd_rows_without_row4_refuted. Qed.
Print Assumptions C14_bwd_rows_without_row4_refuted.

Theorem C14_onto_clamp_witness_excluded_by_row4 : forall vmin vmax a,
  ~ Forall (row_sat (1 # 4) a) (bwd_rows (1 # 4) None [(1, 8)] vmin vmax [- (1)] [1]).
Proof. exact Proofs.C14_ReparamLP.onto_clamp_witness_excluded_by_row4. Qed.
Print Assumptions C14_onto_clamp_witness_excluded_by_row4.

Theorem C14_reparam_clamp_gap_partial : forall (sq : Q -> Q) s0 ds i vi2 a g,
    0 < ds -> eps <= vi2 -> a <= - eps ->
    0 <= vi2 + 2 * ds * a -> vi2 + 2 * ds * a < eps ->
    Forall (sq_exact sq) (t_rads (fwd_step sq s0 ds i vi2 (Some a))) ->
    t_seg (fwd_step sq s0 ds i vi2 (Some a)) = Some g ->
    (g_g0 g + ds - seg_val g 1) * (2 * - a) == eps - (vi2 + 2 * ds * a)
    /\ 0 <= g_g0 g + ds - seg_val g 1
    /\ (g_g0 g + ds - seg_val g 1) * (2 * - a) <= eps.
Proof. exact Proofs.C14_ReparamLP.reparam_clamp_gap_partial. Qed.
Print Assumptions C14_reparam_clamp_gap_partial.
