(* Property C15: the property theorems and nothing else.  Each is closed by the lemma proved in Proofs/C15_*.v
   against the generated model (coq/Gen/<G>.v); Print Assumptions lists the axioms. *)
From Coq Require Import Reals List ZArith.
From SV Require Import Base.GenPrelude Base.Mat Doc.Groups.
From SV Require Import Model.C15_History Model.C15_Groups.
From SV Require Proofs.C15_History Proofs.C15_Inst Proofs.C15_Odeint.
Import ListNotations.
Local Open Scope R_scope.

(* Exact semantics, generated code of SO2, SO3, SE2, SE3, Galilei, SE_K_3<1..3>, any program: every reachable
   element has the right length, satisfies the documented constraint and q_w >= 0, and its documented matrix
   is the value of the same program over matrices (product, two-sided inverse). *)
Theorem C15_history_exact :
  forall (p : list (op sort conv ctor (list R))) (st' : state sort (list R)),
  run csrc cdst ksort WcodeX (fun _ a b => a = b) empty p st' ->
  Proofs.C15_History.good_state sort (list R) good st' /\
  exists sst', run csrc cdst ksort Wspec (fun _ a b => a = b) empty p sst' /\
               Proofs.C15_History.rel sort (list R) mat gmat st' sst'.
Proof. exact Proofs.C15_Inst.history_exact. Qed.
Print Assumptions C15_history_exact.

Theorem C15_history_exact_intermediate :
  forall (p1 p2 : list (op sort conv ctor (list R))) (st' : state sort (list R)),
  run csrc cdst ksort WcodeX (fun _ a b => a = b) empty (p1 ++ p2) st' ->
  exists st1, run csrc cdst ksort WcodeX (fun _ a b => a = b) empty p1 st1 /\
    Proofs.C15_History.good_state sort (list R) good st1 /\
    exists sst1, run csrc cdst ksort Wspec (fun _ a b => a = b) empty p1 sst1 /\
                 Proofs.C15_History.rel sort (list R) mat gmat st1 sst1.
Proof. exact Proofs.C15_Inst.history_exact_intermediate. Qed.
Print Assumptions C15_history_exact_intermediate.

(* Perturbation semantics (every stored result: norm-wise relative error e of the constrained part, sign decided
   on the rounded value), generated code, any program: deviation of the constraint bounded by the size of the
   UNFOLDED expression tree of the register. *)
Theorem C15_norm_dev_tree :
  forall (e : R), 0 <= e <= 1 / 4 ->
  forall (p : list (op sort conv ctor (list R))) (st' : state sort (list R)) (r : reg) (s : sort) (q : list R),
  run csrc cdst ksort Wcode (store_pert e) empty p st' -> st' r = Some (s, q) ->
  let K := IZR (tsize conv_fresh p (fun _ => 0%Z) r) * (Proofs.C15_Inst.eT + Proofs.C15_Inst.eR e) in
  K <= 1 / 2 -> Rabs (sqn s q - 1) <= K * (1 + 2 * K).
Proof. exact Proofs.C15_Inst.norm_dev_tree_inst. Qed.
Print Assumptions C15_norm_dev_tree.

(* Histories in which every composition has at most one non-fresh operand (chains, odeint steps): the
   property's (n+1)*1e-14, for stored results with relative error <= 1e-15. *)
Theorem C15_norm_dev_linear_histories :
  forall (e : R), 0 <= e <= 1 / 4 ->
  forall (p : list (op sort conv ctor (list R))) (st' : state sort (list R)) (r : reg) (s : sort) (q : list R),
  e <= 1 / 1000000000000000 ->
  (Z.of_nat (length p) <= 1000000000000)%Z ->
  linear conv_fresh p (fun _ => false) = true ->
  run csrc cdst ksort Wcode (store_pert e) empty p st' -> st' r = Some (s, q) ->
  Rabs (sqn s q - 1) <= (INR (length p) + 1) * (1 / 100000000000000).
Proof. exact Proofs.C15_Inst.norm_dev_linear_inst. Qed.
Print Assumptions C15_norm_dev_linear_histories.

(* x := x*x : the deviation really grows like 2^n in the same perturbation semantics ... *)
Theorem C15_norm_dev_squaring_growth :
  forall (e : R) (n : nat), 0 < e ->
  exists st' q, run csrc cdst ksort Wcode (store_pert e) empty (sq_prog n) st' /\
                st' 0%nat = Some (SO3, q) /\ INR (2 ^ S n) * e <= sqn SO3 q - 1.
Proof. exact Proofs.C15_Inst.norm_dev_squaring_growth. Qed.
Print Assumptions C15_norm_dev_squaring_growth.

(* ... so the property's linear bound is refuted for binary64 (one half-ulp error, 16 operations) *)
Theorem C15_norm_dev_squaring_refuted :
  exists st' q, run csrc cdst ksort Wcode (store_pert Proofs.C15_Inst.u53) empty (sq_prog 15) st' /\
                st' 0%nat = Some (SO3, q) /\
                sqn SO3 q - 1 > (INR (length (sq_prog 15)) + 1) * (1 / 100000000000000).
Proof. exact Proofs.C15_Inst.norm_dev_squaring_refuted. Qed.
Print Assumptions C15_norm_dev_squaring_refuted.

(* Bookkeeping: in a linear history the unfolded tree has at most 3n nodes more than it started with. *)
Theorem C15_tsize_linear :
  forall (T : Type) (p : list (op sort conv ctor T)) (f : reg -> bool) (w : reg -> Z) (B : Z),
  linear conv_fresh p f = true ->
  (forall r, f r = true -> (w r <= 1)%Z) -> (forall r, (0 <= w r <= B)%Z) ->
  forall r, (0 <= tsize conv_fresh p w r <= B + 3 * Z.of_nat (length p))%Z.
Proof. exact (fun T => Proofs.C15_History.tsize_linear sort conv ctor conv_fresh T). Qed.
Print Assumptions C15_tsize_linear.

(* odeint: ANY family of groups whose exp satisfies the one-parameter-subgroup law, any explicit RK tableau
   with sum b = 1, any step count, constant body velocity: x0 * exp((n dt) v), through the scale_sum adaptor. *)
Theorem C15_odeint_const_velocity :
  forall (sort conv ctor : Type) (csrc cdst : conv -> sort) (ksort : ctor -> sort) (E1 E2 : Type)
         (W1 : world sort conv ctor E1) (good : sort -> E1 -> Prop) (phi : sort -> E1 -> E2)
         (smul : sort -> E2 -> E2 -> E2) (sexp : sort -> list R -> E2),
  (forall s g h out, good s g -> good s h -> w_comp W1 s g h out ->
     good s out /\ phi s out = smul s (phi s g) (phi s h)) ->
  (forall s a out, w_exp W1 s a out -> good s out /\ phi s out = sexp s a) ->
  (forall s g v al be, good s g ->
     smul s (smul s (phi s g) (sexp s (vscale al v))) (sexp s (vscale be v))
     = smul s (phi s g) (sexp s (vscale (al + be) v))) ->
  (forall s g v, good s g -> smul s (phi s g) (sexp s (vscale 0 v)) = phi s g) ->
  forall (n : nat) (dt : R) (A : list (list R)) (b v : list R) (st st' : state sort E1) (s : sort) (x0 : E1),
  (forall row, In row A -> row <> []) -> b <> [] -> Proofs.C15_History.rsum b = 1 ->
  Proofs.C15_History.good_state sort E1 good st -> st 0%nat = Some (s, x0) ->
  run csrc cdst ksort W1 (fun _ => eq) st (rk_run n dt A b v) st' ->
  Proofs.C15_History.good_state sort E1 good st' /\
  exists q, st' 0%nat = Some (s, q) /\ phi s q = smul s (phi s x0) (sexp s (vscale (INR n * dt) v)).
Proof. exact Proofs.C15_History.odeint_const_velocity. Qed.
Print Assumptions C15_odeint_const_velocity.

(* ... and for the generated SO2 code the law is proved, so the statement is unconditional there *)
Theorem C15_odeint_const_velocity_so2 :
  forall (n : nat) (dt : R) (A : list (list R)) (b v : list R) (st st' : state sort (list R)) (x0 : list R),
  (forall row, In row A -> row <> []) -> b <> [] -> Proofs.C15_History.rsum b = 1 ->
  Proofs.C15_History.good_state sort (list R) Proofs.C15_Odeint.good2 st -> st 0%nat = Some (SO2, x0) ->
  run csrc cdst ksort Proofs.C15_Odeint.Wso2 (fun _ => eq) st (rk_run n dt A b v) st' ->
  Proofs.C15_History.good_state sort (list R) Proofs.C15_Odeint.good2 st' /\
  exists q, st' 0%nat = Some (SO2, q) /\
            so2_mat q = mmul (so2_mat x0) (so2_mat [sin (INR n * dt * nth 0 v 0); cos (INR n * dt * nth 0 v 0)]).
Proof. exact Proofs.C15_Odeint.odeint_const_velocity_so2. Qed.
Print Assumptions C15_odeint_const_velocity_so2.
