(* Property C16: the property theorems and nothing else.  Each is closed by the lemma proved in
   Proofs/C16_Layout.v (generic, about the memory model Model/C16_Layout.v) or Proofs/C16_Tables.v (about
   the table Gen/LayoutC16.v measured on the real classes on this run); Print Assumptions lists the axioms. *)
From Coq Require Import String.
From Coq Require Import List Arith ZArith Bool.
From SV Require Import Model.C16_Layout Gen.LayoutC16.
From SV Require Proofs.C16_Layout.
From SV Require Proofs.C16_Tables.
Import ListNotations.
Local Open Scope string_scope.

Theorem C16_frame :
  forall m v data i,
  inbounds (List.length m) v = true -> List.length data = vlen v ->
  nth i (store m v data) 0%Z = if inview v i then nth (i - voff v) data 0%Z else nth i m 0%Z.
Proof. exact Proofs.C16_Layout.frame. Qed.
Print Assumptions C16_frame.

Theorem C16_frame_unconditional :
  forall m v data i, inview v i = false -> nth i (store m v data) 0%Z = nth i m 0%Z.
Proof. exact Proofs.C16_Layout.frame_outside. Qed.
Print Assumptions C16_frame_unconditional.

Theorem C16_load_store :
  forall m v data,
  inbounds (List.length m) v = true -> List.length data = vlen v -> load (store m v data) v = data.
Proof. exact Proofs.C16_Layout.load_store. Qed.
Print Assumptions C16_load_store.

Theorem C16_load_store_disjoint :
  forall m v w data, disjoint v w = true -> load (store m v data) w = load m w.
Proof. exact Proofs.C16_Layout.load_store_disjoint. Qed.
Print Assumptions C16_load_store_disjoint.

Theorem C16_const_view_no_store :
  forall ops m, forallb (alphabet RO) ops = true -> run m ops = m.
Proof. exact Proofs.C16_Layout.const_view_no_store. Qed.
Print Assumptions C16_const_view_no_store.

Theorem C16_assign_verbatim :
  forall m dst src,
  wf_w (List.length m) m (WCopy dst src) = true ->
  load (exec_w m (WCopy dst src)) dst = load m src.
Proof. exact Proofs.C16_Layout.assign_verbatim. Qed.
Print Assumptions C16_assign_verbatim.

Theorem C16_assign_frame :
  forall m dst src i, inview dst i = false -> nth i (exec_w m (WCopy dst src)) 0%Z = nth i m 0%Z.
Proof. exact Proofs.C16_Layout.assign_frame. Qed.
Print Assumptions C16_assign_frame.

Theorem C16_cast_no_reorder :
  forall conv m v k,
  inbounds (List.length m) v = true -> k < vlen v ->
  List.length (result_r m (RCast v conv)) = vlen v /\
  nth k (result_r m (RCast v conv)) (conv 0%Z) = conv (nth (voff v + k) m 0%Z).
Proof. exact Proofs.C16_Layout.cast_no_reorder. Qed.
Print Assumptions C16_cast_no_reorder.

Theorem C16_history_frame :
  forall ops m i, written ops i = false -> nth i (run m ops) 0%Z = nth i m 0%Z.
Proof. exact Proofs.C16_Layout.history_frame. Qed.
Print Assumptions C16_history_frame.

Theorem C16_overlap_history :
  forall ops m i,
  wf_run m ops = true -> i < List.length m -> nth i (run m ops) 0%Z = lww (rev (wops ops)) m i.
Proof. exact Proofs.C16_Layout.overlap_history. Qed.
Print Assumptions C16_overlap_history.

Theorem C16_subpart_write_local :
  forall m v a data,
  vend a <= vlen v ->
  (forall i, inview v i = false -> nth i (store m (subview v a) data) 0%Z = nth i m 0%Z)
  /\ (forall b, disjoint a b = true -> load (store m (subview v a) data) (subview v b) = load m (subview v b)).
Proof. exact Proofs.C16_Layout.subpart_write_local. Qed.
Print Assumptions C16_subpart_write_local.

Theorem C16_bundle_offsets :
  forall l i, i <= List.length l -> nth i (psum l) 0 = total (firstn i l).
Proof. exact Proofs.C16_Layout.psum_nth. Qed.
Print Assumptions C16_bundle_offsets.

Theorem C16_bundle_repsize :
  forall l, nth (List.length l) (psum l) 0 = total l.
Proof. exact Proofs.C16_Layout.psum_last. Qed.
Print Assumptions C16_bundle_repsize.

Theorem C16_bundle_parts_disjoint :
  forall sizes i j, i < j -> j < List.length sizes ->
  disjoint (bundle_part sizes i) (bundle_part sizes j) = true.
Proof. exact Proofs.C16_Layout.bundle_parts_disjoint. Qed.
Print Assumptions C16_bundle_parts_disjoint.

Theorem C16_bundle_parts_within :
  forall sizes i, i < List.length sizes -> vend (bundle_part sizes i) <= total sizes.
Proof. exact Proofs.C16_Layout.bundle_parts_within. Qed.
Print Assumptions C16_bundle_parts_within.

Theorem C16_bundle_parts_cover :
  forall sizes k, k < total sizes ->
  exists i, i < List.length sizes /\ inview (bundle_part sizes i) k = true.
Proof. exact Proofs.C16_Layout.bundle_parts_cover. Qed.
Print Assumptions C16_bundle_parts_cover.

Theorem C16_doc_SEK3_cover :
  forall k i, i < doc_SEK3_repsize k ->
  exists j, j <= k /\ inview (nth j (doc_SEK3_parts k) (mkView 0 0)) i = true.
Proof. exact Proofs.C16_Layout.doc_SEK3_cover. Qed.
Print Assumptions C16_doc_SEK3_cover.

Theorem C16_doc_SEK3_disjoint :
  forall k a b, a < b -> b <= k ->
  disjoint (nth a (doc_SEK3_parts k) (mkView 0 0)) (nth b (doc_SEK3_parts k) (mkView 0 0)) = true.
Proof. exact Proofs.C16_Layout.doc_SEK3_disjoint. Qed.
Print Assumptions C16_doc_SEK3_disjoint.

Theorem C16_table_complete :
  List.length layout_table = 12 * List.length Proofs.C16_Tables.expected_groups
  /\ forallb (fun e => existsb (String.eqb (e_group e)) Proofs.C16_Tables.expected_groups) layout_table = true.
Proof. exact Proofs.C16_Tables.table_complete. Qed.
Print Assumptions C16_table_complete.

Theorem C16_layout_doc_SO2 :
  check_group layout_table "SO2" = true.
Proof. exact Proofs.C16_Tables.layout_doc_SO2. Qed.
Print Assumptions C16_layout_doc_SO2.

Theorem C16_layout_doc_C1 :
  check_group layout_table "C1" = true.
Proof. exact Proofs.C16_Tables.layout_doc_C1. Qed.
Print Assumptions C16_layout_doc_C1.

Theorem C16_layout_doc_SO3 :
  check_group layout_table "SO3" = true.
Proof. exact Proofs.C16_Tables.layout_doc_SO3. Qed.
Print Assumptions C16_layout_doc_SO3.

Theorem C16_layout_doc_SE2 :
  check_group layout_table "SE2" = true.
Proof. exact Proofs.C16_Tables.layout_doc_SE2. Qed.
Print Assumptions C16_layout_doc_SE2.

Theorem C16_layout_doc_SE3 :
  check_group layout_table "SE3" = true.
Proof. exact Proofs.C16_Tables.layout_doc_SE3. Qed.
Print Assumptions C16_layout_doc_SE3.

Theorem C16_layout_doc_Galilei :
  check_group layout_table "Galilei" = true.
Proof. exact Proofs.C16_Tables.layout_doc_Galilei. Qed.
Print Assumptions C16_layout_doc_Galilei.

Theorem C16_layout_doc_SEK3_1 :
  check_group layout_table "SEK3_1" = true.
Proof. exact Proofs.C16_Tables.layout_doc_SEK3_1. Qed.
Print Assumptions C16_layout_doc_SEK3_1.

Theorem C16_layout_doc_SEK3_2 :
  check_group layout_table "SEK3_2" = true.
Proof. exact Proofs.C16_Tables.layout_doc_SEK3_2. Qed.
Print Assumptions C16_layout_doc_SEK3_2.

Theorem C16_layout_doc_SEK3_3 :
  check_group layout_table "SEK3_3" = true.
Proof. exact Proofs.C16_Tables.layout_doc_SEK3_3. Qed.
Print Assumptions C16_layout_doc_SEK3_3.

Theorem C16_layout_doc_SEK3_5 :
  check_group layout_table "SEK3_5" = true.
Proof. exact Proofs.C16_Tables.layout_doc_SEK3_5. Qed.
Print Assumptions C16_layout_doc_SEK3_5.

Theorem C16_layout_bundle_SO3_E3_SE2 :
  check_group layout_table "B(SO3,E3,SE2)" = true.
Proof. exact Proofs.C16_Tables.layout_bundle_SO3_E3_SE2. Qed.
Print Assumptions C16_layout_bundle_SO3_E3_SE2.

Theorem C16_layout_bundle_SO2_E2 :
  check_group layout_table "B(SO2,E2)" = true.
Proof. exact Proofs.C16_Tables.layout_bundle_SO2_E2. Qed.
Print Assumptions C16_layout_bundle_SO2_E2.

Theorem C16_layout_bundle_nested2 :
  check_group layout_table "B(SE3,B(SO2,E2),Galilei)" = true.
Proof. exact Proofs.C16_Tables.layout_bundle_nested2. Qed.
Print Assumptions C16_layout_bundle_nested2.

Theorem C16_layout_bundle_mixed5 :
  check_group layout_table "B(E1,C1,SEK3_2,E4,SO2)" = true.
Proof. exact Proofs.C16_Tables.layout_bundle_mixed5. Qed.
Print Assumptions C16_layout_bundle_mixed5.

Theorem C16_layout_bundle_single :
  check_group layout_table "B(SE2)" = true.
Proof. exact Proofs.C16_Tables.layout_bundle_single. Qed.
Print Assumptions C16_layout_bundle_single.

Theorem C16_layout_bundle_SO3_E2 :
  check_group layout_table "B(SO3,E2)" = true.
Proof. exact Proofs.C16_Tables.layout_bundle_SO3_E2. Qed.
Print Assumptions C16_layout_bundle_SO3_E2.

Theorem C16_layout_bundle_nested_inner :
  check_group layout_table "B(B(SO3,E2),SE2)" = true.
Proof. exact Proofs.C16_Tables.layout_bundle_nested_inner. Qed.
Print Assumptions C16_layout_bundle_nested_inner.

Theorem C16_layout_bundle_nested3 :
  check_group layout_table "B(B(B(SO3,E2),SE2),E3)" = true.
Proof. exact Proofs.C16_Tables.layout_bundle_nested3. Qed.
Print Assumptions C16_layout_bundle_nested3.

Theorem C16_layout_bundle_vectors :
  check_group layout_table "B(E2,E3)" = true.
Proof. exact Proofs.C16_Tables.layout_bundle_vectors. Qed.
Print Assumptions C16_layout_bundle_vectors.

Theorem C16_all_groups_checked :
  forallb (check_group layout_table) Proofs.C16_Tables.expected_groups = true.
Proof. exact Proofs.C16_Tables.all_groups_checked. Qed.
Print Assumptions C16_all_groups_checked.

Theorem C16_caps_alphabet :
  forallb check_caps caps_table = true /\ List.length caps_table = 3 * 2 * List.length Proofs.C16_Tables.expected_groups.
Proof. exact Proofs.C16_Tables.caps_alphabet. Qed.
Print Assumptions C16_caps_alphabet.

Theorem C16_probes_alphabet :
  forallb check_probe probe_table = true
  /\ forallb (fun g => forallb (fun stmt => probe_present probe_table g "cmap" stmt &&
                                             (String.eqb stmt "read_api" || probe_present probe_table g "map" stmt))
                                ["setIdentity"; "setRandom"; "assign_same_storage"; "read_api"]) Proofs.C16_Tables.probe_groups = true.
Proof. exact Proofs.C16_Tables.probes_alphabet. Qed.
Print Assumptions C16_probes_alphabet.

Theorem C16_bases_ok :
  forallb (fun bn => check_base (fst bn) (snd bn)) base_table = true
  /\ List.length base_table = 2 * List.length Proofs.C16_Tables.expected_groups.
Proof. exact Proofs.C16_Tables.bases_ok. Qed.
Print Assumptions C16_bases_ok.

Theorem C16_accessors_partition :
  forall e, In e layout_table -> primary (e_rows e) <> [] ->
  let vs := map snd (arows (primary (e_rows e))) in
  (forall i, i < e_repsize e ->
     exists k, k < List.length vs /\ inview (nth k vs (mkView 0 0)) i = true
               /\ forall k', k' < List.length vs -> inview (nth k' vs (mkView 0 0)) i = true -> k' = k)
  /\ (forall v, In v vs -> vend v <= e_repsize e /\ 0 < vlen v).
Proof. exact Proofs.C16_Tables.accessors_partition. Qed.
Print Assumptions C16_accessors_partition.

Theorem C16_accessor_write_local :
  forall e r, In e layout_table -> In r (e_rows e) ->
  forall (m : mem) (obj : nat) (data : list cell),
    let o := mkView obj (e_repsize e) in
    (forall i, inview o i = false -> nth i (store m (subview o (g_view r)) data) 0%Z = nth i m 0%Z)
    /\ (forall i, inview (subview o (g_view r)) i = false -> nth i (store m (subview o (g_view r)) data) 0%Z = nth i m 0%Z)
    /\ (forall r', In r' (e_rows e) -> disjoint (g_view r) (g_view r') = true ->
          load (store m (subview o (g_view r)) data) (subview o (g_view r')) = load m (subview o (g_view r'))).
Proof. exact Proofs.C16_Tables.accessor_write_local. Qed.
Print Assumptions C16_accessor_write_local.
