(* Property C17: the property theorems and nothing else .  Each is closed by the lemma of the same
   name proved in Proofs/C17_<unit>.v against the generated model; Print Assumptions lists the axioms. *)
From Coq Require Import Reals List Lra.
From Coquelicot Require Import Coquelicot.
From SV Require Import Base.Trig Doc.Exp.
From SV Require Gen.SE3 Gen.SEK3_1 Gen.SEK3_2 Gen.Galilei.
From SV Require Import Base.GenPrelude Base.Mat Doc.Groups.
From SV Require Proofs.C17_SEK1.
From SV Require Proofs.C17_SEK2.
Import ListNotations.
Local Open Scope R_scope.

Theorem C17_sek1_identity_is_se3 :
  forall out,
  Gen.SEK3_1.sek1_identity_rel  out <-> Gen.SE3.se3_identity_rel  out.
Proof. exact Proofs.C17_SEK1.sek1_identity_is_se3. Qed.
Print Assumptions C17_sek1_identity_is_se3.

Theorem C17_sek1_matrix_is_se3 :
  forall g0 g1 g2 g3 g4 g5 g6 out,
  Gen.SEK3_1.sek1_matrix_rel [g0; g1; g2; g3; g4; g5; g6] out <-> Gen.SE3.se3_matrix_rel [g0; g1; g2; g3; g4; g5; g6] out.
Proof. exact Proofs.C17_SEK1.sek1_matrix_is_se3. Qed.
Print Assumptions C17_sek1_matrix_is_se3.

Theorem C17_sek1_comp_is_se3 :
  forall g0 g1 g2 g3 g4 g5 g6 h0 h1 h2 h3 h4 h5 h6 out,
  Gen.SEK3_1.sek1_comp_rel [g0; g1; g2; g3; g4; g5; g6] [h0; h1; h2; h3; h4; h5; h6] out <-> Gen.SE3.se3_comp_rel [g0; g1; g2; g3; g4; g5; g6] [h0; h1; h2; h3; h4; h5; h6] out.
Proof. exact Proofs.C17_SEK1.sek1_comp_is_se3. Qed.
Print Assumptions C17_sek1_comp_is_se3.

Theorem C17_sek1_inv_is_se3 :
  forall g0 g1 g2 g3 g4 g5 g6 out,
  Gen.SEK3_1.sek1_inv_rel [g0; g1; g2; g3; g4; g5; g6] out <-> Gen.SE3.se3_inv_rel [g0; g1; g2; g3; g4; g5; g6] out.
Proof. exact Proofs.C17_SEK1.sek1_inv_is_se3. Qed.
Print Assumptions C17_sek1_inv_is_se3.

Theorem C17_sek1_hat_is_se3 :
  forall a0 a1 a2 a3 a4 a5 out,
  Gen.SEK3_1.sek1_hat_rel [a0; a1; a2; a3; a4; a5] out <-> Gen.SE3.se3_hat_rel [a0; a1; a2; a3; a4; a5] out.
Proof. exact Proofs.C17_SEK1.sek1_hat_is_se3. Qed.
Print Assumptions C17_sek1_hat_is_se3.

Theorem C17_sek1_vee_is_se3 :
  forall m0 m1 m2 m3 m4 m5 m6 m7 m8 m9 m10 m11 m12 m13 m14 m15 out,
  Gen.SEK3_1.sek1_vee_rel [m0; m1; m2; m3; m4; m5; m6; m7; m8; m9; m10; m11; m12; m13; m14; m15] out <-> Gen.SE3.se3_vee_rel [m0; m1; m2; m3; m4; m5; m6; m7; m8; m9; m10; m11; m12; m13; m14; m15] out.
Proof. exact Proofs.C17_SEK1.sek1_vee_is_se3. Qed.
Print Assumptions C17_sek1_vee_is_se3.

Theorem C17_sek1_Ad_is_se3 :
  forall g0 g1 g2 g3 g4 g5 g6 out,
  Gen.SEK3_1.sek1_Ad_rel [g0; g1; g2; g3; g4; g5; g6] out <-> Gen.SE3.se3_Ad_rel [g0; g1; g2; g3; g4; g5; g6] out.
Proof. exact Proofs.C17_SEK1.sek1_Ad_is_se3. Qed.
Print Assumptions C17_sek1_Ad_is_se3.

Theorem C17_sek1_ad_is_se3 :
  forall a0 a1 a2 a3 a4 a5 out,
  Gen.SEK3_1.sek1_ad_rel [a0; a1; a2; a3; a4; a5] out <-> Gen.SE3.se3_ad_rel [a0; a1; a2; a3; a4; a5] out.
Proof. exact Proofs.C17_SEK1.sek1_ad_is_se3. Qed.
Print Assumptions C17_sek1_ad_is_se3.

Theorem C17_sek1_bracket_is_se3 :
  forall a0 a1 a2 a3 a4 a5 b0 b1 b2 b3 b4 b5 out,
  Gen.SEK3_1.sek1_bracket_rel [a0; a1; a2; a3; a4; a5] [b0; b1; b2; b3; b4; b5] out <-> Gen.SE3.se3_bracket_rel [a0; a1; a2; a3; a4; a5] [b0; b1; b2; b3; b4; b5] out.
Proof. exact Proofs.C17_SEK1.sek1_bracket_is_se3. Qed.
Print Assumptions C17_sek1_bracket_is_se3.

Theorem C17_sek1_exp_is_se3 :
  forall a0 a1 a2 a3 a4 a5 out,
  Gen.SEK3_1.sek1_exp_rel [a0; a1; a2; a3; a4; a5] out <-> Gen.SE3.se3_exp_rel [a0; a1; a2; a3; a4; a5] out.
Proof. exact Proofs.C17_SEK1.sek1_exp_is_se3. Qed.
Print Assumptions C17_sek1_exp_is_se3.

Theorem C17_sek1_log_is_se3 :
  forall g0 g1 g2 g3 g4 g5 g6 out,
  Gen.SEK3_1.sek1_log_rel [g0; g1; g2; g3; g4; g5; g6] out <-> Gen.SE3.se3_log_rel [g0; g1; g2; g3; g4; g5; g6] out.
Proof. exact Proofs.C17_SEK1.sek1_log_is_se3. Qed.
Print Assumptions C17_sek1_log_is_se3.

Theorem C17_sek1_dr_exp_is_se3 :
  forall a0 a1 a2 a3 a4 a5 out,
  Gen.SEK3_1.sek1_dr_exp_rel [a0; a1; a2; a3; a4; a5] out <-> Gen.SE3.se3_dr_exp_rel [a0; a1; a2; a3; a4; a5] out.
Proof. exact Proofs.C17_SEK1.sek1_dr_exp_is_se3. Qed.
Print Assumptions C17_sek1_dr_exp_is_se3.

Theorem C17_sek1_dr_expinv_is_se3 :
  forall a0 a1 a2 a3 a4 a5 out,
  Gen.SEK3_1.sek1_dr_expinv_rel [a0; a1; a2; a3; a4; a5] out <-> Gen.SE3.se3_dr_expinv_rel [a0; a1; a2; a3; a4; a5] out.
Proof. exact Proofs.C17_SEK1.sek1_dr_expinv_is_se3. Qed.
Print Assumptions C17_sek1_dr_expinv_is_se3.

Theorem C17_sek1_dl_exp_is_se3 :
  forall a0 a1 a2 a3 a4 a5 out,
  Gen.SEK3_1.sek1_dl_exp_rel [a0; a1; a2; a3; a4; a5] out <-> Gen.SE3.se3_dl_exp_rel [a0; a1; a2; a3; a4; a5] out.
Proof. exact Proofs.C17_SEK1.sek1_dl_exp_is_se3. Qed.
Print Assumptions C17_sek1_dl_exp_is_se3.

Theorem C17_sek1_dl_expinv_is_se3 :
  forall a0 a1 a2 a3 a4 a5 out,
  Gen.SEK3_1.sek1_dl_expinv_rel [a0; a1; a2; a3; a4; a5] out <-> Gen.SE3.se3_dl_expinv_rel [a0; a1; a2; a3; a4; a5] out.
Proof. exact Proofs.C17_SEK1.sek1_dl_expinv_is_se3. Qed.
Print Assumptions C17_sek1_dl_expinv_is_se3.

Theorem C17_sek2_comp_in_galilei :
  forall g0 g1 g2 g3 g4 g5 g6 g7 g8 g9 h0 h1 h2 h3 h4 h5 h6 h7 h8 h9 out,
  Gen.SEK3_2.sek2_comp_rel [g0; g1; g2; g3; g4; g5; g6; g7; g8; g9] [h0; h1; h2; h3; h4; h5; h6; h7; h8; h9] out ->
  Gen.Galilei.gal_comp_rel [g0; g1; g2; g3; g4; g5; 0; g6; g7; g8; g9] [h0; h1; h2; h3; h4; h5; 0; h6; h7; h8; h9] (firstn 6 out ++ [0] ++ skipn 6 out).
Proof. exact Proofs.C17_SEK2.sek2_comp_in_galilei. Qed.
Print Assumptions C17_sek2_comp_in_galilei.

Theorem C17_sek2_inv_in_galilei :
  forall g0 g1 g2 g3 g4 g5 g6 g7 g8 g9 out,
  Gen.SEK3_2.sek2_inv_rel [g0; g1; g2; g3; g4; g5; g6; g7; g8; g9] out ->
  Gen.Galilei.gal_inv_rel [g0; g1; g2; g3; g4; g5; 0; g6; g7; g8; g9] (firstn 6 out ++ [0] ++ skipn 6 out).
Proof. exact Proofs.C17_SEK2.sek2_inv_in_galilei. Qed.
Print Assumptions C17_sek2_inv_in_galilei.

Theorem C17_sek2_exp_in_galilei_closed :
  forall a0 a1 a2 a3 a4 a5 a6 a7 a8 x y,
  eps2 < a6*a6 + a7*a7 + a8*a8 ->
  Gen.SEK3_2.sek2_exp_rel [a0; a1; a2; a3; a4; a5; a6; a7; a8] x -> Gen.Galilei.gal_exp_rel [a0; a1; a2; a3; a4; a5; 0; a6; a7; a8] y ->
  gal_mat y = sek_mat 2 x.
Proof. exact Proofs.C17_SEK2.sek2_exp_in_galilei_closed. Qed.
Print Assumptions C17_sek2_exp_in_galilei_closed.

Theorem C17_sek2_identity_in_galilei :
  forall out, Gen.SEK3_2.sek2_identity_rel out -> Gen.Galilei.gal_identity_rel (firstn 6 out ++ [0] ++ skipn 6 out).
Proof. exact Proofs.C17_SEK2.sek2_identity_in_galilei. Qed.
Print Assumptions C17_sek2_identity_in_galilei.

Theorem C17_sek2_mat_embedding :
  forall g0 g1 g2 g3 g4 g5 g6 g7 g8 g9, gal_mat [g0; g1; g2; g3; g4; g5; 0; g6; g7; g8; g9] = sek_mat 2 [g0; g1; g2; g3; g4; g5; g6; g7; g8; g9] /\ (gal_valid [g0; g1; g2; g3; g4; g5; 0; g6; g7; g8; g9] <-> sek_valid 2 [g0; g1; g2; g3; g4; g5; g6; g7; g8; g9]).
Proof. exact Proofs.C17_SEK2.sek2_mat_embedding. Qed.
Print Assumptions C17_sek2_mat_embedding.

Theorem C17_sek2_Ad_in_galilei :
  forall g0 g1 g2 g3 g4 g5 g6 g7 g8 g9 b0 b1 b2 b3 b4 b5 b6 b7 b8 A,
  Gen.SEK3_2.sek2_Ad_rel [g0; g1; g2; g3; g4; g5; g6; g7; g8; g9] A ->
  exists A', Gen.Galilei.gal_Ad_rel [g0; g1; g2; g3; g4; g5; 0; g6; g7; g8; g9] A' /\
    mvec A' [b0; b1; b2; b3; b4; b5; 0; b6; b7; b8] = (fun o => firstn 6 o ++ [0] ++ skipn 6 o) (mvec A [b0; b1; b2; b3; b4; b5; b6; b7; b8]).
Proof. exact Proofs.C17_SEK2.sek2_Ad_in_galilei. Qed.
Print Assumptions C17_sek2_Ad_in_galilei.

Theorem C17_sek2_ad_in_galilei :
  forall a0 a1 a2 a3 a4 a5 a6 a7 a8 b0 b1 b2 b3 b4 b5 b6 b7 b8 A,
  Gen.SEK3_2.sek2_ad_rel [a0; a1; a2; a3; a4; a5; a6; a7; a8] A ->
  exists A', Gen.Galilei.gal_ad_rel [a0; a1; a2; a3; a4; a5; 0; a6; a7; a8] A' /\
    mvec A' [b0; b1; b2; b3; b4; b5; 0; b6; b7; b8] = (fun o => firstn 6 o ++ [0] ++ skipn 6 o) (mvec A [b0; b1; b2; b3; b4; b5; b6; b7; b8]).
Proof. exact Proofs.C17_SEK2.sek2_ad_in_galilei. Qed.
Print Assumptions C17_sek2_ad_in_galilei.

Theorem C17_sek2_dr_exp_in_galilei :
  forall a0 a1 a2 a3 a4 a5 a6 a7 a8 b0 b1 b2 b3 b4 b5 b6 b7 b8 A,
  Gen.SEK3_2.sek2_dr_exp_rel [a0; a1; a2; a3; a4; a5; a6; a7; a8] A ->
  exists A', Gen.Galilei.gal_dr_exp_rel [a0; a1; a2; a3; a4; a5; 0; a6; a7; a8] A' /\
    mvec A' [b0; b1; b2; b3; b4; b5; 0; b6; b7; b8] = (fun o => firstn 6 o ++ [0] ++ skipn 6 o) (mvec A [b0; b1; b2; b3; b4; b5; b6; b7; b8]).
Proof. exact Proofs.C17_SEK2.sek2_dr_exp_in_galilei. Qed.
Print Assumptions C17_sek2_dr_exp_in_galilei.

