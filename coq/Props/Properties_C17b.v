(* Property C17 (angles, lifts/projections, C1 factorisation, axis rotations, quaternion constructor):
   property theorems only. *)
From Coq Require Import Reals List Lra.
From SV Require Import Base.GenPrelude Base.Mat Base.Atan2 Doc.Groups.
From SV Require Gen.Conv.
From SV Require Proofs.C17_Angles Proofs.C17_Lifts.
Import ListNotations.
Local Open Scope R_scope.

Theorem C17_so2_angle_range : forall g0 g1 out,
  so2_valid [g0; g1] -> Gen.Conv.so2_angle_rel [g0; g1] out ->
  exists a, out = [a] /\ - PI < a <= PI /\ sin a = g0 /\ cos a = g1.
Proof. exact Proofs.C17_Angles.so2_angle_range. Qed.
Print Assumptions C17_so2_angle_range.

Theorem C17_so2_angle_cw_range : forall g0 g1 out,
  so2_valid [g0; g1] -> Gen.Conv.so2_angle_cw_rel [g0; g1] out ->
  exists a, out = [a] /\ - (2 * PI) <= a <= 0 /\ Proofs.C17_Angles.cong2pi a (atan2 g0 g1).
Proof. exact Proofs.C17_Angles.so2_angle_cw_range. Qed.
Print Assumptions C17_so2_angle_cw_range.

Theorem C17_so2_angle_ccw_range : forall g0 g1 out,
  so2_valid [g0; g1] -> Gen.Conv.so2_angle_ccw_rel [g0; g1] out ->
  exists a, out = [a] /\ 0 <= a <= 2 * PI /\ Proofs.C17_Angles.cong2pi a (atan2 g0 g1).
Proof. exact Proofs.C17_Angles.so2_angle_ccw_range. Qed.
Print Assumptions C17_so2_angle_ccw_range.

Theorem C17_so2_lift_so3_mat : forall g0 g1 out,
  so2_valid [g0; g1] -> Gen.Conv.so2_lift_so3_rel [g0; g1] out ->
  so3_valid out /\ 0 <= nth 3 out 0 /\ so3_mat out = Proofs.C17_Lifts.embed_so2_so3 [g0; g1].
Proof. exact Proofs.C17_Lifts.so2_lift_so3_mat. Qed.
Print Assumptions C17_so2_lift_so3_mat.

Theorem C17_so3_project_lift : forall g0 g1 q out,
  so2_valid [g0; g1] -> Gen.Conv.so2_lift_so3_rel [g0; g1] q -> Gen.Conv.so3_project_so2_rel q out -> out = [g0; g1].
Proof. exact Proofs.C17_Lifts.so3_project_lift. Qed.
Print Assumptions C17_so3_project_lift.

Theorem C17_c1_factorisation : forall g0 g1 k r,
  c1_valid [g0; g1] -> Gen.Conv.c1_scaling_rel [g0; g1] k -> Gen.Conv.c1_so2_rel [g0; g1] r ->
  exists kk, k = [kk] /\ 0 < kk /\ so2_valid r /\ c1_mat [g0; g1] = mscale kk (so2_mat r).
Proof. exact Proofs.C17_Lifts.c1_factorisation. Qed.
Print Assumptions C17_c1_factorisation.

Theorem C17_so3_rot_x_mat : forall t out, Gen.Conv.so3_rot_x_rel [t] out ->
  so3_valid out /\ 0 <= nth 3 out 0 /\ so3_mat out = Proofs.C17_Lifts.rot_axis_mat 0 t.
Proof. exact Proofs.C17_Lifts.so3_rot_x_mat. Qed.
Theorem C17_so3_rot_y_mat : forall t out, Gen.Conv.so3_rot_y_rel [t] out ->
  so3_valid out /\ 0 <= nth 3 out 0 /\ so3_mat out = Proofs.C17_Lifts.rot_axis_mat 1 t.
Proof. exact Proofs.C17_Lifts.so3_rot_y_mat. Qed.
Theorem C17_so3_rot_z_mat : forall t out, Gen.Conv.so3_rot_z_rel [t] out ->
  so3_valid out /\ 0 <= nth 3 out 0 /\ so3_mat out = Proofs.C17_Lifts.rot_axis_mat 2 t.
Proof. exact Proofs.C17_Lifts.so3_rot_z_mat. Qed.
Print Assumptions C17_so3_rot_z_mat.

Theorem C17_so3_from_quat_spec : forall q0 q1 q2 q3 out,
  0 < q0*q0 + q1*q1 + q2*q2 + q3*q3 -> Gen.Conv.so3_from_quat_rel [q0; q1; q2; q3] out ->
  so3_valid out /\ 0 <= nth 3 out 0 /\ exists k, k <> 0 /\ out = [k * q0; k * q1; k * q2; k * q3].
Proof. exact Proofs.C17_Lifts.so3_from_quat_spec. Qed.
Print Assumptions C17_so3_from_quat_spec.
