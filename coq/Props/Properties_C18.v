(* C18 - non-mutating operations are safe to run concurrently: property theorems.
   Statements only; proofs are in Proofs/C18_*.v. *)
From Coq Require Import List Arith ZArith Bool String.
Import ListNotations.
From SV Require Import Model.C18_Interleave Model.C18_Footprint Model.C18_SubManifold.
From SV Require Import Proofs.C18_Interleave Proofs.C18_ConstOps Proofs.C18_Table.
From SV Require Import Gen.FootprintC18.

(* Every schedule (any merge) of any number of threads with pairwise disjoint write/access footprints:
   each thread loads exactly what it loads when run alone; final store = union of the private effects. *)
Theorem C18_disjoint_footprints_sequential :
  forall (ths : list thread) (s0 : store) (sched : list tid),
    disjoint_footprints ths ->
    is_merge sched ths ->
    (forall t, t < List.length ths ->
       nth_error (snd (run sched (init ths s0))) t = Some ([], snd (solo (nth t ths []) s0 []))) /\
    (forall t l, In l (footprint (nth t ths [])) ->
       final_store sched ths s0 l = fst (solo (nth t ths []) s0 []) l) /\
    (forall l, (forall t, ~ In l (writes (nth t ths []))) -> final_store sched ths s0 l = s0 l).
Proof. exact disjoint_footprints_sequential. Qed.
Print Assumptions C18_disjoint_footprints_sequential.

Theorem C18_final_store_is_union_of_private_effects :
  forall ths s0 sched, disjoint_footprints ths -> is_merge sched ths ->
    forall l, final_store sched ths s0 l = union_effects ths s0 l.
Proof. exact final_store_is_union_of_private_effects. Qed.
Print Assumptions C18_final_store_is_union_of_private_effects.

(* the premise is exactly "no data race" *)
Theorem C18_disjoint_footprints_iff_race_free :
  forall ths, disjoint_footprints ths <-> race_free ths.
Proof. exact disjoint_footprints_iff_race_free. Qed.
Print Assumptions C18_disjoint_footprints_iff_race_free.

(* an alphabet whose footprint table has no store into shared state is race free and schedule deterministic *)
Theorem C18_const_ops_race_free :
  forall (op : Type) (compile : op -> tid -> thread) (writes_shared : op -> bool),
    (forall o t a, In a (compile o t) -> action_own_private t a = true) ->
    (forall o t a, writes_shared o = false -> In a (compile o t) -> action_const_for t a = true) ->
    forall progs : list (list op),
      (forall i o, In o (nth i progs []) -> writes_shared o = false) ->
      let ths := threads_of compile progs in
      race_free ths /\
      forall (s0 : store) (sched : list tid), is_merge sched ths ->
        (forall t, t < List.length progs -> final_trace sched ths s0 t = snd (solo (nth t ths []) s0 [])) /\
        (forall t l, In l (footprint (nth t ths [])) ->
           final_store sched ths s0 l = fst (solo (nth t ths []) s0 []) l) /\
        (forall l, final_store sched ths s0 l = union_effects ths s0 l).
Proof. exact const_ops_race_free. Qed.
Print Assumptions C18_const_ops_race_free.

(* the table measured on the current headers: complete alphabet; no shared store except the known finding *)
Theorem C18_measured_table_obligations :
  table_alphabet_complete fp_table = true /\ table_const_except_known fp_table = true.
Proof. exact (conj fp_table_alphabet_complete fp_table_const_except_known). Qed.
Print Assumptions C18_measured_table_obligations.

Theorem C18_measured_alphabet_race_free :
  forall progs : list (list fp_entry),
    (forall i e, In e (nth i progs []) -> In e fp_table /\ known_mcalc e = false) ->
    let ths := threads_of compile_entry progs in
    race_free ths /\
    forall (s0 : store) (sched : list tid), is_merge sched ths ->
      (forall t, t < List.length progs -> final_trace sched ths s0 t = snd (solo (nth t ths []) s0 [])) /\
      (forall t l, In l (footprint (nth t ths [])) ->
         final_store sched ths s0 l = fst (solo (nth t ths []) s0 []) l) /\
      (forall l, final_store sched ths s0 l = union_effects ths s0 l).
Proof. exact measured_alphabet_race_free. Qed.
Print Assumptions C18_measured_alphabet_race_free.

(* the code as it is in the unchanged tree (scratch = mutable member m_calc): the property is FALSE *)
Theorem C18_submanifold_ops_race_refuted :
  is_merge race_sched (race_threads true) /\
  fst (solo (nth 0 (race_threads true) []) race_store []) (p_res 0 0) = 105%Z /\
  final_store race_sched (race_threads true) race_store (p_res 0 0) = 107%Z /\
  In 7%Z (final_trace race_sched (race_threads true) race_store 0) /\
  ~ In 7%Z (snd (solo (nth 0 (race_threads true) []) race_store [])) /\
  ~ race_free (race_threads true).
Proof. exact submanifold_ops_race_refuted. Qed.
Print Assumptions C18_submanifold_ops_race_refuted.

(* the repaired code (scratch = local of the call): the property holds for SubManifold's const operations *)
Theorem C18_submanifold_local_scratch_race_free :
  forall (n : nat) (fixed : list nat) (progs : list (list subop)),
    let ths := threads_of (compile_sub false n fixed) progs in
    race_free ths /\
    forall (s0 : store) (sched : list tid), is_merge sched ths ->
      (forall t, t < List.length progs -> final_trace sched ths s0 t = snd (solo (nth t ths []) s0 [])) /\
      (forall t l, In l (footprint (nth t ths [])) ->
         final_store sched ths s0 l = fst (solo (nth t ths []) s0 []) l) /\
      (forall l, final_store sched ths s0 l = union_effects ths s0 l).
Proof. exact submanifold_local_scratch_race_free. Qed.
Print Assumptions C18_submanifold_local_scratch_race_free.

(* which of the two describes /repo now is selected by the measured table *)
Theorem C18_submanifold_current_tree :
  (mcalc_member_now = false ->
     (forall e, In e fp_table -> fp_writes_shared e = false) /\
     forall (n : nat) (fixed : list nat) (progs : list (list subop)),
       let ths := threads_of (compile_sub mcalc_member_now n fixed) progs in
       race_free ths /\
       forall (s0 : store) (sched : list tid), is_merge sched ths ->
         (forall t, t < List.length progs -> final_trace sched ths s0 t = snd (solo (nth t ths []) s0 [])) /\
         (forall l, final_store sched ths s0 l = union_effects ths s0 l)) /\
  (mcalc_member_now = true ->
     exists (ths : list thread) (s0 : store) (sched : list tid) (t : tid) (l : loc),
       ths = threads_of (compile_sub mcalc_member_now 1 []) [[SubRplus]; [SubRplus]] /\
       is_merge sched ths /\ In l (footprint (nth t ths [])) /\
       final_store sched ths s0 l <> fst (solo (nth t ths []) s0 []) l).
Proof. exact submanifold_current_tree. Qed.
Print Assumptions C18_submanifold_current_tree.
