(* Property C19: the property theorems and nothing else .  Each is closed by the lemma of the same
   name proved in Proofs/C19_<unit>.v against the generated model; Print Assumptions lists the axioms. *)
From Coq Require Import Reals List Lra.
From SV Require Import Base.GenPrelude Base.Mat Doc.Groups.
From SV Require Import Model.C19_Sparse.
From SV Require Gen.PatternsC19.
From SV Require Gen.SO2.
From SV Require Gen.SO3.
From SV Require Gen.SE2.
From SV Require Gen.SE3.
From SV Require Gen.SE3H.
From SV Require Gen.C1.
From SV Require Gen.Galilei.
From SV Require Gen.BA.
From SV Require Gen.BB.
From SV Require Gen.BC.
From SV Require Gen.BD.
From SV Require Gen.BEi.
From SV Require Gen.BE.
From SV Require Gen.BF.
From SV Require Proofs.C19_so2.
From SV Require Proofs.C19_so3.
From SV Require Proofs.C19_se2.
From SV Require Proofs.C19_se3.
From SV Require Proofs.C19_c1.
From SV Require Proofs.C19_gal.
From SV Require Proofs.C19_ba.
From SV Require Proofs.C19_bb.
From SV Require Proofs.C19_bc.
From SV Require Proofs.C19_bd.
From SV Require Proofs.C19_bei.
Import ListNotations.
Local Open Scope R_scope.

Theorem C19_so2_ad_pattern_complete :
  forall a0 out, Gen.SO2.so2_ad_rel [a0] out ->
  all_zero (off_entries Gen.PatternsC19.so2_ad_pattern 1 1 out).
Proof. exact Proofs.C19_so2.so2_ad_pattern_complete. Qed.
Print Assumptions C19_so2_ad_pattern_complete.

Theorem C19_so2_dr_exp_pattern_complete :
  forall a0 out, Gen.SO2.so2_dr_exp_rel [a0] out ->
  all_zero (off_entries Gen.PatternsC19.so2_d_exp_pattern 1 1 out).
Proof. exact Proofs.C19_so2.so2_dr_exp_pattern_complete. Qed.
Print Assumptions C19_so2_dr_exp_pattern_complete.

Theorem C19_so2_dr_expinv_pattern_complete :
  forall a0 out, Gen.SO2.so2_dr_expinv_rel [a0] out ->
  all_zero (off_entries Gen.PatternsC19.so2_d_exp_pattern 1 1 out).
Proof. exact Proofs.C19_so2.so2_dr_expinv_pattern_complete. Qed.
Print Assumptions C19_so2_dr_expinv_pattern_complete.

Theorem C19_so2_d2r_exp_pattern_complete :
  forall a0 out, Gen.SO2.so2_d2r_exp_rel [a0] out ->
  all_zero (off_entries Gen.PatternsC19.so2_d2_exp_pattern 1 1 out).
Proof. exact Proofs.C19_so2.so2_d2r_exp_pattern_complete. Qed.
Print Assumptions C19_so2_d2r_exp_pattern_complete.

Theorem C19_so2_d2r_expinv_pattern_complete :
  forall a0 out, Gen.SO2.so2_d2r_expinv_rel [a0] out ->
  all_zero (off_entries Gen.PatternsC19.so2_d2_exp_pattern 1 1 out).
Proof. exact Proofs.C19_so2.so2_d2r_expinv_pattern_complete. Qed.
Print Assumptions C19_so2_d2r_expinv_pattern_complete.

Theorem C19_so3_ad_pattern_complete :
  forall a0 a1 a2 out, Gen.SO3.so3_ad_rel [a0; a1; a2] out ->
  all_zero (off_entries Gen.PatternsC19.so3_ad_pattern 3 3 out).
Proof. exact Proofs.C19_so3.so3_ad_pattern_complete. Qed.
Print Assumptions C19_so3_ad_pattern_complete.

Theorem C19_so3_dr_exp_pattern_complete :
  forall a0 a1 a2 out, Gen.SO3.so3_dr_exp_rel [a0; a1; a2] out ->
  all_zero (off_entries Gen.PatternsC19.so3_d_exp_pattern 3 3 out).
Proof. exact Proofs.C19_so3.so3_dr_exp_pattern_complete. Qed.
Print Assumptions C19_so3_dr_exp_pattern_complete.

Theorem C19_so3_dr_expinv_pattern_complete :
  forall a0 a1 a2 out, Gen.SO3.so3_dr_expinv_rel [a0; a1; a2] out ->
  all_zero (off_entries Gen.PatternsC19.so3_d_exp_pattern 3 3 out).
Proof. exact Proofs.C19_so3.so3_dr_expinv_pattern_complete. Qed.
Print Assumptions C19_so3_dr_expinv_pattern_complete.

Theorem C19_so3_d2r_exp_pattern_complete :
  forall a0 a1 a2 out, Gen.SO3.so3_d2r_exp_rel [a0; a1; a2] out ->
  all_zero (off_entries Gen.PatternsC19.so3_d2_exp_pattern 3 9 out).
Proof. exact Proofs.C19_so3.so3_d2r_exp_pattern_complete. Qed.
Print Assumptions C19_so3_d2r_exp_pattern_complete.

Theorem C19_so3_d2r_expinv_pattern_complete :
  forall a0 a1 a2 out, Gen.SO3.so3_d2r_expinv_rel [a0; a1; a2] out ->
  all_zero (off_entries Gen.PatternsC19.so3_d2_exp_pattern 3 9 out).
Proof. exact Proofs.C19_so3.so3_d2r_expinv_pattern_complete. Qed.
Print Assumptions C19_so3_d2r_expinv_pattern_complete.

Theorem C19_se2_ad_pattern_complete :
  forall a0 a1 a2 out, Gen.SE2.se2_ad_rel [a0; a1; a2] out ->
  all_zero (off_entries Gen.PatternsC19.se2_ad_pattern 3 3 out).
Proof. exact Proofs.C19_se2.se2_ad_pattern_complete. Qed.
Print Assumptions C19_se2_ad_pattern_complete.

Theorem C19_se2_dr_exp_pattern_complete :
  forall a0 a1 a2 out, Gen.SE2.se2_dr_exp_rel [a0; a1; a2] out ->
  all_zero (off_entries Gen.PatternsC19.se2_d_exp_pattern 3 3 out).
Proof. exact Proofs.C19_se2.se2_dr_exp_pattern_complete. Qed.
Print Assumptions C19_se2_dr_exp_pattern_complete.

Theorem C19_se2_dr_expinv_pattern_complete :
  forall a0 a1 a2 out, Gen.SE2.se2_dr_expinv_rel [a0; a1; a2] out ->
  all_zero (off_entries Gen.PatternsC19.se2_d_exp_pattern 3 3 out).
Proof. exact Proofs.C19_se2.se2_dr_expinv_pattern_complete. Qed.
Print Assumptions C19_se2_dr_expinv_pattern_complete.

Theorem C19_se2_d2r_exp_pattern_complete :
  forall a0 a1 a2 out, Gen.SE2.se2_d2r_exp_rel [a0; a1; a2] out ->
  all_zero (off_entries Gen.PatternsC19.se2_d2_exp_pattern 3 9 out).
Proof. exact Proofs.C19_se2.se2_d2r_exp_pattern_complete. Qed.
Print Assumptions C19_se2_d2r_exp_pattern_complete.

Theorem C19_se2_d2r_expinv_pattern_complete :
  forall a0 a1 a2 out, Gen.SE2.se2_d2r_expinv_rel [a0; a1; a2] out ->
  all_zero (off_entries Gen.PatternsC19.se2_d2_exp_pattern 3 9 out).
Proof. exact Proofs.C19_se2.se2_d2r_expinv_pattern_complete. Qed.
Print Assumptions C19_se2_d2r_expinv_pattern_complete.

Theorem C19_se3_ad_pattern_complete :
  forall a0 a1 a2 a3 a4 a5 out, Gen.SE3.se3_ad_rel [a0; a1; a2; a3; a4; a5] out ->
  all_zero (off_entries Gen.PatternsC19.se3_ad_pattern 6 6 out).
Proof. exact Proofs.C19_se3.se3_ad_pattern_complete. Qed.
Print Assumptions C19_se3_ad_pattern_complete.

Theorem C19_se3_dr_exp_pattern_complete :
  forall a0 a1 a2 a3 a4 a5 out, Gen.SE3.se3_dr_exp_rel [a0; a1; a2; a3; a4; a5] out ->
  all_zero (off_entries Gen.PatternsC19.se3_d_exp_pattern 6 6 out).
Proof. exact Proofs.C19_se3.se3_dr_exp_pattern_complete. Qed.
Print Assumptions C19_se3_dr_exp_pattern_complete.

Theorem C19_se3_dr_expinv_pattern_complete :
  forall a0 a1 a2 a3 a4 a5 out, Gen.SE3.se3_dr_expinv_rel [a0; a1; a2; a3; a4; a5] out ->
  all_zero (off_entries Gen.PatternsC19.se3_d_exp_pattern 6 6 out).
Proof. exact Proofs.C19_se3.se3_dr_expinv_pattern_complete. Qed.
Print Assumptions C19_se3_dr_expinv_pattern_complete.

Theorem C19_se3_d2r_exp_pattern_complete :
  forall a0 a1 a2 a3 a4 a5 out, Gen.SE3H.se3_d2r_exp_rel [a0; a1; a2; a3; a4; a5] out ->
  all_zero (off_entries Gen.PatternsC19.se3_d2_exp_pattern 6 36 out).
Proof. exact Proofs.C19_se3.se3_d2r_exp_pattern_complete. Qed.
Print Assumptions C19_se3_d2r_exp_pattern_complete.

Theorem C19_se3_d2r_expinv_pattern_complete :
  forall a0 a1 a2 a3 a4 a5 out, Gen.SE3H.se3_d2r_expinv_rel [a0; a1; a2; a3; a4; a5] out ->
  all_zero (off_entries Gen.PatternsC19.se3_d2_exp_pattern 6 36 out).
Proof. exact Proofs.C19_se3.se3_d2r_expinv_pattern_complete. Qed.
Print Assumptions C19_se3_d2r_expinv_pattern_complete.

Theorem C19_c1_ad_pattern_complete :
  forall a0 a1 out, Gen.C1.c1_ad_rel [a0; a1] out ->
  all_zero (off_entries Gen.PatternsC19.c1_ad_pattern 2 2 out).
Proof. exact Proofs.C19_c1.c1_ad_pattern_complete. Qed.
Print Assumptions C19_c1_ad_pattern_complete.

Theorem C19_c1_dr_exp_pattern_complete :
  forall a0 a1 out, Gen.C1.c1_dr_exp_rel [a0; a1] out ->
  all_zero (off_entries Gen.PatternsC19.c1_d_exp_pattern 2 2 out).
Proof. exact Proofs.C19_c1.c1_dr_exp_pattern_complete. Qed.
Print Assumptions C19_c1_dr_exp_pattern_complete.

Theorem C19_c1_dr_expinv_pattern_complete :
  forall a0 a1 out, Gen.C1.c1_dr_expinv_rel [a0; a1] out ->
  all_zero (off_entries Gen.PatternsC19.c1_d_exp_pattern 2 2 out).
Proof. exact Proofs.C19_c1.c1_dr_expinv_pattern_complete. Qed.
Print Assumptions C19_c1_dr_expinv_pattern_complete.

Theorem C19_c1_d2r_exp_pattern_complete :
  forall a0 a1 out, Gen.C1.c1_d2r_exp_rel [a0; a1] out ->
  all_zero (off_entries Gen.PatternsC19.c1_d2_exp_pattern 2 4 out).
Proof. exact Proofs.C19_c1.c1_d2r_exp_pattern_complete. Qed.
Print Assumptions C19_c1_d2r_exp_pattern_complete.

Theorem C19_c1_d2r_expinv_pattern_complete :
  forall a0 a1 out, Gen.C1.c1_d2r_expinv_rel [a0; a1] out ->
  all_zero (off_entries Gen.PatternsC19.c1_d2_exp_pattern 2 4 out).
Proof. exact Proofs.C19_c1.c1_d2r_expinv_pattern_complete. Qed.
Print Assumptions C19_c1_d2r_expinv_pattern_complete.

Theorem C19_gal_ad_pattern_complete :
  forall a0 a1 a2 a3 a4 a5 a6 a7 a8 a9 out, Gen.Galilei.gal_ad_rel [a0; a1; a2; a3; a4; a5; a6; a7; a8; a9] out ->
  all_zero (off_entries Gen.PatternsC19.gal_ad_pattern 10 10 out).
Proof. exact Proofs.C19_gal.gal_ad_pattern_complete. Qed.
Print Assumptions C19_gal_ad_pattern_complete.

Theorem C19_gal_dr_exp_pattern_complete :
  forall a0 a1 a2 a3 a4 a5 a6 a7 a8 a9 out, Gen.Galilei.gal_dr_exp_rel [a0; a1; a2; a3; a4; a5; a6; a7; a8; a9] out ->
  all_zero (off_entries Gen.PatternsC19.gal_d_exp_pattern 10 10 out).
Proof. exact Proofs.C19_gal.gal_dr_exp_pattern_complete. Qed.
Print Assumptions C19_gal_dr_exp_pattern_complete.

Theorem C19_gal_dr_expinv_pattern_complete :
  forall a0 a1 a2 a3 a4 a5 a6 a7 a8 a9 out, Gen.Galilei.gal_dr_expinv_rel [a0; a1; a2; a3; a4; a5; a6; a7; a8; a9] out ->
  all_zero (off_entries Gen.PatternsC19.gal_d_exp_pattern 10 10 out).
Proof. exact Proofs.C19_gal.gal_dr_expinv_pattern_complete. Qed.
Print Assumptions C19_gal_dr_expinv_pattern_complete.

Theorem C19_ba_ad_pattern_complete :
  forall a0 a1 a2 a3 a4 a5 out, Gen.BA.ba_ad_rel [a0; a1; a2; a3; a4; a5] out ->
  all_zero (off_entries Gen.PatternsC19.ba_ad_pattern 6 6 out).
Proof. exact Proofs.C19_ba.ba_ad_pattern_complete. Qed.
Print Assumptions C19_ba_ad_pattern_complete.

Theorem C19_ba_dr_exp_pattern_complete :
  forall a0 a1 a2 a3 a4 a5 out, Gen.BA.ba_dr_exp_rel [a0; a1; a2; a3; a4; a5] out ->
  all_zero (off_entries Gen.PatternsC19.ba_d_exp_pattern 6 6 out).
Proof. exact Proofs.C19_ba.ba_dr_exp_pattern_complete. Qed.
Print Assumptions C19_ba_dr_exp_pattern_complete.

Theorem C19_ba_dr_expinv_pattern_complete :
  forall a0 a1 a2 a3 a4 a5 out, Gen.BA.ba_dr_expinv_rel [a0; a1; a2; a3; a4; a5] out ->
  all_zero (off_entries Gen.PatternsC19.ba_d_exp_pattern 6 6 out).
Proof. exact Proofs.C19_ba.ba_dr_expinv_pattern_complete. Qed.
Print Assumptions C19_ba_dr_expinv_pattern_complete.

Theorem C19_ba_d2r_exp_pattern_complete :
  forall a0 a1 a2 a3 a4 a5 out, Gen.BA.ba_d2r_exp_rel [a0; a1; a2; a3; a4; a5] out ->
  all_zero (off_entries Gen.PatternsC19.ba_d2_exp_pattern 6 36 out).
Proof. exact Proofs.C19_ba.ba_d2r_exp_pattern_complete. Qed.
Print Assumptions C19_ba_d2r_exp_pattern_complete.

Theorem C19_ba_d2r_expinv_pattern_complete :
  forall a0 a1 a2 a3 a4 a5 out, Gen.BA.ba_d2r_expinv_rel [a0; a1; a2; a3; a4; a5] out ->
  all_zero (off_entries Gen.PatternsC19.ba_d2_exp_pattern 6 36 out).
Proof. exact Proofs.C19_ba.ba_d2r_expinv_pattern_complete. Qed.
Print Assumptions C19_ba_d2r_expinv_pattern_complete.

Theorem C19_bb_ad_pattern_complete :
  forall a0 a1 a2 a3 a4 out, Gen.BB.bb_ad_rel [a0; a1; a2; a3; a4] out ->
  all_zero (off_entries Gen.PatternsC19.bb_ad_pattern 5 5 out).
Proof. exact Proofs.C19_bb.bb_ad_pattern_complete. Qed.
Print Assumptions C19_bb_ad_pattern_complete.

Theorem C19_bb_dr_exp_pattern_complete :
  forall a0 a1 a2 a3 a4 out, Gen.BB.bb_dr_exp_rel [a0; a1; a2; a3; a4] out ->
  all_zero (off_entries Gen.PatternsC19.bb_d_exp_pattern 5 5 out).
Proof. exact Proofs.C19_bb.bb_dr_exp_pattern_complete. Qed.
Print Assumptions C19_bb_dr_exp_pattern_complete.

Theorem C19_bb_dr_expinv_pattern_complete :
  forall a0 a1 a2 a3 a4 out, Gen.BB.bb_dr_expinv_rel [a0; a1; a2; a3; a4] out ->
  all_zero (off_entries Gen.PatternsC19.bb_d_exp_pattern 5 5 out).
Proof. exact Proofs.C19_bb.bb_dr_expinv_pattern_complete. Qed.
Print Assumptions C19_bb_dr_expinv_pattern_complete.

Theorem C19_bb_d2r_exp_pattern_complete :
  forall a0 a1 a2 a3 a4 out, Gen.BB.bb_d2r_exp_rel [a0; a1; a2; a3; a4] out ->
  all_zero (off_entries Gen.PatternsC19.bb_d2_exp_pattern 5 25 out).
Proof. exact Proofs.C19_bb.bb_d2r_exp_pattern_complete. Qed.
Print Assumptions C19_bb_d2r_exp_pattern_complete.

Theorem C19_bb_d2r_expinv_pattern_complete :
  forall a0 a1 a2 a3 a4 out, Gen.BB.bb_d2r_expinv_rel [a0; a1; a2; a3; a4] out ->
  all_zero (off_entries Gen.PatternsC19.bb_d2_exp_pattern 5 25 out).
Proof. exact Proofs.C19_bb.bb_d2r_expinv_pattern_complete. Qed.
Print Assumptions C19_bb_d2r_expinv_pattern_complete.

Theorem C19_bc_ad_pattern_complete :
  forall a0 a1 a2 a3 a4 a5 a6 a7 out, Gen.BC.bc_ad_rel [a0; a1; a2; a3; a4; a5; a6; a7] out ->
  all_zero (off_entries Gen.PatternsC19.bc_ad_pattern 8 8 out).
Proof. exact Proofs.C19_bc.bc_ad_pattern_complete. Qed.
Print Assumptions C19_bc_ad_pattern_complete.

Theorem C19_bc_dr_exp_pattern_complete :
  forall a0 a1 a2 a3 a4 a5 a6 a7 out, Gen.BC.bc_dr_exp_rel [a0; a1; a2; a3; a4; a5; a6; a7] out ->
  all_zero (off_entries Gen.PatternsC19.bc_d_exp_pattern 8 8 out).
Proof. exact Proofs.C19_bc.bc_dr_exp_pattern_complete. Qed.
Print Assumptions C19_bc_dr_exp_pattern_complete.

Theorem C19_bc_dr_expinv_pattern_complete :
  forall a0 a1 a2 a3 a4 a5 a6 a7 out, Gen.BC.bc_dr_expinv_rel [a0; a1; a2; a3; a4; a5; a6; a7] out ->
  all_zero (off_entries Gen.PatternsC19.bc_d_exp_pattern 8 8 out).
Proof. exact Proofs.C19_bc.bc_dr_expinv_pattern_complete. Qed.
Print Assumptions C19_bc_dr_expinv_pattern_complete.

Theorem C19_bc_d2r_exp_pattern_complete :
  forall a0 a1 a2 a3 a4 a5 a6 a7 out, Gen.BC.bc_d2r_exp_rel [a0; a1; a2; a3; a4; a5; a6; a7] out ->
  all_zero (off_entries Gen.PatternsC19.bc_d2_exp_pattern 8 64 out).
Proof. exact Proofs.C19_bc.bc_d2r_exp_pattern_complete. Qed.
Print Assumptions C19_bc_d2r_exp_pattern_complete.

Theorem C19_bc_d2r_expinv_pattern_complete :
  forall a0 a1 a2 a3 a4 a5 a6 a7 out, Gen.BC.bc_d2r_expinv_rel [a0; a1; a2; a3; a4; a5; a6; a7] out ->
  all_zero (off_entries Gen.PatternsC19.bc_d2_exp_pattern 8 64 out).
Proof. exact Proofs.C19_bc.bc_d2r_expinv_pattern_complete. Qed.
Print Assumptions C19_bc_d2r_expinv_pattern_complete.

Theorem C19_bd_ad_pattern_complete :
  forall a0 a1 a2 a3 a4 a5 out, Gen.BD.bd_ad_rel [a0; a1; a2; a3; a4; a5] out ->
  all_zero (off_entries Gen.PatternsC19.bd_ad_pattern 6 6 out).
Proof. exact Proofs.C19_bd.bd_ad_pattern_complete. Qed.
Print Assumptions C19_bd_ad_pattern_complete.

Theorem C19_bd_dr_exp_pattern_complete :
  forall a0 a1 a2 a3 a4 a5 out, Gen.BD.bd_dr_exp_rel [a0; a1; a2; a3; a4; a5] out ->
  all_zero (off_entries Gen.PatternsC19.bd_d_exp_pattern 6 6 out).
Proof. exact Proofs.C19_bd.bd_dr_exp_pattern_complete. Qed.
Print Assumptions C19_bd_dr_exp_pattern_complete.

Theorem C19_bd_dr_expinv_pattern_complete :
  forall a0 a1 a2 a3 a4 a5 out, Gen.BD.bd_dr_expinv_rel [a0; a1; a2; a3; a4; a5] out ->
  all_zero (off_entries Gen.PatternsC19.bd_d_exp_pattern 6 6 out).
Proof. exact Proofs.C19_bd.bd_dr_expinv_pattern_complete. Qed.
Print Assumptions C19_bd_dr_expinv_pattern_complete.

Theorem C19_bd_d2r_exp_pattern_complete :
  forall a0 a1 a2 a3 a4 a5 out, Gen.BD.bd_d2r_exp_rel [a0; a1; a2; a3; a4; a5] out ->
  all_zero (off_entries Gen.PatternsC19.bd_d2_exp_pattern 6 36 out).
Proof. exact Proofs.C19_bd.bd_d2r_exp_pattern_complete. Qed.
Print Assumptions C19_bd_d2r_exp_pattern_complete.

Theorem C19_bd_d2r_expinv_pattern_complete :
  forall a0 a1 a2 a3 a4 a5 out, Gen.BD.bd_d2r_expinv_rel [a0; a1; a2; a3; a4; a5] out ->
  all_zero (off_entries Gen.PatternsC19.bd_d2_exp_pattern 6 36 out).
Proof. exact Proofs.C19_bd.bd_d2r_expinv_pattern_complete. Qed.
Print Assumptions C19_bd_d2r_expinv_pattern_complete.

Theorem C19_bei_ad_pattern_complete :
  forall a0 a1 a2 out, Gen.BEi.bei_ad_rel [a0; a1; a2] out ->
  all_zero (off_entries Gen.PatternsC19.bei_ad_pattern 3 3 out).
Proof. exact Proofs.C19_bei.bei_ad_pattern_complete. Qed.
Print Assumptions C19_bei_ad_pattern_complete.

Theorem C19_bei_dr_exp_pattern_complete :
  forall a0 a1 a2 out, Gen.BEi.bei_dr_exp_rel [a0; a1; a2] out ->
  all_zero (off_entries Gen.PatternsC19.bei_d_exp_pattern 3 3 out).
Proof. exact Proofs.C19_bei.bei_dr_exp_pattern_complete. Qed.
Print Assumptions C19_bei_dr_exp_pattern_complete.

Theorem C19_bei_dr_expinv_pattern_complete :
  forall a0 a1 a2 out, Gen.BEi.bei_dr_expinv_rel [a0; a1; a2] out ->
  all_zero (off_entries Gen.PatternsC19.bei_d_exp_pattern 3 3 out).
Proof. exact Proofs.C19_bei.bei_dr_expinv_pattern_complete. Qed.
Print Assumptions C19_bei_dr_expinv_pattern_complete.

Theorem C19_bei_d2r_exp_pattern_complete :
  forall a0 a1 a2 out, Gen.BEi.bei_d2r_exp_rel [a0; a1; a2] out ->
  all_zero (off_entries Gen.PatternsC19.bei_d2_exp_pattern 3 9 out).
Proof. exact Proofs.C19_bei.bei_d2r_exp_pattern_complete. Qed.
Print Assumptions C19_bei_d2r_exp_pattern_complete.

Theorem C19_bei_d2r_expinv_pattern_complete :
  forall a0 a1 a2 out, Gen.BEi.bei_d2r_expinv_rel [a0; a1; a2] out ->
  all_zero (off_entries Gen.PatternsC19.bei_d2_exp_pattern 3 9 out).
Proof. exact Proofs.C19_bei.bei_d2r_expinv_pattern_complete. Qed.
Print Assumptions C19_bei_d2r_expinv_pattern_complete.

