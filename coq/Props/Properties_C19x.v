(* Property C19: the property theorems and nothing else (thorough tier: the most expensive instances).  Each is closed by the lemma of the same
   name proved in Proofs/C19_<unit>.v against the generated model; Print Assumptions lists the axioms. *)
From Coq Require Import Reals List Lra.
From SV Require Import Base.GenPrelude Base.Mat Doc.Groups.
From SV Require Import Model.C19_Sparse.
From SV Require Gen.PatternsC19.
From SV Require Gen.SO2.
From SV Require Gen.SO3.
From SV Require Gen.SE2.
From SV Require Gen.SE3.
From SV Require Gen.SE3H.
From SV Require Gen.C1.
From SV Require Gen.Galilei.
From SV Require Gen.BA.
From SV Require Gen.BB.
From SV Require Gen.BC.
From SV Require Gen.BD.
From SV Require Gen.BEi.
From SV Require Gen.BE.
From SV Require Gen.BF.
From SV Require Proofs.C19_be.
From SV Require Proofs.C19_bf.
Import ListNotations.
Local Open Scope R_scope.

Theorem C19_be_ad_pattern_complete :
  forall a0 a1 a2 a3 a4 a5 a6 a7 a8 out, Gen.BE.be_ad_rel [a0; a1; a2; a3; a4; a5; a6; a7; a8] out ->
  all_zero (off_entries Gen.PatternsC19.be_ad_pattern 9 9 out).
Proof. exact Proofs.C19_be.be_ad_pattern_complete. Qed.
Print Assumptions C19_be_ad_pattern_complete.

Theorem C19_be_dr_exp_pattern_complete :
  forall a0 a1 a2 a3 a4 a5 a6 a7 a8 out, Gen.BE.be_dr_exp_rel [a0; a1; a2; a3; a4; a5; a6; a7; a8] out ->
  all_zero (off_entries Gen.PatternsC19.be_d_exp_pattern 9 9 out).
Proof. exact Proofs.C19_be.be_dr_exp_pattern_complete. Qed.
Print Assumptions C19_be_dr_exp_pattern_complete.

Theorem C19_be_dr_expinv_pattern_complete :
  forall a0 a1 a2 a3 a4 a5 a6 a7 a8 out, Gen.BE.be_dr_expinv_rel [a0; a1; a2; a3; a4; a5; a6; a7; a8] out ->
  all_zero (off_entries Gen.PatternsC19.be_d_exp_pattern 9 9 out).
Proof. exact Proofs.C19_be.be_dr_expinv_pattern_complete. Qed.
Print Assumptions C19_be_dr_expinv_pattern_complete.

Theorem C19_be_d2r_exp_pattern_complete :
  forall a0 a1 a2 a3 a4 a5 a6 a7 a8 out, Gen.BE.be_d2r_exp_rel [a0; a1; a2; a3; a4; a5; a6; a7; a8] out ->
  all_zero (off_entries Gen.PatternsC19.be_d2_exp_pattern 9 81 out).
Proof. exact Proofs.C19_be.be_d2r_exp_pattern_complete. Qed.
Print Assumptions C19_be_d2r_exp_pattern_complete.

Theorem C19_be_d2r_expinv_pattern_complete :
  forall a0 a1 a2 a3 a4 a5 a6 a7 a8 out, Gen.BE.be_d2r_expinv_rel [a0; a1; a2; a3; a4; a5; a6; a7; a8] out ->
  all_zero (off_entries Gen.PatternsC19.be_d2_exp_pattern 9 81 out).
Proof. exact Proofs.C19_be.be_d2r_expinv_pattern_complete. Qed.
Print Assumptions C19_be_d2r_expinv_pattern_complete.

Theorem C19_bf_ad_pattern_complete :
  forall a0 a1 a2 a3 a4 a5 a6 a7 out, Gen.BF.bf_ad_rel [a0; a1; a2; a3; a4; a5; a6; a7] out ->
  all_zero (off_entries Gen.PatternsC19.bf_ad_pattern 8 8 out).
Proof. exact Proofs.C19_bf.bf_ad_pattern_complete. Qed.
Print Assumptions C19_bf_ad_pattern_complete.

Theorem C19_bf_dr_exp_pattern_complete :
  forall a0 a1 a2 a3 a4 a5 a6 a7 out, Gen.BF.bf_dr_exp_rel [a0; a1; a2; a3; a4; a5; a6; a7] out ->
  all_zero (off_entries Gen.PatternsC19.bf_d_exp_pattern 8 8 out).
Proof. exact Proofs.C19_bf.bf_dr_exp_pattern_complete. Qed.
Print Assumptions C19_bf_dr_exp_pattern_complete.

Theorem C19_bf_dr_expinv_pattern_complete :
  forall a0 a1 a2 a3 a4 a5 a6 a7 out, Gen.BF.bf_dr_expinv_rel [a0; a1; a2; a3; a4; a5; a6; a7] out ->
  all_zero (off_entries Gen.PatternsC19.bf_d_exp_pattern 8 8 out).
Proof. exact Proofs.C19_bf.bf_dr_expinv_pattern_complete. Qed.
Print Assumptions C19_bf_dr_expinv_pattern_complete.

Theorem C19_bf_d2r_exp_pattern_complete :
  forall a0 a1 a2 a3 a4 a5 a6 a7 out, Gen.BF.bf_d2r_exp_rel [a0; a1; a2; a3; a4; a5; a6; a7] out ->
  all_zero (off_entries Gen.PatternsC19.bf_d2_exp_pattern 8 64 out).
Proof. exact Proofs.C19_bf.bf_d2r_exp_pattern_complete. Qed.
Print Assumptions C19_bf_d2r_exp_pattern_complete.

Theorem C19_bf_d2r_expinv_pattern_complete :
  forall a0 a1 a2 a3 a4 a5 a6 a7 out, Gen.BF.bf_d2r_expinv_rel [a0; a1; a2; a3; a4; a5; a6; a7] out ->
  all_zero (off_entries Gen.PatternsC19.bf_d2_exp_pattern 8 64 out).
Proof. exact Proofs.C19_bf.bf_d2r_expinv_pattern_complete. Qed.
Print Assumptions C19_bf_d2r_expinv_pattern_complete.

