(* Property C20: the property theorems and nothing else.  Each is closed by the lemma of the same name proved in
   Proofs/C20_*.v about the models of Model/C20_*.v (and, for the *_code theorems, about Gen/BasisC20.v - the
   matrices and quadrature nodes the code of /repo actually produced on this run).  Print Assumptions lists axioms. *)
From Coquelicot Require Import Coquelicot.
From Coq Require Import List ZArith QArith Qabs Reals Qreals Bool.
From SV Require Import Model.C20_Search Model.C20_PolyBasis Model.C20_AbsPoly.
From SV Require Gen.BasisC20.
From SV Require Proofs.C20_Search Proofs.C20_PolyBasis Proofs.C20_Orthogonal Proofs.C20_Monomial Proofs.C20_BasisTie
  Proofs.C20_Lgr Proofs.C20_AbsPoly.
Import ListNotations.

(* ============================================================ binary_interval_search *)
Section SearchProps.
Import Proofs.C20_Search.
Local Open Scope Z_scope.

Theorem C20_search_case1_empty : forall piv t, search piv [] t = (End, []).
Proof. exact search_case1_empty. Qed.
Print Assumptions C20_search_case1_empty.

Theorem C20_search_case2_below : forall piv r t, r <> [] -> t < nth 0 r 0 -> fst (search piv r t) = End.
Proof. exact search_case2_below. Qed.
Print Assumptions C20_search_case2_below.

Theorem C20_search_case3_above : forall piv r t, r <> [] -> sorted r -> nth (length r - 1) r 0 <= t ->
  fst (search piv r t) = At (length r - 1).
Proof. exact search_case3_above. Qed.
Print Assumptions C20_search_case3_above.

Theorem C20_search_case4_inside : forall piv r t,
  (forall k l g, inv r t l g -> 0 <= piv k l g) ->
  nth 0 r 0 <= t < nth (length r - 1) r 0 ->
  exists p, fst (search piv r t) = At p /\ (p + 1 < length r)%nat /\ nth p r 0 <= t < nth (p + 1) r 0.
Proof. exact search_case4_inside. Qed.
Print Assumptions C20_search_case4_inside.

Theorem C20_interval_unique : forall r t i j, sorted r ->
  (i + 1 < length r)%nat -> nth i r 0 <= t < nth (i + 1) r 0 ->
  (j + 1 < length r)%nat -> nth j r 0 <= t < nth (j + 1) r 0 -> i = j.
Proof. exact interval_unique. Qed.
Print Assumptions C20_interval_unique.

(* total correctness for every sorted list, every query, every admissible pivot function: never UB, never out of fuel *)
Theorem C20_search_total : forall piv r t, sorted r ->
  (forall k l g, inv r t l g -> 0 <= piv k l g) ->
  match fst (search piv r t) with
  | End => r = [] \/ t < nth 0 r 0
  | At p => (p < length r)%nat /\ nth p r 0 <= t /\ (forall j, (p < j < length r)%nat -> t < nth j r 0)
  | UB | Fuel => False
  end.
Proof. exact search_total. Qed.
Print Assumptions C20_search_total.

(* loop invariant r[left] <= t < r[rght-1]: preserved by every iteration, pivot in [left, rght-2], state shrinks *)
Theorem C20_search_loop_invariant : forall piv r t, (forall k l g, inv r t l g -> 0 <= piv k l g) ->
  forall k l g, inv r t l g ->
    match step piv k r t l g with
    | Done (At p) _ => found r t p /\ (l <= p <= g - 2)%nat
    | Done _ _ => False
    | Cont l' g' p' _ => inv r t l' g' /\ (g' - l' < g - l)%nat /\ (l <= l')%nat /\ (g' <= g)%nat /\ (l <= p' <= g - 2)%nat
    end.
Proof. exact step_spec. Qed.
Print Assumptions C20_search_loop_invariant.

(* the interpolation of the code in exact arithmetic: denominator non-zero, 0 <= n < dist, under the invariant *)
Theorem C20_search_interpolation_well_defined : forall r t k l g, inv r t l g ->
  0 < nth (g - 1) r 0 - nth l r 0 /\ 0 <= interp_piv r t k l g < Z.of_nat (g - 1 - l).
Proof. intros r t k l g H. split; [exact (proj1 (inv_denominator r t l g H)) | exact (interp_piv_ok r t k l g H)]. Qed.
Print Assumptions C20_search_interpolation_well_defined.

(* termination with fuel to spare: rght-left-1 iterations suffice (search supplies length r) *)
Theorem C20_search_terminates : forall piv r t, (forall k l g, inv r t l g -> 0 <= piv k l g) ->
  forall fuel k l g pv, inv r t l g -> (g - l <= fuel + 1)%nat ->
  exists p ps, loop piv fuel k r t l g pv = (At p, ps) /\ found r t p /\ (l <= p <= g - 2)%nat.
Proof. exact loop_spec. Qed.
Print Assumptions C20_search_terminates.

Theorem C20_search_interp_total : forall r t, sorted r ->
  match fst (search_interp r t) with
  | End => r = [] \/ t < nth 0 r 0
  | At p => (p < length r)%nat /\ nth p r 0 <= t /\ (forall j, (p < j < length r)%nat -> t < nth j r 0)
  | UB | Fuel => False
  end.
Proof. exact search_interp_total. Qed.
Print Assumptions C20_search_interp_total.
End SearchProps.

(* ============================================================ polynomial bases, K <= 10, all real x *)
Section BasisProps.
Import Proofs.C20_PolyBasis Proofs.C20_Orthogonal Proofs.C20_Monomial.
Local Open Scope R_scope.

Theorem C20_bernstein_closed_form : forall K j x, (K <= 10)%nat -> (j <= K)%nat ->
  pevalR (col (polynomial_basis Bernstein K) j) x = Q2R (binom K j) * (x ^ j * (1 - x) ^ (K - j)).
Proof. exact bernstein_closed_form. Qed.
Print Assumptions C20_bernstein_closed_form.

Theorem C20_bernstein_nonneg : forall K j x, (K <= 10)%nat -> (j <= K)%nat -> 0 <= x <= 1 ->
  0 <= pevalR (col (polynomial_basis Bernstein K) j) x.
Proof. exact bernstein_nonneg. Qed.
Print Assumptions C20_bernstein_nonneg.

Theorem C20_bernstein_partition_of_unity : forall K x, (K <= 10)%nat ->
  sumR (fun j => pevalR (col (polynomial_basis Bernstein K) j) x) (K + 1) = 1.
Proof. exact bernstein_partition_of_unity. Qed.
Print Assumptions C20_bernstein_partition_of_unity.

Theorem C20_bspline_closed_form : forall K j x, (K <= 10)%nat -> (j <= K)%nat ->
  pevalR (col (polynomial_basis Bspline K) j) x =
  Q2R (1 / inject_Z (fact K)) *
  sumR (fun i => Q2R ((if Nat.even i then 1 else -(1)) * binom (K + 1) i) * (Q2R (Qn (K - j - i)) + x) ^ K) (K - j + 1).
Proof. exact bspline_closed_form. Qed.
Print Assumptions C20_bspline_closed_form.

Theorem C20_bspline_nonneg : forall K j x, (K <= 10)%nat -> (j <= K)%nat -> 0 <= x <= 1 ->
  0 <= pevalR (col (polynomial_basis Bspline K) j) x.
Proof. exact bspline_nonneg. Qed.
Print Assumptions C20_bspline_nonneg.

Theorem C20_bspline_partition_of_unity : forall K x, (K <= 10)%nat ->
  sumR (fun j => pevalR (col (polynomial_basis Bspline K) j) x) (K + 1) = 1.
Proof. exact bspline_partition_of_unity. Qed.
Print Assumptions C20_bspline_partition_of_unity.

Theorem C20_cumulative_starts_with_one : forall K x, (K <= 10)%nat ->
  pevalR (col (polynomial_cumulative_basis Bernstein K) 0) x = 1 /\ pevalR (col (polynomial_cumulative_basis Bspline K) 0) x = 1.
Proof. exact cumulative_starts_with_one. Qed.
Print Assumptions C20_cumulative_starts_with_one.

Theorem C20_cumulative_is_suffix_sum : forall K j x, (K <= 10)%nat -> (j <= K)%nat ->
  pevalR (col (polynomial_cumulative_basis Bernstein K) j) x
    = fold_right Rplus 0 (map (fun nu => pevalR (col (polynomial_basis Bernstein K) nu) x) (seq j (K + 1 - j))) /\
  pevalR (col (polynomial_cumulative_basis Bspline K) j) x
    = fold_right Rplus 0 (map (fun nu => pevalR (col (polynomial_basis Bspline K) nu) x) (seq j (K + 1 - j))).
Proof. exact cumulative_is_suffix_sum. Qed.
Print Assumptions C20_cumulative_is_suffix_sum.

Theorem C20_cumulative_bernstein_endpoints : forall K j, (K <= 10)%nat -> (1 <= j <= K)%nat ->
  pevalR (col (polynomial_cumulative_basis Bernstein K) j) 0 = 0 /\ pevalR (col (polynomial_cumulative_basis Bernstein K) j) 1 = 1.
Proof. exact cumulative_bernstein_endpoints. Qed.
Print Assumptions C20_cumulative_bernstein_endpoints.

Theorem C20_legendre_recurrence : forall K, (K <= 10)%nat ->
  (forall x, pevalR (col (polynomial_basis Legendre K) 0) x = 1) /\
  ((0 < K)%nat -> forall x, pevalR (col (polynomial_basis Legendre K) 1) x = x) /\
  (forall k x, (1 <= k < K)%nat ->
     INR (k + 1) * pevalR (col (polynomial_basis Legendre K) (k + 1)) x =
     INR (2 * k + 1) * x * pevalR (col (polynomial_basis Legendre K) k) x - INR k * pevalR (col (polynomial_basis Legendre K) (k - 1)) x).
Proof. exact legendre_recurrence. Qed.
Print Assumptions C20_legendre_recurrence.

Theorem C20_chebyshev1st_recurrence : forall K, (K <= 10)%nat ->
  (forall x, pevalR (col (polynomial_basis Chebyshev1st K) 0) x = 1) /\
  ((0 < K)%nat -> forall x, pevalR (col (polynomial_basis Chebyshev1st K) 1) x = x) /\
  (forall k x, (1 <= k < K)%nat ->
     pevalR (col (polynomial_basis Chebyshev1st K) (k + 1)) x =
     2 * x * pevalR (col (polynomial_basis Chebyshev1st K) k) x - pevalR (col (polynomial_basis Chebyshev1st K) (k - 1)) x).
Proof. exact chebyshev1st_recurrence. Qed.
Print Assumptions C20_chebyshev1st_recurrence.

Theorem C20_chebyshev2nd_recurrence : forall K, (K <= 10)%nat ->
  (forall x, pevalR (col (polynomial_basis Chebyshev2nd K) 0) x = 1) /\
  ((0 < K)%nat -> forall x, pevalR (col (polynomial_basis Chebyshev2nd K) 1) x = 2 * x) /\
  (forall k x, (1 <= k < K)%nat ->
     pevalR (col (polynomial_basis Chebyshev2nd K) (k + 1)) x =
     2 * x * pevalR (col (polynomial_basis Chebyshev2nd K) k) x - pevalR (col (polynomial_basis Chebyshev2nd K) (k - 1)) x).
Proof. exact chebyshev2nd_recurrence. Qed.
Print Assumptions C20_chebyshev2nd_recurrence.

Theorem C20_hermite_recurrence : forall K, (K <= 10)%nat ->
  (forall x, pevalR (col (polynomial_basis Hermite K) 0) x = 1) /\
  ((0 < K)%nat -> forall x, pevalR (col (polynomial_basis Hermite K) 1) x = 2 * x) /\
  (forall k x, (1 <= k < K)%nat ->
     pevalR (col (polynomial_basis Hermite K) (k + 1)) x =
     2 * x * pevalR (col (polynomial_basis Hermite K) k) x - INR (2 * k) * pevalR (col (polynomial_basis Hermite K) (k - 1)) x).
Proof. exact hermite_recurrence. Qed.
Print Assumptions C20_hermite_recurrence.

Theorem C20_laguerre_recurrence : forall K, (K <= 10)%nat ->
  (forall x, pevalR (col (polynomial_basis Laguerre K) 0) x = 1) /\
  ((0 < K)%nat -> forall x, pevalR (col (polynomial_basis Laguerre K) 1) x = 1 - x) /\
  (forall k x, (1 <= k < K)%nat ->
     INR (k + 1) * pevalR (col (polynomial_basis Laguerre K) (k + 1)) x =
     (INR (2 * k + 1) - x) * pevalR (col (polynomial_basis Laguerre K) k) x - INR k * pevalR (col (polynomial_basis Laguerre K) (k - 1)) x).
Proof. exact laguerre_recurrence. Qed.
Print Assumptions C20_laguerre_recurrence.

Theorem C20_orthogonal_normalisations : forall K k, (K <= 10)%nat -> (k <= K)%nat ->
  pevalR (col (polynomial_basis Legendre K) k) 1 = 1 /\ pevalR (col (polynomial_basis Legendre K) k) (-1) = Q2R (sgn k) /\
  pevalR (col (polynomial_basis Chebyshev1st K) k) 1 = 1 /\ pevalR (col (polynomial_basis Chebyshev2nd K) k) 1 = INR (k + 1) /\
  (nth k (col (polynomial_basis Hermite K) k) 0%Q == inject_Z (2 ^ Z.of_nat k))%Q /\ pevalR (col (polynomial_basis Laguerre K) k) 0 = 1 /\
  (forall x, pevalR (col (polynomial_basis Legendre K) k) x = pevalR (legendre_def k) x) /\
  (forall x, pevalR (col (polynomial_basis Chebyshev1st K) k) x = pevalR (cheb1_def k) x) /\
  (forall x, pevalR (col (polynomial_basis Chebyshev2nd K) k) x = pevalR (cheb2_def k) x) /\
  (forall x, pevalR (col (polynomial_basis Hermite K) k) x = pevalR (hermite_def k) x) /\
  (forall x, pevalR (col (polynomial_basis Laguerre K) k) x = pevalR (laguerre_def k) x) /\
  (forall x, pevalR (col (polynomial_basis Monomial K) k) x = pevalR (pmono k) x).
Proof. exact orthogonal_normalisations. Qed.
Print Assumptions C20_orthogonal_normalisations.

(* monomial_derivative: ALL K, p, u *)
Theorem C20_monomial_derivative_is_derivative : forall K p u k, (k <= K)%nat ->
  Q2R (nth k (monomial_derivative K p u) 0%Q) = Derive_n (fun x : R => x ^ k) p (Q2R u).
Proof. exact monomial_derivative_is_derivative. Qed.
Print Assumptions C20_monomial_derivative_is_derivative.

Theorem C20_monomial_derivative_integer_update_exact : forall p i, (p + 1 <= i)%nat ->
  ((prodrange (i - p) p * Z.of_nat i) mod Z.of_nat (i - p) = 0)%Z /\
  md_P2_step p i (prodrange (i - p) p) = prodrange (i - p + 1) p.
Proof. exact md_P2_step_exact. Qed.
Print Assumptions C20_monomial_derivative_integer_update_exact.

Theorem C20_monomial_derivatives_rows : forall K P u p, (p <= P)%nat ->
  nth p (monomial_derivatives K P u) [] = monomial_derivative K p u.
Proof. exact monomial_derivatives_rows. Qed.
Print Assumptions C20_monomial_derivatives_rows.

Theorem C20_monomial_integral_is_integral : forall K P i j, (K <= 10)%nat -> (P <= K + 1)%nat -> (i <= K)%nat -> (j <= K)%nat ->
  (get (monomial_integral K P) i j == pint01 (pmul (iter P pderiv (pmono i)) (iter P pderiv (pmono j))))%Q.
Proof. exact monomial_integral_is_integral. Qed.
Print Assumptions C20_monomial_integral_is_integral.

(* PARTIAL: interpolation only for four concrete families of distinct rational nodes per K (not arbitrary nodes) *)
Theorem C20_lagrange_interpolates_partial : forall K ts i j, (K <= 10)%nat ->
  (ts = nodes_quad K \/ ts = nodes_equi K \/ ts = nodes_cheb K \/ ts = nodes_neg K) -> (i <= K)%nat -> (j <= K)%nat ->
  distinct ts = true /\
  (peval (col (lagrange_basis K ts) i) (nth j ts 0) == (if (i =? j)%nat then 1 else 0))%Q.
Proof. exact lagrange_interpolates_partial. Qed.
Print Assumptions C20_lagrange_interpolates_partial.
End BasisProps.

(* ============================================================ tie to the code: what the constexpr code produced *)
Section TieProps.
Import Gen.BasisC20 Proofs.C20_PolyBasis Proofs.C20_Monomial Proofs.C20_BasisTie Proofs.C20_Lgr.
Local Open Scope Q_scope.

Theorem C20_basis_matches_code :
  fam exact1 d_bernstein (polynomial_basis Bernstein) = true /\
  fam close1 d_bspline (polynomial_basis Bspline) = true /\
  fam close1 d_chebyshev1st (polynomial_basis Chebyshev1st) = true /\
  fam close1 d_chebyshev2nd (polynomial_basis Chebyshev2nd) = true /\
  fam exact1 d_hermite (polynomial_basis Hermite) = true /\
  fam close1 d_laguerre (polynomial_basis Laguerre) = true /\
  fam exact1 d_legendre (polynomial_basis Legendre) = true /\
  fam exact1 d_monomial (polynomial_basis Monomial) = true /\
  fam exact1 d_cum_bernstein (polynomial_cumulative_basis Bernstein) = true /\
  fam close1 d_cum_bspline (polynomial_cumulative_basis Bspline) = true /\
  fam exact1 d_monoint_0 (fun K => monomial_integral K 0) = true /\
  fam exact1 d_monoint_1 (fun K => monomial_integral K 1) = true /\
  fam exact1 d_monoint_2 (fun K => monomial_integral K 2) = true /\
  fam exact1 d_monoint_3 (fun K => monomial_integral K 3) = true /\
  fam exact1 d_lagrange_q (fun K => lagrange_basis K (nodes_quad K)) = true.
Proof. exact basis_matches_code. Qed.
Print Assumptions C20_basis_matches_code.

(* monomial_integral<K,P> for the derivative orders P = 4..11 (all K <= 10): the dumped constexpr matrices equal the model *)
Theorem C20_monoint_high_matches_code :
  fam exact1 d_monoint_4 (fun K => monomial_integral K 4) = true /\
  fam exact1 d_monoint_5 (fun K => monomial_integral K 5) = true /\
  fam exact1 d_monoint_6 (fun K => monomial_integral K 6) = true /\
  fam exact1 d_monoint_7 (fun K => monomial_integral K 7) = true /\
  fam exact1 d_monoint_8 (fun K => monomial_integral K 8) = true /\
  fam exact1 d_monoint_9 (fun K => monomial_integral K 9) = true /\
  fam exact1 d_monoint_10 (fun K => monomial_integral K 10) = true /\
  fam exact1 d_monoint_11 (fun K => monomial_integral K 11) = true.
Proof. exact monoint_high_matches_code. Qed.
Print Assumptions C20_monoint_high_matches_code.

(* entrywise meaning of `fam` *)
Theorem C20_fam_entrywise : forall f d m, fam f d m = true -> forall K i j, (K <= 10)%nat ->
  (i < length (m K))%nat -> (j < length (nth i (m K) []))%nat -> f (get (nth K d []) i j) (get (m K) i j) = true.
Proof. exact fam_spec. Qed.
Print Assumptions C20_fam_entrywise.

Theorem C20_monomial_derivatives_match_code :
  (length d_monoderivs_3_4 =? 11)%nat && forK (fun K => all2 exact1 (nth K d_monoderivs_3_4 []) (monomial_derivatives K (K + 1) (3 # 4))) = true /\
  (length d_monoderivs_m3 =? 11)%nat && forK (fun K => all2 exact1 (nth K d_monoderivs_m3 []) (monomial_derivatives K (K + 1) (-3 # 1))) = true.
Proof. exact (conj tie_monoderivs_3_4 tie_monoderivs_m3). Qed.
Print Assumptions C20_monomial_derivatives_match_code.

Theorem C20_lgr_nodes_correct : forall K, (1 <= K <= 16)%nat ->
  length (lgr_xs K) = K /\ length (lgr_ws K) = K /\ nth 0 (lgr_xs K) 0 == -(1) /\ increasing (lgr_xs K) = true /\
  (forall x, In x (tl (lgr_xs K)) -> -(1) < x /\ x < 1) /\ (forall w, In w (lgr_ws K) -> 0 < w) /\
  (forall m, (m <= 2 * K - 2)%nat -> Qabs (nth m (moments (2 * K - 1) (lgr_xs K) (lgr_ws K)) 0 - mono_int m) <= tol9).
Proof. exact lgr_nodes_correct. Qed.
Print Assumptions C20_lgr_nodes_correct.
End TieProps.

(* ============================================================ integrate_absolute_polynomial *)
Section AbsPolyProps.
Import Proofs.C20_AbsPoly.
Local Open Scope R_scope.

(* quadratic regime of the code after /repo b9fcddd: thr <= |A| (non-strict) *)
Theorem C20_iap_exact_quadratic : forall thr t0 t1 A B C, 0 < thr -> t0 <= t1 -> thr <= Rabs A ->
  is_RInt (absP A B C) t0 t1 (iapR thr t0 t1 A B C).
Proof. exact iapR_exact_quadratic. Qed.
Print Assumptions C20_iap_exact_quadratic.

(* any threshold (also thr <= 0), as long as the leading coefficient is not zero *)
Theorem C20_iap_exact_quadratic_gen : forall thr t0 t1 A B C, t0 <= t1 -> A <> 0 -> thr <= Rabs A ->
  is_RInt (absP A B C) t0 t1 (iapR thr t0 t1 A B C).
Proof. exact iapR_exact_quadratic_gen. Qed.
Print Assumptions C20_iap_exact_quadratic_gen.

Theorem C20_iap_exact_linear : forall thr t0 t1 A B C, 0 < thr -> t0 <= t1 -> A = 0 -> thr < Rabs B ->
  is_RInt (absP A B C) t0 t1 (iapR thr t0 t1 A B C).
Proof. exact iapR_exact_linear. Qed.
Print Assumptions C20_iap_exact_linear.

Theorem C20_iap_exact_constant : forall thr t0 t1 A B C, 0 < thr -> t0 <= t1 -> A = 0 -> B = 0 ->
  is_RInt (absP A B C) t0 t1 (iapR thr t0 t1 A B C).
Proof. exact iapR_exact_constant. Qed.
Print Assumptions C20_iap_exact_constant.

(* |A| equal to the code's threshold (the input class of the fixed finding C20-iap-gap): exact *)
Theorem C20_iap_exact_at_threshold : forall t0 t1 A B C, t0 <= t1 -> Rabs A = iap_thrR ->
  is_RInt (absP A B C) t0 t1 (iapR iap_thrR t0 t1 A B C).
Proof. exact iapR_exact_at_threshold. Qed.
Print Assumptions C20_iap_exact_at_threshold.

(* the full statement (all coefficient triples, 1e-9) is still FALSE of the faithful model for 0 < |A| < thr: witness *)

Theorem C20_iap_smallA_refuted : exists t0 t1 A B C I, t0 <= t1 /\ Rabs t0 <= 10 /\ Rabs t1 <= 10 /\
  Rabs A <= 10 /\ Rabs B <= 10 /\ Rabs C <= 10 /\ is_RInt (absP A B C) t0 t1 I /\
  Rabs (iapR iap_thrR t0 t1 A B C - I) > 1 / 10 ^ 9.
Proof. exact iapR_smallA_refuted. Qed.
Print Assumptions C20_iap_smallA_refuted.

Theorem C20_iap_smallA_bound_partial : forall thr t0 t1 A B C I, 0 <= thr -> t0 <= t1 -> Rabs A < thr -> thr < Rabs B ->
  is_RInt (absP A B C) t0 t1 I -> Rabs (iapR thr t0 t1 A B C - I) <= 2 * Rabs A * (t1 ^ 3 - t0 ^ 3) / 3.
Proof. exact iapR_smallA_bound. Qed.
Print Assumptions C20_iap_smallA_bound_partial.

(* the executable Q model (run against the implementation) computes the real model, given the sqrt contract *)
Theorem C20_iapQ_is_iapR : forall (sq : Q -> Q) (t0 t1 A B C : Q),
  ((iap_thr <= Qabs A)%Q -> (0 < B * B / (4 * A * A) - C / A)%Q ->
     Q2R (sq (B * B / (4 * A * A) - C / A)%Q) = sqrt (Q2R (B * B / (4 * A * A) - C / A)%Q)) ->
  Q2R (iapQ sq t0 t1 A B C) = iapR iap_thrR (Q2R t0) (Q2R t1) (Q2R A) (Q2R B) (Q2R C).
Proof. exact iapQ_iapR_code. Qed.
Print Assumptions C20_iapQ_is_iapR.
End AbsPolyProps.
