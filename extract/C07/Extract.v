Require Import ExtrOcamlBasic.
From SV Require Import Model.C07_Adaptors Model.C07_Inst.
Extraction "model.ml" step init_state Coq.QArith.Qcanon.Q2Qc c07_repo_cast_repaired.
