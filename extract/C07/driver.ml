(* C07 driver: reads generated programs (one operation per line, "R" starts a new program on a fresh state),
   runs the extracted model, prints one canonical result line per input line.
   usage: model_C07 <repaired:0|1> <program file>
   Numbers in the file are integers k standing for the dyadic rational k/8. *)
open Model

let rec nat_of_int n = if n <= 0 then O else S (nat_of_int (n - 1))
let rec int_of_nat = function O -> 0 | S n -> 1 + int_of_nat n
let rec pos_of_int n = if n <= 1 then XH else if n land 1 = 1 then XI (pos_of_int (n lsr 1)) else XO (pos_of_int (n lsr 1))
let rec int_of_pos = function XH -> 1 | XO p -> 2 * int_of_pos p | XI p -> 2 * int_of_pos p + 1
let z_of_int n = if n = 0 then Z0 else if n > 0 then Zpos (pos_of_int n) else Zneg (pos_of_int (-n))
let int_of_z = function Z0 -> 0 | Zpos p -> int_of_pos p | Zneg p -> - (int_of_pos p)
let qc_of_int k = q2Qc { qnum = z_of_int k; qden = pos_of_int 8 }
let str_of_qc (x : qc) =
  let n = int_of_z x.qnum and d = int_of_pos x.qden in
  if 8 mod d = 0 then string_of_int (n * (8 / d)) else Printf.sprintf "%d/%d*8" n d

(* token stream of one line *)
let toks = ref [||]
let pos = ref 0
let next () = let t = !toks.(!pos) in incr pos; t
let nint () = int_of_string (next ())
let nnat () = nat_of_int (nint ())
let rec times n f = if n <= 0 then [] else let x = f () in x :: times (n - 1) f
let vec () = let n = nint () in times n (fun () -> qc_of_int (nint ()))
let vecs () = let k = nint () in times k vec
let nats () = let n = nint () in times n nnat
let lit () =
  match nint () with
  | 0 -> LVX (vec ()) | 1 -> LV3 (vec ()) | 2 -> LD (vec ())
  | 3 -> LSVX (vecs ()) | 4 -> LSV3 (vecs ())
  | 5 -> let m0 = vec () in let m = vec () in let f = nats () in LSUBX (m0, m, f)
  | 6 -> let m0 = vecs () in let m = vecs () in let f = nats () in LSUBS (m0, m, f)
  | k -> failwith ("bad literal kind " ^ string_of_int k)

let parse_op c =
  match c with
  | "N" -> let r = nnat () in let w = nnat () in let l = lit () in ONew (r, w, l)
  | "P" -> let d = nnat () in let s = nnat () in let a = vec () in ORplus (d, s, a)
  | "M" -> let a = nnat () in let b = nnat () in ORminus (a, b)
  | "D" -> ODof (nnat ())
  | "C" -> let d = nnat () in let s = nnat () in OCast (d, s)
  | "Y" -> let d = nnat () in let s = nnat () in OCopy (d, s)
  | "U" -> let r = nnat () in let l = lit () in OSet (r, l)
  | "V" -> let d = nnat () in let s = nnat () in OMove (d, s)
  | "S" -> ODump (nnat ())
  | c -> failwith ("bad op " ^ c)

let rec str_of_dump = function
  | DQ q -> str_of_qc q
  | DN n -> "#" ^ string_of_int (int_of_nat n)
  | DNode (t, ch) -> "(" ^ String.concat " " (string_of_int (int_of_nat t) :: List.map str_of_dump ch) ^ ")"
let str_of_res = function
  | RVal d -> "val " ^ str_of_dump d
  | RTan t -> "tan [" ^ String.concat " " (List.map str_of_qc t) ^ "]"
  | RDof n -> "dof " ^ string_of_int (int_of_nat n)
  | RThrow c -> "throw " ^ string_of_int (int_of_nat c)
  | RErr c -> "err " ^ string_of_int (int_of_nat c)
  | RNone -> "ok"

let () =
  let repaired = Sys.argv.(1) = "1" in
  let ic = open_in Sys.argv.(2) in
  let st = ref init_state in
  (try
     while true do
       let line = String.trim (input_line ic) in
       if line <> "" then begin
         toks := Array.of_list (List.filter (fun s -> s <> "") (String.split_on_char ' ' line));
         pos := 0;
         let c = next () in
         if c = "R" then begin st := init_state; print_endline "R" end
         else begin
           let o = parse_op c in
           let (st', r) = step repaired !st o in
           st := st';
           print_endline (str_of_res r)
         end
       end
     done
   with End_of_file -> ());
  close_in ic
