Require Import ExtrOcamlBasic.
From SV Require Import Model.C08_DiffLayout.
Extraction "model.ml" q_dr q_dr_idx.
