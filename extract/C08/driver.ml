(* C08 driver: reads one case per line (see harness/h_c08.cpp, "CASE" lines), runs the extracted model
   q_dr / q_dr_idx (Coq's nat/positive/Z/Q datatypes), prints one canonical result line per case.
   Numbers are printed as <sign><binary numerator>/<binary denominator>. *)
open Model

let rec nat_of_int n = if n <= 0 then O else S (nat_of_int (n - 1))
let rec pos_of_int n = if n <= 1 then XH else if n land 1 = 1 then XI (pos_of_int (n lsr 1)) else XO (pos_of_int (n lsr 1))
let z_of_int n = if n = 0 then Z0 else if n > 0 then Zpos (pos_of_int n) else Zneg (pos_of_int (-n))
let q_of_string s =
  match String.index_opt s '/' with
  | None -> { qnum = z_of_int (int_of_string s); qden = XH }
  | Some i -> { qnum = z_of_int (int_of_string (String.sub s 0 i));
                qden = pos_of_int (int_of_string (String.sub s (i + 1) (String.length s - i - 1))) }
let pos_bits p =
  let b = Buffer.create 64 in
  let rec go p acc = match p with XH -> '1' :: acc | XO p' -> go p' ('0' :: acc) | XI p' -> go p' ('1' :: acc) in
  List.iter (Buffer.add_char b) (go p []); Buffer.contents b
let q_str x =
  let x = qred x in
  let n = match x.qnum with Z0 -> "0" | Zpos p -> pos_bits p | Zneg p -> "-" ^ pos_bits p in
  n ^ "/" ^ pos_bits x.qden

let () =
  try
    while true do
      let line = input_line stdin in
      let toks = Array.of_list (List.filter (fun s -> s <> "") (String.split_on_char ' ' line)) in
      if Array.length toks > 0 then begin
        let p = ref 0 in
        let next () = let t = toks.(!p) in incr p; t in
        let nexti () = int_of_string (next ()) in
        let expect s = let t = next () in if t <> s then failwith ("expected " ^ s ^ " got " ^ t) in
        let id = next () in
        expect "K"; let k = nexti () in
        expect "IDX"; let nidx = nexti () in
        let idx = if nidx < 0 then None else Some (List.init nidx (fun _ -> nat_of_int (nexti ()))) in
        expect "ARGS"; let nargs = nexti () in
        let args = List.init nargs (fun _ ->
          let v = nexti () in let n = nexti () in
          let cs = List.init n (fun _ -> q_of_string (next ())) in
          { qa_vec = (v = 1); qa_coords = cs }) in
        expect "NY"; let ny = nexti () in
        expect "N"; let n = nexti () in
        expect "CONST"; let cst = List.init ny (fun _ -> q_of_string (next ())) in
        expect "LIN"; let lin = List.init ny (fun _ -> List.init n (fun _ -> q_of_string (next ()))) in
        expect "QUAD"; let quad = List.init ny (fun _ -> List.init n (fun _ -> List.init n (fun _ -> q_of_string (next ())))) in
        let poly = { p_const = cst; p_lin = lin; p_quad = quad } in
        let res = match idx with
          | None -> q_dr (nat_of_int k) poly args
          | Some l -> q_dr_idx (nat_of_int k) poly args l in
        let b = Buffer.create 4096 in
        Buffer.add_string b id;
        (match res with
         | None -> Buffer.add_string b " ILLFORMED"
         | Some o ->
           Buffer.add_string b (Printf.sprintf " V %d" (List.length o.o_val));
           List.iter (fun v -> Buffer.add_char b ' '; Buffer.add_string b (q_str v)) o.o_val;
           (match o.o_J with
            | None -> Buffer.add_string b " J -1"
            | Some (JUser _) -> Buffer.add_string b " J user"
            | Some (JNum j) ->
              Buffer.add_string b (Printf.sprintf " J %d" (List.length j));
              List.iter (fun col -> match col with
                  | None -> Buffer.add_string b " U"
                  | Some c -> Buffer.add_string b (Printf.sprintf " C %d" (List.length c));
                    List.iter (fun v -> Buffer.add_char b ' '; Buffer.add_string b (q_str v)) c) j);
           (match o.o_H with
            | None -> Buffer.add_string b " H -1"
            | Some (HUser _) -> Buffer.add_string b " H user"
            | Some (HNum h) ->
              Buffer.add_string b (Printf.sprintf " H %d" (List.length h));
              List.iter (fun row ->
                  Buffer.add_string b (Printf.sprintf " R %d" (List.length row));
                  List.iter (fun c -> Buffer.add_char b ' ';
                              match c with None -> Buffer.add_string b "U" | Some v -> Buffer.add_string b (q_str v)) row) h);
           Buffer.add_string b (Printf.sprintf " A %d" (List.length o.o_args));
           List.iter (fun a ->
               Buffer.add_string b (Printf.sprintf " X %d" (List.length a.qa_coords));
               List.iter (fun v -> Buffer.add_char b ' '; Buffer.add_string b (q_str v)) a.qa_coords) o.o_args);
        print_endline (Buffer.contents b)
      end
    done
  with End_of_file -> ()
