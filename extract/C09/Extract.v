(* C09: extraction of the executable minimize / trust-region-strategy model (ExtrOcamlBasic only; Z, Q, positive, nat
   stay Coq's datatypes). *)
Require Import ExtrOcamlBasic.
From SV Require Import Model.C09_TrStrategy Model.C09_Minimize.
Extraction "model.ml" replay_ceres replay_disney replay_scripted ceres_init disney_init result_status result_iter code_now.
