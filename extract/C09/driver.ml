(* C09 driver: reads replay cases (one per line) and runs the extracted model of smooth::minimize on the recorded
   oracle values.  Line format (blank separated):
     id strat cont max_iter ptol ftol c0 delta0 reduce0 nscript {take delta}*nscript niter {rnz actu pred rho dnorm n costnew}*niter
   numbers: "m:e" = m * 2^e (m, e decimal integers), or nan / inf / -inf where a double may be non-finite.
   strat: C (CeresStrategy) | D (DisneyStrategy) | S (scripted user strategy).  cont=1: start from the strategy state
   the previous case with the same strategy kind left behind (shared strategy object reused across calls).
   argv: <cases file> [pre-16638da]   default: the model of the code that exists (Model.code_now: optim.hpp:147 with the
         r_n == 0 disjunct, /repo since 16638da); "pre-16638da": the historical model of the code before that fix
         (diagnosis of a tree in which the fix was reverted, see notes/C09.md)
   Output: id status iter ncallbacks pattern final_delta delta_0 ... delta_{iter-1}
     pattern: per iteration 3 chars  take(T/F) stepped(S/-) conv(f/p/-)                                           *)
open Model

let rec pos_of_int (n : int) : positive =
  if n = 1 then XH else if n land 1 = 0 then XO (pos_of_int (n lsr 1)) else XI (pos_of_int (n lsr 1))
let z_of_int (n : int) : z = if n = 0 then Z0 else if n > 0 then Zpos (pos_of_int n) else Zneg (pos_of_int (-n))
let rec shiftl_pos (p : positive) (k : int) = if k = 0 then p else shiftl_pos (XO p) (k - 1)
let rec nat_of_int (n : int) : nat = if n = 0 then O else S (nat_of_int (n - 1))
let rec int_of_nat (n : nat) : int = match n with O -> 0 | S k -> 1 + int_of_nat k

(* m * 2^e as a Q *)
let q_of_me (m : int) (e : int) : q =
  if m = 0 then { qnum = Z0; qden = XH }
  else if e >= 0 then
    { qnum = (if m > 0 then Zpos (shiftl_pos (pos_of_int m) e) else Zneg (shiftl_pos (pos_of_int (-m)) e)); qden = XH }
  else { qnum = z_of_int m; qden = shiftl_pos XH (-e) }

let parse_me (s : string) : q =
  match String.split_on_char ':' s with
  | [m; e] -> q_of_me (int_of_string m) (int_of_string e)
  | _ -> failwith ("bad number " ^ s)

let parse_x (s : string) : xq =
  match s with
  | "nan" -> NaN
  | "inf" -> PInf
  | "-inf" -> NInf
  | _ -> Fin (parse_me s)

(* positive -> float with exponent handling for numbers far outside the double range *)
let rec pos_bits (p : positive) (acc : bool list) : bool list =   (* most significant first *)
  match p with XH -> true :: acc | XO q -> pos_bits q (false :: acc) | XI q -> pos_bits q (true :: acc)
let pos_to_me (p : positive) : float * int =
  let bits = pos_bits p [] in
  let len = List.length bits in
  let rec take k l acc = if k = 0 then acc else match l with [] -> acc | b :: t -> take (k - 1) t (2.0 *. acc +. (if b then 1.0 else 0.0)) in
  let k = min len 60 in
  (take k bits 0.0, len - k)
let q_to_float (x : q) : float =
  match x.qnum with
  | Z0 -> 0.0
  | Zpos p | Zneg p ->
    let (mn, en) = pos_to_me p in
    let (md, ed) = pos_to_me x.qden in
    let v = ldexp (mn /. md) (en - ed) in
    (match x.qnum with Zneg _ -> -. v | _ -> v)

let status_str = function Ftol -> "Ftol" | Ptol -> "Ptol" | MaxIters -> "MaxIters"

let pattern (evs : event list) : string =
  String.concat "" (List.rev_map (fun e ->
    (if e.e_take then "T" else "F") ^ (if e.e_stepped then "S" else "-") ^
    (match e.e_conv with Some Ftol -> "f" | Some Ptol -> "p" | Some MaxIters -> "m" | None -> "-")) evs)

let last_ceres = ref ceres_init
let last_disney = ref disney_init
let last_script : script ref = ref []

let fixed = if Array.length Sys.argv > 2 && Sys.argv.(2) = "pre-16638da" then false else code_now

let () =
  let ic = if Array.length Sys.argv > 1 then open_in Sys.argv.(1) else stdin in
  (try
    while true do
      let line = input_line ic in
      let toks = Array.of_list (List.filter (fun s -> s <> "") (String.split_on_char ' ' line)) in
      if Array.length toks > 0 then begin
        let pos = ref 0 in
        let next () = let t = toks.(!pos) in incr pos; t in
        let id = next () in
        let strat = next () in
        let cont = next () = "1" in
        let maxit = int_of_string (next ()) in
        let ptol = parse_me (next ()) in
        let ftol = parse_me (next ()) in
        let c0 = parse_me (next ()) in
        let delta0 = parse_me (next ()) in
        let reduce0 = parse_me (next ()) in
        let nscript = int_of_string (next ()) in
        let script = List.init nscript (fun _ -> let t = next () = "1" in let d = parse_me (next ()) in (t, d)) in
        let niter = int_of_string (next ()) in
        let orcs = List.init niter (fun i ->
          let rnz = next () = "1" in
          let actu = parse_x (next ()) in
          let pred = parse_x (next ()) in
          let rho = parse_x (next ()) in
          let dnorm = parse_x (next ()) in
          let n = int_of_string (next ()) in
          let cn = parse_me (next ()) in
          { o_rn_zero = rnz; o_actu = actu; o_pred = pred; o_rho = rho; o_dnorm = dnorm; o_n = z_of_int n;
            o_xp = z_of_int (i + 1); o_cost_new = cn }) in
        let opts = { ptol = ptol; ftol = ftol; max_iter = nat_of_int maxit } in
        let out status iter cbs evs fdelta =
          let deltas = List.rev_map (fun e -> Printf.sprintf "%.17g" (q_to_float e.e_delta)) evs in
          Printf.printf "%s %s %d %d [%s] %.17g %s\n" id (status_str status) iter (List.length cbs) (pattern evs)
            fdelta (String.concat " " deltas) in
        (match strat with
         | "C" ->
           let s0 = if cont then !last_ceres else { c_delta = delta0; c_reduce = reduce0 } in
           let r = replay_ceres opts fixed orcs c0 s0 in
           last_ceres := r.sstate;
           out (result_status r) (int_of_nat (result_iter r)) r.cbs r.evs (q_to_float r.sstate.c_delta)
         | "D" ->
           let s0 = if cont then !last_disney else delta0 in
           let r = replay_disney opts fixed orcs c0 s0 in
           last_disney := r.sstate;
           out (result_status r) (int_of_nat (result_iter r)) r.cbs r.evs (q_to_float r.sstate)
         | _ ->
           let s0 = if cont then !last_script else script in
           let r = replay_scripted opts fixed orcs c0 s0 in
           last_script := r.sstate;
           out (result_status r) (int_of_nat (result_iter r)) r.cbs r.evs (q_to_float (script_delta r.sstate)))
      end
    done
  with End_of_file -> ())
