Require Import ExtrOcamlBasic.
From SV Require Import Model.C10_Assembly.
Extraction "model.ml" sll_exact str_exact sll_certified colwise_sqnorm_dense colwise_sqnorm_sparse to_sparse.
