(* C10 driver: reads the cases written by harness/h_c10.cpp (mode corr), runs the extracted exact model
   (Coq's own nat / positive / Z / Q datatypes), prints one canonical line per case.
   case line:  <L|T|C> m n  J(row-major, m*n numbers)  d(n)  r(m)  lambda-or-Delta    each number: num den
   result:     L idx cert <0|1> x n q.. num q sq q y-cert        (q = sign binary-numerator / binary-denominator)
               T idx cert <0|1> x n q.. lambda q
               C idx cd n q.. cs n q..                                                           *)
open Model

let rec pos_of_int n = if n <= 1 then XH else if n land 1 = 0 then XO (pos_of_int (n lsr 1)) else XI (pos_of_int (n lsr 1))
let z_of_int n = if n = 0 then Z0 else if n > 0 then Zpos (pos_of_int n) else Zneg (pos_of_int (-n))
let rec nat_of_int n = if n = 0 then O else S (nat_of_int (n - 1))
let q_of num den = { qnum = z_of_int num; qden = pos_of_int den }

let bits_of_pos p =
  let b = Buffer.create 64 in
  let rec go p acc = match p with
    | XH -> '1' :: acc
    | XO p' -> go p' ('0' :: acc)
    | XI p' -> go p' ('1' :: acc) in
  List.iter (Buffer.add_char b) (go p []);
  Buffer.contents b

let str_of_q q =
  let q = qred q in
  let n = match q.qnum with
    | Z0 -> "0"
    | Zpos p -> bits_of_pos p
    | Zneg p -> "-" ^ bits_of_pos p in
  n ^ "/" ^ bits_of_pos q.qden

let print_vec tag v =
  Printf.printf " %s %d" tag (List.length v);
  List.iter (fun q -> Printf.printf " %s" (str_of_q q)) v

let () =
  let ic = if Array.length Sys.argv > 1 then open_in Sys.argv.(1) else stdin in
  let idx = ref 0 in
  (try
    while true do
      let line = input_line ic in
      let toks = Array.of_list (List.filter (fun s -> s <> "") (String.split_on_char ' ' line)) in
      if Array.length toks > 0 then begin
        let mode = toks.(0) in
        let m = int_of_string toks.(1) and n = int_of_string toks.(2) in
        let pos = ref 3 in
        let next_q () =
          let a = int_of_string toks.(!pos) and b = int_of_string toks.(!pos + 1) in
          pos := !pos + 2; q_of a b in
        let rec take k = if k = 0 then [] else let x = next_q () in x :: take (k - 1) in
        let rec rows k = if k = 0 then [] else let r = take n in r :: rows (k - 1) in
        let j = rows m in
        let d = take n in
        let r = take m in
        let last = next_q () in
        let mn = nat_of_int m and nn = nat_of_int n in
        (match mode with
         | "L" ->
           let o = sll_exact mn nn j d r last in
           let cert = sll_certified mn nn j d r last o in
           Printf.printf "L %d cert %d" !idx (if cert then 1 else 0);
           print_vec "x" o.out_x;
           Printf.printf " num %s sq %s" (str_of_q o.out_dphi_num) (str_of_q o.out_dphi_sq)
         | "T" ->
           let (x, lam) = str_exact mn nn j d r last in
           let o = sll_exact mn nn j d r lam in
           let cert = sll_certified mn nn j d r lam o && (o.out_x = x) in
           Printf.printf "T %d cert %d" !idx (if cert then 1 else 0);
           print_vec "x" x;
           Printf.printf " lambda %s" (str_of_q lam)
         | _ ->
           Printf.printf "C %d" !idx;
           print_vec "cd" (colwise_sqnorm_dense mn nn j);
           print_vec "cs" (colwise_sqnorm_sparse nn (to_sparse mn nn j)));
        print_newline ();
        incr idx
      end
    done
  with End_of_file -> ())
