Require Import ExtrOcamlBasic.
From SV Require Import Model.C12_SplineBook Model.C12_Inst.
Extraction "model.ml" mkV2 v2x v2y i_empty i_new i_cv i_fc i_make_local i_cg i_cl i_crop i_crop_div0 i_eval i_obs i_arc_parts.
