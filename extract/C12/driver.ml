(* C12 model driver: reads the operation file written by harness/h_c12corr.cpp, executes it on the extracted
   Coq model (Model.C12_Inst: G = Qc x Qc, Bernstein-cumulative polynomial segments, exact rational arithmetic)
   and prints one canonical result line per observing operation:  "<line-number> <kind> <rationals as hex n/d>". *)
open Model

let rec pos_of_int (n : int) : positive =
  if n = 1 then XH else if n land 1 = 0 then XO (pos_of_int (n lsr 1)) else XI (pos_of_int (n lsr 1))
let z_of_int (n : int) : z = if n = 0 then Z0 else if n > 0 then Zpos (pos_of_int n) else Zneg (pos_of_int (-n))
let rec nat_of_int (n : int) : nat = if n <= 0 then O else S (nat_of_int (n - 1))
let rec int_of_nat (n : nat) : int = match n with O -> 0 | S m -> 1 + int_of_nat m

let q_of_string (s : string) : q =
  match String.split_on_char '/' s with
  | [a; b] -> { qnum = z_of_int (int_of_string a); qden = pos_of_int (int_of_string b) }
  | [a] -> { qnum = z_of_int (int_of_string a); qden = XH }
  | _ -> failwith ("bad rational " ^ s)

(* positive -> hexadecimal string (exact, arbitrary size) *)
let hex_of_pos (p : positive) : string =
  let rec bits p acc = match p with XH -> 1 :: acc | XO p' -> bits p' (0 :: acc) | XI p' -> bits p' (1 :: acc) in
  (* bits returns LSB-first reversed = MSB ... no: we cons while descending from the LSB, so the head is the MSB *)
  let bl = bits p [] in
  let n = List.length bl in
  let pad = (4 - n mod 4) mod 4 in
  let bl = List.init pad (fun _ -> 0) @ bl in
  let buf = Buffer.create 16 in
  let rec go l = match l with
    | a :: b :: c :: d :: r -> Buffer.add_char buf "0123456789abcdef".[a * 8 + b * 4 + c * 2 + d]; go r
    | [] -> ()
    | _ -> failwith "hex" in
  go bl; Buffer.contents buf

let str_of_q (x : q) : string =
  let num = match x.qnum with Z0 -> "0" | Zpos p -> hex_of_pos p | Zneg p -> "-" ^ hex_of_pos p in
  num ^ "/" ^ hex_of_pos x.qden

let str_of_v v = str_of_q (v2x v) ^ " " ^ str_of_q (v2y v)

let () =
  let ic = if Array.length Sys.argv > 1 then open_in Sys.argv.(1) else stdin in
  let k = ref 3 in
  let mkflags a b c d = { fx_crop_idx = a; fx_crop_frame = b; fx_cv = c; fx_make_local = d } in
  let fl = ref (mkflags false false false false) in
  let reg = Array.make 3 (i_empty (mkV2 (q_of_string "0") (q_of_string "0"))) in
  let line = ref 0 in
  (try
     while true do
       let l = input_line ic in
       incr line;
       let tok = Array.of_list (List.filter (fun s -> s <> "") (String.split_on_char ' ' l)) in
       let qi i = q_of_string tok.(i) in
       let vi i = mkV2 (qi i) (qi (i + 1)) in
       let ri i = int_of_string tok.(i) in
       let b i = tok.(i) = "1" in
       (match tok.(0) with
        | "FLAGS" ->
          fl := mkflags (b 1) (b 2) (b 3) (b 4);
          Printf.printf "%d flags %s %s %s %s\n" !line tok.(1) tok.(2) tok.(3) tok.(4)
        | "K" ->
          k := ri 1;
          Array.fill reg 0 3 (i_empty (mkV2 (q_of_string "0") (q_of_string "0")))
        | "new" ->
          let r = ri 1 in
          let t = qi 2 in
          let vs = List.init !k (fun j -> vi (3 + 2 * j)) in
          reg.(r) <- i_new t vs (vi (3 + 2 * !k))
        | "empty" -> reg.(ri 1) <- i_empty (vi 2)
        | "cv" -> reg.(ri 1) <- i_cv (nat_of_int !k) !fl (vi 2) (qi 4) (vi 5)
        | "fc" -> reg.(ri 1) <- i_fc (vi 2) (vi 4) (vi 6) (qi 8) (vi 9)
        | "cl" -> reg.(ri 1) <- i_cl reg.(ri 1) reg.(ri 2)
        | "cg" -> reg.(ri 1) <- i_cg reg.(ri 1) reg.(ri 2)
        | "ml" -> reg.(ri 1) <- i_make_local !fl reg.(ri 1)
        | "crop" ->
          let x = reg.(ri 2) in
          if i_crop_div0 !fl x (qi 3) (qi 4) then Printf.printf "%d crop nan\n" !line
          else begin
            reg.(ri 1) <- i_crop !fl x (qi 3) (qi 4) (b 5);
            Printf.printf "%d crop ok\n" !line
          end
        | "obs" ->
          let (((n, tm), g0), ge) = i_obs reg.(ri 1) in
          Printf.printf "%d obs %d %s %s %s\n" !line (int_of_nat n) (str_of_q tm) (str_of_v g0) (str_of_v ge)
        | "eval" ->
          let ((g, v), a) = i_eval reg.(ri 1) (qi 2) in
          Printf.printf "%d eval %s %s %s\n" !line (str_of_v g) (str_of_v v) (str_of_v a)
        | "arc" ->
          let parts = i_arc_parts reg.(ri 1) (qi 2) in
          let sl l = String.concat "," (List.map str_of_q l) in
          Printf.printf "%d arc %s\n" !line
            (String.concat " " (List.map (fun (((ua, ub), px), py) ->
                 str_of_q ua ^ ";" ^ str_of_q ub ^ ";" ^ sl px ^ ";" ^ sl py) parts))
        | s -> failwith ("unknown op " ^ s))
     done
   with End_of_file -> ())
