Require Import ExtrOcamlBasic.
From Coq Require Import ZArith QArith.
From SV Require Import Model.C13_BSplineIdx Model.C13_Eval.
Extraction "model.ml" bs_select bs_tmin bs_tmax mono_deriv coefs bs_eval_Q1 Qred Z.of_nat Z.to_nat Nat.add.
