(* C13 driver: runs the extracted Gallina model (Model.C13_BSplineIdx / Model.C13_Eval) on the cases of a case file.
   Numbers are exchanged as hexadecimal integers / fractions "[-]hex/hex"; Z, positive, Q, nat stay Coq's datatypes
   (conversion to and from text is bit by bit, no arithmetic outside the model). *)
open Model

let hexval c = match c with
  | '0'..'9' -> Char.code c - 48
  | 'a'..'f' -> Char.code c - 87
  | 'A'..'F' -> Char.code c - 55
  | _ -> failwith "hex digit"

(* bits, most significant first, leading zeros dropped *)
let bits_of_hex (s : string) : bool list =
  let l = ref [] in
  String.iter (fun c -> let v = hexval c in
    l := (v land 1 = 1) :: (v land 2 = 2) :: (v land 4 = 4) :: (v land 8 = 8) :: !l) s;
  let rec drop = function false :: r -> drop r | x -> x in
  drop (List.rev !l)

let pos_of_bits (b : bool list) : positive =
  match b with
  | [] -> failwith "positive: zero"
  | _ :: r -> List.fold_left (fun p bit -> if bit then XI p else XO p) XH r

let z_of_string (s : string) : z =
  let neg = String.length s > 0 && s.[0] = '-' in
  let body = if neg then String.sub s 1 (String.length s - 1) else s in
  match bits_of_hex body with
  | [] -> Z0
  | b -> let p = pos_of_bits b in if neg then Zneg p else Zpos p

let q_of_string (s : string) : q =
  match String.index_opt s '/' with
  | None -> { qnum = z_of_string s; qden = XH }
  | Some i ->
    let n = z_of_string (String.sub s 0 i) in
    let d = String.sub s (i + 1) (String.length s - i - 1) in
    { qnum = n; qden = pos_of_bits (bits_of_hex d) }

let rec bits_of_pos (p : positive) (acc : bool list) : bool list =   (* most significant first *)
  match p with XH -> true :: acc | XO p' -> bits_of_pos p' (false :: acc) | XI p' -> bits_of_pos p' (true :: acc)

let hex_of_bits (b : bool list) : string =
  let n = List.length b in
  let pad = (4 - n mod 4) mod 4 in
  let b = (List.init pad (fun _ -> false)) @ b in
  let buf = Buffer.create 16 in
  let rec go = function
    | b3 :: b2 :: b1 :: b0 :: r ->
      let v = (if b3 then 8 else 0) + (if b2 then 4 else 0) + (if b1 then 2 else 0) + (if b0 then 1 else 0) in
      Buffer.add_char buf "0123456789abcdef".[v]; go r
    | [] -> ()
    | _ -> failwith "hex_of_bits" in
  go b; Buffer.contents buf

let string_of_pos p = hex_of_bits (bits_of_pos p [])
let string_of_z = function Z0 -> "0" | Zpos p -> string_of_pos p | Zneg p -> "-" ^ string_of_pos p
let string_of_q (x : q) = let x = qred x in string_of_z x.qnum ^ "/" ^ string_of_pos x.qden

let rec nat_of_int n = if n <= 0 then O else S (nat_of_int (n - 1))
let z_of_int n = z_of_string (Printf.sprintf "%s%x" (if n < 0 then "-" else "") (abs n))

let mats : (int, q list list) Hashtbl.t = Hashtbl.create 8

let rec take n l = if n = 0 then [] else match l with x :: r -> x :: take (n - 1) r | [] -> []
let rec drop n l = if n = 0 then l else match l with _ :: r -> drop (n - 1) r | [] -> []
let rec rows k l = match l with [] -> [] | _ -> take k l :: rows k (drop k l)

let () =
  let ic = if Array.length Sys.argv > 1 then open_in Sys.argv.(1) else stdin in
  (try
    while true do
      let line = input_line ic in
      let tok = List.filter (fun s -> s <> "") (String.split_on_char ' ' line) in
      match tok with
      | "MAT" :: k :: entries ->
        let k = int_of_string k in
        Hashtbl.replace mats k (rows (k + 1) (List.map q_of_string entries))
      | "SEL" :: id :: k :: n :: t0 :: dt :: t :: [] ->
        let kz = z_of_int (int_of_string k) and nz = z_of_int (int_of_string n) in
        let t0 = q_of_string t0 and dt = q_of_string dt and t = q_of_string t in
        let (i, u) = bs_select kz nz t0 dt t in
        Printf.printf "SEL %s %s %s %s %s\n" id (string_of_z i) (string_of_q u)
          (string_of_q (bs_tmin t0)) (string_of_q (bs_tmax kz nz t0 dt))
      | "EVAL" :: id :: k :: n :: t0 :: dt :: t :: cs ->
        let ki = int_of_string k in
        let _ = n in
        let m = Hashtbl.find mats ki in
        let ((g, w), a) = bs_eval_Q1 m (nat_of_int ki) (List.map q_of_string cs)
                            (q_of_string t0) (q_of_string dt) (q_of_string t) in
        Printf.printf "EVAL %s %s %s %s\n" id (string_of_q g) (string_of_q w) (string_of_q a)
      | "MONO" :: id :: k :: u :: [] ->
        let kn = nat_of_int (int_of_string k) in
        let u = q_of_string u in
        let row p = List.map string_of_q (mono_deriv kn (nat_of_int p) u) in
        Printf.printf "MONO %s %s\n" id (String.concat " " (row 0 @ row 1 @ row 2))
      | [] -> ()
      | _ -> Printf.printf "BAD %s\n" line
    done
  with End_of_file -> ())
