Require Import ExtrOcamlBasic.
From Coq Require Import QArith.
From SV Require Import Model.C14_Fit1d Model.C14_Dubins Model.C14_Reparam Model.C14_Misc.
Definition a_rows_id (id : nat) := A_rows (spec_of_id id).
Definition b_vec_id (id : nat) := b_vec (spec_of_id id).
Extraction "model.ml" residual_id a_rows_id b_vec_id n_eq_id n_coef_id dubins_select dubins_angle len_of fwd_step acc_bound init_v2m reparam seg_val seg_du num_pts bs_istar bs_tmin bs_tmax bwd_rows rows_ok v2max_of_lp Qred.
