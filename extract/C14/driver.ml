(* C14 correspondence driver: runs the extracted Gallina models (Model/C14_*.v) on the cases written by the C++
   harnesses (hex-float inputs = exact dyadic rationals) and prints one canonical result line per case.
   Z / Q / positive / nat are Coq's extracted datatypes; floats appear only when printing results and in the
   `sq` argument of the reparameterisation model (binary64 sqrt of the rounded radicand, returned as an exact dyadic). *)
open Model

let rec pos_of_int (n : int) : positive =
  if n <= 1 then XH else if n land 1 = 0 then XO (pos_of_int (n lsr 1)) else XI (pos_of_int (n lsr 1))
let z_of_int (n : int) : z = if n = 0 then Z0 else if n > 0 then Zpos (pos_of_int n) else Zneg (pos_of_int (-n))
let rec nat_of_int (n : int) : nat = if n <= 0 then O else S (nat_of_int (n - 1))
let rec int_of_nat (n : nat) : int = match n with O -> 0 | S m -> 1 + int_of_nat m
let rec pos_shift (p : positive) (k : int) : positive = if k <= 0 then p else pos_shift (XO p) (k - 1)
let z_shift (x : z) (k : int) : z = match x with Z0 -> Z0 | Zpos p -> Zpos (pos_shift p k) | Zneg p -> Zneg (pos_shift p k)

(* exact rational value of a binary64 *)
let q_of_float (f : float) : q =
  if f = 0.0 then { qnum = Z0; qden = XH }
  else begin
    let (m, e) = Float.frexp f in
    let mi = ref (Int64.to_int (Int64.of_float (Float.ldexp m 53))) in
    let ex = ref (e - 53) in
    while !mi land 1 = 0 do mi := !mi asr 1; incr ex done;
    if !ex >= 0 then { qnum = z_shift (z_of_int !mi) !ex; qden = XH }
    else { qnum = z_of_int !mi; qden = pos_shift XH (- !ex) }
  end

(* positive -> (mantissa in [0.5,1), exponent) without overflow *)
let pos_to_fe (p : positive) : float * int =
  let rec bits p acc = match p with XH -> 1 :: acc | XO r -> bits r (0 :: acc) | XI r -> bits r (1 :: acc) in
  let bl = bits p [] in  (* MSB first *)
  let n = List.length bl in
  let rec take l k acc = match l with [] -> acc | b :: r -> if k = 0 then acc else take r (k - 1) (acc *. 2.0 +. float_of_int b) in
  let used = min n 64 in
  let v = take bl used 0.0 in
  (* value ~ v * 2^(n-used) *)
  let (m, e) = Float.frexp v in (m, e + (n - used))
let float_of_q (x : q) : float =
  match x.qnum with
  | Z0 -> 0.0
  | Zpos p -> let (m1, e1) = pos_to_fe p in let (m2, e2) = pos_to_fe x.qden in Float.ldexp (m1 /. m2) (e1 - e2)
  | Zneg p -> let (m1, e1) = pos_to_fe p in let (m2, e2) = pos_to_fe x.qden in -. Float.ldexp (m1 /. m2) (e1 - e2)

let rec take_n l n = if n = 0 then ([], l) else match l with [] -> failwith "short line" | x :: r -> let (a, b) = take_n r (n - 1) in (x :: a, b)
let qs l = List.map (fun s -> q_of_float (float_of_string s)) l
let qabs_f x = Float.abs x

(* ---------------------------------------------------------------- fit_spline_1d *)
let do_f1d toks =
  match toks with
  | case :: spec :: n :: rest ->
      let n = int_of_string n and spec = int_of_string spec in
      let (dt, rest) = take_n rest n in
      let (dx, rest) = take_n rest n in
      let (nl, rest) = (int_of_string (List.hd rest), List.tl rest) in
      let (lv, rest) = take_n rest nl in
      let (nr, rest) = (int_of_string (List.hd rest), List.tl rest) in
      let (rv, rest) = take_n rest nr in
      let (nc, rest) = (int_of_string (List.hd rest), List.tl rest) in
      let (x, _) = take_n rest nc in
      let id = nat_of_int spec in
      let xfl = List.map float_of_string x in
      if List.exists (fun v -> Float.is_nan v || Float.is_integer v && Float.abs v = Float.infinity) xfl
         || List.exists (fun v -> Float.abs v = Float.infinity) xfl then
        Printf.printf "F1D %s NONFINITE\n" case
      else
      let dtq = qs dt and dxq = qs dx and lvq = qs lv and rvq = qs rv and xq = qs x in
      let xf = Array.of_list (List.map float_of_string x) in
      let rows = a_rows_id id dtq dxq in
      let b = b_vec_id id dtq dxq lvq rvq in
      let neq = int_of_nat (n_eq_id id (nat_of_int n)) and ncoef = int_of_nat (n_coef_id id (nat_of_int n)) in
      (* r_i = A_i x - b_i with the model's exact rational coefficients rounded to binary64 and the dot product in
         binary64 (error <= ~1e-15 * scale_i, far below the 1e-9 / 1e-6 thresholds of the comparator);
         scale_i = ||A_i||_1 * max_j |x_j| (whole coefficient vector = data scale) + |b_i| *)
      let xglob = Array.fold_left (fun a v -> Float.max a (qabs_f v)) 0.0 xf in
      let rs = List.map2 (fun (r : (nat * q list) list) bi ->
          let l1 = ref 0.0 and xm = ref xglob and acc = ref 0.0 in
          List.iter (fun (off, cs) ->
              let o = int_of_nat off in
              List.iteri (fun j c -> let cf = float_of_q c in
                           if cf <> 0.0 && o + j < Array.length xf then begin
                             l1 := !l1 +. qabs_f cf;
                             acc := !acc +. cf *. xf.(o + j);
                             end) cs) r;
          let bf = float_of_q bi in
          (!acc -. bf, !l1 *. !xm +. qabs_f bf)) rows b in
      Printf.printf "F1D %s %d %d %d" case neq ncoef (List.length rows);
      List.iter (fun (r, sc) -> Printf.printf " %h %h" r sc) rs;
      (* small cases: additionally the model's own exact-Q residual function *)
      if n <= 2 && List.for_all (fun v -> v = 0.0 || (Float.abs v > 1e-100 && Float.abs v < 1e100)) xfl then begin
        let res = residual_id id dtq dxq lvq rvq xq in
        Printf.printf " EXACT";
        List.iter (fun r -> Printf.printf " %h" (float_of_q r)) res
      end;
      print_newline ()
  | _ -> failwith "bad F1D line"

(* ---------------------------------------------------------------- dubins word selection *)
let cand_of toks = match toks with
  | "inf" :: rest -> (None, rest)
  | a :: b :: c :: rest -> (Some ((q_of_float (float_of_string a), q_of_float (float_of_string b)), q_of_float (float_of_string c)), rest)
  | _ -> failwith "bad cand"
let seg_name = function SLeft -> "L" | SStraight -> "S" | SRight -> "R"
let do_dub toks =
  match toks with
  | case :: r :: rest ->
      let rq = q_of_float (float_of_string r) in
      let (c0, rest) = cand_of rest in let (c1, rest) = cand_of rest in let (c2, rest) = cand_of rest in
      let (c3, rest) = cand_of rest in let (c4, rest) = cand_of rest in let (c5, _) = cand_of rest in
      let cands = [| c0; c1; c2; c3; c4; c5 |] in
      (match dubins_select rq c0 c1 c2 c3 c4 c5 with
       | None -> Printf.printf "DUB %s none\n" case
       | Some d ->
           Printf.printf "DUB %s %d %h" case (int_of_nat d.d_word) (float_of_q d.d_len);
           List.iter (fun (s, l) -> Printf.printf " %s %h" (seg_name s) (float_of_q l)) d.d_desc;
           (* all six lengths, for near-tie classification by the comparator *)
           Array.iteri (fun j c -> match c with
               | None -> Printf.printf " inf"
               | Some t -> Printf.printf " %h" (float_of_q (len_of rq (nat_of_int j) t))) cands;
           print_newline ())
  | _ -> failwith "bad DUB line"

(* ---------------------------------------------------------------- reparameterisation forward pass *)
let sq_f (x : q) : q = q_of_float (Float.sqrt (float_of_q x))
let oq s = if s = "inf" then None else Some (q_of_float (float_of_string s))
let do_rep toks =
  match toks with
  | case :: s0 :: ds :: n :: start :: tmax :: dof :: rest ->
      let n = int_of_string n and dof = int_of_string dof in
      let (v2, rest) = take_n rest (n + 1) in
      let v2max = List.map oq v2 in
      let (amin, rest) = take_n rest dof in
      let (amax, rest) = take_n rest dof in
      let rec dofs k rest = if k = 0 then [] else
          let (row, rest) = take_n rest (2 * dof) in
          let rec pairs l = match l with a :: b :: r -> (q_of_float (float_of_string a), q_of_float (float_of_string b)) :: pairs r | _ -> [] in
          pairs row :: dofs (k - 1) rest in
      let dl = dofs n rest in
      let s0q = q_of_float (float_of_string s0) and dsq = q_of_float (float_of_string ds) in
      let aminq = qs amin and amaxq = qs amax in
      (* fwd_loop of the model, iterated here so that the carried state v2m can be rounded to binary64 between the
         steps (as the implementation does); unreduced exact fractions double in size per step and Coq's extracted
         gcd is too slow to normalise them *)
      let rnd x = q_of_float (float_of_q x) in
      let v2m = ref (rnd (init_v2m (q_of_float (float_of_string start)) v2max)) in
      Printf.printf "REP %s" case;
      for i = 0 to n - 1 do
        let ai = acc_bound dsq v2max dl aminq amaxq (nat_of_int i) !v2m in
        let st = fwd_step sq_f s0q dsq (nat_of_int i) !v2m ai in
        (match st.t_seg with
         | None -> Printf.printf " skip"
         | Some g -> Printf.printf " seg %h %h %h %h" (float_of_q g.g_dt) (float_of_q g.g_v1) (float_of_q g.g_v2) (float_of_q g.g_g0));
        v2m := rnd st.t_v2out
      done;
      Printf.printf " end %s\n" tmax
  | _ -> failwith "bad REP line"

(* ---------------------------------------------------------------- backward LP rows of reparameterize_spline *)
(* LPR case i ds ynext dof [vel acc]*dof vmin*dof vmax*dof amin*dof amax*dof ROWS ...   (the part after ROWS - the rows
   the library handed to lp2d::solve and the solver's answer - is read by the comparator, not here) *)
let do_lpr toks =
  match toks with
  | case :: i :: ds :: ynext :: dof :: rest ->
      if ynext = "nan" then Printf.printf "LPR %s %s skip\n" case i
      else begin
        let dof = int_of_string dof in
        let (va, rest) = take_n rest (2 * dof) in
        let rec pairs l = match l with a :: b :: r -> (q_of_float (float_of_string a), q_of_float (float_of_string b)) :: pairs r | _ -> [] in
        let (vmin, rest) = take_n rest dof in
        let (vmax, rest) = take_n rest dof in
        let (amin, rest) = take_n rest dof in
        let (amax, _) = take_n rest dof in
        let rows = bwd_rows (q_of_float (float_of_string ds)) (oq ynext) (pairs va) (qs vmin) (qs vmax) (qs amin) (qs amax) in
        Printf.printf "LPR %s %s %d" case i (List.length rows);
        List.iter (fun ((c0, c1), b) ->
            Printf.printf " %h %h %s" (float_of_q c0) (float_of_q c1)
              (match b with None -> "inf" | Some v -> Printf.sprintf "%h" (float_of_q v))) rows;
        print_newline ()
      end
  | _ -> failwith "bad LPR line"

(* ---------------------------------------------------------------- fit_bspline span *)
let rec int_of_pos p = match p with XH -> 1 | XO r -> 2 * int_of_pos r | XI r -> 2 * int_of_pos r + 1
let int_of_z x = match x with Z0 -> 0 | Zpos p -> int_of_pos p | Zneg p -> - (int_of_pos p)
let do_bsp toks =
  match toks with
  | [case; k; t0; t1; dt] ->
      let kz = z_of_int (int_of_string k) in
      let t0q = q_of_float (float_of_string t0) and t1q = q_of_float (float_of_string t1) and dtq = q_of_float (float_of_string dt) in
      let np = num_pts kz t0q t1q dtq in
      Printf.printf "BSP %s %d %h %h\n" case (int_of_z np) (float_of_q (bs_tmin t0q)) (float_of_q (bs_tmax kz t0q dtq np))
  | _ -> failwith "bad BSP line"

let () =
  let ic = if Array.length Sys.argv > 1 then open_in Sys.argv.(1) else stdin in
  (try
     while true do
       let line = input_line ic in
       let toks = List.filter (fun s -> s <> "") (String.split_on_char ' ' line) in
       match toks with
       | "F1D" :: r -> do_f1d r
       | "DUB" :: r -> do_dub r
       | "REP" :: r -> do_rep r
       | "BSP" :: r -> do_bsp r
       | "LPR" :: r -> do_lpr r
       | _ -> ()
     done
   with End_of_file -> ())
