Require Import ExtrOcamlBasic.
From SV Require Import Model.C15_History.
Extraction "model.ml" tsize_trace rdepth_trace linear tsize squaring.
