(* C15: runs the extracted bookkeeping functions of Model/C15_History.v (tsize_trace, rdepth_trace, linear) on the
   program shapes written by the harness and prints the same canonical trace:
     prog <id> / t <tree size> <reuse depth> (one per operation) / end <linear?>
   Z stays Coq's binary integers; they are printed saturated at 2^61 like the harness does. *)
open Model

let rec nat_of_int n = if n <= 0 then O else S (nat_of_int (n - 1))

let cap = 1 lsl 61
let rec pos_to_int_sat p =
  match p with
  | XH -> 1
  | XO q -> let r = pos_to_int_sat q in if r >= cap / 2 then cap else 2 * r
  | XI q -> let r = pos_to_int_sat q in if r >= cap / 2 then cap else 2 * r + 1
let z_to_int_sat z = match z with Z0 -> 0 | Zpos p -> min cap (pos_to_int_sat p) | Zneg _ -> -1

(* conv := bool (is the conversion a fresh, re-normalising one?), sort = ctor = payload = unit *)
let conv_fresh (c : bool) = c

let parse_op toks =
  let r i = nat_of_int (int_of_string (List.nth toks i)) in
  match List.hd toks with
  | "K" -> OCtor (r 1, (), ())
  | "E" -> OExp (r 1, (), ())
  | "C" -> OComp (r 1, r 2, r 3)
  | "I" -> OInv (r 1, r 2)
  | "P" -> ORplus (r 1, r 2, ())
  | "M" -> OMulAssign (r 1, r 2)
  | "A" -> OPlusAssign (r 1, ())
  | "V" -> OConv (r 1, (List.nth toks 3 = "1"), r 2)
  | "S" -> OScaleSum (r 1, r 2, (), [])
  | t -> failwith ("bad token " ^ t)

let () =
  let ic = if Array.length Sys.argv > 1 then open_in Sys.argv.(1) else stdin in
  let cur = ref [] in
  (try
     while true do
       let line = String.trim (input_line ic) in
       if line <> "" then begin
         let toks = String.split_on_char ' ' line in
         match List.hd toks with
         | "prog" -> cur := []; Printf.printf "prog %s\n" (List.nth toks 1)
         | "end" ->
             let p = List.rev !cur in
             let ts = tsize_trace conv_fresh p (fun _ -> Z0) in
             let dp = rdepth_trace conv_fresh p (fun _ -> false) (fun _ -> Z0) in
             List.iter2 (fun a b -> Printf.printf "t %d %d\n" (z_to_int_sat a) (z_to_int_sat b)) ts dp;
             Printf.printf "end %d\n" (if linear conv_fresh p (fun _ -> false) then 1 else 0)
         | _ -> cur := parse_op toks :: !cur
       end
     done
   with End_of_file -> ())
