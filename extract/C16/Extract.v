(* C16: extraction of the executable memory model to OCaml (no directives beyond ExtrOcamlBasic:
   nat, positive, Z stay Coq's inductive datatypes). *)
Require Import ExtrOcamlBasic.
From SV Require Import Model.C16_Layout.
Extraction "model.ml" mkView load store subview exec_w exec result_r run lww wops wf_op inview.
