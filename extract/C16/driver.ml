(* C16 correspondence driver: replays the operation trace written by harness/h_c16.cpp on the memory model
   extracted from coq/Model/C16_Layout.v and compares the model memory with the real memory after every call.
   usage: driver <trace> <layout table>      (layout table: lines "G group repsize" / "A group path off size",
                                               written by scripts/props_C16.py from the MEASURED table)
   Cells are the integer values of the scalars' bit patterns (Coq Z); nat/positive/Z are Coq's datatypes. *)
open Model

let rec nat_of_int n = if n <= 0 then O else S (nat_of_int (n - 1))
let rec int_of_nat = function O -> 0 | S n -> 1 + int_of_nat n

let rec pos_of_int64 (n : int64) : positive =
  if n = 1L then XH
  else
    let r = pos_of_int64 (Int64.shift_right_logical n 1) in
    if Int64.logand n 1L = 1L then XI r else XO r

let z_of_bits (n : int64) : z = if n = 0L then Z0 else Zpos (pos_of_int64 n)

let rec int64_of_pos = function
  | XH -> 1L
  | XO p -> Int64.shift_left (int64_of_pos p) 1
  | XI p -> Int64.logor (Int64.shift_left (int64_of_pos p) 1) 1L

let bits_of_z = function Z0 -> 0L | Zpos p -> int64_of_pos p | Zneg _ -> failwith "negative cell"

let view o l = { voff = nat_of_int o; vlen = nat_of_int l }
let words s = List.filter (fun w -> w <> "") (String.split_on_char ' ' s)
let hexs s = List.map (fun w -> Int64.of_string ("0x" ^ w)) (words s)
let cells s = List.map z_of_bits (hexs s)

(* ulp distance <= tol for bit patterns of width w (64 or 32) *)
let within w tol (a : int64) (b : int64) =
  if a = b then true
  else
    let sign = Int64.shift_left 1L (w - 1) in
    let mask = Int64.sub sign 1L in
    let sa = Int64.logand a sign <> 0L and sb = Int64.logand b sign <> 0L in
    let ma = Int64.logand a mask and mb = Int64.logand b mask in
    let t = Int64.of_int tol in
    if sa = sb then
      let d = Int64.sub ma mb in
      let d = if Int64.compare d 0L < 0 then Int64.neg d else d in
      Int64.compare d t <= 0 && Int64.compare d 0L >= 0
    else Int64.compare ma t <= 0 && Int64.compare mb t <= 0 && Int64.compare (Int64.add ma mb) t <= 0

type pending = Exact | Tol of view * int | Alias of view | Nothing

let () =
  let trace = open_in Sys.argv.(1) in
  let tbl = Hashtbl.create 97 and reps = Hashtbl.create 17 in
  (let ic = open_in Sys.argv.(2) in
   try
     while true do
       let l = input_line ic in
       match String.split_on_char '\t' l with
       | [ "G"; g; n ] -> Hashtbl.replace reps g (int_of_string n)
       | [ "A"; g; p; o; s ] -> Hashtbl.replace tbl (g, p) (int_of_string o, int_of_string s)
       | _ -> ()
     done
   with End_of_file -> close_in ic);
  let m = ref [] and hist = ref [] and m0 = ref [] in
  let width = ref 64 and scen = ref 0 and opi = ref 0 and total = ref 0 in
  let pend = ref Nothing in
  let ndiff = ref 0 and nops = ref 0 and nscen = ref 0 and nlww = ref 0 and nloads = ref 0 and scen_diffs = ref 0 in
  let diff kind detail =
    incr ndiff;
    incr scen_diffs;
    if !ndiff <= 40 then Printf.printf "DIFF %d %d %s %s\n" !scen !opi kind detail
  in
  let conv_other (c : z) : z =
    let b = bits_of_z c in
    if !width = 64 then
      (* double -> float, round to nearest even like the hardware conversion *)
      z_of_bits (Int64.logand (Int64.of_int32 (Int32.bits_of_float (Int64.float_of_bits b))) 0xFFFFFFFFL)
    else z_of_bits (Int64.bits_of_float (Int32.float_of_bits (Int64.to_int32 b)))
  in
  let do_op (o : op) =
    incr nops;
    (match wf_op (nat_of_int !total) !m o with true -> () | false -> diff "not_wellformed" "");
    m := exec !m o;
    hist := o :: !hist
  in
  let split3 s =
    match String.split_on_char '|' s with
    | [ a; b; c ] -> (a, b, c)
    | [ a; b ] -> (a, b, "")
    | _ -> (s, "", "")
  in
  (try
     while true do
       let l = input_line trace in
       if String.length l >= 2 then begin
         let tag = l.[0] and rest = String.sub l 2 (String.length l - 2) in
         match tag with
         | 'S' -> (
             match words rest with
             | [ id; _g; sc; tot; _bufn; _n; _mis ] ->
                 scen := int_of_string id;
                 width := if sc = "double" then 64 else 32;
                 total := int_of_string tot;
                 opi := -1;
                 hist := [];
                 scen_diffs := 0;
                 pend := Nothing;
                 incr nscen
             | _ -> failwith ("bad S line: " ^ l))
         | 'M' ->
             m := cells rest;
             m0 := !m;
             if List.length !m <> !total then diff "bad_initial_memory" ""
         | 'W' -> (
             incr opi;
             match words rest with
             | o :: n :: data ->
                 do_op (W (WStore (view (int_of_string o) (int_of_string n), List.map (fun w -> z_of_bits (Int64.of_string ("0x" ^ w))) data)));
                 pend := Exact
             | _ -> failwith "bad W")
         | 'C' -> (
             incr opi;
             match words rest with
             | [ d; s; n ] ->
                 let n = int_of_string n in
                 do_op (W (WCopy (view (int_of_string d) n, view (int_of_string s) n)));
                 pend := Exact
             | _ -> failwith "bad C")
         | 'X' -> (
             incr opi;
             match words rest with
             | [ d; n ] -> pend := Alias (view (int_of_string d) (int_of_string n))
             | _ -> failwith "bad X")
         | 'K' -> (
             incr opi;
             let a, b, c = split3 rest in
             match words a with
             | d :: n :: _ns :: srcs ->
                 let rec pairs = function x :: y :: r -> view (int_of_string x) (int_of_string y) :: pairs r | _ -> [] in
                 let inputs = cells b and result = cells c in
                 let dst = view (int_of_string d) (int_of_string n) in
                 let f loaded =
                   if List.concat loaded <> inputs then diff "compute_inputs" "the view does not load the coefficients the value object was given";
                   result
                 in
                 do_op (W (WCompute (dst, pairs srcs, f)));
                 pend := Tol (dst, 4)
             | _ -> failwith "bad K")
         | 'P' | 'Q' -> (
             incr opi;
             let a, b, c = split3 rest in
             match words a with
             | [ o; g; p ] -> (
                 match (Hashtbl.find_opt tbl (g, p), Hashtbl.find_opt reps g) with
                 | Some (ao, asz), Some rs ->
                     (* the accessor's view as MEASURED on the real class, composed by the model's subview *)
                     let v = subview (view (int_of_string o) rs) (view ao asz) in
                     if tag = 'P' then begin
                       do_op (W (WStore (v, cells b)));
                       pend := Exact
                     end
                     else begin
                       let inputs = cells b and result = cells c in
                       let f loaded =
                         if List.concat loaded <> inputs then diff "compute_inputs" ("accessor " ^ p);
                         result
                       in
                       do_op (W (WCompute (v, [ v ], f)));
                       pend := Tol (v, 4)
                     end
                 | _ -> diff "accessor_not_in_table" (g ^ " " ^ p))
             | _ -> failwith "bad P")
         | 'L' -> (
             let a, b, _ = split3 rest in
             match words a with
             | [ o; n ] ->
                 incr nloads;
                 let r = R (RLoad (view (int_of_string o) (int_of_string n))) in
                 (match r with
                  | R ro -> if result_r !m ro <> cells b then diff "load" (Printf.sprintf "view (%s,%s)" o n)
                  | _ -> ());
                 hist := r :: !hist;
                 pend := Exact
             | _ -> failwith "bad L")
         | 'T' -> (
             incr opi;
             let a, b, _ = split3 rest in
             match words a with
             | [ o; n ] ->
                 let ro = RCast (view (int_of_string o) (int_of_string n), conv_other) in
                 incr nops;
                 if result_r !m ro <> cells b then diff "cast" (Printf.sprintf "view (%s,%s)" o n);
                 hist := R ro :: !hist;
                 pend := Exact
             | _ -> failwith "bad T")
         | 'B' -> (
             let impl = hexs rest in
             let implz = List.map z_of_bits impl in
             (match !pend with
              | Alias v ->
                  (* content unspecified by Eigen's aliasing contract: model op = store of the observed bits;
                     the comparison below then checks the frame *)
                  let data = load implz v in
                  do_op (W (WStore (v, data)))
              | _ -> ());
             (match !pend with
              | Tol (v, tol) ->
                  let mi = List.map bits_of_z !m in
                  List.iteri
                    (fun i (a, b) ->
                      let inside = inview v (nat_of_int i) in
                      if inside then begin
                        if not (within !width tol a b) then diff "computed_region" (Printf.sprintf "cell %d model %Lx impl %Lx" i a b)
                      end
                      else if a <> b then diff "frame" (Printf.sprintf "cell %d model %Lx impl %Lx" i a b))
                    (List.combine mi impl);
                  (* continue from the real bits of the computed region *)
                  let o = W (WStore (v, load implz v)) in
                  m := exec !m o;
                  hist := o :: !hist
              | _ ->
                  if !m <> implz then begin
                    let mi = List.map bits_of_z !m in
                    let first = ref (-1) in
                    List.iteri (fun i (a, b) -> if a <> b && !first < 0 then first := i) (List.combine mi impl);
                    diff "memory" (Printf.sprintf "first differing cell %d" !first);
                    m := implz
                  end);
             pend := Nothing)
         | 'E' -> (
             match words rest with
             | [ _id; ch ] ->
                 if ch = "1" && !scen_diffs = 0 then begin
                   (* the specification function of overlap_history, evaluated cell by cell on the whole history *)
                   let hw = wops !hist in
                   List.iteri
                     (fun i c ->
                       incr nlww;
                       if lww hw !m0 (nat_of_int i) <> c then diff "lww" (Printf.sprintf "cell %d" i))
                     !m
                 end
             | _ -> ())
         | _ -> ()
       end
     done
   with End_of_file -> close_in trace);
  Printf.printf "SUMMARY scenarios=%d ops=%d loads=%d lww_cells=%d diffs=%d\n" !nscen !nops !nloads !nlww !ndiff
