Require Import ExtrOcamlBasic.
From Coq Require Import ZArith QArith.
From SV Require Import Model.C20_Search Model.C20_AbsPoly.
Extraction "model.ml" search search_interp half_piv tape_piv iapQ iap_branchQ iap_thr Qred Z.sqrt Pos.sqrt Z.mul Z.add Z.sub Z.quotrem Z.eqb Z.ltb Z.of_nat Z.to_nat Qmult Qplus Qminus Qeq_bool.
