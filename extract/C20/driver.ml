(* C20 correspondence driver: runs the extracted Gallina models on the cases of a file (argv.(1)), one canonical
   result line per case.  Z / positive / nat / Q stay Coq's datatypes; conversions below.
   S id n r0..r(n-1) t np p0..p(np-1)   binary_interval_search case (scaled integers; observed probe indices)
   A id t0 t1 A B C                     integrate_absolute_polynomial case (each "num/den", exact) *)
open Model

let rec nat_of_int n = if n <= 0 then O else S (nat_of_int (n - 1))
let rec int_of_nat = function O -> 0 | S n -> 1 + int_of_nat n
let rec pos_of_int n = if n = 1 then XH else if n land 1 = 0 then XO (pos_of_int (n lsr 1)) else XI (pos_of_int (n lsr 1))
let z_of_int n = if n = 0 then Z0 else if n > 0 then Zpos (pos_of_int n) else Zneg (pos_of_int (-n))
let rec int_of_pos = function XH -> 1 | XO p -> 2 * int_of_pos p | XI p -> 2 * int_of_pos p + 1
let int_of_z = function Z0 -> 0 | Zpos p -> int_of_pos p | Zneg p -> - int_of_pos p

(* arbitrary-size decimal <-> Z through the extracted Z operations *)
let z_of_string s =
  let neg = String.length s > 0 && s.[0] = '-' in
  let ten = z_of_int 10 in
  let acc = ref Z0 in
  String.iteri (fun i c -> if not (i = 0 && neg) then acc := Z.add (Z.mul !acc ten) (z_of_int (Char.code c - 48))) s;
  if neg then Z.sub Z0 !acc else !acc
let string_of_z z =
  let neg = Z.ltb z Z0 in
  let z = if neg then Z.sub Z0 z else z in
  if Z.eqb z Z0 then "0" else begin
    let b = Buffer.create 32 in
    let ten = z_of_int 10 in
    let rec go z acc = if Z.eqb z Z0 then acc else let (q, r) = Z.quotrem z ten in go q (Char.chr (48 + int_of_z r) :: acc) in
    List.iter (Buffer.add_char b) (go z []);
    (if neg then "-" else "") ^ Buffer.contents b
  end
let q_of_string s =
  match String.split_on_char '/' s with
  | [n; d] -> (match z_of_string d with Zpos p -> { qnum = z_of_string n; qden = p } | _ -> failwith "bad den")
  | [n] -> { qnum = z_of_string n; qden = XH }
  | _ -> failwith "bad rational"
let string_of_q q = let r = qred q in string_of_z r.qnum ^ "/" ^ string_of_z (Zpos r.qden)

(* std::sqrt as an oracle with its contract checked at every call: the argument must be a rational square *)
exception Not_square
let sq_oracle (x : q) : q =
  let r = qred x in
  (match r.qnum with Zneg _ -> raise Not_square | _ -> ());
  let sn = Z.sqrt r.qnum and sd = Coq_Pos.sqrt r.qden in
  let cand = { qnum = sn; qden = sd } in
  if qeq_bool (qmult cand cand) x then cand else raise Not_square

let string_of_res = function End -> "E" | At i -> "A" ^ string_of_int (int_of_nat i) | UB -> "UB" | Fuel -> "FUEL"

(* pivots of the observed run from its probe list: [0; n-1] then per iteration p+1 [, p] *)
let tape_of_probes probes =
  match probes with
  | _ :: _ :: rest ->
    let rec go = function
      | [] -> []
      | a :: b :: tl when b = a - 1 -> (a - 1) :: go tl
      | a :: tl -> (a - 1) :: go tl in
    go rest
  | _ -> []

let () =
  let ic = open_in Sys.argv.(1) in
  (try
    while true do
      let line = input_line ic in
      match String.split_on_char ' ' (String.trim line) with
      | "S" :: id :: n :: rest ->
        let n = int_of_string n in
        let rec take k l = if k = 0 then ([], l) else match l with x :: tl -> let (a, b) = take (k - 1) tl in (x :: a, b) | [] -> failwith "short" in
        let (rs, rest) = take n rest in
        let (t, rest) = (List.hd rest, List.tl rest) in
        let probes = List.map int_of_string (List.tl rest) in
        let r = List.map (fun s -> z_of_int (int_of_string s)) rs in
        let t = z_of_int (int_of_string t) in
        let tape = List.map z_of_int (tape_of_probes probes) in
        let (res_t, pr_t) = search (tape_piv tape) r t in
        let (res_i, pr_i) = search_interp r t in
        let (res_h, _) = search half_piv r t in
        Printf.printf "S %s %s %s ; %s %s ; %s\n" id (string_of_res res_t)
          (String.concat "," (List.map (fun p -> string_of_int (int_of_nat p)) pr_t))
          (string_of_res res_i) (String.concat "," (List.map (fun p -> string_of_int (int_of_nat p)) pr_i))
          (string_of_res res_h)
      | ["A"; id; t0; t1; a; b; c] ->
        let t0 = q_of_string t0 and t1 = q_of_string t1 and a = q_of_string a and b = q_of_string b and c = q_of_string c in
        let br = int_of_nat (iap_branchQ iap_thr a b c) in
        (try Printf.printf "A %s %d %s\n" id br (string_of_q (iapQ sq_oracle t0 t1 a b c))
         with Not_square -> Printf.printf "A %s %d NOSQRT\n" id br)
      | _ -> ()
    done
  with End_of_file -> ());
  close_in ic
