// Independent oracle: the documented matrix / Lie-algebra forms of each group, written from the header
// comments (not from the library code), evaluated in long double.  Also: stratified generators of
// group elements (coefficients) and tangent vectors.
#pragma once
#include "hcommon.hpp"

#include <smooth/bundle.hpp>
#include <smooth/c1.hpp>
#include <smooth/galilei.hpp>
#include <smooth/se2.hpp>
#include <smooth/se3.hpp>
#include <smooth/se_k_3.hpp>
#include <smooth/so2.hpp>
#include <smooth/so3.hpp>

namespace hv {

using MatX = Eigen::Matrix<ld, Eigen::Dynamic, Eigen::Dynamic>;
using VecX = Eigen::Matrix<ld, Eigen::Dynamic, 1>;

inline MatX rotq(ld x, ld y, ld z, ld w)
{
  MatX R(3, 3);
  R << 1 - 2 * (y * y + z * z), 2 * (x * y - z * w), 2 * (x * z + y * w), 2 * (x * y + z * w), 1 - 2 * (x * x + z * z),
    2 * (y * z - x * w), 2 * (x * z - y * w), 2 * (y * z + x * w), 1 - 2 * (x * x + y * y);
  return R;
}
inline MatX skew3(ld x, ld y, ld z)
{
  MatX S(3, 3);
  S << 0, -z, y, z, 0, -x, -y, x, 0;
  return S;
}

// independent matrix exponential oracle: scaling and squaring with a 40-term Taylor series in long double
inline MatX expm(const MatX & A)
{
  ld nrm = A.cwiseAbs().rowwise().sum().maxCoeff();
  int s  = 0;
  while (nrm > 0.25L) {
    nrm /= 2;
    ++s;
  }
  MatX As = A / std::pow(2.0L, s);
  MatX T  = MatX::Identity(A.rows(), A.cols()), term = T;
  for (int k = 1; k <= 40; ++k) {
    term = term * As / static_cast<ld>(k);
    T += term;
  }
  for (int i = 0; i < s; ++i) T = T * T;
  return T;
}

template<typename G>
struct Doc;

template<typename S>
struct Doc<smooth::SO2<S>>
{
  static constexpr const char * name = "SO2";
  static constexpr int rot_k = 1, unit_k = 2, act_n = 2;
  static constexpr bool homog = false;
  static MatX mat(const VecX & c)
  {
    MatX M(2, 2);
    M << c(1), -c(0), c(0), c(1);
    return M;
  }
  static MatX hat(const VecX & a)
  {
    MatX M(2, 2);
    M << 0, -a(0), a(0), 0;
    return M;
  }
  static VecX vee(const MatX & M)
  {
    VecX a(1);
    a << M(1, 0);
    return a;
  }
};
template<typename S>
struct Doc<smooth::SO3<S>>
{
  static constexpr const char * name = "SO3";
  static constexpr int rot_k = 3, unit_k = 4, act_n = 3;
  static constexpr bool homog = false;
  static MatX mat(const VecX & c) { return rotq(c(0), c(1), c(2), c(3)); }
  static MatX hat(const VecX & a) { return skew3(a(0), a(1), a(2)); }
  static VecX vee(const MatX & M)
  {
    VecX a(3);
    a << M(2, 1), M(0, 2), M(1, 0);
    return a;
  }
};
template<typename S>
struct Doc<smooth::SE2<S>>
{
  static constexpr const char * name = "SE2";
  static constexpr int rot_k = 1, unit_k = 2, act_n = 2;
  static constexpr bool homog = true;
  static MatX mat(const VecX & c)
  {
    MatX M(3, 3);
    M << c(3), -c(2), c(0), c(2), c(3), c(1), 0, 0, 1;
    return M;
  }
  static MatX hat(const VecX & a)
  {
    MatX M(3, 3);
    M << 0, -a(2), a(0), a(2), 0, a(1), 0, 0, 0;
    return M;
  }
  static VecX vee(const MatX & M)
  {
    VecX a(3);
    a << M(0, 2), M(1, 2), M(1, 0);
    return a;
  }
};
template<typename S>
struct Doc<smooth::SE3<S>>
{
  static constexpr const char * name = "SE3";
  static constexpr int rot_k = 3, unit_k = 4, act_n = 3;
  static constexpr bool homog = true;
  static MatX mat(const VecX & c)
  {
    MatX M          = MatX::Identity(4, 4);
    M.block(0, 0, 3, 3) = rotq(c(3), c(4), c(5), c(6));
    M.block(0, 3, 3, 1) = c.segment(0, 3);
    return M;
  }
  static MatX hat(const VecX & a)
  {
    MatX M          = MatX::Zero(4, 4);
    M.block(0, 0, 3, 3) = skew3(a(3), a(4), a(5));
    M.block(0, 3, 3, 1) = a.segment(0, 3);
    return M;
  }
  static VecX vee(const MatX & M)
  {
    VecX a(6);
    a << M(0, 3), M(1, 3), M(2, 3), M(2, 1), M(0, 2), M(1, 0);
    return a;
  }
};
template<typename S>
struct Doc<smooth::C1<S>>
{
  static constexpr const char * name = "C1";
  static constexpr int rot_k = 1, unit_k = 0, act_n = 2;
  static constexpr bool homog = false;
  static MatX mat(const VecX & c)
  {
    MatX M(2, 2);
    M << c(1), -c(0), c(0), c(1);
    return M;
  }
  static MatX hat(const VecX & a)
  {
    MatX M(2, 2);
    M << a(0), -a(1), a(1), a(0);
    return M;
  }
  static VecX vee(const MatX & M)
  {
    VecX a(2);
    a << M(0, 0), M(1, 0);
    return a;
  }
};
template<typename S>
struct Doc<smooth::Galilei<S>>
{
  static constexpr const char * name = "Galilei";
  static constexpr int rot_k = 3, unit_k = 4, act_n = 4;
  static constexpr bool homog = true;
  static MatX mat(const VecX & c)
  {
    MatX M          = MatX::Identity(5, 5);
    M.block(0, 0, 3, 3) = rotq(c(7), c(8), c(9), c(10));
    M.block(0, 3, 3, 1) = c.segment(0, 3);
    M.block(0, 4, 3, 1) = c.segment(3, 3);
    M(3, 4)         = c(6);
    return M;
  }
  static MatX hat(const VecX & a)
  {
    MatX M          = MatX::Zero(5, 5);
    M.block(0, 0, 3, 3) = skew3(a(7), a(8), a(9));
    M.block(0, 3, 3, 1) = a.segment(0, 3);
    M.block(0, 4, 3, 1) = a.segment(3, 3);
    M(3, 4)         = a(6);
    return M;
  }
  static VecX vee(const MatX & M)
  {
    VecX a(10);
    a << M(0, 3), M(1, 3), M(2, 3), M(0, 4), M(1, 4), M(2, 4), M(3, 4), M(2, 1), M(0, 2), M(1, 0);
    return a;
  }
};
template<typename S, int K>
struct Doc<smooth::SE_K_3<S, K>>
{
  static constexpr const char * name = K == 1 ? "SE_K_3<1>" : K == 2 ? "SE_K_3<2>" : "SE_K_3<k>";
  static constexpr int rot_k = 3, unit_k = 4, act_n = 0;
  static constexpr bool homog = true;
  static MatX mat(const VecX & c)
  {
    MatX M          = MatX::Identity(3 + K, 3 + K);
    M.block(0, 0, 3, 3) = rotq(c(3 * K), c(3 * K + 1), c(3 * K + 2), c(3 * K + 3));
    for (int i = 0; i < K; ++i) M.block(0, 3 + i, 3, 1) = c.segment(3 * i, 3);
    return M;
  }
  static MatX hat(const VecX & a)
  {
    MatX M          = MatX::Zero(3 + K, 3 + K);
    M.block(0, 0, 3, 3) = skew3(a(3 * K), a(3 * K + 1), a(3 * K + 2));
    for (int i = 0; i < K; ++i) M.block(0, 3 + i, 3, 1) = a.segment(3 * i, 3);
    return M;
  }
  static VecX vee(const MatX & M)
  {
    VecX a(3 * K + 3);
    for (int i = 0; i < K; ++i) a.segment(3 * i, 3) = M.block(0, 3 + i, 3, 1);
    a.segment(3 * K, 3) << M(2, 1), M(0, 2), M(1, 0);
    return a;
  }
};

// ------------------------------------------------------------------ generators
// group element coefficients: translation-like part stratified, rotation part axis x stratified angle
template<typename G>
G gen_elem(Rng & r, std::string * label = nullptr, double maxmag = 1e3)
{
  using D = Doc<G>;
  using S = typename G::Scalar;
  G g;
  constexpr int Rep = G::RepSize;
  auto st           = strat_angle(r);
  if (label) *label = st.label;
  for (int i = 0; i < Rep - D::unit_k; ++i) g.coeffs()(i) = static_cast<S>(strat_lin(r, maxmag));
  // exactly representable rotations (quarter/half turns, the 24 Hurwitz units): their products are exact in
  // floating point, so coefficients that are exactly 0 (qw == 0 half turns in particular) do occur
  if ((D::unit_k == 2 || D::unit_k == 4) && r.below(8) == 0) {
    if (label) *label = "exact_lattice";
    if constexpr (D::unit_k == 2) {
      static const int sc[4][2] = {{0, 1}, {1, 0}, {0, -1}, {-1, 0}};
      int k               = r.below(4);
      g.coeffs()(Rep - 2) = static_cast<S>(sc[k][0]);
      g.coeffs()(Rep - 1) = static_cast<S>(sc[k][1]);
      return g;
    } else if constexpr (D::unit_k == 4) {
      S q[4] = {0, 0, 0, 0};
      if (r.below(2)) {
        q[r.below(4)] = 1;
      } else {
        for (int i = 0; i < 4; ++i) q[i] = r.below(2) ? S(0.5) : S(-0.5);
      }
      if (q[3] < 0)
        for (int i = 0; i < 4; ++i) q[i] = -q[i];
      for (int i = 0; i < 4; ++i) g.coeffs()(Rep - 4 + i) = q[i];
      return g;
    }
  }
  if constexpr (D::unit_k == 2) {
    double sgn          = r.below(2) ? 1 : -1;
    g.coeffs()(Rep - 2) = static_cast<S>(std::sin(static_cast<ld>(sgn * st.v)));
    g.coeffs()(Rep - 1) = static_cast<S>(std::cos(static_cast<ld>(st.v)));
  } else if constexpr (D::unit_k == 4) {
    double ax[3];
    rand_axis(r, 3, ax);
    ld sh = std::sin(static_cast<ld>(st.v) / 2), ch = std::cos(static_cast<ld>(st.v) / 2);
    for (int i = 0; i < 3; ++i) g.coeffs()(Rep - 4 + i) = static_cast<S>(ax[i] * sh);
    g.coeffs()(Rep - 1) = static_cast<S>(ch);
    if (g.coeffs()(Rep - 1) < 0) g.coeffs().template tail<4>() *= S(-1);  // canonical hemisphere
  } else {
    // C1: scaling * rotation
    double k    = r.logu(1e-2, 1e2);
    double sgn  = r.below(2) ? 1 : -1;
    g.coeffs()(0) = static_cast<S>(k * std::sin(sgn * st.v));
    g.coeffs()(1) = static_cast<S>(k * std::cos(st.v));
  }
  return g;
}

template<typename G>
typename G::Tangent gen_tangent(Rng & r, std::string * label = nullptr, bool beyond_pi = false, double maxmag = 1e3)
{
  using D = Doc<G>;
  using S = typename G::Scalar;
  typename G::Tangent a;
  constexpr int Dof = G::Dof;
  auto st           = strat_angle(r, beyond_pi);
  if (label) *label = st.label;
  for (int i = 0; i < Dof - D::rot_k; ++i) a(i) = static_cast<S>(strat_lin(r, maxmag));
  double ax[3];
  rand_axis(r, D::rot_k, ax);
  for (int i = 0; i < D::rot_k; ++i) a(Dof - D::rot_k + i) = static_cast<S>(ax[i] * st.v);
  if constexpr (std::is_same_v<G, smooth::C1<S>>) { a(0) = static_cast<S>(r.sym() * 3); }
  return a;
}

template<typename V>
VecX to_ld(const V & v)
{
  VecX r(v.size());
  for (Eigen::Index i = 0; i < v.size(); ++i) r(i) = static_cast<ld>(v(i));
  return r;
}
template<typename M>
MatX mto_ld(const M & m)
{
  MatX r(m.rows(), m.cols());
  for (Eigen::Index i = 0; i < m.rows(); ++i)
    for (Eigen::Index j = 0; j < m.cols(); ++j) r(i, j) = static_cast<ld>(m(i, j));
  return r;
}
inline ld maxabs(const MatX & m) { return m.size() ? m.cwiseAbs().maxCoeff() : ld(0); }

}  // namespace hv
