#define HV_EIGEN_ASSERT_THROWS
// C01 numeric harness: real library (float/double) vs the documented-matrix oracle in long double.
// Serves as (i) the accuracy clause of C01 and (ii) the failing-input search when a C01 proof breaks.
#include "docmat.hpp"
#include <array>
using namespace hv;

template<typename G>
void run(Report & rep, Rng & rng, int n, double tol)
{
  using D = Doc<G>;
  using S = typename G::Scalar;
  const std::string gname = std::string(D::name) + (sizeof(S) == 4 ? "f" : "d");
  for (int c = 0; c < n; ++c) {
    std::string l1, l2, l3;
    G g1 = gen_elem<G>(rng, &l1), g2 = gen_elem<G>(rng, &l2), g3 = gen_elem<G>(rng, &l3);
    ++rep.evaluations;
    ++rep.strata[l1];
    ++rep.strata[l2];
    MatX M1 = D::mat(to_ld(g1.coeffs())), M2 = D::mat(to_ld(g2.coeffs())), M3 = D::mat(to_ld(g3.coeffs()));
    // err relative to the larger of 1, the expected entries and (for products) the operand entries
    auto check = [&](const char * what, const MatX & got, const MatX & want, ld opscale = 0) {
      ld scale = std::max<ld>(std::max<ld>(1, maxabs(want)), opscale);
      double e = static_cast<double>(maxabs(got - want) / scale);
      rep.tally(gname + "." + what, e);
      if (!(e <= tol)) {
        std::ostringstream os;
        os.precision(17);
        os << "{\"group\":\"" << gname << "\",\"check\":\"" << what << "\",\"err\":" << e << ",\"tol\":" << tol
           << ",\"g1\":" << jvec(g1.coeffs()) << ",\"g2\":" << jvec(g2.coeffs()) << ",\"g3\":" << jvec(g3.coeffs())
           << "}";
        rep.fail(os.str());
      }
    };
    // matrix() is the documented matrix
    check("matrix", mto_ld(g1.matrix()), M1);
    // homomorphism
    G g12 = g1 * g2;
    check("comp", D::mat(to_ld(g12.coeffs())), M1 * M2);
    // inverse
    G gi = g1.inverse();
    MatX I = MatX::Identity(M1.rows(), M1.cols());
    // scale of the inverse check: products of O(|t|) entries
    {
      MatX Mi  = D::mat(to_ld(gi.coeffs()));
      ld scale = std::max<ld>(1, maxabs(M1)) * std::max<ld>(1, maxabs(Mi));
      double e1 = static_cast<double>(maxabs(Mi * M1 - I) / scale), e2 = static_cast<double>(maxabs(M1 * Mi - I) / scale);
      rep.tally(gname + ".inverse", std::max(e1, e2));
      if (!(std::max(e1, e2) <= tol)) {
        std::ostringstream os;
        os.precision(17);
        os << "{\"group\":\"" << gname << "\",\"check\":\"inverse\",\"err\":" << std::max(e1, e2) << ",\"tol\":" << tol
           << ",\"g1\":" << jvec(g1.coeffs()) << "}";
        rep.fail(os.str());
      }
    }
    // in-place and aliased forms of the same operations (operator*=, self-assignment through values and Maps)
    {
      G a = g1;
      a *= g2;
      check("comp_inplace", D::mat(to_ld(a.coeffs())), M1 * M2, std::max(maxabs(M1), maxabs(M2)));
      G b = g1;
      b *= b;
      check("comp_inplace_alias", D::mat(to_ld(b.coeffs())), M1 * M1, maxabs(M1));
      G c2 = g1;
      c2 = c2 * c2;
      check("comp_assign_alias", D::mat(to_ld(c2.coeffs())), M1 * M1, maxabs(M1));
      G d = g1;
      d = d.inverse();
      check("inv_assign_alias", D::mat(to_ld(d.coeffs())), D::mat(to_ld(gi.coeffs())));
      std::array<S, G::RepSize> buf;
      for (int i = 0; i < G::RepSize; ++i) buf[i] = g1.coeffs()(i);
      smooth::Map<G> m(buf.data());
      smooth::Map<const G> mc(buf.data());
      m *= mc;
      check("comp_map_alias", D::mat(to_ld(m.coeffs())), M1 * M1, maxabs(M1));
      for (int i = 0; i < G::RepSize; ++i) buf[i] = g1.coeffs()(i);
      m = m * g2;
      check("comp_map_assign", D::mat(to_ld(m.coeffs())), M1 * M2, std::max(maxabs(M1), maxabs(M2)));
      for (int i = 0; i < G::RepSize; ++i) buf[i] = g1.coeffs()(i);
      m = m.inverse();
      check("inv_map_alias", D::mat(to_ld(m.coeffs())), D::mat(to_ld(gi.coeffs())));
    }
    // identity
    if (c == 0) check("identity", D::mat(to_ld(G::Identity().coeffs())), I);
    // associativity (matrix level) and two-sided identity
    check("assoc", D::mat(to_ld(((g1 * g2) * g3).coeffs())), D::mat(to_ld((g1 * (g2 * g3)).coeffs())));
    check("assoc_doc", D::mat(to_ld(((g1 * g2) * g3).coeffs())), M1 * M2 * M3);
    check("id_left", D::mat(to_ld((G::Identity() * g1).coeffs())), M1);
    check("id_right", D::mat(to_ld((g1 * G::Identity()).coeffs())), M1);
    // action
    if constexpr (D::act_n > 0) {
      Eigen::Matrix<S, D::act_n, 1> v;
      for (int i = 0; i < D::act_n; ++i) v(i) = static_cast<S>(strat_lin(rng));
      auto got = g1 * v;
      VecX vv  = to_ld(v);
      VecX want;
      if (D::homog) {
        VecX vh(D::act_n + 1);
        vh << vv, 1;
        want = (M1 * vh).head(D::act_n);
      } else {
        want = M1 * vv;
      }
      ld scale = std::max<ld>(1, maxabs(M1)) * std::max<ld>(1, maxabs(vv));
      double e = static_cast<double>(maxabs(to_ld(got) - want) / scale);
      rep.tally(gname + ".action", e);
      if (!(e <= tol)) {
        std::ostringstream os;
        os.precision(17);
        os << "{\"group\":\"" << gname << "\",\"check\":\"action\",\"err\":" << e << ",\"tol\":" << tol
           << ",\"g1\":" << jvec(g1.coeffs()) << ",\"v\":" << jvec(v) << "}";
        rep.fail(os.str());
      }
    }
    if (c < 1) {
      std::ostringstream os;
      os << "{\"group\":\"" << gname << "\",\"strata\":[\"" << l1 << "\",\"" << l2 << "\"],\"g1\":" << jvec(g1.coeffs())
         << ",\"g2\":" << jvec(g2.coeffs()) << "}";
      rep.sample(os.str());
    }
  }
}

static int hv_main();
int main() { return hv::guard(hv_main); }
static int hv_main()
{
  Report rep;
  rep.property = "C01";
  Rng rng(seed_from_env());
  const int n = thorough() ? 20000 : 1500;
  const double td = 1e-12, tf = 1e-5;
  run<smooth::SO2d>(rep, rng, n, td);
  run<smooth::SO3d>(rep, rng, n, td);
  run<smooth::SE2d>(rep, rng, n, td);
  run<smooth::SE3d>(rep, rng, n, td);
  run<smooth::C1d>(rep, rng, n, td);
  run<smooth::Galileid>(rep, rng, n, td);
  run<smooth::SE_K_3<double, 1>>(rep, rng, n, td);
  run<smooth::SE_K_3<double, 2>>(rep, rng, n, td);
  run<smooth::SE_K_3<double, 3>>(rep, rng, n, td);
  run<smooth::SO2f>(rep, rng, n, tf);
  run<smooth::SO3f>(rep, rng, n, tf);
  run<smooth::SE2f>(rep, rng, n, tf);
  run<smooth::SE3f>(rep, rng, n, tf);
  run<smooth::C1f>(rep, rng, n, tf);
  run<smooth::Galileif>(rep, rng, n, tf);
  run<smooth::SE_K_3<float, 2>>(rep, rng, n, tf);
  rep.print();
  return 0;
}
