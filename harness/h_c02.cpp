#define HV_EIGEN_ASSERT_THROWS
// C02 numeric harness: exp against an independent matrix exponential of the documented hat matrix
// (scaling-and-squaring Taylor in long double), log range and both round trips.  Accuracy clause of C02
// and failing-input search.  Failure records carry the rotation norm so that known findings can be
// keyed by input region.
#include "docmat.hpp"
#include <array>
using namespace hv;

template<typename G>
ld rotnorm(const typename G::Tangent & a)
{
  using D = Doc<G>;
  ld s = 0;
  for (int i = 0; i < D::rot_k; ++i) s += static_cast<ld>(a(G::Dof - D::rot_k + i)) * static_cast<ld>(a(G::Dof - D::rot_k + i));
  return std::sqrt(s);
}

template<typename G>
void run(Report & rep, Rng & rng, int n, double tol, double tol_pi, double pi_band)
{
  using D = Doc<G>;
  using S = typename G::Scalar;
  using T = typename G::Tangent;
  const std::string gname = std::string(D::name) + (sizeof(S) == 4 ? "f" : "d");
  auto fail = [&](const char * what, double e, double tl, ld rn, const std::string & st, const T & a, const G & g) {
    std::ostringstream os;
    os.precision(17);
    os << "{\"group\":\"" << gname << "\",\"check\":\"" << what << "\",\"err\":" << e << ",\"tol\":" << tl
       << ",\"rotnorm\":" << static_cast<double>(rn) << ",\"stratum\":\"" << st << "\",\"a\":" << jvec(a)
       << ",\"g\":" << jvec(g.coeffs()) << "}";
    rep.fail(os.str(), gname + "." + what + "." + st, static_cast<double>(rn));
  };
  for (int c = 0; c < n; ++c) {
    std::string st;
    // ---- exp: any magnitude
    T a = gen_tangent<G>(rng, &st, true, 1e3);
    ++rep.evaluations;
    ++rep.strata["exp:" + st];
    VecX av  = to_ld(a);
    ld rn    = rotnorm<G>(a);
    G ea     = G::exp(a);
    MatX want = expm(D::hat(av));
    MatX got  = D::mat(to_ld(ea.coeffs()));
    {
      double e = static_cast<double>(maxabs(got - want) / std::max<ld>(1, maxabs(want)));
      rep.tally(gname + ".exp", e);
      if (!(e <= tol)) fail("exp", e, tol, rn, st, a, ea);
      bool fin = true;
      for (int i = 0; i < G::RepSize; ++i) fin = fin && std::isfinite(static_cast<double>(ea.coeffs()(i)));
      if (!fin) fail("exp_finite", 1e300, 0, rn, st, a, ea);
    }
    // ---- log(exp a) = a for rotation norm below pi
    if (rn < M_PIl - 1e-3L) {
      T la     = ea.log();
      bool nearpi = false;
      double e = static_cast<double>(maxabs(to_ld(la) - av) / std::max<ld>(1, maxabs(av)));
      rep.tally(gname + ".log_exp", e);
      if (!(e <= (nearpi ? tol_pi : tol))) fail("log_exp", e, tol, rn, st, a, ea);
    }
    // ---- elements: log range and exp(log g) = g
    {
      std::string sg;
      G g = gen_elem<G>(rng, &sg, 1e3);
      ++rep.strata["log:" + sg];
      T lg  = g.log();
      ld rl = rotnorm<G>(lg);
      double over = static_cast<double>(rl - M_PIl);
      rep.tally(gname + ".log_range", over > 0 ? over : 0);
      if (!(over <= (sizeof(S) == 4 ? 1e-6 : 1e-15))) fail("log_range", over, 0, rl, sg, lg, g);
      G back    = G::exp(lg);
      MatX Mg   = D::mat(to_ld(g.coeffs()));
      MatX Mb   = D::mat(to_ld(back.coeffs()));
      bool nearpi = (M_PIl - rl) < pi_band;
      double e  = static_cast<double>(maxabs(Mb - Mg) / std::max<ld>(1, maxabs(Mg)));
      rep.tally(gname + (nearpi ? ".exp_log_nearpi" : ".exp_log"), e);
      if (!(e <= (nearpi ? tol_pi : tol))) fail("exp_log", e, nearpi ? tol_pi : tol, rl, sg, lg, g);
    }
    // ---- the same maps through the other public entry points: free functions of the LieGroup interface, operators + - +=
    //      and the left variants (documented: rplus = g*exp(a), rminus = log(g2^-1*g1), lplus = exp(a)*g, lminus = log(g1*g2^-1))
    {
      std::string sg;
      G g  = gen_elem<G>(rng, &sg, 10.0);
      G g2 = gen_elem<G>(rng, nullptr, 10.0);
      auto same = [&](const char * what, const auto & x, const auto & y) {
        double e = 0;
        for (Eigen::Index i = 0; i < x.size(); ++i) {
          double d = std::abs(static_cast<double>(x(i)) - static_cast<double>(y(i)));
          double sc = std::max(1.0, std::abs(static_cast<double>(y(i))));
          if (!(d / sc <= e)) e = d / sc;
        }
        rep.tally(gname + ".api." + what, e);
        if (!(e <= (sizeof(S) == 4 ? 1e-5 : 1e-13))) fail(what, e, 1e-13, rn, st, a, g);
      };
      const G ga = g * ea;
      same("api_free_exp", smooth::exp<G>(a).coeffs(), ea.coeffs());
      same("api_free_log", smooth::log(g), g.log());
      same("api_rplus", smooth::rplus(g, a).coeffs(), ga.coeffs());
      same("api_op_plus", (g + a).coeffs(), ga.coeffs());
      {
        G h = g;
        h += a;
        same("api_op_pluseq", h.coeffs(), ga.coeffs());
      }
      {
        // the same update through a view over caller memory
        std::array<S, G::RepSize> buf;
        for (int i = 0; i < G::RepSize; ++i) buf[static_cast<size_t>(i)] = g.coeffs()(i);
        smooth::Map<G> m(buf.data());
        m += a;
        same("api_map_pluseq", m.coeffs(), ga.coeffs());
      }
      same("api_lplus", smooth::lplus(g, a).coeffs(), (ea * g).coeffs());
      same("api_rminus", smooth::rminus(g, g2), (g2.inverse() * g).log());
      same("api_op_minus", g - g2, (g2.inverse() * g).log());
      same("api_lminus", smooth::lminus(g, g2), (g * g2.inverse()).log());
      same("api_free_comp", smooth::composition(g, g2).coeffs(), (g * g2).coeffs());
      same("api_free_inverse", smooth::inverse(g).coeffs(), g.inverse().coeffs());
    }
    if (c < 1) {
      std::ostringstream os;
      os << "{\"group\":\"" << gname << "\",\"stratum\":\"" << st << "\",\"a\":" << jvec(a) << "}";
      rep.sample(os.str());
    }
  }
}

static int hv_main();
int main() { return hv::guard(hv_main); }
static int hv_main()
{
  Report rep;
  rep.property = "C02";
  Rng rng(seed_from_env());
  const int n = thorough() ? 40000 : 3000;
  run<smooth::SO2d>(rep, rng, n, 1e-9, 1e-7, 1e-5);
  run<smooth::SO3d>(rep, rng, n, 1e-9, 1e-7, 1e-5);
  run<smooth::SE2d>(rep, rng, n, 1e-9, 1e-7, 1e-5);
  run<smooth::SE3d>(rep, rng, n, 1e-9, 1e-7, 1e-5);
  run<smooth::C1d>(rep, rng, n, 1e-9, 1e-7, 1e-5);
  run<smooth::Galileid>(rep, rng, n, 1e-9, 1e-7, 1e-5);
  run<smooth::SE_K_3<double, 1>>(rep, rng, n, 1e-9, 1e-7, 1e-5);
  run<smooth::SE_K_3<double, 2>>(rep, rng, n, 1e-9, 1e-7, 1e-5);
  run<smooth::SE_K_3<double, 3>>(rep, rng, n, 1e-9, 1e-7, 1e-5);
  run<smooth::SO2f>(rep, rng, n, 1e-3, 1e-2, 1e-2);
  run<smooth::SO3f>(rep, rng, n, 1e-3, 1e-2, 1e-2);
  run<smooth::SE2f>(rep, rng, n, 1e-3, 1e-2, 1e-2);
  run<smooth::SE3f>(rep, rng, n, 1e-3, 1e-2, 1e-2);
  run<smooth::C1f>(rep, rng, n, 1e-3, 1e-2, 1e-2);
  run<smooth::Galileif>(rep, rng, n, 1e-3, 1e-2, 1e-2);
  run<smooth::SE_K_3<float, 2>>(rep, rng, n, 1e-3, 1e-2, 1e-2);
  rep.print();
  return 0;
}
