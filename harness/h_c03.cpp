#define HV_EIGEN_ASSERT_THROWS
// C03 numeric harness: Ad, ad, hat, vee, bracket of the real library (float/double) against the
// matrix-level definitions computed with the independent documented forms in long double.
#include "docmat.hpp"
using namespace hv;

template<typename G>
void run(Report & rep, Rng & rng, int n, double tol)
{
  using D = Doc<G>;
  using S = typename G::Scalar;
  using T = typename G::Tangent;
  const std::string gname = std::string(D::name) + (sizeof(S) == 4 ? "f" : "d");
  auto fail = [&](const char * what, double e, const G & g, const T & a, const T & b) {
    ld rn = 0;
    for (int i = 0; i < D::rot_k; ++i) rn += static_cast<ld>(a(G::Dof - D::rot_k + i)) * static_cast<ld>(a(G::Dof - D::rot_k + i));
    rn = std::sqrt(rn);
    std::ostringstream os;
    os.precision(17);
    os << "{\"group\":\"" << gname << "\",\"check\":\"" << what << "\",\"err\":" << e << ",\"tol\":" << tol
       << ",\"rotnorm\":" << static_cast<double>(rn) << ",\"g\":" << jvec(g.coeffs()) << ",\"a\":" << jvec(a)
       << ",\"b\":" << jvec(b) << "}";
    rep.fail(os.str(), gname + "." + what, static_cast<double>(rn));
  };
  for (int c = 0; c < n; ++c) {
    std::string l1, l2;
    // moderate translations: conjugation multiplies magnitudes
    G g  = gen_elem<G>(rng, &l1, 1e2);
    G g2 = gen_elem<G>(rng, nullptr, 1e2);
    T a = gen_tangent<G>(rng, &l2, false, 1e2), b = gen_tangent<G>(rng, nullptr, false, 1e2),
      cc = gen_tangent<G>(rng, nullptr, false, 1e2);
    ++rep.evaluations;
    ++rep.strata[l1];
    MatX M = D::mat(to_ld(g.coeffs())), Mi = M.inverse();
    VecX av = to_ld(a), bv = to_ld(b);
    auto chk = [&](const char * what, const MatX & got, const MatX & want, ld scale) {
      double e = static_cast<double>(maxabs(got - want) / std::max<ld>(1, scale));
      rep.tally(gname + "." + what, e);
      if (!(e <= tol)) fail(what, e, g, a, b);
    };
    // hat / vee
    chk("hat", mto_ld(G::hat(a)), D::hat(av), maxabs(av));
    chk("vee_hat", to_ld(G::vee(G::hat(a))), av, maxabs(av));
    // Ad
    {
      MatX want = D::vee(M * D::hat(av) * Mi);
      MatX got  = mto_ld(g.Ad()) * av;
      chk("Ad", got, want, maxabs(want));
    }
    // ad / bracket
    {
      MatX A = D::hat(av), Bm = D::hat(bv);
      MatX want = D::vee(A * Bm - Bm * A);
      chk("ad", mto_ld(G::ad(a)) * bv, want, maxabs(want));
      chk("bracket", to_ld(G::lie_bracket(a, b)), want, maxabs(want));
      chk("antisym", to_ld(G::lie_bracket(a, b)), -to_ld(G::lie_bracket(b, a)), maxabs(want));
      VecX jac = to_ld(G::lie_bracket(a, G::lie_bracket(b, cc))) + to_ld(G::lie_bracket(b, G::lie_bracket(cc, a)))
               + to_ld(G::lie_bracket(cc, G::lie_bracket(a, b)));
      ld sc = maxabs(av) * maxabs(bv) * maxabs(to_ld(cc));
      chk("jacobi", jac, VecX::Zero(jac.size()), sc);
    }
    // homogeneity under exact power-of-two scalings (hat, ad and the bracket are linear; scaling by 2^-k is exact in
    // floating point, so the results must scale exactly - compared relative to the scaled magnitude, not to 1)
    for (int k : {20, 45}) {
      if (sizeof(S) == 4 && k > 20) continue;
      const S sc = static_cast<S>(std::ldexp(1.0, -k));
      const T as = sc * a;
      VecX want = to_ld(G::lie_bracket(a, b)) * static_cast<ld>(sc);
      VecX got  = to_ld(G::lie_bracket(as, b));
      VecX got2 = to_ld(G::lie_bracket(b, as));
      ld den    = std::max<ld>(maxabs(want), static_cast<ld>(sc) * 1e-30L);
      double e  = static_cast<double>(std::max(maxabs(got - want), maxabs(got2 + want)) / den);
      if (maxabs(want) == 0) e = static_cast<double>(std::max(maxabs(got), maxabs(got2)));
      rep.tally(gname + ".bracket_homogeneous", e);
      if (!(e <= (sizeof(S) == 4 ? 1e-5 : 1e-9))) fail("bracket_homogeneous", e, g, as, b);
      MatX wantA = mto_ld(G::ad(a)) * static_cast<ld>(sc);
      MatX gotA  = mto_ld(G::ad(as));
      ld denA    = std::max<ld>(maxabs(wantA), static_cast<ld>(sc) * 1e-30L);
      double eA  = maxabs(wantA) == 0 ? static_cast<double>(maxabs(gotA)) : static_cast<double>(maxabs(gotA - wantA) / denA);
      rep.tally(gname + ".ad_homogeneous", eA);
      if (!(eA <= (sizeof(S) == 4 ? 1e-5 : 1e-9))) fail("ad_homogeneous", eA, g, as, b);
    }
    // the same maps through the free functions of the LieGroup interface (and the left/right Jacobian aliases built on them)
    {
      MatX gA = mto_ld(g.Ad());
      chk("api_free_Ad", mto_ld(smooth::Ad(g)), gA, maxabs(gA));
      MatX ga = mto_ld(G::ad(a));
      chk("api_free_ad", mto_ld(smooth::ad<G>(a)), ga, maxabs(ga));
    }
    // Ad homomorphism
    {
      MatX A1 = mto_ld(g.Ad()), A2 = mto_ld(g2.Ad()), A12 = mto_ld((g * g2).Ad());
      chk("Ad_hom", A12, A1 * A2, maxabs(A1) * maxabs(A2));
    }
    // Ad(exp a) = expm(ad a)   (ad from the documented bracket, column by column)
    {
      T as = a;
      // keep the algebra element moderate so that expm(ad) is well conditioned
      for (int i = 0; i < G::Dof - D::rot_k; ++i) as(i) = static_cast<S>(static_cast<double>(as(i)) * 1e-1);
      VecX asv = to_ld(as);
      MatX adm(G::Dof, G::Dof);
      for (int j = 0; j < G::Dof; ++j) {
        VecX ej = VecX::Zero(G::Dof);
        ej(j)   = 1;
        MatX A = D::hat(asv), E = D::hat(ej);
        adm.col(j) = D::vee(A * E - E * A);
      }
      MatX want = expm(adm);
      MatX got  = mto_ld(G::exp(as).Ad());
      double e  = static_cast<double>(maxabs(got - want) / std::max<ld>(1, maxabs(want)));
      // exp itself is C02's subject; here the tolerance is the exp tolerance (1e-9 / 1e-3)
      rep.tally(gname + ".Ad_exp", e);
      if (!(e <= (sizeof(S) == 4 ? 1e-3 : 1e-9))) fail("Ad_exp", e, g, as, b);
    }
    if (c < 1) {
      std::ostringstream os;
      os << "{\"group\":\"" << gname << "\",\"g\":" << jvec(g.coeffs()) << ",\"a\":" << jvec(a) << ",\"b\":" << jvec(b)
         << "}";
      rep.sample(os.str());
    }
  }
}

static int hv_main();
int main() { return hv::guard(hv_main); }
static int hv_main()
{
  Report rep;
  rep.property = "C03";
  Rng rng(seed_from_env());
  const int n = thorough() ? 10000 : 800;
  const double td = 1e-11, tf = 1e-4;
  run<smooth::SO2d>(rep, rng, n, td);
  run<smooth::SO3d>(rep, rng, n, td);
  run<smooth::SE2d>(rep, rng, n, td);
  run<smooth::SE3d>(rep, rng, n, td);
  run<smooth::C1d>(rep, rng, n, td);
  run<smooth::Galileid>(rep, rng, n, td);
  run<smooth::SE_K_3<double, 1>>(rep, rng, n, td);
  run<smooth::SE_K_3<double, 2>>(rep, rng, n, td);
  run<smooth::SE_K_3<double, 3>>(rep, rng, n, td);
  run<smooth::SO3f>(rep, rng, n, tf);
  run<smooth::SE2f>(rep, rng, n, tf);
  run<smooth::SE3f>(rep, rng, n, tf);
  run<smooth::Galileif>(rep, rng, n, tf);
  run<smooth::SE_K_3<float, 2>>(rep, rng, n, tf);
  rep.print();
  return 0;
}
