#define HV_EIGEN_ASSERT_THROWS
// C04 numeric harness: dr_exp / dr_expinv / dl_* / dr_action / dr_rminus* of the real library (float and double)
// against independent long-double oracles (Jr = int_0^1 expm(-s ad) ds; action Jacobian from documented matrices).
#include "jacoracle.hpp"
#include <smooth/derivatives.hpp>
using namespace hv;
static Report * REP;

template<typename G>
void run_group(Rng & rng, int n, double tol)
{
  using D       = Doc<G>;
  using S       = typename G::Scalar;
  constexpr int Dof = G::Dof;
  const std::string gname = std::string(D::name) + (sizeof(S) == 4 ? "f" : "d");
  for (int c = 0; c < n; ++c) {
    std::string st;
    typename G::Tangent a = gen_tangent<G>(rng, &st, true, 1e3);
    ld rn = 0;
    for (int i = 0; i < D::rot_k; ++i) rn += static_cast<ld>(a(Dof - D::rot_k + i)) * static_cast<ld>(a(Dof - D::rot_k + i));
    rn = std::sqrt(rn);
    ++REP->evaluations;
    ++REP->strata[st];
    VecX av = to_ld(a);
    MatX Jr = jr_oracle<G>(av);
    auto chk = [&](const char * what, const MatX & got, const MatX & want, double tl) {
      double e = static_cast<double>(maxabs(got - want) / std::max<ld>(1e-300L, maxabs(want)));
      REP->tally(gname + "." + what, e);
      if (!(e <= tl)) {
        std::ostringstream os;
        os.precision(17);
        os << "{\"group\":\"" << gname << "\",\"check\":\"" << what << "\",\"err\":" << e << ",\"tol\":" << tl
           << ",\"rotnorm\":" << static_cast<double>(rn) << ",\"stratum\":\"" << st << "\",\"a\":" << jvec(a) << "}";
        REP->fail(os.str(), gname + "." + what + "." + st, static_cast<double>(rn));
      }
    };
    chk("dr_exp", mto_ld(G::dr_exp(a)), Jr, tol);
    // the free functions of the LieGroup interface must be the same maps
    chk("api_free_dr_exp", mto_ld(smooth::dr_exp<G>(a)), mto_ld(G::dr_exp(a)), sizeof(S) == 4 ? 1e-5 : 1e-13);
    chk("api_free_dl_exp", mto_ld(smooth::dl_exp<G>(a)), mto_ld(G::dl_exp(a)), sizeof(S) == 4 ? 1e-5 : 1e-13);
    {
      // left Jacobian: Jl(a) = Jr(-a) = Ad(exp a) Jr(a); oracle Ad = expm(ad a)
      MatX Jl = jr_oracle<G>(VecX(-av));
      chk("dl_exp", mto_ld(G::dl_exp(a)), Jl, tol);
      MatX AdJr = expm(ad_oracle<G>(av)) * Jr;
      chk("dl_exp_is_Ad_dr_exp", mto_ld(G::dl_exp(a)), AdJr, tol);
    }
    if (rn <= M_PIl - 1e-3L) {
      MatX Jri = Jr.inverse();
      chk("dr_expinv", mto_ld(G::dr_expinv(a)), Jri, tol);
      chk("api_free_dr_expinv", mto_ld(smooth::dr_expinv<G>(a)), mto_ld(G::dr_expinv(a)), sizeof(S) == 4 ? 1e-5 : 1e-13);
      chk("api_free_dl_expinv", mto_ld(smooth::dl_expinv<G>(a)), mto_ld(G::dl_expinv(a)), sizeof(S) == 4 ? 1e-5 : 1e-13);
      chk("dl_expinv", mto_ld(G::dl_expinv(a)), MatX(jr_oracle<G>(VecX(-av)).inverse()), tol);
      chk("dr_rminus", mto_ld(smooth::dr_rminus<G>(a)), Jri, tol);
      MatX sq = av.transpose() * Jri;
      chk("dr_rminus_squarednorm", mto_ld(smooth::dr_rminus_squarednorm<G>(a)), sq, tol);
    }
    // dr_action: d/de [ (g exp(e e_j)) . v ] at 0 = proj( M hat(e_j) vbar )
    if constexpr (D::act_n > 0 && requires(G gg, Eigen::Matrix<S, (D::act_n > 0 ? D::act_n : 1), 1> vv) { gg.dr_action(vv); }) {
      G g = gen_elem<G>(rng, nullptr, 1e2);
      Eigen::Matrix<S, D::act_n, 1> v;
      for (int i = 0; i < D::act_n; ++i) v(i) = static_cast<S>(strat_lin(rng, 1e2));
      MatX M = D::mat(to_ld(g.coeffs()));
      VecX vb(D::homog ? D::act_n + 1 : D::act_n);
      if (D::homog)
        vb << to_ld(v), 1;
      else
        vb = to_ld(v);
      MatX want(D::act_n, Dof);
      for (int j = 0; j < Dof; ++j) {
        VecX ej = VecX::Zero(Dof);
        ej(j)   = 1;
        VecX col = M * D::hat(ej) * vb;
        want.col(j) = col.head(D::act_n);
      }
      chk("dr_action", mto_ld(g.dr_action(v)), want, std::max(tol, sizeof(S) == 4 ? 1e-5 : 1e-12));
    }
    if (c == 0) {
      std::ostringstream os;
      os << "{\"group\":\"" << gname << "\",\"stratum\":\"" << st << "\",\"a\":" << jvec(a) << "}";
      REP->sample(os.str());
    }
  }
}

static int hv_main();
int main() { return hv::guard(hv_main); }
static int hv_main()
{
  Report rep;
  rep.property = "C04";
  REP          = &rep;
  Rng rng(seed_from_env());
  const int n = thorough() ? 1600 : 200;
  run_group<smooth::SO2d>(rng, n / 4, 1e-7);
  run_group<smooth::SO3d>(rng, n, 1e-7);
  run_group<smooth::SE2d>(rng, n, 1e-7);
  run_group<smooth::SE3d>(rng, n, 1e-7);
  run_group<smooth::C1d>(rng, n / 4, 1e-7);
  run_group<smooth::Galileid>(rng, n / 2, 1e-7);
  run_group<smooth::SE_K_3<double, 2>>(rng, n / 2, 1e-7);
  run_group<smooth::SO3f>(rng, n / 2, 1e-2);
  run_group<smooth::SE2f>(rng, n / 2, 1e-2);
  run_group<smooth::SE3f>(rng, n / 2, 1e-2);
  run_group<smooth::Galileif>(rng, n / 4, 1e-2);
  rep.print();
  return 0;
}
