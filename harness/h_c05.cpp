#define HV_EIGEN_ASSERT_THROWS
// C05 numeric harness: d2r_exp / d2r_expinv / d2l_* of the real library vs Richardson-differentiated independent
// long-double Jacobian oracle (documented layout), and the generic helpers d_matrix_product / d2_fog against
// polynomial matrix functions with exact derivatives.
#include "jacoracle.hpp"
#include <Eigen/Sparse>
#include <smooth/derivatives.hpp>
using namespace hv;
static Report * REP;

template<typename G>
void run_group(Rng & rng, int n, double tol)
{
  using D       = Doc<G>;
  using S       = typename G::Scalar;
  constexpr int Dof = G::Dof;
  const std::string gname = std::string(D::name) + (sizeof(S) == 4 ? "f" : "d");
  for (int c = 0; c < n; ++c) {
    std::string st;
    typename G::Tangent a = gen_tangent<G>(rng, &st, false, 1e3);
    ld rn = 0;
    for (int i = 0; i < D::rot_k; ++i) rn += static_cast<ld>(a(Dof - D::rot_k + i)) * static_cast<ld>(a(Dof - D::rot_k + i));
    rn = std::sqrt(rn);
    if (rn > M_PIl - 1e-3L) continue;
    ++REP->evaluations;
    ++REP->strata[st];
    VecX av = to_ld(a);
    ld scale_a = std::max<ld>(1, maxabs(av));
    auto Jr  = [](const VecX & x) { return jr_oracle<G>(x); };
    auto Jri = [](const VecX & x) { return MatX(jr_oracle<G>(x).inverse()); };
    MatX Hwant(Dof, Dof * Dof), Hiwant(Dof, Dof * Dof);
    for (int k = 0; k < Dof; ++k) {
      ld h     = 1e-3L * std::max<ld>(1e-2L, std::fabs(static_cast<double>(av(k))) + (k >= Dof - D::rot_k ? 1 : scale_a * 1e-2L));
      MatX dJ  = dmat_oracle(Jr, av, k, h);
      MatX dJi = dmat_oracle(Jri, av, k, h);
      for (int i = 0; i < Dof; ++i)
        for (int j = 0; j < Dof; ++j) {
          Hwant(j, Dof * i + k)  = dJ(i, j);
          Hiwant(j, Dof * i + k) = dJi(i, j);
        }
    }
    auto chk = [&](const char * what, const MatX & got, const MatX & want) {
      double e = static_cast<double>(maxabs(got - want) / std::max<ld>(1e-300L, maxabs(want)));
      if (maxabs(want) == 0) e = static_cast<double>(maxabs(got));
      REP->tally(gname + "." + what, e);
      if (!(e <= tol)) {
        std::ostringstream os;
        os.precision(17);
        os << "{\"group\":\"" << gname << "\",\"check\":\"" << what << "\",\"err\":" << e << ",\"tol\":" << tol
           << ",\"rotnorm\":" << static_cast<double>(rn) << ",\"stratum\":\"" << st << "\",\"a\":" << jvec(a) << "}";
        REP->fail(os.str(), gname + "." + what + "." + st, static_cast<double>(rn));
      }
    };
    chk("d2r_exp", mto_ld(G::d2r_exp(a)), Hwant);
    chk("api_free_d2r_exp", mto_ld(smooth::d2r_exp<G>(a)), mto_ld(G::d2r_exp(a)));
    chk("api_free_d2r_expinv", mto_ld(smooth::d2r_expinv<G>(a)), mto_ld(G::d2r_expinv(a)));
    chk("api_free_d2l_exp", mto_ld(smooth::d2l_exp<G>(a)), mto_ld(G::d2l_exp(a)));
    chk("api_free_d2l_expinv", mto_ld(smooth::d2l_expinv<G>(a)), mto_ld(G::d2l_expinv(a)));
    chk("d2r_expinv", mto_ld(G::d2r_expinv(a)), Hiwant);
    // left counterparts: d2l_exp(a) = - d2r_exp(-a) is the Hessian of the left Jacobian Jl(a) = Jr(-a)
    {
      typename G::Tangent na = -a;
      chk("d2l_exp_def", mto_ld(G::d2l_exp(a)), -mto_ld(G::d2r_exp(na)));
      chk("d2l_expinv_def", mto_ld(G::d2l_expinv(a)), -mto_ld(G::d2r_expinv(na)));
    }
    if (c == 0) {
      std::ostringstream os;
      os << "{\"group\":\"" << gname << "\",\"stratum\":\"" << st << "\",\"a\":" << jvec(a) << "}";
      REP->sample(os.str());
    }
  }
}

// polynomial matrix function M(x) = M0 + sum_v x_v M1_v + sum_{v<=w} x_v x_w M2_vw with exact derivatives
template<int N, int NV>
void run_dmp(Rng & rng, int n)
{
  using Mat  = Eigen::Matrix<double, N, N>;
  using DMat = Eigen::Matrix<double, N, N * NV>;
  for (int c = 0; c < n; ++c) {
    ++REP->evaluations;
    ++REP->strata["d_matrix_product"];
    Mat A0 = Mat::Random(), B0 = Mat::Random();
    std::array<Mat, NV> A1, B1;
    for (auto & m : A1) m = Mat::Random();
    for (auto & m : B1) m = Mat::Random();
    Eigen::Matrix<double, NV, 1> x = Eigen::Matrix<double, NV, 1>::Random();
    (void)rng;
    // A(x) = A0 + sum x_v A1_v ; dA layout: dA[j][NV*i + v] = d A[i][j] / d x_v
    Mat A = A0, B = B0;
    for (int v = 0; v < NV; ++v) A += x(v) * A1[static_cast<size_t>(v)], B += x(v) * B1[static_cast<size_t>(v)];
    DMat dA, dB, want;
    for (int i = 0; i < N; ++i)
      for (int j = 0; j < N; ++j)
        for (int v = 0; v < NV; ++v) {
          dA(j, NV * i + v) = A1[static_cast<size_t>(v)](i, j);
          dB(j, NV * i + v) = B1[static_cast<size_t>(v)](i, j);
        }
    for (int i = 0; i < N; ++i)
      for (int j = 0; j < N; ++j)
        for (int v = 0; v < NV; ++v) {
          // d (AB)[i][j] / dx_v
          want(j, NV * i + v) = (A1[static_cast<size_t>(v)] * B + A * B1[static_cast<size_t>(v)])(i, j);
        }
    DMat got = smooth::d_matrix_product(A, dA, B, dB);
    double e = (got - want).cwiseAbs().maxCoeff();
    REP->tally("d_matrix_product", e);
    if (!(e <= 1e-13)) {
      std::ostringstream os;
      os << "{\"check\":\"d_matrix_product\",\"N\":" << N << ",\"nvar\":" << NV << ",\"err\":" << e << "}";
      REP->fail(os.str(), "d_matrix_product", e);
    }
  }
}

// d2_fog: f: R^NY -> R^NO quadratic, g: R^NX -> R^NY quadratic; Hessian layout H[k][NX*i + l] = d2 (f o g)_i / dx_k dx_l
template<int NO, int NY, int NX, bool Sparse>
void run_fog(Rng & rng, int n)
{
  (void)rng;
  for (int c = 0; c < n; ++c) {
    ++REP->evaluations;
    ++REP->strata[Sparse ? "d2_fog_sparse" : "d2_fog_dense"];
    {
      std::ostringstream cur;
      cur << "{\"check\":\"d2_fog\",\"sparse\":" << Sparse << ",\"NO\":" << NO << ",\"NY\":" << NY << ",\"NX\":" << NX << ",\"case\":" << c << "}";
      REP->current = cur.str();
    }
    // f_i(y) = fl_i . y + 1/2 y' Fq_i y ; g_j(x) = gl_j . x + 1/2 x' Gq_j x
    Eigen::Matrix<double, NO, NY> fl = Eigen::Matrix<double, NO, NY>::Random();
    std::array<Eigen::Matrix<double, NY, NY>, NO> Fq;
    for (auto & m : Fq) {
      m = Eigen::Matrix<double, NY, NY>::Random();
      m = (m + m.transpose()).eval();
    }
    Eigen::Matrix<double, NY, NX> gl = Eigen::Matrix<double, NY, NX>::Random();
    std::array<Eigen::Matrix<double, NX, NX>, NY> Gq;
    for (auto & m : Gq) {
      m = Eigen::Matrix<double, NX, NX>::Random();
      m = (m + m.transpose()).eval();
    }
    Eigen::Matrix<double, NX, 1> x = Eigen::Matrix<double, NX, 1>::Random();
    Eigen::Matrix<double, NY, 1> y;
    Eigen::Matrix<double, NY, NX> Jg;
    for (int j = 0; j < NY; ++j) {
      y(j)      = gl.row(j) * x + 0.5 * x.dot(Gq[static_cast<size_t>(j)] * x);
      Jg.row(j) = gl.row(j) + (Gq[static_cast<size_t>(j)] * x).transpose();
    }
    Eigen::Matrix<double, NO, NY> Jf;
    for (int i = 0; i < NO; ++i) Jf.row(i) = fl.row(i) + (Fq[static_cast<size_t>(i)] * y).transpose();
    Eigen::Matrix<double, NY, NO * NY> Hf;
    for (int i = 0; i < NO; ++i) Hf.template middleCols<NY>(i * NY) = Fq[static_cast<size_t>(i)];
    Eigen::Matrix<double, NX, NY * NX> Hg;
    for (int j = 0; j < NY; ++j) Hg.template middleCols<NX>(j * NX) = Gq[static_cast<size_t>(j)];
    Eigen::Matrix<double, NX, NO * NX> want;
    for (int i = 0; i < NO; ++i) {
      Eigen::Matrix<double, NX, NX> H = Jg.transpose() * Fq[static_cast<size_t>(i)] * Jg;
      for (int j = 0; j < NY; ++j) H += Jf(i, j) * Gq[static_cast<size_t>(j)];
      want.template middleCols<NX>(i * NX) = H;
    }
    Eigen::Matrix<double, NX, NO * NX> got;
    try {
      if constexpr (Sparse) {
        Eigen::SparseMatrix<double> Jfs = Jf.sparseView();
        got                             = smooth::d2_fog(Jfs, Hf, Jg, Hg);
      } else {
        got = smooth::d2_fog(Jf, Hf, Jg, Hg);
      }
    } catch (const std::exception & ex) {
      std::ostringstream os;
      os << "{\"check\":\"d2_fog\",\"sparse\":" << Sparse << ",\"NO\":" << NO << ",\"NY\":" << NY << ",\"NX\":" << NX
         << ",\"err\":\"exception\",\"what\":\"out-of-range block access inside d2_fog (Eigen assertion)\"}";
      (void)ex;
      REP->fail(os.str(), "d2_fog_crash", 0);
      continue;
    }
    REP->current.clear();
    double e = (got - want).cwiseAbs().maxCoeff();
    REP->tally(Sparse ? "d2_fog_sparse" : "d2_fog_dense", e);
    if (!(e <= 1e-12)) {
      std::ostringstream os;
      os << "{\"check\":\"d2_fog\",\"sparse\":" << Sparse << ",\"NO\":" << NO << ",\"NY\":" << NY << ",\"NX\":" << NX << ",\"err\":" << e << "}";
      REP->fail(os.str(), "d2_fog", e);
    }
  }
}

static int hv_main();
int main() { return hv::guard(hv_main); }
static int hv_main()
{
  Report rep;
  rep.property = "C05";
  REP          = &rep;
  Rng rng(seed_from_env());
  std::srand(static_cast<unsigned>(seed_from_env()));
  const int n = thorough() ? 2000 : 150;
  run_group<smooth::SO3d>(rng, n, 1e-5);
  run_group<smooth::SE2d>(rng, n, 1e-5);
  run_group<smooth::SE3d>(rng, thorough() ? 600 : 40, 1e-5);
  run_group<smooth::SO2d>(rng, 20, 1e-5);
  run_group<smooth::C1d>(rng, 20, 1e-5);
  run_dmp<1, 1>(rng, n);
  run_dmp<2, 3>(rng, n);
  run_dmp<3, 2>(rng, n);
  run_dmp<4, 6>(rng, n);
  run_dmp<6, 4>(rng, n);
  run_dmp<5, 1>(rng, n);
  run_fog<1, 3, 2, false>(rng, n);
  run_fog<3, 2, 4, false>(rng, n);
  run_fog<2, 5, 3, true>(rng, n);
  run_fog<4, 1, 6, true>(rng, n);
  rep.print();
  return 0;
}
