#define HV_EIGEN_ASSERT_THROWS
// C06 numeric harness: every operation / Jacobian / Hessian of a Bundle vs the same operation on its parts as
// addressed by part<i>() (exact equality expected: same arithmetic), for a pool of compositions incl. nesting,
// repetition and Eigen vectors; Eigen vectors (static/dynamic) and scalars as additive groups.
#include "hcommon.hpp"
#include <smooth/bundle.hpp>
#include <smooth/c1.hpp>
#include <smooth/galilei.hpp>
#include <smooth/lie_groups.hpp>
#include <smooth/lie_groups/native.hpp>
#include <smooth/se2.hpp>
#include <smooth/se3.hpp>
#include <smooth/so2.hpp>
#include <smooth/so3.hpp>
using namespace hv;

template<typename G>
G rnd_elem(Rng & r)
{
  // exp of a stratified tangent (library exp: C02 is its own check; here only bundle-vs-parts consistency matters)
  Eigen::Matrix<double, smooth::Dof<G>, 1> a;
  for (int i = 0; i < a.size(); ++i) a(i) = strat_lin(r, 10);
  if (r.below(3) == 0) a *= 1e-5;
  return smooth::exp<G>(a);
}

static Report * REP;
static std::string CUR;

template<typename A, typename B>
void same(const char * what, const A & a, const B & b)
{
  double e = 0;
  if (a.rows() != b.rows() || a.cols() != b.cols())
    e = 1e300;
  else if (a.size())
    e = (a - b).cwiseAbs().maxCoeff();
  REP->tally(CUR + "." + what, e);
  if (!(e == 0)) {
    std::ostringstream os;
    os << "{\"bundle\":\"" << CUR << "\",\"check\":\"" << what << "\",\"err\":" << e << "}";
    REP->fail(os.str(), CUR + "." + what, e);
  }
}

template<typename G>
auto coeffs_of(const G & g)
{
  if constexpr (std::is_base_of_v<Eigen::MatrixBase<G>, G>)
    return Eigen::Matrix<double, -1, 1>(g);
  else
    return Eigen::Matrix<double, -1, 1>(g.coeffs());
}

template<typename Bn, std::size_t I = 0>
void per_part(const Bn & g, const Bn & h, const Eigen::Matrix<double, Bn::Dof, 1> & a, int rep_off, int dof_off)
{
  if constexpr (I < Bn::BundleSize) {
    using P          = typename Bn::template PartType<I>;
    constexpr int Dp = smooth::Dof<P>;
    constexpr int Dn = Bn::Dof;
    const P gp(g.template part<I>()), hp(h.template part<I>());
    const Eigen::Matrix<double, Dp, 1> ap = a.template segment<Dp>(dof_off);
    const int Rp                          = static_cast<int>(coeffs_of(gp).size());
    // the accessor addresses the documented segment
    same("part_view", coeffs_of(gp), g.coeffs().segment(rep_off, Rp));
    same("comp", coeffs_of(smooth::composition(gp, hp)), smooth::composition(g, h).coeffs().segment(rep_off, Rp));
    same("inv", coeffs_of(smooth::inverse(gp)), smooth::inverse(g).coeffs().segment(rep_off, Rp));
    same("log", smooth::log(gp), smooth::log(g).template segment<Dp>(dof_off));
    same("exp", coeffs_of(smooth::exp<P>(ap)), smooth::exp<Bn>(a).coeffs().segment(rep_off, Rp));
    same("Ad", smooth::Ad(gp), smooth::Ad(g).template block<Dp, Dp>(dof_off, dof_off));
    same("ad", smooth::ad<P>(ap), smooth::ad<Bn>(a).template block<Dp, Dp>(dof_off, dof_off));
    same("dr_exp", smooth::dr_exp<P>(ap), smooth::dr_exp<Bn>(a).template block<Dp, Dp>(dof_off, dof_off));
    same("dr_expinv", smooth::dr_expinv<P>(ap), smooth::dr_expinv<Bn>(a).template block<Dp, Dp>(dof_off, dof_off));
    if constexpr (requires { smooth::d2r_exp<P>(ap); smooth::d2r_exp<Bn>(a); }) {
      const auto Hp = smooth::d2r_exp<P>(ap);
      const auto Hb = smooth::d2r_exp<Bn>(a);
      const auto Ip = smooth::d2r_expinv<P>(ap);
      const auto Ib = smooth::d2r_expinv<Bn>(a);
      // documented stacked layout: H[B+r][Dof*(B+j)+B+c] = Hp[r][Dp*j+c]
      Eigen::MatrixXd got(Dp, Dp * Dp), goti(Dp, Dp * Dp);
      for (int r = 0; r < Dp; ++r)
        for (int j = 0; j < Dp; ++j)
          for (int c = 0; c < Dp; ++c) {
            got(r, Dp * j + c)  = Hb(dof_off + r, Dn * (dof_off + j) + dof_off + c);
            goti(r, Dp * j + c) = Ib(dof_off + r, Dn * (dof_off + j) + dof_off + c);
          }
      same("d2r_exp", Eigen::MatrixXd(Hp), got);
      same("d2r_expinv", Eigen::MatrixXd(Ip), goti);
    }
    per_part<Bn, I + 1>(g, h, a, rep_off + Rp, dof_off + Dp);
  }
}

template<typename Bn>
void off_blocks_zero(const Eigen::Matrix<double, Bn::Dof, 1> & a, const Bn & g)
{
  // everything outside the diagonal blocks (resp. the Hessian slots of the parts) must be exactly zero
  Eigen::MatrixXd A = smooth::Ad(g), J = smooth::dr_exp<Bn>(a), Ji = smooth::dr_expinv<Bn>(a), H, Hi;
  if constexpr (requires { smooth::d2r_exp<Bn>(a); }) {
    H  = smooth::d2r_exp<Bn>(a);
    Hi = smooth::d2r_expinv<Bn>(a);
  }
  int off = 0;
  smooth::utils::static_for<Bn::BundleSize>([&](auto I) {
    using P          = typename Bn::template PartType<I>;
    constexpr int Dp = smooth::Dof<P>;
    A.block(off, off, Dp, Dp).setZero();
    J.block(off, off, Dp, Dp).setZero();
    Ji.block(off, off, Dp, Dp).setZero();
    if (H.size())
      for (int j = 0; j < Dp; ++j) {
        H.block(off, Bn::Dof * (off + j) + off, Dp, Dp).setZero();
        Hi.block(off, Bn::Dof * (off + j) + off, Dp, Dp).setZero();
      }
    off += Dp;
  });
  same("Ad_offblocks_zero", A, Eigen::MatrixXd(Eigen::MatrixXd::Zero(A.rows(), A.cols())));
  same("dr_exp_offblocks_zero", J, Eigen::MatrixXd(Eigen::MatrixXd::Zero(J.rows(), J.cols())));
  same("dr_expinv_offblocks_zero", Ji, Eigen::MatrixXd(Eigen::MatrixXd::Zero(J.rows(), J.cols())));
  if (H.size()) {
    same("d2r_exp_offblocks_zero", H, Eigen::MatrixXd(Eigen::MatrixXd::Zero(H.rows(), H.cols())));
    same("d2r_expinv_offblocks_zero", Hi, Eigen::MatrixXd(Eigen::MatrixXd::Zero(H.rows(), H.cols())));
  }
}

template<typename Bn>
void run_bundle(const std::string & name, Rng & rng, int n)
{
  CUR = name;
  for (int c = 0; c < n; ++c) {
    Bn g = rnd_elem<Bn>(rng), h = rnd_elem<Bn>(rng);
    Eigen::Matrix<double, Bn::Dof, 1> a;
    for (int i = 0; i < a.size(); ++i) a(i) = strat_lin(rng, 10);
    if (rng.below(3) == 0) a *= 1e-5;
    ++REP->evaluations;
    ++REP->strata[name];
    per_part<Bn>(g, h, a, 0, 0);
    off_blocks_zero<Bn>(a, g);
    same("identity", smooth::Identity<Bn>().coeffs(), (g * g.inverse()).coeffs().unaryExpr([](double) { return 0.0; })
           + smooth::Identity<Bn>().coeffs());
    if (c == 0) {
      std::ostringstream os;
      os << "{\"bundle\":\"" << name << "\",\"g\":" << jvec(g.coeffs()) << ",\"a\":" << jvec(a) << "}";
      REP->sample(os.str());
    }
  }
}

template<typename V>
void run_rn(const std::string & name, Rng & rng, int n, int dim)
{
  CUR = name;
  for (int c = 0; c < n; ++c) {
    ++REP->evaluations;
    ++REP->strata[name];
    V g(dim), h(dim);
    for (int i = 0; i < dim; ++i) g(i) = strat_lin(rng), h(i) = strat_lin(rng);
    Eigen::VectorXd gd = g, hd = h;
    same("comp", Eigen::VectorXd(smooth::composition(g, h)), Eigen::VectorXd(gd + hd));
    same("inv", Eigen::VectorXd(smooth::inverse(g)), Eigen::VectorXd(-gd));
    same("log", Eigen::VectorXd(smooth::log(g)), gd);
    same("exp", Eigen::VectorXd(smooth::exp<V>(g)), gd);
    same("identity", Eigen::VectorXd(smooth::Identity<V>(dim)), Eigen::VectorXd(Eigen::VectorXd::Zero(dim)));
    same("Ad", Eigen::MatrixXd(smooth::Ad(g)), Eigen::MatrixXd(Eigen::MatrixXd::Identity(dim, dim)));
    same("ad", Eigen::MatrixXd(smooth::ad<V>(g)), Eigen::MatrixXd(Eigen::MatrixXd::Zero(dim, dim)));
    same("dr_exp", Eigen::MatrixXd(smooth::dr_exp<V>(g)), Eigen::MatrixXd(Eigen::MatrixXd::Identity(dim, dim)));
    same("dr_expinv", Eigen::MatrixXd(smooth::dr_expinv<V>(g)), Eigen::MatrixXd(Eigen::MatrixXd::Identity(dim, dim)));
    same("d2r_exp", Eigen::MatrixXd(smooth::d2r_exp<V>(g)), Eigen::MatrixXd(Eigen::MatrixXd::Zero(dim, dim * dim)));
    same("d2r_expinv", Eigen::MatrixXd(smooth::d2r_expinv<V>(g)), Eigen::MatrixXd(Eigen::MatrixXd::Zero(dim, dim * dim)));
    same("dof", Eigen::Matrix<double, 1, 1>(double(smooth::dof(g))), Eigen::Matrix<double, 1, 1>(double(dim)));
  }
}

static int hv_main();
int main() { return hv::guard(hv_main); }
static int hv_main()
{
  Report rep;
  rep.property = "C06";
  REP          = &rep;
  Rng rng(seed_from_env());
  const int n = thorough() ? 3000 : 300;
  using namespace smooth;
  using V1 = Eigen::Vector<double, 1>;
  using V2 = Eigen::Vector2d;
  using V3 = Eigen::Vector3d;
  using V5 = Eigen::Vector<double, 5>;
  run_bundle<Bundle<SO3d, V3>>("SO3xT3", rng, n);
  run_bundle<Bundle<V2, SE2d>>("T2xSE2", rng, n);
  run_bundle<Bundle<SE2d, SO3d, V1, SO2d>>("SE2xSO3xT1xSO2", rng, n);
  run_bundle<Bundle<SO3d, SO3d>>("SO3xSO3", rng, n);
  run_bundle<Bundle<Bundle<SO2d, V2>, SE3d>>("(SO2xT2)xSE3", rng, n);
  run_bundle<Bundle<C1d, SE3d>>("C1xSE3", rng, n);
  // compositions that are NOT traced (order, repetition, nesting, commutative-only, singleton)
  run_bundle<Bundle<SE3d, SO3d, SE3d>>("SE3xSO3xSE3", rng, n);
  run_bundle<Bundle<V5, SO2d, C1d>>("T5xSO2xC1", rng, n);
  run_bundle<Bundle<SE2d>>("SE2", rng, n);
  run_bundle<Bundle<V3, Bundle<SO3d, Bundle<V1, SE2d>>, SO2d>>("T3x(SO3x(T1xSE2))xSO2", rng, n);
  run_bundle<Bundle<SO3d, SE2d, SO3d, SE2d>>("SO3xSE2xSO3xSE2", rng, n);
  run_rn<V1>("Vector1", rng, n, 1);
  run_rn<V3>("Vector3", rng, n, 3);
  run_rn<V5>("Vector5", rng, n, 5);
  run_rn<Eigen::VectorXd>("VectorX0", rng, n, 0);
  run_rn<Eigen::VectorXd>("VectorX1", rng, n, 1);
  run_rn<Eigen::VectorXd>("VectorX7", rng, n, 7);
  // scalars
  CUR = "double";
  for (int c = 0; c < n; ++c) {
    ++rep.evaluations;
    double g = strat_lin(rng), h = strat_lin(rng);
    using M1 = Eigen::Matrix<double, 1, 1>;
    same("comp", M1(smooth::composition(g, h)), M1(g + h));
    same("inv", M1(smooth::inverse(g)), M1(-g));
    same("log", smooth::log(g), M1(g));
    same("exp", M1(smooth::exp<double>(M1(g))), M1(g));
    same("Ad", smooth::Ad(g), M1(1.0));
    same("ad", smooth::ad<double>(M1(g)), M1(0.0));
    same("dr_exp", smooth::dr_exp<double>(M1(g)), M1(1.0));
    same("dr_expinv", smooth::dr_expinv<double>(M1(g)), M1(1.0));
    same("d2r_exp", smooth::d2r_exp<double>(M1(g)), M1(0.0));
    same("d2r_expinv", smooth::d2r_expinv<double>(M1(g)), M1(0.0));
  }
  rep.print();
  return 0;
}
