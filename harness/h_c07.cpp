// C07 correspondence + property harness for the Manifold adaptors at the base manifold Q^n.
//
//   h_c07 <programs-out> <trace-out>
//
// Generates programs over a register file of manifold objects (all adaptor kinds), executes them on the REAL library
// (/repo headers) and writes (1) the programs, one operation per line, for the extracted Coq model
// (extract/C07/driver.ml reads them) and (2) the canonical result line of every operation.  Independently of the
// model, every result is compared with an ORACLE written from the property statement (integer arithmetic on the
// flattened coordinates: rplus adds the tangent on the free coordinates in order, rminus subtracts, dof counts,
// cast/copy are the identity and independent) - a difference is a concrete failing input of property C07.
// All numbers are integers k standing for the dyadic rational k/8 (exact in binary64).
// Last line of stdout: a JSON report.  Every random choice derives from VERIF_SEED.
//
// NDEBUG: SubManifold<std::vector<...>>::rminus does not compile with assertions enabled (the assert calls
// m_m0.isApprox, which std::vector does not have); Eigen's own assertions are kept as exceptions instead.
#ifndef NDEBUG
#define NDEBUG
#endif
#include <stdexcept>
#define eigen_assert(x)                                              \
  do {                                                               \
    if (!(x)) throw std::logic_error("eigen_assert failed: " #x);    \
  } while (0)

#include <algorithm>
#include <array>
#include <cmath>
#include <cstdio>
#include <fstream>
#include <map>
#include <optional>
#include <set>
#include <sstream>
#include <string>
#include <variant>
#include <vector>

#include <Eigen/Core>

#include "smooth/manifolds.hpp"
#include "smooth/manifolds/any.hpp"
#include "smooth/manifolds/submanifold.hpp"

#include "hcommon.hpp"

using VX   = Eigen::VectorXd;
using V3   = Eigen::Vector3d;
using D    = double;
using SVX  = std::vector<VX>;
using SV3  = std::vector<V3>;
using SUBX = smooth::SubManifold<VX>;
using SUBS = smooth::SubManifold<SV3>;
using VAR  = std::variant<V3, VX, SV3, SUBX, D>;
using ANY  = smooth::AnyManifold;
using Val  = std::variant<VX, V3, D, SVX, SV3, SUBX, SUBS, VAR, ANY>;

static_assert(smooth::Manifold<VX> && smooth::Manifold<V3> && smooth::Manifold<D>);
static_assert(smooth::Manifold<SVX> && smooth::Manifold<SV3>);
static_assert(smooth::Manifold<SUBX> && smooth::Manifold<SUBS>);
static_assert(smooth::Manifold<VAR> && smooth::Manifold<ANY>);

enum Kind { KVX = 0, KV3, KD, KSVX, KSV3, KSUBX, KSUBS };
enum Wrap { WP = 0, WV, WA };
static const char * kind_name[] = {"VectorXd", "Vector3d", "double", "std::vector<VectorXd>", "std::vector<Vector3d>",
                                   "SubManifold<VectorXd>", "SubManifold<std::vector<Vector3d>>"};
static const char * wrap_name[] = {"plain", "std::variant", "AnyManifold"};
static int var_index_of_kind(int k) { return k == KV3 ? 0 : k == KVX ? 1 : k == KSV3 ? 2 : k == KSUBX ? 3 : k == KD ? 4 : -1; }

using IVec = std::vector<long>;

// ---------------------------------------------------------------------------------------------------------------
// oracle value: flattened integer coordinates, written from the property statement (not from the code)
struct OVal
{
  int kind = 0, wrap = 0;
  std::vector<IVec> m0, m;   // m0 only for the SubManifold kinds
  std::vector<int> fixed;    // sorted, SubManifold kinds only
  bool null_any = false;     // moved-from AnyManifold
  bool tainted  = false;     // the real object already disagreed with the oracle (checks are suspended)
  bool is_sub() const { return kind == KSUBX || kind == KSUBS; }
  long ncoord() const
  {
    long n = 0;
    for (auto & v : m) n += static_cast<long>(v.size());
    return n;
  }
  long dof() const { return ncoord() - static_cast<long>(fixed.size()); }
};

static std::string ivec_str(const IVec & v)
{
  std::string s;
  for (size_t i = 0; i < v.size(); ++i) s += (i ? " " : "") + std::to_string(v[i]);
  return s;
}
static std::string node(int tag, const std::string & body) { return "(" + std::to_string(tag) + (body.empty() ? "" : " " + body) + ")"; }
static std::string dump_vecs_oracle(int kind, const std::vector<IVec> & m)
{
  switch (kind) {
  case KVX: return node(0, ivec_str(m[0]));
  case KV3: return node(1, ivec_str(m[0]));
  case KD: return node(2, ivec_str(m[0]));
  case KSVX:
  case KSV3: {
    std::string b;
    for (size_t i = 0; i < m.size(); ++i) b += (i ? " " : "") + node(kind == KSVX ? 0 : 1, ivec_str(m[i]));
    return node(kind == KSVX ? 3 : 4, b);
  }
  }
  return "?";
}
static std::string fixed_str(const std::vector<int> & f)
{
  std::string b;
  for (size_t i = 0; i < f.size(); ++i) b += (i ? " #" : "#") + std::to_string(f[i]);
  return node(9, b);
}
static std::string dump_plain_oracle(const OVal & o)
{
  if (o.kind == KSUBX) return node(5, dump_vecs_oracle(KVX, o.m0) + " " + dump_vecs_oracle(KVX, o.m) + " " + fixed_str(o.fixed));
  if (o.kind == KSUBS) return node(6, dump_vecs_oracle(KSV3, o.m0) + " " + dump_vecs_oracle(KSV3, o.m) + " " + fixed_str(o.fixed));
  return dump_vecs_oracle(o.kind, o.m);
}
static std::string dump_oracle(const OVal & o)
{
  if (o.wrap == WV) return node(7, "#" + std::to_string(var_index_of_kind(o.kind)) + " " + dump_plain_oracle(o));
  if (o.wrap == WA) return o.null_any ? "null" : node(8, dump_plain_oracle(o));
  return dump_plain_oracle(o);
}
// rplus: add the tangent on the free coordinates, in order
static OVal oracle_rplus(const OVal & x, const IVec & a)
{
  OVal y = x;
  long i = 0;
  size_t j = 0;
  for (auto & v : y.m)
    for (auto & c : v) {
      const bool is_fixed = std::binary_search(x.fixed.begin(), x.fixed.end(), static_cast<int>(i));
      if (!is_fixed) c += a.at(j++);
      ++i;
    }
  return y;
}
// rminus: coordinate difference on the free coordinates, in order
static IVec oracle_rminus(const OVal & x, const OVal & y)
{
  IVec t;
  long i = 0;
  for (size_t p = 0; p < x.m.size(); ++p)
    for (size_t q = 0; q < x.m[p].size(); ++q) {
      const bool is_fixed = std::binary_search(x.fixed.begin(), x.fixed.end(), static_cast<int>(i));
      if (!is_fixed) t.push_back(x.m[p][q] - y.m.at(p).at(q));
      ++i;
    }
  return t;
}
// is y in the image of rplus(x, .) ?  (same origin / fixed dims / shape, equal on the fixed coordinates)
static bool same_shape(const OVal & x, const OVal & y)
{
  if (x.kind != y.kind || x.m.size() != y.m.size()) return false;
  for (size_t p = 0; p < x.m.size(); ++p)
    if (x.m[p].size() != y.m[p].size()) return false;
  return true;
}
static bool oracle_reachable(const OVal & x, const OVal & y)
{
  if (!same_shape(x, y) || x.fixed != y.fixed || x.m0 != y.m0) return false;
  long i = 0;
  for (size_t p = 0; p < x.m.size(); ++p)
    for (size_t q = 0; q < x.m[p].size(); ++q) {
      if (std::binary_search(x.fixed.begin(), x.fixed.end(), static_cast<int>(i)) && x.m[p][q] != y.m[p][q]) return false;
      ++i;
    }
  return true;
}

// ---------------------------------------------------------------------------------------------------------------
// real objects
static Eigen::VectorXd to_eig(const IVec & v)
{
  Eigen::VectorXd r(static_cast<Eigen::Index>(v.size()));
  for (size_t i = 0; i < v.size(); ++i) r(static_cast<Eigen::Index>(i)) = static_cast<double>(v[i]) / 8.0;
  return r;
}
static std::string num_str(double x)
{
  const double y = x * 8.0;
  if (std::isfinite(y) && std::fabs(y) < 1e15 && y == std::floor(y)) return std::to_string(static_cast<long>(y));
  char buf[64];
  std::snprintf(buf, sizeof buf, "%a", x);
  return buf;
}
template<typename Vec>
static std::string eig_str(const Vec & v)
{
  std::string s;
  for (Eigen::Index i = 0; i < v.size(); ++i) s += (i ? " " : "") + num_str(v(i));
  return s;
}
static std::string dump_real(const VX & x) { return node(0, eig_str(x)); }
static std::string dump_real(const V3 & x) { return node(1, eig_str(x)); }
static std::string dump_real(const D & x) { return node(2, num_str(x)); }
static std::string dump_real(const SVX & l)
{
  std::string b;
  for (size_t i = 0; i < l.size(); ++i) b += (i ? " " : "") + dump_real(l[i]);
  return node(3, b);
}
static std::string dump_real(const SV3 & l)
{
  std::string b;
  for (size_t i = 0; i < l.size(); ++i) b += (i ? " " : "") + dump_real(l[i]);
  return node(4, b);
}
static std::string fixed_real(const Eigen::VectorXi & f)
{
  std::string b;
  for (Eigen::Index i = 0; i < f.size(); ++i) b += (i ? " #" : "#") + std::to_string(f(i));
  return node(9, b);
}
static std::string dump_real(const SUBX & s) { return node(5, dump_real(s.m0()) + " " + dump_real(s.m()) + " " + fixed_real(s.fixed_dims())); }
static std::string dump_real(const SUBS & s) { return node(6, dump_real(s.m0()) + " " + dump_real(s.m()) + " " + fixed_real(s.fixed_dims())); }
static std::string dump_real(const VAR & v)
{
  return node(7, "#" + std::to_string(v.index()) + " " + std::visit([](const auto & x) { return dump_real(x); }, v));
}
template<typename F>
static auto with_kind(int kind, F && f)
{
  switch (kind) {
  case KVX: return f(std::type_identity<VX>{});
  case KV3: return f(std::type_identity<V3>{});
  case KD: return f(std::type_identity<D>{});
  case KSVX: return f(std::type_identity<SVX>{});
  case KSV3: return f(std::type_identity<SV3>{});
  case KSUBX: return f(std::type_identity<SUBX>{});
  default: return f(std::type_identity<SUBS>{});
  }
}
static std::string dump_any(const ANY & a, int kind)
{
  return node(8, with_kind(kind, [&](auto tag) {
                using X = typename decltype(tag)::type;
                return dump_real(a.get<X>());
              }));
}

// a literal: oracle value + the (unsorted) fixed dims handed to the real constructor
struct Lit
{
  OVal o;
  std::vector<int> fixed_unsorted;
};
static std::string vec_tokens(const IVec & v) { return std::to_string(v.size()) + (v.empty() ? "" : " " + ivec_str(v)); }
static std::string vecs_tokens(const std::vector<IVec> & l)
{
  std::string s = std::to_string(l.size());
  for (auto & v : l) s += " " + vec_tokens(v);
  return s;
}
static std::string lit_tokens(const Lit & l)
{
  std::string s = std::to_string(l.o.kind) + " ";
  std::string f = std::to_string(l.fixed_unsorted.size());
  for (int x : l.fixed_unsorted) f += " " + std::to_string(x);
  switch (l.o.kind) {
  case KVX:
  case KV3:
  case KD: return s + vec_tokens(l.o.m[0]);
  case KSVX:
  case KSV3: return s + vecs_tokens(l.o.m);
  case KSUBX: return s + vec_tokens(l.o.m0[0]) + " " + vec_tokens(l.o.m[0]) + " " + f;
  default: return s + vecs_tokens(l.o.m0) + " " + vecs_tokens(l.o.m) + " " + f;
  }
}
static SV3 to_sv3(const std::vector<IVec> & l)
{
  SV3 r;
  for (auto & v : l) r.push_back(V3(to_eig(v)));
  return r;
}
static Eigen::VectorXi to_fixed(const std::vector<int> & f)
{
  Eigen::VectorXi r(static_cast<Eigen::Index>(f.size()));
  for (size_t i = 0; i < f.size(); ++i) r(static_cast<Eigen::Index>(i)) = f[i];
  return r;
}
template<typename X>
static X make_plain(const Lit & l)
{
  if constexpr (std::is_same_v<X, VX>) {
    return to_eig(l.o.m[0]);
  } else if constexpr (std::is_same_v<X, V3>) {
    return V3(to_eig(l.o.m[0]));
  } else if constexpr (std::is_same_v<X, D>) {
    return static_cast<double>(l.o.m[0][0]) / 8.0;
  } else if constexpr (std::is_same_v<X, SVX>) {
    SVX r;
    for (auto & v : l.o.m) r.push_back(to_eig(v));
    return r;
  } else if constexpr (std::is_same_v<X, SV3>) {
    return to_sv3(l.o.m);
  } else if constexpr (std::is_same_v<X, SUBX>) {
    return SUBX(to_eig(l.o.m0[0]), to_eig(l.o.m[0]), to_fixed(l.fixed_unsorted));   // the real constructor (sorts)
  } else {
    return SUBS(to_sv3(l.o.m0), to_sv3(l.o.m), to_fixed(l.fixed_unsorted));
  }
}

// ---------------------------------------------------------------------------------------------------------------
struct Failures
{
  std::map<std::string, int> per_key;
  std::vector<std::string> list;
  long nfail = 0;
  void add(const std::string & key, const std::string & json)
  {
    ++nfail;
    if (per_key[key]++ < 2 && list.size() < 80) list.push_back(json);
  }
};
static std::string jesc(const std::string & s)
{
  std::string r;
  for (char c : s) {
    if (c == '"' || c == '\\') r += '\\';
    r += c;
  }
  return r;
}

struct Machine
{
  std::array<std::optional<Val>, 8> reg;
  std::array<std::optional<OVal>, 8> ora;
  std::ofstream & prog;
  std::ofstream & trace;
  Failures & F;
  long nops = 0, nprog = 0, nchecks = 0;
  std::map<std::string, long> strata;
  std::vector<std::string> cur_prog;   // lines of the current program (for failure records)
  std::set<std::string> distinct;
  std::string stratum;

  Machine(std::ofstream & p, std::ofstream & t, Failures & f) : prog(p), trace(t), F(f) {}

  void reset(const std::string & s)
  {
    for (auto & r : reg) r.reset();
    for (auto & o : ora) o.reset();
    prog << "R\n";
    trace << "R\n";
    cur_prog.clear();
    ++nprog;
    stratum = s;
    ++strata["programs:" + s];
  }
  void fail(const std::string & check, const std::string & signature, int r, const std::string & impl, const std::string & want)
  {
    const OVal * o = (r >= 0 && ora[static_cast<size_t>(r)]) ? &*ora[static_cast<size_t>(r)] : nullptr;
    std::ostringstream js;
    js << "{\"check\":\"" << check << "\",\"signature\":\"" << signature << "\",\"type\":\""
       << (o ? kind_name[o->kind] : "?") << "\",\"wrap\":\"" << (o ? wrap_name[o->wrap] : "?") << "\",\"case\":\""
       << stratum << "#" << nprog << "\",\"op\":\"" << jesc(cur_prog.empty() ? "" : cur_prog.back()) << "\",\"impl\":\""
       << jesc(impl) << "\",\"expected\":\"" << jesc(want) << "\",\"program\":[";
    for (size_t i = 0; i < cur_prog.size(); ++i) js << (i ? "," : "") << "\"" << jesc(cur_prog[i]) << "\"";
    js << "]}";
    F.add(check + "/" + signature + "/" + (o ? kind_name[o->kind] : "?") + "/" + (o ? wrap_name[o->wrap] : "?"), js.str());
  }
  void line(const std::string & op, const std::string & result)
  {
    prog << op << "\n";
    trace << result << "\n";
    ++nops;
  }
  static std::string dump_val(const Val & v, int kind, bool null_any)
  {
    if (std::holds_alternative<ANY>(v)) {
      if (null_any) return "null";
      return dump_any(std::get<ANY>(v), kind);
    }
    return std::visit(
      [](const auto & x) -> std::string {
        if constexpr (std::is_same_v<std::decay_t<decltype(x)>, ANY>) {
          return "";
        } else {
          return dump_real(x);
        }
      },
      v);
  }
  std::string dump_reg(size_t r) const { return dump_val(*reg[r], ora[r]->kind, ora[r]->null_any); }
  // compare the real register with the oracle register
  void check_reg(const std::string & check, size_t r)
  {
    if (!ora[r] || ora[r]->tainted) return;
    ++nchecks;
    const std::string got = dump_reg(r), want = dump_oracle(*ora[r]);
    if (got != want) {
      fail(check, "value_differs_from_oracle", static_cast<int>(r), got, want);
      ora[r]->tainted = true;
    }
  }

  // ---- operations (each writes one program line and one trace line) ----
  void op_new(size_t r, int wrap, const Lit & l)
  {
    cur_prog.push_back("N " + std::to_string(r) + " " + std::to_string(wrap) + " " + lit_tokens(l));
    with_kind(l.o.kind, [&](auto tag) {
      using X = typename decltype(tag)::type;
      X x     = make_plain<X>(l);
      if (wrap == WP) {
        reg[r].emplace(std::in_place_type<X>, x);
      } else if (wrap == WV) {
        if constexpr (std::is_same_v<X, V3> || std::is_same_v<X, VX> || std::is_same_v<X, SV3> || std::is_same_v<X, SUBX> || std::is_same_v<X, D>) {
          reg[r].emplace(std::in_place_type<VAR>, VAR(std::in_place_type<X>, x));
        } else {
          throw std::logic_error("generator: kind is not a variant alternative");
        }
      } else {
        reg[r].emplace(std::in_place_type<ANY>, ANY(x));
      }
      return 0;
    });
    OVal o = l.o;
    o.wrap = wrap;
    ora[r] = o;
    line(cur_prog.back(), "ok");
    check_reg("construct", r);
    distinct.insert(dump_oracle(o));
  }
  void op_rplus(size_t d, size_t s, const IVec & a)
  {
    cur_prog.push_back("P " + std::to_string(d) + " " + std::to_string(s) + " " + vec_tokens(a));
    const Eigen::VectorXd ae = to_eig(a);
    Val res                  = std::visit(
      [&](const auto & x) -> Val {
        using X = std::decay_t<decltype(x)>;
        return Val(std::in_place_type<X>, smooth::rplus(x, ae));
      },
      *reg[s]);
    OVal o   = oracle_rplus(*ora[s], a);
    reg[d]   = std::move(res);
    ora[d]   = o;
    line(cur_prog.back(), "val " + dump_reg(d));
    check_reg("rplus", d);
    ++strata[std::string("rplus:") + kind_name[o.kind] + "/" + wrap_name[o.wrap]];
    if (d != s && ora[s] && !ora[d]->tainted && !ora[s]->tainted) {
      // the axioms, directly on the real code (not part of the trace)
      ++nchecks;
      const IVec t = real_rminus(d, s);
      if (t != a) fail("rminus_rplus", "rminus(rplus(m,a),m)!=a", static_cast<int>(s), ivec_str(t), ivec_str(a));
      const long dd = real_dof(d);
      if (dd != static_cast<long>(a.size())) fail("dof", "dof(rplus(m,a))!=size(a)", static_cast<int>(s), std::to_string(dd), std::to_string(a.size()));
    }
  }
  IVec real_rminus(size_t r1, size_t r2)
  {
    Eigen::VectorXd t = std::visit(
      [&](const auto & x) -> Eigen::VectorXd {
        using X = std::decay_t<decltype(x)>;
        return smooth::rminus(x, std::get<X>(*reg[r2]));
      },
      *reg[r1]);
    IVec r;
    for (Eigen::Index i = 0; i < t.size(); ++i) {
      const double y = t(i) * 8.0;
      r.push_back(y == std::floor(y) && std::fabs(y) < 1e15 ? static_cast<long>(y) : 999999999L);
    }
    return r;
  }
  long real_dof(size_t r)
  {
    return static_cast<long>(std::visit([](const auto & x) { return smooth::dof(x); }, *reg[r]));
  }
  void op_rminus(size_t r1, size_t r2)
  {
    cur_prog.push_back("M " + std::to_string(r1) + " " + std::to_string(r2));
    const OVal &o1 = *ora[r1], &o2 = *ora[r2];
    if (o1.wrap == WV && o2.wrap == WV && o1.kind != o2.kind) {
      // different alternatives: std::get<Mi>(m2) must throw std::bad_variant_access
      std::string res = "no exception";
      try {
        real_rminus(r1, r2);
      } catch (const std::bad_variant_access &) {
        res = "throw 1";
      }
      line(cur_prog.back(), res);
      ++nchecks;
      ++strata["rminus:variant alternative mismatch"];
      return;
    }
    const IVec t = real_rminus(r1, r2);
    line(cur_prog.back(), "tan [" + ivec_str(t) + "]");
    ++strata[std::string("rminus:") + kind_name[o1.kind] + "/" + wrap_name[o1.wrap]];
    if (o1.tainted || o2.tainted) return;
    ++nchecks;
    const IVec want = oracle_rminus(o1, o2);
    if (t != want) fail("rminus", r1 == r2 ? "rminus(m,m)!=0" : "difference_differs_from_oracle", static_cast<int>(r1), ivec_str(t), ivec_str(want));
    if (static_cast<long>(t.size()) != o1.dof()) fail("dof", "size(rminus)!=dof", static_cast<int>(r1), std::to_string(t.size()), std::to_string(o1.dof()));
    if (oracle_reachable(o2, o1)) {
      // rplus(m, rminus(m2, m)) = m2, on the real code (not part of the trace)
      ++nchecks;
      const Eigen::VectorXd te = to_eig(t);
      const std::string back   = std::visit(
        [&](const auto & x) -> std::string {
          using X = std::decay_t<decltype(x)>;
          const Val v(std::in_place_type<X>, smooth::rplus(x, te));
          return dump_val(v, o1.kind, false);
        },
        *reg[r2]);
      if (back != dump_oracle(o1)) fail("rplus_rminus", "rplus(m,rminus(m2,m))!=m2", static_cast<int>(r1), back, dump_oracle(o1));
    }
  }
  void op_dof(size_t r)
  {
    cur_prog.push_back("D " + std::to_string(r));
    const long d = real_dof(r);
    line(cur_prog.back(), "dof " + std::to_string(d));
    if (ora[r]->tainted) return;
    ++nchecks;
    if (d != ora[r]->dof()) fail("dof", "dof_differs_from_oracle", static_cast<int>(r), std::to_string(d), std::to_string(ora[r]->dof()));
  }
  // returns false when the cast threw (AnyManifold)
  bool op_cast(size_t d, size_t s)
  {
    cur_prog.push_back("C " + std::to_string(d) + " " + std::to_string(s));
    if (ora[s]->wrap == WA) {
      std::string res = "no exception";
      try {
        (void)smooth::cast<double>(std::get<ANY>(*reg[s]));
      } catch (const std::runtime_error &) {
        res = "throw 2";
      }
      line(cur_prog.back(), res);
      return false;
    }
    Val res = std::visit(
      [&](const auto & x) -> Val {
        using X = std::decay_t<decltype(x)>;
        if constexpr (std::is_same_v<X, ANY>) {
          throw std::logic_error("unreachable");
        } else {
          return Val(std::in_place_type<X>, smooth::cast<double>(x));
        }
      },
      *reg[s]);
    const std::string before_src = dump_reg(s);
    OVal o                       = *ora[s];
    reg[d]                       = std::move(res);
    ora[d]                       = o;
    line(cur_prog.back(), "val " + dump_reg(d));
    ++strata[std::string("cast:") + kind_name[o.kind] + "/" + wrap_name[o.wrap]];
    if (!o.tainted) {
      ++nchecks;
      const std::string got = dump_reg(d), want = dump_oracle(o);
      if (got != want) {
        // is it exactly "origin and value swapped" ?
        OVal sw = o;
        std::swap(sw.m0, sw.m);
        if (o.is_sub() && got == dump_oracle(sw)) {
          fail("cast_same_scalar", "m0_m_swapped", static_cast<int>(d), got, want);
          ora[d] = sw;   // follow the real state so that later operations are still judged
        } else {
          fail("cast_same_scalar", "other", static_cast<int>(d), got, want);
          ora[d]->tainted = true;
        }
      }
      if (d != s && dump_reg(s) != before_src) fail("cast_independent", "source_changed", static_cast<int>(s), dump_reg(s), before_src);
    }
    return true;
  }
  void op_copy(size_t d, size_t s)
  {
    cur_prog.push_back("Y " + std::to_string(d) + " " + std::to_string(s));
    if (std::holds_alternative<ANY>(*reg[s]) && reg[d] && std::holds_alternative<ANY>(*reg[d])) {
      std::get<ANY>(*reg[d]) = std::get<ANY>(*reg[s]);   // AnyManifold copy assignment
      ++strata["copy:AnyManifold copy-assign"];
    } else {
      Val c(*reg[s]);                                    // copy construction
      reg[d] = std::move(c);
      ++strata[std::string("copy:") + wrap_name[ora[s]->wrap] + " copy-construct"];
    }
    ora[d] = *ora[s];
    line(cur_prog.back(), "ok");
    check_reg("copy_identical", d);
  }
  void op_set(size_t r, const Lit & l)
  {
    cur_prog.push_back("U " + std::to_string(r) + " " + lit_tokens(l));
    const int wrap = ora[r]->wrap;
    with_kind(l.o.kind, [&](auto tag) {
      using X = typename decltype(tag)::type;
      X x     = make_plain<X>(l);
      if (wrap == WP) {
        std::get<X>(*reg[r]) = x;
      } else if (wrap == WV) {
        if constexpr (std::is_same_v<X, V3> || std::is_same_v<X, VX> || std::is_same_v<X, SV3> || std::is_same_v<X, SUBX> || std::is_same_v<X, D>) {
          std::get<VAR>(*reg[r]) = x;
        }
      } else {
        std::get<ANY>(*reg[r]).get<X>() = x;             // write through the owned cell
      }
      return 0;
    });
    OVal o = l.o;
    o.wrap = wrap;
    ora[r] = o;
    line(cur_prog.back(), "ok");
    check_reg("set", r);
  }
  void op_move(size_t d, size_t s)
  {
    cur_prog.push_back("V " + std::to_string(d) + " " + std::to_string(s));
    ANY moved(std::move(std::get<ANY>(*reg[s])));
    reg[d].emplace(std::in_place_type<ANY>, std::move(moved));
    ora[d]           = *ora[s];
    ora[s]->null_any = true;
    line(cur_prog.back(), "ok");
    ++strata["move:AnyManifold"];
    check_reg("move", d);
  }
  void op_dump(size_t r, const char * why)
  {
    cur_prog.push_back("S " + std::to_string(r));
    line(cur_prog.back(), "val " + dump_reg(r));
    check_reg(why, r);
  }
};

// ---------------------------------------------------------------------------------------------------------------
// generators
struct Gen
{
  hv::Rng rng;
  explicit Gen(uint64_t seed) : rng(seed) {}
  long coord() { return rng.below(5) == 0 ? 0 : static_cast<long>(rng.below(129)) - 64; }
  long tang() { return rng.below(6) == 0 ? 0 : static_cast<long>(rng.below(65)) - 32; }
  IVec vec(int n, bool tangent = false)
  {
    IVec v(static_cast<size_t>(n));
    for (auto & c : v) c = tangent ? tang() : coord();
    return v;
  }
  IVec tangent(long n) { return vec(static_cast<int>(n), true); }
  std::vector<int> shuffled(std::vector<int> f)
  {
    for (size_t i = f.size(); i > 1; --i) std::swap(f[i - 1], f[static_cast<size_t>(rng.below(static_cast<int>(i)))]);
    return f;
  }
  // plain kinds
  Lit lit_vec(int kind, int n)
  {
    Lit l;
    l.o.kind = kind;
    l.o.m    = {vec(kind == KV3 ? 3 : kind == KD ? 1 : n)};
    return l;
  }
  Lit lit_svx(int size)
  {
    Lit l;
    l.o.kind = KSVX;
    for (int i = 0; i < size; ++i) l.o.m.push_back(vec(rng.below(4)));   // element dof 0..3 (dynamic, incl. empty)
    return l;
  }
  Lit lit_sv3(int size)
  {
    Lit l;
    l.o.kind = KSV3;
    for (int i = 0; i < size; ++i) l.o.m.push_back(vec(3));
    return l;
  }
  // SubManifold with the given fixed set (mask over n coordinates); value differs from the origin on free coordinates
  Lit lit_sub(int kind, int n, unsigned mask, bool moved = true)
  {
    Lit l;
    l.o.kind = kind;
    if (kind == KSUBX) {
      l.o.m0 = {vec(n)};
    } else {
      for (int i = 0; i < n / 3; ++i) l.o.m0.push_back(vec(3));
    }
    l.o.m = l.o.m0;
    for (int i = 0; i < n; ++i)
      if (mask & (1u << i)) l.o.fixed.push_back(i);
    if (moved) {
      int i = 0;
      for (auto & v : l.o.m)
        for (auto & c : v) {
          if (!(mask & (1u << i))) c += 1 + rng.below(40);
          ++i;
        }
    }
    l.fixed_unsorted = shuffled(l.o.fixed);
    return l;
  }
  Lit lit_like(const OVal & o)   // a fresh literal of the same C++ type and shape (for in-place overwrite)
  {
    Lit l;
    l.o.kind = o.kind;
    for (auto & v : o.m) l.o.m.push_back(vec(static_cast<int>(v.size())));
    if (o.is_sub()) {
      for (auto & v : o.m0) l.o.m0.push_back(vec(static_cast<int>(v.size())));
      l.o.fixed        = o.fixed;
      l.fixed_unsorted = shuffled(o.fixed);
    }
    return l;
  }
};

// the standard battery on one literal: every operation of the property, incl. cast and copy-then-mutate
static void battery(Machine & M, Gen & G, const Lit & l, int wrap, const std::string & stratum)
{
  M.reset(stratum);
  M.op_new(0, wrap, l);
  M.op_dump(0, "construct");
  M.op_dof(0);
  const long dof = M.ora[0]->dof();
  M.op_rplus(1, 0, G.tangent(dof));
  M.op_rminus(1, 0);
  M.op_rminus(0, 0);
  M.op_rplus(2, 1, G.tangent(dof));
  M.op_rminus(2, 0);
  M.op_rminus(0, 2);
  M.op_dof(2);
  // cast: identical behaviour and independence
  if (M.op_cast(3, 2)) {
    M.op_dof(3);
    const IVec a = G.tangent(M.ora[3]->dof());
    M.op_rplus(4, 3, a);
    M.op_rplus(5, 2, a);
    M.op_rminus(4, 3);
    M.op_set(3, G.lit_like(*M.ora[3]));
    M.op_dump(2, "cast_independent");
    M.op_dump(3, "set");
  }
  // copy then mutate the copy / the original
  M.op_copy(6, 1);
  M.op_dump(6, "copy_identical");
  M.op_set(6, G.lit_like(*M.ora[6]));
  M.op_dump(1, "copy_independent");
  M.op_dump(6, "set");
  M.op_copy(6, 0);              // copy ASSIGNMENT over a live object (AnyManifold::operator=)
  M.op_set(0, G.lit_like(*M.ora[0]));
  M.op_dump(6, "copy_independent");
  M.op_dump(0, "set");
  M.op_rplus(6, 6, G.tangent(M.ora[6]->dof()));   // destination == source
  if (wrap == WA) {
    M.op_move(5, 6);
    M.op_dump(5, "move");
    M.op_copy(6, 5);            // copy-assign into a moved-from AnyManifold
    M.op_dump(6, "copy_identical");
  }
}

static Lit random_lit(Gen & G, int kind)
{
  switch (kind) {
  case KVX: return G.lit_vec(KVX, G.rng.below(9));
  case KV3: return G.lit_vec(KV3, 3);
  case KD: return G.lit_vec(KD, 1);
  case KSVX: return G.lit_svx(G.rng.below(9));
  case KSV3: return G.lit_sv3(G.rng.below(9));
  case KSUBX: {
    const int n = G.rng.below(7);
    return G.lit_sub(KSUBX, n, static_cast<unsigned>(G.rng.below(1 << n)), G.rng.below(4) != 0);
  }
  default: {
    const int n = 3 * G.rng.below(3);
    return G.lit_sub(KSUBS, n, static_cast<unsigned>(G.rng.below(1 << n)), G.rng.below(4) != 0);
  }
  }
}

// random programs over the whole register file
static void random_program(Machine & M, Gen & G, int nops)
{
  M.reset("random");
  for (int step = 0; step < nops; ++step) {
    std::vector<size_t> live;
    for (size_t r = 0; r < 7; ++r)
      if (M.ora[r] && !M.ora[r]->null_any) live.push_back(r);
    const int c = live.empty() ? 0 : G.rng.below(10);
    const size_t d = static_cast<size_t>(G.rng.below(7));
    if (c == 0 || live.size() < 2) {
      const int kind = G.rng.below(7);
      int wrap       = G.rng.below(3);
      if (wrap == WV && var_index_of_kind(kind) < 0) wrap = WP;
      if (M.ora[d] && M.ora[d]->null_any) { /* overwrite a moved-from object: fine */ }
      M.op_new(d, wrap, random_lit(G, kind));
      continue;
    }
    const size_t s = live[static_cast<size_t>(G.rng.below(static_cast<int>(live.size())))];
    switch (c) {
    case 1:
    case 2:
    case 3: M.op_rplus(d, s, G.tangent(M.ora[s]->dof())); break;
    case 4:
    case 5: {
      // a partner of the same C++ type and shape; variants may hold different alternatives (throws)
      std::vector<size_t> cand;
      for (size_t r : live) {
        const OVal &a = *M.ora[r], &b = *M.ora[s];
        if (a.wrap != b.wrap) continue;
        if (a.wrap == WV && a.kind != b.kind) {
          cand.push_back(r);
          continue;
        }
        if (same_shape(a, b) && a.fixed == b.fixed && a.m0 == b.m0) cand.push_back(r);
      }
      M.op_rminus(s, cand[static_cast<size_t>(G.rng.below(static_cast<int>(cand.size())))]);
      break;
    }
    case 6: M.op_dof(s); break;
    case 7:
      if (d != s) M.op_cast(d, s);
      break;
    case 8:
      if (d != s) {
        M.op_copy(d, s);
        M.op_set(G.rng.below(2) ? d : s, G.lit_like(*M.ora[s]));
        M.op_dump(s, "copy_independent");
        M.op_dump(d, "copy_independent");
      }
      break;
    default:
      if (M.ora[s]->wrap == WA && d != s && G.rng.below(2)) {
        M.op_move(d, s);
      } else {
        M.op_dump(s, "dump");
      }
    }
  }
}

int main(int argc, char ** argv)
{
  if (argc < 3) {
    std::fprintf(stderr, "usage: h_c07 <programs-out> <trace-out>\n");
    return 2;
  }
  std::ofstream prog(argv[1]), trace(argv[2]);
  Failures F;
  Machine M(prog, trace, F);
  Gen G(hv::seed_from_env() * 0x9e3779b97f4a7c15ULL + 7);
  const int mult = hv::thorough() ? 10 : 1;
  std::string crash;
  try {
    // (A) SubManifold<VectorXd>: EVERY subset of fixed dims for every dof 0..6, each wrapper
    for (int rep = 0; rep < 3 * mult; ++rep)
      for (int n = 0; n <= 6; ++n)
        for (unsigned mask = 0; mask < (1u << n); ++mask) {
          const int wrap = static_cast<int>((mask + static_cast<unsigned>(n) + static_cast<unsigned>(rep)) % 3);
          battery(M, G, G.lit_sub(KSUBX, n, mask), wrap, "SubManifold<VectorXd> all subsets n<=6");
        }
    // (B) SubManifold<std::vector<Vector3d>>: every subset for dof 0, 3, 6
    for (int rep = 0; rep < mult; ++rep)
      for (int n = 0; n <= 6; n += 3)
        for (unsigned mask = 0; mask < (1u << n); ++mask)
          battery(M, G, G.lit_sub(KSUBS, n, mask), (mask + static_cast<unsigned>(rep)) % 2 ? WA : WP, "SubManifold<std::vector<Vector3d>> all subsets");
    // (C) SubManifold whose value equals its origin (the cast defect is invisible there) - boundary stream
    for (int n = 0; n <= 6; ++n) battery(M, G, G.lit_sub(KSUBX, n, static_cast<unsigned>(G.rng.below(1 << n)), false), n % 3, "SubManifold value==origin");
    // (D) std::vector of every size 0..8, static and dynamic element dof, each wrapper
    for (int rep = 0; rep < 3 * mult; ++rep)
      for (int size = 0; size <= 8; ++size) {
        battery(M, G, G.lit_svx(size), (size + rep) % 2 ? WA : WP, "std::vector<VectorXd> sizes 0..8");
        battery(M, G, G.lit_sv3(size), (size + rep) % 3, "std::vector<Vector3d> sizes 0..8");
      }
    // (E) base manifolds: VectorXd of every size 0..8, Vector3d, double; each wrapper
    for (int rep = 0; rep < 2 * mult; ++rep) {
      for (int n = 0; n <= 8; ++n) battery(M, G, G.lit_vec(KVX, n), (n + rep) % 3, "VectorXd sizes 0..8");
      for (int w = 0; w < 3; ++w) {
        battery(M, G, G.lit_vec(KV3, 3), w, "Vector3d");
        battery(M, G, G.lit_vec(KD, 1), w, "double");
      }
    }
    // (F) every variant alternative, incl. rminus across alternatives (must throw)
    for (int rep = 0; rep < 4 * mult; ++rep)
      for (int k1 : {KV3, KVX, KSV3, KSUBX, KD})
        for (int k2 : {KV3, KVX, KSV3, KSUBX, KD}) {
          M.reset("std::variant alternative pairs");
          M.op_new(0, WV, random_lit(G, k1));
          M.op_new(1, WV, random_lit(G, k2));
          M.op_dof(0);
          M.op_dof(1);
          M.op_rplus(2, 0, G.tangent(M.ora[0]->dof()));
          M.op_rminus(2, 0);
          if (k1 != k2) {
            M.op_rminus(0, 1);
            M.op_rminus(1, 0);
          }
          M.op_copy(3, 1);
          M.op_set(3, random_lit(G, k1));   // re-assign a different alternative to the copy
          M.op_dump(1, "copy_independent");
          M.op_dump(3, "set");
          M.op_cast(4, 0);
          M.op_dump(4, "dump");
        }
    // (G) random programs
    for (int i = 0; i < 3000 * mult; ++i) random_program(M, G, 10 + G.rng.below(14));
  } catch (const std::exception & e) {
    crash = e.what();
  }
  prog.close();
  trace.close();

  std::printf("{\"property\":\"C07\",\"evaluations\":%ld,\"programs\":%ld,\"oracle_checks\":%ld,\"distinct_literals\":%zu,\"nfail\":%ld,\"crash\":\"%s\",\"last_program\":[",
              M.nops, M.nprog, M.nchecks, M.distinct.size(), F.nfail, jesc(crash).c_str());
  if (!crash.empty())
    for (size_t i = 0; i < M.cur_prog.size(); ++i) std::printf("%s\"%s\"", i ? "," : "", jesc(M.cur_prog[i]).c_str());
  std::printf("],\"strata\":{");
  bool first = true;
  for (auto & kv : M.strata) {
    std::printf("%s\"%s\":%ld", first ? "" : ",", jesc(kv.first).c_str(), kv.second);
    first = false;
  }
  std::printf("},\"failures\":[");
  for (size_t i = 0; i < F.list.size(); ++i) std::printf("%s%s", i ? "," : "", F.list[i].c_str());
  std::printf("]}\n");
  return 0;
}
